(* C19 - lemmas used by the translator tie (harness/C19/TieInt*.v): facts about N bit operations and word bounds, and
   the bridges between the shapes tools/c2int.py emits (machine arithmetic written out: a wrap at every unsigned shift,
   one read / one store per C statement) and the shapes of the hand model C19/IntDefs.v.  Nothing here mentions generated
   code; the statements are about IntDefs and the standard library only. *)
From Coq Require Import NArith ZArith PeanoNat List Bool Lia.
From LibaV Require Import C19.IntDefs.
Import ListNotations.
Local Open Scope N_scope.

(* ------------------------------------------------------------------ words *)
Lemma wrap_land_ones w x : wrap w x = N.land x (N.ones w).
Proof. unfold wrap. symmetry. apply N.land_ones. Qed.

Lemma wrap_lt w x : wrap w x < 2 ^ w.
Proof. unfold wrap. apply N.mod_lt. apply N.pow_nonzero. discriminate. Qed.

Lemma wrap_small w x : x < 2 ^ w -> wrap w x = x.
Proof. intros H. unfold wrap. apply N.mod_small. exact H. Qed.

Lemma land_ones_small w x : x < 2 ^ w -> N.land x (N.ones w) = x.
Proof. intros H. rewrite N.land_ones. apply N.mod_small. exact H. Qed.

Lemma wrap_lor w a b : wrap w (N.lor a b) = N.lor (wrap w a) (wrap w b).
Proof. rewrite !wrap_land_ones. apply N.land_lor_distr_l. Qed.

Lemma wrap_lxor w a b : wrap w (N.lxor a b) = N.lxor (wrap w a) (wrap w b).
Proof.
  rewrite !wrap_land_ones. apply N.bits_inj. intros i.
  rewrite N.land_spec, !N.lxor_spec, !N.land_spec. destruct (N.testbit (N.ones w) i), (N.testbit a i), (N.testbit b i); reflexivity.
Qed.

Lemma land_lt_l w x m : x < 2 ^ w -> N.land x m < 2 ^ w.
Proof.
  intros H. rewrite <- (land_ones_small w x H), <- N.land_assoc, (N.land_comm (N.ones w) m), N.land_assoc, N.land_ones.
  apply N.mod_lt. apply N.pow_nonzero. discriminate.
Qed.

(* a mask with no bit at or above k bounds the result whatever the other operand is *)
Lemma land_mask_lt x m k : N.land m (N.ones k) = m -> N.land x m < 2 ^ k.
Proof.
  intros H. rewrite <- H, N.land_assoc, N.land_ones. apply N.mod_lt. apply N.pow_nonzero. discriminate.
Qed.

Lemma lor_lt w a b : a < 2 ^ w -> b < 2 ^ w -> N.lor a b < 2 ^ w.
Proof.
  intros Ha Hb. rewrite <- (wrap_small w a Ha), <- (wrap_small w b Hb), <- wrap_lor. apply wrap_lt.
Qed.

Lemma lxor_lt w a b : a < 2 ^ w -> b < 2 ^ w -> N.lxor a b < 2 ^ w.
Proof.
  intros Ha Hb. rewrite <- (wrap_small w a Ha), <- (wrap_small w b Hb), <- wrap_lxor. apply wrap_lt.
Qed.

Lemma shiftr_le x k : N.shiftr x k <= x.
Proof.
  rewrite N.shiftr_div_pow2. destruct (N.eq_dec x 0) as [->|Hx]; [rewrite N.div_0_l; [lia|apply N.pow_nonzero; discriminate]|].
  apply N.div_le_upper_bound; [apply N.pow_nonzero; discriminate|].
  assert (0 < 2 ^ k) by (apply N.neq_0_lt_0, N.pow_nonzero; discriminate). nia.
Qed.

Lemma shiftr_lt w x k : x < 2 ^ w -> N.shiftr x k < 2 ^ w.
Proof. intros H. eapply N.le_lt_trans; [apply shiftr_le|exact H]. Qed.

Lemma shiftl_lt a k n : a < 2 ^ n -> N.shiftl a k < 2 ^ (n + k).
Proof.
  intros H. rewrite N.shiftl_mul_pow2, N.pow_add_r.
  apply N.mul_lt_mono_pos_r; [apply N.neq_0_lt_0, N.pow_nonzero; discriminate|exact H].
Qed.

(* the overflow check c2int writes for a left shift of a (signed) int: it never fires when the operand has n bits and
   n + k stays below the sign bit *)
Lemma shl_int_ok a k n : a < 2 ^ n -> (n + k <=? 31) = true -> (0x80000000 <=? N.shiftl a k) = false.
Proof.
  intros H E. apply N.leb_le in E. apply N.leb_gt.
  eapply N.lt_le_trans; [apply (shiftl_lt a k n H)|]. change 0x80000000 with (2 ^ 31). apply N.pow_le_mono_r; [discriminate|exact E].
Qed.

Lemma pow2_le_lt a n m : a < 2 ^ n -> (n <=? m) = true -> a < 2 ^ m.
Proof. intros H E. apply N.leb_le in E. eapply N.lt_le_trans; [exact H|]. apply N.pow_le_mono_r; [discriminate|exact E]. Qed.

(* ------------------------------------------------------------------ bit reversal stages *)
Lemma stage_lt w k m1 m2 x : stage w k m1 m2 x < 2 ^ w.
Proof. apply wrap_lt. Qed.

(* a_u32_rev / a_u64_rev: unsigned arithmetic, the left shift wraps on its own, the `|` does not *)
Lemma stage_gen w k m1 m2 x : x < 2 ^ w ->
  N.lor (N.shiftr (N.land x m1) k) (wrap w (N.shiftl (N.land x m2) k)) = stage w k m1 m2 x.
Proof.
  intros H. unfold stage. rewrite wrap_lor. f_equal. symmetry. apply wrap_small, shiftr_lt, land_lt_l, H.
Qed.

(* the first line of every a_u*_rev has no mask; the model writes the full mask *)
Lemma stage_gen0 w k x : x < 2 ^ w ->
  N.lor (N.shiftr x k) (wrap w (N.shiftl x k)) = stage w k (N.ones w) (N.ones w) x.
Proof. intros H. rewrite <- (stage_gen w k _ _ x H), (land_ones_small w x H). reflexivity. Qed.

(* a_u8_rev / a_u16_rev: operands promoted to int, one truncation by the cast *)
Lemma stage_int0 w k x : x < 2 ^ w ->
  wrap w (N.lor (N.shiftr x k) (N.shiftl x k)) = stage w k (N.ones w) (N.ones w) x.
Proof. intros H. unfold stage. rewrite (land_ones_small w x H). reflexivity. Qed.

(* ------------------------------------------------------------------ byte-order accessors *)
Lemma lor_0_l' a : N.lor 0 a = a.
Proof. reflexivity. Qed.

Lemma byte_shl_wrap w c k : c < 2 ^ 8 -> (8 + k <=? w) = true -> wrap w (N.shiftl c k) = N.shiftl c k.
Proof.
  intros H E. apply wrap_small. eapply pow2_le_lt; [apply (shiftl_lt c k 8 H)|exact E].
Qed.

(* ------------------------------------------------------------------ memory: the accessors c2int's prelude defines
   (the same text; a tie file identifies its module's copy with this one by `change`, the definitions are convertible) *)
Fixpoint upd (l : list N) (i : nat) (v : N) : option (list N) :=
  match l, i with
  | [], _ => None
  | _ :: t, O => Some (v :: t)
  | h :: t, S i' => match upd t i' v with Some t' => Some (h :: t') | None => None end
  end.
Definition load (l : list N) (i : N) : option N := nth_error l (N.to_nat i).
Definition store (l : list N) (i v : N) : option (list N) := upd l (N.to_nat i) v.

Lemma upd_spec : forall l i v, (i < length l)%nat -> upd l i v = Some (firstn i l ++ v :: skipn (S i) l).
Proof.
  induction l as [|h t IH]; intros i v H; [cbn in H; lia|].
  destruct i as [|i]; [reflexivity|]. cbn [upd]. rewrite IH by (cbn in H; lia). reflexivity.
Qed.

Lemma upd_none : forall l i v, (length l <= i)%nat -> upd l i v = None.
Proof.
  induction l as [|h t IH]; intros i v H; [destruct i; reflexivity|].
  destruct i as [|i]; [cbn in H; lia|]. cbn [upd]. rewrite IH by (cbn in H; lia). reflexivity.
Qed.

Lemma store_spec l i v : (N.to_nat i < length l)%nat ->
  store l i v = Some (firstn (N.to_nat i) l ++ v :: skipn (S (N.to_nat i)) l).
Proof. apply upd_spec. Qed.

Lemma load_app pre c rest : load (pre ++ c :: rest) (N.of_nat (length pre)) = Some c.
Proof.
  unfold load. rewrite Nat2N.id, nth_error_app2 by lia. rewrite Nat.sub_diag. reflexivity.
Qed.

Lemma load_end l : load l (N.of_nat (length l)) = None.
Proof. unfold load. rewrite Nat2N.id. apply nth_error_None. lia. Qed.

(* ------------------------------------------------------------------ counters *)
Lemma wrap_dec w n : 0 < n -> n < 2 ^ w -> wrap w (n + 2 ^ w - 1) = n - 1.
Proof.
  intros H0 H. unfold wrap. replace (n + 2 ^ w - 1) with ((n - 1) + 1 * 2 ^ w) by lia.
  rewrite N.mod_add by (apply N.pow_nonzero; discriminate). apply N.mod_small. lia.
Qed.

Lemma wrap_inc w n : n + 1 < 2 ^ w -> wrap w (n + 1) = n + 1.
Proof. apply wrap_small. Qed.

Lemma wrap_add_l w a b : wrap w (wrap w a + b) = wrap w (a + b).
Proof. unfold wrap. apply N.add_mod_idemp_l. apply N.pow_nonzero. discriminate. Qed.

(* ------------------------------------------------------------------ signed intermediates carried in Z
   (c2int computes every signed subtraction in Z, with the range check of the type; here the values are small naturals) *)
Lemma zrange_ok n : n < 2 ^ 31 ->
  orb (Z.ltb (Z.of_N n) (-2147483648)%Z) (Z.ltb 2147483647%Z (Z.of_N n)) = false.
Proof.
  intros H. change (2 ^ 31) with 2147483648 in H. apply orb_false_intro; apply Z.ltb_ge; lia.
Qed.

Lemma znonneg n : Z.ltb (Z.of_N n) 0 = false.
Proof. apply Z.ltb_ge. lia. Qed.

Lemma z_shiftr_of_N a k : Z.shiftr (Z.of_N a) (Z.of_N k) = Z.of_N (N.shiftr a k).
Proof.
  rewrite Z.shiftr_div_pow2 by lia. rewrite N.shiftr_div_pow2, N2Z.inj_div, N2Z.inj_pow. reflexivity.
Qed.
