From Coq Require Import NArith Arith PeanoNat Lia List Bool Btauto.
From LibaV Require Import C19.IntDefs.
Import ListNotations.
Local Open Scope N_scope.

(* ---------------- GF(2) lifting ---------------- *)
Definition linear (f : N -> N) : Prop := forall a b, f (N.lxor a b) = N.lxor (f a) (f b).

Lemma linear_0 f : linear f -> f 0 = 0.
Proof. intros L. pose proof (L 0 0) as H. rewrite N.lxor_0_r in H. rewrite H at 1. apply N.lxor_nilpotent. Qed.

Lemma split_top (w x : N) : x < 2 ^ (N.succ w) ->
  x = N.lxor (x mod 2 ^ w) (if N.testbit x w then 2 ^ w else 0).
Proof.
  intros Hx. apply N.bits_inj. intro n. rewrite N.lxor_spec.
  destruct (N.lt_trichotomy n w) as [Hlt|[->|Hgt]].
  - rewrite N.mod_pow2_bits_low by exact Hlt.
    destruct (N.testbit x w).
    + rewrite N.pow2_bits_false by lia. btauto.
    + rewrite N.bits_0. btauto.
  - rewrite N.mod_pow2_bits_high by lia.
    destruct (N.testbit x w) eqn:E.
    + rewrite N.pow2_bits_true. reflexivity.
    + rewrite N.bits_0. reflexivity.
  - rewrite N.mod_pow2_bits_high by lia.
    assert (N.testbit x n = false) as ->.
    { destruct (N.eq_dec x 0) as [->|Hx0]; [apply N.bits_0|].
      apply N.bits_above_log2. apply N.log2_lt_pow2 in Hx; lia. }
    destruct (N.testbit x w).
    + rewrite N.pow2_bits_false by lia. reflexivity.
    + rewrite N.bits_0. reflexivity.
Qed.

Lemma lift (w : nat) f g : linear f -> linear g ->
  (forall i, (i < w)%nat -> f (2 ^ N.of_nat i) = g (2 ^ N.of_nat i)) ->
  forall x, x < 2 ^ N.of_nat w -> f x = g x.
Proof.
  intros Lf Lg. induction w as [|w IH]; intros Hb x Hx.
  - assert (x = 0) by (cbn in Hx; lia). subst x. rewrite (linear_0 f Lf), (linear_0 g Lg). reflexivity.
  - rewrite Nat2N.inj_succ in Hx.
    rewrite (split_top (N.of_nat w) x Hx). rewrite Lf, Lg. f_equal.
    + apply IH; [intros i Hi; apply Hb; lia|]. apply N.mod_upper_bound. apply N.pow_nonzero. lia.
    + destruct (N.testbit x (N.of_nat w)).
      * apply Hb. lia.
      * rewrite (linear_0 f Lf), (linear_0 g Lg). reflexivity.
Qed.

(* ---------------- the swap stage is linear ---------------- *)
Lemma lxor_swap4 a b c d : N.lxor (N.lxor a b) (N.lxor c d) = N.lxor (N.lxor a c) (N.lxor b d).
Proof. apply N.bits_inj. intro n. rewrite !N.lxor_spec. btauto. Qed.

Lemma land_lxor_l a b c : N.land (N.lxor a b) c = N.lxor (N.land a c) (N.land b c).
Proof. apply N.bits_inj. intro n. rewrite !N.lxor_spec, !N.land_spec, N.lxor_spec. btauto. Qed.

Lemma disjoint_parts k m1 m2 x :
  N.land (N.shiftr m1 k) (N.shiftl m2 k) = 0 ->
  N.land (N.shiftr (N.land x m1) k) (N.shiftl (N.land x m2) k) = 0.
Proof.
  intros H. rewrite N.shiftr_land, N.shiftl_land.
  apply N.bits_inj. intro n. rewrite !N.land_spec, N.bits_0.
  assert (E : N.testbit (N.land (N.shiftr m1 k) (N.shiftl m2 k)) n = false) by (rewrite H; apply N.bits_0).
  rewrite N.land_spec in E.
  destruct (N.testbit (N.shiftr m1 k) n), (N.testbit (N.shiftl m2 k) n); try discriminate; btauto.
Qed.

Lemma stage_linear w k m1 m2 :
  N.land (N.shiftr m1 k) (N.shiftl m2 k) = 0 -> linear (stage w k m1 m2).
Proof.
  intros H a b. unfold stage, wrap.
  rewrite <- !N.land_ones.
  rewrite <- !N.lxor_lor by (apply disjoint_parts; exact H).
  repeat (rewrite ?land_lxor_l, ?N.shiftr_lxor, ?N.shiftl_lxor).
  apply N.bits_inj. intro n. rewrite !N.lxor_spec. btauto.
Qed.

Lemma stage_lxor w k m1 m2 a b :
  N.land (N.shiftr m1 k) (N.shiftl m2 k) = 0 ->
  stage w k m1 m2 (N.lxor a b) = N.lxor (stage w k m1 m2 a) (stage w k m1 m2 b).
Proof. intros H. apply stage_linear. exact H. Qed.

Lemma u8_rev_linear : linear u8_rev.
Proof. intros a b. unfold u8_rev. cbv zeta. repeat (rewrite stage_lxor by reflexivity). reflexivity. Qed.
Lemma u16_rev_linear : linear u16_rev.
Proof. intros a b. unfold u16_rev. cbv zeta. repeat (rewrite stage_lxor by reflexivity). reflexivity. Qed.
Lemma u32_rev_linear : linear u32_rev.
Proof. intros a b. unfold u32_rev. cbv zeta. repeat (rewrite stage_lxor by reflexivity). reflexivity. Qed.
Lemma u64_rev_linear : linear u64_rev.
Proof. intros a b. unfold u64_rev. cbv zeta. repeat (rewrite stage_lxor by reflexivity). reflexivity. Qed.

(* ---------------- the specification ---------------- *)
Lemma rev_bits_spec : forall n w x i,
  N.testbit (rev_bits n w x) (N.of_nat i) = (Nat.ltb i n) && N.testbit x (N.of_nat (w - 1 - i)).
Proof.
  induction n as [|n IH]; intros w x i.
  - cbn [rev_bits]. rewrite N.bits_0. reflexivity.
  - cbn [rev_bits]. cbv zeta.
    destruct (Nat.eq_dec i n) as [->|Hne].
    + replace (Nat.ltb n (S n)) with true by (symmetry; apply Nat.ltb_lt; lia).
      destruct (N.testbit x (N.of_nat (w - 1 - n))) eqn:E.
      * rewrite N.setbit_eq. reflexivity.
      * rewrite IH. replace (Nat.ltb n n) with false by (symmetry; apply Nat.ltb_ge; lia). reflexivity.
    + assert (Hs : Nat.ltb i (S n) = Nat.ltb i n).
      { destruct (Nat.ltb_spec i n), (Nat.ltb_spec i (S n)); try reflexivity; lia. }
      rewrite Hs.
      destruct (N.testbit x (N.of_nat (w - 1 - n))).
      * rewrite N.setbit_neq by lia. apply IH.
      * apply IH.
Qed.

Lemma rev_bits_high n w x j : N.of_nat n <= j -> N.testbit (rev_bits n w x) j = false.
Proof.
  intros H. rewrite <- (N2Nat.id j). rewrite rev_bits_spec.
  replace (Nat.ltb (N.to_nat j) n) with false; [reflexivity|]. symmetry. apply Nat.ltb_ge. lia.
Qed.

Lemma rev_spec_linear w : linear (rev_spec w).
Proof.
  intros a b. unfold rev_spec. apply N.bits_inj. intro j. rewrite N.lxor_spec.
  rewrite <- (N2Nat.id j). rewrite !rev_bits_spec, N.lxor_spec.
  destruct (Nat.ltb (N.to_nat j) w); cbn; [reflexivity|reflexivity].
Qed.

Lemma rev_spec_lt w x : rev_spec w x < 2 ^ N.of_nat w.
Proof.
  destruct (N.eq_dec (rev_spec w x) 0) as [->|Hne]; [apply N.neq_0_lt_0, N.pow_nonzero; lia|].
  apply N.log2_lt_pow2; [lia|].
  destruct (N.lt_ge_cases (N.log2 (rev_spec w x)) (N.of_nat w)) as [H|H]; [exact H|exfalso].
  pose proof (N.bit_log2 (rev_spec w x) Hne) as Hb.
  unfold rev_spec in Hb at 1. rewrite rev_bits_high in Hb by exact H. discriminate.
Qed.

(* basis agreement: a finite sweep of w words, by computation *)
Definition agree_on_basis (w : nat) (f : N -> N) : bool :=
  forallb (fun i => f (2 ^ N.of_nat i) =? rev_spec w (2 ^ N.of_nat i)) (seq 0 w).

Lemma agree_on_basis_sound w f : agree_on_basis w f = true ->
  forall i, (i < w)%nat -> f (2 ^ N.of_nat i) = rev_spec w (2 ^ N.of_nat i).
Proof.
  unfold agree_on_basis. rewrite forallb_forall. intros H i Hi.
  apply N.eqb_eq. apply H. apply in_seq. lia.
Qed.

Theorem u8_rev_eq x : x < 2 ^ 8 -> u8_rev x = rev_spec 8 x.
Proof. apply (lift 8 u8_rev (rev_spec 8) u8_rev_linear (rev_spec_linear 8)). apply agree_on_basis_sound. vm_compute. reflexivity. Qed.
Theorem u16_rev_eq x : x < 2 ^ 16 -> u16_rev x = rev_spec 16 x.
Proof. apply (lift 16 u16_rev (rev_spec 16) u16_rev_linear (rev_spec_linear 16)). apply agree_on_basis_sound. vm_compute. reflexivity. Qed.
Theorem u32_rev_eq x : x < 2 ^ 32 -> u32_rev x = rev_spec 32 x.
Proof. apply (lift 32 u32_rev (rev_spec 32) u32_rev_linear (rev_spec_linear 32)). apply agree_on_basis_sound. vm_compute. reflexivity. Qed.
Theorem u64_rev_eq x : x < 2 ^ 64 -> u64_rev x = rev_spec 64 x.
Proof. apply (lift 64 u64_rev (rev_spec 64) u64_rev_linear (rev_spec_linear 64)). apply agree_on_basis_sound. vm_compute. reflexivity. Qed.

(* generic consequences *)
Section Rev.
  Variable w : nat.
  Variable rev : N -> N.
  Hypothesis rev_eq : forall x, x < 2 ^ N.of_nat w -> rev x = rev_spec w x.

  Lemma rev_mirror x i : x < 2 ^ N.of_nat w -> (i < w)%nat ->
    N.testbit (rev x) (N.of_nat i) = N.testbit x (N.of_nat (w - 1 - i)).
  Proof.
    intros Hx Hi. rewrite rev_eq by exact Hx. unfold rev_spec. rewrite rev_bits_spec.
    replace (Nat.ltb i w) with true by (symmetry; apply Nat.ltb_lt; exact Hi). reflexivity.
  Qed.

  Lemma rev_range x : x < 2 ^ N.of_nat w -> rev x < 2 ^ N.of_nat w.
  Proof. intros Hx. rewrite rev_eq by exact Hx. apply rev_spec_lt. Qed.

  Lemma rev_involutive x : x < 2 ^ N.of_nat w -> rev (rev x) = x.
  Proof.
    intros Hx. pose proof (rev_range x Hx) as Hr.
    apply N.bits_inj. intro j.
    destruct (N.lt_ge_cases j (N.of_nat w)) as [Hj|Hj].
    - rewrite <- (N2Nat.id j). rewrite rev_mirror by (try assumption; lia).
      rewrite rev_mirror by (try assumption; lia). f_equal. lia.
    - rewrite (rev_eq (rev x) Hr). unfold rev_spec. rewrite rev_bits_high by exact Hj.
      symmetry. destruct (N.eq_dec x 0) as [->|Hx0]; [apply N.bits_0|].
      apply N.bits_above_log2. apply N.log2_lt_pow2 in Hx; lia.
  Qed.
End Rev.

Example rev_ex : u8_rev 1 = 128 /\ u16_rev 0x1234 = 0x2C48 /\ u32_rev 1 = 0x80000000 /\ u64_rev 0x8000000000000001 = 0x8000000000000001
                 /\ u32_rev 0x12345678 = 0x1E6A2C48.
Proof. vm_compute. repeat split. Qed.
