(* C02 -- the pointer level of src/rbt.c: the public a_rbt_insert (descent with the comparator, a_rbt_init, link, fix-up) and
   a_rbt_search.  The comparator is a Gallina function of two pointers; [cmp_ok] says that it orders the new node / the key
   context against every node of the tree as the model orders the keys.  This file does not depend on the C. *)
From Coq Require Import ZArith PArith List Bool Lia.
From LibaV Require Import C02.RbtDefs C02.RbtSetProofs C02.RbtTieLemmas.
Import ListNotations.
Local Open Scope Z_scope.

(* the comparator applied to a fixed first argument orders it against every node of t as x is ordered against the node's key *)
Fixpoint cmp_ok (c : option id -> Z) (x : Z) (t : tree) : Prop :=
  match t with
  | E => True
  | T _ l k i r => (c (Some i) <? 0) = (x <? k) /\ (c (Some i) >? 0) = (x >? k) /\ cmp_ok c x l /\ cmp_ok c x r
  end.

Lemma cmp_ok_cases : forall (c : option id -> Z) x k (i : id), (c (Some i) <? 0) = (x <? k) -> (c (Some i) >? 0) = (x >? k) ->
  match x ?= k with
  | Lt => (c (Some i) <? 0) = true
  | Gt => (c (Some i) <? 0) = false /\ (c (Some i) >? 0) = true
  | Eq => (c (Some i) <? 0) = false /\ (c (Some i) >? 0) = false
  end.
Proof.
  intros c x k i H1 H2. rewrite H1, H2. unfold Z.ltb, Z.gtb. destruct (x ?= k); auto.
Qed.

(* the link at which the descent of a_rbt_insert ends *)
Fixpoint leaf_slot (x : Z) (t : tree) (sl : slot) : slot :=
  match t with
  | E => sl
  | T _ l k i r =>
    match x ?= k with
    | Lt => leaf_slot x l (SLeft i)
    | Gt => leaf_slot x r (SRight i)
    | Eq => sl
    end
  end.

Lemma leaf_slot_parent : forall x t sl, slot_parent (leaf_slot x t sl) = leaf_parent x t (slot_parent sl).
Proof.
  induction t as [|c l IHl k i r IHr]; intros sl; [reflexivity|]. cbn [leaf_slot leaf_parent].
  destruct (x ?= k); [reflexivity|rewrite IHl; reflexivity|rewrite IHr; reflexivity].
Qed.

Lemma leaf_parent_in : forall x t p, leaf_parent x t p = p \/ exists q, leaf_parent x t p = Some q /\ has t q.
Proof.
  induction t as [|c l IHl k i r IHr]; intros p; [left; reflexivity|]. cbn [leaf_parent]. destruct (x ?= k); [left; reflexivity| |].
  - right. destruct (IHl (Some i)) as [H|(q & H & Hq)]; [exists i; rewrite H; cbn; auto|exists q; cbn [has]; auto].
  - right. destruct (IHr (Some i)) as [H|(q & H & Hq)]; [exists i; rewrite H; cbn; auto|exists q; cbn [has]; auto].
Qed.

Lemma leaf_parent_inside : forall x t p, t <> E -> find x t = None -> exists q, leaf_parent x t p = Some q /\ has t q.
Proof.
  induction t as [|c l IHl k i r IHr]; intros p Hne Hf; [congruence|]. cbn [leaf_parent find] in *.
  destruct (x ?= k); [discriminate| |].
  - destruct l as [|lc ll lk li lr]; [exists i; cbn; auto|].
    destruct (IHl (Some i) ltac:(discriminate) Hf) as (q & Hq & Hh). exists q. split; [exact Hq|cbn [has]; auto].
  - destruct r as [|rc rl rk ri rr]; [exists i; cbn; auto|].
    destruct (IHr (Some i) ltac:(discriminate) Hf) as (q & Hq & Hh). exists q. split; [exact Hq|cbn [has]; auto].
Qed.

(* RbtDefs.ins finds a resident exactly when RbtDefs.find does *)
Lemma ins_find : forall x xi t,
  match ins x xi t with InsDup j => find x t = Some j | InsRes _ _ _ => find x t = None end.
Proof.
  induction t as [|c l IHl k i r IHr]; [reflexivity|]. cbn [ins find]. destruct (x ?= k); [reflexivity| |].
  - destruct (ins x xi l) as [j|l' s tg]; [exact IHl|]. destruct (ins_fix_left c l' k i r s) as [[t1 s1] tg1]. exact IHl.
  - destruct (ins x xi r) as [j|r' s tg]; [exact IHr|]. destruct (ins_fix_right c l k i r' s) as [[t1 s1] tg1]. exact IHr.
Qed.

Lemma link_root_nonempty : forall x xi t, t <> E -> root_id (link x xi t) = root_id t.
Proof. intros x xi [|c l k i r] H; [congruence|]. apply link_root. Qed.

(* the heap after a_rbt_init and `*link = node`: the leaf's cell is written, the link at which the descent ended holds the
   leaf, nothing else has changed - it lays out the tree with the leaf linked *)
Lemma Repr_link : forall x xi u h h2 p sl, find x u = None -> distinct u -> ~ has u xi -> Repr h p u -> slot_parent sl = p ->
  h2 xi = Some (mkC None None (leaf_parent x u p) 0) ->
  (forall q c, slot_parent (leaf_slot x u sl) = Some q -> has u q -> h q = Some c ->
     h2 q = Some (match leaf_slot x u sl with SRight _ => with_r (Some xi) c | _ => with_l (Some xi) c end)) ->
  (forall j, has u j -> slot_parent (leaf_slot x u sl) <> Some j -> h2 j = h j) ->
  Repr h2 p (link x xi u).
Proof.
  intros x xi. induction u as [|c l IHl k i r IHr]; intros h h2 p sl Hf Hd Hxi Hr Hp Hleaf Hslot Hrest.
  - cbn in *. split; [exact Hleaf|auto].
  - cbn [find link leaf_slot leaf_parent Repr distinct has] in *. destruct Hr as (Hi & Hl & Hrr).
    destruct Hd as (H1 & H2 & H3 & H4 & H5).
    destruct (x ?= k) eqn:Ec; [discriminate| |]; cbn [Repr].
    + (* to the left *)
      assert (Hside : forall j, has r j -> slot_parent (leaf_slot x l (SLeft i)) <> Some j).
      { intros j Hj. rewrite leaf_slot_parent. cbn [slot_parent]. destruct (leaf_parent_in x l (Some i)) as [->|(q & -> & Hq)].
        - intros [= ->]. contradiction.
        - intros [= ->]. exact (H3 j Hq Hj). }
      split; [|split].
      * destruct l as [|lc ll lk li lr].
        -- cbn [leaf_slot link root_id] in *. rewrite (Hslot i _ eq_refl (or_introl eq_refl) Hi). reflexivity.
        -- rewrite link_root_nonempty by discriminate. rewrite Hrest; [exact Hi|auto|].
           rewrite leaf_slot_parent. cbn [slot_parent].
           destruct (leaf_parent_inside x (T lc ll lk li lr) (Some i) ltac:(discriminate) Hf) as (q & -> & Hq).
           intros [= ->]. contradiction.
      * apply (IHl h h2 (Some i) (SLeft i) Hf H4); [tauto|exact Hl|reflexivity|exact Hleaf| |].
        -- intros q c0 Hq Hhq Hc. apply Hslot; [exact Hq|auto|exact Hc].
        -- intros j Hj Hne. apply Hrest; [auto|exact Hne].
      * apply (Repr_ext r h); [|exact Hrr]. intros j Hj. apply Hrest; [auto|apply Hside; exact Hj].
    + (* to the right *)
      assert (Hside : forall j, has l j -> slot_parent (leaf_slot x r (SRight i)) <> Some j).
      { intros j Hj. rewrite leaf_slot_parent. cbn [slot_parent]. destruct (leaf_parent_in x r (Some i)) as [->|(q & -> & Hq)].
        - intros [= ->]. contradiction.
        - intros [= ->]. exact (H3 j Hj Hq). }
      split; [|split].
      * destruct r as [|rc rl rk ri rr].
        -- cbn [leaf_slot link root_id] in *. rewrite (Hslot i _ eq_refl (or_introl eq_refl) Hi). reflexivity.
        -- rewrite link_root_nonempty by discriminate. rewrite Hrest; [exact Hi|auto|].
           rewrite leaf_slot_parent. cbn [slot_parent].
           destruct (leaf_parent_inside x (T rc rl rk ri rr) (Some i) ltac:(discriminate) Hf) as (q & -> & Hq).
           intros [= ->]. contradiction.
      * apply (Repr_ext l h); [|exact Hl]. intros j Hj. apply Hrest; [auto|apply Hside; exact Hj].
      * apply (IHr h h2 (Some i) (SRight i) Hf H5); [tauto|exact Hrr|reflexivity|exact Hleaf| |].
        -- intros q c0 Hq Hhq Hc. apply Hslot; [exact Hq|auto|exact Hc].
        -- intros j Hj Hne. apply Hrest; [auto|exact Hne].
Qed.
