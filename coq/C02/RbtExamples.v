(* C02 - non-vacuity: concrete non-trivial states satisfying the hypotheses of the property theorems. *)
From Coq Require Import ZArith List Lia.
From LibaV Require Import C02.RbtDefs C02.RbtSpec.
Import ListNotations.
Local Open Scope Z_scope.
Arguments OpInsert k%Z i%positive.
Arguments T c l k%Z i%positive r.
Arguments RetDup j%positive.
Arguments RemoveOk j%positive t tg.
Arguments RetRemoved j%positive.
Arguments RetFound j%positive.

(* a history with fresh insertions, a duplicate, removals of a black leaf / of a node with two children,
   reuse of a removed node identity with another key, searches (hit and miss) *)
Definition ex_ops : list op :=
  [OpInsert 50 1; OpInsert 20 2; OpInsert 70 3; OpInsert 10 4; OpInsert 30 5; OpInsert 20 6;
   OpInsert 60 6; OpInsert 80 7; OpInsert 25 8; OpInsert 27 9; OpSearch 27; OpSearch 28;
   OpRemove 10; OpRemove 50; OpRemove 99; OpInsert (-5) 4; OpInsert 65 1; OpRemove 80; OpRemove 70].

Definition ex_tree : tree :=
  T Black (T Red (T Black (T Red E (-5) 4 E) 20 2 (T Red E 25 8 E)) 27 9 (T Black E 30 5 E))
    60 6 (T Black E 65 1 E).

Definition ex_rets : list ret :=
  [RetInserted; RetInserted; RetInserted; RetInserted; RetInserted; RetDup 2; RetInserted; RetInserted;
   RetInserted; RetInserted; RetFound 9; RetNone; RetRemoved 4; RetRemoved 1; RetNone; RetInserted;
   RetInserted; RetRemoved 7; RetRemoved 3].

Example ex_run : run E ex_ops = (ex_tree, ex_rets).
Proof. vm_compute. reflexivity. Qed.

Example ex_reachable : reachable ex_tree.
Proof. exists ex_ops, ex_rets. exact ex_run. Qed.

Example ex_fresh : fresh_run E ex_ops = true.
Proof. vm_compute. reflexivity. Qed.

Example ex_nodup : NoDup (ids ex_tree).
Proof.
  vm_compute. repeat (constructor; [simpl; intuition discriminate|]). constructor.
Qed.

(* the duplicate insertion of the history: node 6 offered with key 20 while node 2 holds key 20 *)
Example ex_dup :
  exists t tg, step t (OpInsert 20 6) = (t, RetDup 2, tg) /\ reachable t.
Proof.
  eexists. eexists. split.
  - instantiate (2 := fst (run E (firstn 5 ex_ops))). vm_compute. reflexivity.
  - exists (firstn 5 ex_ops). eexists. vm_compute. reflexivity.
Qed.

(* a removal that goes through remove_adjust with a red sibling (case 1) and one through cases 3+4:
   the hypotheses `S (bh n) = bh s` / `rbwf (T Red ...)` of the A_ASSUME lemmas occur *)
Example ex_deficit_red_sibling :
  let n := E in
  let s := T Red (T Black E 5 1 E) 6 2 (T Black E 7 3 E) in
  rbwf s /\ S (bh n) = bh s.
Proof. vm_compute. intuition discriminate. Qed.

Definition ex2_ops : list op :=
  [OpInsert 1 1; OpInsert 2 2; OpInsert 3 3; OpInsert 4 4; OpInsert 5 5; OpInsert 6 6;
   OpRemove 1; OpRemove 2; OpInsert 7 7; OpInsert 8 8].

Definition ex2_tree : tree :=
  T Black (T Black E 3 3 E) 4 4 (T Red (T Black E 5 5 E) 6 6 (T Black E 7 7 (T Red E 8 8 E))).

Example ex2_reachable : reachable ex2_tree.
Proof. exists ex2_ops. eexists. vm_compute. reflexivity. Qed.

Example ex2_remove_tags :
  remove 3 ex2_tree =
  RemoveOk 3 (T Black (T Black E 4 4 (T Red E 5 5 E)) 6 6 (T Black E 7 7 (T Red E 8 8 E)))
           [TU_leaf_black; TF_case1_L; TF_case2_red_L].
Proof. vm_compute. reflexivity. Qed.

(* hypothesis `rbwf t` of the per-subtree removal invariant, on a tree where the removal goes through a
   deficit (black leaf 30 removed below the red node 27) *)
Example ex_rbwf_del :
  rbwf ex_tree /\ exists j t' st tg, del 30 ex_tree = DelRes j t' st tg /\ In TU_leaf_black tg.
Proof.
  split; [vm_compute; intuition discriminate|].
  vm_compute. eexists. eexists. eexists. eexists. split; [reflexivity|]. simpl. auto.
Qed.
