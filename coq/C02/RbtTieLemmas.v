(* C02 -- the pointer level of src/rbt.c.

   Part 1: the vocabulary of the heap programs that tools/c2rbt.py generates from the C on every run (module Gen.RbtGen):
           cells, the state (heap + root slot), checked reads and writes; hand models of the helpers.
   Part 2: the packed word  parent_ = parent + colour  (colour in bit 0, 0 = red, 1 = black): the arithmetic facts behind
           the translator's recognition of the uses of the word (64-bit words, 2-aligned pointers).
   Part 3: [Repr]: a tree of RbtDefs.v laid out in a heap; slots (where a subtree hangs); frame lemmas.
   Part 4: a_rbt_insert_adjust: the tree a_rbt_insert hands over ([link]), the position of the loop that an insertion status
           of RbtDefs.v stands for, and the proof - by induction on the tree, the bottom-up loop running against the model's
           recursion, one hypothesis per status-resolution step of RbtDefs.ins_fix_left / ins_fix_right - that the loop turns
           the layout of the tree with the red leaf linked into the layout of the tree RbtDefs.insert returns.
   Part 5: the canonical heap RbtDefs.heap_of (what the correspondence run compares with the C) satisfies [Repr].
   The ties themselves - the generated code does, on every heap, what the hypotheses of Part 4 say - are in
   harness/C02/TieRbt.v, re-proved against the regenerated module on every run.  This file does not depend on the C. *)
From Coq Require Import ZArith PArith List Bool Lia.
From LibaV Require Import C02.RbtDefs C02.RbtSetProofs C02.RbtHeapProofs.
Import ListNotations.
Local Open Scope Z_scope.

(* ================================================================== Part 1: vocabulary *)

(* a node object: left, right, parent (None = null) and the colour as the C stores it: 0 = red, 1 = black *)
Record pcell : Type := mkC { cl : option id; cr : option id; cp : option id; cc : Z }.

(* the heap (None = not allocated) and the one cell of the tree object, root->node *)
Record state : Type := mkS { hp : id -> option pcell; rootp : option id }.

Definition bind {A B : Type} (r : option A) (k : A -> option B) : option B :=
  match r with Some a => k a | None => None end.

Definition upd (h : id -> option pcell) (i : id) (c : pcell) : id -> option pcell :=
  fun j => if Pos.eqb j i then Some c else h j.

(* checked read of a field: None through a null or unallocated pointer *)
Definition rd {A : Type} (st : state) (F : pcell -> A) (p : option id) : option A :=
  match p with
  | None => None
  | Some x => match hp st x with None => None | Some c => Some (F c) end
  end.

(* checked update of a cell *)
Definition wr (st : state) (p : option id) (g : pcell -> pcell) : option state :=
  match p with
  | None => None
  | Some x => match hp st x with None => None | Some c => Some (mkS (upd (hp st) x (g c)) (rootp st)) end
  end.

Definition with_l (v : option id) (c : pcell) : pcell := mkC v (cr c) (cp c) (cc c).
Definition with_r (v : option id) (c : pcell) : pcell := mkC (cl c) v (cp c) (cc c).
Definition with_p (v : option id) (c : pcell) : pcell := mkC (cl c) (cr c) v (cc c).
Definition with_c (k : Z) (c : pcell) : pcell := mkC (cl c) (cr c) (cp c) k.

Definition wr_l (st : state) (p v : option id) : option state := wr st p (with_l v).
Definition wr_r (st : state) (p v : option id) : option state := wr st p (with_r v).
Definition wr_p (st : state) (p v : option id) : option state := wr st p (with_p v).

(* a stored colour must be 0 or 1: in the packed layout anything else damages the pointer bits of the word (pw_make_bad
   below); in the unpacked layout the field would hold a value that is no colour *)
Definition color_ok (k : Z) : bool := (0 <=? k) && (k <=? 1).
Definition wr_c (st : state) (p : option id) (k : Z) : option state :=
  if color_ok k then wr st p (with_c k) else None.

Definition set_root (st : state) (v : option id) : state := mkS (hp st) v.
Definition nonnull (p : option id) : bool := match p with Some _ => true | None => false end.
Definition oid_eqb (p q : option id) : bool :=
  match p, q with
  | None, None => true
  | Some x, Some y => Pos.eqb x y
  | _, _ => false
  end.

(* ---- hand models of the helpers (the generated helpers are proved equal to these for every state and argument) *)
Definition m_parent (st : state) (x : option id) : option (option id) := rd st cp x.
Definition m_color (st : state) (x : option id) : option Z := rd st cc x.
Definition m_set_parent (st : state) (x v : option id) : option state := wr st x (with_p v).
Definition m_set_black (st : state) (x : option id) : option state := wr st x (with_c 1).
Definition m_set_parent_color (st : state) (x v : option id) (k : Z) : option state :=
  if color_ok k then wr st x (fun c => with_c k (with_p v c)) else None.
Definition m_new_child (st : state) (parent old new : option id) : option state :=
  match parent with
  | None => Some (mkS (hp st) new)
  | Some q =>
    match hp st q with
    | None => None
    | Some c => if oid_eqb (cl c) old then Some (mkS (upd (hp st) q (with_l new c)) (rootp st))
                else Some (mkS (upd (hp st) q (with_r new c)) (rootp st))
    end
  end.
(* a_rbt_set_parents(root, x, y, k): y takes x's parent and colour, x gets parent y and colour k, the field that held x
   (in x's old parent, or the root slot) now holds y *)
Definition m_set_parents (st : state) (x y : option id) (k : Z) : option state :=
  bind (rd st cp x) (fun p =>
  bind (rd st cc x) (fun kx =>
  bind (m_set_parent_color st y p kx) (fun st1 =>
  bind (m_set_parent_color st1 x y k) (fun st2 =>
  m_new_child st2 p x y)))).

(* ---- basic facts *)
Lemma upd_same : forall h i c, upd h i c i = Some c.
Proof. intros. unfold upd. rewrite Pos.eqb_refl. reflexivity. Qed.

Lemma upd_other : forall h i c j, j <> i -> upd h i c j = h j.
Proof. intros h i c j H. unfold upd. destruct (Pos.eqb_spec j i); [contradiction|reflexivity]. Qed.

Lemma bind_rd : forall (A B : Type) st (F : pcell -> A) x c (K : A -> option B),
  hp st x = Some c -> bind (rd st F (Some x)) K = K (F c).
Proof. intros A B st F x c K H. unfold bind, rd. rewrite H. reflexivity. Qed.

Lemma bind_wr : forall (B : Type) st g x c (K : state -> option B),
  hp st x = Some c -> bind (wr st (Some x) g) K = K (mkS (upd (hp st) x (g c)) (rootp st)).
Proof. intros B st g x c K H. unfold bind, wr. rewrite H. reflexivity. Qed.

Lemma bind_assoc : forall (A B C : Type) (r : option A) (f : A -> option B) (g : B -> option C),
  bind (bind r f) g = bind r (fun x => bind (f x) g).
Proof. intros A B C [a|] f g; reflexivity. Qed.

Lemma bind_some : forall (A B : Type) (a : A) (K : A -> option B), bind (Some a) K = K a.
Proof. reflexivity. Qed.

Lemma bind_wr_c : forall (B : Type) st k x c (K : state -> option B),
  color_ok k = true -> hp st x = Some c ->
  bind (wr_c st (Some x) k) K = K (mkS (upd (hp st) x (with_c k c)) (rootp st)).
Proof. intros B st k x c K Hk H. unfold wr_c. rewrite Hk. apply bind_wr. exact H. Qed.

Lemma oid_eqb_refl : forall p, oid_eqb p p = true.
Proof. destruct p; cbn; [apply Pos.eqb_refl|reflexivity]. Qed.

Lemma oid_eqb_eq : forall p q, oid_eqb p q = true <-> p = q.
Proof.
  destruct p, q; cbn; split; intros H; try discriminate; try reflexivity.
  - apply Pos.eqb_eq in H. congruence.
  - injection H as ->. apply Pos.eqb_refl.
Qed.

Lemma oid_eqb_neq : forall p q, p <> q -> oid_eqb p q = false.
Proof. intros p q H. destruct (oid_eqb p q) eqn:E; [|reflexivity]. apply oid_eqb_eq in E. contradiction. Qed.

Lemma oid_eqb_some_neq : forall a b, a <> b -> oid_eqb (Some a) (Some b) = false.
Proof. intros a b H. apply oid_eqb_neq. congruence. Qed.

(* states that hold the same cells (the heap is a function: two orders of writing give equal functions only pointwise) *)
Definition steq (s1 s2 : state) : Prop := rootp s1 = rootp s2 /\ forall j, hp s1 j = hp s2 j.
Definition osteq (r1 r2 : option state) : Prop :=
  match r1, r2 with
  | Some s1, Some s2 => steq s1 s2
  | None, None => True
  | _, _ => False
  end.

(* ================================================================== Part 2: the packed word *)

(* The word parent_ of a node with parent pointer p (an address: 0 <= p < 2^64, a multiple of 2, 0 = null) and colour k
   (0 = red, 1 = black) is p + k.  C's operations on a_uptr (unsigned, 64 bits): x & y = Z.land, x | y = Z.lor,
   ~x = 2^64 - 1 - x, x + y = (x + y) mod 2^64, (a_uptr)u for an unsigned int u = u. *)
Section PackedWord.
  Let W : Z := 2 ^ 64.

  (* (unsigned int)(w & 1) *)
  Lemma pw_tag : forall p k, p mod 2 = 0 -> 0 <= p -> 0 <= k < 2 -> Z.land (p + k) 1 = k.
  Proof.
    intros p k Hp H0 Hk. change 1 with (Z.ones 1). rewrite Z.land_ones by lia. change (2 ^ 1) with 2.
    rewrite Z.add_mod, Hp by lia. cbn [Z.add]. rewrite Z.mod_mod by lia. apply Z.mod_small. lia.
  Qed.

  Lemma land_split : forall w, 0 <= w < W -> Z.land w (W - 1 - 1) + Z.land w 1 = w.
  Proof.
    intros w Hw.
    assert (Hd : Z.land (Z.land w (W - 1 - 1)) (Z.land w 1) = 0).
    { rewrite (Z.land_comm w 1), Z.land_assoc, <- (Z.land_assoc w). change (Z.land (W - 1 - 1) 1) with 0.
      rewrite Z.land_0_r. apply Z.land_0_l. }
    rewrite (Z.add_nocarry_lxor _ _ Hd), (Z.lxor_lor _ _ Hd), <- Z.land_lor_distr_r.
    change (Z.lor (W - 1 - 1) 1) with (Z.ones 64). rewrite Z.land_ones by lia. apply Z.mod_small. exact Hw.
  Qed.

  (* (a_rbt_node * )(w & ~(a_uptr)1) *)
  Lemma pw_parent : forall p k, p mod 2 = 0 -> 0 <= p -> 0 <= k < 2 -> p + k < W -> Z.land (p + k) (W - 1 - 1) = p.
  Proof.
    intros p k Hp H0 Hk Hw. pose proof (land_split (p + k) ltac:(lia)) as H. rewrite pw_tag in H by assumption. lia.
  Qed.

  (* (a_uptr)parent + colour: no wrap-around, and the two components are recovered by pw_parent / pw_tag *)
  Lemma pw_make : forall p k, p mod 2 = 0 -> 0 <= p < W -> 0 <= k < 2 -> (p + k) mod W = p + k /\ p + k < W.
  Proof.
    intros p k Hp H0 Hk.
    assert (Hlt : p + k < W).
    { assert (HW : W mod 2 = 0) by reflexivity.
      pose proof (Z.div_mod p 2 ltac:(lia)) as Hd. pose proof (Z.div_mod W 2 ltac:(lia)) as HdW. lia. }
    split; [apply Z.mod_small; lia|exact Hlt].
  Qed.

  (* ... and a colour argument outside 0..1 (any other unsigned int) changes the pointer bits: the parent link would be
     corrupted (the model: wr_c refuses it) *)
  Lemma pw_make_bad : forall p k, p mod 2 = 0 -> 0 <= p -> p + 1 < W -> 2 <= k < 2 ^ 32 ->
    Z.land ((p + k) mod W) (W - 1 - 1) <> p.
  Proof.
    intros p k Hp H0 Hw Hk. set (w := (p + k) mod W).
    assert (Hwr : 0 <= w < W) by (apply Z.mod_pos_bound; subst W; lia).
    pose proof (land_split w Hwr) as Hs. intros Heq. rewrite Heq in Hs.
    assert (Hl : 0 <= Z.land w 1 < 2).
    { change 1 with (Z.ones 1). rewrite Z.land_ones by lia. apply Z.mod_pos_bound. lia. }
    pose proof (Z.div_mod (p + k) W ltac:(subst W; lia)) as Hdm. fold w in Hdm.
    set (q := (p + k) / W) in Hdm.
    assert (HW4 : W = 18446744073709551616) by reflexivity.
    assert (H32 : 2 ^ 32 = 4294967296) by reflexivity.
    rewrite HW4 in *. rewrite H32 in *. lia.
  Qed.

  (* (a_uptr)parent + (w & 1): the new pointer with the old colour *)
  Lemma pw_set_parent : forall p' p k, p mod 2 = 0 -> 0 <= p -> 0 <= k < 2 -> p' + Z.land (p + k) 1 = p' + k.
  Proof. intros. rewrite pw_tag by assumption. reflexivity. Qed.

  (* w |= 1: the colour becomes black, the pointer is untouched *)
  Lemma pw_set_black : forall p k, p mod 2 = 0 -> 0 <= p -> 0 <= k < 2 -> Z.lor (p + k) 1 = p + 1.
  Proof.
    intros p k Hp H0 Hk.
    assert (Hp1 : Z.land p 1 = 0).
    { change 1 with (Z.ones 1). rewrite Z.land_ones by lia. exact Hp. }
    assert (Hk01 : k = 0 \/ k = 1) by lia. destruct Hk01; subst k.
    - rewrite Z.add_0_r. rewrite <- (Z.lxor_lor _ _ Hp1), <- (Z.add_nocarry_lxor _ _ Hp1). reflexivity.
    - rewrite (Z.add_nocarry_lxor _ _ Hp1), (Z.lxor_lor _ _ Hp1), <- Z.lor_assoc. reflexivity.
  Qed.

  (* (a_rbt_node * )w, the whole word taken as a pointer (A_RBT_PARENT): the parent exactly when the node is red; for a
     black node the value is odd - no node pointer (the model: an error) *)
  Lemma pw_whole_red : forall p, p + 0 = p.
  Proof. intros. lia. Qed.
  Lemma pw_whole_black : forall p, p mod 2 = 0 -> (p + 1) mod 2 <> 0.
  Proof. intros p Hp. rewrite Z.add_mod, Hp by lia. cbn. discriminate. Qed.
End PackedWord.

(* ================================================================== Part 3: trees laid out in a heap *)

Definition cnum (c : color) : Z := match c with Red => 0 | Black => 1 end.

Lemma color_ok_cnum : forall c, color_ok (cnum c) = true.
Proof. destruct c; reflexivity. Qed.

(* the node ids of a tree; all distinct *)
Fixpoint has (t : tree) (j : id) : Prop :=
  match t with
  | E => False
  | T _ l _ i r => j = i \/ has l j \/ has r j
  end.

Fixpoint distinct (t : tree) : Prop :=
  match t with
  | E => True
  | T _ l _ i r => ~ has l i /\ ~ has r i /\ (forall j, has l j -> has r j -> False) /\ distinct l /\ distinct r
  end.

Lemma ids_node : forall c l k i r, ids (T c l k i r) = ids l ++ i :: ids r.
Proof. intros. unfold ids. cbn [elems]. rewrite map_app. reflexivity. Qed.

Lemma has_ids : forall t j, has t j <-> In j (ids t).
Proof.
  induction t as [|c l IHl k i r IHr]; intros j; [cbn; tauto|].
  rewrite ids_node, in_app_iff. cbn [has In]. rewrite IHl, IHr. intuition congruence.
Qed.

Lemma nodup_app_iff : forall (xs ys : list id),
  NoDup (xs ++ ys) <-> NoDup xs /\ NoDup ys /\ (forall x, In x xs -> In x ys -> False).
Proof.
  induction xs as [|a xs IH]; intros ys; cbn [app].
  - split; [intros H; repeat split; [constructor|exact H|intros x []] | intros [_ [H _]]; exact H].
  - split.
    + intros H. inversion H as [|? ? Ha Hn]; subst. apply IH in Hn. destruct Hn as [H1 [H2 H3]].
      repeat split; auto.
      * constructor; auto. intros Hin. apply Ha. apply in_or_app. auto.
      * intros x [<-|Hx] Hy; [apply Ha; apply in_or_app; auto | eauto].
    + intros [H1 [H2 H3]]. inversion H1 as [|? ? Ha Hn]; subst. constructor.
      * intros Hin. apply in_app_or in Hin. destruct Hin; [auto | apply (H3 a); cbn; auto].
      * apply IH. repeat split; auto. intros x Hx Hy. apply (H3 x); cbn; auto.
Qed.

Lemma distinct_ids : forall t, distinct t <-> NoDup (ids t).
Proof.
  induction t as [|c l IHl k i r IHr]; [cbn; split; [constructor|trivial]|].
  rewrite ids_node, nodup_app_iff. cbn [distinct]. rewrite IHl, IHr. split.
  - intros (H1 & H2 & H3 & H4 & H5). split; [exact H4|]. split.
    + constructor; [rewrite <- has_ids; exact H2|exact H5].
    + intros x Hx [<-|Hy]; [apply H1; apply has_ids; exact Hx | apply (H3 x); apply has_ids; assumption].
  - intros (H1 & H2 & H3). inversion H2 as [|? ? Hi Hr]; subst. split; [|split; [|split; [|split]]].
    + intros Hl. apply (H3 i); [apply has_ids; exact Hl | cbn; auto].
    + rewrite has_ids. exact Hi.
    + intros j Hj Hj'. apply (H3 j); [apply has_ids; exact Hj | cbn; right; apply has_ids; exact Hj'].
    + exact H1.
    + exact Hr.
Qed.

Lemma has_blacken : forall t j, has (blacken t) j <-> has t j.
Proof. intros [|c l k i r] j; cbn; tauto. Qed.

Lemma distinct_blacken : forall t, distinct (blacken t) <-> distinct t.
Proof. intros [|c l k i r]; cbn; tauto. Qed.

Lemma root_id_blacken : forall t, root_id (blacken t) = root_id t.
Proof. intros [|c l k i r]; reflexivity. Qed.

(* [Repr h p t]: tree t is laid out in heap h, its root's parent field being p.  Keys live in the user's enclosing
   structure, not in the node object: the heap says nothing about them. *)
Fixpoint Repr (h : id -> option pcell) (p : option id) (t : tree) : Prop :=
  match t with
  | E => True
  | T c l _ i r => h i = Some (mkC (root_id l) (root_id r) p (cnum c)) /\ Repr h (Some i) l /\ Repr h (Some i) r
  end.

(* frame: the representation depends on the cells of the tree's own nodes only *)
Lemma Repr_ext : forall t h h' p, (forall j, has t j -> h' j = h j) -> Repr h p t -> Repr h' p t.
Proof.
  induction t as [|c l IHl k i r IHr]; intros h h' p Hx Hr; [exact I|].
  cbn [Repr] in *. destruct Hr as (Hi & Hl & Hr). repeat split.
  - rewrite Hx by (cbn; auto). exact Hi.
  - apply (IHl h); [intros j Hj; apply Hx; cbn; auto | exact Hl].
  - apply (IHr h); [intros j Hj; apply Hx; cbn; auto | exact Hr].
Qed.

(* re-hanging: only the root cell mentions the parent and the colour of the root.  [if (tmp) a_rbt_set_parent_color(tmp,
   p', 1)]: the subtree, its root black, below a new parent *)
Lemma Repr_rehang_black : forall t h h' p p', distinct t -> Repr h p t ->
  (forall i, root_id t = Some i -> exists c, h i = Some c /\ h' i = Some (with_c 1 (with_p p' c))) ->
  (forall j, has t j -> root_id t <> Some j -> h' j = h j) ->
  Repr h' p' (blacken t).
Proof.
  intros [|c l k i r] h h' p p' Hd Hr Hroot Hrest; [exact I|].
  cbn [Repr distinct blacken] in *. destruct Hr as (Hi & Hl & Hr). destruct Hd as (Hil & Hir & _ & _ & _).
  destruct (Hroot i eq_refl) as (c0 & Hc & Hc'). rewrite Hi in Hc. injection Hc as <-.
  repeat split.
  - exact Hc'.
  - apply (Repr_ext l h); [|exact Hl]. intros j Hj. apply Hrest; [cbn; auto|]. cbn. intros [= ->]. contradiction.
  - apply (Repr_ext r h); [|exact Hr]. intros j Hj. apply Hrest; [cbn; auto|]. cbn. intros [= ->]. contradiction.
Qed.

(* the same, the colour kept (a_rbt_set_parent) *)
Lemma Repr_reparent : forall t h h' p p', distinct t -> Repr h p t ->
  (forall i, root_id t = Some i -> exists c, h i = Some c /\ h' i = Some (with_p p' c)) ->
  (forall j, has t j -> root_id t <> Some j -> h' j = h j) ->
  Repr h' p' t.
Proof.
  intros [|c l k i r] h h' p p' Hd Hr Hroot Hrest; [exact I|].
  cbn [Repr distinct] in *. destruct Hr as (Hi & Hl & Hr). destruct Hd as (Hil & Hir & _ & _ & _).
  destruct (Hroot i eq_refl) as (c0 & Hc & Hc'). rewrite Hi in Hc. injection Hc as <-.
  repeat split.
  - exact Hc'.
  - apply (Repr_ext l h); [|exact Hl]. intros j Hj. apply Hrest; [cbn; auto|]. cbn. intros [= ->]. contradiction.
  - apply (Repr_ext r h); [|exact Hr]. intros j Hj. apply Hrest; [cbn; auto|]. cbn. intros [= ->]. contradiction.
Qed.

Lemma Repr_root : forall h p t i, Repr h p t -> root_id t = Some i -> exists c, h i = Some c /\ cp c = p.
Proof.
  intros h p [|c l k i0 r] i Hr Hi; [discriminate|]. cbn in Hi. injection Hi as ->.
  cbn [Repr] in Hr. destruct Hr as (Hi & _). eexists. split; [exact Hi|reflexivity].
Qed.

Lemma root_has : forall t i, root_id t = Some i -> has t i.
Proof. intros [|c l k i0 r] i H; [discriminate|]. cbn in *. left. congruence. Qed.

(* ---- slots: where a subtree hangs - the root slot of the tree object or a child field of a parent cell *)
Inductive slot : Type := SRoot | SLeft (q : id) | SRight (q : id).

Definition slot_parent (sl : slot) : option id :=
  match sl with SRoot => None | SLeft q => Some q | SRight q => Some q end.

(* the slot holds v.  a_rbt_new_child finds the field to overwrite by testing `parent->left == node` first: for a right
   slot the left field must hold something else (true in a tree: v is non-null and the children of a node are distinct) *)
Definition slot_at (st : state) (sl : slot) (v : option id) : Prop :=
  match sl with
  | SRoot => rootp st = v
  | SLeft q => exists c, hp st q = Some c /\ cl c = v
  | SRight q => exists c, hp st q = Some c /\ cr c = v /\ cl c <> v
  end.

Definition slot_set (st : state) (sl : slot) (v : option id) : state :=
  match sl with
  | SRoot => mkS (hp st) v
  | SLeft q => match hp st q with Some c => mkS (upd (hp st) q (with_l v c)) (rootp st) | None => st end
  | SRight q => match hp st q with Some c => mkS (upd (hp st) q (with_r v c)) (rootp st) | None => st end
  end.

(* what a_rbt_new_child does to a slot *)
Lemma m_new_child_slot : forall st sl old v, slot_at st sl old -> m_new_child st (slot_parent sl) old v = Some (slot_set st sl v).
Proof.
  intros st [|q|q] old v H; cbn [slot_at slot_parent m_new_child slot_set] in *.
  - reflexivity.
  - destruct H as (c & Hc & Hl). rewrite Hc, Hl, oid_eqb_refl. reflexivity.
  - destruct H as (c & Hc & Hr & Hl). rewrite Hc.
    destruct (oid_eqb (cl c) old) eqn:Eo; [apply oid_eqb_eq in Eo; contradiction|reflexivity].
Qed.

(* a write elsewhere leaves the slot alone *)
Lemma slot_at_upd : forall h r sl v x c, slot_parent sl <> Some x -> slot_at (mkS h r) sl v -> slot_at (mkS (upd h x c) r) sl v.
Proof.
  intros h r [|q|q] v x c Hq H; cbn [slot_at slot_parent hp rootp] in *; [exact H| |];
    (rewrite upd_other by congruence; exact H).
Qed.

Lemma hp_slot_set_other : forall st sl v j, slot_parent sl <> Some j -> hp (slot_set st sl v) j = hp st j.
Proof.
  intros st [|q|q] v j Hq; cbn [slot_set slot_parent] in *; [reflexivity| |];
    (destruct (hp st q); cbn [hp]; [apply upd_other; congruence|reflexivity]).
Qed.

Lemma rootp_slot_set_upd : forall h r sl v x c, rootp (slot_set (mkS (upd h x c) r) sl v) = rootp (slot_set (mkS h r) sl v).
Proof.
  intros h r [|q|q] v x c; cbn [slot_set hp rootp]; [reflexivity| |];
    (unfold upd at 1; destruct (Pos.eqb_spec q x); [subst; destruct (h x)|destruct (h q)]; reflexivity).
Qed.

(* the cell of the slot's parent after the slot is set, when the heap was written elsewhere meanwhile *)
Lemma hp_slot_set_upd : forall h r sl v x c j, slot_parent sl <> Some x ->
  hp (slot_set (mkS (upd h x c) r) sl v) j = upd (hp (slot_set (mkS h r) sl v)) x c j.
Proof.
  intros h r [|q|q] v x c j Hq; cbn [slot_set slot_parent hp rootp] in *; [reflexivity| |];
    (rewrite upd_other by congruence; destruct (h q) as [cq|]; cbn [hp]; [|reflexivity];
     unfold upd; destruct (Pos.eqb_spec j q), (Pos.eqb_spec j x); try reflexivity; congruence).
Qed.

(* setting a slot to what it holds changes nothing *)
Lemma slot_set_same : forall st sl v, slot_at st sl v ->
  rootp (slot_set st sl v) = rootp st /\ forall j, hp (slot_set st sl v) j = hp st j.
Proof.
  intros [h r] [|q|q] v H; cbn [slot_at slot_set hp rootp] in *.
  - subst. split; reflexivity.
  - destruct H as (c & Hc & Hl). rewrite Hc. cbn [hp rootp]. split; [reflexivity|]. intros j. unfold upd.
    destruct (Pos.eqb_spec j q); [|reflexivity]. subst. rewrite Hc. destruct c; cbn in *. subst. reflexivity.
  - destruct H as (c & Hc & Hr & _). rewrite Hc. cbn [hp rootp]. split; [reflexivity|]. intros j. unfold upd.
    destruct (Pos.eqb_spec j q); [|reflexivity]. subst. rewrite Hc. destruct c; cbn in *. subst. reflexivity.
Qed.

Lemma slot_set_agree : forall st1 st sl v, rootp st1 = rootp st ->
  (forall q, slot_parent sl = Some q -> hp st1 q = hp st q) ->
  rootp (slot_set st1 sl v) = rootp (slot_set st sl v) /\
  forall j, hp st1 j = hp st j -> hp (slot_set st1 sl v) j = hp (slot_set st sl v) j.
Proof.
  intros [h1 r1] [h r] [|q|q] v Hr Hq; cbn [slot_set slot_parent hp rootp] in *.
  - split; [reflexivity|auto].
  - rewrite (Hq q eq_refl). destruct (h q); cbn [hp rootp]; [|auto]. split; [exact Hr|]. intros j Hj. unfold upd.
    destruct (Pos.eqb j q); [reflexivity|exact Hj].
  - rewrite (Hq q eq_refl). destruct (h q); cbn [hp rootp]; [|auto]. split; [exact Hr|]. intros j Hj. unfold upd.
    destruct (Pos.eqb j q); [reflexivity|exact Hj].
Qed.

Lemma slot_at_agree : forall st st1 sl v, slot_at st sl v -> rootp st1 = rootp st ->
  (forall q, slot_parent sl = Some q -> hp st1 q = hp st q) -> slot_at st1 sl v.
Proof.
  intros st st1 [|q|q] v H Hr Hq; cbn [slot_at slot_parent] in *; [congruence| |]; rewrite (Hq q eq_refl); exact H.
Qed.

Lemma rootp_slot_set_left : forall st i v, rootp (slot_set st (SLeft i) v) = rootp st.
Proof. intros st i v. cbn [slot_set]. destruct (hp st i); reflexivity. Qed.

Lemma rootp_slot_set_right : forall st i v, rootp (slot_set st (SRight i) v) = rootp st.
Proof. intros st i v. cbn [slot_set]. destruct (hp st i); reflexivity. Qed.

(* two states agree outside a set of nodes *)
Definition agree_outside (t : tree) (s1 s2 : state) : Prop :=
  rootp s1 = rootp s2 /\ forall j, ~ has t j -> hp s1 j = hp s2 j.

(* a tree A laid out below a slot: the hypotheses of every step *)
Definition Hangs (st : state) (sl : slot) (A : tree) : Prop :=
  distinct A /\ (forall q, slot_parent sl = Some q -> ~ has A q) /\
  Repr (hp st) (slot_parent sl) A /\ slot_at st sl (root_id A).

(* ... and its conclusion: A' is laid out below the same slot, which holds its root; nothing else outside A has changed *)
Definition Step (st : state) (sl : slot) (A A' : tree) (st' : state) : Prop :=
  Repr (hp st') (slot_parent sl) A' /\ agree_outside A st' (slot_set st sl (root_id A')).

Lemma q_out : forall sl A j, (forall q, slot_parent sl = Some q -> ~ has A q) -> has A j -> slot_parent sl <> Some j.
Proof. intros sl A j Hq Hj Heq. exact (Hq j Heq Hj). Qed.

(* membership goals from the distinctness facts in the context *)
Ltac dj :=
  solve [ cbn [has] in *; intuition (subst; eauto 10; congruence)
        | cbn [has] in *; let X := fresh in intros X; try (apply root_has in X); intuition (subst; eauto 10; congruence) ].

(* the slot's parent cell is no node of the tree: setting the slot does not disturb the layout *)
Lemma Repr_slot_set : forall st sl v p t, (forall j, has t j -> slot_parent sl <> Some j) ->
  Repr (hp st) p t -> Repr (hp (slot_set st sl v)) p t.
Proof.
  intros st sl v p t Hq Hr. apply (Repr_ext t (hp st)); [|exact Hr]. intros j Hj. apply hp_slot_set_other. apply Hq. exact Hj.
Qed.

Lemma hp_slot_set_upd_if : forall h r sl v x c j, slot_parent sl <> Some x ->
  hp (slot_set (mkS (upd h x c) r) sl v) j = if Pos.eqb j x then Some c else hp (slot_set (mkS h r) sl v) j.
Proof. intros. rewrite hp_slot_set_upd by assumption. reflexivity. Qed.

(* ---- symbolic execution of a heap program, one access at the head at a time (used by the tie proofs: the heap is
   [mkS chain r] with [chain] a chain of [upd] over the initial heap; cells and values are kept in normal form) *)
Lemma run_rd : forall (A B : Type) h r (F : pcell -> A) x c v (K : A -> option B) R,
  h x = Some c -> F c = v -> K v = R -> bind (rd (mkS h r) F (Some x)) K = R.
Proof. intros A B h r F x c v K R Hc <- HK. unfold bind, rd. cbn [hp]. rewrite Hc. exact HK. Qed.

Lemma run_wr : forall (B : Type) h r g x c c' (K : state -> option B) R,
  h x = Some c -> g c = c' -> K (mkS (upd h x c') r) = R -> bind (wr (mkS h r) (Some x) g) K = R.
Proof. intros B h r g x c c' K R Hc <- HK. unfold bind, wr. cbn [hp rootp]. rewrite Hc. exact HK. Qed.

Lemma run_wr_c : forall (B : Type) h r k x c c' (K : state -> option B) R,
  color_ok k = true -> h x = Some c -> with_c k c = c' -> K (mkS (upd h x c') r) = R -> bind (wr_c (mkS h r) (Some x) k) K = R.
Proof. intros B h r k x c c' K R Hk Hc Hc' HK. unfold wr_c. rewrite Hk. exact (run_wr B h r (with_c k) x c c' K R Hc Hc' HK). Qed.

Lemma run_assoc : forall (A B C : Type) (a : option A) (f : A -> option B) (g : B -> option C) R,
  bind a (fun x => bind (f x) g) = R -> bind (bind a f) g = R.
Proof. intros A B C a f g R H. rewrite bind_assoc. exact H. Qed.

Lemma run_some : forall (A B : Type) (a : A) (K : A -> option B) R, K a = R -> bind (Some a) K = R.
Proof. intros. assumption. Qed.

Lemma run_if_true : forall (A : Type) (c : bool) (a b R : A), c = true -> a = R -> (if c then a else b) = R.
Proof. intros A c a b R -> H. exact H. Qed.

Lemma run_if_false : forall (A : Type) (c : bool) (a b R : A), c = false -> b = R -> (if c then a else b) = R.
Proof. intros A c a b R -> H. exact H. Qed.

Lemma run_new_child : forall (B : Type) st sl old v (K : state -> option B) R,
  slot_at st sl old -> K (slot_set st sl v) = R -> bind (m_new_child st (slot_parent sl) old v) K = R.
Proof. intros B st sl old v K R Hs HK. rewrite (m_new_child_slot _ sl) by exact Hs. exact HK. Qed.

(* ================================================================== Part 4: a_rbt_insert_adjust *)

(* the tree a_rbt_insert hands to a_rbt_insert_adjust: the new red leaf (a_rbt_init: colour 0, no children) linked at its
   search position, nothing recoloured or rotated *)
Fixpoint link (x : Z) (xi : id) (t : tree) : tree :=
  match t with
  | E => T Red E x xi E
  | T c l k i r =>
    match x ?= k with
    | Lt => T c (link x xi l) k i r
    | Gt => T c l k i (link x xi r)
    | Eq => t
    end
  end.

(* number of nodes of t on the search path of x *)
Fixpoint depth (x : Z) (t : tree) : nat :=
  match t with
  | E => O
  | T _ l k _ r => S (match Z.compare x k with Lt => depth x l | Gt => depth x r | Eq => O end)
  end.

Lemma depth_height : forall x t, (depth x t <= height t)%nat.
Proof.
  induction t as [|c l IHl k i r IHr]; [cbn; lia|]. cbn [depth height]. destruct (x ?= k); lia.
Qed.

(* the parent field of the new leaf when [link x xi t] hangs below p *)
Fixpoint leaf_parent (x : Z) (t : tree) (p : option id) : option id :=
  match t with
  | E => p
  | T _ l k i r =>
    match x ?= k with
    | Lt => leaf_parent x l (Some i)
    | Gt => leaf_parent x r (Some i)
    | Eq => p
    end
  end.

Definition child (d : dir) (t : tree) : tree :=
  match t with
  | E => E
  | T _ l _ _ r => match d with L => l | R => r end
  end.

(* one level of RbtDefs.ins *)
Lemma ins_node_inv : forall x xi c l k i r u' s tg, ins x xi (T c l k i r) = InsRes u' s tg ->
  (x ?= k = Lt /\ exists l' s0 tg0 tg1, ins x xi l = InsRes l' s0 tg0 /\ ins_fix_left c l' k i r s0 = (u', s, tg1)) \/
  (x ?= k = Gt /\ exists r' s0 tg0 tg1, ins x xi r = InsRes r' s0 tg0 /\ ins_fix_right c l k i r' s0 = (u', s, tg1)).
Proof.
  intros x xi c l k i r u' s tg H. cbn [ins] in H. destruct (x ?= k); [discriminate| |].
  - left. split; [reflexivity|]. destruct (ins x xi l) as [j|l' s0 tg0]; [discriminate|].
    destruct (ins_fix_left c l' k i r s0) as [[t1 s1] tg1] eqn:Ef. injection H as <- <- _. eauto 8.
  - right. split; [reflexivity|]. destruct (ins x xi r) as [j|r' s0 tg0]; [discriminate|].
    destruct (ins_fix_right c l k i r' s0) as [[t1 s1] tg1] eqn:Ef. injection H as <- <- _. eauto 8.
Qed.

(* the nodes of the model's result are the nodes of the tree with the leaf linked, in the same order *)
Lemma ins_elems_link : forall x xi u u' s tg, ins x xi u = InsRes u' s tg -> s <> IFault -> elems u' = elems (link x xi u).
Proof.
  intros x xi. induction u as [|c l IHl k i r IHr]; intros u' s tg H Hs.
  - cbn in H. injection H as <- _ _. reflexivity.
  - destruct (ins_node_inv _ _ _ _ _ _ _ _ _ _ H) as [(Hc & l' & s0 & tg0 & tg1 & Hi & Hf)|(Hc & r' & s0 & tg0 & tg1 & Hi & Hf)];
      cbn [link]; rewrite Hc; cbn [elems].
    + destruct (ins_fix_left_elems _ _ _ _ _ _ _ _ _ Hf Hs) as (Hs0 & He). rewrite He, (IHl _ _ _ Hi Hs0). reflexivity.
    + destruct (ins_fix_right_elems _ _ _ _ _ _ _ _ _ Hf Hs) as (Hs0 & He). rewrite He, (IHr _ _ _ Hi Hs0). reflexivity.
Qed.

Lemma ins_nodes : forall x xi u u' s tg, ins x xi u = InsRes u' s tg -> s <> IFault ->
  (forall j, has u' j <-> has (link x xi u) j) /\ (distinct (link x xi u) -> distinct u').
Proof.
  intros x xi u u' s tg H Hs. pose proof (ins_elems_link _ _ _ _ _ _ H Hs) as He.
  assert (Hi : ids u' = ids (link x xi u)) by (unfold ids; rewrite He; reflexivity).
  split; [intros j; rewrite !has_ids, Hi; tauto|]. rewrite !distinct_ids, Hi. tauto.
Qed.

Lemma link_has : forall x xi t j, has (link x xi t) j -> j = xi \/ has t j.
Proof.
  intros x xi. induction t as [|c l IHl k i r IHr]; intros j H.
  - cbn in H. tauto.
  - cbn [link] in H. destruct (x ?= k); cbn [has] in *; [tauto| |].
    + destruct H as [H|[H|H]]; [tauto| |tauto]. destruct (IHl _ H); tauto.
    + destruct H as [H|[H|H]]; [tauto|tauto|]. destruct (IHr _ H); tauto.
Qed.

Lemma link_root : forall x xi c l k i r, root_id (link x xi (T c l k i r)) = Some i.
Proof. intros. cbn [link]. destruct (x ?= k); reflexivity. Qed.

(* the cell of the new leaf *)
Lemma link_leaf_cell : forall x xi t u' s tg h p, ins x xi t = InsRes u' s tg -> Repr h p (link x xi t) ->
  h xi = Some (mkC None None (leaf_parent x t p) 0).
Proof.
  intros x xi. induction t as [|c l IHl k i r IHr]; intros u' s tg h p H Hr.
  - cbn in Hr. destruct Hr as (Hx & _). exact Hx.
  - destruct (ins_node_inv _ _ _ _ _ _ _ _ _ _ H) as [(Hc & l' & s0 & tg0 & tg1 & Hi & Hf)|(Hc & r' & s0 & tg0 & tg1 & Hi & Hf)];
      cbn [link leaf_parent] in *; rewrite Hc in *; cbn [Repr] in Hr; destruct Hr as (_ & Hl & Hrr).
    + exact (IHl _ _ _ _ _ Hi Hl).
    + exact (IHr _ _ _ _ _ Hi Hrr).
Qed.

(* what an insertion status says about the tree it comes with *)
Definition status_shape (s : istatus) (t : tree) : Prop :=
  match s with
  | IStop => True
  | IRed => is_red t = true
  | IRedRed d => is_red t = true /\ is_red (child d t) = true
  | IFault => False
  end.

Lemma is_red_inv : forall t, is_red t = true -> exists l k i r, t = T Red l k i r.
Proof. intros [|[] l k i r] H; try discriminate. eauto. Qed.

(* ---- steps below a child of a node *)
Lemma Step_refl : forall st sl A, Hangs st sl A -> Step st sl A A st.
Proof.
  intros st sl A (_ & _ & Hr & Hsl). split; [exact Hr|]. destruct (slot_set_same st sl _ Hsl) as (H1 & H2).
  split; [symmetry; exact H1|]. intros j _. symmetry. apply H2.
Qed.

(* the heap after the work below a child: the parent cell holds the new child root, the rest of the parent's tree is
   untouched *)
Lemma Repr_after_left : forall st st1 p c L l' k i r,
  Repr (hp st) p (T c L k i r) -> ~ has L i -> (forall j, has L j -> has r j -> False) -> ~ has r i ->
  Repr (hp st1) (Some i) l' -> agree_outside L st1 (slot_set st (SLeft i) (root_id l')) ->
  Repr (hp st1) p (T c l' k i r).
Proof.
  intros st st1 p c L l' k i r (Hi & _ & Hr) HiL HLr Hir Hl' (_ & Hag). cbn [Repr]. split; [|split; [exact Hl'|]].
  - rewrite (Hag i HiL). cbn [slot_set]. rewrite Hi. cbn [hp]. rewrite upd_same. reflexivity.
  - apply (Repr_ext r (hp st)); [|exact Hr]. intros j Hj. rewrite Hag by (intros HjL; exact (HLr j HjL Hj)).
    apply hp_slot_set_other. cbn. intros [= ->]. contradiction.
Qed.

Lemma Repr_after_right : forall st st1 p c R0 r' k i l,
  Repr (hp st) p (T c l k i R0) -> ~ has R0 i -> (forall j, has l j -> has R0 j -> False) -> ~ has l i ->
  Repr (hp st1) (Some i) r' -> agree_outside R0 st1 (slot_set st (SRight i) (root_id r')) ->
  Repr (hp st1) p (T c l k i r').
Proof.
  intros st st1 p c R0 r' k i l (Hi & Hl & _) HiR HlR Hil Hr' (_ & Hag). cbn [Repr]. split; [|split; [|exact Hr']].
  - rewrite (Hag i HiR). cbn [slot_set]. rewrite Hi. cbn [hp]. rewrite upd_same. reflexivity.
  - apply (Repr_ext l (hp st)); [|exact Hl]. intros j Hj. rewrite Hag by (intros HjR; exact (HlR j Hj HjR)).
    apply hp_slot_set_other. cbn. intros [= ->]. contradiction.
Qed.

Lemma Hangs_left : forall st sl c L k i r, Hangs st sl (T c L k i r) -> Hangs st (SLeft i) L.
Proof.
  intros st sl c L k i r (Hd & Hq & Hr & Hsl). cbn [distinct Repr] in *. destruct Hd as (H1 & H2 & H3 & H4 & H5).
  destruct Hr as (Hi & HL & Hrr). split; [exact H4|]. split; [cbn; intros q [= <-]; exact H1|]. split; [exact HL|].
  cbn [slot_at]. eexists. split; [exact Hi|reflexivity].
Qed.

Lemma Hangs_right : forall st sl c l k i R0, Hangs st sl (T c l k i R0) -> R0 <> E -> Hangs st (SRight i) R0.
Proof.
  intros st sl c l k i R0 (Hd & Hq & Hr & Hsl) Hne. cbn [distinct Repr] in *. destruct Hd as (H1 & H2 & H3 & H4 & H5).
  destruct Hr as (Hi & HL & Hrr). split; [exact H5|]. split; [cbn; intros q [= <-]; exact H2|]. split; [exact Hrr|].
  cbn [slot_at]. eexists. split; [exact Hi|]. cbn [cl cr]. split; [reflexivity|].
  destruct R0 as [|rc rl rk ri rr]; [congruence|]. cbn [root_id]. intros Heq. apply (H3 ri); [apply root_has; exact Heq|cbn; auto].
Qed.

Lemma Hangs_after_left : forall st st1 sl c L l' k i r,
  Hangs st sl (T c L k i r) -> Step st (SLeft i) L l' st1 -> (forall j, has l' j <-> has L j) -> distinct l' ->
  Hangs st1 sl (T c l' k i r) /\ rootp st1 = rootp st /\ (forall j, ~ has L j -> j <> i -> hp st1 j = hp st j).
Proof.
  intros st st1 sl c L l' k i r (Hd & Hq & Hr & Hsl) (HR1 & Hag) Hiff Hdl'.
  pose proof Hd as Hd0. cbn [distinct] in Hd0. destruct Hd0 as (H1 & H2 & H3 & H4 & H5).
  pose proof (Repr_after_left st st1 _ c L l' k i r Hr H1 H3 H2 HR1 Hag) as HRP.
  destruct Hag as (Hagr & Hagh). rewrite rootp_slot_set_left in Hagr.
  assert (Hsame : forall j, ~ has L j -> j <> i -> hp st1 j = hp st j).
  { intros j Hj Hji. rewrite Hagh by exact Hj. apply hp_slot_set_other. cbn. congruence. }
  split; [|split; [exact Hagr|exact Hsame]].
  assert (Hqs : forall q, slot_parent sl = Some q -> hp st1 q = hp st q).
  { intros q Hq0. pose proof (Hq q Hq0) as Hnq. cbn [has] in Hnq. apply Hsame; [tauto|]. intros ->. tauto. }
  split; [|split; [|split; [exact HRP|]]].
  - cbn [distinct]. repeat split; auto.
    + rewrite Hiff. exact H1.
    + intros j Hj Hj'. apply (H3 j); [apply Hiff; exact Hj|exact Hj'].
  - intros q Hq0 Hh. apply (Hq q Hq0). cbn [has] in *. rewrite Hiff in Hh. exact Hh.
  - cbn [root_id] in *. exact (slot_at_agree st st1 sl (Some i) Hsl Hagr Hqs).
Qed.

Lemma Hangs_after_right : forall st st1 sl c l k i R0 r',
  Hangs st sl (T c l k i R0) -> Step st (SRight i) R0 r' st1 -> (forall j, has r' j <-> has R0 j) -> distinct r' ->
  Hangs st1 sl (T c l k i r') /\ rootp st1 = rootp st /\ (forall j, ~ has R0 j -> j <> i -> hp st1 j = hp st j).
Proof.
  intros st st1 sl c l k i R0 r' (Hd & Hq & Hr & Hsl) (HR1 & Hag) Hiff Hdr'.
  pose proof Hd as Hd0. cbn [distinct] in Hd0. destruct Hd0 as (H1 & H2 & H3 & H4 & H5).
  pose proof (Repr_after_right st st1 _ c R0 r' k i l Hr H2 H3 H1 HR1 Hag) as HRP.
  destruct Hag as (Hagr & Hagh). rewrite rootp_slot_set_right in Hagr.
  assert (Hsame : forall j, ~ has R0 j -> j <> i -> hp st1 j = hp st j).
  { intros j Hj Hji. rewrite Hagh by exact Hj. apply hp_slot_set_other. cbn. congruence. }
  split; [|split; [exact Hagr|exact Hsame]].
  assert (Hqs : forall q, slot_parent sl = Some q -> hp st1 q = hp st q).
  { intros q Hq0. pose proof (Hq q Hq0) as Hnq. cbn [has] in Hnq. apply Hsame; [tauto|]. intros ->. tauto. }
  split; [|split; [|split; [exact HRP|]]].
  - cbn [distinct]. repeat split; auto.
    + rewrite Hiff. exact H2.
    + intros j Hj Hj'. apply (H3 j); [exact Hj|apply Hiff; exact Hj'].
  - intros q Hq0 Hh. apply (Hq q Hq0). cbn [has] in *. rewrite Hiff in Hh. exact Hh.
  - cbn [root_id] in *. exact (slot_at_agree st st1 sl (Some i) Hsl Hagr Hqs).
Qed.

(* a step at the node after the work below one of its children is a step from the initial state *)
Lemma Step_after : forall st st1 st2 sl A A1 u',
  Hangs st sl A -> rootp st1 = rootp st -> (forall j, has A1 j <-> has A j) ->
  (forall j, ~ has A j -> hp st1 j = hp st j) ->
  Step st1 sl A1 u' st2 -> Step st sl A u' st2.
Proof.
  intros st st1 st2 sl A A1 u' (_ & Hq & _ & _) Hroot Hiff Hsame (HR2 & Hroot2 & Hfr2).
  assert (Hqs : forall q, slot_parent sl = Some q -> hp st1 q = hp st q) by (intros q Hq0; apply Hsame; exact (Hq q Hq0)).
  destruct (slot_set_agree st1 st sl (root_id u') Hroot Hqs) as (Hsa1 & Hsa2).
  split; [exact HR2|]. split; [congruence|]. intros j Hj. rewrite Hfr2 by (rewrite Hiff; exact Hj). apply Hsa2. apply Hsame. exact Hj.
Qed.

Section InsertAdjust.
  (* the loop of a_rbt_insert_adjust as the generated module has it (fuel, state, node, parent); all that is used of it are
     the facts below, one per status-resolution step of RbtDefs.ins_fix_left / ins_fix_right / insert - each is a lemma of
     harness/C02/TieRbt.v about the generated loop *)
  Variable loop : nat -> state -> option id -> option id -> option state.

  Hypothesis loop_root : forall st l k a r,
    Hangs st SRoot (T Red l k a r) ->
    exists st', Step st SRoot (T Red l k a r) (T Black l k a r) st' /\ forall n, loop (S n) st (Some a) None = Some st'.
  Hypothesis loop_parent_black : forall st x p c, hp st p = Some c -> cc c = 1 -> forall n, loop (S n) st x (Some p) = Some st.
  Hypothesis loop_case1_L : forall st sl c pl pk pi pr k i r x,
    Hangs st sl (T c (T Red pl pk pi pr) k i r) -> is_red r = true ->
    exists st', Step st sl (T c (T Red pl pk pi pr) k i r) (T Red (T Black pl pk pi pr) k i (blacken r)) st' /\
      forall n, loop (S n) st x (Some pi) = loop n st' (Some i) (slot_parent sl).
  Hypothesis loop_case3_L : forall st sl c nc nl nk ni nr pk pi pr k i r,
    Hangs st sl (T c (T Red (T nc nl nk ni nr) pk pi pr) k i r) -> is_red r = false ->
    exists st', Step st sl (T c (T Red (T nc nl nk ni nr) pk pi pr) k i r) (T c (T nc nl nk ni nr) pk pi (T Red (blacken pr) k i r)) st' /\
      forall n, loop (S n) st (Some ni) (Some pi) = Some st'.
  Hypothesis loop_case23_L : forall st sl c pl pk pi nc nl nk ni nr k i r,
    Hangs st sl (T c (T Red pl pk pi (T nc nl nk ni nr)) k i r) -> is_red r = false ->
    exists st', Step st sl (T c (T Red pl pk pi (T nc nl nk ni nr)) k i r)
                  (T c (T Red pl pk pi (blacken nl)) nk ni (T Red (blacken nr) k i r)) st' /\
      forall n, loop (S n) st (Some ni) (Some pi) = Some st'.
  Hypothesis loop_case1_R : forall st sl c l k i pl pk pi pr x,
    Hangs st sl (T c l k i (T Red pl pk pi pr)) -> is_red l = true ->
    exists st', Step st sl (T c l k i (T Red pl pk pi pr)) (T Red (blacken l) k i (T Black pl pk pi pr)) st' /\
      forall n, loop (S n) st x (Some pi) = loop n st' (Some i) (slot_parent sl).
  Hypothesis loop_case3_R : forall st sl c l k i pl pk pi nc nl nk ni nr,
    Hangs st sl (T c l k i (T Red pl pk pi (T nc nl nk ni nr))) -> is_red l = false ->
    exists st', Step st sl (T c l k i (T Red pl pk pi (T nc nl nk ni nr))) (T c (T Red l k i (blacken pl)) pk pi (T nc nl nk ni nr)) st' /\
      forall n, loop (S n) st (Some ni) (Some pi) = Some st'.
  Hypothesis loop_case23_R : forall st sl c l k i nc nl nk ni nr pk pi pr,
    Hangs st sl (T c l k i (T Red (T nc nl nk ni nr) pk pi pr)) -> is_red l = false ->
    exists st', Step st sl (T c l k i (T Red (T nc nl nk ni nr) pk pi pr))
                  (T c (T Red l k i (blacken nl)) nk ni (T Red (blacken nr) pk pi pr)) st' /\
      forall n, loop (S n) st (Some ni) (Some pi) = Some st'.

  (* where the loop stands when the model returns status s with subtree u' (hanging below p): finished; at the head of an
     iteration with node = the root of u'; or - the same place - with node = the red child of the red root of u' *)
  Definition loop_at (s : istatus) (u' : tree) (p : option id) (n : nat) (st1 : state) : option state :=
    match s with
    | IStop => Some st1
    | IRed => loop n st1 (root_id u') p
    | IRedRed d => loop n st1 (root_id (child d u')) (root_id u')
    | IFault => None
    end.

  (* resolution of a status at the node (c, _, k, i, r) after the work below its left child *)
  Lemma ins_resolve_left : forall st1 sl c l' k i r s0 u' s tg1 m1 (f0 : nat -> option state),
    Hangs st1 sl (T c l' k i r) -> status_shape s0 l' -> s <> IFault ->
    ins_fix_left c l' k i r s0 = (u', s, tg1) ->
    (forall n, f0 (m1 + n)%nat = loop_at s0 l' (Some i) n st1) ->
    exists st2 m, (m <= S m1)%nat /\ Step st1 sl (T c l' k i r) u' st2 /\ status_shape s u' /\
      forall n, f0 (m + n)%nat = loop_at s u' (slot_parent sl) n st2.
  Proof.
    intros st1 sl c l' k i r s0 u' s tg1 m1 f0 Hh Hsh Hs Hf Heq.
    assert (Hplus : forall n, (S m1 + n = m1 + S n)%nat) by (intros; lia).
    destruct s0 as [| |d|]; cbn [ins_fix_left] in Hf.
    - injection Hf as <- <- _. exists st1, m1. split; [lia|]. split; [apply Step_refl; exact Hh|]. split; [exact I|exact Heq].
    - destruct c; injection Hf as <- <- _.
      + (* parent red: the same place of the loop, seen from the grandparent *)
        exists st1, m1. split; [lia|]. split; [apply Step_refl; exact Hh|]. split; [split; [reflexivity|exact Hsh]|].
        intros n. rewrite Heq. reflexivity.
      + exists st1, (S m1). split; [lia|]. split; [apply Step_refl; exact Hh|]. split; [exact I|].
        intros n. rewrite Hplus, Heq. cbn [loop_at]. destruct Hh as (_ & _ & (Hi & _) & _).
        apply (loop_parent_black _ _ _ _ Hi). reflexivity.
    - destruct Hsh as (Hrl & Hrc). destruct (is_red_inv _ Hrl) as (pl & pk & pi & pr & ->). cbn [child] in Hrc.
      destruct (is_red r) eqn:Er.
      + injection Hf as <- <- _.
        destruct (loop_case1_L st1 sl c pl pk pi pr k i r (root_id (child d (T Red pl pk pi pr))) Hh Er) as (st2 & HS & Hl).
        exists st2, (S m1). split; [lia|]. split; [exact HS|]. split; [reflexivity|].
        intros n. rewrite Hplus, Heq. cbn [loop_at root_id]. apply Hl.
      + destruct d.
        * destruct (is_red_inv _ Hrc) as (nl & nk & ni & nr & ->). injection Hf as <- <- _.
          destruct (loop_case3_L st1 sl c Red nl nk ni nr pk pi pr k i r Hh Er) as (st2 & HS & Hl).
          exists st2, (S m1). split; [lia|]. split; [exact HS|]. split; [exact I|].
          intros n. rewrite Hplus, Heq. cbn [loop_at root_id child]. apply Hl.
        * destruct (is_red_inv _ Hrc) as (nl & nk & ni & nr & ->). injection Hf as <- <- _.
          destruct (loop_case23_L st1 sl c pl pk pi Red nl nk ni nr k i r Hh Er) as (st2 & HS & Hl).
          exists st2, (S m1). split; [lia|]. split; [exact HS|]. split; [exact I|].
          intros n. rewrite Hplus, Heq. cbn [loop_at root_id child]. apply Hl.
    - injection Hf as _ <- _. congruence.
  Qed.

  Lemma ins_resolve_right : forall st1 sl c l k i r' s0 u' s tg1 m1 (f0 : nat -> option state),
    Hangs st1 sl (T c l k i r') -> status_shape s0 r' -> s <> IFault ->
    ins_fix_right c l k i r' s0 = (u', s, tg1) ->
    (forall n, f0 (m1 + n)%nat = loop_at s0 r' (Some i) n st1) ->
    exists st2 m, (m <= S m1)%nat /\ Step st1 sl (T c l k i r') u' st2 /\ status_shape s u' /\
      forall n, f0 (m + n)%nat = loop_at s u' (slot_parent sl) n st2.
  Proof.
    intros st1 sl c l k i r' s0 u' s tg1 m1 f0 Hh Hsh Hs Hf Heq.
    assert (Hplus : forall n, (S m1 + n = m1 + S n)%nat) by (intros; lia).
    destruct s0 as [| |d|]; cbn [ins_fix_right] in Hf.
    - injection Hf as <- <- _. exists st1, m1. split; [lia|]. split; [apply Step_refl; exact Hh|]. split; [exact I|exact Heq].
    - destruct c; injection Hf as <- <- _.
      + exists st1, m1. split; [lia|]. split; [apply Step_refl; exact Hh|]. split; [split; [reflexivity|exact Hsh]|].
        intros n. rewrite Heq. reflexivity.
      + exists st1, (S m1). split; [lia|]. split; [apply Step_refl; exact Hh|]. split; [exact I|].
        intros n. rewrite Hplus, Heq. cbn [loop_at]. destruct Hh as (_ & _ & (Hi & _) & _).
        apply (loop_parent_black _ _ _ _ Hi). reflexivity.
    - destruct Hsh as (Hrl & Hrc). destruct (is_red_inv _ Hrl) as (pl & pk & pi & pr & ->). cbn [child] in Hrc.
      destruct (is_red l) eqn:Er.
      + injection Hf as <- <- _.
        destruct (loop_case1_R st1 sl c l k i pl pk pi pr (root_id (child d (T Red pl pk pi pr))) Hh Er) as (st2 & HS & Hl).
        exists st2, (S m1). split; [lia|]. split; [exact HS|]. split; [reflexivity|].
        intros n. rewrite Hplus, Heq. cbn [loop_at root_id]. apply Hl.
      + destruct d.
        * destruct (is_red_inv _ Hrc) as (nl & nk & ni & nr & ->). injection Hf as <- <- _.
          destruct (loop_case23_R st1 sl c l k i Red nl nk ni nr pk pi pr Hh Er) as (st2 & HS & Hl).
          exists st2, (S m1). split; [lia|]. split; [exact HS|]. split; [exact I|].
          intros n. rewrite Hplus, Heq. cbn [loop_at root_id child]. apply Hl.
        * destruct (is_red_inv _ Hrc) as (nl & nk & ni & nr & ->). injection Hf as <- <- _.
          destruct (loop_case3_R st1 sl c l k i pl pk pi Red nl nk ni nr Hh Er) as (st2 & HS & Hl).
          exists st2, (S m1). split; [lia|]. split; [exact HS|]. split; [exact I|].
          intros n. rewrite Hplus, Heq. cbn [loop_at root_id child]. apply Hl.
    - injection Hf as _ <- _. congruence.
  Qed.

  (* The loop below and at a subtree u that contains the search position of x: with the red leaf linked (link x xi u laid out
     below the slot), the loop started at the leaf reaches, after m <= depth iterations, the position the model's status
     stands for; u' is laid out below the slot and nothing outside the nodes of u and the leaf has changed. *)
  Lemma climb : forall x xi u u' s tg st sl,
    ins x xi u = InsRes u' s tg -> s <> IFault -> Hangs st sl (link x xi u) ->
    exists st1 m, (m <= depth x u)%nat /\ Step st sl (link x xi u) u' st1 /\ status_shape s u' /\
      forall n, loop (m + n) st (Some xi) (leaf_parent x u (slot_parent sl)) = loop_at s u' (slot_parent sl) n st1.
  Proof.
    intros x xi. induction u as [|c l IHl k i r IHr]; intros u' s tg st sl Hins Hs Hh.
    - cbn in Hins. injection Hins as <- <- _. exists st, O. split; [cbn; lia|]. split; [apply Step_refl; exact Hh|].
      split; [reflexivity|]. intros n. reflexivity.
    - destruct (ins_node_inv _ _ _ _ _ _ _ _ _ _ Hins) as [(Hc & l' & s0 & tg0 & tg1 & Hi & Hf)|(Hc & r' & s0 & tg0 & tg1 & Hi & Hf)];
        cbn [link depth leaf_parent] in *; rewrite Hc in *.
      + assert (Hs0 : s0 <> IFault) by exact (proj1 (ins_fix_left_elems _ _ _ _ _ _ _ _ _ Hf Hs)).
        pose proof (Hangs_left _ _ _ _ _ _ _ Hh) as Hhl.
        destruct (IHl l' s0 tg0 st (SLeft i) Hi Hs0 Hhl) as (st1 & m1 & Hm1 & HS1 & Hsh1 & Heq1).
        destruct (ins_nodes _ _ _ _ _ _ Hi Hs0) as (Hiff & Hdist).
        assert (Hdl' : distinct l') by (apply Hdist; destruct Hhl as (Hd & _); exact Hd).
        destruct (Hangs_after_left st st1 sl c _ l' k i r Hh HS1 Hiff Hdl') as (Hh1 & Hroot1 & Hsame1).
        cbn [slot_parent] in Heq1.
        destruct (ins_resolve_left st1 sl c l' k i r s0 u' s tg1 m1 (fun n0 => loop n0 st (Some xi) (leaf_parent x l (Some i))) Hh1 Hsh1 Hs Hf Heq1) as (st2 & m & Hm & HS2 & Hsh2 & Heq2).
        exists st2, m. split; [lia|]. split; [|split; [exact Hsh2|exact Heq2]].
        apply (Step_after st st1 st2 sl _ (T c l' k i r) u' Hh Hroot1).
        * intros j. cbn [has]. rewrite Hiff. tauto.
        * intros j Hj. cbn [has] in Hj. apply Hsame1; tauto.
        * exact HS2.
      + assert (Hs0 : s0 <> IFault) by exact (proj1 (ins_fix_right_elems _ _ _ _ _ _ _ _ _ Hf Hs)).
        assert (Hhr : Hangs st (SRight i) (link x xi r)).
        { apply (Hangs_right _ _ _ _ _ _ _ Hh). destruct r; cbn [link]; [discriminate|]. destruct (x ?= k0); discriminate. }
        destruct (IHr r' s0 tg0 st (SRight i) Hi Hs0 Hhr) as (st1 & m1 & Hm1 & HS1 & Hsh1 & Heq1).
        destruct (ins_nodes _ _ _ _ _ _ Hi Hs0) as (Hiff & Hdist).
        assert (Hdr' : distinct r') by (apply Hdist; destruct Hhr as (Hd & _); exact Hd).
        destruct (Hangs_after_right st st1 sl c l k i _ r' Hh HS1 Hiff Hdr') as (Hh1 & Hroot1 & Hsame1).
        cbn [slot_parent] in Heq1.
        destruct (ins_resolve_right st1 sl c l k i r' s0 u' s tg1 m1 (fun n0 => loop n0 st (Some xi) (leaf_parent x r (Some i))) Hh1 Hsh1 Hs Hf Heq1) as (st2 & m & Hm & HS2 & Hsh2 & Heq2).
        exists st2, m. split; [lia|]. split; [|split; [exact Hsh2|exact Heq2]].
        apply (Step_after st st1 st2 sl _ (T c l k i r') u' Hh Hroot1).
        * intros j. cbn [has]. rewrite Hiff. tauto.
        * intros j Hj. cbn [has] in Hj. apply Hsame1; tauto.
        * exact HS2.
  Qed.

  (* The loop of a_rbt_insert_adjust implements the fix-up of RbtDefs.insert.  t is ANY tree (no invariant assumed: the
     model's own fault statuses stand for the situations in which the C would be undefined, and the model's insertion is
     assumed not to fault: InsertOk); the heap lays out t with the new red leaf xi linked at the search position of x and
     nothing recoloured ([link x xi t]: what the descent of a_rbt_insert and a_rbt_init leave; node ids distinct); the loop is
     entered with node = the leaf, parent = the leaf's parent.  With more fuel than the height of t it returns a heap that
     lays out the tree the model's insertion returns (colours included), with root->node = its root, and touches no cell
     other than the nodes of t and the leaf. *)
  Theorem insert_adjust_loop_refines : forall x xi t t' tg st fuel,
    NoDup (ids (link x xi t)) -> insert x xi t = InsertOk t' tg ->
    Repr (hp st) None (link x xi t) -> rootp st = root_id (link x xi t) ->
    (height t < fuel)%nat ->
    exists st', loop fuel st (Some xi) (leaf_parent x t None) = Some st' /\ Repr (hp st') None t' /\ rootp st' = root_id t' /\
      (forall j, j <> xi -> ~ In j (ids t) -> hp st' j = hp st j).
  Proof.
    intros x xi t t' tg st fuel Hn Hins Hr Hroot Hfuel. unfold insert in Hins.
    destruct (ins x xi t) as [j|u' s tg0] eqn:Ei; [discriminate|].
    assert (Hs : s <> IFault) by (intros ->; discriminate).
    assert (Hh : Hangs st SRoot (link x xi t)).
    { split; [apply distinct_ids; exact Hn|]. split; [cbn; discriminate|]. split; [exact Hr|exact Hroot]. }
    destruct (climb x xi t u' s tg0 st SRoot Ei Hs Hh) as (st1 & m & Hm & (HR1 & Hag1r & Hag1h) & Hsh & Heq).
    pose proof (depth_height x t) as Hdh. cbn [slot_parent] in *.
    assert (Hframe : forall st', rootp st' = rootp st' -> (forall j, ~ has (link x xi t) j -> hp st' j = hp st j) ->
                     forall j, j <> xi -> ~ In j (ids t) -> hp st' j = hp st j).
    { intros st' _ Hf j Hj Hnj. apply Hf. intros Hh'. apply link_has in Hh'. destruct Hh' as [->|Hh']; [congruence|].
      apply Hnj. apply has_ids. exact Hh'. }
    destruct s as [| |d|]; [| |discriminate|congruence].
    - injection Hins as <- _. exists st1. split; [|split; [exact HR1|split; [exact Hag1r|]]].
      + replace fuel with (m + (fuel - m))%nat by lia. rewrite Heq. reflexivity.
      + apply Hframe; [reflexivity|]. intros j Hj. rewrite Hag1h by exact Hj. reflexivity.
    - injection Hins as <- _. cbn [status_shape] in Hsh. destruct (is_red_inv _ Hsh) as (l & k & a & r & ->).
      destruct (ins_nodes _ _ _ _ _ _ Ei Hs) as (Hiff & Hdist).
      assert (Hh1 : Hangs st1 SRoot (T Red l k a r)).
      { split; [apply Hdist; apply distinct_ids; exact Hn|]. split; [cbn; discriminate|]. split; [exact HR1|exact Hag1r]. }
      destruct (loop_root st1 l k a r Hh1) as (st2 & (HR2 & Hag2r & Hag2h) & Hl).
      exists st2. cbn [blacken]. split; [|split; [exact HR2|split; [exact Hag2r|]]].
      + replace fuel with (m + S (fuel - m - 1))%nat by lia. rewrite Heq. cbn [loop_at root_id]. apply Hl.
      + apply Hframe; [reflexivity|]. intros j Hj. rewrite Hag2h by (rewrite Hiff; exact Hj). cbn [slot_set hp].
        rewrite Hag1h by exact Hj. reflexivity.
  Qed.
End InsertAdjust.

(* ================================================================== Part 5: the canonical heap of RbtDefs.heap_of is such a layout *)

(* the record of RbtDefs.heap_of (what the correspondence run compares with the C after every operation) as a cell *)
Definition strip (n : hnode) : pcell := mkC (h_left n) (h_right n) (h_parent n) (cnum (h_color n)).
Fixpoint alookup (h : list (id * hnode)) (i : id) : option hnode :=
  match h with
  | [] => None
  | (j, n) :: rest => if Pos.eqb i j then Some n else alookup rest i
  end.
Definition heap_fn (h : list (id * hnode)) : id -> option pcell := fun i => option_map strip (alookup h i).

Lemma alookup_in : forall h i n, NoDup (map fst h) -> In (i, n) h -> alookup h i = Some n.
Proof.
  induction h as [|[j m] h IH]; intros i n Hn Hin; [contradiction|].
  cbn [map fst] in Hn. inversion Hn as [|? ? Hj Hn']; subst. cbn [alookup]. destruct Hin as [Heq|Hin].
  - injection Heq as -> ->. rewrite Pos.eqb_refl. reflexivity.
  - destruct (Pos.eqb_spec i j) as [->|Hne]; [|apply IH; assumption].
    exfalso. apply Hj. change j with (fst (j, n)). apply in_map. exact Hin.
Qed.

Lemma Repr_of_list : forall t p h, NoDup (map fst h) -> (forall i n, In (i, n) (heap_of_aux p t) -> In (i, n) h) ->
  Repr (heap_fn h) p t.
Proof.
  induction t as [|c l IHl k i r IHr]; intros p h Hn Hsub; [exact I|].
  cbn [Repr]. split; [|split].
  - unfold heap_fn. rewrite (alookup_in h i (mk_hnode (root_id l) (root_id r) p c) Hn); [reflexivity|].
    apply Hsub. apply heap_root_entry.
  - apply IHl; [exact Hn|]. intros j n Hin. apply Hsub. cbn [heap_of_aux]. apply in_or_app. left. exact Hin.
  - apply IHr; [exact Hn|]. intros j n Hin. apply Hsub. cbn [heap_of_aux]. apply in_or_app. right. right. exact Hin.
Qed.

Lemma Repr_heap_of : forall t, NoDup (ids t) -> Repr (heap_fn (heap_of t)) None t.
Proof.
  intros t Hn. apply Repr_of_list; [unfold heap_of; rewrite heap_fst; exact Hn|]. intros i n Hin. exact Hin.
Qed.

(* ---- the same steps on a state that is not of the form [mkS h r] (after a_rbt_new_child has set an abstract slot) *)
Lemma run_rd_g : forall (A B : Type) st (F : pcell -> A) x c v (K : A -> option B) R,
  hp st x = Some c -> F c = v -> K v = R -> bind (rd st F (Some x)) K = R.
Proof. intros A B [h r]. apply run_rd. Qed.

Lemma run_wr_g : forall (B : Type) st g x c c' (K : state -> option B) R,
  hp st x = Some c -> g c = c' -> K (mkS (upd (hp st) x c') (rootp st)) = R -> bind (wr st (Some x) g) K = R.
Proof. intros B [h r]. apply run_wr. Qed.

Lemma run_wr_c_g : forall (B : Type) st k x c c' (K : state -> option B) R,
  color_ok k = true -> hp st x = Some c -> with_c k c = c' -> K (mkS (upd (hp st) x c') (rootp st)) = R ->
  bind (wr_c st (Some x) k) K = R.
Proof. intros B [h r]. apply run_wr_c. Qed.

Lemma run_bind_if_true : forall (A B : Type) (c : bool) (a b : option A) (K : A -> option B) R,
  c = true -> bind a K = R -> bind (if c then a else b) K = R.
Proof. intros A B c a b K R -> H. exact H. Qed.

Lemma run_bind_if_false : forall (A B : Type) (c : bool) (a b : option A) (K : A -> option B) R,
  c = false -> bind b K = R -> bind (if c then a else b) K = R.
Proof. intros A B c a b K R -> H. exact H. Qed.

(* looking a cell up in a chain of writes, one layer at a time *)
Lemma upd_skip : forall h i c j v, j <> i -> h j = v -> upd h i c j = v.
Proof. intros h i c j v Hn <-. apply upd_other. exact Hn. Qed.

Lemma slot_set_skip : forall st sl v j w, slot_parent sl <> Some j -> hp st j = w -> hp (slot_set st sl v) j = w.
Proof. intros st sl v j w Hn <-. apply hp_slot_set_other. exact Hn. Qed.

(* ---- links by address (a_rbt_insert): `a_rbt_node **link` is a slot; `*link` and `*link = v` for
   link = &root->node / &q->left / &q->right *)
Definition rd_slot (st : state) (sl : slot) : option (option id) :=
  match sl with
  | SRoot => Some (rootp st)
  | SLeft q => rd st cl (Some q)
  | SRight q => rd st cr (Some q)
  end.

Definition wr_slot (st : state) (sl : slot) (v : option id) : option state :=
  match sl with
  | SRoot => Some (set_root st v)
  | SLeft q => wr_l st (Some q) v
  | SRight q => wr_r st (Some q) v
  end.

(* `&p->left` / `&p->right`: p must point to a node (forming the address from a null pointer is an error) *)
Definition slot_l (p : option id) : option slot := match p with Some q => Some (SLeft q) | None => None end.
Definition slot_r (p : option id) : option slot := match p with Some q => Some (SRight q) | None => None end.

(* a_rbt_init's word: the pointer alone is the word of a red node *)
Lemma pw_init : forall p : Z, p + 0 = p.
Proof. intros. lia. Qed.

(* two words that are equal have equal components (word copies) *)
Lemma pw_unique : forall p k p' k', p mod 2 = 0 -> p' mod 2 = 0 -> 0 <= k < 2 -> 0 <= k' < 2 -> p + k = p' + k' -> p = p' /\ k = k'.
Proof.
  intros p k p' k' Hp Hp' Hk Hk' He.
  pose proof (Z.div_mod p 2 ltac:(lia)) as H1. pose proof (Z.div_mod p' 2 ltac:(lia)) as H2. lia.
Qed.

Lemma Repr_has_cell : forall t h p j, Repr h p t -> has t j -> exists c, h j = Some c.
Proof.
  induction t as [|c l IHl k i r IHr]; intros h p j Hr Hj; [contradiction|]. cbn [Repr has] in *. destruct Hr as (Hi & Hl & Hrr).
  destruct Hj as [->|[Hj|Hj]]; [eauto|eapply IHl; eauto|eapply IHr; eauto].
Qed.
