(* C02 -- the pointer level of src/rbt.c, removal side: a_rbt_remove_adjust.

   The model (RbtDefs.v) resolves a deletion status on the way back up its recursion: resolve_left / resolve_right at every
   node of the path, fix_left / fix_right (cases 1-4) where the status says that the subtree lacks a black node.  The C runs a
   loop bottom-up from the parent of the unlinked node.  Here: tree contexts (the path from the root to the hole), the model's
   resolution along a context, the position of the loop that a status stands for, and the proof - by induction on the context,
   one hypothesis per side: "one iteration of the loop = RbtDefs.fix_left / fix_right" - that the loop turns the layout of the
   tree with the hole into the layout of the tree the model's resolution returns.
   The ties themselves (the generated loop satisfies the two hypotheses on every heap) are in harness/C02/TieRbtRemove*.v.
   This file does not depend on the C. *)
From Coq Require Import ZArith PArith List Bool Lia.
From LibaV Require Import C02.RbtDefs C02.RbtSetProofs C02.RbtTieLemmas.
Import ListNotations.
Local Open Scope Z_scope.

(* one level of a path: the hole is the left child of (c, _, k, i, r) / the right child of (c, l, k, i, _) *)
Inductive frame : Type :=
| FL (c : color) (k : Z) (i : id) (r : tree)
| FR (c : color) (l : tree) (k : Z) (i : id).

Definition fid (f : frame) : id := match f with FL _ _ i _ => i | FR _ _ _ i => i end.

Definition plug1 (f : frame) (t : tree) : tree :=
  match f with
  | FL c k i r => T c t k i r
  | FR c l k i => T c l k i t
  end.

(* a context, outermost frame first *)
Fixpoint plug (ctx : list frame) (t : tree) : tree :=
  match ctx with
  | [] => t
  | f :: rest => plug1 f (plug rest t)
  end.

(* the model's resolution of a status at one level and along a context (the tags dropped) *)
Definition resolve1 (f : frame) (t : tree) (s : dstatus) : tree * dstatus :=
  match f with
  | FL c k i r => let '(t', s', _) := resolve_left c t k i r s in (t', s')
  | FR c l k i => let '(t', s', _) := resolve_right c l k i t s in (t', s')
  end.

Fixpoint resolve (ctx : list frame) (t : tree) (s : dstatus) : tree * dstatus :=
  match ctx with
  | [] => (t, s)
  | f :: rest => let '(t1, s1) := resolve rest t s in resolve1 f t1 s1
  end.

(* the parent of the hole when the context hangs below p *)
Fixpoint hole_parent (ctx : list frame) (p : option id) : option id :=
  match ctx with
  | [] => p
  | f :: rest => hole_parent rest (Some (fid f))
  end.

(* what a deletion status says about the subtree it comes with: DNull = the hole is empty (node == NULL on the first
   iteration), DNode = the subtree is there (its root is `node`) *)
Definition dshape (s : dstatus) (t : tree) : Prop :=
  match s with
  | DNone => True
  | DNull => t = E
  | DNode => t <> E
  | DFault => False
  end.

Lemma resolve1_elems : forall f t s t' s', resolve1 f t s = (t', s') -> s' <> DFault ->
  s <> DFault /\ elems t' = elems (plug1 f t).
Proof.
  intros [c k i r|c l k i] t s t' s' H Hs; cbn [resolve1 plug1 elems] in *.
  - destruct (resolve_left c t k i r s) as [[t1 s1] tg] eqn:E1. injection H as <- <-.
    exact (resolve_left_elems _ _ _ _ _ _ _ _ _ E1 Hs).
  - destruct (resolve_right c l k i t s) as [[t1 s1] tg] eqn:E1. injection H as <- <-.
    exact (resolve_right_elems _ _ _ _ _ _ _ _ _ E1 Hs).
Qed.

Lemma elems_has : forall t t', elems t' = elems t -> (forall j, has t' j <-> has t j) /\ (distinct t -> distinct t').
Proof.
  intros t t' He. assert (Hi : ids t' = ids t) by (unfold ids; rewrite He; reflexivity).
  split; [intros j; rewrite !has_ids, Hi; tauto|]. rewrite !distinct_ids, Hi. tauto.
Qed.

(* a DNode status of fix_left / fix_right (case 2 below a black parent) comes with the parent as the root: the loop goes on
   with node = parent *)
Lemma fix_left_bs_dnode : forall cp n k i s t' tg, fix_left_bs cp n k i s = (t', DNode, tg) -> cp = Black /\ root_id t' = Some i.
Proof.
  intros cp n k i [|sc sl sk si sr] t' tg H; cbn [fix_left_bs] in H; [discriminate|].
  destruct (is_red sr); [discriminate|]. destruct (is_red sl).
  - destruct sl; discriminate.
  - destruct cp; [discriminate|]. injection H as <- _. split; reflexivity.
Qed.

Lemma fix_right_bs_dnode : forall cp s k i n t' tg, fix_right_bs cp s k i n = (t', DNode, tg) -> cp = Black /\ root_id t' = Some i.
Proof.
  intros cp [|sc sl sk si sr] k i n t' tg H; cbn [fix_right_bs] in H; [discriminate|].
  destruct (is_red sl); [discriminate|]. destruct (is_red sr).
  - destruct sr; discriminate.
  - destruct cp; [discriminate|]. injection H as <- _. split; reflexivity.
Qed.

Lemma fix_left_status : forall cp n k i s t' ds tg, fix_left cp n k i s = (t', ds, tg) ->
  ds <> DNull /\ (ds = DNode -> root_id t' = Some i).
Proof.
  intros cp n k i s t' ds tg H. unfold fix_left in H.
  assert (Hbs : forall c0 s0 t0 d0 tg0, fix_left_bs c0 n k i s0 = (t0, d0, tg0) -> d0 <> DNull).
  { intros c0 [|sc sl sk si sr] t0 d0 tg0 H0; cbn [fix_left_bs] in H0; [injection H0 as _ <- _; discriminate|].
    destruct (is_red sr); [injection H0 as _ <- _; discriminate|]. destruct (is_red sl).
    - destruct sl; injection H0 as _ <- _; discriminate.
    - destruct c0; injection H0 as _ <- _; discriminate. }
  destruct s as [|[] sl sk si sr].
  - injection H as _ <- _. split; [discriminate|discriminate].
  - destruct sl as [|slc sll slk sli slr]; [injection H as _ <- _; split; discriminate|].
    destruct (fix_left_bs Red n k i (blacken (T slc sll slk sli slr))) as [[p' st0] tg0] eqn:F0. injection H as <- <- _.
    split; [exact (Hbs _ _ _ _ _ F0)|]. intros ->. destruct (fix_left_bs_dnode _ _ _ _ _ _ _ F0) as (Hc & _). discriminate.
  - split; [exact (Hbs _ _ _ _ _ H)|]. intros ->. exact (proj2 (fix_left_bs_dnode _ _ _ _ _ _ _ H)).
Qed.

Lemma fix_right_status : forall cp s k i n t' ds tg, fix_right cp s k i n = (t', ds, tg) ->
  ds <> DNull /\ (ds = DNode -> root_id t' = Some i).
Proof.
  intros cp s k i n t' ds tg H. unfold fix_right in H.
  assert (Hbs : forall c0 s0 t0 d0 tg0, fix_right_bs c0 s0 k i n = (t0, d0, tg0) -> d0 <> DNull).
  { intros c0 [|sc sl sk si sr] t0 d0 tg0 H0; cbn [fix_right_bs] in H0; [injection H0 as _ <- _; discriminate|].
    destruct (is_red sl); [injection H0 as _ <- _; discriminate|]. destruct (is_red sr).
    - destruct sr; injection H0 as _ <- _; discriminate.
    - destruct c0; injection H0 as _ <- _; discriminate. }
  destruct s as [|[] sl sk si sr].
  - injection H as _ <- _. split; [discriminate|discriminate].
  - destruct sr as [|src srl srk sri srr]; [injection H as _ <- _; split; discriminate|].
    destruct (fix_right_bs Red (blacken (T src srl srk sri srr)) k i n) as [[p' st0] tg0] eqn:F0. injection H as <- <- _.
    split; [exact (Hbs _ _ _ _ _ F0)|]. intros ->. destruct (fix_right_bs_dnode _ _ _ _ _ _ _ F0) as (Hc & _). discriminate.
  - split; [exact (Hbs _ _ _ _ _ H)|]. intros ->. exact (proj2 (fix_right_bs_dnode _ _ _ _ _ _ _ H)).
Qed.

(* the right child slot of a node whose right subtree may be empty (the left one is not, then) *)
Lemma Hangs_right' : forall st sl c l k i R0, Hangs st sl (T c l k i R0) -> (R0 = E -> l <> E) -> Hangs st (SRight i) R0.
Proof.
  intros st sl c l k i R0 Hh Hne. destruct R0 as [|rc rl rk ri rr]; [|apply (Hangs_right _ _ _ _ _ _ _ Hh); discriminate].
  destruct Hh as (Hd & Hq & Hr & Hsl). cbn [distinct Repr] in *. destruct Hr as (Hi & HL & _).
  split; [exact I|]. split; [cbn; intros q _ []|]. split; [exact I|].
  cbn [slot_at root_id]. eexists. split; [exact Hi|]. cbn [cl cr]. split; [reflexivity|].
  destruct l; [exfalso; apply Hne; reflexivity|discriminate].
Qed.

Section RemoveAdjust.
  (* the loop of a_rbt_remove_adjust as the generated module has it (fuel, state, parent, node) *)
  Variable rloop : nat -> state -> option id -> option id -> option state.

  (* `if (parent) continue; break;` at the end of case 2, and `if (adjust) a_rbt_remove_adjust(root, adjust)` in a_rbt_remove *)
  Definition gloop (m : nat) (st : state) (p x : option id) : option state :=
    match p with Some q => rloop m st (Some q) x | None => Some st end.

  (* one iteration with node = parent->left (as the C decides it: node != parent->right) is RbtDefs.fix_left, one with
     node = parent->right is RbtDefs.fix_right: on every heap that lays the parent's tree out below a slot *)
  Hypothesis loop_left : forall st sl pc n k i s t' ds tg,
    Hangs st sl (T pc n k i s) -> fix_left pc n k i s = (t', ds, tg) -> ds <> DFault ->
    exists st', Step st sl (T pc n k i s) t' st' /\
      forall m, rloop (S m) st (Some i) (root_id n) =
                match ds with DNone => Some st' | _ => gloop m st' (slot_parent sl) (Some i) end.
  Hypothesis loop_right : forall st sl pc s k i n t' ds tg,
    Hangs st sl (T pc s k i n) -> fix_right pc s k i n = (t', ds, tg) -> ds <> DFault ->
    exists st', Step st sl (T pc s k i n) t' st' /\
      forall m, rloop (S m) st (Some i) (root_id n) =
                match ds with DNone => Some st' | _ => gloop m st' (slot_parent sl) (Some i) end.

  (* where the loop stands when the model returns status s with subtree u' (hanging below p) *)
  Definition loop_at_d (s : dstatus) (u' : tree) (p : option id) (m : nat) (st1 : state) : option state :=
    match s with
    | DNone => Some st1
    | DNull | DNode => gloop m st1 p (root_id u')
    | DFault => None
    end.

  (* one iteration at the frame f, entered with the subtree t1 below it carrying a deficit *)
  Lemma resolve1_step : forall st1 sl f t1 s1 u' s',
    (s1 = DNull \/ s1 = DNode) -> dshape s1 t1 -> Hangs st1 sl (plug1 f t1) ->
    resolve1 f t1 s1 = (u', s') -> s' <> DFault ->
    exists st2, Step st1 sl (plug1 f t1) u' st2 /\ dshape s' u' /\
      forall m, rloop (S m) st1 (Some (fid f)) (root_id t1) = loop_at_d s' u' (slot_parent sl) m st2.
  Proof.
    intros st1 sl f t1 s1 u' s' Hs1 Hsh Hh Hr Hs'.
    assert (Hfin : forall (n : tree) (i : id) (t' : tree) ds (Hfix : ds <> DNull /\ (ds = DNode -> root_id t' = Some i)) st2,
               ds <> DFault ->
               (forall m, rloop (S m) st1 (Some i) (root_id n) =
                          match ds with DNone => Some st2 | _ => gloop m st2 (slot_parent sl) (Some i) end) ->
               dshape ds t' /\ forall m, rloop (S m) st1 (Some i) (root_id n) = loop_at_d ds t' (slot_parent sl) m st2).
    { intros n i t' ds (Hnn & Hroot) st2 Hnf Hl. destruct ds; try congruence.
      - split; [exact I|exact Hl].
      - split; [|intros m; rewrite Hl; cbn [loop_at_d]; rewrite (Hroot eq_refl); reflexivity].
        cbn [dshape]. intros ->. specialize (Hroot eq_refl). discriminate. }
    destruct f as [c k i r|c l k i]; cbn [resolve1 plug1 fid] in *.
    - destruct (resolve_left c t1 k i r s1) as [[t0 s0] tg] eqn:E1. injection Hr as <- <-.
      assert (Hfl : fix_left c t1 k i r = (t0, s0, tg) \/ (t1 = E /\ r = E)).
      { unfold resolve_left in E1. destruct Hs1 as [-> | ->]; [|left; exact E1].
        destruct r as [|rc rl rk ri rr]; [right; split; [exact Hsh|reflexivity]|left; exact E1]. }
      destruct Hfl as [Hfl|(-> & ->)].
      + destruct (loop_left st1 sl c t1 k i r t0 s0 tg Hh Hfl Hs') as (st2 & HS & Hl).
        exists st2. split; [exact HS|]. exact (Hfin t1 i t0 s0 (fix_left_status _ _ _ _ _ _ _ _ Hfl) st2 Hs' Hl).
      + (* NULL == parent->right with the hole on the left: the C takes the other side and dereferences NULL; so does the model *)
        unfold resolve_left in E1. destruct Hs1 as [-> | ->].
        * cbn [fix_right] in E1. injection E1 as _ <- _. congruence.
        * cbn [dshape] in Hsh. congruence.
    - destruct (resolve_right c l k i t1 s1) as [[t0 s0] tg] eqn:E1. injection Hr as <- <-.
      assert (Hfr : fix_right c l k i t1 = (t0, s0, tg)) by (unfold resolve_right in E1; destruct Hs1 as [-> | ->]; exact E1).
      destruct (loop_right st1 sl c l k i t1 t0 s0 tg Hh Hfr Hs') as (st2 & HS & Hl).
      exists st2. split; [exact HS|]. exact (Hfin t1 i t0 s0 (fix_right_status _ _ _ _ _ _ _ _ Hfr) st2 Hs' Hl).
  Qed.

  (* The loop below and at a context: with the tree [plug ctx u] laid out below the slot, u (empty: node == NULL, or not: node =
     its root) lacking a black node, the loop entered at the parent of u reaches, after m <= length ctx iterations, the position
     the model's status stands for; the model's tree is laid out below the slot and nothing outside the tree has changed. *)
  Lemma climb_d : forall ctx u s0 u' s' st sl,
    (s0 = DNull \/ s0 = DNode) -> dshape s0 u -> Hangs st sl (plug ctx u) ->
    resolve ctx u s0 = (u', s') -> s' <> DFault ->
    exists st1 m, (m <= length ctx)%nat /\ Step st sl (plug ctx u) u' st1 /\ dshape s' u' /\
      forall n, gloop (m + n) st (hole_parent ctx (slot_parent sl)) (root_id u) = loop_at_d s' u' (slot_parent sl) n st1.
  Proof.
    induction ctx as [|f rest IH]; intros u s0 u' s' st sl Hs0 Hsh Hh Hr Hs'.
    - cbn in Hr. injection Hr as <- <-. exists st, O. split; [cbn; lia|]. split; [apply Step_refl; exact Hh|]. split; [exact Hsh|].
      intros n. cbn [hole_parent Nat.add]. destruct Hs0 as [-> | ->]; reflexivity.
    - cbn [resolve plug hole_parent length] in *. destruct (resolve rest u s0) as [t1 s1] eqn:E1.
      destruct (resolve1_elems f t1 s1 u' s' Hr Hs') as (Hs1 & He1).
      assert (Hplus : forall m1 n, (S m1 + n = m1 + S n)%nat) by (intros; lia).
      (* the slot of the hole's subtree inside f *)
      assert (Hin : exists sf, slot_parent sf = Some (fid f) /\ Hangs st sf (plug rest u) /\
                (forall st1 t1', Step st sf (plug rest u) t1' st1 -> (forall j, has t1' j <-> has (plug rest u) j) -> distinct t1' ->
                   Hangs st1 sl (plug1 f t1') /\ rootp st1 = rootp st /\ (forall j, ~ has (plug1 f (plug rest u)) j -> hp st1 j = hp st j))).
      { destruct f as [c k i r|c l k i]; cbn [plug1 fid] in *.
        - exists (SLeft i). split; [reflexivity|]. split; [exact (Hangs_left _ _ _ _ _ _ _ Hh)|].
          intros st1 t1' HS Hiff Hd'. destruct (Hangs_after_left st st1 sl c _ t1' k i r Hh HS Hiff Hd') as (H1 & H2 & H3).
          split; [exact H1|]. split; [exact H2|]. intros j Hj. cbn [has] in Hj. apply H3; tauto.
        - assert (Hne : plug rest u = E -> l <> E).
          { intros Hpe ->. destruct rest; [|destruct f; discriminate]. cbn in Hpe. subst u. cbn in E1. injection E1 as <- <-.
            cbn [resolve1] in Hr. destruct Hs0 as [-> | ->]; [|cbn in Hsh; congruence].
            cbn [resolve_right fix_right] in Hr. injection Hr as _ <-. congruence. }
          exists (SRight i). split; [reflexivity|]. split; [exact (Hangs_right' _ _ _ _ _ _ _ Hh Hne)|].
          intros st1 t1' HS Hiff Hd'. destruct (Hangs_after_right st st1 sl c l k i _ t1' Hh HS Hiff Hd') as (H1 & H2 & H3).
          split; [exact H1|]. split; [exact H2|]. intros j Hj. cbn [has] in Hj. apply H3; tauto. }
      destruct Hin as (sf & Hsf & Hhf & Hafter).
      destruct (IH u s0 t1 s1 st sf Hs0 Hsh Hhf E1 Hs1) as (st1 & m1 & Hm1 & HS1 & Hsh1 & Heq1).
      rewrite Hsf in Heq1.
      (* the nodes below f are the same *)
      assert (He0 : elems t1 = elems (plug rest u)).
      { clear - E1 Hs1. revert t1 s1 E1 Hs1. induction rest as [|g rest IHr]; intros t1 s1 E1 Hs1.
        - cbn in E1. injection E1 as <- _. reflexivity.
        - cbn [resolve plug] in *. destruct (resolve rest u s0) as [t2 s2] eqn:E2.
          destruct (resolve1_elems g t2 s2 t1 s1 E1 Hs1) as (Hs2 & He). rewrite He.
          destruct g; cbn [plug1 elems]; rewrite (IHr _ _ eq_refl Hs2); reflexivity. }
      destruct (elems_has _ _ He0) as (Hiff & Hdist).
      assert (Hd1 : distinct t1) by (apply Hdist; destruct Hhf as (Hd & _); exact Hd).
      destruct (Hafter st1 t1 HS1 Hiff Hd1) as (Hh1 & Hroot1 & Hsame1).
      assert (Hiff1 : forall j, has (plug1 f t1) j <-> has (plug1 f (plug rest u)) j).
      { intros j. destruct f; cbn [plug1 has]; rewrite Hiff; tauto. }
      destruct s1 as [| | |]; [| | |congruence].
      + (* the loop has ended below *)
        assert (Hr' : (u', s') = (plug1 f t1, DNone)) by (rewrite <- Hr; destruct f; reflexivity).
        injection Hr' as -> ->.
        exists st1, m1. split; [lia|]. split; [|split; [exact I|exact Heq1]].
        apply (Step_after st st1 st1 sl _ (plug1 f t1) _ Hh Hroot1 Hiff1 Hsame1). apply Step_refl. exact Hh1.
      + destruct (resolve1_step st1 sl f t1 DNull u' s' (or_introl eq_refl) Hsh1 Hh1 Hr Hs') as (st2 & HS2 & Hsh2 & Hl2).
        exists st2, (S m1). split; [lia|]. split; [|split; [exact Hsh2|]].
        * exact (Step_after st st1 st2 sl _ (plug1 f t1) _ Hh Hroot1 Hiff1 Hsame1 HS2).
        * intros n. rewrite Hplus, Heq1. cbn [loop_at_d gloop]. apply Hl2.
      + destruct (resolve1_step st1 sl f t1 DNode u' s' (or_intror eq_refl) Hsh1 Hh1 Hr Hs') as (st2 & HS2 & Hsh2 & Hl2).
        exists st2, (S m1). split; [lia|]. split; [|split; [exact Hsh2|]].
        * exact (Step_after st st1 st2 sl _ (plug1 f t1) _ Hh Hroot1 Hiff1 Hsame1 HS2).
        * intros n. rewrite Hplus, Heq1. cbn [loop_at_d gloop]. apply Hl2.
  Qed.

  (* The loop of a_rbt_remove_adjust implements the model's resolution of a deficit along the path to the root.  ctx is ANY
     context (no invariant assumed: the model's fault status stands for the situations in which the C is undefined, and the
     model's resolution is assumed not to fault); the heap lays out [plug ctx E]: the tree from which a black leaf has just been
     unlinked, the hole being a null child (node ids distinct); the loop is entered as a_rbt_remove does it, `if (adjust)`, with
     parent = the parent of the hole and node = NULL.  With more fuel than the length of the path it returns a heap that lays out
     the tree the model's resolution returns (colours included), with root->node = its root, and touches no cell outside the
     tree. *)
  Theorem remove_adjust_loop_refines : forall ctx t' s' st fuel,
    NoDup (ids (plug ctx E)) -> Repr (hp st) None (plug ctx E) -> rootp st = root_id (plug ctx E) ->
    resolve ctx E DNull = (t', s') -> s' <> DFault ->
    (length ctx < fuel)%nat ->
    exists st', gloop fuel st (hole_parent ctx None) None = Some st' /\ Repr (hp st') None t' /\ rootp st' = root_id t' /\
      (forall j, ~ In j (ids (plug ctx E)) -> hp st' j = hp st j).
  Proof.
    intros ctx t' s' st fuel Hn Hr Hroot Hres Hs' Hfuel.
    assert (Hh : Hangs st SRoot (plug ctx E)).
    { split; [apply distinct_ids; exact Hn|]. split; [cbn; discriminate|]. split; [exact Hr|exact Hroot]. }
    destruct (climb_d ctx E DNull t' s' st SRoot (or_introl eq_refl) eq_refl Hh Hres Hs')
      as (st1 & m & Hm & (HR1 & Hag1r & Hag1h) & Hsh & Heq).
    cbn [slot_parent root_id] in *. exists st1. split; [|split; [exact HR1|split; [exact Hag1r|]]].
    - replace fuel with (m + (fuel - m))%nat by lia. rewrite Heq. destruct s'; try reflexivity. congruence.
    - intros j Hj. rewrite Hag1h by (rewrite has_ids; exact Hj). reflexivity.
  Qed.
End RemoveAdjust.
