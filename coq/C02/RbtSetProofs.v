(* C02 - ordering and contents: the in-order listing `elems` is preserved by every fix-up, insertion
   splits it around the new key, removal deletes exactly one entry, search agrees with it. *)
From Coq Require Import ZArith List Lia.
From LibaV Require Import C02.RbtDefs C02.RbtSpec.
Import ListNotations.
Local Open Scope Z_scope.

Ltac inv H := inversion H; subst; clear H.

Ltac break_match_hyp H :=
  match type of H with
  | context [match ?x with _ => _ end] => destruct x eqn:?
  end.

(* ------------------------------------------------------------------- sorted lists *)

Lemma sorted_mid : forall l1 p l2,
    sorted (l1 ++ p :: l2) <->
    sorted l1 /\ sorted l2 /\
    Forall (fun q => fst q < fst p) l1 /\ Forall (fun q => fst p < fst q) l2.
Proof.
  induction l1 as [|a l1 IH]; intros p l2; simpl.
  - intuition.
  - rewrite IH. rewrite Forall_app. split.
    + intros ((F1 & F2) & S1 & S2 & F3 & F4). inv F2. repeat split; auto.
    + intros ((F1 & S1) & S2 & F3 & F4). inv F3. repeat split; auto.
      constructor; auto. eapply Forall_impl; [|exact F4]. simpl. intros; lia.
Qed.

Lemma sorted_app_inv : forall l1 l2, sorted (l1 ++ l2) -> sorted l1 /\ sorted l2.
Proof.
  induction l1 as [|a l1 IH]; intros l2; simpl; auto.
  intros (F & S). apply Forall_app in F. destruct (IH _ S). intuition.
Qed.

Lemma sorted_remove_mid : forall l1 p l2, sorted (l1 ++ p :: l2) -> sorted (l1 ++ l2).
Proof.
  induction l1 as [|a l1 IH]; intros p l2; simpl.
  - tauto.
  - intros (F & S). split; [|eauto]. apply Forall_app in F. destruct F as (F1 & F2). inv F2.
    apply Forall_app; auto.
Qed.

Lemma sorted_insert_mid : forall l1 x xi l2,
    sorted (l1 ++ l2) ->
    Forall (fun p => fst p < x) l1 -> Forall (fun p => x < fst p) l2 ->
    sorted (l1 ++ (x, xi) :: l2).
Proof.
  intros l1 x xi l2 S F1 F2. apply sorted_app_inv in S. apply sorted_mid. simpl. tauto.
Qed.

Lemma sorted_node : forall l k i r,
    sorted (elems l ++ (k, i) :: elems r) ->
    sorted (elems l) /\ sorted (elems r) /\
    Forall (fun q => fst q < k) (elems l) /\ Forall (fun q => k < fst q) (elems r).
Proof. intros l k i r S. apply sorted_mid in S. exact S. Qed.

(* ------------------------------------------------- fix-ups keep the in-order listing *)

Lemma elems_blacken : forall t, elems (blacken t) = elems t.
Proof. destruct t; reflexivity. Qed.

Ltac el :=
  simpl; rewrite ?elems_blacken; simpl;
  repeat (rewrite <- app_assoc; simpl); try reflexivity.

Lemma ins_fix_left_elems : forall c l' k i r st t' st' tg,
    ins_fix_left c l' k i r st = (t', st', tg) -> st' <> IFault ->
    st <> IFault /\ elems t' = elems l' ++ (k, i) :: elems r.
Proof.
  unfold ins_fix_left; intros.
  repeat break_match_hyp H; inv H; try congruence; (split; [congruence|el]).
Qed.

Lemma ins_fix_right_elems : forall c l k i r' st t' st' tg,
    ins_fix_right c l k i r' st = (t', st', tg) -> st' <> IFault ->
    st <> IFault /\ elems t' = elems l ++ (k, i) :: elems r'.
Proof.
  unfold ins_fix_right; intros.
  repeat break_match_hyp H; inv H; try congruence; (split; [congruence|el]).
Qed.

Lemma fix_left_bs_elems : forall cp n k i s t' st tg,
    fix_left_bs cp n k i s = (t', st, tg) -> st <> DFault ->
    elems t' = elems n ++ (k, i) :: elems s.
Proof.
  unfold fix_left_bs; intros. repeat break_match_hyp H; inv H; try congruence; el.
Qed.

Lemma fix_right_bs_elems : forall cp n k i s t' st tg,
    fix_right_bs cp s k i n = (t', st, tg) -> st <> DFault ->
    elems t' = elems s ++ (k, i) :: elems n.
Proof.
  unfold fix_right_bs; intros. repeat break_match_hyp H; inv H; try congruence; el.
Qed.

Lemma fix_left_elems : forall cp n k i s t' st tg,
    fix_left cp n k i s = (t', st, tg) -> st <> DFault ->
    elems t' = elems n ++ (k, i) :: elems s.
Proof.
  unfold fix_left; intros cp n k i s t' st tg H NF.
  destruct s as [|[] sl sk si sr]; [inv H; congruence| |eapply fix_left_bs_elems; eauto].
  destruct sl as [|csl sll slk sli slr]; [inv H; congruence|].
  destruct (fix_left_bs Red n k i (blacken (T csl sll slk sli slr))) as [[p' st0] tg0] eqn:F0.
  inv H. apply fix_left_bs_elems in F0; auto. simpl. rewrite F0. el.
Qed.

Lemma fix_right_elems : forall cp n k i s t' st tg,
    fix_right cp s k i n = (t', st, tg) -> st <> DFault ->
    elems t' = elems s ++ (k, i) :: elems n.
Proof.
  unfold fix_right; intros cp n k i s t' st tg H NF.
  destruct s as [|[] sl sk si sr]; [inv H; congruence| |eapply fix_right_bs_elems; eauto].
  destruct sr as [|csr srl srk sri srr]; [inv H; congruence|].
  destruct (fix_right_bs Red (blacken (T csr srl srk sri srr)) k i n) as [[p' st0] tg0] eqn:F0.
  inv H. apply fix_right_bs_elems in F0; auto. simpl. rewrite F0. el.
Qed.

Lemma resolve_left_elems : forall c l' k i r st t' st' tg,
    resolve_left c l' k i r st = (t', st', tg) -> st' <> DFault ->
    st <> DFault /\ elems t' = elems l' ++ (k, i) :: elems r.
Proof.
  unfold resolve_left; intros c l' k i r st t' st' tg H NF.
  destruct st.
  - inv H. split; [congruence|reflexivity].
  - split; [congruence|]. destruct r as [|cr rl rk ri rr].
    + destruct (fix_right c l' k i E) as [[t0 s0] tg0] eqn:F. inv H.
      eapply fix_right_elems; eauto.
    + eapply fix_left_elems; eauto.
  - split; [congruence|]. eapply fix_left_elems; eauto.
  - inv H. congruence.
Qed.

Lemma resolve_right_elems : forall c l k i r' st t' st' tg,
    resolve_right c l k i r' st = (t', st', tg) -> st' <> DFault ->
    st <> DFault /\ elems t' = elems l ++ (k, i) :: elems r'.
Proof.
  unfold resolve_right; intros c l k i r' st t' st' tg H NF.
  destruct st.
  - inv H. split; [congruence|reflexivity].
  - split; [congruence|]. eapply fix_right_elems; eauto.
  - split; [congruence|]. eapply fix_right_elems; eauto.
  - inv H. congruence.
Qed.

(* -------------------------------------------------------------------- insertion *)

Lemma ins_elems : forall x xi t,
    sorted (elems t) ->
    match ins x xi t with
    | InsDup j => In (x, j) (elems t)
    | InsRes t' st _ =>
        st <> IFault ->
        exists l1 l2, elems t = l1 ++ l2 /\ elems t' = l1 ++ (x, xi) :: l2 /\
                      Forall (fun p => fst p < x) l1 /\ Forall (fun p => x < fst p) l2
    end.
Proof.
  induction t as [|c l IHl k i r IHr]; intros S.
  - simpl. intros _. exists [], []. simpl. auto.
  - simpl in S. apply sorted_node in S. destruct S as (Sl & Sr & Fl & Fr).
    simpl. destruct (Z.compare_spec x k) as [EQ|LT|GT].
    + subst. apply in_or_app. right. left. reflexivity.
    + specialize (IHl Sl). destruct (ins x xi l) as [j|l' st tg].
      * apply in_or_app. auto.
      * destruct (ins_fix_left c l' k i r st) as [[t' st'] tg'] eqn:F. intros NF.
        destruct (ins_fix_left_elems _ _ _ _ _ _ _ _ _ F NF) as (NF0 & EL).
        destruct (IHl NF0) as (l1 & l2 & E1 & E2 & F1 & F2).
        exists l1, (l2 ++ (k, i) :: elems r). rewrite EL, E1, E2.
        repeat split; auto.
        -- rewrite <- app_assoc. reflexivity.
        -- rewrite <- app_assoc. reflexivity.
        -- apply Forall_app. split; auto. constructor; [simpl; lia|].
           eapply Forall_impl; [|exact Fr]. simpl; intros; lia.
    + specialize (IHr Sr). destruct (ins x xi r) as [j|r' st tg].
      * apply in_or_app. right. right. auto.
      * destruct (ins_fix_right c l k i r' st) as [[t' st'] tg'] eqn:F. intros NF.
        destruct (ins_fix_right_elems _ _ _ _ _ _ _ _ _ F NF) as (NF0 & EL).
        destruct (IHr NF0) as (l1 & l2 & E1 & E2 & F1 & F2).
        exists (elems l ++ (k, i) :: l1), l2. rewrite EL, E1, E2.
        repeat split; auto.
        -- rewrite <- app_assoc. reflexivity.
        -- rewrite <- app_assoc. reflexivity.
        -- apply Forall_app. split.
           ++ eapply Forall_impl; [|exact Fl]. simpl; intros; lia.
           ++ constructor; [simpl; lia|auto].
Qed.

Lemma insert_elems : forall x xi t,
    sorted (elems t) ->
    match insert x xi t with
    | InsertDup j => In (x, j) (elems t)
    | InsertOk t' _ =>
        exists l1 l2, elems t = l1 ++ l2 /\ elems t' = l1 ++ (x, xi) :: l2 /\
                      Forall (fun p => fst p < x) l1 /\ Forall (fun p => x < fst p) l2
    | InsertFault => True
    end.
Proof.
  intros x xi t S. unfold insert. pose proof (ins_elems x xi t S) as H.
  destruct (ins x xi t) as [j|t' st tg]; auto.
  destruct st; auto.
  - apply H. congruence.
  - rewrite elems_blacken. apply H. congruence.
Qed.

(* ---------------------------------------------------------------------- removal *)

Lemma del_min_elems : forall t t' sk si st tg,
    t <> E -> del_min t = (t', sk, si, st, tg) -> st <> DFault ->
    elems t = (sk, si) :: elems t'.
Proof.
  induction t as [|c l IHl k i r _]; intros t' sk si st tg NE F NF; [congruence|].
  simpl in F. destruct l as [|cl ll lk li lr].
  - destruct r as [|cr rl rk ri rr]; inv F; reflexivity.
  - destruct (del_min (T cl ll lk li lr)) as [[[[l' sk0] si0] st0] tg0] eqn:D.
    destruct (resolve_left c l' k i r st0) as [[t0 st1] tg1] eqn:Rs. inv F.
    destruct (resolve_left_elems _ _ _ _ _ _ _ _ _ Rs NF) as (NF0 & EL).
    assert (NE0 : T cl ll lk li lr <> E) by discriminate.
    rewrite EL. change (elems (T c (T cl ll lk li lr) k i r))
      with (elems (T cl ll lk li lr) ++ (k, i) :: elems r).
    rewrite (IHl _ _ _ _ _ NE0 eq_refl NF0). reflexivity.
Qed.

Lemma unlink_elems : forall c l r t' st tg,
    unlink c l r = (t', st, tg) -> st <> DFault -> elems t' = elems l ++ elems r.
Proof.
  intros c l r t' st tg F NF. unfold unlink in F.
  destruct l as [|cl ll lk li lr]; destruct r as [|cr rl rk ri rr].
  - inv F. reflexivity.
  - inv F. reflexivity.
  - inv F. simpl. rewrite app_nil_r. reflexivity.
  - destruct (del_min (T cr rl rk ri rr)) as [[[[r' sk] si] st0] tg0] eqn:D.
    destruct (resolve_right c (T cl ll lk li lr) sk si r' st0) as [[t0 st1] tg1] eqn:Rs. inv F.
    destruct (resolve_right_elems _ _ _ _ _ _ _ _ _ Rs NF) as (NF0 & EL).
    assert (NE0 : T cr rl rk ri rr <> E) by discriminate.
    rewrite EL, (del_min_elems _ _ _ _ _ _ NE0 D NF0). reflexivity.
Qed.

Lemma del_elems : forall x t,
    sorted (elems t) ->
    match del x t with
    | DelAbsent => forall j, ~ In (x, j) (elems t)
    | DelRes j t' st _ =>
        st <> DFault ->
        exists l1 l2, elems t = l1 ++ (x, j) :: l2 /\ elems t' = l1 ++ l2
    end.
Proof.
  induction t as [|c l IHl k i r IHr]; intros S.
  - simpl. auto.
  - simpl in S. apply sorted_node in S. destruct S as (Sl & Sr & Fl & Fr).
    simpl. destruct (Z.compare_spec x k) as [EQ|LT|GT].
    + subst. destruct (unlink c l r) as [[t' st] tg] eqn:U. intros NF.
      exists (elems l), (elems r). split; auto. eapply unlink_elems; eauto.
    + specialize (IHl Sl). destruct (del x l) as [|j l' st tg].
      * intros j H. apply in_app_or in H. destruct H as [H|[H|H]].
        -- eapply IHl; eauto.
        -- inv H. lia.
        -- rewrite Forall_forall in Fr. apply Fr in H. simpl in H. lia.
      * destruct (resolve_left c l' k i r st) as [[t' st'] tg'] eqn:Rs. intros NF.
        destruct (resolve_left_elems _ _ _ _ _ _ _ _ _ Rs NF) as (NF0 & EL).
        destruct (IHl NF0) as (l1 & l2 & E1 & E2).
        exists l1, (l2 ++ (k, i) :: elems r). rewrite EL, E1, E2.
        split; rewrite <- app_assoc; reflexivity.
    + specialize (IHr Sr). destruct (del x r) as [|j r' st tg].
      * intros j H. apply in_app_or in H. destruct H as [H|[H|H]].
        -- rewrite Forall_forall in Fl. apply Fl in H. simpl in H. lia.
        -- inv H. lia.
        -- eapply IHr; eauto.
      * destruct (resolve_right c l k i r' st) as [[t' st'] tg'] eqn:Rs. intros NF.
        destruct (resolve_right_elems _ _ _ _ _ _ _ _ _ Rs NF) as (NF0 & EL).
        destruct (IHr NF0) as (l1 & l2 & E1 & E2).
        exists (elems l ++ (k, i) :: l1), l2. rewrite EL, E1, E2.
        split; rewrite <- app_assoc; reflexivity.
Qed.

Lemma remove_elems : forall x t,
    sorted (elems t) ->
    match remove x t with
    | RemoveAbsent => forall j, ~ In (x, j) (elems t)
    | RemoveOk j t' _ => exists l1 l2, elems t = l1 ++ (x, j) :: l2 /\ elems t' = l1 ++ l2
    | RemoveFault => True
    end.
Proof.
  intros x t S. unfold remove. pose proof (del_elems x t S) as H.
  destruct (del x t) as [|j t' st tg]; auto.
  destruct st; auto; apply H; congruence.
Qed.

(* ----------------------------------------------------------------------- search *)

Lemma find_In : forall x j t, sorted (elems t) -> (find x t = Some j <-> In (x, j) (elems t)).
Proof.
  induction t as [|c l IHl k i r IHr]; intros S.
  - simpl. split; [discriminate|tauto].
  - simpl in S. apply sorted_node in S. destruct S as (Sl & Sr & Fl & Fr).
    rewrite Forall_forall in Fl, Fr.
    simpl. rewrite in_app_iff. simpl. destruct (Z.compare_spec x k) as [EQ|LT|GT].
    + subst. split.
      * intros H. inv H. auto.
      * intros [H|[H|H]].
        -- apply Fl in H. simpl in H. lia.
        -- inv H. reflexivity.
        -- apply Fr in H. simpl in H. lia.
    + rewrite (IHl Sl). split; auto. intros [H|[H|H]]; auto.
      * inv H. lia.
      * apply Fr in H. simpl in H. lia.
    + rewrite (IHr Sr). split; auto. intros [H|[H|H]]; auto.
      * apply Fl in H. simpl in H. lia.
      * inv H. lia.
Qed.

(* ------------------------------------------------- from listings to the abstract map *)

Lemma holds_find : forall t m x, sorted (elems t) -> holds t m -> find x t = m x.
Proof.
  intros t m x S H. destruct (find x t) as [j|] eqn:F.
  - apply find_In in F; auto. apply H in F. auto.
  - destruct (m x) as [j|] eqn:M; auto. apply H in M. apply find_In in M; auto. congruence.
Qed.

Lemma holds_insert : forall t t' m x xi l1 l2,
    holds t m -> elems t = l1 ++ l2 -> elems t' = l1 ++ (x, xi) :: l2 ->
    Forall (fun p => fst p < x) l1 -> Forall (fun p => x < fst p) l2 ->
    m x = None /\ holds t' (aupd m x (Some xi)).
Proof.
  intros t t' m x xi l1 l2 H E1 E2 F1 F2. rewrite Forall_forall in F1, F2.
  assert (NI : forall j, ~ In (x, j) (elems t)).
  { intros j I. rewrite E1 in I. apply in_app_or in I. destruct I as [I|I].
    - apply F1 in I. simpl in I. lia.
    - apply F2 in I. simpl in I. lia. }
  split.
  - destruct (m x) as [j|] eqn:M; auto. apply H in M. elim (NI _ M).
  - intros k j. unfold aupd. rewrite E2, in_app_iff. simpl.
    destruct (Z.eqb_spec k x) as [->|NE].
    + split.
      * intros [I|[I|I]].
        -- apply F1 in I. simpl in I. lia.
        -- inv I. reflexivity.
        -- apply F2 in I. simpl in I. lia.
      * intros I. inv I. auto.
    + rewrite <- (H k j), E1, in_app_iff. split.
      * intros [I|[I|I]]; auto. inv I. congruence.
      * tauto.
Qed.

Lemma holds_remove : forall t t' m x j l1 l2,
    holds t m -> sorted (elems t) -> elems t = l1 ++ (x, j) :: l2 -> elems t' = l1 ++ l2 ->
    m x = Some j /\ holds t' (aupd m x None).
Proof.
  intros t t' m x j l1 l2 H S E1 E2. rewrite E1 in S. apply sorted_mid in S.
  destruct S as (_ & _ & F1 & F2). rewrite Forall_forall in F1, F2. simpl in F1, F2.
  split.
  - apply H. rewrite E1. apply in_or_app. right. left. reflexivity.
  - intros k j'. unfold aupd. rewrite E2, in_app_iff.
    destruct (Z.eqb_spec k x) as [->|NE].
    + split; [|discriminate]. intros [I|I].
      * apply F1 in I. simpl in I. lia.
      * apply F2 in I. simpl in I. lia.
    + rewrite <- (H k j'), E1, in_app_iff. simpl. split.
      * tauto.
      * intros [I|[I|I]]; auto. inv I. congruence.
Qed.

(* --------------------------------------------- sorted listing = binary search tree *)

Lemma all_keys_Forall : forall P t, Forall (fun q => P (fst q)) (elems t) -> all_keys P t.
Proof.
  induction t as [|c l IHl k i r IHr]; simpl; auto. intros F.
  apply Forall_app in F. destruct F as (F1 & F2). inv F2. auto.
Qed.

Lemma sorted_BST : forall t, sorted (elems t) -> BST t.
Proof.
  induction t as [|c l IHl k i r IHr]; simpl; auto. intros S.
  apply sorted_node in S. destruct S as (Sl & Sr & Fl & Fr).
  repeat split; auto; apply all_keys_Forall; auto.
Qed.
