(* C02 - specification vocabulary for the red-black tree theorems (definitions only, no proofs). *)
From Coq Require Import ZArith List.
From LibaV Require Import C02.RbtDefs.
Import ListNotations.
Local Open Scope Z_scope.

(* ---------------------------------------------------------------- colour invariants *)

(* local form used in the proofs: at every node both subtrees have the same (leftmost-path) black
   height and a red node has no red child *)
Fixpoint rbwf (t : tree) : Prop :=
  match t with
  | E => True
  | T c l _ _ r =>
      rbwf l /\ rbwf r /\ bh l = bh r /\ (c = Red -> col l = Black /\ col r = Black)
  end.

(* the property as the statement words it *)
Fixpoint no_red_red (t : tree) : Prop :=
  match t with
  | E => True
  | T c l _ _ r =>
      (c = Red -> col l = Black /\ col r = Black) /\ no_red_red l /\ no_red_red r
  end.

Definition blk (c : color) : nat := match c with Black => 1%nat | Red => 0%nat end.

(* path_blacks t n: some path from the root of t down to a missing child crosses n black nodes *)
Inductive path_blacks : tree -> nat -> Prop :=
| pb_E : path_blacks E 0
| pb_L : forall c l k i r n, path_blacks l n -> path_blacks (T c l k i r) (n + blk c)
| pb_R : forall c l k i r n, path_blacks r n -> path_blacks (T c l k i r) (n + blk c).

Definition equal_black_paths (t : tree) : Prop :=
  forall n1 n2, path_blacks t n1 -> path_blacks t n2 -> n1 = n2.

(* ------------------------------------------------------------------------- ordering *)

Fixpoint all_keys (P : Z -> Prop) (t : tree) : Prop :=
  match t with
  | E => True
  | T _ l k _ r => P k /\ all_keys P l /\ all_keys P r
  end.

Fixpoint BST (t : tree) : Prop :=
  match t with
  | E => True
  | T _ l k _ r =>
      all_keys (fun x => x < k) l /\ all_keys (fun x => k < x) r /\ BST l /\ BST r
  end.

(* strictly increasing keys of an association list (used on the in-order listing `elems t`) *)
Fixpoint sorted (l : list (Z * id)) : Prop :=
  match l with
  | [] => True
  | p :: tl => Forall (fun q => fst p < fst q) tl /\ sorted tl
  end.

Definition RB (t : tree) : Prop :=
  col t = Black /\ no_red_red t /\ equal_black_paths t /\ BST t.

(* -------------------------------------------------------------------- abstract set *)

(* the container's contents: a finite map from keys to the identity of the node carrying the key *)
Definition amap := Z -> option id.
Definition aempty : amap := fun _ => None.
Definition aupd (m : amap) (x : Z) (v : option id) : amap :=
  fun k => if Z.eqb k x then v else m k.

Definition astep (m : amap) (o : op) : amap * ret :=
  match o with
  | OpInsert k i =>
      match m k with
      | Some j => (m, RetDup j)                       (* resident returned, contents unchanged *)
      | None => (aupd m k (Some i), RetInserted)
      end
  | OpRemove k =>
      match m k with
      | Some j => (aupd m k None, RetRemoved j)
      | None => (m, RetNone)
      end
  | OpSearch k =>
      match m k with
      | Some j => (m, RetFound j)
      | None => (m, RetNone)
      end
  end.

Fixpoint arun (m : amap) (ops : list op) : amap * list ret :=
  match ops with
  | [] => (m, [])
  | o :: rest =>
      let '(m', r) := astep m o in
      let '(m'', rs) := arun m' rest in (m'', r :: rs)
  end.

(* t holds exactly the bindings of m *)
Definition holds (t : tree) (m : amap) : Prop :=
  forall k j, In (k, j) (elems t) <-> m k = Some j.

(* a state of the container that some finite history of operations produces from the empty tree *)
Definition reachable (t : tree) : Prop := exists ops rs, run E ops = (t, rs).

(* ------------------------------------------------------------------ pointer structure *)

(* h is a consistent parent-linked binary tree with root `root`:
   one record per node id; every child link is answered by the child's parent field; the two
   children of a node are different nodes; every parent
   field is answered by a child link of that parent; exactly the root has a null parent. *)
Definition links_consistent (root : option id) (h : list (id * hnode)) : Prop :=
  NoDup (map fst h) /\
  (forall i n, In (i, n) h ->
     (forall j, h_left n = Some j -> exists m, In (j, m) h /\ h_parent m = Some i) /\
     (forall j, h_right n = Some j -> exists m, In (j, m) h /\ h_parent m = Some i) /\
     (forall j, h_left n = Some j -> h_right n <> Some j) /\
     (forall p, h_parent n = Some p ->
        exists m, In (p, m) h /\ (h_left m = Some i \/ h_right m = Some i)) /\
     (h_parent n = None -> root = Some i)) /\
  (forall r, root = Some r -> exists n, In (r, n) h /\ h_parent n = None) /\
  (root = None -> h = []).
