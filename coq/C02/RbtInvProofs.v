(* C02 - colour / black-height invariants of the red-black model, and absence of faults
   (the A_ASSUME facts of a_rbt_remove_adjust). *)
From Coq Require Import ZArith List Lia.
From LibaV Require Import C02.RbtDefs C02.RbtSpec.
Import ListNotations.

Ltac inv H := inversion H; subst; clear H.

(* ------------------------------------------------------------------ basic facts *)

Lemma is_red_false_col : forall t, is_red t = false -> col t = Black.
Proof. destruct t as [|[] ? ? ? ?]; simpl; congruence. Qed.

Lemma is_red_true : forall t, is_red t = true -> exists l k i r, t = T Red l k i r.
Proof. destruct t as [|[] l k i r]; simpl; try congruence. eauto. Qed.

Lemma blacken_black : forall t, col t = Black -> blacken t = t.
Proof. destruct t as [|[] ? ? ? ?]; simpl; congruence. Qed.

Lemma col_blacken : forall t, col (blacken t) = Black.
Proof. destruct t; reflexivity. Qed.

Lemma rbwf_blacken : forall t, rbwf t -> rbwf (blacken t).
Proof. destruct t; simpl; intuition congruence. Qed.

Lemma bh_blacken_red : forall l k i r, bh (blacken (T Red l k i r)) = S (bh (T Red l k i r)).
Proof. intros; simpl; lia. Qed.

(* ------------------------------------------------------------------- insertion *)

Definition ins_inv (t t' : tree) (st : istatus) : Prop :=
  match st with
  | IStop => rbwf t' /\ bh t' = bh t /\ col t' = col t
  | IRed => rbwf t' /\ bh t' = bh t /\ col t' = Red /\ col t = Black
  | IRedRed d =>
      col t = Red /\ bh t' = bh t /\
      match t' with
      | T Red l _ _ r =>
          rbwf l /\ rbwf r /\ bh l = bh r /\
          match d with
          | L => col l = Red /\ col r = Black
          | R => col r = Red /\ col l = Black
          end
      | _ => False
      end
  | IFault => False
  end.

Ltac tidy :=
  repeat match goal with
         | H : _ /\ _ |- _ => destruct H
         | H : (_, _) = (_, _) |- _ => inv H
         | H : False |- _ => contradiction
         | H : Red = Black |- _ => discriminate H
         | H : Black = Red |- _ => discriminate H
         | H : ?a = ?a -> _ |- _ => specialize (H eq_refl)
         end.

Ltac finish := simpl in *; tidy; repeat split; intros; tidy; simpl in *; try congruence; try lia.

Lemma ins_fix_left_inv : forall c l l' k i r st t' st' tg,
    rbwf (T c l k i r) -> ins_inv l l' st ->
    ins_fix_left c l' k i r st = (t', st', tg) ->
    ins_inv (T c l k i r) t' st'.
Proof.
  intros c l l' k i r st t' st' tg W I F.
  unfold ins_fix_left in F. destruct st as [| |d|].
  - (* IStop *) inv F. destruct c; finish.
  - (* IRed *) destruct c; inv F; finish.
  - (* IRedRed *)
    simpl in I. destruct I as (Cl & Bl & I).
    destruct l' as [|[] pl pk pi pr]; try contradiction.
    assert (c = Black) by (destruct c; simpl in W; tidy; congruence). subst c.
    destruct (is_red r) eqn:Rr.
    + apply is_red_true in Rr. destruct Rr as (rl & rk & ri & rr & ->). inv F. finish.
    + apply is_red_false_col in Rr.
      destruct d.
      * inv F. simpl in *. tidy. rewrite (blacken_black pr) by assumption. finish.
      * destruct pr as [|cn nl nk ni nr]; [simpl in I; tidy; discriminate|].
        inv F. simpl in *. tidy. subst cn. simpl in *. tidy.
        rewrite (blacken_black nl), (blacken_black nr) by assumption. finish.
  - contradiction.
Qed.

Lemma ins_fix_right_inv : forall c l r r' k i st t' st' tg,
    rbwf (T c l k i r) -> ins_inv r r' st ->
    ins_fix_right c l k i r' st = (t', st', tg) ->
    ins_inv (T c l k i r) t' st'.
Proof.
  intros c l r r' k i st t' st' tg W I F.
  unfold ins_fix_right in F. destruct st as [| |d|].
  - inv F. destruct c; finish.
  - destruct c; inv F; finish.
  - simpl in I. destruct I as (Cl & Bl & I).
    destruct r' as [|[] pl pk pi pr]; try contradiction.
    assert (c = Black) by (destruct c; simpl in W; tidy; congruence). subst c.
    destruct (is_red l) eqn:Rr.
    + apply is_red_true in Rr. destruct Rr as (rl & rk & ri & rr & ->). inv F. finish.
    + apply is_red_false_col in Rr.
      destruct d.
      * destruct pl as [|cn nl nk ni nr]; [simpl in I; tidy; discriminate|].
        inv F. simpl in *. tidy. subst cn. simpl in *. tidy.
        rewrite (blacken_black nl), (blacken_black nr) by assumption. finish.
      * inv F. simpl in *. tidy. rewrite (blacken_black pl) by assumption. finish.
  - contradiction.
Qed.

Lemma ins_inv_holds : forall x xi t,
    rbwf t ->
    match ins x xi t with
    | InsDup _ => True
    | InsRes t' st _ => ins_inv t t' st
    end.
Proof.
  induction t as [|c l IHl k i r IHr]; intros W.
  - simpl. intuition.
  - simpl. destruct (x ?= k)%Z; auto.
    + assert (Wl : rbwf l) by (simpl in W; tauto). specialize (IHl Wl).
      destruct (ins x xi l) as [j|l' st tg]; auto.
      destruct (ins_fix_left c l' k i r st) as [[t' st'] tg'] eqn:F.
      eapply ins_fix_left_inv; eauto.
    + assert (Wr : rbwf r) by (simpl in W; tauto). specialize (IHr Wr).
      destruct (ins x xi r) as [j|r' st tg]; auto.
      destruct (ins_fix_right c l k i r' st) as [[t' st'] tg'] eqn:F.
      eapply ins_fix_right_inv; eauto.
Qed.

(* a_rbt_insert never dereferences NULL on a valid tree, and re-establishes validity *)
Lemma insert_inv : forall x xi t,
    rbwf t -> col t = Black ->
    match insert x xi t with
    | InsertDup _ => True
    | InsertOk t' _ => rbwf t' /\ col t' = Black
    | InsertFault => False
    end.
Proof.
  intros x xi t W C. unfold insert. pose proof (ins_inv_holds x xi t W) as H.
  destruct (ins x xi t) as [j|t' st tg]; auto.
  destruct st; simpl in H; tidy.
  - split; congruence.
  - split; [apply rbwf_blacken; auto | apply col_blacken].
  - congruence.
Qed.

(* --------------------------------------------------------------------- removal *)

(* what a status returned for the subtree t (now t') promises to the caller *)
Definition del_inv (t t' : tree) (st : dstatus) : Prop :=
  match st with
  | DNone => rbwf t' /\ bh t' = bh t /\ (col t = Black -> col t' = Black)
  | DNull => t' = E /\ bh t = 1%nat
  | DNode => rbwf t' /\ S (bh t') = bh t /\ col t' = Black
  | DFault => False
  end.

(* what one run of the sibling cases promises: parent colour cp, deficient side n, sibling s *)
Definition fix_post (cp : color) (s t' : tree) (st : dstatus) : Prop :=
  rbwf t' /\
  match st with
  | DNone => bh t' = (bh s + blk cp)%nat /\ (cp = Black -> col t' = Black)
  | DNode => cp = Black /\ bh t' = bh s /\ col t' = Black
  | _ => False
  end.

Local Arguments fix_left_bs : simpl never.
Local Arguments fix_right_bs : simpl never.

Lemma fix_left_bs_ok : forall cp n k i s t' st tg,
    rbwf n -> rbwf s -> col s = Black -> S (bh n) = bh s ->
    fix_left_bs cp n k i s = (t', st, tg) ->
    fix_post cp s t' st.
Proof.
  intros cp n k i s t' st tg Wn Ws Cs B F. unfold fix_post.
  destruct s as [|cs sl sk si sr]; [simpl in B; lia|].
  simpl in Cs. subst cs. unfold fix_left_bs in F.
  destruct (is_red sr) eqn:Rr.
  - apply is_red_true in Rr. destruct Rr as (a & b & c & d & ->). inv F. destruct cp; finish.
  - apply is_red_false_col in Rr. destruct (is_red sl) eqn:Rl.
    + apply is_red_true in Rl. destruct Rl as (sll & slk & sli & slr & ->). inv F.
      simpl in *. tidy. rewrite (blacken_black slr) by assumption. destruct cp; finish.
    + apply is_red_false_col in Rl. destruct cp; inv F; finish.
Qed.

Lemma fix_left_ok : forall cp n k i s t' st tg,
    rbwf n -> rbwf s -> (cp = Red -> col s = Black) -> S (bh n) = bh s ->
    fix_left cp n k i s = (t', st, tg) ->
    fix_post cp s t' st.
Proof.
  intros cp n k i s t' st tg Wn Ws Cs B F.
  destruct s as [|[] sl sk si sr]; [simpl in B; lia| |].
  - (* Case 1: red sibling; its children are black and as high as it, hence not null *)
    assert (cp = Black) by (destruct cp; auto; specialize (Cs eq_refl); discriminate). subst cp.
    simpl in Ws, B. tidy.
    destruct sl as [|[] sll slk sli slr]; simpl in *; try lia; try discriminate.
    destruct (fix_left_bs Red n k i (T Black sll slk sli slr)) as [[p' st0] tg0] eqn:F0.
    apply fix_left_bs_ok in F0; simpl; auto; try lia.
    inv F. unfold fix_post in *. destruct st; simpl in *; tidy; try discriminate.
    finish.
  - eapply fix_left_bs_ok; eauto.
Qed.

Lemma fix_right_bs_ok : forall cp n k i s t' st tg,
    rbwf n -> rbwf s -> col s = Black -> S (bh n) = bh s ->
    fix_right_bs cp s k i n = (t', st, tg) ->
    fix_post cp s t' st.
Proof.
  intros cp n k i s t' st tg Wn Ws Cs B F. unfold fix_post.
  destruct s as [|cs sl sk si sr]; [simpl in B; lia|].
  simpl in Cs. subst cs. unfold fix_right_bs in F.
  destruct (is_red sl) eqn:Rl.
  - apply is_red_true in Rl. destruct Rl as (a & b & c & d & ->). inv F. destruct cp; finish.
  - apply is_red_false_col in Rl. destruct (is_red sr) eqn:Rr.
    + apply is_red_true in Rr. destruct Rr as (srl & srk & sri & srr & ->). inv F.
      simpl in *. tidy. rewrite (blacken_black srl) by assumption. destruct cp; finish.
    + apply is_red_false_col in Rr. destruct cp; inv F; finish.
Qed.

Lemma fix_right_ok : forall cp n k i s t' st tg,
    rbwf n -> rbwf s -> (cp = Red -> col s = Black) -> S (bh n) = bh s ->
    fix_right cp s k i n = (t', st, tg) ->
    fix_post cp s t' st.
Proof.
  intros cp n k i s t' st tg Wn Ws Cs B F.
  destruct s as [|[] sl sk si sr]; [simpl in B; lia| |].
  - assert (cp = Black) by (destruct cp; auto; specialize (Cs eq_refl); discriminate). subst cp.
    simpl in Ws, B. tidy.
    destruct sr as [|[] srl srk sri srr]; simpl in *; try lia; try discriminate.
    destruct (fix_right_bs Red (T Black srl srk sri srr) k i n) as [[p' st0] tg0] eqn:F0.
    apply fix_right_bs_ok in F0; simpl; auto; try lia.
    inv F. unfold fix_post in *. destruct st; simpl in *; tidy; try discriminate.
    finish.
  - eapply fix_right_bs_ok; eauto.
Qed.
