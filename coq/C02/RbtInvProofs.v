(* C02 - colour / black-height invariants of the red-black model, and absence of faults
   (the A_ASSUME facts of a_rbt_remove_adjust). *)
From Coq Require Import ZArith List Lia.
From LibaV Require Import C02.RbtDefs C02.RbtSpec.
Import ListNotations.

Ltac inv H := inversion H; subst; clear H.

(* ------------------------------------------------------------------ basic facts *)

Lemma is_red_false_col : forall t, is_red t = false -> col t = Black.
Proof. destruct t as [|[] ? ? ? ?]; simpl; congruence. Qed.

Lemma is_red_true : forall t, is_red t = true -> exists l k i r, t = T Red l k i r.
Proof. destruct t as [|[] l k i r]; simpl; try congruence. eauto. Qed.

Lemma blacken_black : forall t, col t = Black -> blacken t = t.
Proof. destruct t as [|[] ? ? ? ?]; simpl; congruence. Qed.

Lemma col_blacken : forall t, col (blacken t) = Black.
Proof. destruct t; reflexivity. Qed.

Lemma rbwf_blacken : forall t, rbwf t -> rbwf (blacken t).
Proof. destruct t; simpl; intuition congruence. Qed.

Lemma bh_blacken_red : forall l k i r, bh (blacken (T Red l k i r)) = S (bh (T Red l k i r)).
Proof. intros; simpl; lia. Qed.

(* ------------------------------------------------------------------- insertion *)

Definition ins_inv (t t' : tree) (st : istatus) : Prop :=
  match st with
  | IStop => rbwf t' /\ bh t' = bh t /\ col t' = col t
  | IRed => rbwf t' /\ bh t' = bh t /\ col t' = Red /\ col t = Black
  | IRedRed d =>
      col t = Red /\ bh t' = bh t /\
      match t' with
      | T Red l _ _ r =>
          rbwf l /\ rbwf r /\ bh l = bh r /\
          match d with
          | L => col l = Red /\ col r = Black
          | R => col r = Red /\ col l = Black
          end
      | _ => False
      end
  | IFault => False
  end.

Ltac tidy :=
  repeat match goal with
         | H : _ /\ _ |- _ => destruct H
         | H : (_, _) = (_, _) |- _ => inv H
         | H : False |- _ => contradiction
         | H : Red = Black |- _ => discriminate H
         | H : Black = Red |- _ => discriminate H
         | H : ?a = ?a -> _ |- _ => specialize (H eq_refl)
         end.

Ltac finish := simpl in *; tidy; repeat split; intros; tidy; simpl in *; try congruence; try lia; auto.

Lemma ins_fix_left_inv : forall c l l' k i r st t' st' tg,
    rbwf (T c l k i r) -> ins_inv l l' st ->
    ins_fix_left c l' k i r st = (t', st', tg) ->
    ins_inv (T c l k i r) t' st'.
Proof.
  intros c l l' k i r st t' st' tg W I F.
  unfold ins_fix_left in F. destruct st as [| |d|].
  - (* IStop *) inv F. destruct c; finish.
  - (* IRed *) destruct c; inv F; finish.
  - (* IRedRed *)
    simpl in I. destruct I as (Cl & Bl & I).
    destruct l' as [|[] pl pk pi pr]; try contradiction.
    assert (c = Black) by (destruct c; simpl in W; tidy; congruence). subst c.
    destruct (is_red r) eqn:Rr.
    + apply is_red_true in Rr. destruct Rr as (rl & rk & ri & rr & ->). inv F. finish.
    + apply is_red_false_col in Rr.
      destruct d.
      * inv F. simpl in *. tidy. rewrite (blacken_black pr) by assumption. finish.
      * destruct pr as [|cn nl nk ni nr]; [simpl in I; tidy; discriminate|].
        inv F. simpl in *. tidy. subst cn. simpl in *. tidy.
        rewrite (blacken_black nl), (blacken_black nr) by assumption. finish.
  - contradiction.
Qed.

Lemma ins_fix_right_inv : forall c l r r' k i st t' st' tg,
    rbwf (T c l k i r) -> ins_inv r r' st ->
    ins_fix_right c l k i r' st = (t', st', tg) ->
    ins_inv (T c l k i r) t' st'.
Proof.
  intros c l r r' k i st t' st' tg W I F.
  unfold ins_fix_right in F. destruct st as [| |d|].
  - inv F. destruct c; finish.
  - destruct c; inv F; finish.
  - simpl in I. destruct I as (Cl & Bl & I).
    destruct r' as [|[] pl pk pi pr]; try contradiction.
    assert (c = Black) by (destruct c; simpl in W; tidy; congruence). subst c.
    destruct (is_red l) eqn:Rr.
    + apply is_red_true in Rr. destruct Rr as (rl & rk & ri & rr & ->). inv F. finish.
    + apply is_red_false_col in Rr.
      destruct d.
      * destruct pl as [|cn nl nk ni nr]; [simpl in I; tidy; discriminate|].
        inv F. simpl in *. tidy. subst cn. simpl in *. tidy.
        rewrite (blacken_black nl), (blacken_black nr) by assumption. finish.
      * inv F. simpl in *. tidy. rewrite (blacken_black pl) by assumption. finish.
  - contradiction.
Qed.

Lemma ins_inv_holds : forall x xi t,
    rbwf t ->
    match ins x xi t with
    | InsDup _ => True
    | InsRes t' st _ => ins_inv t t' st
    end.
Proof.
  induction t as [|c l IHl k i r IHr]; intros W.
  - simpl. intuition.
  - simpl. destruct (x ?= k)%Z; auto.
    + assert (Wl : rbwf l) by (simpl in W; tauto). specialize (IHl Wl).
      destruct (ins x xi l) as [j|l' st tg]; auto.
      destruct (ins_fix_left c l' k i r st) as [[t' st'] tg'] eqn:F.
      eapply ins_fix_left_inv; eauto.
    + assert (Wr : rbwf r) by (simpl in W; tauto). specialize (IHr Wr).
      destruct (ins x xi r) as [j|r' st tg]; auto.
      destruct (ins_fix_right c l k i r' st) as [[t' st'] tg'] eqn:F.
      eapply ins_fix_right_inv; eauto.
Qed.

(* a_rbt_insert never dereferences NULL on a valid tree, and re-establishes validity *)
Lemma insert_inv : forall x xi t,
    rbwf t -> col t = Black ->
    match insert x xi t with
    | InsertDup _ => True
    | InsertOk t' _ => rbwf t' /\ col t' = Black
    | InsertFault => False
    end.
Proof.
  intros x xi t W C. unfold insert. pose proof (ins_inv_holds x xi t W) as H.
  destruct (ins x xi t) as [j|t' st tg]; auto.
  destruct st; simpl in H; tidy.
  - split; congruence.
  - split; [apply rbwf_blacken; auto | apply col_blacken].
  - congruence.
Qed.

(* --------------------------------------------------------------------- removal *)

(* what a status returned for the subtree t (now t') promises to the caller *)
Definition del_inv (t t' : tree) (st : dstatus) : Prop :=
  match st with
  | DNone => rbwf t' /\ bh t' = bh t /\ (col t = Black -> col t' = Black)
  | DNull => t' = E /\ bh t = 1%nat
  | DNode => rbwf t' /\ S (bh t') = bh t /\ col t' = Black
  | DFault => False
  end.

(* what one run of the sibling cases promises: parent colour cp, deficient side n, sibling s *)
Definition fix_post (cp : color) (s t' : tree) (st : dstatus) : Prop :=
  rbwf t' /\
  match st with
  | DNone => bh t' = (bh s + blk cp)%nat /\ (cp = Black -> col t' = Black)
  | DNode => cp = Black /\ bh t' = bh s /\ col t' = Black
  | _ => False
  end.

Local Arguments fix_left_bs : simpl never.
Local Arguments fix_right_bs : simpl never.

Lemma fix_left_bs_ok : forall cp n k i s t' st tg,
    rbwf n -> rbwf s -> col s = Black -> S (bh n) = bh s ->
    fix_left_bs cp n k i s = (t', st, tg) ->
    fix_post cp s t' st.
Proof.
  intros cp n k i s t' st tg Wn Ws Cs B F. unfold fix_post.
  destruct s as [|cs sl sk si sr]; [simpl in B; lia|].
  simpl in Cs. subst cs. unfold fix_left_bs in F.
  destruct (is_red sr) eqn:Rr.
  - apply is_red_true in Rr. destruct Rr as (a & b & c & d & ->). inv F. destruct cp; finish.
  - apply is_red_false_col in Rr. destruct (is_red sl) eqn:Rl.
    + apply is_red_true in Rl. destruct Rl as (sll & slk & sli & slr & ->). inv F.
      simpl in *. tidy. rewrite (blacken_black slr) by assumption. destruct cp; finish.
    + apply is_red_false_col in Rl. destruct cp; inv F; finish.
Qed.

Lemma fix_left_ok : forall cp n k i s t' st tg,
    rbwf n -> rbwf s -> (cp = Red -> col s = Black) -> S (bh n) = bh s ->
    fix_left cp n k i s = (t', st, tg) ->
    fix_post cp s t' st.
Proof.
  intros cp n k i s t' st tg Wn Ws Cs B F.
  destruct s as [|[] sl sk si sr]; [simpl in B; lia| |].
  - (* Case 1: red sibling; its children are black and as high as it, hence not null *)
    assert (cp = Black) by (destruct cp; auto; specialize (Cs eq_refl); discriminate). subst cp.
    simpl in Ws, B. tidy.
    destruct sl as [|[] sll slk sli slr]; simpl in *; try lia; try discriminate.
    destruct (fix_left_bs Red n k i (T Black sll slk sli slr)) as [[p' st0] tg0] eqn:F0.
    apply fix_left_bs_ok in F0; simpl; auto; try lia.
    inv F. unfold fix_post in *. destruct st; simpl in *; tidy; try discriminate.
    finish.
  - simpl in F. eapply (fix_left_bs_ok cp n k i); eauto.
Qed.

Lemma fix_right_bs_ok : forall cp n k i s t' st tg,
    rbwf n -> rbwf s -> col s = Black -> S (bh n) = bh s ->
    fix_right_bs cp s k i n = (t', st, tg) ->
    fix_post cp s t' st.
Proof.
  intros cp n k i s t' st tg Wn Ws Cs B F. unfold fix_post.
  destruct s as [|cs sl sk si sr]; [simpl in B; lia|].
  simpl in Cs. subst cs. unfold fix_right_bs in F.
  destruct (is_red sl) eqn:Rl.
  - apply is_red_true in Rl. destruct Rl as (a & b & c & d & ->). inv F. destruct cp; finish.
  - apply is_red_false_col in Rl. destruct (is_red sr) eqn:Rr.
    + apply is_red_true in Rr. destruct Rr as (srl & srk & sri & srr & ->). inv F.
      simpl in *. tidy. rewrite (blacken_black srl) by assumption. destruct cp; finish.
    + apply is_red_false_col in Rr. destruct cp; inv F; finish.
Qed.

Lemma fix_right_ok : forall cp n k i s t' st tg,
    rbwf n -> rbwf s -> (cp = Red -> col s = Black) -> S (bh n) = bh s ->
    fix_right cp s k i n = (t', st, tg) ->
    fix_post cp s t' st.
Proof.
  intros cp n k i s t' st tg Wn Ws Cs B F.
  destruct s as [|[] sl sk si sr]; [simpl in B; lia| |].
  - assert (cp = Black) by (destruct cp; auto; specialize (Cs eq_refl); discriminate). subst cp.
    simpl in Ws, B. tidy.
    destruct sr as [|[] srl srk sri srr]; simpl in *; try lia; try discriminate.
    destruct (fix_right_bs Red (T Black srl srk sri srr) k i n) as [[p' st0] tg0] eqn:F0.
    apply fix_right_bs_ok in F0; simpl; auto; try lia.
    inv F. unfold fix_post in *. destruct st; simpl in *; tidy; try discriminate.
    finish.
  - simpl in F. eapply (fix_right_bs_ok cp n k i); eauto.
Qed.

Ltac break_match_hyp H :=
  match type of H with
  | context [match ?x with _ => _ end] => destruct x eqn:?
  end.

Ltac notin :=
  unfold sub;
  repeat match goal with
         | |- context [match ?x with _ => _ end] => destruct x
         end; simpl; intuition discriminate.

Lemma fix_left_bs_tags : forall cp n k i s t' st tg,
    fix_left_bs cp n k i s = (t', st, tg) -> ~ In TF_null_mirror tg.
Proof.
  unfold fix_left_bs; intros. repeat break_match_hyp H; inv H; notin.
Qed.

Lemma fix_left_tags : forall cp n k i s t' st tg,
    fix_left cp n k i s = (t', st, tg) -> ~ In TF_null_mirror tg.
Proof.
  unfold fix_left; intros.
  destruct s as [|[] sl sk si sr]; [inv H; simpl; tauto| |eapply fix_left_bs_tags; eauto].
  destruct sl; [inv H; simpl; tauto|].
  destruct (fix_left_bs Red n k i (blacken (T c sl1 k0 i0 sl2))) as [[p' st0] tg0] eqn:F0.
  inv H. apply fix_left_bs_tags in F0. simpl. intuition discriminate.
Qed.

Lemma fix_right_bs_tags : forall cp n k i s t' st tg,
    fix_right_bs cp s k i n = (t', st, tg) -> ~ In TF_null_mirror tg.
Proof.
  unfold fix_right_bs; intros. repeat break_match_hyp H; inv H; notin.
Qed.

Lemma fix_right_tags : forall cp n k i s t' st tg,
    fix_right cp s k i n = (t', st, tg) -> ~ In TF_null_mirror tg.
Proof.
  unfold fix_right; intros.
  destruct s as [|[] sl sk si sr]; [inv H; simpl; tauto| |eapply fix_right_bs_tags; eauto].
  destruct sr; [inv H; simpl; tauto|].
  destruct (fix_right_bs Red (blacken (T c sr1 k0 i0 sr2)) k i n) as [[p' st0] tg0] eqn:F0.
  inv H. apply fix_right_bs_tags in F0. simpl. intuition discriminate.
Qed.

Local Arguments fix_left : simpl never.
Local Arguments fix_right : simpl never.

Lemma fix_post_del_inv_left : forall c l k i r t' st,
    bh l = bh r -> fix_post c r t' st -> del_inv (T c l k i r) t' st.
Proof.
  intros c l k i r t' st B (W & P). destruct st; simpl in *; tidy; try contradiction.
  - destruct c; finish.
  - subst c. finish.
Qed.

Lemma fix_post_del_inv_right : forall c l k i r t' st,
    bh l = bh r -> fix_post c l t' st -> del_inv (T c l k i r) t' st.
Proof.
  intros c l k i r t' st B (W & P). destruct st; simpl in *; tidy; try contradiction.
  - destruct c; finish.
  - subst c. finish.
Qed.

(* The hole is on the left and it is the first iteration (node == NULL): the right child cannot be
   null, so `node != parent->right` selects the left-hand branch as intended. *)
Lemma null_hole_left_sibling : forall c l k i r,
    rbwf (T c l k i r) -> bh l = 1%nat -> r <> E.
Proof. intros c l k i r W B ->. simpl in W. tidy. simpl in *. lia. Qed.

Lemma resolve_left_inv : forall c l l' k i r st t' st' tg,
    rbwf (T c l k i r) -> del_inv l l' st ->
    resolve_left c l' k i r st = (t', st', tg) ->
    del_inv (T c l k i r) t' st' /\ ~ In TF_null_mirror tg.
Proof.
  intros c l l' k i r st t' st' tg W I F.
  pose proof W as W'. simpl in W'. destruct W' as (Wl & Wr & B & C).
  destruct st; simpl in I, F.
  - inv F. split; [destruct c; finish | simpl; tauto].
  - destruct I as (-> & Bl).
    destruct r as [|cr rl rk ri rr]; [simpl in B; lia|].
    assert (P : fix_post c (T cr rl rk ri rr) t' st').
    { eapply fix_left_ok with (n := E); eauto; simpl; auto.
      - intros ->. apply C; auto.
      - simpl in B. lia. }
    split; [apply fix_post_del_inv_left; auto|eapply fix_left_tags; eauto].
  - destruct I as (Wl' & Bl & Cl).
    assert (P : fix_post c r t' st').
    { eapply fix_left_ok with (n := l'); eauto.
      - intros ->. apply C; auto.
      - lia. }
    split; [apply fix_post_del_inv_left; auto|eapply fix_left_tags; eauto].
  - contradiction.
Qed.

Lemma resolve_right_inv : forall c l r r' k i st t' st' tg,
    rbwf (T c l k i r) -> del_inv r r' st ->
    resolve_right c l k i r' st = (t', st', tg) ->
    del_inv (T c l k i r) t' st' /\ ~ In TF_null_mirror tg.
Proof.
  intros c l r r' k i st t' st' tg W I F.
  pose proof W as W'. simpl in W'. destruct W' as (Wl & Wr & B & C).
  destruct st; simpl in I, F.
  - inv F. split; [destruct c; finish | simpl; tauto].
  - destruct I as (-> & Br).
    assert (P : fix_post c l t' st').
    { eapply fix_right_ok with (n := E); eauto; simpl; auto.
      - intros ->. apply C; auto.
      - lia. }
    split; [apply fix_post_del_inv_right; auto|eapply fix_right_tags; eauto].
  - destruct I as (Wr' & Br & Cr).
    assert (P : fix_post c l t' st').
    { eapply fix_right_ok with (n := r'); eauto.
      - intros ->. apply C; auto.
      - lia. }
    split; [apply fix_post_del_inv_right; auto|eapply fix_right_tags; eauto].
  - contradiction.
Qed.

Local Arguments resolve_left : simpl never.
Local Arguments resolve_right : simpl never.

Lemma not_in_app : forall (a : tag) l1 l2, ~ In a l1 -> ~ In a l2 -> ~ In a (l1 ++ l2).
Proof. intros a l1 l2 H1 H2 H. apply in_app_or in H. tauto. Qed.

Lemma del_min_inv : forall t t' sk si st tg,
    t <> E -> rbwf t -> del_min t = (t', sk, si, st, tg) ->
    del_inv t t' st /\ ~ In TF_null_mirror tg.
Proof.
  induction t as [|c l IHl k i r _]; intros t' sk si st tg NE W F; [congruence|].
  simpl in F. destruct l as [|cl ll lk li lr].
  - destruct r as [|cr rl rk ri rr].
    + inv F. split; [destruct c; finish | destruct c; simpl; intuition discriminate].
    + inv F. split; [|simpl; intuition discriminate].
      simpl in W. tidy. destruct cr; simpl in *; try lia.
      destruct c; [specialize (H2 eq_refl); tidy; discriminate|]. finish.
  - assert (Wl : rbwf (T cl ll lk li lr)) by (simpl in W |- *; tauto).
    destruct (del_min (T cl ll lk li lr)) as [[[[l' sk0] si0] st0] tg0] eqn:D.
    destruct (resolve_left c l' k i r st0) as [[t0 st1] tg1] eqn:Rs. inv F.
    destruct (IHl _ _ _ _ _ ltac:(congruence) Wl eq_refl) as (I & NT).
    destruct (resolve_left_inv _ _ _ _ _ _ _ _ _ _ W I Rs) as (I' & NT').
    split; auto using not_in_app.
Qed.

Lemma unlink_inv : forall c l k i r t' st tg,
    rbwf (T c l k i r) -> unlink c l r = (t', st, tg) ->
    del_inv (T c l k i r) t' st /\ ~ In TF_null_mirror tg.
Proof.
  intros c l k i r t' st tg W F. unfold unlink in F.
  destruct l as [|cl ll lk li lr]; destruct r as [|cr rl rk ri rr].
  - inv F. split; [destruct c; finish | destruct c; simpl; intuition discriminate].
  - inv F. split; [|simpl; intuition discriminate].
    simpl in W. tidy. destruct cr; simpl in *; try lia.
    destruct c; [specialize (H2 eq_refl); tidy; discriminate|]. finish.
  - inv F. split; [|simpl; intuition discriminate].
    simpl in W. tidy. destruct cl; simpl in *; try lia.
    destruct c; [specialize (H2 eq_refl); tidy; discriminate|]. finish.
  - destruct (del_min (T cr rl rk ri rr)) as [[[[r' sk] si] st0] tg0] eqn:D.
    destruct (resolve_right c (T cl ll lk li lr) sk si r' st0) as [[t0 st1] tg1] eqn:Rs. inv F.
    assert (Wr : rbwf (T cr rl rk ri rr)) by (simpl in W |- *; tauto).
    assert (NE : T cr rl rk ri rr <> E) by discriminate.
    destruct (del_min_inv _ _ _ _ _ _ NE Wr D) as (I & NT).
    assert (W2 : rbwf (T c (T cl ll lk li lr) sk si (T cr rl rk ri rr))) by exact W.
    destruct (resolve_right_inv _ _ _ _ _ _ _ _ _ _ W2 I Rs) as (I' & NT').
    split; [exact I'|].
    intros [H|H]; [destruct rl; discriminate|]. revert H. apply not_in_app; auto.
Qed.

Lemma del_inv_holds : forall x t,
    rbwf t ->
    match del x t with
    | DelAbsent => True
    | DelRes _ t' st tg => del_inv t t' st /\ ~ In TF_null_mirror tg
    end.
Proof.
  induction t as [|c l IHl k i r IHr]; intros W; simpl; auto.
  destruct (x ?= k)%Z.
  - destruct (unlink c l r) as [[t' st] tg] eqn:U. eapply unlink_inv; eauto.
  - assert (Wl : rbwf l) by (simpl in W; tauto). specialize (IHl Wl).
    destruct (del x l) as [|j l' st tg]; auto. destruct IHl as (I & NT).
    destruct (resolve_left c l' k i r st) as [[t' st'] tg'] eqn:Rs.
    destruct (resolve_left_inv _ _ _ _ _ _ _ _ _ _ W I Rs). split; auto using not_in_app.
  - assert (Wr : rbwf r) by (simpl in W; tauto). specialize (IHr Wr).
    destruct (del x r) as [|j r' st tg]; auto. destruct IHr as (I & NT).
    destruct (resolve_right c l k i r' st) as [[t' st'] tg'] eqn:Rs.
    destruct (resolve_right_inv _ _ _ _ _ _ _ _ _ _ W I Rs). split; auto using not_in_app.
Qed.

(* a_rbt_remove + a_rbt_remove_adjust never violate an A_ASSUME / dereference NULL on a valid
   tree, re-establish validity, and never take the `node == NULL == parent->right` branch for a
   hole on the left *)
Lemma remove_inv : forall x t,
    rbwf t -> col t = Black ->
    match remove x t with
    | RemoveAbsent => True
    | RemoveOk _ t' tg => rbwf t' /\ col t' = Black /\ ~ In TF_null_mirror tg
    | RemoveFault => False
    end.
Proof.
  intros x t W C. unfold remove. pose proof (del_inv_holds x t W) as H.
  destruct (del x t) as [|j t' st tg]; auto. destruct H as (I & NT).
  destruct st; simpl in I; tidy; subst; simpl; auto.
  - repeat split; auto. apply not_in_app; auto. simpl; intuition discriminate.
  - repeat split; auto. apply not_in_app; auto. simpl; intuition discriminate.
Qed.

(* ---------------------------------------------- the A_ASSUME facts, stated on their own *)

(* whenever remove_adjust is (re)entered with a valid sibling subtree one black node higher than
   the deficient side, the sibling is not null (rbt.c:239 a_rbt_color(sibling), :339 A_ASSUME(parent->left)),
   and a red sibling has two non-null children (rbt.c:250 A_ASSUME(sibling->left), :344) *)
Lemma assume_sibling_nonnull : forall n s, S (bh n) = bh s -> s <> E.
Proof. intros n s B ->. simpl in B. lia. Qed.

Lemma assume_red_sibling_children_nonnull : forall n sl sk si sr,
    rbwf (T Red sl sk si sr) -> S (bh n) = bh (T Red sl sk si sr) -> sl <> E /\ sr <> E.
Proof.
  intros n sl sk si sr W B. simpl in W, B. tidy.
  split; intros ->; simpl in *; lia.
Qed.

(* every time the model resolves a deficit the two facts above are available: this is the
   content of del_inv (DNull / DNode give S (bh t') = bh t, and rbwf of the parent gives bh t =
   bh sibling); consequently no fault status can arise: *)
Lemma no_fault_on_valid_trees : forall x t,
    rbwf t -> col t = Black -> remove x t <> RemoveFault /\ forall xi, insert x xi t <> InsertFault.
Proof.
  intros x t W C. split.
  - pose proof (remove_inv x t W C). destruct (remove x t); congruence.
  - intros xi. pose proof (insert_inv x xi t W C). destruct (insert x xi t); congruence.
Qed.

(* ----------------------------------- rbwf is the property as the statement words it *)

Lemma rbwf_no_red_red : forall t, rbwf t -> no_red_red t.
Proof. induction t; simpl; intuition. Qed.

Lemma path_blacks_leftmost : forall t, path_blacks t (bh t).
Proof.
  induction t as [|c l IHl k i r _]; simpl; [constructor|].
  change (match c with Red => 0 | Black => 1 end) with (blk c). now constructor.
Qed.

Lemma rbwf_paths : forall t, rbwf t -> forall n, path_blacks t n -> n = bh t.
Proof.
  induction t as [|c l IHl k i r IHr]; intros W n P.
  - inv P. reflexivity.
  - simpl in W. destruct W as (Wl & Wr & B & _). inv P.
    + rewrite (IHl Wl n0 H5). destruct c; reflexivity.
    + rewrite (IHr Wr n0 H5). rewrite <- B. destruct c; reflexivity.
Qed.

Lemma rbwf_equal_black_paths : forall t, rbwf t -> equal_black_paths t.
Proof.
  intros t W n1 n2 P1 P2. rewrite (rbwf_paths t W n1 P1), (rbwf_paths t W n2 P2). reflexivity.
Qed.

(* and conversely: rbwf is not stronger than the worded property *)
Lemma worded_rbwf : forall t, no_red_red t -> equal_black_paths t -> rbwf t.
Proof.
  induction t as [|c l IHl k i r IHr]; simpl; auto. intros (C & Nl & Nr) P.
  assert (Pl : equal_black_paths l).
  { intros n1 n2 P1 P2.
    pose proof (P _ _ (pb_L c l k i r n1 P1) (pb_L c l k i r n2 P2)). lia. }
  assert (Pr : equal_black_paths r).
  { intros n1 n2 P1 P2.
    pose proof (P _ _ (pb_R c l k i r n1 P1) (pb_R c l k i r n2 P2)). lia. }
  repeat split; auto; try (apply C; auto).
  pose proof (P _ _ (pb_L c l k i r _ (path_blacks_leftmost l)) (pb_R c l k i r _ (path_blacks_leftmost r))).
  lia.
Qed.

(* ------------------------------------------------------------- logarithmic height *)

Lemma rbwf_height : forall t,
    rbwf t -> (height t <= 2 * bh t + match col t with Red => 1 | Black => 0 end)%nat.
Proof.
  induction t as [|c l IHl k i r IHr]; simpl; auto. intros (Wl & Wr & B & C).
  specialize (IHl Wl). specialize (IHr Wr).
  destruct c.
  - destruct (C eq_refl) as (Cl & Cr). rewrite Cl in IHl. rewrite Cr in IHr. lia.
  - destruct (col l), (col r); lia.
Qed.

Lemma rbwf_size : forall t, rbwf t -> (2 ^ bh t <= size t + 1)%nat.
Proof.
  induction t as [|c l IHl k i r IHr]; simpl; auto. intros (Wl & Wr & B & C).
  specialize (IHl Wl). specialize (IHr Wr). rewrite <- B in IHr.
  destruct c.
  - rewrite Nat.add_0_r. lia.
  - replace (bh l + 1)%nat with (S (bh l)) by lia. rewrite Nat.pow_succ_r'. lia.
Qed.

Lemma rb_height_log_lemma : forall t,
    rbwf t -> col t = Black -> (height t <= 2 * Nat.log2 (size t + 1))%nat.
Proof.
  intros t W C. pose proof (rbwf_height t W) as H. rewrite C in H.
  pose proof (rbwf_size t W) as S.
  apply Nat.log2_le_mono in S. rewrite Nat.log2_pow2 in S by lia. lia.
Qed.

Lemma rbwf_iff_worded : forall t, rbwf t <-> no_red_red t /\ equal_black_paths t.
Proof.
  intros t. split.
  - intros W. split; [apply rbwf_no_red_red | apply rbwf_equal_black_paths]; assumption.
  - intros (A & B). apply worded_rbwf; assumption.
Qed.
