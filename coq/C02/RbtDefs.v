(* C02 - executable model of liba's red-black tree (src/rbt.c, a port of Linux lib/rbtree.c).

   NO PROOFS IN THIS FILE.

   The C code is iterative pointer code working bottom-up from the inserted / unlinked node.
   The model is recursive on `tree`; what the C loop carries from one iteration to the next
   ("node is red, look at its parent", "node is black and its subtree lacks one black node")
   is returned to the caller one level up as a *status*.  Every decision taken when a status
   is resolved is the decision the C takes in the corresponding loop iteration: same tests,
   same order, same recolourings (including the ones that are no-ops on a valid tree such as
   `a_rbt_set_parent_color(tmp, ..., 1)` on a child that is already black).

   Where the C would dereference a null pointer or violate an A_ASSUME (undefined behaviour)
   the model returns the status IFault / DFault; RbtInvProofs proves that no reachable state
   produces a fault (these are the A_ASSUME lemmas).

   Every function also returns the list of `tag`s of the C branches it went through; tags are
   only used for coverage accounting in the correspondence check. *)
From Coq Require Import ZArith List.
Import ListNotations.
Local Open Scope Z_scope.

Inductive color := Red | Black.           (* C: bit 0 of parent_ : 0 red, 1 black *)
Definition id := positive.                (* node identity (index of the node in the harness) *)

Inductive tree :=
| E
| T (c : color) (l : tree) (k : Z) (i : id) (r : tree).

Inductive dir := L | R.

Definition is_red (t : tree) : bool :=    (* C: tmp && a_rbt_color(tmp) == 0 *)
  match t with T Red _ _ _ _ => true | _ => false end.

Definition blacken (t : tree) : tree :=   (* C: if (tmp) a_rbt_set_parent_color(tmp, p, 1) *)
  match t with E => E | T _ l k i r => T Black l k i r end.

Definition root_id (t : tree) : option id :=
  match t with E => None | T _ _ _ i _ => Some i end.

Inductive tag :=
(* insert *)
| TI_link            (* new red node linked at a null child *)
| TI_dup             (* cmp == 0: resident returned *)
| TI_root_black      (* loop reached the root: set black *)
| TI_parent_black    (* parent black: break *)
| TI_parent_red      (* parent red: go to the grandparent *)
| TI_case1_L | TI_case2_L | TI_case3_L   (* parent == gparent->left *)
| TI_case1_R | TI_case2_R | TI_case3_R   (* parent == gparent->right *)
| TI_case2_sub       (* case 2: node's inner child is non-null and is re-hung under parent *)
| TI_case3_sub       (* case 3: parent's inner child is non-null and is re-hung under gparent *)
(* remove: unlink *)
| TU_leaf_red        (* no children, node red: nothing to adjust *)
| TU_leaf_black      (* no children, node black: adjust at parent *)
| TU_right_only      (* !node->left, child = node->right takes node's word *)
| TU_left_only       (* !node->right, node->left takes node's word *)
| TU_succ_child      (* case 2: successor is node->right *)
| TU_succ_deep       (* case 3: successor is leftmost below node->right *)
| TU_child2          (* successor had a right child: it is set black, no adjust *)
| TU_succ_black      (* successor black, no child2: adjust *)
| TU_succ_red        (* successor red, no child2: no adjust *)
(* remove_adjust *)
| TF_case1_L | TF_case2_red_L | TF_case2_black_L | TF_case3_L | TF_case4_L
| TF_case1_R | TF_case2_red_R | TF_case2_black_R | TF_case3_R | TF_case4_R
| TF_case3_sub       (* case 3: the near nephew's inner child is non-null and is re-hung under sibling *)
| TF_case4_sub       (* case 4: sibling's inner child is non-null and is re-hung under parent *)
| TF_null_mirror     (* first iteration, node == NULL == parent->right although the hole is on the left *)
| TF_root            (* the deficit reached the root: loop ends (parent == NULL) *)
| TR_absent          (* remove: key not found by search *)
| TS_found | TS_absent.

(* coverage only: tag g is recorded when the re-hung subtree t is non-null (the C's `if (tmp)`) *)
Definition sub (t : tree) (g : tag) : list tag := match t with E => [] | T _ _ _ _ _ => [g] end.

(* ------------------------------------------------------------------ insertion *)

Inductive istatus :=
| IStop                 (* loop has terminated *)
| IRed                  (* returned subtree's root is `node` (red); caller is `parent` *)
| IRedRed (d : dir)     (* returned subtree's root is `parent` (red), its d-child is `node` (red);
                           caller is `gparent` *)
| IFault.               (* C would dereference NULL (red root with red child) *)

(* caller is the node (c, _, k, i, r); we come back from its LEFT child l' with status st *)
Definition ins_fix_left (c : color) (l' : tree) (k : Z) (i : id) (r : tree) (st : istatus)
  : tree * istatus * list tag :=
  match st with
  | IStop => (T c l' k i r, IStop, [])
  | IRed =>
      match c with
      | Black => (T c l' k i r, IStop, [TI_parent_black])
      | Red => (T c l' k i r, IRedRed L, [TI_parent_red])
      end
  | IRedRed d =>
      (* parent = l' = gparent->left, uncle = r *)
      if is_red r then
        (* Case 1: uncle red: uncle and parent black, gparent red, continue at gparent *)
        (T Red (blacken l') k i (blacken r), IRed, [TI_case1_L])
      else
        match d, l' with
        | L, T _ n pk pi pr =>
            (* Case 3: right rotate at gparent; parent takes gparent's word, gparent red,
               parent->right (set black) becomes gparent->left *)
            (T c n pk pi (T Red (blacken pr) k i r), IStop, TI_case3_L :: sub pr TI_case3_sub)
        | R, T _ pl pk pi (T _ nl nk ni nr) =>
            (* Case 2: left rotate at parent (node->left set black, parent red), then Case 3 *)
            (T c (T Red pl pk pi (blacken nl)) nk ni (T Red (blacken nr) k i r), IStop,
             TI_case2_L :: TI_case3_L :: sub nl TI_case2_sub ++ sub nr TI_case3_sub)
        | _, _ => (E, IFault, [])
        end
  | IFault => (E, IFault, [])
  end.

(* mirror image: we come back from the RIGHT child r' *)
Definition ins_fix_right (c : color) (l : tree) (k : Z) (i : id) (r' : tree) (st : istatus)
  : tree * istatus * list tag :=
  match st with
  | IStop => (T c l k i r', IStop, [])
  | IRed =>
      match c with
      | Black => (T c l k i r', IStop, [TI_parent_black])
      | Red => (T c l k i r', IRedRed R, [TI_parent_red])
      end
  | IRedRed d =>
      if is_red l then
        (T Red (blacken l) k i (blacken r'), IRed, [TI_case1_R])
      else
        match d, r' with
        | R, T _ pl pk pi n =>
            (T c (T Red l k i (blacken pl)) pk pi n, IStop, TI_case3_R :: sub pl TI_case3_sub)
        | L, T _ (T _ nl nk ni nr) pk pi pr =>
            (T c (T Red l k i (blacken nl)) nk ni (T Red (blacken nr) pk pi pr), IStop,
             TI_case2_R :: TI_case3_R :: sub nr TI_case2_sub ++ sub nl TI_case3_sub)
        | _, _ => (E, IFault, [])
        end
  | IFault => (E, IFault, [])
  end.

Inductive ins_res :=
| InsDup (j : id)                                   (* resident node with an equal key *)
| InsRes (t : tree) (st : istatus) (tg : list tag).

Fixpoint ins (x : Z) (xi : id) (t : tree) : ins_res :=
  match t with
  | E => InsRes (T Red E x xi E) IRed [TI_link]     (* a_rbt_init: parent_ = parent, colour 0 *)
  | T c l k i r =>
      match x ?= k with
      | Eq => InsDup i
      | Lt =>
          match ins x xi l with
          | InsDup j => InsDup j
          | InsRes l' st tg =>
              let '(t', st', tg') := ins_fix_left c l' k i r st in InsRes t' st' (tg ++ tg')
          end
      | Gt =>
          match ins x xi r with
          | InsDup j => InsDup j
          | InsRes r' st tg =>
              let '(t', st', tg') := ins_fix_right c l k i r' st in InsRes t' st' (tg ++ tg')
          end
      end
  end.

Inductive insert_result :=
| InsertDup (j : id)                      (* a_rbt_insert returned the resident node; tree untouched *)
| InsertOk (t : tree) (tg : list tag)     (* a_rbt_insert returned NULL *)
| InsertFault.

Definition insert (x : Z) (xi : id) (t : tree) : insert_result :=
  match ins x xi t with
  | InsDup j => InsertDup j
  | InsRes t' IStop tg => InsertOk t' tg
  | InsRes t' IRed tg => InsertOk (blacken t') (tg ++ [TI_root_black])
  | InsRes _ (IRedRed _) _ => InsertFault          (* gparent == NULL dereferenced *)
  | InsRes _ IFault _ => InsertFault
  end.

(* -------------------------------------------------------------------- removal *)

Inductive dstatus :=
| DNone     (* adjust == NULL / loop has terminated *)
| DNull     (* a_rbt_remove_adjust(root, caller) about to run its first iteration: node == NULL *)
| DNode     (* loop continues: node = root of the returned subtree (black), caller is parent *)
| DFault.   (* C would dereference NULL / violate A_ASSUME *)

(* Cases 2, 3, 4 with node = n = parent->left, sibling = s = parent->right (colour of s not
   looked at any more).  Parent is (cp, n, k, i, s). *)
Definition fix_left_bs (cp : color) (n : tree) (k : Z) (i : id) (s : tree)
  : tree * dstatus * list tag :=
  match s with
  | E => (E, DFault, [])
  | T _ sl sk si sr =>
      if is_red sr then
        (* Case 4: left rotate at parent; sibling takes parent's word, parent black, sr black *)
        (T cp (T Black n k i sl) sk si (blacken sr), DNone, TF_case4_L :: sub sl TF_case4_sub)
      else if is_red sl then
        (* Case 3: right rotate at sibling (sl->right set black), then Case 4 with sibling = sl,
           tmp1 = old sibling (set black) *)
        match sl with
        | T _ sll slk sli slr =>
            (T cp (T Black n k i sll) slk sli (T Black (blacken slr) sk si sr), DNone,
             TF_case3_L :: TF_case4_L :: sub slr TF_case3_sub ++ sub sll TF_case4_sub)
        | E => (E, DFault, [])
        end
      else
        (* Case 2: sibling red; parent red -> black and stop, else continue at parent *)
        match cp with
        | Red => (T Black n k i (T Red sl sk si sr), DNone, [TF_case2_red_L])
        | Black => (T Black n k i (T Red sl sk si sr), DNode, [TF_case2_black_L])
        end
  end.

Definition fix_left (cp : color) (n : tree) (k : Z) (i : id) (s : tree)
  : tree * dstatus * list tag :=
  match s with
  | E => (E, DFault, [])                      (* a_rbt_color(NULL) *)
  | T Red sl sk si sr =>
      (* Case 1: left rotate at parent: sl (A_ASSUMEd non-null, set black) becomes parent->right
         and the new sibling, sibling takes parent's word, parent red; then cases 2-4 at the
         rotated-down parent *)
      match sl with
      | E => (E, DFault, [])                  (* A_ASSUME(sibling->left) *)
      | T _ _ _ _ _ =>
          let '(p', st, tg) := fix_left_bs Red n k i (blacken sl) in
          (T cp p' sk si sr, st, TF_case1_L :: tg)
      end
  | T Black _ _ _ _ => fix_left_bs cp n k i s
  end.

(* mirror images: node = n = parent->right, sibling = s = parent->left; parent is (cp, s, k, i, n) *)
Definition fix_right_bs (cp : color) (s : tree) (k : Z) (i : id) (n : tree)
  : tree * dstatus * list tag :=
  match s with
  | E => (E, DFault, [])
  | T _ sl sk si sr =>
      if is_red sl then
        (T cp (blacken sl) sk si (T Black sr k i n), DNone, TF_case4_R :: sub sr TF_case4_sub)
      else if is_red sr then
        match sr with
        | T _ srl srk sri srr =>
            (T cp (T Black sl sk si (blacken srl)) srk sri (T Black srr k i n), DNone,
             TF_case3_R :: TF_case4_R :: sub srl TF_case3_sub ++ sub srr TF_case4_sub)
        | E => (E, DFault, [])
        end
      else
        match cp with
        | Red => (T Black (T Red sl sk si sr) k i n, DNone, [TF_case2_red_R])
        | Black => (T Black (T Red sl sk si sr) k i n, DNode, [TF_case2_black_R])
        end
  end.

Definition fix_right (cp : color) (s : tree) (k : Z) (i : id) (n : tree)
  : tree * dstatus * list tag :=
  match s with
  | E => (E, DFault, [])                      (* A_ASSUME(parent->left) *)
  | T Red sl sk si sr =>
      match sr with
      | E => (E, DFault, [])                  (* A_ASSUME(sibling->right) *)
      | T _ _ _ _ _ =>
          let '(p', st, tg) := fix_right_bs Red (blacken sr) k i n in
          (T cp sl sk si p', st, TF_case1_R :: tg)
      end
  | T Black _ _ _ _ => fix_right_bs cp s k i n
  end.

(* back from the LEFT child l' of (c, _, k, i, r) with status st.
   The C decides the side by `node != parent->right`; on the first iteration node is NULL, so
   with a null right child it takes the right-hand branch even though the hole is on the left. *)
Definition resolve_left (c : color) (l' : tree) (k : Z) (i : id) (r : tree) (st : dstatus)
  : tree * dstatus * list tag :=
  match st with
  | DNone => (T c l' k i r, DNone, [])
  | DNull =>
      match r with
      | E => let '(t, s, tg) := fix_right c l' k i r in (t, s, TF_null_mirror :: tg)
      | T _ _ _ _ _ => fix_left c l' k i r
      end
  | DNode => fix_left c l' k i r
  | DFault => (E, DFault, [])
  end.

Definition resolve_right (c : color) (l : tree) (k : Z) (i : id) (r' : tree) (st : dstatus)
  : tree * dstatus * list tag :=
  match st with
  | DNone => (T c l k i r', DNone, [])
  | DNull => fix_right c l k i r'
  | DNode => fix_right c l k i r'
  | DFault => (E, DFault, [])
  end.

(* Unlink the leftmost node (the in-order successor) of a non-empty subtree: its right child
   child2 (set black if present) takes its place; adjust iff no child2 and successor black.
   Returns (subtree, successor key, successor id, status, tags). *)
Fixpoint del_min (t : tree) : tree * Z * id * dstatus * list tag :=
  match t with
  | E => (E, 0, 1%positive, DFault, [])
  | T c l k i r =>
      match l with
      | E =>
          match r with
          | E => (E, k, i, match c with Black => DNull | Red => DNone end,
                  [match c with Black => TU_succ_black | Red => TU_succ_red end])
          | T _ _ _ _ _ => (blacken r, k, i, DNone, [TU_child2])
          end
      | T _ _ _ _ _ =>
          let '(l', sk, si, st, tg) := del_min l in
          let '(t', st', tg') := resolve_left c l' k i r st in
          (t', sk, si, st', tg ++ tg')
      end
  end.

(* a_rbt_remove on a node of colour c with children l, r *)
Definition unlink (c : color) (l r : tree) : tree * dstatus * list tag :=
  match l with
  | E =>
      match r with
      | E => (E, match c with Black => DNull | Red => DNone end,
              [match c with Black => TU_leaf_black | Red => TU_leaf_red end])
      | T _ rl rk ri rr => (T c rl rk ri rr, DNone, [TU_right_only])   (* child->parent_ = parent_ *)
      end
  | T _ ll lk li lr =>
      match r with
      | E => (T c ll lk li lr, DNone, [TU_left_only])                  (* tmp->parent_ = node->parent_ *)
      | T _ rl _ _ _ =>
          let '(r', sk, si, st, tg) := del_min r in
          (* successor takes node's word (colour c); adjust starts below / at the successor *)
          let '(t', st', tg') := resolve_right c l sk si r' st in
          (t', st', (match rl with E => TU_succ_child | _ => TU_succ_deep end) :: tg ++ tg')
      end
  end.

Inductive del_res :=
| DelAbsent
| DelRes (j : id) (t : tree) (st : dstatus) (tg : list tag).

Fixpoint del (x : Z) (t : tree) : del_res :=
  match t with
  | E => DelAbsent
  | T c l k i r =>
      match x ?= k with
      | Eq => let '(t', st, tg) := unlink c l r in DelRes i t' st tg
      | Lt =>
          match del x l with
          | DelAbsent => DelAbsent
          | DelRes j l' st tg =>
              let '(t', st', tg') := resolve_left c l' k i r st in DelRes j t' st' (tg ++ tg')
          end
      | Gt =>
          match del x r with
          | DelAbsent => DelAbsent
          | DelRes j r' st tg =>
              let '(t', st', tg') := resolve_right c l k i r' st in DelRes j t' st' (tg ++ tg')
          end
      end
  end.

Inductive remove_result :=
| RemoveAbsent                                   (* a_rbt_search found nothing: no call to remove *)
| RemoveOk (j : id) (t : tree) (tg : list tag)   (* node j unlinked *)
| RemoveFault.

(* harness operation "r k": node = a_rbt_search(k); if (node) a_rbt_remove(root, node) *)
Definition remove (x : Z) (t : tree) : remove_result :=
  match del x t with
  | DelAbsent => RemoveAbsent
  | DelRes _ _ DFault _ => RemoveFault
  | DelRes j t' DNone tg => RemoveOk j t' tg
  | DelRes j t' _ tg => RemoveOk j t' (tg ++ [TF_root])     (* parent == NULL: break *)
  end.

(* --------------------------------------------------------------------- search *)

Fixpoint find (x : Z) (t : tree) : option id :=
  match t with
  | E => None
  | T _ l k i r =>
      match x ?= k with
      | Eq => Some i
      | Lt => find x l
      | Gt => find x r
      end
  end.

(* ------------------------------------------------------------------ histories *)

Inductive op :=
| OpInsert (k : Z) (i : id)
| OpRemove (k : Z)
| OpSearch (k : Z).

Inductive ret :=
| RetInserted            (* a_rbt_insert returned NULL *)
| RetDup (j : id)        (* a_rbt_insert returned node j *)
| RetRemoved (j : id)
| RetFound (j : id)
| RetNone                (* search (alone or before remove) returned NULL *)
| RetFault.

Definition step (t : tree) (o : op) : tree * ret * list tag :=
  match o with
  | OpInsert k i =>
      match insert k i t with
      | InsertDup j => (t, RetDup j, [TI_dup])
      | InsertOk t' tg => (t', RetInserted, tg)
      | InsertFault => (t, RetFault, [])
      end
  | OpRemove k =>
      match remove k t with
      | RemoveAbsent => (t, RetNone, [TR_absent])
      | RemoveOk j t' tg => (t', RetRemoved j, tg)
      | RemoveFault => (t, RetFault, [])
      end
  | OpSearch k =>
      match find k t with
      | Some j => (t, RetFound j, [TS_found])
      | None => (t, RetNone, [TS_absent])
      end
  end.

Fixpoint run (t : tree) (ops : list op) : tree * list ret :=
  match ops with
  | [] => (t, [])
  | o :: rest =>
      let '(t', r, _) := step t o in
      let '(t'', rs) := run t' rest in (t'', r :: rs)
  end.

(* -------------------------------------------------- the canonical pointer structure *)

Record hnode := mk_hnode {
  h_left : option id; h_right : option id; h_parent : option id; h_color : color }.

Fixpoint heap_of_aux (parent : option id) (t : tree) : list (id * hnode) :=
  match t with
  | E => []
  | T c l _ i r =>
      heap_of_aux (Some i) l
        ++ (i, mk_hnode (root_id l) (root_id r) parent c) :: heap_of_aux (Some i) r
  end.

(* one entry per node, in in-order: id, left, right, parent (None for the root), colour *)
Definition heap_of (t : tree) : list (id * hnode) := heap_of_aux None t.

(* ------------------------------------------- observation functions used by the theorems *)

Fixpoint elems (t : tree) : list (Z * id) :=
  match t with
  | E => []
  | T _ l k i r => elems l ++ (k, i) :: elems r
  end.

Definition keys (t : tree) : list Z := map fst (elems t).
Definition ids (t : tree) : list id := map snd (elems t).

Definition col (t : tree) : color := match t with E => Black | T c _ _ _ _ => c end.

(* black height measured along the leftmost path *)
Fixpoint bh (t : tree) : nat :=
  match t with
  | E => O
  | T c l _ _ _ => (bh l + match c with Black => 1 | Red => 0 end)%nat
  end.

Fixpoint height (t : tree) : nat :=
  match t with
  | E => O
  | T _ l _ _ r => S (Nat.max (height l) (height r))
  end.

Fixpoint size (t : tree) : nat :=
  match t with
  | E => O
  | T _ l _ _ r => S (size l + size r)
  end.

(* freshness of inserted node identities along a history (a caller obligation of the C API:
   a node that is linked in the tree must not be passed to a_rbt_insert again) *)
Fixpoint fresh_run (t : tree) (ops : list op) : bool :=
  match ops with
  | [] => true
  | o :: rest =>
      (match o with
       | OpInsert _ i => negb (existsb (Pos.eqb i) (ids t))
       | _ => true
       end)
      && (let '(t', _, _) := step t o in fresh_run t' rest)
  end.
