(* C02 - extraction of the executable red-black tree model (ExtrOcamlBasic only). *)
Require Extraction.
Require Import ExtrOcamlBasic.
From LibaV Require Import C02.RbtDefs.

Extraction "C02/extracted/rbt.ml" step heap_of root_id.
