(* C02 -- the pointer level of src/rbt.c, removal side: a_rbt_remove (unlink / successor splice, then the fix-up).

   Part 1: RbtDefs.del_min / unlink / del in terms of tree contexts: the leftmost path of a subtree, the tree after the
           successor has been spliced out (a hole - empty, or the successor's right child set black - at the end of a context),
           and the model's result as the resolution of the hole's status along that context.
   Part 2: lifting a step below a slot through a context to the whole tree.
   This file does not depend on the C. *)
From Coq Require Import ZArith PArith List Bool Lia.
From LibaV Require Import C02.RbtDefs C02.RbtSetProofs C02.RbtTieLemmas C02.RbtTieLemmasRemove.
Import ListNotations.
Local Open Scope Z_scope.

(* ================================================================== Part 1: the model's unlink along contexts *)

Lemma plug_app : forall a b t, plug (a ++ b) t = plug a (plug b t).
Proof. induction a as [|f a IH]; intros b t; cbn [app plug]; [reflexivity|]. rewrite IH. reflexivity. Qed.

Lemma resolve_app : forall a b t s, resolve (a ++ b) t s = let '(t1, s1) := resolve b t s in resolve a t1 s1.
Proof.
  induction a as [|f a IH]; intros b t s; cbn [app resolve].
  - destruct (resolve b t s); reflexivity.
  - rewrite IH. destruct (resolve b t s) as [t1 s1]. reflexivity.
Qed.

Lemma resolve_dnone : forall ctx t, resolve ctx t DNone = (plug ctx t, DNone).
Proof.
  induction ctx as [|f ctx IH]; intros t; cbn [resolve plug]; [reflexivity|]. rewrite IH. destruct f; reflexivity.
Qed.

Lemma hole_parent_app : forall a b p, hole_parent (a ++ b) p = hole_parent b (hole_parent a p).
Proof. induction a as [|f a IH]; intros b p; cbn [app hole_parent]; [reflexivity|]. apply IH. Qed.

(* the context of the leftmost node of a subtree (outermost frame first) and that node *)
Fixpoint min_ctx (t : tree) : list frame :=
  match t with
  | E => []
  | T c l k i r => match l with E => [] | T _ _ _ _ _ => FL c k i r :: min_ctx l end
  end.

Fixpoint min_node (t : tree) : tree :=
  match t with
  | E => E
  | T c l k i r => match l with E => t | T _ _ _ _ _ => min_node l end
  end.

Lemma plug_min : forall t, plug (min_ctx t) (min_node t) = t.
Proof.
  induction t as [|c l IHl k i r _]; [reflexivity|]. cbn [min_ctx min_node].
  destruct l as [|lc ll lk li lr]; [reflexivity|]. cbn [plug plug1]. rewrite IHl. reflexivity.
Qed.

Lemma min_node_shape : forall t, t <> E -> exists sc sk si sr, min_node t = T sc E sk si sr.
Proof.
  induction t as [|c l IHl k i r _]; intros Hne; [congruence|]. cbn [min_node].
  destruct l as [|lc ll lk li lr]; [eauto|]. apply IHl. discriminate.
Qed.

(* what the successor (colour sc, right child sr) leaves behind, and the status of that place *)
Definition hole (sr : tree) : tree := blacken sr.
Definition hole_status (sc : color) (sr : tree) : dstatus :=
  match sr with
  | E => match sc with Black => DNull | Red => DNone end
  | T _ _ _ _ _ => DNone
  end.

Lemma del_min_ctx : forall t t' sk si st tg, t <> E -> del_min t = (t', sk, si, st, tg) ->
  exists sc sr, min_node t = T sc E sk si sr /\ resolve (min_ctx t) (hole sr) (hole_status sc sr) = (t', st).
Proof.
  induction t as [|c l IHl k i r _]; intros t' sk si st tg Hne H; [congruence|].
  cbn [del_min min_node min_ctx] in *. destruct l as [|lc ll lk li lr].
  - destruct r as [|rc rl rk ri rr].
    + injection H as <- <- <- <- _. exists c, E. split; [reflexivity|]. cbn. destruct c; reflexivity.
    + injection H as <- <- <- <- _. exists c, (T rc rl rk ri rr). split; reflexivity.
  - destruct (del_min (T lc ll lk li lr)) as [[[[l' sk0] si0] st0] tg0] eqn:Ed.
    destruct (resolve_left c l' k i r st0) as [[t1 s1] tg1] eqn:Er. injection H as <- <- <- <- _.
    destruct (IHl l' sk0 si0 st0 tg0 ltac:(discriminate) eq_refl) as (sc & sr & Hm & Hres).
    exists sc, sr. split; [exact Hm|]. cbn [resolve]. rewrite Hres. cbn [resolve1]. rewrite Er. reflexivity.
Qed.

(* RbtDefs.unlink: the subtree that takes the place of the node (colour c, children l r), and the status *)
Definition unlink_ctx (c : color) (l r : tree) : tree * dstatus :=
  match l, r with
  | E, E => (E, match c with Black => DNull | Red => DNone end)
  | E, T _ rl rk ri rr => (T c rl rk ri rr, DNone)
  | T _ ll lk li lr, E => (T c ll lk li lr, DNone)
  | T _ _ _ _ _, T _ _ _ _ _ =>
    match min_node r with
    | T sc _ sk si sr => resolve (FR c l sk si :: min_ctx r) (hole sr) (hole_status sc sr)
    | E => (E, DFault)
    end
  end.

Lemma unlink_is_ctx : forall c l r u s tg, unlink c l r = (u, s, tg) -> unlink_ctx c l r = (u, s).
Proof.
  intros c l r u s tg H. unfold unlink in H. unfold unlink_ctx.
  destruct l as [|lc ll lk li lr]; destruct r as [|rc rl rk ri rr].
  - injection H as <- <- _. reflexivity.
  - injection H as <- <- _. reflexivity.
  - injection H as <- <- _. reflexivity.
  - destruct (del_min (T rc rl rk ri rr)) as [[[[r' sk] si] st] tg0] eqn:Ed.
    destruct (resolve_right c (T lc ll lk li lr) sk si r' st) as [[t1 s1] tg1] eqn:Er. injection H as <- <- _.
    destruct (del_min_ctx (T rc rl rk ri rr) _ _ _ _ _ ltac:(discriminate) Ed) as (sc & sr & Hm & Hres).
    rewrite Hm. cbn [resolve]. rewrite Hres. cbn [resolve1]. rewrite Er. reflexivity.
Qed.

(* the model's removal of the node at the end of a context *)
Definition remove_at (ctx : list frame) (c : color) (l r : tree) : tree * dstatus :=
  let '(u, s) := unlink_ctx c l r in resolve ctx u s.

Lemma resolve1_fault : forall f t, resolve1 f t DFault = (E, DFault).
Proof. intros [c k i r|c l k i] t; reflexivity. Qed.

(* RbtDefs.del finds a node by its key, unlinks it and resolves the status on the way back: that is remove_at at the
   context of the node *)
Lemma del_is_remove_at : forall x t j t' s tg, del x t = DelRes j t' s tg ->
  exists ctx c l k r, t = plug ctx (T c l k j r) /\ remove_at ctx c l r = (t', s).
Proof.
  intros x. induction t as [|c l IHl k i r IHr]; intros j t' s tg H; [discriminate|].
  cbn [del] in H. destruct (x ?= k).
  - destruct (unlink c l r) as [[u s0] tg0] eqn:Eu. injection H as <- <- <- _.
    exists [], c, l, k, r. split; [reflexivity|]. unfold remove_at. rewrite (unlink_is_ctx _ _ _ _ _ _ Eu). reflexivity.
  - destruct (del x l) as [|j0 l' s0 tg0] eqn:Ed; [discriminate|].
    destruct (resolve_left c l' k i r s0) as [[t1 s1] tg1] eqn:Er. injection H as <- <- <- _.
    destruct (IHl _ _ _ _ eq_refl) as (ctx & c0 & l0 & k0 & r0 & Hp & Hr).
    exists (FL c k i r :: ctx), c0, l0, k0, r0. split; [cbn [plug plug1]; rewrite Hp; reflexivity|].
    unfold remove_at in *. destruct (unlink_ctx c0 l0 r0) as [u s2]. cbn [resolve]. rewrite Hr. cbn [resolve1]. rewrite Er. reflexivity.
  - destruct (del x r) as [|j0 r' s0 tg0] eqn:Ed; [discriminate|].
    destruct (resolve_right c l k i r' s0) as [[t1 s1] tg1] eqn:Er. injection H as <- <- <- _.
    destruct (IHr _ _ _ _ eq_refl) as (ctx & c0 & l0 & k0 & r0 & Hp & Hr).
    exists (FR c l k i :: ctx), c0, l0, k0, r0. split; [cbn [plug plug1]; rewrite Hp; reflexivity|].
    unfold remove_at in *. destruct (unlink_ctx c0 l0 r0) as [u s2]. cbn [resolve]. rewrite Hr. cbn [resolve1]. rewrite Er. reflexivity.
Qed.

(* ================================================================== Part 2: a step below a slot, seen from the whole tree *)

Lemma plug_nonempty : forall ctx A, A <> E -> plug ctx A <> E.
Proof. intros [|f ctx] A H; cbn [plug]; [exact H|]. destruct f; discriminate. Qed.

Lemma Step_frame_left : forall st st1 sl c X X' k i r,
  Hangs st sl (T c X k i r) -> Step st (SLeft i) X X' st1 -> Step st sl (T c X k i r) (T c X' k i r) st1.
Proof.
  intros st st1 sl c X X' k i r (Hd & Hq & Hr & Hsl) (HR1 & Hag).
  cbn [distinct] in Hd. destruct Hd as (H1 & H2 & H3 & H4 & H5).
  split; [exact (Repr_after_left st st1 _ c X X' k i r Hr H1 H3 H2 HR1 Hag)|].
  destruct Hag as (Hagr & Hagh). rewrite rootp_slot_set_left in Hagr. cbn [root_id] in *.
  destruct (slot_set_same st sl _ Hsl) as (Hs1 & Hs2).
  split; [congruence|]. intros j Hj. cbn [has] in Hj. rewrite Hs2, Hagh by tauto. apply hp_slot_set_other. cbn. intros [= ->]. tauto.
Qed.

Lemma Step_frame_right : forall st st1 sl c l k i X X',
  Hangs st sl (T c l k i X) -> Step st (SRight i) X X' st1 -> Step st sl (T c l k i X) (T c l k i X') st1.
Proof.
  intros st st1 sl c l k i X X' (Hd & Hq & Hr & Hsl) (HR1 & Hag).
  cbn [distinct] in Hd. destruct Hd as (H1 & H2 & H3 & H4 & H5).
  split; [exact (Repr_after_right st st1 _ c X X' k i l Hr H2 H3 H1 HR1 Hag)|].
  destruct Hag as (Hagr & Hagh). rewrite rootp_slot_set_right in Hagr. cbn [root_id] in *.
  destruct (slot_set_same st sl _ Hsl) as (Hs1 & Hs2).
  split; [congruence|]. intros j Hj. cbn [has] in Hj. rewrite Hs2, Hagh by tauto. apply hp_slot_set_other. cbn. intros [= ->]. tauto.
Qed.

(* a non-empty subtree A at the end of a context hangs from a slot of its own; a step there is a step of the whole tree *)
Lemma step_in_ctx : forall ctx st sl0 A, A <> E -> Hangs st sl0 (plug ctx A) ->
  exists sl, slot_parent sl = hole_parent ctx (slot_parent sl0) /\ Hangs st sl A /\
    forall U st1, Step st sl A U st1 -> Step st sl0 (plug ctx A) (plug ctx U) st1.
Proof.
  induction ctx as [|f rest IH]; intros st sl0 A Hne Hh.
  - exists sl0. split; [reflexivity|]. split; [exact Hh|]. intros U st1 HS. exact HS.
  - cbn [plug hole_parent] in *. pose proof (plug_nonempty rest A Hne) as Hpne. destruct f as [c k i r|c l k i]; cbn [plug1 fid] in *.
    + destruct (IH st (SLeft i) A Hne (Hangs_left _ _ _ _ _ _ _ Hh)) as (sl & Hp & HhA & Hlift).
      exists sl. split; [exact Hp|]. split; [exact HhA|]. intros U st1 HS.
      exact (Step_frame_left st st1 sl0 c _ _ k i r Hh (Hlift U st1 HS)).
    + destruct (IH st (SRight i) A Hne (Hangs_right _ _ _ _ _ _ _ Hh Hpne)) as (sl & Hp & HhA & Hlift).
      exists sl. split; [exact Hp|]. split; [exact HhA|]. intros U st1 HS.
      exact (Step_frame_right st st1 sl0 c l k i _ _ Hh (Hlift U st1 HS)).
Qed.

Lemma plug_has : forall ctx A U, (forall j, has U j -> has A j) -> forall j, has (plug ctx U) j -> has (plug ctx A) j.
Proof.
  induction ctx as [|f rest IH]; intros A U H j Hj; cbn [plug] in *; [exact (H j Hj)|].
  destruct f; cbn [plug1 has] in *; intuition eauto.
Qed.

Lemma plug_distinct : forall ctx A U, (forall j, has U j -> has A j) -> distinct U -> distinct (plug ctx A) -> distinct (plug ctx U).
Proof.
  induction ctx as [|f rest IH]; intros A U H HdU Hd; cbn [plug] in *; [exact HdU|].
  pose proof (plug_has rest A U H) as Hsub.
  destruct f; cbn [plug1 distinct] in *; destruct Hd as (H1 & H2 & H3 & H4 & H5); repeat split; eauto.
Qed.

(* ================================================================== Part 3: the leftmost node of a subtree and its removal *)

Lemma has_plug_hole : forall ctx X j, has X j -> has (plug ctx X) j.
Proof. induction ctx as [|f rest IH]; intros X j H; cbn [plug]; [exact H|]. destruct f; cbn [plug1 has]; auto. Qed.

Lemma min_node_has : forall t j, has (min_node t) j -> has t j.
Proof. intros t j H. rewrite <- (plug_min t). apply has_plug_hole. exact H. Qed.

Lemma root_plug_min : forall t X, min_ctx t <> [] -> root_id (plug (min_ctx t) X) = root_id t.
Proof.
  intros [|c l k i r] X H; [cbn in H; congruence|]. cbn [min_ctx] in *. destruct l; [congruence|]. reflexivity.
Qed.


(* the cells of the leftmost node and of its parent *)
Lemma leftmost_cells : forall t h p sc sk si sr, Repr h p t -> min_node t = T sc E sk si sr ->
  h si = Some (mkC None (root_id sr) (hole_parent (min_ctx t) p) (cnum sc)) /\ Repr h (Some si) sr /\
  (min_ctx t <> [] -> exists mq cq, hole_parent (min_ctx t) p = Some mq /\ h mq = Some cq /\ cl cq = Some si /\ has t mq /\ (distinct t -> mq <> si)).
Proof.
  induction t as [|c l IHl k i r _]; intros h p sc sk si sr Hr Hm; [discriminate|].
  cbn [min_ctx min_node] in *. destruct l as [|lc ll lk li lr].
  - injection Hm as -> -> -> ->. cbn [Repr root_id hole_parent] in *. destruct Hr as (Hi & _ & Hrr).
    split; [exact Hi|]. split; [exact Hrr|]. intros []. reflexivity.
  - cbn [Repr] in Hr. destruct Hr as (Hi & Hl & Hrr). cbn [hole_parent fid].
    destruct (IHl h (Some i) sc sk si sr Hl Hm) as (Hsi & Hsr & Hpar). split; [exact Hsi|]. split; [exact Hsr|]. intros _.
    destruct (min_ctx (T lc ll lk li lr)) as [|f rest] eqn:Em.
    + (* the left child is the leftmost node *)
      cbn [min_ctx] in Em. destruct ll; [|discriminate]. cbn [min_node] in Hm. injection Hm as -> -> -> ->.
      cbn [hole_parent]. exists i, (mkC (Some si) (root_id r) p (cnum c)). split; [reflexivity|]. split; [exact Hi|].
      split; [reflexivity|]. split; [cbn; auto|]. cbn [distinct has]. intros (H1 & _) ->. apply H1. auto.
    + rewrite <- Em in *. destruct (Hpar ltac:(rewrite Em; discriminate)) as (mq & cq & Hp & Hc & Hcl & Hh & Hne).
      exists mq, cq. split; [exact Hp|]. split; [exact Hc|]. split; [exact Hcl|]. split; [cbn [has]; auto|].
      cbn [distinct]. intros (_ & _ & _ & Hdl & _). exact (Hne Hdl).
Qed.

Lemma with_p_same : forall c, with_p (cp c) c = c.
Proof. intros []; reflexivity. Qed.

(* the heap after the leftmost node has been spliced out of a subtree: its parent's left field holds what the node leaves
   behind (its right child, set black and hung below the parent), everything else of the subtree is untouched *)
Lemma Repr_del_leftmost : forall t h h1 p sc sk si sr mq cq,
  distinct t -> Repr h p t -> min_node t = T sc E sk si sr -> min_ctx t <> [] -> hole_parent (min_ctx t) p = Some mq ->
  h mq = Some cq -> h1 mq = Some (with_l (root_id (blacken sr)) cq) ->
  (forall c2 cc2, root_id sr = Some c2 -> h c2 = Some cc2 -> h1 c2 = Some (with_c 1 (with_p (Some mq) cc2))) ->
  (forall x, has t x -> x <> si -> x <> mq -> root_id sr <> Some x -> h1 x = h x) ->
  Repr h1 p (plug (min_ctx t) (blacken sr)).
Proof.
  induction t as [|c l IHl k i r _]; intros h h1 p sc sk si sr mq cq Hd Hr Hm Hne Hp Hq Hq1 Hc2 Hrest; [cbn in Hne; congruence|].
  cbn [min_ctx min_node] in *. destruct l as [|lc ll lk li lr]; [congruence|].
  cbn [Repr] in Hr. destruct Hr as (Hi & Hl & Hrr). cbn [hole_parent fid] in Hp.
  pose proof Hd as Hd0. cbn [distinct] in Hd0. destruct Hd0 as (H1 & H2 & H3 & H4 & H5).
  assert (Hsit : has (T lc ll lk li lr) si) by (apply min_node_has; rewrite Hm; cbn; auto).
  assert (Hsrt : forall x, has sr x -> has (T lc ll lk li lr) x) by (intros x Hx; apply min_node_has; rewrite Hm; cbn; auto).
  cbn [plug plug1 Repr]. destruct (min_ctx (T lc ll lk li lr)) as [|f rest] eqn:Em.
  - (* the left child is the leftmost node *)
    cbn [min_ctx] in Em. destruct ll; [|discriminate]. cbn [min_node] in Hm. injection Hm as -> -> -> ->.
    cbn [hole_parent] in Hp. injection Hp as <-. rewrite Hi in Hq. injection Hq as <-. cbn [plug].
    cbn [Repr] in Hl. destruct Hl as (Hsi & _ & Hsr). cbn [distinct has] in H4. destruct H4 as (_ & H42 & _ & _ & H45).
    split; [rewrite Hq1; reflexivity|]. split.
    + destruct sr as [|src srl srk sri srr]; [exact I|]. cbn [blacken Repr root_id] in *. destruct Hsr as (Hsri & Hsrl & Hsrr).
      cbn [distinct] in H45. destruct H45 as (Ha & Hb & Hc & _ & _).
      split; [rewrite (Hc2 sri _ eq_refl Hsri); reflexivity|]. split.
      * apply (Repr_ext srl h); [|exact Hsrl]. intros x Hx. apply Hrest.
        -- cbn [has]. tauto.
        -- intros ->. apply H42. cbn; auto.
        -- intros ->. apply H1. cbn [has]. tauto.
        -- intros [= ->]. contradiction.
      * apply (Repr_ext srr h); [|exact Hsrr]. intros x Hx. apply Hrest.
        -- cbn [has]. tauto.
        -- intros ->. apply H42. cbn; auto.
        -- intros ->. apply H1. cbn [has]. tauto.
        -- intros [= ->]. contradiction.
    + apply (Repr_ext r h); [|exact Hrr]. intros x Hx. apply Hrest.
      * cbn [has]. auto.
      * intros ->. apply (H3 si); [cbn; auto|exact Hx].
      * intros ->. contradiction.
      * intros Hrx. apply (H3 x); [|exact Hx]. cbn [has]. right. right. apply root_has. exact Hrx.
  - rewrite <- Em in *. assert (Hne' : min_ctx (T lc ll lk li lr) <> []) by (rewrite Em; discriminate).
    destruct (leftmost_cells (T lc ll lk li lr) h (Some i) sc sk si sr Hl Hm) as (_ & _ & Hpar).
    destruct (Hpar Hne') as (mq' & cq' & Hp' & _ & _ & Hmqt & _). rewrite Hp in Hp'. injection Hp' as <-.
    split; [|split].
    + rewrite (root_plug_min _ _ Hne'). rewrite Hrest; [exact Hi|cbn; auto| | |].
      * intros ->. contradiction.
      * intros ->. contradiction.
      * intros Hx. apply H1. apply Hsrt. apply root_has. exact Hx.
    + apply (IHl h h1 (Some i) sc sk si sr mq cq H4 Hl Hm Hne' Hp Hq Hq1 Hc2). intros x Hx. apply Hrest. cbn [has]. auto.
    + apply (Repr_ext r h); [|exact Hrr]. intros x Hx. apply Hrest.
      * cbn [has]. auto.
      * intros ->. exact (H3 si Hsit Hx).
      * intros ->. exact (H3 mq Hmqt Hx).
      * intros Hrx. apply (H3 x); [|exact Hx]. apply Hsrt. apply root_has. exact Hrx.
Qed.

(* sizes: the contexts met by a_rbt_remove fit the height of the tree *)
Lemma min_ctx_height : forall t, (length (min_ctx t) < height t \/ t = E)%nat.
Proof.
  induction t as [|c l IHl k i r _]; [right; reflexivity|]. left. cbn [min_ctx height].
  destruct l as [|lc ll lk li lr]; [cbn; lia|]. cbn [length]. destruct IHl as [H|H]; [|discriminate]. lia.
Qed.

Lemma plug_height : forall ctx X, (length ctx + height X <= height (plug ctx X))%nat.
Proof.
  induction ctx as [|f rest IH]; intros X; cbn [plug length]; [lia|]. specialize (IH X).
  destruct f; cbn [plug1 height]; lia.
Qed.

Lemma min_node_distinct : forall t, distinct t -> distinct (min_node t).
Proof.
  induction t as [|c l IHl k i r _]; intros Hd; [exact I|]. cbn [min_node]. destruct l as [|lc ll lk li lr]; [exact Hd|].
  apply IHl. cbn [distinct] in Hd. destruct Hd as (_ & _ & _ & Hd & _). exact Hd.
Qed.

(* the parent of the leftmost node is no node of that node's subtree *)
Lemma min_parent_outside : forall t p mq, distinct t -> min_ctx t <> [] -> hole_parent (min_ctx t) p = Some mq -> ~ has (min_node t) mq.
Proof.
  induction t as [|c l IHl k i r _]; intros p mq Hd Hne Hp; [cbn in Hne; congruence|].
  cbn [min_ctx min_node] in *. destruct l as [|lc ll lk li lr]; [congruence|]. cbn [hole_parent fid] in Hp.
  cbn [distinct] in Hd. destruct Hd as (H1 & _ & _ & H4 & _).
  destruct (min_ctx (T lc ll lk li lr)) as [|f rest] eqn:Em.
  - cbn in Hp. injection Hp as <-. intros Hh. apply H1. apply min_node_has. exact Hh.
  - rewrite <- Em in *. apply (IHl (Some i) mq H4); [rewrite Em; discriminate|exact Hp].
Qed.
