(* C02 - the canonical pointer structure heap_of t has consistent parent links. *)
From Coq Require Import ZArith List Lia.
From LibaV Require Import C02.RbtDefs C02.RbtSpec.
Import ListNotations.

Ltac inv H := inversion H; subst; clear H.

Lemma ids_node : forall c l k i r, ids (T c l k i r) = ids l ++ i :: ids r.
Proof. intros. unfold ids. simpl. rewrite map_app. reflexivity. Qed.

Lemma heap_fst : forall t p, map fst (heap_of_aux p t) = ids t.
Proof.
  induction t as [|c l IHl k i r IHr]; intros p; [reflexivity|].
  simpl. rewrite map_app, ids_node. simpl. rewrite IHl, IHr. reflexivity.
Qed.

Lemma root_id_in_ids : forall t j, root_id t = Some j -> In j (ids t).
Proof.
  destruct t as [|c l k i r]; simpl; intros j H; [discriminate|]. inv H.
  rewrite ids_node. apply in_or_app. right. left. reflexivity.
Qed.

Lemma heap_root_entry : forall p c l k i r,
    In (i, mk_hnode (root_id l) (root_id r) p c) (heap_of_aux p (T c l k i r)).
Proof. intros. simpl. apply in_or_app. right. left. reflexivity. Qed.

Lemma heap_child_entry : forall p t j,
    root_id t = Some j -> exists m, In (j, m) (heap_of_aux p t) /\ h_parent m = p.
Proof.
  destruct t as [|c l k i r]; simpl; intros j H; [discriminate|]. inv H.
  eexists. split; [apply (heap_root_entry p c l k j r)|reflexivity].
Qed.

Lemma heap_down : forall t p i n,
    In (i, n) (heap_of_aux p t) ->
    (forall j, h_left n = Some j -> exists m, In (j, m) (heap_of_aux p t) /\ h_parent m = Some i) /\
    (forall j, h_right n = Some j -> exists m, In (j, m) (heap_of_aux p t) /\ h_parent m = Some i).
Proof.
  induction t as [|c l IHl k i0 r IHr]; intros p i n H; [contradiction|].
  simpl in H. apply in_app_or in H. destruct H as [H|[H|H]].
  - destruct (IHl _ _ _ H) as (A & B). split; intros j Hj.
    + destruct (A j Hj) as (m & I & P). exists m. split; auto. simpl. apply in_or_app. auto.
    + destruct (B j Hj) as (m & I & P). exists m. split; auto. simpl. apply in_or_app. auto.
  - inv H. simpl. split; intros j Hj.
    + destruct (heap_child_entry (Some i) l j Hj) as (m & I & P). exists m. split; auto.
      apply in_or_app. auto.
    + destruct (heap_child_entry (Some i) r j Hj) as (m & I & P). exists m. split; auto.
      apply in_or_app. right. right. auto.
  - destruct (IHr _ _ _ H) as (A & B). split; intros j Hj.
    + destruct (A j Hj) as (m & I & P). exists m. split; auto. simpl. apply in_or_app.
      right. right. auto.
    + destruct (B j Hj) as (m & I & P). exists m. split; auto. simpl. apply in_or_app.
      right. right. auto.
Qed.

Lemma heap_up : forall t p i n,
    In (i, n) (heap_of_aux p t) ->
    (h_parent n = p /\ root_id t = Some i) \/
    (exists q m, h_parent n = Some q /\ In (q, m) (heap_of_aux p t) /\
                 (h_left m = Some i \/ h_right m = Some i)).
Proof.
  induction t as [|c l IHl k i0 r IHr]; intros p i n H; [contradiction|].
  simpl in H. apply in_app_or in H. destruct H as [H|[H|H]].
  - right. destruct (IHl _ _ _ H) as [(P & Rt)|(q & m & P & I & C)].
    + exists i0, (mk_hnode (root_id l) (root_id r) p c). split; auto.
      split; [apply heap_root_entry|]. simpl. auto.
    + exists q, m. split; auto. split; auto. simpl. apply in_or_app. auto.
  - inv H. left. simpl. auto.
  - right. destruct (IHr _ _ _ H) as [(P & Rt)|(q & m & P & I & C)].
    + exists i0, (mk_hnode (root_id l) (root_id r) p c). split; auto.
      split; [apply heap_root_entry|]. simpl. auto.
    + exists q, m. split; auto. split; auto. simpl. apply in_or_app. right. right. auto.
Qed.

Lemma NoDup_app_disjoint : forall (A : Type) (l1 l2 : list A) x,
    NoDup (l1 ++ l2) -> In x l1 -> In x l2 -> False.
Proof.
  induction l1 as [|a l1 IH]; simpl; intros l2 x N I1 I2; [contradiction|].
  inv N. destruct I1 as [->|I1].
  - apply H1. apply in_or_app. auto.
  - eapply IH; eauto.
Qed.

Lemma NoDup_app_inv : forall (A : Type) (l1 l2 : list A),
    NoDup (l1 ++ l2) -> NoDup l1 /\ NoDup l2.
Proof.
  induction l1 as [|a l1 IH]; simpl; intros l2 N.
  - split; [constructor|assumption].
  - inv N. destruct (IH _ H2) as (N1 & N2). split; auto. constructor; auto.
    intros I. apply H1. apply in_or_app. auto.
Qed.

Lemma heap_lr_distinct : forall t p i n,
    NoDup (ids t) -> In (i, n) (heap_of_aux p t) ->
    forall j, h_left n = Some j -> h_right n <> Some j.
Proof.
  induction t as [|c l IHl k i0 r IHr]; intros p i n N H; [contradiction|].
  rewrite ids_node in N.
  destruct (NoDup_app_inv _ _ _ N) as (Nl & Nr). inv Nr.
  simpl in H. apply in_app_or in H. destruct H as [H|[H|H]].
  - eapply IHl; eauto.
  - inv H. simpl. intros j Hl Hr.
    apply NoDup_remove_1 in N.
    eapply NoDup_app_disjoint; eauto using root_id_in_ids.
  - eapply IHr; eauto.
Qed.

(* for every tree with pairwise distinct node identities *)
Lemma heap_of_parent_links_lemma : forall t,
    NoDup (ids t) -> links_consistent (root_id t) (heap_of t).
Proof.
  intros t N. unfold links_consistent, heap_of. repeat split.
  - rewrite heap_fst. exact N.
  - apply (proj1 (heap_down _ _ _ _ H)).
  - apply (proj2 (heap_down _ _ _ _ H)).
  - eapply heap_lr_distinct; eauto.
  - intros p P. destruct (heap_up _ _ _ _ H) as [(P' & _)|(q & m & P' & I & C)].
    + congruence.
    + exists m. rewrite P in P'. inv P'. auto.
  - intros P. destruct (heap_up _ _ _ _ H) as [(_ & Rt)|(q & m & P' & _)]; congruence.
  - intros r Rt. apply heap_child_entry; auto.
  - destruct t; simpl; [reflexivity|discriminate].
Qed.
