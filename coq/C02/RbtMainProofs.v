(* C02 - the invariants over histories: every state reachable from the empty tree by insert / remove /
   search operations is a red-black tree holding exactly the abstract contents; return values agree
   with the abstract set; no operation faults; identities stay distinct; heap_of is consistent. *)
From Coq Require Import ZArith List Lia Bool.
From LibaV Require Import C02.RbtDefs C02.RbtSpec C02.RbtInvProofs C02.RbtSetProofs C02.RbtHeapProofs.
Import ListNotations.
Local Open Scope Z_scope.

Definition Inv (t : tree) (m : amap) : Prop :=
  rbwf t /\ col t = Black /\ sorted (elems t) /\ holds t m.

Lemma Inv_empty : Inv E aempty.
Proof.
  repeat split; simpl; auto; try contradiction. unfold aempty. discriminate.
Qed.

Lemma Inv_intro : forall t m, rbwf t -> col t = Black -> sorted (elems t) -> holds t m -> Inv t m.
Proof. unfold Inv; auto. Qed.

Lemma step_correct : forall t m o t' r tg,
    Inv t m -> step t o = (t', r, tg) ->
    r = snd (astep m o) /\ Inv t' (fst (astep m o)) /\
    (NoDup (ids t) ->
     match o with OpInsert _ i => ~ In i (ids t) | _ => True end -> NoDup (ids t')).
Proof.
  intros t m o t' r tg (W & C & S & H) ST. destruct o as [k i|k|k]; simpl in ST.
  - (* insert *)
    pose proof (insert_inv k i t W C) as II. pose proof (insert_elems k i t S) as IE.
    destruct (insert k i t) as [j|t1 tg1|]; inv ST.
    + apply H in IE. simpl. rewrite IE. simpl.
      split; [reflexivity|split; [apply Inv_intro; auto|auto]].
    + destruct IE as (l1 & l2 & E1 & E2 & F1 & F2). destruct II as (W' & C').
      destruct (holds_insert _ _ _ _ _ _ _ H E1 E2 F1 F2) as (MN & H').
      simpl. rewrite MN. simpl.
      split; [reflexivity|split; [apply Inv_intro; auto|]].
      * rewrite E2. apply sorted_insert_mid; auto. rewrite <- E1. auto.
      * unfold ids. rewrite E2, E1, !map_app. simpl. intros N NI.
        apply (NoDup_Add (Add_app i (map snd l1) (map snd l2))). auto.
    + contradiction.
  - (* remove *)
    pose proof (remove_inv k t W C) as RI. pose proof (remove_elems k t S) as RE.
    destruct (remove k t) as [|j t1 tg1|]; inv ST.
    + simpl. destruct (m k) as [j|] eqn:M.
      * apply H in M. elim (RE _ M).
      * simpl. split; [reflexivity|split; [apply Inv_intro; auto|auto]].
    + destruct RE as (l1 & l2 & E1 & E2). destruct RI as (W' & C' & _).
      destruct (holds_remove _ _ _ _ _ _ _ H S E1 E2) as (MS & H').
      simpl. rewrite MS. simpl.
      split; [reflexivity|split; [apply Inv_intro; auto|]].
      * rewrite E2. eapply sorted_remove_mid. rewrite <- E1. eauto.
      * unfold ids. rewrite E2, E1, !map_app. simpl. intros N _.
        eapply NoDup_remove_1; eauto.
    + contradiction.
  - (* search *)
    rewrite (holds_find t m k S H) in ST. simpl.
    destruct (m k); inv ST; simpl; (split; [reflexivity|split; [apply Inv_intro; auto|auto]]).
Qed.

Lemma run_correct : forall ops t m t' rs,
    Inv t m -> run t ops = (t', rs) ->
    rs = snd (arun m ops) /\ Inv t' (fst (arun m ops)) /\
    (NoDup (ids t) -> fresh_run t ops = true -> NoDup (ids t')).
Proof.
  induction ops as [|o ops IH]; intros t m t' rs I R.
  - simpl in *. inv R. auto.
  - simpl in R |- *. destruct (step t o) as [[t1 r1] tg1] eqn:ST.
    destruct (run t1 ops) as [t2 rs2] eqn:R2. inv R.
    destruct (step_correct _ _ _ _ _ _ I ST) as (Er & I1 & N1).
    destruct (astep m o) as [m1 r1'] eqn:AS. simpl in Er, I1. subst r1'.
    destruct (IH _ _ _ _ I1 R2) as (Ers & I2 & N2).
    destruct (arun m1 ops) as [m2 rs2'] eqn:AR. simpl in *. subst rs2'.
    repeat split; try apply I2. intros N F.
    apply andb_true_iff in F. destruct F as (F1 & F2).
    apply N2; auto. apply N1; auto.
    destruct o as [k i| |]; auto.
    apply negb_true_iff in F1. intros IN.
    assert (existsb (Pos.eqb i) (ids t) = true); [|congruence].
    apply existsb_exists. exists i. split; auto. apply Pos.eqb_refl.
Qed.

Lemma reachable_Inv : forall t, reachable t -> exists m, Inv t m.
Proof.
  intros t (ops & rs & R). destruct (run_correct _ _ _ _ _ Inv_empty R) as (_ & I & _). eauto.
Qed.

(* ---- clause: root black, no red-red, equal black height, BST, in every reachable state *)
Lemma rb_inv_reachable_lemma : forall ops t rs, run E ops = (t, rs) -> RB t.
Proof.
  intros ops t rs R. destruct (run_correct _ _ _ _ _ Inv_empty R) as (_ & (W & C & S & _) & _).
  repeat split; auto using rbwf_no_red_red, rbwf_equal_black_paths, sorted_BST.
Qed.

(* ---- clause: contents and return values are those of the abstract set *)
Lemma rb_refines_set_lemma : forall ops t rs,
    run E ops = (t, rs) ->
    rs = snd (arun aempty ops) /\
    holds t (fst (arun aempty ops)) /\
    (forall k, find k t = fst (arun aempty ops) k) /\
    sorted (elems t).
Proof.
  intros ops t rs R. destruct (run_correct _ _ _ _ _ Inv_empty R) as (E1 & (W & C & S & H) & _).
  repeat split; auto; try apply H. intros k. apply holds_find; auto.
Qed.

(* the abstract set never answers RetFault, hence the model never faults on a reachable state
   (null dereference / false A_ASSUME in the C) *)
Lemma astep_no_fault : forall m o, snd (astep m o) <> RetFault.
Proof. intros m [k i|k|k]; simpl; destruct (m k); simpl; discriminate. Qed.

Lemma arun_no_fault : forall ops m, ~ In RetFault (snd (arun m ops)).
Proof.
  induction ops as [|o ops IH]; intros m; simpl; auto.
  pose proof (astep_no_fault m o) as A. destruct (astep m o) as [m1 r1]. specialize (IH m1).
  destruct (arun m1 ops) as [m2 rs]. simpl in *. intuition.
Qed.

Lemma rb_no_fault_lemma : forall ops t rs, run E ops = (t, rs) -> ~ In RetFault rs.
Proof.
  intros ops t rs R. destruct (run_correct _ _ _ _ _ Inv_empty R) as (-> & _).
  apply arun_no_fault.
Qed.

(* the A_ASSUME facts at every reachable state, and the first-iteration side selection *)
Lemma rb_assume_lemma : forall t x,
    reachable t ->
    remove x t <> RemoveFault /\
    (forall xi, insert x xi t <> InsertFault) /\
    (forall j t' tg, remove x t = RemoveOk j t' tg -> ~ In TF_null_mirror tg).
Proof.
  intros t x Rc. destruct (reachable_Inv t Rc) as (m & W & C & _).
  destruct (no_fault_on_valid_trees x t W C) as (A & B). repeat split; auto.
  intros j t' tg Rm. pose proof (remove_inv x t W C) as RI. rewrite Rm in RI. tauto.
Qed.

(* ---- clause: duplicate insertion returns the resident and leaves the tree unchanged *)
Lemma rb_dup_lemma : forall t k i t' j tg,
    step t (OpInsert k i) = (t', RetDup j, tg) -> t' = t /\ insert k i t = InsertDup j.
Proof.
  intros t k i t' j tg ST. simpl in ST. destruct (insert k i t); inv ST. auto.
Qed.

Lemma rb_dup_resident_lemma : forall t k i j,
    reachable t -> insert k i t = InsertDup j -> In (k, j) (elems t) /\ find k t = Some j.
Proof.
  intros t k i j Rc ID. destruct (reachable_Inv t Rc) as (m & W & C & S & H).
  pose proof (insert_elems k i t S) as IE. rewrite ID in IE. split; auto.
  apply find_In; auto.
Qed.

(* ---- clause: parent links agree with child links *)
Lemma rb_parent_links_lemma : forall ops t rs,
    fresh_run E ops = true -> run E ops = (t, rs) ->
    links_consistent (root_id t) (heap_of t).
Proof.
  intros ops t rs F R. apply heap_of_parent_links_lemma.
  destruct (run_correct _ _ _ _ _ Inv_empty R) as (_ & _ & N). apply N; auto. constructor.
Qed.

Lemma rb_height_log_reachable : forall ops t rs,
    run E ops = (t, rs) -> (height t <= 2 * Nat.log2 (size t + 1))%nat.
Proof.
  intros ops t rs R. destruct (run_correct _ _ _ _ _ Inv_empty R) as (_ & (W & C & _) & _).
  apply rb_height_log_lemma; auto.
Qed.
