(* C18 -- decode (encode x) = x for every code point 1 .. 2^31-1, every proper prefix fails. *)
From Coq Require Import NArith ZArith List Bool Lia ZifyBool ZifyN ZifyNat.
From LibaV Require Import C18.UtfDefs C18.UtfBits C18.UtfEncProofs C18.UtfDecProofs C18.UtfDecTheorems.
Import ListNotations.
Local Open Scope N_scope.
Ltac Zify.zify_post_hook ::= Z.div_mod_to_equations.

Lemma is_cont_cb d : is_cont (cb d) = true.
Proof. unfold is_cont, cb. lia. Qed.

Lemma cb_mod d : cb d mod 64 = d mod 64.
Proof. unfold cb. lia. Qed.

Lemma cb_lt d : cb d < 256.
Proof. unfold cb. lia. Qed.

Lemma nlead_1 b : 192 <= b < 224 -> nlead b = 1.
Proof. intros H. unfold nlead. replace (b <? 0xC0) with false by lia. replace (b <? 0xE0) with true by lia. reflexivity. Qed.
Lemma nlead_2 b : 224 <= b < 240 -> nlead b = 2.
Proof. intros H. unfold nlead. replace (b <? 0xC0) with false by lia. replace (b <? 0xE0) with false by lia.
  replace (b <? 0xF0) with true by lia. reflexivity. Qed.
Lemma nlead_3 b : 240 <= b < 248 -> nlead b = 3.
Proof. intros H. unfold nlead. replace (b <? 0xC0) with false by lia. replace (b <? 0xE0) with false by lia.
  replace (b <? 0xF0) with false by lia. replace (b <? 0xF8) with true by lia. reflexivity. Qed.
Lemma nlead_4 b : 248 <= b < 252 -> nlead b = 4.
Proof. intros H. unfold nlead. replace (b <? 0xC0) with false by lia. replace (b <? 0xE0) with false by lia.
  replace (b <? 0xF0) with false by lia. replace (b <? 0xF8) with false by lia.
  replace (b <? 0xFC) with true by lia. reflexivity. Qed.
Lemma nlead_5 b : 252 <= b < 254 -> nlead b = 5.
Proof. intros H. unfold nlead. replace (b <? 0xC0) with false by lia. replace (b <? 0xE0) with false by lia.
  replace (b <? 0xF0) with false by lia. replace (b <? 0xF8) with false by lia.
  replace (b <? 0xFC) with false by lia. replace (b <? 0xFE) with true by lia. reflexivity. Qed.

Lemma utf8_table_bytes_ok x : x < 2147483648 -> bytes_ok (utf8_table x).
Proof.
  intros H. unfold utf8_table, bytes_ok.
  destruct (x <? 0x80) eqn:E1; destruct (x <? 0x800) eqn:E2; destruct (x <? 0x10000) eqn:E3;
    destruct (x <? 0x200000) eqn:E4; destruct (x <? 0x4000000) eqn:E5; try lia;
    repeat (constructor; [first [apply cb_lt | lia]|]); constructor.
Qed.

(* lead byte of a multi-byte table entry *)
Lemma utf8_table_lead x : 0 < x < 2147483648 -> 2 <= utf8_len x ->
  exists b tl, utf8_table x = b :: tl /\ 192 <= b < 254 /\ nlead b + 1 = utf8_len x.
Proof.
  intros Hx H2. unfold utf8_table, utf8_len in *.
  destruct (x <? 0x80) eqn:E1; destruct (x <? 0x800) eqn:E2; destruct (x <? 0x10000) eqn:E3;
    destruct (x <? 0x200000) eqn:E4; destruct (x <? 0x4000000) eqn:E5; try lia;
    eexists; eexists; (split; [reflexivity|]).
  - split; [lia|]. rewrite nlead_1; lia.
  - split; [lia|]. rewrite nlead_2; lia.
  - split; [lia|]. rewrite nlead_3; lia.
  - split; [lia|]. rewrite nlead_4; lia.
  - split; [lia|]. rewrite nlead_5; lia.
Qed.

(* spec-level round trip, the six ranges of the table *)
Lemma spec_decode_table x rest num want :
  0 < x < 2147483648 -> utf8_len x <= num ->
  spec_decode (utf8_table x ++ rest) num want = (utf8_len x, if want then Some x else None).
Proof.
  intros Hx Hn. unfold spec_decode.
  set (m := N.to_nat (N.min num 6)).
  assert (Hm : (N.to_nat (utf8_len x) <= m)%nat).
  { pose proof (utf8_len_range x). unfold m. lia. }
  rewrite firstn_app.
  rewrite (firstn_all2 (utf8_table x)) by (pose proof (utf8_table_length x); lia).
  generalize (firstn (m - length (utf8_table x)) rest). intros r. clear m Hm.
  unfold utf8_table, utf8_len in *.
  destruct (x <? 0x80) eqn:E1; destruct (x <? 0x800) eqn:E2; destruct (x <? 0x10000) eqn:E3;
    destruct (x <? 0x200000) eqn:E4; destruct (x <? 0x4000000) eqn:E5; try lia; cbn [app].
  - (* 1 *)
    replace (x <? 128) with true by lia. replace (0 <? x) with true by lia. reflexivity.
  - (* 2 *)
    replace (192 + x / 64 <? 128) with false by lia.
    rewrite nlead_1 by lia. change (N.to_nat 1) with 1%nat. cbn [take_conts].
    rewrite !is_cont_cb, !cb_mod. unfold payload.
    change (2 ^ (6 - 1)) with 32. change (64 ^ 1) with 64.
    f_equal. destruct want; [|reflexivity]. f_equal. lia.
  - (* 3 *)
    replace (224 + x / 4096 <? 128) with false by lia.
    rewrite nlead_2 by lia. change (N.to_nat 2) with 2%nat. cbn [take_conts].
    rewrite !is_cont_cb, !cb_mod. unfold payload.
    change (2 ^ (6 - 2)) with 16. change (64 ^ 2) with 4096.
    f_equal. destruct want; [|reflexivity]. f_equal. lia.
  - (* 4 *)
    replace (240 + x / 262144 <? 128) with false by lia.
    rewrite nlead_3 by lia. change (N.to_nat 3) with 3%nat. cbn [take_conts].
    rewrite !is_cont_cb, !cb_mod. unfold payload.
    change (2 ^ (6 - 3)) with 8. change (64 ^ 3) with 262144.
    f_equal. destruct want; [|reflexivity]. f_equal. lia.
  - (* 5 *)
    replace (248 + x / 16777216 <? 128) with false by lia.
    rewrite nlead_4 by lia. change (N.to_nat 4) with 4%nat. cbn [take_conts].
    rewrite !is_cont_cb, !cb_mod. unfold payload.
    change (2 ^ (6 - 4)) with 4. change (64 ^ 4) with 16777216.
    f_equal. destruct want; [|reflexivity]. f_equal. lia.
  - (* 6 *)
    replace (252 + x / 1073741824 <? 128) with false by lia.
    rewrite nlead_5 by lia. change (N.to_nat 5) with 5%nat. cbn [take_conts].
    rewrite !is_cont_cb, !cb_mod. unfold payload.
    change (2 ^ (6 - 5)) with 2. change (64 ^ 5) with 1073741824.
    f_equal. destruct want; [|reflexivity]. f_equal. lia.
Qed.

(* decoding the stored bytes, followed by anything, with any stated length that covers them *)
Theorem decode_encode x rest num want :
  0 < x < 2147483648 -> bytes_ok rest ->
  utf8_len x <= num <= N.of_nat (length (utf8_table x ++ rest)) ->
  decode (utf8_table x ++ rest) num want = DRet (utf8_len x) (if want then Some x else None).
Proof.
  intros Hx Hr Hn.
  rewrite decode_eq_spec; [|lia|apply bytes_ok_app; [apply utf8_table_bytes_ok; lia|exact Hr]].
  rewrite spec_decode_table by (assumption || lia). reflexivity.
Qed.

(* decoding any proper prefix of the stored bytes (whatever follows in memory) fails, and *val is
   not stored *)
Theorem decode_prefix_fails x s num want :
  0 < x < 2147483648 -> num < utf8_len x ->
  num <= N.of_nat (length s) -> bytes_ok s ->
  firstn (N.to_nat num) s = firstn (N.to_nat num) (utf8_table x) ->
  decode s num want = DRet 0 None.
Proof.
  intros Hx Hlt Hn Hs Hpre.
  rewrite decode_eq_spec by assumption.
  pose proof (utf8_len_range x) as Hr.
  unfold spec_decode.
  replace (N.min num 6) with num by lia. rewrite Hpre.
  destruct (N.eq_dec num 0) as [->|Hz]; [reflexivity|].
  destruct (utf8_table_lead x Hx ltac:(lia)) as (b & tl & Et & Hb & Hk).
  rewrite Et. rewrite firstn_cons_pos by lia.
  replace (b <? 128) with false by lia.
  rewrite take_conts_short; [reflexivity|].
  rewrite firstn_length.
  assert (N.of_nat (length tl) + 1 = utf8_len x).
  { rewrite <- utf8_table_length, Et. cbn [length]. lia. }
  lia.
Qed.

(* encoder and decoder together (the statement Properties_C18 uses) *)
Theorem encode_then_decode x l :
  0 < x < 2147483648 -> utf8_len x <= N.of_nat (length l) ->
  exists bytes,
    a_utf_encode x None = ERet (utf8_len x) None /\
    a_utf_encode x (Some l) =
      ERet (utf8_len x) (Some (map Some bytes ++ skipn (N.to_nat (utf8_len x)) l)) /\
    bytes = utf8_table x /\ N.of_nat (length bytes) = utf8_len x /\
    (forall rest num want, bytes_ok rest ->
       utf8_len x <= num <= N.of_nat (length (bytes ++ rest)) ->
       decode (bytes ++ rest) num want = DRet (utf8_len x) (if want then Some x else None)) /\
    (forall s num want, num < utf8_len x -> num <= N.of_nat (length s) -> bytes_ok s ->
       firstn (N.to_nat num) s = firstn (N.to_nat num) bytes ->
       decode s num want = DRet 0 None).
Proof.
  intros Hx Hl. exists (utf8_table x). repeat split.
  - unfold a_utf_encode. rewrite land_7FFFFFFF, N.mod_small by lia.
    rewrite <- enc_ladder_len by lia. destruct (enc_ladder x). reflexivity.
  - apply encode_spec; assumption.
  - apply utf8_table_length.
  - intros. apply decode_encode; assumption.
  - intros. eapply decode_prefix_fails; eauto.
Qed.

(* the encoder stores nothing when the buffer is shorter than the length it reports: the model's
   bounds check is live (non-vacuity of the "no store outside" reading of encode_spec) *)
Example encode_short_buffer_detected : a_utf_encode 0x20AC (Some [None; None]) = EOver.
Proof. reflexivity. Qed.

Example decode_encode_example :
  decode (utf8_table 0x20AC ++ [0x41]) 4 true = DRet 3 (Some 0x20AC).
Proof. reflexivity. Qed.

Example decode_prefix_example : decode [0xE2; 0x82; 0xAC] 2 true = DRet 0 None.
Proof. reflexivity. Qed.
