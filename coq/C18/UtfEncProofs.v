(* C18 -- a_utf_encode: the ladder is the UTF-8 table, the fall-through switch stores exactly the
   table's bytes, nothing else, and never outside a buffer of the reported length. *)
From Coq Require Import NArith ZArith List Bool Lia ZifyBool ZifyN ZifyNat.
From LibaV Require Import C18.UtfDefs C18.UtfBits.
Import ListNotations.
Local Open Scope N_scope.
Ltac Zify.zify_post_hook ::= Z.div_mod_to_equations.

Lemma utf8_len_range x : 1 <= utf8_len x <= 6.
Proof. unfold utf8_len. repeat (destruct (_ <? _)); lia. Qed.

Lemma utf8_table_length x : N.of_nat (length (utf8_table x)) = utf8_len x.
Proof. unfold utf8_table, utf8_len. repeat (destruct (_ <? _)); reflexivity. Qed.

Lemma enc_ladder_len x : 0 < x -> fst (enc_ladder x) = utf8_len x.
Proof.
  intros H. unfold enc_ladder, utf8_len.
  destruct (x <? 0x80) eqn:E1; destruct (x <? 0x800) eqn:E2; destruct (x <? 0x10000) eqn:E3;
    destruct (x <? 0x200000) eqn:E4; destruct (x <? 0x4000000) eqn:E5; try lia; try reflexivity.
  cbn [fst]. destruct (0 <? x) eqn:E0; [reflexivity|lia].
Qed.

Lemma cont_byte_eq x : cont_byte x = cb x.
Proof.
  unfold cont_byte, cb, as_byte. rewrite land_3F.
  rewrite (lor_add 0x80 (x mod 64) 7); [|change (2^7) with 128; lia|reflexivity].
  change 0x80 with 128. lia.
Qed.

Lemma lead_byte mask q n : q < 2 ^ n -> mask mod 2 ^ n = 0 -> mask + q < 256 ->
  as_byte (N.lor mask q) = mask + q.
Proof.
  intros Hq Hm Hb. unfold as_byte. rewrite (lor_add mask q n) by assumption.
  apply N.mod_small. exact Hb.
Qed.

Lemma div64_2 x : x / 64 / 64 = x / 4096.
Proof. rewrite N.div_div by lia. reflexivity. Qed.
Lemma div64_3 x : x / 64 / 64 / 64 = x / 262144.
Proof. rewrite !N.div_div by lia. reflexivity. Qed.
Lemma div64_4 x : x / 64 / 64 / 64 / 64 = x / 16777216.
Proof. rewrite !N.div_div by lia. reflexivity. Qed.
Lemma div64_5 x : x / 64 / 64 / 64 / 64 / 64 = x / 1073741824.
Proof. rewrite !N.div_div by lia. reflexivity. Qed.
Ltac norm_div := rewrite ?div64_5, ?div64_4, ?div64_3, ?div64_2.

Ltac destr_buf l H :=
  let c := fresh "c" in destruct l as [|c l]; [cbn [length] in H; lia|].

(* The main statement about the encoder: for every code point 0 < x < 2^31 and every caller buffer
   l with at least utf8_len x cells, the call returns utf8_len x and has stored the table's bytes
   into the first utf8_len x cells, leaving every other cell as it was. *)
Lemma encode_spec x l :
  0 < x < 2147483648 -> utf8_len x <= N.of_nat (length l) ->
  a_utf_encode x (Some l) =
  ERet (utf8_len x) (Some (map Some (utf8_table x) ++ skipn (N.to_nat (utf8_len x)) l)).
Proof.
  intros Hx Hl. unfold a_utf_encode. rewrite land_7FFFFFFF.
  rewrite (N.mod_small x) by lia.
  unfold enc_ladder, utf8_len, utf8_table in *.
  destruct (x <? 0x80) eqn:E1; destruct (x <? 0x800) eqn:E2; destruct (x <? 0x10000) eqn:E3;
    destruct (x <? 0x200000) eqn:E4; destruct (x <? 0x4000000) eqn:E5; try lia.
  - (* 1 byte *)
    destruct (0 <? x) eqn:E0; [|lia].
    destr_buf l Hl.
    cbv [enc_switch sw1 put upd length Nat.ltb Nat.leb].
    rewrite (lead_byte 0 x 7); [reflexivity|change (2^7) with 128; lia|reflexivity|lia].
  - (* 2 bytes *)
    do 2 destr_buf l Hl.
    cbv [enc_switch sw2 sw1 put upd length Nat.ltb Nat.leb].
    rewrite !cont_byte_eq, !shiftr_6.
    rewrite (lead_byte 0xC0 (x / 64) 6); [reflexivity|change (2^6) with 64; lia|reflexivity|lia].
  - (* 3 bytes *)
    do 3 destr_buf l Hl.
    cbv [enc_switch sw3 sw2 sw1 put upd length Nat.ltb Nat.leb].
    rewrite !cont_byte_eq, !shiftr_6.
    norm_div.
    rewrite (lead_byte 0xE0 (x / 4096) 5); [reflexivity|change (2^5) with 32; lia|reflexivity|lia].
  - (* 4 bytes *)
    do 4 destr_buf l Hl.
    cbv [enc_switch sw4 sw3 sw2 sw1 put upd length Nat.ltb Nat.leb].
    rewrite !cont_byte_eq, !shiftr_6.
    norm_div.
    rewrite (lead_byte 0xF0 (x / 262144) 4); [reflexivity|change (2^4) with 16; lia|reflexivity|lia].
  - (* 5 bytes *)
    do 5 destr_buf l Hl.
    cbv [enc_switch sw5 sw4 sw3 sw2 sw1 put upd length Nat.ltb Nat.leb].
    rewrite !cont_byte_eq, !shiftr_6.
    norm_div.
    rewrite (lead_byte 0xF8 (x / 16777216) 3); [reflexivity|change (2^3) with 8; lia|reflexivity|lia].
  - (* 6 bytes *)
    do 6 destr_buf l Hl.
    cbv [enc_switch sw6 sw5 sw4 sw3 sw2 sw1 put upd length Nat.ltb Nat.leb].
    rewrite !cont_byte_eq, !shiftr_6.
    norm_div.
    rewrite (lead_byte 0xFC (x / 1073741824) 2); [reflexivity|change (2^2) with 4; lia|reflexivity|lia].
Qed.
