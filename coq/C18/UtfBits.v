(* C18 -- bit-level and list helper lemmas (shifts/masks as div/mod, disjoint lor = +,
   finite sweeps lifted to a universally quantified statement). *)
From Coq Require Import NArith ZArith List Bool Lia ZifyBool ZifyN ZifyNat.
Import ListNotations.
Local Open Scope N_scope.

Ltac Zify.zify_post_hook ::= Z.div_mod_to_equations.

(* ---------------------------------------------------------------- masks and shifts *)

Lemma land_3F x : N.land x 0x3F = x mod 64.
Proof. change 0x3F with (N.ones 6). rewrite N.land_ones. reflexivity. Qed.

Lemma land_7F x : N.land x 0x7F = x mod 128.
Proof. change 0x7F with (N.ones 7). rewrite N.land_ones. reflexivity. Qed.

Lemma land_7FFFFFFF x : N.land x 0x7FFFFFFF = x mod 2147483648.
Proof. change 0x7FFFFFFF with (N.ones 31). rewrite N.land_ones. reflexivity. Qed.

Lemma shiftr_6 x : N.shiftr x 6 = x / 64.
Proof. rewrite N.shiftr_div_pow2. reflexivity. Qed.

Lemma shiftl_1 x : N.shiftl x 1 = x * 2.
Proof. rewrite N.shiftl_mul_pow2. reflexivity. Qed.

Lemma shiftl_6 x : N.shiftl x 6 = x * 64.
Proof. rewrite N.shiftl_mul_pow2. reflexivity. Qed.

Lemma land_mul_pow2_small a b n : a < 2 ^ n -> N.land (b * 2 ^ n) a = 0.
Proof.
  intros H. apply N.bits_inj_0. intros m. rewrite N.land_spec.
  destruct (N.lt_ge_cases m n) as [Hm|Hm].
  - rewrite N.mul_pow2_bits_low by assumption. reflexivity.
  - replace (N.testbit a m) with false; [apply andb_false_r|].
    symmetry. destruct (N.eq_dec a 0) as [->|Hz]; [apply N.bits_0|].
    apply N.bits_above_log2. apply N.log2_lt_pow2; [lia|].
    eapply N.lt_le_trans; [exact H|]. apply N.pow_le_mono_r; lia.
Qed.

(* disjoint or = plus *)
Lemma lor_add hi lo n : lo < 2 ^ n -> hi mod 2 ^ n = 0 -> N.lor hi lo = hi + lo.
Proof.
  intros Hlo Hhi.
  assert (Hp : 2 ^ n <> 0) by (apply N.pow_nonzero; lia).
  assert (E : hi = (hi / 2 ^ n) * 2 ^ n).
  { rewrite (N.div_mod hi (2 ^ n)) at 1 by assumption. rewrite Hhi. lia. }
  rewrite E.
  pose proof (land_mul_pow2_small lo (hi / 2 ^ n) n Hlo) as L.
  rewrite <- N.lxor_lor by assumption.
  rewrite <- N.add_nocarry_lxor by assumption. reflexivity.
Qed.

Lemma lor_add' lo hi n : lo < 2 ^ n -> hi mod 2 ^ n = 0 -> N.lor lo hi = lo + hi.
Proof. intros. rewrite N.lor_comm, N.add_comm. eapply lor_add; eauto. Qed.

Lemma land_pow2 a k : N.land a (2 ^ k) = if N.testbit a k then 2 ^ k else 0.
Proof.
  apply N.bits_inj. intros m. rewrite N.land_spec, N.pow2_bits_eqb.
  destruct (N.eqb_spec k m) as [->|Hne].
  - destruct (N.testbit a m) eqn:E; cbn [andb].
    + rewrite N.pow2_bits_true. reflexivity.
    + rewrite N.bits_0. reflexivity.
  - rewrite andb_false_r. destruct (N.testbit a k).
    + rewrite N.pow2_bits_false by assumption. reflexivity.
    + rewrite N.bits_0. reflexivity.
Qed.

(* the loop condition `chr & 0x40` *)
Lemma land_40_eqb chr : (N.land chr 0x40 =? 0) = (chr / 64 mod 2 =? 0).
Proof.
  change 0x40 with (2 ^ 6). rewrite land_pow2, N.testbit_eqb.
  change (2 ^ 6) with 64.
  destruct (N.eqb_spec (chr / 64 mod 2) 1) as [E|E].
  - rewrite E. reflexivity.
  - assert (chr / 64 mod 2 = 0) as -> by lia. reflexivity.
Qed.

(* ---------------------------------------------------------------- finite sweeps *)

Definition upto (n : nat) : list N := map N.of_nat (seq 0 n).

Lemma upto_In n x : x < N.of_nat n -> In x (upto n).
Proof.
  intros H. unfold upto. apply in_map_iff. exists (N.to_nat x). split; [lia|].
  apply in_seq. lia.
Qed.

Lemma sweep (f : N -> bool) (n : nat) :
  forallb f (upto n) = true -> forall x, x < N.of_nat n -> f x = true.
Proof. intros H x Hx. rewrite forallb_forall in H. apply H, upto_In, Hx. Qed.

(* ---------------------------------------------------------------- lists *)

Lemma nth_error_firstn_lt {A} (l : list A) (n i : nat) :
  (i < n)%nat -> nth_error (firstn n l) i = nth_error l i.
Proof.
  revert n i. induction l as [|a l IH]; intros n i H.
  - rewrite firstn_nil. reflexivity.
  - destruct n; [lia|]. destruct i; [reflexivity|]. cbn. apply IH. lia.
Qed.

Lemma skipn_nth_cons {A} (l : list A) (i : nat) (c : A) :
  nth_error l i = Some c -> skipn i l = c :: skipn (S i) l.
Proof.
  revert i. induction l as [|a l IH]; intros i H.
  - destruct i; discriminate.
  - destruct i.
    + cbn in H. injection H as ->. reflexivity.
    + cbn in H. cbn [skipn]. rewrite (IH i H). reflexivity.
Qed.

Lemma nth_error_some_lt {A} (l : list A) (i : nat) :
  (i < length l)%nat -> exists c, nth_error l i = Some c.
Proof.
  intros H. destruct (nth_error l i) eqn:E; [eauto|].
  apply nth_error_None in E. lia.
Qed.
