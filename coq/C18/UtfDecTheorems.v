(* C18 -- theorems about a_utf_decode, derived from the exact characterisation decode = spec_decode. *)
From Coq Require Import NArith ZArith List Bool Lia ZifyBool ZifyN ZifyNat.
From LibaV Require Import C18.UtfDefs C18.UtfBits C18.UtfEncProofs C18.UtfDecProofs.
Import ListNotations.
Local Open Scope N_scope.
Ltac Zify.zify_post_hook ::= Z.div_mod_to_equations.

Lemma firstn_cons_pos {A} (m : nat) (b : A) (l : list A) :
  (0 < m)%nat -> firstn m (b :: l) = b :: firstn (m - 1) l.
Proof. intros H. destruct m; [lia|]. cbn. rewrite Nat.sub_0_r. reflexivity. Qed.

(* The model of a_utf_decode, on a buffer that really has the stated num bytes, never fails a
   checked read, never runs out of fuel, and returns exactly what the declarative decoder says. *)
Theorem decode_eq_spec s num want :
  num <= N.of_nat (length s) -> bytes_ok s ->
  decode s num want = DRet (fst (spec_decode s num want)) (snd (spec_decode s num want)).
Proof.
  intros Hn Hs. unfold decode, a_utf_decode, spec_decode.
  destruct (N.eqb_spec num 0) as [->|Hz]; [reflexivity|].
  destruct s as [|b s']; [cbn in Hn; lia|].
  unfold rd at 1. replace (0 <? num) with true by lia.
  change (N.to_nat 0) with O. cbn [nth_error].
  set (m := N.min num 6).
  assert (Hm : 1 <= m <= 6) by (unfold m; lia).
  rewrite firstn_cons_pos by lia.
  change 0x80 with 128.
  destruct (b <? 128) eqn:Eb; [destruct want; reflexivity|].
  assert (Hb : 128 <= b < 256).
  { split; [lia|]. eapply (bytes_ok_nth _ 0%nat); [exact Hs|reflexivity]. }
  replace (if 6 <? num then 6 else num) with m by (unfold m; destruct (N.ltb_spec 6 num); lia).
  set (k := nlead b).
  set (t := firstn (N.to_nat m - 1) s').
  assert (Ht : (length t <= 5)%nat).
  { unfold t. rewrite firstn_length. lia. }
  assert (L : forall fuel, (N.to_nat k < fuel)%nat ->
     dec_loop_val fuel (b :: s') num m b 0 0 =
     match take_conts (N.to_nat k) t 0 with
     | Some low => LDone (b * 2 ^ k) k low
     | None => LFail
     end).
  { intros fuel Hf.
    pose proof (loop_val_spec (N.to_nat k) fuel (b :: s') num m b 0 0 1) as L.
    change (2 ^ 0) with 1 in L. rewrite N.mul_1_r in L.
    change (N.to_nat (0 + 1)) with 1%nat in L.
    rewrite firstn_cons_pos in L by lia. cbn [skipn] in L.
    apply L; try assumption; try lia; unfold m, k; try lia. }
  assert (Hk7 : (N.to_nat k < dec_fuel)%nat).
  { pose proof (nlead_le7 b). unfold k, dec_fuel. lia. }
  destruct want.
  - rewrite (L dec_fuel Hk7).
    destruct (take_conts (N.to_nat k) t 0) as [low|] eqn:ET; [|reflexivity].
    pose proof (take_conts_length _ _ _ _ ET) as Hlen.
    pose proof (take_conts_bound _ _ _ _ 1 ET ltac:(lia)) as Hlow.
    rewrite N2Nat.id, N.mul_1_l in Hlow.
    cbv zeta. cbn [fst snd].
    rewrite (N.mod_small k U32) by (unfold U32; lia).
    rewrite (N.mod_small (k + 1) U32) by (unfold U32; lia).
    rewrite <- (N.mod_small k U32) at 3 by (unfold U32; lia).
    rewrite (assemble b k low Hb eq_refl) by lia.
    reflexivity.
  - rewrite (loop_nul_erase _ _ _ _ _ _ 0), (L dec_fuel Hk7).
    destruct (take_conts (N.to_nat k) t 0) as [low|] eqn:ET; [|reflexivity].
    pose proof (take_conts_length _ _ _ _ ET) as Hlen.
    cbn [erase fst snd].
    rewrite (N.mod_small k U32) by (unfold U32; lia).
    rewrite (N.mod_small (k + 1) U32) by (unfold U32; lia).
    reflexivity.
Qed.
