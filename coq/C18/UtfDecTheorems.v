(* C18 -- theorems about a_utf_decode, derived from the exact characterisation decode = spec_decode. *)
From Coq Require Import NArith ZArith List Bool Lia ZifyBool ZifyN ZifyNat.
From LibaV Require Import C18.UtfDefs C18.UtfBits C18.UtfEncProofs C18.UtfDecProofs.
Import ListNotations.
Local Open Scope N_scope.
Ltac Zify.zify_post_hook ::= Z.div_mod_to_equations.

Lemma firstn_cons_pos {A} (m : nat) (b : A) (l : list A) :
  (0 < m)%nat -> firstn m (b :: l) = b :: firstn (m - 1) l.
Proof. intros H. destruct m; [lia|]. cbn. rewrite Nat.sub_0_r. reflexivity. Qed.

(* The model of a_utf_decode, on a buffer that really has the stated num bytes, never fails a
   checked read, never runs out of fuel, and returns exactly what the declarative decoder says. *)
Theorem decode_eq_spec s num want :
  num <= N.of_nat (length s) -> bytes_ok s ->
  decode s num want = DRet (fst (spec_decode s num want)) (snd (spec_decode s num want)).
Proof.
  intros Hn Hs. unfold decode, a_utf_decode, spec_decode.
  destruct (N.eqb_spec num 0) as [->|Hz]; [reflexivity|].
  destruct s as [|b s']; [cbn in Hn; lia|].
  unfold rd at 1. replace (0 <? num) with true by lia.
  change (N.to_nat 0) with O. cbn [nth_error].
  set (m := N.min num 6).
  assert (Hm : 1 <= m <= 6) by (unfold m; lia).
  rewrite firstn_cons_pos by lia.
  change 0x80 with 128.
  destruct (b <? 128) eqn:Eb; [destruct want; reflexivity|].
  assert (Hb : 128 <= b < 256).
  { split; [lia|]. eapply (bytes_ok_nth _ 0%nat); [exact Hs|reflexivity]. }
  replace (if 6 <? num then 6 else num) with m by (unfold m; destruct (N.ltb_spec 6 num); lia).
  set (k := nlead b).
  set (t := firstn (N.to_nat m - 1) s').
  assert (Ht : (length t <= 5)%nat).
  { unfold t. rewrite firstn_length. lia. }
  assert (L : forall fuel, (N.to_nat k < fuel)%nat ->
     dec_loop_val fuel (b :: s') num m b 0 0 =
     match take_conts (N.to_nat k) t 0 with
     | Some low => LDone (b * 2 ^ k) k low
     | None => LFail
     end).
  { intros fuel Hf.
    pose proof (loop_val_spec (N.to_nat k) fuel (b :: s') num m b 0 0 1) as L.
    change (2 ^ 0) with 1 in L. rewrite N.mul_1_r in L.
    change (N.to_nat (0 + 1)) with 1%nat in L.
    rewrite firstn_cons_pos in L by lia. cbn [skipn] in L.
    apply L; try assumption; try lia; unfold m, k; try lia. }
  assert (Hk7 : (N.to_nat k < dec_fuel)%nat).
  { pose proof (nlead_le7 b). unfold k, dec_fuel. lia. }
  destruct want.
  - rewrite (L dec_fuel Hk7).
    destruct (take_conts (N.to_nat k) t 0) as [low|] eqn:ET; [|reflexivity].
    pose proof (take_conts_length _ _ _ _ ET) as Hlen.
    pose proof (take_conts_bound _ _ _ _ 1 ET ltac:(lia)) as Hlow.
    rewrite N2Nat.id, N.mul_1_l in Hlow.
    cbv zeta. cbn [fst snd].
    rewrite (N.mod_small k U32) by (unfold U32; lia).
    rewrite (N.mod_small (k + 1) U32) by (unfold U32; lia).
    rewrite <- (N.mod_small k U32) at 3 by (unfold U32; lia).
    rewrite (assemble b k low Hb eq_refl) by lia.
    reflexivity.
  - rewrite (loop_nul_erase _ _ _ _ _ _ 0), (L dec_fuel Hk7).
    destruct (take_conts (N.to_nat k) t 0) as [low|] eqn:ET; [|reflexivity].
    pose proof (take_conts_length _ _ _ _ ET) as Hlen.
    cbn [erase fst snd].
    rewrite (N.mod_small k U32) by (unfold U32; lia).
    rewrite (N.mod_small (k + 1) U32) by (unfold U32; lia).
    reflexivity.
Qed.

(* ------------------------------------------------------------ no over-read *)

Lemma bytes_ok_firstn n s : bytes_ok s -> bytes_ok (firstn n s).
Proof.
  unfold bytes_ok. revert n. induction s as [|a s IH]; intros n H.
  - rewrite firstn_nil. constructor.
  - destruct n; [constructor|]. cbn. inversion H; subst. constructor; auto.
Qed.

Lemma bytes_ok_skipn n s : bytes_ok s -> bytes_ok (skipn n s).
Proof.
  unfold bytes_ok. revert n. induction s as [|a s IH]; intros n H.
  - rewrite skipn_nil. constructor.
  - destruct n; [exact H|]. cbn. inversion H; subst. auto.
Qed.

Lemma bytes_ok_app a b : bytes_ok a -> bytes_ok b -> bytes_ok (a ++ b).
Proof. unfold bytes_ok. intros. apply Forall_app. split; assumption. Qed.

Lemma decode_no_overread s num want :
  num <= N.of_nat (length s) -> bytes_ok s ->
  exists r v, decode s num want = DRet r v.
Proof. intros Hn Hs. rewrite decode_eq_spec by assumption. eauto. Qed.

Lemma spec_decode_window s1 s2 num want :
  firstn (N.to_nat (N.min num 6)) s1 = firstn (N.to_nat (N.min num 6)) s2 ->
  spec_decode s1 num want = spec_decode s2 num want.
Proof. intros H. unfold spec_decode. rewrite H. reflexivity. Qed.

(* The result is a function of the first min(num,6) bytes alone: whatever lies in memory behind
   them (inside or outside the caller's buffer) cannot influence it. *)
Lemma decode_window s1 s2 num want :
  num <= N.of_nat (length s1) -> num <= N.of_nat (length s2) -> bytes_ok s1 -> bytes_ok s2 ->
  firstn (N.to_nat (N.min num 6)) s1 = firstn (N.to_nat (N.min num 6)) s2 ->
  decode s1 num want = decode s2 num want.
Proof.
  intros. rewrite !decode_eq_spec by assumption.
  rewrite (spec_decode_window s1 s2) by assumption. reflexivity.
Qed.

Lemma decode_truncate s num want :
  num <= N.of_nat (length s) -> bytes_ok s ->
  decode s num want = decode (firstn (N.to_nat num) s) num want.
Proof.
  intros Hn Hs. apply decode_window; try assumption.
  - rewrite firstn_length. lia.
  - apply bytes_ok_firstn. exact Hs.
  - rewrite firstn_firstn. f_equal. lia.
Qed.

(* ------------------------------------------------------------ shape of an accepted sequence *)

Lemma window_nth (s : list N) m i : (i < m)%nat ->
  nth_error (firstn m s) i = nth_error s i.
Proof. apply nth_error_firstn_lt. Qed.

Lemma decode_inv s num want r v :
  num <= N.of_nat (length s) -> bytes_ok s ->
  decode s num want = DRet r v -> 0 < r ->
  exists b, nth_error s 0 = Some b /\
    ((0 < b < 128 /\ r = 1 /\ v = (if want then Some b else None)) \/
     (128 <= b < 256 /\ r = nlead b + 1 /\ r <= N.min num 6 /\
      (forall i, 1 <= i < r -> exists c, nth_error s (N.to_nat i) = Some c /\ is_cont c = true) /\
      exists low, take_conts (N.to_nat (nlead b)) (firstn (N.to_nat (N.min num 6) - 1) (tl s)) 0 = Some low /\
                  v = (if want then Some (low + payload b (nlead b) * 64 ^ nlead b) else None))).
Proof.
  intros Hn Hs E Hr. rewrite decode_eq_spec in E by assumption.
  injection E as E1 E2. unfold spec_decode in *.
  set (m := N.to_nat (N.min num 6)) in *.
  destruct (firstn m s) as [|b t] eqn:EW; [cbn in E1; lia|].
  assert (Hm : (0 < m)%nat).
  { destruct m; [cbn in EW; discriminate|lia]. }
  destruct s as [|b' s']; [rewrite firstn_nil in EW; discriminate|].
  rewrite firstn_cons_pos in EW by lia. injection EW as <- Et.
  exists b'. split; [reflexivity|].
  destruct (b' <? 128) eqn:Eb.
  - left. cbn [fst snd] in *. destruct (0 <? b') eqn:E0; [|lia].
    repeat split; try lia. congruence.
  - right.
    assert (Hb : 128 <= b' < 256).
    { split; [lia|]. eapply (bytes_ok_nth _ 0%nat); [exact Hs|reflexivity]. }
    destruct (take_conts (N.to_nat (nlead b')) t 0) as [low|] eqn:ET; [|cbn in E1; lia].
    cbn [fst snd] in *.
    pose proof (take_conts_length _ _ _ _ ET) as Hlen.
    assert (Hlt : (length t <= m - 1)%nat) by (subst t; rewrite firstn_length; lia).
    repeat split; try lia.
    + intros i Hi.
      destruct (take_conts_all _ _ _ _ ET (N.to_nat i - 1)%nat) as [c [Ec Hc]]; [lia|].
      exists c. split; [|exact Hc].
      subst t. rewrite window_nth in Ec by lia.
      replace (N.to_nat i) with (S (N.to_nat i - 1)) by lia. exact Ec.
    + exists low. cbn [tl]. rewrite Et. split; [exact ET|congruence].
Qed.

(* never reports more bytes than are available (nor more than 6) *)
Lemma decode_len_le_num s num want r v :
  num <= N.of_nat (length s) -> bytes_ok s ->
  decode s num want = DRet r v -> r <= num /\ r <= 6.
Proof.
  intros Hn Hs E. destruct (N.eq_dec r 0) as [->|Hr]; [lia|].
  destruct (decode_inv s num want r v Hn Hs E ltac:(lia)) as [b [Eb [H|H]]].
  - destruct (N.eq_dec num 0) as [->|Hz]; [|lia].
    unfold decode, a_utf_decode in E. cbn in E. injection E as E _. lia.
  - lia.
Qed.

(* a multi-byte sequence is accepted only if every trailing byte is a continuation byte 10XXXXXX,
   and the lead byte announces exactly that many *)
Lemma decode_accepts_only_continuations s num want r v :
  num <= N.of_nat (length s) -> bytes_ok s ->
  decode s num want = DRet r v -> 2 <= r ->
  (exists b, nth_error s 0 = Some b /\ 192 <= b < 254 /\ nlead b + 1 = r) /\
  (forall i, 1 <= i < r -> exists c, nth_error s (N.to_nat i) = Some c /\ 128 <= c < 192).
Proof.
  intros Hn Hs E Hr.
  destruct (decode_inv s num want r v Hn Hs E ltac:(lia)) as [b [Eb [H|H]]]; [lia|].
  destruct H as (Hb & Hrk & Hrm & Hall & _).
  split.
  - exists b. split; [exact Eb|].
    destruct (nlead_cases b Hb) as [[E1 R]|[[E1 R]|[[E1 R]|[[E1 R]|[[E1 R]|[[E1 R]|[[E1 R]|[E1 R]]]]]]]]; lia.
  - intros i Hi. destruct (Hall i Hi) as [c [Ec Hc]]. exists c. split; [exact Ec|].
    unfold is_cont in Hc. lia.
Qed.

(* the two branches (val wanted / val == NULL) report the same length *)
Lemma decode_want_irrelevant s num r v :
  num <= N.of_nat (length s) -> bytes_ok s ->
  decode s num true = DRet r v -> decode s num false = DRet r None.
Proof.
  intros Hn Hs E. rewrite decode_eq_spec in * by assumption.
  injection E as E1 E2. unfold spec_decode in *.
  destruct (firstn _ s) as [|b t]; [cbn in *; congruence|].
  destruct (b <? 128); [cbn in *; congruence|].
  destruct (take_conts _ t 0); cbn in *; congruence.
Qed.

(* lead bytes 0xFE / 0xFF (they would announce 6 / 7 continuation bytes) are always rejected:
   this is what the min(num,6) clamp achieves *)
Lemma decode_FE_FF_rejected s num want b :
  num <= N.of_nat (length s) -> bytes_ok s ->
  nth_error s 0 = Some b -> 254 <= b ->
  decode s num want = DRet 0 None.
Proof.
  intros Hn Hs Eb Hb.
  destruct (decode_no_overread s num want Hn Hs) as [r [v E]].
  destruct (N.eq_dec r 0) as [->|Hr].
  - rewrite E. f_equal.
    rewrite decode_eq_spec in E by assumption. injection E as E1 E2. unfold spec_decode in *.
    destruct (firstn _ s) as [|b' t] eqn:EW; [cbn in *; congruence|].
    destruct s as [|b0 s']; [discriminate|]. cbn in Eb. injection Eb as ->.
    destruct (N.to_nat (N.min num 6)) eqn:Em; [discriminate|]. cbn in EW. injection EW as <- _.
    replace (b <? 128) with false in * by lia.
    destruct (take_conts _ t 0); cbn in *; [lia|congruence].
  - destruct (decode_inv s num want r v Hn Hs E ltac:(lia)) as [b' [Eb' [H|H]]];
      rewrite Eb in Eb'; injection Eb' as <-; [lia|].
    destruct H as (Hb' & Hrk & Hrm & _).
    destruct (nlead_cases b Hb') as [[E1 R]|[[E1 R]|[[E1 R]|[[E1 R]|[[E1 R]|[[E1 R]|[[E1 R]|[E1 R]]]]]]]]; lia.
Qed.

(* a stray continuation byte in lead position is taken as a one-byte character with its low 6
   bits (an acceptance the property statement does not exclude: it is not a multi-byte sequence) *)
Lemma decode_stray_continuation s num b :
  1 <= num <= N.of_nat (length s) -> bytes_ok s ->
  nth_error s 0 = Some b -> 128 <= b < 192 ->
  decode s num true = DRet 1 (Some (b mod 64)).
Proof.
  intros Hn Hs Eb Hb. rewrite decode_eq_spec by (assumption || lia). unfold spec_decode.
  destruct s as [|b0 s']; [discriminate|]. cbn in Eb. injection Eb as ->.
  rewrite firstn_cons_pos by lia.
  replace (b <? 128) with false by lia.
  assert (nlead b = 0) as ->.
  { unfold nlead. replace (b <? 0xC0) with true by lia. reflexivity. }
  cbn [N.to_nat take_conts fst snd]. unfold payload.
  change (2 ^ (6 - 0)) with 64. change (64 ^ 0) with 1. f_equal. f_equal. lia.
Qed.
