(* C18 -- a_utf_decode: the loops are characterised exactly by the declarative [spec_decode], which
   only looks at the window of the first min(num,6) bytes; no checked read ever fails, fuel never
   runs out. *)
From Coq Require Import NArith ZArith List Bool Lia ZifyBool ZifyN ZifyNat.
From LibaV Require Import C18.UtfDefs C18.UtfBits.
Import ListNotations.
Local Open Scope N_scope.
Ltac Zify.zify_post_hook ::= Z.div_mod_to_equations.

(* ------------------------------------------------------------ byte-level facts (finite sweeps) *)

Lemma cont_test c : c < 256 -> (N.land c 0xC0 =? 0x80) = is_cont c.
Proof.
  intros H.
  apply (sweep (fun c => Bool.eqb (N.land c 0xC0 =? 0x80) (is_cont c)) 256) in H.
  - apply eqb_prop. exact H.
  - vm_compute. reflexivity.
Qed.

Lemma nlead_le7 b : nlead b <= 7.
Proof. unfold nlead. repeat (destruct (_ <? _)); lia. Qed.

Definition loop_cond_chk (b : N) : bool :=
  (b <? 128) ||
  forallb (fun j => implb (j <=? nlead b)
                          (Bool.eqb (N.land (b * 2 ^ j) 0x40 =? 0) (j =? nlead b))) (upto 8).

(* the loop `for (; chr & 0x40; chr <<= 1)` started on lead byte b runs exactly nlead b times *)
Lemma loop_cond b j : 128 <= b < 256 -> j <= nlead b ->
  (N.land (b * 2 ^ j) 0x40 =? 0) = (j =? nlead b).
Proof.
  intros Hb Hj.
  assert (H : loop_cond_chk b = true).
  { apply (sweep loop_cond_chk 256); [vm_compute; reflexivity|]. change (N.of_nat 256) with 256. lia. }
  unfold loop_cond_chk in H. apply orb_true_iff in H. destruct H as [H|H]; [lia|].
  rewrite forallb_forall in H. specialize (H j).
  assert (Hin : In j (upto 8)).
  { apply upto_In. pose proof (nlead_le7 b). change (N.of_nat 8) with 8. lia. }
  specialize (H Hin). replace (j <=? nlead b) with true in H by lia. cbn [implb] in H.
  apply eqb_prop. exact H.
Qed.

Lemma nlead_cases b : 128 <= b < 256 ->
  (nlead b = 0 /\ 128 <= b < 192) \/ (nlead b = 1 /\ 192 <= b < 224) \/
  (nlead b = 2 /\ 224 <= b < 240) \/ (nlead b = 3 /\ 240 <= b < 248) \/
  (nlead b = 4 /\ 248 <= b < 252) \/ (nlead b = 5 /\ 252 <= b < 254) \/
  (nlead b = 6 /\ b = 254) \/ (nlead b = 7 /\ b = 255).
Proof.
  intros H. unfold nlead.
  destruct (b <? 0xC0) eqn:E1; [lia|]. destruct (b <? 0xE0) eqn:E2; [lia|].
  destruct (b <? 0xF0) eqn:E3; [lia|]. destruct (b <? 0xF8) eqn:E4; [lia|].
  destruct (b <? 0xFC) eqn:E5; [lia|]. destruct (b <? 0xFE) eqn:E6; [lia|].
  destruct (b <? 0xFF) eqn:E7; lia.
Qed.

(* ------------------------------------------------------------ take_conts *)

Lemma take_conts_length k : forall t acc low,
  take_conts k t acc = Some low -> (k <= length t)%nat.
Proof.
  induction k as [|k IH]; intros t acc low H; [lia|].
  destruct t as [|c t]; [discriminate|]. cbn [take_conts] in H.
  destruct (is_cont c); [|discriminate]. apply IH in H. cbn [length]. lia.
Qed.

Lemma take_conts_short k t acc : (length t < k)%nat -> take_conts k t acc = None.
Proof.
  intros H. destruct (take_conts k t acc) eqn:E; [|reflexivity].
  apply take_conts_length in E. lia.
Qed.

Lemma take_conts_bound k : forall t acc low P,
  take_conts k t acc = Some low -> acc < P -> low < P * 64 ^ N.of_nat k.
Proof.
  induction k as [|k IH]; intros t acc low P H HP.
  - cbn in H. injection H as <-. change (64 ^ N.of_nat 0) with 1. lia.
  - destruct t as [|c t]; [discriminate|]. cbn [take_conts] in H.
    destruct (is_cont c); [|discriminate].
    apply (IH _ _ _ (P * 64)) in H; [|lia].
    rewrite Nat2N.inj_succ, N.pow_succ_r'. lia.
Qed.

Lemma take_conts_all k : forall t acc low,
  take_conts k t acc = Some low ->
  forall i, (i < k)%nat -> exists c, nth_error t i = Some c /\ is_cont c = true.
Proof.
  induction k as [|k IH]; intros t acc low H i Hi; [lia|].
  destruct t as [|c t]; [discriminate|]. cbn [take_conts] in H.
  destruct (is_cont c) eqn:E; [|discriminate].
  destruct i as [|i].
  - exists c. split; [reflexivity|exact E].
  - cbn [nth_error]. eapply IH; [exact H|lia].
Qed.

Lemma take_conts_app k : forall t r acc, (k <= length t)%nat ->
  take_conts k (t ++ r) acc = take_conts k t acc.
Proof.
  induction k as [|k IH]; intros t r acc H; [reflexivity|].
  destruct t as [|c t]; [cbn in H; lia|]. cbn [app take_conts].
  destruct (is_cont c); [|reflexivity]. apply IH. cbn in H. lia.
Qed.

(* ------------------------------------------------------------ the two loops *)

Definition erase (r : lres) : lres :=
  match r with LDone c i _ => LDone c i 0 | r => r end.

Lemma loop_nul_erase fuel : forall s avail nul chr i code,
  dec_loop_nul fuel s avail nul chr i = erase (dec_loop_val fuel s avail nul chr i code).
Proof.
  induction fuel as [|f IH]; intros; [reflexivity|].
  cbn [dec_loop_nul dec_loop_val].
  destruct (N.land chr 0x40 =? 0); [reflexivity|].
  destruct (if i + 1 <? nul then rd s avail (i + 1) else Some 0) as [c|]; [|reflexivity].
  destruct (N.land c 0xC0 =? 0x80); [|reflexivity].
  apply IH.
Qed.

Lemma bytes_ok_nth s i c : bytes_ok s -> nth_error s i = Some c -> c < 256.
Proof.
  intros H E. unfold bytes_ok in H. rewrite Forall_forall in H. apply H.
  eapply nth_error_In. exact E.
Qed.

Lemma skipn_short {A} (l : list A) n : (length l <= n)%nat -> skipn n l = [].
Proof. intros H. apply skipn_all2. exact H. Qed.

Lemma loop_val_spec (k : nat) : forall fuel s avail nul b j code P,
  128 <= b < 256 -> bytes_ok s ->
  nul <= avail -> avail <= N.of_nat (length s) -> nul <= 6 ->
  j + N.of_nat k = nlead b -> (k < fuel)%nat -> j < nul ->
  code < P -> P <= 64 ^ j ->
  dec_loop_val fuel s avail nul (b * 2 ^ j) j code =
  match take_conts k (skipn (N.to_nat (j + 1)) (firstn (N.to_nat nul) s)) code with
  | Some low => LDone (b * 2 ^ nlead b) (nlead b) low
  | None => LFail
  end.
Proof.
  induction k as [|k IH]; intros fuel s avail nul b j code P Hb Hs Hna Hal Hn6 Hjk Hf Hjn Hc HP.
  - destruct fuel as [|f]; [lia|]. cbn [dec_loop_val take_conts].
    rewrite loop_cond by lia. assert (j = nlead b) as <- by lia.
    rewrite N.eqb_refl. reflexivity.
  - destruct fuel as [|f]; [lia|]. cbn [dec_loop_val].
    rewrite loop_cond by lia. replace (j =? nlead b) with false by lia.
    destruct (j + 1 <? nul) eqn:Ew.
    + (* the next byte is inside the window *)
      unfold rd. replace (j + 1 <? avail) with true by lia.
      destruct (nth_error_some_lt s (N.to_nat (j + 1))) as [c Ec]; [lia|].
      rewrite Ec.
      assert (Ec' : nth_error (firstn (N.to_nat nul) s) (N.to_nat (j + 1)) = Some c).
      { rewrite nth_error_firstn_lt by lia. exact Ec. }
      rewrite (skipn_nth_cons _ _ _ Ec'). cbn [take_conts].
      rewrite (cont_test c) by (eapply bytes_ok_nth; eauto).
      destruct (is_cont c); [|reflexivity].
      (* arithmetic of the state update *)
      assert (HP4 : P <= 16777216).
      { eapply N.le_trans; [exact HP|]. change 16777216 with (64 ^ 4). apply N.pow_le_mono_r; lia. }
      assert (Echr : N.shiftl (b * 2 ^ j) 1 mod U32 = b * 2 ^ (j + 1)).
      { rewrite shiftl_1, N.pow_add_r. change (2 ^ 1) with 2.
        assert (2 ^ j <= 2 ^ 4) by (apply N.pow_le_mono_r; lia).
        change (2 ^ 4) with 16 in *. unfold U32. rewrite N.mod_small by nia. lia. }
      assert (Ecode : N.lor (N.shiftl code 6 mod U32) (N.land c 0x3F) = code * 64 + c mod 64).
      { rewrite shiftl_6, land_3F. unfold U32. rewrite N.mod_small by lia.
        apply (lor_add (code * 64) (c mod 64) 6); [change (2 ^ 6) with 64; lia|].
        change (2 ^ 6) with 64. lia. }
      rewrite Echr, Ecode.
      replace (S (N.to_nat (j + 1))) with (N.to_nat (j + 1 + 1)) by lia.
      apply (IH f s avail nul b (j + 1) (code * 64 + c mod 64) (P * 64)); try assumption; try lia.
      rewrite N.pow_add_r. change (64 ^ 1) with 64. nia.
    + (* ++str reached nul: c = 0, which is no continuation byte *)
      change (N.land 0 0xC0 =? 0x80) with false. cbn match.
      rewrite skipn_short; [reflexivity|]. rewrite firstn_length. lia.
Qed.

(* ------------------------------------------------------------ the final assembly of the code point *)

Lemma assemble b k low :
  128 <= b < 256 -> nlead b = k -> k <= 5 -> low < 64 ^ k ->
  N.lor low (N.shiftl (N.land (b * 2 ^ k) 0x7F mod U32) (k mod U32 * 5) mod U32)
  = low + payload b k * 64 ^ k.
Proof.
  intros Hb Hk Hk5 Hlow. unfold payload.
  destruct (nlead_cases b Hb) as [[E R]|[[E R]|[[E R]|[[E R]|[[E R]|[[E R]|[[E R]|[E R]]]]]]]];
    rewrite E in Hk; subst k; try lia; rewrite land_7F, N.shiftl_mul_pow2; unfold U32.
  - change (0 mod 4294967296 * 5) with 0. change (2 ^ 0) with 1 in *. change (64 ^ 0) with 1 in *.
    change (2 ^ (6 - 0)) with 64.
    rewrite (N.mod_small (b * 1 mod 128)) by lia. rewrite (N.mod_small (_ * 1)) by lia.
    assert (low = 0) as -> by lia. rewrite N.lor_0_l. lia.
  - change (1 mod 4294967296 * 5) with 5. change (2 ^ 1) with 2. change (64 ^ 1) with 64 in *.
    change (2 ^ 5) with 32. change (2 ^ (6 - 1)) with 32.
    rewrite (N.mod_small (b * 2 mod 128)) by lia. rewrite (N.mod_small (_ * 32)) by lia.
    rewrite (lor_add' low _ 6); [lia|change (2^6) with 64; lia|change (2^6) with 64; lia].
  - change (2 mod 4294967296 * 5) with 10. change (2 ^ 2) with 4. change (64 ^ 2) with 4096 in *.
    change (2 ^ 10) with 1024. change (2 ^ (6 - 2)) with 16.
    rewrite (N.mod_small (b * 4 mod 128)) by lia. rewrite (N.mod_small (_ * 1024)) by lia.
    rewrite (lor_add' low _ 12); [lia|change (2^12) with 4096; lia|change (2^12) with 4096; lia].
  - change (3 mod 4294967296 * 5) with 15. change (2 ^ 3) with 8. change (64 ^ 3) with 262144 in *.
    change (2 ^ 15) with 32768. change (2 ^ (6 - 3)) with 8.
    rewrite (N.mod_small (b * 8 mod 128)) by lia. rewrite (N.mod_small (_ * 32768)) by lia.
    rewrite (lor_add' low _ 18); [lia|change (2^18) with 262144; lia|change (2^18) with 262144; lia].
  - change (4 mod 4294967296 * 5) with 20. change (2 ^ 4) with 16. change (64 ^ 4) with 16777216 in *.
    change (2 ^ 20) with 1048576. change (2 ^ (6 - 4)) with 4.
    rewrite (N.mod_small (b * 16 mod 128)) by lia. rewrite (N.mod_small (_ * 1048576)) by lia.
    rewrite (lor_add' low _ 24); [lia|change (2^24) with 16777216; lia|change (2^24) with 16777216; lia].
  - change (5 mod 4294967296 * 5) with 25. change (2 ^ 5) with 32. change (64 ^ 5) with 1073741824 in *.
    change (2 ^ 25) with 33554432. change (2 ^ (6 - 5)) with 2.
    rewrite (N.mod_small (b * 32 mod 128)) by lia. rewrite (N.mod_small (_ * 33554432)) by lia.
    rewrite (lor_add' low _ 30); [lia|change (2^30) with 1073741824; lia|change (2^30) with 1073741824; lia].
Qed.
