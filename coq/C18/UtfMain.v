(* C18 -- the statements Properties_C18.v closes with `exact`, plus non-vacuity examples. *)
From Coq Require Import NArith ZArith List Bool Lia ZifyBool ZifyN ZifyNat.
From LibaV Require Import C18.UtfDefs C18.UtfBits C18.UtfEncProofs C18.UtfDecProofs
  C18.UtfDecTheorems C18.UtfRoundTrip C18.UtfLenProofs.
Import ListNotations.
Local Open Scope N_scope.
Ltac Zify.zify_post_hook ::= Z.div_mod_to_equations.

Lemma main_encode_length x l :
  0 < x < 2147483648 -> utf8_len x <= N.of_nat (length l) ->
  a_utf_encode x None = ERet (utf8_len x) None /\
  a_utf_encode x (Some l) =
    ERet (utf8_len x) (Some (map Some (utf8_table x) ++ skipn (N.to_nat (utf8_len x)) l)) /\
  N.of_nat (length (utf8_table x)) = utf8_len x.
Proof.
  intros Hx Hl. destruct (encode_then_decode x l Hx Hl) as (bytes & E0 & E1 & -> & Hlen & _).
  auto.
Qed.

Lemma main_encode_overwrite_detected x l :
  0 < x < 2147483648 -> N.of_nat (length l) < utf8_len x -> a_utf_encode x (Some l) = EOver.
Proof.
  intros Hx Hl. unfold a_utf_encode. rewrite land_7FFFFFFF, N.mod_small by lia.
  unfold enc_ladder, utf8_len in *.
  destruct (x <? 0x80) eqn:E1; destruct (x <? 0x800) eqn:E2; destruct (x <? 0x10000) eqn:E3;
    destruct (x <? 0x200000) eqn:E4; destruct (x <? 0x4000000) eqn:E5; try lia;
    try (destruct (0 <? x) eqn:E0; [|lia]);
    repeat (destruct l as [|? l]; [reflexivity|]); cbn [length] in Hl; lia.
Qed.

Lemma main_decode_same_prefix s s' num want :
  num <= N.of_nat (length s) -> bytes_ok s ->
  num <= N.of_nat (length s') -> bytes_ok s' ->
  firstn (N.to_nat num) s' = firstn (N.to_nat num) s ->
  decode s' num want = decode s num want.
Proof.
  intros Hn Hs Hn' Hs' Hpre. apply decode_window; try assumption.
  replace (N.to_nat (N.min num 6)) with (Nat.min (N.to_nat (N.min num 6)) (N.to_nat num)) by lia.
  rewrite <- !firstn_firstn. rewrite Hpre. reflexivity.
Qed.

Lemma main_decode_no_overread s num want :
  num <= N.of_nat (length s) -> bytes_ok s ->
  (exists r v, decode s num want = DRet r v) /\
  (forall s', num <= N.of_nat (length s') -> bytes_ok s' ->
     firstn (N.to_nat num) s' = firstn (N.to_nat num) s ->
     decode s' num want = decode s num want).
Proof.
  intros Hn Hs. split.
  - apply decode_no_overread; assumption.
  - intros. apply main_decode_same_prefix; assumption.
Qed.

(* ---- non-vacuity: concrete non-trivial states satisfying the hypotheses ---- *)

Example ex_codepoint_range : 0 < 0x10FFFF < 2147483648 /\ utf8_len 0x10FFFF = 4.
Proof. split; [lia|reflexivity]. Qed.

Example ex_bytes_ok : bytes_ok [0xF4; 0x8F; 0xBF; 0xBF; 0xC3; 0x28; 0xFE; 0x80].
Proof. unfold bytes_ok. repeat constructor. Qed.

Example ex_encode_6 :
  a_utf_encode 0x7FFFFFFF (Some (repeat None 6)) =
  ERet 6 (Some (map Some [0xFD; 0xBF; 0xBF; 0xBF; 0xBF; 0xBF])).
Proof. reflexivity. Qed.

Example ex_decode_multibyte_accepted :
  decode [0xF4; 0x8F; 0xBF; 0xBF; 0xC3] 5 true = DRet 4 (Some 0x10FFFF).
Proof. reflexivity. Qed.

Example ex_decode_noncontinuation_rejected : decode [0xC3; 0x28] 2 true = DRet 0 None.
Proof. reflexivity. Qed.

Example ex_decode_FE : decode [0xFE; 0x80; 0x80; 0x80; 0x80; 0x80; 0x80; 0x80] 8 true = DRet 0 None.
Proof. reflexivity. Qed.

Example ex_decode_stray : decode [0xA9; 0x41] 2 true = DRet 1 (Some 0x29).
Proof. reflexivity. Qed.

(* the checked accessor is live: a decoder call whose ghost availability is smaller than what the
   code looks at is flagged *)
Example ex_overread_detected : a_utf_decode [0xE2; 0x82; 0xAC] 2 3 true = DOver.
Proof. reflexivity. Qed.
