(* C18 -- a_utf_length_ (the non-validating counter) never reads outside [0,num); on a well-formed
   string (concatenated encodings of code points 1 .. 2^31-1) both counters return the number of
   code points, and a_utf_length stops exactly at the end. *)
From Coq Require Import NArith ZArith List Bool Lia ZifyBool ZifyN ZifyNat.
From LibaV Require Import C18.UtfDefs C18.UtfBits C18.UtfEncProofs C18.UtfDecProofs
  C18.UtfDecTheorems C18.UtfRoundTrip C18.UtfLenProofs.
Import ListNotations.
Local Open Scope N_scope.
Ltac Zify.zify_post_hook ::= Z.div_mod_to_equations.

(* ------------------------------------------------------------ a_utf_length_: no checked read fails *)

Lemma len2_step_range c : 1 <= len2_step c <= 6.
Proof. unfold len2_step. repeat (destruct (_ =? _)); lia. Qed.

Lemma len2_loop_total fuel : forall s avail num pos len,
  avail = num - pos -> avail <= N.of_nat (length s) ->
  (N.to_nat (num - pos) < fuel)%nat ->
  exists l p, len2_loop fuel s avail num pos len = NRet l (Some p).
Proof.
  induction fuel as [|f IH]; intros s avail num pos len Ha Hs Hf; [lia|].
  cbn [len2_loop]. destruct (pos <? num) eqn:E; [|eauto].
  unfold rd. replace (0 <? avail) with true by lia. change (N.to_nat 0) with O.
  destruct s as [|c s']; [cbn in Hs; lia|]. cbn [nth_error].
  destruct (c =? 0); [eauto|].
  pose proof (len2_step_range c) as Hk.
  apply IH; try lia. rewrite skipn_length. lia.
Qed.

Theorem length__no_overread s num :
  num <= N.of_nat (length s) ->
  exists l, a_utf_length_ s num = NRet l None.
Proof.
  intros Hn. unfold a_utf_length_.
  destruct (len2_loop_total (S (N.to_nat num)) s num num 0 0) as (l & p & E); try lia.
  rewrite E. eauto.
Qed.

(* ------------------------------------------------------------ well-formed strings *)

Lemma encode_all_bytes_ok xs : Forall valid_cp xs -> bytes_ok (encode_all xs).
Proof.
  induction 1 as [|x xs Hx _ IH]; [constructor|].
  cbn [encode_all flat_map]. apply bytes_ok_app; [|exact IH].
  apply utf8_table_bytes_ok. unfold valid_cp in Hx. lia.
Qed.

Lemma skipn_app_exact {A} (a b : list A) n : n = length a -> skipn n (a ++ b) = b.
Proof. intros ->. rewrite skipn_app, skipn_all, Nat.sub_diag. reflexivity. Qed.

Lemma walk_encoded xs : Forall valid_cp xs ->
  walk (encode_all xs) (N.of_nat (length (encode_all xs))) (N.of_nat (length xs))
       (N.of_nat (length (encode_all xs))).
Proof.
  induction 1 as [|x xs Hx Hxs IH].
  - cbn. eapply walk_stop. reflexivity.
  - cbn [encode_all flat_map]. fold (encode_all xs).
    set (rest := encode_all xs) in *.
    pose proof (utf8_table_length x) as Hl. pose proof (utf8_len_range x) as Hr.
    rewrite app_length.
    replace (N.of_nat (length (x :: xs))) with (N.of_nat (length xs) + 1) by (cbn [length]; lia).
    replace (N.of_nat (length (utf8_table x) + length rest))
      with (N.of_nat (length rest) + utf8_len x) by lia.
    eapply (walk_step _ _ (utf8_len x) None).
    + rewrite (decode_encode x rest _ false); [reflexivity|exact Hx|apply encode_all_bytes_ok; exact Hxs|].
      rewrite app_length. lia.
    + lia.
    + rewrite skipn_app_exact by lia.
      replace (N.of_nat (length rest) + utf8_len x - utf8_len x) with (N.of_nat (length rest)) by lia.
      exact IH.
Qed.

(* a_utf_length on a well-formed string: the number of code points, stop = the whole length *)
Theorem length_on_encoded xs w :
  Forall valid_cp xs -> N.of_nat (length (encode_all xs)) < SZ ->
  a_utf_length (encode_all xs) (N.of_nat (length (encode_all xs))) w =
  NRet (N.of_nat (length xs)) (if w then Some (N.of_nat (length (encode_all xs))) else None).
Proof.
  intros Hxs Hsz.
  destruct (length_advances (encode_all xs) (N.of_nat (length (encode_all xs))) w)
    as (c & k & E & W & _); [lia|exact Hsz|apply encode_all_bytes_ok; exact Hxs|].
  destruct (walk_functional _ _ _ _ W _ _ (walk_encoded xs Hxs)) as [-> ->].
  exact E.
Qed.

(* ------------------------------------------------------------ a_utf_length_ on a well-formed string *)

Definition len2_class (b : N) : N :=
  if b <? 0xC0 then 1 else if b <? 0xE0 then 2 else if b <? 0xF0 then 3
  else if b <? 0xF8 then 4 else if b <? 0xFC then 5 else if b <? 0xFE then 6 else 1.

Lemma len2_step_class b : b < 256 -> len2_step b = len2_class b.
Proof.
  intros H.
  apply (sweep (fun b => len2_step b =? len2_class b) 256) in H; [lia|].
  vm_compute. reflexivity.
Qed.

Lemma utf8_table_head x : valid_cp x ->
  exists b tl, utf8_table x = b :: tl /\ 0 < b < 256 /\ len2_class b = utf8_len x.
Proof.
  unfold valid_cp. intros Hx. unfold utf8_table, utf8_len, len2_class.
  destruct (x <? 0x80) eqn:E1; destruct (x <? 0x800) eqn:E2; destruct (x <? 0x10000) eqn:E3;
    destruct (x <? 0x200000) eqn:E4; destruct (x <? 0x4000000) eqn:E5; try lia;
    eexists; eexists; (split; [reflexivity|]); (split; [lia|]).
  - replace (x <? 0xC0) with true by lia. reflexivity.
  - replace (192 + x / 64 <? 0xC0) with false by lia. replace (192 + x / 64 <? 0xE0) with true by lia. reflexivity.
  - replace (224 + x / 4096 <? 0xC0) with false by lia. replace (224 + x / 4096 <? 0xE0) with false by lia.
    replace (224 + x / 4096 <? 0xF0) with true by lia. reflexivity.
  - replace (240 + x / 262144 <? 0xC0) with false by lia. replace (240 + x / 262144 <? 0xE0) with false by lia.
    replace (240 + x / 262144 <? 0xF0) with false by lia. replace (240 + x / 262144 <? 0xF8) with true by lia.
    reflexivity.
  - replace (248 + x / 16777216 <? 0xC0) with false by lia. replace (248 + x / 16777216 <? 0xE0) with false by lia.
    replace (248 + x / 16777216 <? 0xF0) with false by lia. replace (248 + x / 16777216 <? 0xF8) with false by lia.
    replace (248 + x / 16777216 <? 0xFC) with true by lia. reflexivity.
  - replace (252 + x / 1073741824 <? 0xC0) with false by lia. replace (252 + x / 1073741824 <? 0xE0) with false by lia.
    replace (252 + x / 1073741824 <? 0xF0) with false by lia. replace (252 + x / 1073741824 <? 0xF8) with false by lia.
    replace (252 + x / 1073741824 <? 0xFC) with false by lia. replace (252 + x / 1073741824 <? 0xFE) with true by lia.
    reflexivity.
Qed.

Lemma len2_loop_encoded xs : forall fuel num pos len,
  Forall valid_cp xs ->
  num = pos + N.of_nat (length (encode_all xs)) ->
  (length xs < fuel)%nat -> len + N.of_nat (length xs) < SZ ->
  len2_loop fuel (encode_all xs) (N.of_nat (length (encode_all xs))) num pos len =
  NRet (len + N.of_nat (length xs)) (Some num).
Proof.
  induction xs as [|x xs IH]; intros fuel num pos len Hxs Hnum Hf Hsz.
  - destruct fuel; [lia|]. cbn in *. replace (pos <? num) with false by lia.
    f_equal; [lia|f_equal; lia].
  - destruct fuel as [|f]; [cbn in Hf; lia|].
    inversion Hxs as [|? ? Hx Hxs']; subst.
    cbn [encode_all flat_map]. fold (encode_all xs). set (rest := encode_all xs) in *.
    destruct (utf8_table_head x Hx) as (b & tl & Et & Hb & Hc).
    pose proof (utf8_table_length x) as Hl. pose proof (utf8_len_range x) as Hr.
    cbn [len2_loop]. rewrite app_length.
    replace (pos <? pos + N.of_nat (length (utf8_table x) + length rest)) with true by lia.
    unfold rd. replace (0 <? N.of_nat (length (utf8_table x) + length rest)) with true by lia.
    change (N.to_nat 0) with O. rewrite Et at 1. cbn [app nth_error].
    replace (b =? 0) with false by lia.
    rewrite len2_step_class by lia. rewrite Hc.
    rewrite skipn_app_exact by lia.
    replace (N.of_nat (length (utf8_table x) + length rest) - utf8_len x) with (N.of_nat (length rest)) by lia.
    replace ((len + 1) mod SZ) with (len + 1) by (unfold SZ in *; cbn [length] in Hsz; lia).
    rewrite IH; try assumption.
    + f_equal. cbn [length]. lia.
    + lia.
    + cbn [length] in Hf. lia.
    + cbn [length] in Hsz. lia.
Qed.

Theorem length__on_encoded xs :
  Forall valid_cp xs -> N.of_nat (length (encode_all xs)) < SZ ->
  a_utf_length_ (encode_all xs) (N.of_nat (length (encode_all xs))) = NRet (N.of_nat (length xs)) None.
Proof.
  intros Hxs Hsz. unfold a_utf_length_.
  assert (Hle : (length xs <= length (encode_all xs))%nat).
  { clear Hsz. induction Hxs as [|x xs Hx _ IH]; [cbn; lia|].
    cbn [encode_all flat_map length]. fold (encode_all xs). rewrite app_length.
    pose proof (utf8_table_length x). pose proof (utf8_len_range x). lia. }
  rewrite (len2_loop_encoded xs _ _ 0 0 Hxs); try lia.
  rewrite N.ltb_irrefl. f_equal.
Qed.

Example valid_example : Forall valid_cp [0x41; 0x20AC; 0x10FFFF; 0x7FFFFFFF].
Proof. unfold valid_cp. repeat constructor; lia. Qed.

Example length__example :
  a_utf_length_ (encode_all [0x41; 0x20AC; 0x10FFFF; 0x7FFFFFFF]) 14 = NRet 4 None.
Proof. reflexivity. Qed.
