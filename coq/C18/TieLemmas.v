(* C18 - vocabulary and lemmas of the translator tie (harness/C18/TieInt*.v).
   The hand model C18/UtfDefs.v speaks of cells `option N` (encode), of a ghost count `avail` of readable bytes (decode,
   length) and of result types eres / dres / nres; the functions tools/c2int.py regenerates from src/utf.c speak of plain
   byte lists and return `option (value * output buffer)`.  The maps below say how a model result reads as such an option
   (or the other way round for encode); the tie theorems are equalities through these maps.  Nothing here mentions
   generated code. *)
From Coq Require Import NArith PeanoNat List Bool Lia.
From LibaV Require Import C18.UtfDefs C19.IntDefs.
From LibaV Require C19.TieLemmas.
Import ListNotations.
Local Open Scope N_scope.

Module T := LibaV.C19.TieLemmas.

(* ---- a_utf_encode: what the model's result must be when the regenerated function returns r for a buffer of written cells *)
Definition enc_of (r : option (N * list N)) : eres :=
  match r with
  | Some (off, b') => ERet off (Some (map Some b'))
  | None => EOver
  end.

(* buf == NULL: the offset only *)
Definition enc_null_of (r : option (N * list N)) : eres :=
  match r with
  | Some (off, _) => ERet off None
  | None => EOver
  end.

(* ---- a_utf_decode: how a model result reads as the regenerated function's (return value, *val cell and what follows it) *)
Definition dec_of (val : list N) (d : dres) : option (N * list N) :=
  match d with
  | DRet r None => Some (r, val)
  | DRet r (Some v) => match val with [] => None | _ :: t => Some (r, v :: t) end
  | DOver | DFuel => None
  end.

(* ---- a_utf_length *)
Definition len_of (stop : list N) (r : nres) : option (N * list N) :=
  match r with
  | NRet n None => Some (n, stop)
  | NRet n (Some k) => match stop with [] => None | _ :: t => Some (n, k :: t) end
  | NOver | NFuel => None
  end.

(* ---- stores *)
Lemma upd_map_Some : forall l i v, (i < length l)%nat ->
  UtfDefs.upd i v (map Some l) = map Some (firstn i l ++ v :: skipn (S i) l).
Proof.
  induction l as [|h t IH]; intros i v H; [cbn in H; lia|].
  destruct i as [|i]; [reflexivity|]. cbn [map UtfDefs.upd firstn skipn app]. rewrite IH by (cbn in H; lia). reflexivity.
Qed.

(* the model's checked store on a buffer whose cells are all written = the translator's checked list update *)
Lemma put_store i v l : put i v (Some (map Some l)) = option_map (map Some) (T.upd l i v).
Proof.
  unfold put. rewrite map_length. destruct (Nat.ltb i (length l)) eqn:E.
  - apply Nat.ltb_lt in E. rewrite T.upd_spec, upd_map_Some by exact E. reflexivity.
  - apply Nat.ltb_ge in E. rewrite T.upd_none by exact E. reflexivity.
Qed.

(* ---- reads: with exactly the bytes of the list available, the model's checked read is the translator's *)
Lemma rd_load s i : rd s (N.of_nat (length s)) i = T.load s i.
Proof.
  unfold rd, T.load. destruct (i <? N.of_nat (length s)) eqn:E; [reflexivity|].
  apply N.ltb_ge in E. symmetry. apply nth_error_None. lia.
Qed.

Lemma skipn_add {A} (l : list A) a b : skipn a (skipn b l) = skipn (b + a) l.
Proof.
  revert l. induction b as [|b IH]; intros l; [reflexivity|]. destruct l as [|h t]; [destruct a; reflexivity|]. apply IH.
Qed.

Lemma wrap32_U32 x : wrap 32 x = x mod U32.
Proof. reflexivity. Qed.

Lemma wrap64_SZ x : wrap 64 x = x mod SZ.
Proof. reflexivity. Qed.
