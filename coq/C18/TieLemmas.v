(* C18 - vocabulary and lemmas of the translator tie (harness/C18/TieInt*.v).
   The hand model C18/UtfDefs.v speaks of cells `option N` (encode), of a ghost count `avail` of readable bytes (decode,
   length) and of result types eres / dres / nres; the functions tools/c2int.py regenerates from src/utf.c speak of plain
   byte lists and return `option (value * output buffer)`.  The maps below say how a model result reads as such an option
   (or the other way round for encode); the tie theorems are equalities through these maps.  Nothing here mentions
   generated code. *)
From Coq Require Import NArith ZArith PeanoNat List Bool Lia.
From LibaV Require Import C18.UtfDefs C18.UtfBits C19.IntDefs.
From LibaV Require C19.TieLemmas.
Import ListNotations.
Local Open Scope N_scope.

Module T := LibaV.C19.TieLemmas.

(* ---- a_utf_encode: what the model's result must be when the regenerated function returns r for a buffer of written cells *)
Definition enc_of (r : option (N * list N)) : eres :=
  match r with
  | Some (off, b') => ERet off (Some (map Some b'))
  | None => EOver
  end.

(* buf == NULL: the offset only *)
Definition enc_null_of (r : option (N * list N)) : eres :=
  match r with
  | Some (off, _) => ERet off None
  | None => EOver
  end.

(* ---- a_utf_decode: how a model result reads as the regenerated function's (return value, *val cell and what follows it) *)
Definition dec_of (val : list N) (d : dres) : option (N * list N) :=
  match d with
  | DRet r None => Some (r, val)
  | DRet r (Some v) => match val with [] => None | _ :: t => Some (r, v :: t) end
  | DOver | DFuel => None
  end.

(* ---- a_utf_length *)
Definition len_of (stop : list N) (r : nres) : option (N * list N) :=
  match r with
  | NRet n None => Some (n, stop)
  | NRet n (Some k) => match stop with [] => None | _ :: t => Some (n, k :: t) end
  | NOver | NFuel => None
  end.

(* ---- stores *)
Lemma upd_map_Some : forall l i v, (i < length l)%nat ->
  UtfDefs.upd i v (map Some l) = map Some (firstn i l ++ v :: skipn (S i) l).
Proof.
  induction l as [|h t IH]; intros i v H; [cbn in H; lia|].
  destruct i as [|i]; [reflexivity|]. cbn [map UtfDefs.upd firstn skipn app]. rewrite IH by (cbn in H; lia). reflexivity.
Qed.

(* the model's checked store on a buffer whose cells are all written = the translator's checked list update *)
Lemma put_store i v l : put i v (Some (map Some l)) = option_map (map Some) (T.upd l i v).
Proof.
  unfold put. rewrite map_length. destruct (Nat.ltb i (length l)) eqn:E.
  - apply Nat.ltb_lt in E. rewrite T.upd_spec, upd_map_Some by exact E. reflexivity.
  - apply Nat.ltb_ge in E. rewrite T.upd_none by exact E. reflexivity.
Qed.

(* ---- reads: with exactly the bytes of the list available, the model's checked read is the translator's *)
Lemma rd_load s i : rd s (N.of_nat (length s)) i = T.load s i.
Proof.
  unfold rd, T.load. destruct (i <? N.of_nat (length s)) eqn:E; [reflexivity|].
  apply N.ltb_ge in E. symmetry. apply nth_error_None. lia.
Qed.

Lemma skipn_add {A} (l : list A) a b : skipn a (skipn b l) = skipn (b + a) l.
Proof.
  revert l. induction b as [|b IH]; intros l; [reflexivity|]. destruct l as [|h t]; [destruct a; reflexivity|]. apply IH.
Qed.

Lemma wrap32_U32 x : wrap 32 x = x mod U32.
Proof. reflexivity. Qed.

Lemma wrap64_SZ x : wrap 64 x = x mod SZ.
Proof. reflexivity. Qed.

(* ---- a_utf_length_ : the bytes are read through plain `char`, i.e. as values in -128 .. 127; c2int carries them in Z
   (sext, the same text as in its prelude) and the masks / comparisons of the C are Z.land / Z.eqb on those *)
Definition sext (w c : N) : Z := if c <? 2 ^ (w - 1) then Z.of_N c else (Z.of_N c - Z.of_N (2 ^ w))%Z.

(* the cascade `if ((c & 0xFE) == 0xFC) 6 else if ((c & 0xFC) == 0xF8) 5 ...` (c the char at str) on the signed value of the byte *)
Definition gstep (c : N) : N :=
  if Z.eqb (Z.land (sext 8 c) (Z.of_N 254)) (Z.of_N 252) then 6
  else if Z.eqb (Z.land (sext 8 c) (Z.of_N 252)) (Z.of_N 248) then 5
  else if Z.eqb (Z.land (sext 8 c) (Z.of_N 248)) (Z.of_N 240) then 4
  else if Z.eqb (Z.land (sext 8 c) (Z.of_N 240)) (Z.of_N 224) then 3
  else if Z.eqb (Z.land (sext 8 c) (Z.of_N 224)) (Z.of_N 192) then 2
  else 1.

(* for every byte the signed reading decides as the model's unsigned one (256-element sweep, lifted by UtfBits.sweep) *)
Lemma gstep_eq c : c < 256 -> gstep c = len2_step c.
Proof.
  intros H. change 256 with (N.of_nat 256) in H.
  apply (sweep (fun b => gstep b =? len2_step b) 256) in H; [apply N.eqb_eq, H|]. vm_compute. reflexivity.
Qed.

Lemma sext_zero c : c < 256 -> Z.eqb (sext 8 c) 0 = (c =? 0).
Proof.
  intros H. change 256 with (N.of_nat 256) in H.
  apply (sweep (fun b => Bool.eqb (Z.eqb (sext 8 b) 0) (b =? 0)) 256) in H; [apply Bool.eqb_prop, H|]. vm_compute. reflexivity.
Qed.

Definition len2_of (r : nres) : option N :=
  match r with
  | NRet n _ => Some n
  | NOver | NFuel => None
  end.

Lemma load_skipn : forall l p i, T.load (skipn p l) i = T.load l (N.of_nat p + i).
Proof.
  unfold T.load. intros l p i. replace (N.to_nat (N.of_nat p + i)) with (p + N.to_nat i)%nat by lia.
  revert l. induction p as [|p IH]; intros l; [reflexivity|]. destruct l as [|h t]; [destruct (N.to_nat i); reflexivity|]. apply IH.
Qed.

(* ---- more bytes available than the ghost count says: a run of the model that did not fail a read stays the same.
   (Used where a caller states num bytes inside a longer block: coq/C06 a_utf_len.) *)
Lemma rd_mono s a a' i c : a <= a' -> rd s a i = Some c -> rd s a' i = Some c.
Proof.
  unfold rd. intros H. destruct (i <? a) eqn:E; [|discriminate].
  apply N.ltb_lt in E. replace (i <? a') with true by (symmetry; apply N.ltb_lt; lia). exact (fun x => x).
Qed.

Lemma dec_loop_val_mono a a' : a <= a' -> forall fuel s nul chr i code r,
  dec_loop_val fuel s a nul chr i code = r -> r <> LOver -> dec_loop_val fuel s a' nul chr i code = r.
Proof.
  intros H. induction fuel as [|f IH]; intros s nul chr i code r E Hr; [exact E|].
  cbn [dec_loop_val] in *. cbv zeta in *. destruct (N.land chr 64 =? 0); [exact E|].
  destruct (i + 1 <? nul).
  - destruct (rd s a (i + 1)) as [c|] eqn:R; [|congruence]. rewrite (rd_mono _ _ _ _ _ H R).
    destruct (N.land c 192 =? 128); [apply IH; assumption|exact E].
  - destruct (N.land 0 192 =? 128); [apply IH; assumption|exact E].
Qed.

Lemma dec_loop_nul_mono a a' : a <= a' -> forall fuel s nul chr i r,
  dec_loop_nul fuel s a nul chr i = r -> r <> LOver -> dec_loop_nul fuel s a' nul chr i = r.
Proof.
  intros H. induction fuel as [|f IH]; intros s nul chr i r E Hr; [exact E|].
  cbn [dec_loop_nul] in *. cbv zeta in *. destruct (N.land chr 64 =? 0); [exact E|].
  destruct (i + 1 <? nul).
  - destruct (rd s a (i + 1)) as [c|] eqn:R; [|congruence]. rewrite (rd_mono _ _ _ _ _ H R).
    destruct (N.land c 192 =? 128); [apply IH; assumption|exact E].
  - destruct (N.land 0 192 =? 128); [apply IH; assumption|exact E].
Qed.

Lemma decode_mono s a a' num want r v : a <= a' ->
  a_utf_decode s a num want = DRet r v -> a_utf_decode s a' num want = DRet r v.
Proof.
  intros H. unfold a_utf_decode. destruct (num =? 0); [exact (fun x => x)|].
  destruct (rd s a 0) as [chr|] eqn:R; [|discriminate]. rewrite (rd_mono _ _ _ _ _ H R).
  destruct (chr <? 128); [exact (fun x => x)|]. cbv zeta.
  destruct want.
  - destruct (dec_loop_val dec_fuel s a _ chr 0 0) as [| | |c' i' code'] eqn:L; try discriminate;
      rewrite (dec_loop_val_mono a a' H _ _ _ _ _ _ _ L) by discriminate; exact (fun x => x).
  - destruct (dec_loop_nul dec_fuel s a _ chr 0) as [| | |c' i' code'] eqn:L; try discriminate;
      rewrite (dec_loop_nul_mono a a' H _ _ _ _ _ _ L) by discriminate; exact (fun x => x).
Qed.

Lemma len_loop_mono w : forall f s a a' num pos len n k, a <= a' ->
  len_loop f s a num pos len w = NRet n k -> len_loop f s a' num pos len w = NRet n k.
Proof.
  induction f as [|f IH]; intros s a a' num pos len n k H; [discriminate|].
  cbn [len_loop]. destruct (a_utf_decode s a num false) as [| |off v] eqn:D; try discriminate.
  rewrite (decode_mono _ _ _ _ _ _ _ H D). destruct (off =? 0); [exact (fun x => x)|].
  apply IH. lia.
Qed.
