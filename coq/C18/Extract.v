(* C18: extraction of the executable model (ExtrOcamlBasic only). *)
Require Extraction.
Require Import ExtrOcamlBasic.
From LibaV Require Import C18.UtfDefs.
Extraction "C18/extracted/utf.ml" a_utf_encode a_utf_decode decode a_utf_length a_utf_length_.
