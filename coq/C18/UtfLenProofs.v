(* C18 -- a_utf_length: the counter advances by exactly the lengths a_utf_decode reports and stops at
   the first position where the decoder reports 0 (end of buffer, NUL, or undecodable). *)
From Coq Require Import NArith ZArith List Bool Lia ZifyBool ZifyN ZifyNat.
From LibaV Require Import C18.UtfDefs C18.UtfBits C18.UtfDecProofs C18.UtfDecTheorems.
Import ListNotations.
Local Open Scope N_scope.
Ltac Zify.zify_post_hook ::= Z.div_mod_to_equations.

Lemma walk_functional s num c k : walk s num c k ->
  forall c' k', walk s num c' k' -> c = c' /\ k = k'.
Proof.
  induction 1 as [s num v E|s num r v c k E Hr W IH]; intros c' k' W'.
  - inversion W' as [? ? v' E'|? ? r' v' c0 k0 E' Hr' W0]; subst; [split; reflexivity|].
    rewrite E in E'. injection E' as <- _. lia.
  - inversion W' as [? ? v' E'|? ? r' v' c0 k0 E' Hr' W0]; subst.
    + rewrite E in E'. injection E' as -> _. lia.
    + rewrite E in E'. injection E' as <- _.
      destruct (IH _ _ W0) as [-> ->]. split; reflexivity.
Qed.

Lemma len_loop_spec fuel : forall s num pos len w,
  num <= N.of_nat (length s) -> bytes_ok s ->
  (N.to_nat num < fuel)%nat -> len + num < SZ ->
  exists c k,
    len_loop fuel s num num pos len w = NRet (len + c) (if w then Some (pos + k) else None) /\
    walk s num c k /\ k <= num /\ c <= k.
Proof.
  induction fuel as [|f IH]; intros s num pos len w Hn Hs Hf Hsz; [lia|].
  cbn [len_loop]. fold (decode s num false).
  destruct (decode_no_overread s num false Hn Hs) as [r [v E]]. rewrite E.
  destruct (N.eqb_spec r 0) as [->|Hr].
  - exists 0, 0. rewrite !N.add_0_r. repeat split; try lia.
    eapply walk_stop. exact E.
  - destruct (decode_len_le_num s num false r v Hn Hs E) as [Hrn Hr6].
    assert (E1 : (num + SZ - r) mod SZ = num - r) by (unfold SZ in *; lia).
    assert (E2 : (len + 1) mod SZ = len + 1) by (unfold SZ in *; lia).
    rewrite E1, E2.
    destruct (IH (skipn (N.to_nat r) s) (num - r) (pos + r) (len + 1) w) as (c & k & EL & W & Hk & Hc).
    + rewrite skipn_length. lia.
    + apply bytes_ok_skipn. exact Hs.
    + lia.
    + lia.
    + exists (c + 1), (k + r). rewrite EL. repeat split; try lia.
      * f_equal; [lia|]. destruct w; [f_equal; lia|reflexivity].
      * eapply walk_step; eauto. lia.
Qed.

Theorem length_advances s num w :
  num <= N.of_nat (length s) -> num < SZ -> bytes_ok s ->
  exists c k,
    a_utf_length s num w = NRet c (if w then Some k else None) /\
    walk s num c k /\ k <= num /\ c <= k.
Proof.
  intros Hn Hsz Hs. unfold a_utf_length.
  destruct (len_loop_spec (S (N.to_nat num)) s num 0 0 w Hn Hs ltac:(lia) ltac:(lia))
    as (c & k & E & W & Hk & Hc).
  exists c, k. rewrite E, !N.add_0_l. auto.
Qed.

(* where the walk stops: the decoder reports 0 exactly in these situations *)
Lemma decode_zero_cases s num v :
  num <= N.of_nat (length s) -> bytes_ok s ->
  decode s num false = DRet 0 v ->
  num = 0 \/ nth_error s 0 = Some 0 \/
  exists b, nth_error s 0 = Some b /\ 128 <= b < 256 /\
            take_conts (N.to_nat (nlead b)) (firstn (N.to_nat (N.min num 6) - 1) (tl s)) 0 = None.
Proof.
  intros Hn Hs E. rewrite decode_eq_spec in E by assumption. injection E as E1 E2.
  destruct (N.eq_dec num 0) as [->|Hz]; [left; reflexivity|right].
  unfold spec_decode in *.
  destruct s as [|b s']; [cbn in Hn; lia|].
  rewrite firstn_cons_pos in * by lia.
  destruct (b <? 128) eqn:Eb.
  - left. cbn [fst] in E1. destruct (0 <? b) eqn:E0; [lia|]. cbn. f_equal. lia.
  - right. exists b. split; [reflexivity|]. split.
    + split; [lia|]. eapply (bytes_ok_nth _ 0%nat); [exact Hs|reflexivity].
    + cbn [tl]. destruct (take_conts _ _ 0); [cbn in E1; lia|reflexivity].
Qed.

Example length_example :
  a_utf_length [0xE2; 0x82; 0xAC; 0x41; 0; 0x41] 6 true = NRet 2 (Some 4).
Proof. reflexivity. Qed.

Example walk_example : walk [0xE2; 0x82; 0xAC; 0x41; 0; 0x41] 6 2 4.
Proof.
  refine (walk_step _ 6 3 None 1 1 _ _ _); [reflexivity|lia|].
  refine (walk_step _ 3 1 None 0 0 _ _ _); [reflexivity|lia|].
  refine (walk_stop _ 2 None _). reflexivity.
Qed.
