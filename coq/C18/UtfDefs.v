(* C18 -- executable Gallina model of /repo/src/utf.c  (NO proofs in this file).

   Conventions of the model
   * machine integers are N; a wrap is written out where the C type wraps
     (`chr <<= 1` on unsigned int, `code << 6` on a_u32, `num -= offset` on a_size);
   * memory that a pointer `str` points to is the list `s` of the bytes from `str` onwards;
     `++str` / `str += k` is `skipn`; bytes are N (a well-formed byte is < 256);
   * every read goes through the checked accessor [rd s avail i]: it FAILS ([None], surfacing
     as [DOver]/[NOver]) when i >= avail, where [avail] is ghost state: the number of bytes the
     caller really made available at `str`.  It is not the C variable `num` (which the code
     may clamp or, in a_utf_length, decrement with wrap-around);
   * every write of a_utf_encode goes through the checked [put] into a buffer of the capacity
     the caller supplied; cells are [option N], [None] = never written;
   * loops with no structural argument take fuel and return an explicit out-of-fuel value. *)

From Coq Require Import NArith List Bool.
Import ListNotations.
Local Open Scope N_scope.

Definition U32 : N := 4294967296.                (* 2^32 : unsigned int, a_u32 *)
Definition SZ  : N := 18446744073709551616.      (* 2^64 : a_size              *)

(* ------------------------------------------------------------------ a_utf_encode *)

(* the range ladder, utf.c:8-49 : (offset, mask) *)
Definition enc_ladder (x : N) : N * N :=
  if x <? 0x0010000 then
    if x <? 0x0000800 then
      if x <? 0x0000080 then ((if 0 <? x then 1 else 0), 0)   (* offset = x > 0 *)
      else (2, 0xC0)
    else (3, 0xE0)
  else
    if x <? 0x0200000 then (4, 0xF0)
    else
      if x <? 0x4000000 then (5, 0xF8)
      else (6, 0xFC).

Definition cell := option N.                      (* None = not written *)

Fixpoint upd (i : nat) (v : N) (l : list cell) : list cell :=
  match l, i with
  | [], _ => []
  | _ :: t, O => Some v :: t
  | h :: t, S i' => h :: upd i' v t
  end.

(* checked store str[i] = v : None = write outside the caller's buffer *)
Definition put (i : nat) (v : N) (b : option (list cell)) : option (list cell) :=
  match b with
  | None => None
  | Some l => if Nat.ltb i (length l) then Some (upd i v l) else None
  end.

Definition as_byte (v : N) : N := v mod 256.      (* (a_byte) cast *)
Definition cont_byte (x : N) : N := as_byte (N.lor 0x80 (N.land x 0x3F)).

(* the fall-through switch, utf.c:53-80; case k falls into case k-1 with x >>= 6 *)
Definition sw1 (mask x : N) (b : option (list cell)) := put 0 (as_byte (N.lor mask x)) b.
Definition sw2 (mask x : N) (b : option (list cell)) := sw1 mask (N.shiftr x 6) (put 1 (cont_byte x) b).
Definition sw3 (mask x : N) (b : option (list cell)) := sw2 mask (N.shiftr x 6) (put 2 (cont_byte x) b).
Definition sw4 (mask x : N) (b : option (list cell)) := sw3 mask (N.shiftr x 6) (put 3 (cont_byte x) b).
Definition sw5 (mask x : N) (b : option (list cell)) := sw4 mask (N.shiftr x 6) (put 4 (cont_byte x) b).
Definition sw6 (mask x : N) (b : option (list cell)) := sw5 mask (N.shiftr x 6) (put 5 (cont_byte x) b).

Definition enc_switch (offset mask x : N) (b : option (list cell)) : option (list cell) :=
  match offset with
  | 6 => sw6 mask x b
  | 5 => sw5 mask x b
  | 4 => sw4 mask x b
  | 3 => sw3 mask x b
  | 2 => sw2 mask x b
  | 1 => sw1 mask x b
  | _ => b                                        (* default: break *)
  end.

Inductive eres :=
| EOver                                           (* a store outside the supplied buffer *)
| ERet (offset : N) (buf : option (list cell)).

(* buf = None is the C's buf == NULL; Some l is a buffer of (length l) bytes *)
Definition a_utf_encode (val : N) (buf : option (list cell)) : eres :=
  let x := N.land val 0x7FFFFFFF in
  let '(offset, mask) := enc_ladder x in
  match buf with
  | None => ERet offset None
  | Some l =>
    match enc_switch offset mask x (Some l) with
    | None => EOver
    | Some l' => ERet offset (Some l')
    end
  end.

(* ------------------------------------------------------------------ a_utf_decode *)

(* checked read of str[i] *)
Definition rd (s : list N) (avail i : N) : option N :=
  if i <? avail then nth_error s (N.to_nat i) else None.

Inductive lres :=
| LOver                                           (* checked read failed *)
| LFuel
| LFail                                           (* return 0 inside the loop *)
| LDone (chr i code : N).                         (* loop left normally; i = str - ptr *)

(* utf.c:104-109, the loop of the `val != NULL` branch.
   nul is the index of `nul` relative to ptr, i the index of str. *)
Fixpoint dec_loop_val (fuel : nat) (s : list N) (avail nul chr i code : N) : lres :=
  match fuel with
  | O => LFuel
  | S f =>
    if N.land chr 0x40 =? 0 then LDone chr i code
    else
      let i' := i + 1 in                                            (* ++str *)
      match (if i' <? nul then rd s avail i' else Some 0) with      (* ++str < nul ? *str : 0 *)
      | None => LOver
      | Some c =>
        if N.land c 0xC0 =? 0x80
        then dec_loop_val f s avail nul
               (N.shiftl chr 1 mod U32)                             (* chr <<= 1 (unsigned int) *)
               i'
               (N.lor (N.shiftl code 6 mod U32) (N.land c 0x3F))    (* (code << 6) | (c & 0x3F) *)
        else LFail
      end
  end.

(* utf.c:117-121, the loop of the `val == NULL` branch *)
Fixpoint dec_loop_nul (fuel : nat) (s : list N) (avail nul chr i : N) : lres :=
  match fuel with
  | O => LFuel
  | S f =>
    if N.land chr 0x40 =? 0 then LDone chr i 0
    else
      let i' := i + 1 in
      match (if i' <? nul then rd s avail i' else Some 0) with
      | None => LOver
      | Some c =>
        if N.land c 0xC0 =? 0x80
        then dec_loop_nul f s avail nul (N.shiftl chr 1 mod U32) i'
        else LFail
      end
  end.

Inductive dres :=
| DOver                                           (* the decoder read a byte it was not given *)
| DFuel
| DRet (ret : N) (val : option N).                (* val = Some v iff *val was stored *)

Definition dec_fuel : nat := 8.

(* s = memory at ptr, avail = ghost (bytes really readable at ptr), num = the C argument,
   want = (val != NULL) *)
Definition a_utf_decode (s : list N) (avail num : N) (want : bool) : dres :=
  if num =? 0 then DRet 0 None
  else
    match rd s avail 0 with
    | None => DOver
    | Some chr =>
      if chr <? 0x80
      then DRet (if 0 <? chr then 1 else 0) (if want then Some chr else None)
      else
        let num' := if 6 <? num then 6 else num in
        if want then
          match dec_loop_val dec_fuel s avail num' chr 0 0 with
          | LOver => DOver
          | LFuel => DFuel
          | LFail => DRet 0 None
          | LDone chr' i code =>
            let offset := i mod U32 in
            let code' := N.lor code (N.shiftl (N.land chr' 0x7F mod U32) (offset * 5) mod U32) in
            DRet ((offset + 1) mod U32) (Some code')
          end
        else
          match dec_loop_nul dec_fuel s avail num' chr 0 with
          | LOver => DOver
          | LFuel => DFuel
          | LFail => DRet 0 None
          | LDone _ i _ => DRet ((i mod U32 + 1) mod U32) None
          end
    end.

(* the API-level call: the caller states num bytes and exactly those are available *)
Definition decode (s : list N) (num : N) (want : bool) : dres := a_utf_decode s num num want.

(* ------------------------------------------------------------------ a_utf_length *)

Inductive nres :=
| NOver
| NFuel
| NRet (length : N) (stop : option N).            (* stop = Some k iff *stop was stored *)

Fixpoint len_loop (fuel : nat) (s : list N) (avail num pos length : N) (wantstop : bool) : nres :=
  match fuel with
  | O => NFuel
  | S f =>
    match a_utf_decode s avail num false with
    | DOver => NOver
    | DFuel => NFuel
    | DRet offset _ =>
      if offset =? 0 then NRet length (if wantstop then Some pos else None)
      else len_loop f
             (skipn (N.to_nat offset) s)          (* str += offset *)
             (avail - offset)                     (* ghost: what is left of the buffer *)
             ((num + SZ - offset) mod SZ)         (* num -= offset  (a_size, wraps) *)
             (pos + offset)
             ((length + 1) mod SZ)                (* ++length *)
             wantstop
    end
  end.

Definition a_utf_length (s : list N) (num : N) (wantstop : bool) : nres :=
  len_loop (S (N.to_nat num)) s num num 0 0 wantstop.

(* ------------------------------------------------------------------ a_utf_length_ *)
(* `*str` is a (signed) char there; `*str & 0xFE` etc. only look at the low 8 bits, which are
   those of the unsigned byte, so the model uses the unsigned byte. *)

Definition len2_step (c : N) : N :=
  if N.land c 0xFE =? 0xFC then 6
  else if N.land c 0xFC =? 0xF8 then 5
  else if N.land c 0xF8 =? 0xF0 then 4
  else if N.land c 0xF0 =? 0xE0 then 3
  else if N.land c 0xE0 =? 0xC0 then 2
  else 1.

Fixpoint len2_loop (fuel : nat) (s : list N) (avail num pos length : N) : nres :=
  match fuel with
  | O => NFuel
  | S f =>
    if pos <? num then
      match rd s avail 0 with
      | None => NOver
      | Some c =>
        if c =? 0 then NRet length (Some pos)
        else let k := len2_step c in
             len2_loop f (skipn (N.to_nat k) s) (avail - k) num (pos + k) ((length + 1) mod SZ)
      end
    else NRet length (Some pos)
  end.

(* the final `if (str - ptr > num) --length` *)
Definition a_utf_length_ (s : list N) (num : N) : nres :=
  match len2_loop (S (N.to_nat num)) s num num 0 0 with
  | NRet length (Some pos) =>
    NRet (if num <? pos then (length + SZ - 1) mod SZ else length) None
  | r => r
  end.

(* ------------------------------------------------------------------ specification side *)
(* The UTF-8 table of include/a/utf.h written with div/mod (used by the theorems and, extracted,
   by nothing: the search oracle has its own independent implementation). *)

Definition utf8_len (x : N) : N :=
  if x <? 0x80 then 1
  else if x <? 0x800 then 2
  else if x <? 0x10000 then 3
  else if x <? 0x200000 then 4
  else if x <? 0x4000000 then 5
  else 6.

Definition cb (d : N) : N := 128 + d mod 64.      (* 10XXXXXX *)

Definition utf8_table (x : N) : list N :=
  if x <? 0x80 then [x]
  else if x <? 0x800 then [192 + x / 64; cb x]
  else if x <? 0x10000 then [224 + x / 4096; cb (x / 64); cb x]
  else if x <? 0x200000 then [240 + x / 262144; cb (x / 4096); cb (x / 64); cb x]
  else if x <? 0x4000000 then [248 + x / 16777216; cb (x / 262144); cb (x / 4096); cb (x / 64); cb x]
  else [252 + x / 1073741824; cb (x / 16777216); cb (x / 262144); cb (x / 4096); cb (x / 64); cb x].

(* the bytes a_utf_encode stores for val into a buffer of exactly cap cells *)
Definition enc_cells (val cap : N) : option (list cell) :=
  match a_utf_encode val (Some (repeat None (N.to_nat cap))) with
  | ERet _ (Some l) => Some l
  | _ => None
  end.

Definition is_cont (c : N) : bool := (128 <=? c) && (c <? 192).

(* number of continuation bytes a lead byte 0x80..0xFF asks for: the run of 1-bits from bit 6 down *)
Definition nlead (b : N) : N :=
  if b <? 0xC0 then 0
  else if b <? 0xE0 then 1
  else if b <? 0xF0 then 2
  else if b <? 0xF8 then 3
  else if b <? 0xFC then 4
  else if b <? 0xFE then 5
  else if b <? 0xFF then 6
  else 7.

Fixpoint take_conts (k : nat) (t : list N) (acc : N) : option N :=
  match k with
  | O => Some acc
  | S k' =>
    match t with
    | c :: t' => if is_cont c then take_conts k' t' (acc * 64 + c mod 64) else None
    | [] => None
    end
  end.

(* the XXX bits of a lead byte that announces k continuation bytes *)
Definition payload (b k : N) : N := b mod 2 ^ (6 - k).

(* declarative decoder: looks at the window of the first min(num,6) bytes only *)
Definition spec_decode (s : list N) (num : N) (want : bool) : N * option N :=
  match firstn (N.to_nat (N.min num 6)) s with
  | [] => (0, None)
  | b :: t =>
    if b <? 128 then ((if 0 <? b then 1 else 0), (if want then Some b else None))
    else
      let k := nlead b in
      match take_conts (N.to_nat k) t 0 with
      | None => (0, None)
      | Some low =>
        (k + 1, if want then Some (low + payload b k * 64 ^ k) else None)
      end
  end.

(* ------------------------------------------------------------------ vocabulary of the theorems *)

Definition bytes_ok (s : list N) : Prop := Forall (fun b => b < 256) s.

(* walk s num c k : starting at s with num bytes left, a_utf_decode (val == NULL) reports c positive
   lengths r1 .. rc, each at the position reached by the previous ones, and then reports 0;
   k = r1 + .. + rc.  (What a_utf_length is specified to compute.) *)
Inductive walk : list N -> N -> N -> N -> Prop :=
| walk_stop s num v :
    decode s num false = DRet 0 v -> walk s num 0 0
| walk_step s num r v c k :
    decode s num false = DRet r v -> 0 < r ->
    walk (skipn (N.to_nat r) s) (num - r) c k ->
    walk s num (c + 1) (k + r).

Definition valid_cp (x : N) : Prop := 0 < x < 2147483648.
Definition encode_all (xs : list N) : list N := flat_map utf8_table xs.
