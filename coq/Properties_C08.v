(* C08 - LU, LDL^T and Cholesky factorisations reconstruct, solve and fail correctly.

   Every theorem below is about the Gallina model coq/C08/FactorDefs.v of src/linalg_plu.c,
   src/linalg_ldl.c, src/linalg_llt.c instantiated with the real numbers (R_ops tiny, tiny =
   A_REAL_MIN = any positive real), for EVERY order n and EVERY input array of n*n reals.  The
   same Gallina term, instantiated with IEEE binary64, is compared bit for bit with the compiled
   C on every run of checks/C08.py.
   Reading aids (defined in coq/C08/Base.v, PluTheorems.v, LdlLltTheorems.v, PermProofs.v):
     mg n M r c      = cell (r,c) of the flat row-major array M           rsum f k = sum_{i<k} f i
     mmul n X Y r c  = (X Y)(r,c)                                         rprod f k = prod_{i<k} f i
     Lf m / Uf m     = unit lower / upper triangle of the in-place storage m
     Ltf m           = lower triangle with diagonal (Cholesky factor)
     symc a          = the lower triangle of a completed symmetrically (all that LDL/LLT read)
     perm_sign p     = (-1)^(number of inversions of p), the parity of the permutation p
     "= Some ..."    = the modelled code terminated without any out-of-bounds access
     return code 0   = A_SUCCESS, 1 = A_FAILURE.

   FULL PROPERTY vs WHAT IS PROVED.  The property asks that the factors multiply back to the
   input, and that solve / inverse / determinant satisfy their residual bounds, "within the
   standard componentwise rounding bound" in floating point.  What is proved here is the
   exact-arithmetic core (residual exactly 0 over the reals): these theorems carry the suffix
   _partial.  Missing from them: the floating-point error analysis, i.e.
       |P A - L U| <= gamma_n |L||U|,   |b - A x| <= gamma_3n |P^T||L||U||x|,  etc.
   (gamma_k = k u / (1 - k u), u = 2^-53) for the binary64 instance.  Those bounds are MEASURED on
   every run by the exact-rational oracle harness/C08/oracle.py on the C output, not proved.
   The shape and failure clauses (permutation, parity = sign, |multipliers| <= 1, pivots >= tiny,
   positive Cholesky diagonal, failure on exactly singular / non-positive inputs, consistency of
   det / lndet / sgndet) are exact statements and are proved in full for the real instance. *)
From Coq Require Import ZArith List Reals Permutation.
From LibaV Require Import C08.NumOps C08.FactorDefs C08.Instances C08.Base C08.PermProofs C08.DetProofs
  C08.PluSteps C08.PluProofs C08.SolveProofs C08.PluTheorems C08.LdlLltProofs C08.LdlLltTheorems
  C08.InvProofs C08.DetTheorems C08.Examples.
Local Open Scope R_scope.

(* ===================================================================================== PLU *)

(* a_real_plu always terminates inside its buffers with A_SUCCESS or A_FAILURE *)
Theorem plu_total : forall tiny, 0 < tiny -> forall n (A : list R), length A = (n * n)%nat ->
  forall p0 : list nat, length p0 = n ->
  exists rc st, plu (R_ops tiny) n A p0 = Some (rc, st) /\ (rc = 0%nat \/ rc = 1%nat) /\
                length (pA st) = (n * n)%nat /\ length (pp st) = n.
Proof. exact C08.PluTheorems.plu_total. Qed.
Print Assumptions plu_total.

(* success => p is a true permutation, sign is its parity, multipliers bounded by one, pivots >= tiny *)
Theorem plu_shape : forall tiny, 0 < tiny -> forall n (A : list R), length A = (n * n)%nat ->
  forall p0 : list nat, length p0 = n ->
  forall st, plu (R_ops tiny) n A p0 = Some (0%nat, st) ->
  Permutation (pp st) (seq 0 n) /\ psign st = perm_sign (pp st) /\
  (forall r c, (c < r < n)%nat -> Rabs (mg n (pA st) r c) <= 1) /\
  (forall i, (i < n)%nat -> tiny <= Rabs (mg n (pA st) i i)).
Proof. exact C08.PluTheorems.plu_shape. Qed.
Print Assumptions plu_shape.

(* success => P A = L U, with P, L, U as produced by a_real_plu_P / _L / _U *)
Theorem plu_reconstruct_partial : forall tiny, 0 < tiny -> forall n (A : list R), length A = (n * n)%nat ->
  forall p0 : list nat, length p0 = n ->
  forall st (P0 L0 U0 : list R),
  length P0 = (n * n)%nat -> length L0 = (n * n)%nat -> length U0 = (n * n)%nat ->
  plu (R_ops tiny) n A p0 = Some (0%nat, st) ->
  exists P L U,
    plu_P (R_ops tiny) n (pp st) P0 = Some P /\ plu_L (R_ops tiny) n (pA st) L0 = Some L /\
    plu_U (R_ops tiny) n (pA st) U0 = Some U /\
    forall r c, (r < n)%nat -> (c < n)%nat -> mmul n (mg n P) (mg n A) r c = mmul n (mg n L) (mg n U) r c.
Proof. exact C08.PluTheorems.plu_reconstruct. Qed.
Print Assumptions plu_reconstruct_partial.

(* success => a_real_plu_solve returns x with A x = b, for every right-hand side *)
Theorem plu_solve_partial : forall tiny, 0 < tiny -> forall n (A : list R), length A = (n * n)%nat ->
  forall p0 : list nat, length p0 = n ->
  forall st (b x0 : list R), plu (R_ops tiny) n A p0 = Some (0%nat, st) -> length b = n -> length x0 = n ->
  exists x, plu_solve (R_ops tiny) n (pA st) (pp st) b x0 = Some x /\ length x = n /\
    forall r, (r < n)%nat -> rsum (fun c => mg n A r c * nth c x 0) n = nth r b 0.
Proof. exact C08.PluTheorems.plu_solve_correct. Qed.
Print Assumptions plu_solve_partial.

(* success => a_real_plu_inv and the strided in-place a_real_plu_inv_ return X with A X = I *)
Theorem plu_inv_partial : forall tiny, 0 < tiny -> forall n (A : list R), length A = (n * n)%nat ->
  forall p0 : list nat, length p0 = n ->
  forall st, plu (R_ops tiny) n A p0 = Some (0%nat, st) ->
  forall b0 X0 : list R, length b0 = n -> length X0 = (n * n)%nat ->
  exists b X, plu_inv (R_ops tiny) n (pA st) (pp st) b0 X0 = Some (b, X) /\ length X = (n * n)%nat /\
    forall r c, (r < n)%nat -> (c < n)%nat -> rsum (fun j => mg n A r j * mg n X j c) n = delta r c.
Proof. exact C08.InvProofs.plu_inv_correct. Qed.
Print Assumptions plu_inv_partial.

Theorem plu_inv_strided_partial : forall tiny, 0 < tiny -> forall n (A : list R), length A = (n * n)%nat ->
  forall p0 : list nat, length p0 = n ->
  forall st, plu (R_ops tiny) n A p0 = Some (0%nat, st) ->
  forall X0 : list R, length X0 = (n * n)%nat ->
  exists X, plu_inv_ (R_ops tiny) n (pA st) (pp st) X0 = Some X /\ length X = (n * n)%nat /\
    forall r c, (r < n)%nat -> (c < n)%nat -> rsum (fun j => mg n A r j * mg n X j c) n = delta r c.
Proof. exact C08.InvProofs.plu_inv__correct. Qed.
Print Assumptions plu_inv_strided_partial.

(* det = sign * prod u_ii <> 0, lndet = ln |det|, sgndet = sgn det *)
Theorem plu_det_lndet_sgndet_agree : forall tiny, 0 < tiny -> forall n (A : list R), length A = (n * n)%nat ->
  forall (p0 : list nat) st, length p0 = n -> plu (R_ops tiny) n A p0 = Some (0%nat, st) ->
  exists d, plu_det (R_ops tiny) n (pA st) (psign st) = Some d /\
            d = IZR (psign st) * rprod (fun i => mg n (pA st) i i) n /\ d <> 0 /\
            plu_lndet (R_ops tiny) n (pA st) = Some (Rpower.ln (Rabs d)) /\
            plu_sgndet (R_ops tiny) n (pA st) (psign st) = Some (sgnZ d).
Proof. exact C08.DetTheorems.plu_det_family. Qed.
Print Assumptions plu_det_lndet_sgndet_agree.

(* exactly singular inputs are reported as failure: a zero column ... *)
Theorem plu_zero_column_fails : forall tiny, 0 < tiny -> forall n (A : list R), length A = (n * n)%nat ->
  forall p0 : list nat, length p0 = n ->
  forall c rc st, (c < n)%nat -> (forall r, (r < n)%nat -> mg n A r c = 0) ->
  plu (R_ops tiny) n A p0 = Some (rc, st) -> rc = 1%nat.
Proof. exact C08.PluTheorems.plu_zero_column_fails. Qed.
Print Assumptions plu_zero_column_fails.

(* ... duplicated rows ... *)
Theorem plu_duplicate_rows_fail : forall tiny, 0 < tiny -> forall n (A : list R), length A = (n * n)%nat ->
  forall p0 : list nat, length p0 = n ->
  forall r1 r2 rc st, (r1 < n)%nat -> (r2 < n)%nat -> r1 <> r2 ->
  (forall c, (c < n)%nat -> mg n A r1 c = mg n A r2 c) ->
  plu (R_ops tiny) n A p0 = Some (rc, st) -> rc = 1%nat.
Proof. exact C08.PluTheorems.plu_duplicate_rows_fail. Qed.
Print Assumptions plu_duplicate_rows_fail.

(* ... and failure is only ever reported when, at some step j, the whole pivot column of the
   correctly reduced matrix (the invariant PInv holds for the j steps done) is below the threshold *)
Theorem plu_failure_means_vanishing_pivot_column : forall tiny, 0 < tiny -> forall n (A : list R),
  length A = (n * n)%nat -> forall p0 : list nat, length p0 = n ->
  forall st, plu (R_ops tiny) n A p0 = Some (1%nat, st) ->
  exists j, (j < n)%nat /\ PInv tiny n (mg n A) j st /\
            forall r, (j <= r < n)%nat -> Rabs (mg n (pA st) r j) < tiny.
Proof. exact C08.PluTheorems.plu_failure_inv. Qed.
Print Assumptions plu_failure_means_vanishing_pivot_column.

(* ===================================================================================== LDL *)

Theorem ldl_total : forall tiny, 0 < tiny -> forall n (A : list R), length A = (n * n)%nat ->
  exists rc M, ldl (R_ops tiny) n A = Some (rc, M) /\ (rc = 0%nat \/ rc = 1%nat) /\ length M = (n * n)%nat.
Proof. exact C08.LdlLltTheorems.ldl_total. Qed.
Print Assumptions ldl_total.

(* success => A = L D L^T on the triangle the code reads; every pivot d_c is the quantity the
   recurrence defines from the columns before it and is bounded away from zero: a vanishing
   pivot never yields factors *)
Theorem ldl_reconstruct_partial : forall tiny, 0 < tiny -> forall n (A : list R), length A = (n * n)%nat ->
  forall M, ldl (R_ops tiny) n A = Some (0%nat, M) ->
  (forall r c, (c <= r)%nat -> (r < n)%nat ->
     mg n A r c = rsum (fun i => Lf (mg n M) r i * mg n M i i * Lf (mg n M) c i) n) /\
  (forall c, (c < n)%nat -> tiny <= Rabs (mg n M c c) /\
                            mg n M c c = mg n A c c - ldl_dot (mg n M) c c).
Proof. exact C08.LdlLltTheorems.ldl_reconstruct. Qed.
Print Assumptions ldl_reconstruct_partial.

Theorem ldl_solve_partial : forall tiny, 0 < tiny -> forall n (A : list R), length A = (n * n)%nat ->
  forall M b, ldl (R_ops tiny) n A = Some (0%nat, M) -> length b = n ->
  exists x, ldl_solve (R_ops tiny) n M b = Some x /\ length x = n /\
    forall r, (r < n)%nat -> rsum (fun c => symc (mg n A) r c * nth c x 0) n = nth r b 0.
Proof. exact C08.LdlLltTheorems.ldl_solve_correct. Qed.
Print Assumptions ldl_solve_partial.

Theorem ldl_inv_partial : forall tiny, 0 < tiny -> forall n (A : list R), length A = (n * n)%nat ->
  forall M, ldl (R_ops tiny) n A = Some (0%nat, M) ->
  forall b0 X0 : list R, length b0 = n -> length X0 = (n * n)%nat ->
  exists b X, ldl_inv (R_ops tiny) n M b0 X0 = Some (b, X) /\ length X = (n * n)%nat /\
    forall r c, (r < n)%nat -> (c < n)%nat -> rsum (fun j => symc (mg n A) r j * mg n X j c) n = delta r c.
Proof. exact C08.InvProofs.ldl_inv_correct. Qed.
Print Assumptions ldl_inv_partial.

Theorem ldl_inv_strided_partial : forall tiny, 0 < tiny -> forall n (A : list R), length A = (n * n)%nat ->
  forall M, ldl (R_ops tiny) n A = Some (0%nat, M) ->
  forall X0 : list R, length X0 = (n * n)%nat ->
  exists X, ldl_inv_ (R_ops tiny) n M X0 = Some X /\ length X = (n * n)%nat /\
    forall r c, (r < n)%nat -> (c < n)%nat -> rsum (fun j => symc (mg n A) r j * mg n X j c) n = delta r c.
Proof. exact C08.InvProofs.ldl_inv__correct. Qed.
Print Assumptions ldl_inv_strided_partial.

Theorem ldl_det_lndet_sgndet_agree : forall tiny, 0 < tiny -> forall n (A : list R), length A = (n * n)%nat ->
  forall M, ldl (R_ops tiny) n A = Some (0%nat, M) ->
  exists d, ldl_det (R_ops tiny) n M = Some d /\ d = rprod (fun i => mg n M i i) n /\ d <> 0 /\
            ldl_lndet (R_ops tiny) n M = Some (Rpower.ln (Rabs d)) /\
            ldl_sgndet (R_ops tiny) n M = Some (sgnZ d).
Proof. exact C08.DetTheorems.ldl_det_family. Qed.
Print Assumptions ldl_det_lndet_sgndet_agree.

(* an exactly singular symmetric input is reported as failure *)
Theorem ldl_singular_fails : forall tiny, 0 < tiny -> forall n (A : list R), length A = (n * n)%nat ->
  forall (x : nat -> R) i rc M, (i < n)%nat -> x i <> 0 ->
  (forall r, (r < n)%nat -> rsum (fun c => symc (mg n A) r c * x c) n = 0) ->
  ldl (R_ops tiny) n A = Some (rc, M) -> rc = 1%nat.
Proof. exact C08.LdlLltTheorems.ldl_singular_fails. Qed.
Print Assumptions ldl_singular_fails.

(* failure is only reported when a pivot, computed from correctly factored columns, is below tiny *)
Theorem ldl_failure_means_vanishing_pivot : forall tiny, 0 < tiny -> forall n (A : list R),
  length A = (n * n)%nat -> forall M, ldl (R_ops tiny) n A = Some (1%nat, M) ->
  exists c M0, (c < n)%nat /\ LdlInv tiny n (mg n A) c M0 /\
               Rabs (mg n A c c - ldl_dot (mg n M0) c c) < tiny.
Proof. exact C08.LdlLltTheorems.ldl_failure_inv. Qed.
Print Assumptions ldl_failure_means_vanishing_pivot.

(* ===================================================================================== LLT *)

Theorem llt_total : forall tiny, 0 < tiny -> forall n (A : list R), length A = (n * n)%nat ->
  exists rc M, llt (R_ops tiny) n A = Some (rc, M) /\ (rc = 0%nat \/ rc = 1%nat) /\ length M = (n * n)%nat.
Proof. exact C08.LdlLltTheorems.llt_total. Qed.
Print Assumptions llt_total.

(* success => A = L L^T on the triangle the code reads, strictly positive diagonal, and every
   Cholesky pivot a_rr - sum_{i<r} l_ri^2 is >= tiny: a non-positive pivot never yields factors *)
Theorem llt_reconstruct_partial : forall tiny, 0 < tiny -> forall n (A : list R), length A = (n * n)%nat ->
  forall M, llt (R_ops tiny) n A = Some (0%nat, M) ->
  (forall r c, (c <= r)%nat -> (r < n)%nat ->
     mg n A r c = rsum (fun i => Ltf (mg n M) r i * Ltf (mg n M) c i) n) /\
  (forall r, (r < n)%nat ->
     0 < mg n M r r /\
     tiny <= mg n A r r - rsum (fun i => mg n M r i * mg n M r i) r /\
     mg n M r r * mg n M r r = mg n A r r - rsum (fun i => mg n M r i * mg n M r i) r).
Proof. exact C08.LdlLltTheorems.llt_reconstruct. Qed.
Print Assumptions llt_reconstruct_partial.

Theorem llt_solve_partial : forall tiny, 0 < tiny -> forall n (A : list R), length A = (n * n)%nat ->
  forall M b, llt (R_ops tiny) n A = Some (0%nat, M) -> length b = n ->
  exists x, llt_solve (R_ops tiny) n M b = Some x /\ length x = n /\
    forall r, (r < n)%nat -> rsum (fun c => symc (mg n A) r c * nth c x 0) n = nth r b 0.
Proof. exact C08.LdlLltTheorems.llt_solve_correct. Qed.
Print Assumptions llt_solve_partial.

Theorem llt_inv_partial : forall tiny, 0 < tiny -> forall n (A : list R), length A = (n * n)%nat ->
  forall M, llt (R_ops tiny) n A = Some (0%nat, M) ->
  forall b0 X0 : list R, length b0 = n -> length X0 = (n * n)%nat ->
  exists b X, llt_inv (R_ops tiny) n M b0 X0 = Some (b, X) /\ length X = (n * n)%nat /\
    forall r c, (r < n)%nat -> (c < n)%nat -> rsum (fun j => symc (mg n A) r j * mg n X j c) n = delta r c.
Proof. exact C08.InvProofs.llt_inv_correct. Qed.
Print Assumptions llt_inv_partial.

Theorem llt_inv_strided_partial : forall tiny, 0 < tiny -> forall n (A : list R), length A = (n * n)%nat ->
  forall M, llt (R_ops tiny) n A = Some (0%nat, M) ->
  forall X0 : list R, length X0 = (n * n)%nat ->
  exists X, llt_inv_ (R_ops tiny) n M X0 = Some X /\ length X = (n * n)%nat /\
    forall r c, (r < n)%nat -> (c < n)%nat -> rsum (fun j => symc (mg n A) r j * mg n X j c) n = delta r c.
Proof. exact C08.InvProofs.llt_inv__correct. Qed.
Print Assumptions llt_inv_strided_partial.

Theorem llt_det_lndet_agree : forall tiny, 0 < tiny -> forall n (A : list R), length A = (n * n)%nat ->
  forall M, llt (R_ops tiny) n A = Some (0%nat, M) ->
  exists d, llt_det (R_ops tiny) n M = Some d /\ d = (rprod (fun i => mg n M i i) n) ^ 2 /\ 0 < d /\
            llt_lndet (R_ops tiny) n M = Some (Rpower.ln d).
Proof. exact C08.DetTheorems.llt_det_family. Qed.
Print Assumptions llt_det_lndet_agree.

(* inputs that are not positive (semi)definite are reported as failure: a negative value of the
   quadratic form, or a diagonal entry below the threshold (in particular <= 0) *)
Theorem llt_indefinite_fails : forall tiny, 0 < tiny -> forall n (A : list R), length A = (n * n)%nat ->
  forall (x : nat -> R) rc M,
  rsum (fun r => x r * rsum (fun c => symc (mg n A) r c * x c) n) n < 0 ->
  llt (R_ops tiny) n A = Some (rc, M) -> rc = 1%nat.
Proof. exact C08.LdlLltTheorems.llt_indefinite_fails. Qed.
Print Assumptions llt_indefinite_fails.

Theorem llt_small_diagonal_fails : forall tiny, 0 < tiny -> forall n (A : list R), length A = (n * n)%nat ->
  forall r rc M, (r < n)%nat -> mg n A r r < tiny ->
  llt (R_ops tiny) n A = Some (rc, M) -> rc = 1%nat.
Proof. exact C08.LdlLltTheorems.llt_small_diagonal_fails. Qed.
Print Assumptions llt_small_diagonal_fails.

(* failure is only reported when the pivot of some row, computed from correctly factored rows, is < tiny *)
Theorem llt_failure_means_small_pivot : forall tiny, 0 < tiny -> forall n (A : list R),
  length A = (n * n)%nat -> forall M, llt (R_ops tiny) n A = Some (1%nat, M) ->
  exists r M0 M1, (r < n)%nat /\ LltInv tiny n (mg n A) r M0 /\
    (forall c, (c < r)%nat -> mg n A r c = rsum (fun i => mg n M1 r i * mg n M0 c i) (S c)) /\
    llt_pivot n (mg n A) M1 r < tiny.
Proof. exact C08.LdlLltTheorems.llt_failure_inv. Qed.
Print Assumptions llt_failure_means_small_pivot.

(* ============================================================================ non-vacuity *)
(* The hypotheses "... = Some (0, st)" / "... = Some (1, st)" are satisfiable: C08/Examples.v
   evaluates the real instance on a 2x2 input that needs a row exchange (plu_2x2_swap), on
   symmetric 2x2 inputs (ldl_2x2, llt_2x2) and on failing inputs (plu_2x2_duplicate_rows_fails,
   ldl_2x2_zero_pivot_fails, llt_1x1_nonpositive_fails). *)

(* ============================================================ rounding model: the triangular solves
   The theorems above are exact-arithmetic statements.  The ones below are about the SAME Gallina model instantiated
   with [Rnd8_ops rnd tiny] (coq/C08/RoundSolve.v): every add/sub/mul/div is the exact real operation followed by a
   rounding function rnd, assumed only to satisfy the standard model of floating-point arithmetic with gradual underflow
       std_model rnd eps eta :  |rnd x - x| <= eps |x| + eta,  rnd 0 = 0,  0 <= eps < 1/4,  0 <= eta
   (coq/Common/RoundOps.v; IEEE binary64 round-to-nearest-even satisfies it with eps = 2^-53, eta = 2^-1075 by Flocq,
   coq/Common/RoundFlocq.v std_model_binary64; overflow is outside the model).  For EVERY order n they give the classical
   result (Higham, Accuracy and Stability of Numerical Algorithms, Thm 8.5): the computed solution of a triangular system has a
   componentwise residual of at most gamma_k (|T||x^|) + O(n) eta with k <= n, equivalently it solves a system with
   componentwise perturbed matrix (T + dT), |dT| <= gamma_k |T|, exactly (up to a right-hand-side perturbation
   O(n) eta due to underflow, 0 when eta = 0).
       gamma eps k = k eps / (1 - k eps)                     isum f lo hi = sum_{lo <= j < hi} f j
   SCOPE.  Only the substitutions (a_real_plu_lower/upper, a_real_ldl_lower/upper, a_real_llt_lower/upper and their
   compositions a_real_plu_solve / ldl_solve / llt_solve for GIVEN factors) are covered.  The backward error of the
   factorisations themselves (|PA - LU| <= gamma_n |L||U| etc.), hence of solve/inverse with respect to the ORIGINAL
   matrix A, stays measured by the exact-rational oracle: the _partial suffixes above remain. *)
From LibaV Require Import Common.RoundOps Common.RoundFlocq C08.RoundSolve C08.RoundSolve64.

(* unit lower triangular forward substitution (a_real_plu_lower = a_real_ldl_lower), row r: gamma_r *)
Theorem C08_lower_solve_backward_error : forall rnd eps eta tiny, std_model rnd eps eta ->
  forall n (L b : list R), length L = (n * n)%nat -> length b = n -> INR n * eps < 1 ->
  exists yh, plu_lower (Rnd8_ops rnd tiny) n L b = Some yh /\ length yh = n /\
    forall r, (r < n)%nat ->
      Rabs (nth r b 0 - (rsum (fun c => mg n L r c * nth c yh 0) r + nth r yh 0))
      <= gamma eps r * (rsum (fun c => Rabs (mg n L r c) * Rabs (nth c yh 0)) r + Rabs (nth r yh 0))
         + 3 * INR r * (1 + gamma eps r) * eta.
Proof. exact C08.RoundSolve.lower_solve_backward_error. Qed.
Print Assumptions C08_lower_solve_backward_error.

(* upper triangular back substitution with division by the diagonal (a_real_plu_upper), row r: gamma_(n-r) *)
Theorem C08_upper_solve_backward_error : forall rnd eps eta tiny, std_model rnd eps eta ->
  forall n (U b : list R), length U = (n * n)%nat -> length b = n ->
  (forall r, (r < n)%nat -> mg n U r r <> 0) -> INR n * eps < 1 ->
  exists xh, plu_upper (Rnd8_ops rnd tiny) n U b = Some xh /\ length xh = n /\
    forall r, (r < n)%nat ->
      Rabs (nth r b 0 - isum (fun c => mg n U r c * nth c xh 0) r n)
      <= gamma eps (n - r) * isum (fun c => Rabs (mg n U r c) * Rabs (nth c xh 0)) r n
         + (3 * INR (n - r) + Rabs (mg n U r r)) * (1 + gamma eps (n - r)) * eta.
Proof. exact C08.RoundSolve.upper_solve_backward_error. Qed.
Print Assumptions C08_upper_solve_backward_error.

(* the same two results as statements about a perturbed system solved EXACTLY:
   (L + dL) y^ = b + db  with unit-diagonal L (the diagonal 1 is perturbed to 1 + dL r r),  (U + dU) x^ = b + db *)
Theorem C08_lower_solve_perturbed_system : forall rnd eps eta tiny, std_model rnd eps eta ->
  forall n (L b : list R), length L = (n * n)%nat -> length b = n -> INR n * eps < 1 ->
  exists yh (dL : nat -> nat -> R) (db : nat -> R), plu_lower (Rnd8_ops rnd tiny) n L b = Some yh /\ length yh = n /\
    forall r, (r < n)%nat ->
      (forall c, (c < r)%nat -> Rabs (dL r c) <= gamma eps r * Rabs (mg n L r c)) /\
      Rabs (dL r r) <= gamma eps r /\
      Rabs (db r) <= 3 * INR r * (1 + gamma eps r) * eta /\
      rsum (fun c => (mg n L r c + dL r c) * nth c yh 0) r + (1 + dL r r) * nth r yh 0 = nth r b 0 + db r.
Proof. exact C08.RoundSolve.lower_solve_perturbed. Qed.
Print Assumptions C08_lower_solve_perturbed_system.

Theorem C08_upper_solve_perturbed_system : forall rnd eps eta tiny, std_model rnd eps eta ->
  forall n (U b : list R), length U = (n * n)%nat -> length b = n ->
  (forall r, (r < n)%nat -> mg n U r r <> 0) -> INR n * eps < 1 ->
  exists xh (dU : nat -> nat -> R) (db : nat -> R), plu_upper (Rnd8_ops rnd tiny) n U b = Some xh /\ length xh = n /\
    forall r, (r < n)%nat ->
      (forall c, (r <= c)%nat -> Rabs (dU r c) <= gamma eps (n - r) * Rabs (mg n U r c)) /\
      Rabs (db r) <= (3 * INR (n - r) + Rabs (mg n U r r)) * (1 + gamma eps (n - r)) * eta /\
      isum (fun c => (mg n U r c + dU r c) * nth c xh 0) r n = nth r b 0 + db r.
Proof. exact C08.RoundSolve.upper_solve_perturbed. Qed.
Print Assumptions C08_upper_solve_perturbed_system.

(* the Cholesky substitutions: L y = b (a_real_llt_lower, row r: gamma_(r+1)) and L^T x = y (a_real_llt_upper, the
   column of L walked with stride n, row c: gamma_(n-c)) *)
Theorem C08_llt_lower_solve_backward_error : forall rnd eps eta tiny, std_model rnd eps eta ->
  forall n (L b : list R), length L = (n * n)%nat -> length b = n ->
  (forall r, (r < n)%nat -> mg n L r r <> 0) -> INR n * eps < 1 ->
  exists yh, llt_lower (Rnd8_ops rnd tiny) n L b = Some yh /\ length yh = n /\
    forall r, (r < n)%nat ->
      Rabs (nth r b 0 - rsum (fun c => mg n L r c * nth c yh 0) (S r))
      <= gamma eps (S r) * rsum (fun c => Rabs (mg n L r c) * Rabs (nth c yh 0)) (S r)
         + (3 * INR (S r) + Rabs (mg n L r r)) * (1 + gamma eps (S r)) * eta.
Proof. exact C08.RoundSolve.llt_lower_solve_backward_error. Qed.
Print Assumptions C08_llt_lower_solve_backward_error.

Theorem C08_llt_upper_solve_backward_error : forall rnd eps eta tiny, std_model rnd eps eta ->
  forall n (L b : list R), length L = (n * n)%nat -> length b = n ->
  (forall r, (r < n)%nat -> mg n L r r <> 0) -> INR n * eps < 1 ->
  exists xh, llt_upper (Rnd8_ops rnd tiny) n L b = Some xh /\ length xh = n /\
    forall c, (c < n)%nat ->
      Rabs (nth c b 0 - isum (fun r => mg n L r c * nth r xh 0) c n)
      <= gamma eps (n - c) * isum (fun r => Rabs (mg n L r c) * Rabs (nth r xh 0)) c n
         + (3 * INR (n - c) + Rabs (mg n L c c)) * (1 + gamma eps (n - c)) * eta.
Proof. exact C08.RoundSolve.llt_upper_solve_backward_error. Qed.
Print Assumptions C08_llt_upper_solve_backward_error.

(* D L^T x = y as a_real_ldl_upper computes it (x_c /= d_c FIRST, then the subtractions), row c: gamma_(n-c) *)
Theorem C08_ldl_upper_solve_backward_error : forall rnd eps eta tiny, std_model rnd eps eta ->
  forall n (L b : list R), length L = (n * n)%nat -> length b = n ->
  (forall r, (r < n)%nat -> mg n L r r <> 0) -> INR n * eps < 1 ->
  exists xh, ldl_upper (Rnd8_ops rnd tiny) n L b = Some xh /\ length xh = n /\
    forall c, (c < n)%nat ->
      Rabs (nth c b 0 - mg n L c c * (nth c xh 0 + isum (fun r => mg n L r c * nth r xh 0) (c + 1) n))
      <= Rabs (mg n L c c) *
         (gamma eps (n - c) * (Rabs (nth c xh 0) + isum (fun r => Rabs (mg n L r c) * Rabs (nth r xh 0)) (c + 1) n)
          + 3 * INR (n - c) * (1 + gamma eps (n - c)) * eta).
Proof. exact C08.RoundSolve.ldl_upper_solve_backward_error. Qed.
Print Assumptions C08_ldl_upper_solve_backward_error.

(* a_real_plu_solve on GIVEN in-place factors A (strict lower part = L, upper part = U) and permutation vector p:
   L y^ = P b and U x^ = y^ each to within its backward error *)
Theorem C08_plu_solve_stages_backward_error : forall rnd eps eta tiny, std_model rnd eps eta ->
  forall n (A : list R) (p : list nat) (b x0 Pb : list R),
  length A = (n * n)%nat -> plu_apply n p b x0 = Some Pb -> length Pb = n ->
  (forall r, (r < n)%nat -> mg n A r r <> 0) -> INR n * eps < 1 ->
  exists yh xh, plu_lower (Rnd8_ops rnd tiny) n A Pb = Some yh /\
    plu_solve (Rnd8_ops rnd tiny) n A p b x0 = Some xh /\ length xh = n /\
    (forall r, (r < n)%nat ->
      Rabs (nth r Pb 0 - (rsum (fun c => mg n A r c * nth c yh 0) r + nth r yh 0))
      <= gamma eps r * (rsum (fun c => Rabs (mg n A r c) * Rabs (nth c yh 0)) r + Rabs (nth r yh 0))
         + 3 * INR r * (1 + gamma eps r) * eta) /\
    (forall r, (r < n)%nat ->
      Rabs (nth r yh 0 - isum (fun c => mg n A r c * nth c xh 0) r n)
      <= gamma eps (n - r) * isum (fun c => Rabs (mg n A r c) * Rabs (nth c xh 0)) r n
         + (3 * INR (n - r) + Rabs (mg n A r r)) * (1 + gamma eps (n - r)) * eta).
Proof. exact C08.RoundSolve.plu_solve_backward_error. Qed.
Print Assumptions C08_plu_solve_stages_backward_error.

(* a_real_ldl_solve on GIVEN in-place factors: L y^ = b, D L^T x^ = y^ *)
Theorem C08_ldl_solve_stages_backward_error : forall rnd eps eta tiny, std_model rnd eps eta ->
  forall n (A b : list R), length A = (n * n)%nat -> length b = n ->
  (forall r, (r < n)%nat -> mg n A r r <> 0) -> INR n * eps < 1 ->
  exists yh xh, ldl_lower (Rnd8_ops rnd tiny) n A b = Some yh /\
    ldl_solve (Rnd8_ops rnd tiny) n A b = Some xh /\ length xh = n /\
    (forall r, (r < n)%nat ->
      Rabs (nth r b 0 - (rsum (fun c => mg n A r c * nth c yh 0) r + nth r yh 0))
      <= gamma eps r * (rsum (fun c => Rabs (mg n A r c) * Rabs (nth c yh 0)) r + Rabs (nth r yh 0))
         + 3 * INR r * (1 + gamma eps r) * eta) /\
    (forall c, (c < n)%nat ->
      Rabs (nth c yh 0 - mg n A c c * (nth c xh 0 + isum (fun r => mg n A r c * nth r xh 0) (c + 1) n))
      <= Rabs (mg n A c c) *
         (gamma eps (n - c) * (Rabs (nth c xh 0) + isum (fun r => Rabs (mg n A r c) * Rabs (nth r xh 0)) (c + 1) n)
          + 3 * INR (n - c) * (1 + gamma eps (n - c)) * eta)).
Proof. exact C08.RoundSolve.ldl_solve_backward_error. Qed.
Print Assumptions C08_ldl_solve_stages_backward_error.

(* a_real_llt_solve on a GIVEN in-place Cholesky factor: L y^ = b, L^T x^ = y^ *)
Theorem C08_llt_solve_stages_backward_error : forall rnd eps eta tiny, std_model rnd eps eta ->
  forall n (A b : list R), length A = (n * n)%nat -> length b = n ->
  (forall r, (r < n)%nat -> mg n A r r <> 0) -> INR n * eps < 1 ->
  exists yh xh, llt_lower (Rnd8_ops rnd tiny) n A b = Some yh /\
    llt_solve (Rnd8_ops rnd tiny) n A b = Some xh /\ length xh = n /\
    (forall r, (r < n)%nat ->
      Rabs (nth r b 0 - rsum (fun c => mg n A r c * nth c yh 0) (S r))
      <= gamma eps (S r) * rsum (fun c => Rabs (mg n A r c) * Rabs (nth c yh 0)) (S r)
         + (3 * INR (S r) + Rabs (mg n A r r)) * (1 + gamma eps (S r)) * eta) /\
    (forall c, (c < n)%nat ->
      Rabs (nth c yh 0 - isum (fun r => mg n A r c * nth r xh 0) c n)
      <= gamma eps (n - c) * isum (fun r => Rabs (mg n A r c) * Rabs (nth r xh 0)) c n
         + (3 * INR (n - c) + Rabs (mg n A c c)) * (1 + gamma eps (n - c)) * eta).
Proof. exact C08.RoundSolve.llt_solve_backward_error. Qed.
Print Assumptions C08_llt_solve_stages_backward_error.

(* IEEE binary64 (u = eps64 = 2^-53, eta64 = 2^-1075), every order n < 2^53 *)
Theorem C08_lower_solve_binary64 : forall tiny n (L b : list R),
  length L = (n * n)%nat -> length b = n -> (Z.of_nat n < 2 ^ 53)%Z ->
  exists yh, plu_lower (Rnd8_ops rnd64 tiny) n L b = Some yh /\ length yh = n /\
    forall r, (r < n)%nat ->
      Rabs (nth r b 0 - (rsum (fun c => mg n L r c * nth c yh 0) r + nth r yh 0))
      <= gamma eps64 r * (rsum (fun c => Rabs (mg n L r c) * Rabs (nth c yh 0)) r + Rabs (nth r yh 0))
         + 3 * INR r * (1 + gamma eps64 r) * eta64.
Proof. exact C08.RoundSolve64.lower_solve_binary64. Qed.
Print Assumptions C08_lower_solve_binary64.

Theorem C08_upper_solve_binary64 : forall tiny n (U b : list R),
  length U = (n * n)%nat -> length b = n -> (forall r, (r < n)%nat -> mg n U r r <> 0) -> (Z.of_nat n < 2 ^ 53)%Z ->
  exists xh, plu_upper (Rnd8_ops rnd64 tiny) n U b = Some xh /\ length xh = n /\
    forall r, (r < n)%nat ->
      Rabs (nth r b 0 - isum (fun c => mg n U r c * nth c xh 0) r n)
      <= gamma eps64 (n - r) * isum (fun c => Rabs (mg n U r c) * Rabs (nth c xh 0)) r n
         + (3 * INR (n - r) + Rabs (mg n U r r)) * (1 + gamma eps64 (n - r)) * eta64.
Proof. exact C08.RoundSolve64.upper_solve_binary64. Qed.
Print Assumptions C08_upper_solve_binary64.

(* non-vacuity of the rounding-model theorems: std_model is inhabited by the identity (std_model_id; then the bounds
   collapse to residual = 0: RoundSolve.lower_solve_id_exact / upper_solve_id_exact), by the inexact rounding
   v -> v (1 + 1/8) (std_model_scale; RoundSolve.lower_2x2_scale / upper_2x2_scale evaluate 2x2 systems whose computed
   solution has a non-zero residual below the bound) and by binary64 (std_model_binary64). *)

(* ===================================================================================== backward error of the
   FACTORISATIONS in the rounding model (C08/RoundFactor.v, RoundFactor64.v), every order n, every input on which the
   ROUNDED run succeeds (return code 0).  Rnd8_ops rnd tiny: every sub/mul/div/sqrt is the exact operation followed by
   rnd; the pivot tests and the pivot search compare the rounded values exactly.  std_model rnd eps eta:
   |rnd x - x| <= eps |x| + eta.  gamma eps k = k eps / (1 - k eps).  Overflow is outside the model.
   In each statement the run is total (stays inside its buffers, returns 0 or 1) and the bound holds when it returns 0. *)
From LibaV Require Import Common.RoundMono C08.RoundFactor C08.RoundFactor64.

(* Cholesky, cell by cell (Higham Thm 10.3 with the constants of this loop order): on the triangle the code reads,
   |a_rc - sum_{i<=c} l_ri l_ci| <= gamma_{c+1} sum_{i<=c} |l_ri||l_ci| + (3(c+1) + |l_cc|)(1 + gamma_{c+1}) eta  (c < r),
   |a_rr - sum_{i<=r} l_ri^2|    <= gamma_{r+2} sum_{i<=r} l_ri^2 + (3(r+2) + 2|l_rr| + eta)(1 + gamma_{r+2}) eta,
   and the computed diagonal is positive (eta^2 < (1-eps)^2 tiny keeps the rounded root of a pivot >= tiny off zero) *)
Theorem C08_llt_backward_error : forall rnd eps eta tiny, std_model rnd eps eta -> 0 < tiny ->
  forall n (A : list R),
  length A = (n * n)%nat -> INR (n + 1) * eps < 1 -> eta * eta < (1 - eps) * (1 - eps) * tiny ->
  exists rc Lh, llt (Rnd8_ops rnd tiny) n A = Some (rc, Lh) /\ length Lh = (n * n)%nat /\ (rc = 0%nat \/ rc = 1%nat) /\
    (rc = 0%nat ->
       (forall c, (c < n)%nat -> 0 < mg n Lh c c) /\
       (forall r c, (c < r)%nat -> (r < n)%nat ->
          Rabs (mg n A r c - rsum (fun i => mg n Lh r i * mg n Lh c i) (S c))
          <= gamma eps (S c) * rsum (fun i => Rabs (mg n Lh r i) * Rabs (mg n Lh c i)) (S c)
             + (3 * INR (S c) + Rabs (mg n Lh c c)) * (1 + gamma eps (S c)) * eta) /\
       (forall r, (r < n)%nat ->
          Rabs (mg n A r r - rsum (fun i => mg n Lh r i * mg n Lh r i) (S r))
          <= gamma eps (r + 2) * rsum (fun i => Rabs (mg n Lh r i) * Rabs (mg n Lh r i)) (S r)
             + (3 * INR (r + 2) + (2 * Rabs (mg n Lh r r) + eta)) * (1 + gamma eps (r + 2)) * eta)).
Proof. exact C08.RoundFactor.llt_backward_error. Qed.
Print Assumptions C08_llt_backward_error.

(* the classical shape: |A - L^ L^^T|_rc <= gamma_{n+1} (|L^||L^|^T)_rc + O(n) eta for c <= r *)
Theorem C08_llt_backward_error_uniform : forall rnd eps eta tiny, std_model rnd eps eta -> 0 < tiny ->
  forall n (A : list R),
  length A = (n * n)%nat -> INR (n + 1) * eps < 1 -> eta * eta < (1 - eps) * (1 - eps) * tiny ->
  exists rc Lh, llt (Rnd8_ops rnd tiny) n A = Some (rc, Lh) /\ length Lh = (n * n)%nat /\ (rc = 0%nat \/ rc = 1%nat) /\
    (rc = 0%nat ->
       (forall c, (c < n)%nat -> 0 < mg n Lh c c) /\
       (forall r c, (c <= r)%nat -> (r < n)%nat ->
          Rabs (mg n A r c - rsum (fun i => mg n Lh r i * mg n Lh c i) (S c))
          <= gamma eps (n + 1) * rsum (fun i => Rabs (mg n Lh r i) * Rabs (mg n Lh c i)) (S c)
             + (3 * INR (n + 1) + (2 * Rabs (mg n Lh c c) + eta)) * (1 + gamma eps (n + 1)) * eta)).
Proof. exact C08.RoundFactor.llt_backward_error_uniform. Qed.
Print Assumptions C08_llt_backward_error_uniform.

(* LDL^T, cell by cell; in the in-place result Mh the pivots d_c are the diagonal cells, l_rc the cells below *)
Theorem C08_ldl_backward_error : forall rnd eps eta tiny, std_model rnd eps eta -> 0 < tiny ->
  forall n (A : list R),
  length A = (n * n)%nat -> INR n * eps < 1 ->
  exists rc Mh, ldl (Rnd8_ops rnd tiny) n A = Some (rc, Mh) /\ length Mh = (n * n)%nat /\ (rc = 0%nat \/ rc = 1%nat) /\
    (rc = 0%nat ->
       (forall c, (c < n)%nat -> tiny <= Rabs (mg n Mh c c)) /\
       (forall r c, (c < r)%nat -> (r < n)%nat ->
          Rabs (mg n A r c - (rsum (fun i => mg n Mh r i * mg n Mh c i * mg n Mh i i) c + mg n Mh r c * mg n Mh c c))
          <= gamma eps (c + 2) * (rsum (fun i => Rabs (mg n Mh r i * mg n Mh c i * mg n Mh i i)) c
                                  + Rabs (mg n Mh r c * mg n Mh c c))
             + (3 * INR (c + 2) + rsum (fun i => Rabs (mg n Mh i i)) (S c)) * (1 + gamma eps (c + 2)) * eta) /\
       (forall c, (c < n)%nat ->
          Rabs (mg n A c c - (rsum (fun i => mg n Mh c i * mg n Mh c i * mg n Mh i i) c + mg n Mh c c))
          <= gamma eps (S c) * (rsum (fun i => Rabs (mg n Mh c i * mg n Mh c i * mg n Mh i i)) c + Rabs (mg n Mh c c))
             + (3 * INR (S c) + rsum (fun i => Rabs (mg n Mh i i)) c) * (1 + gamma eps (S c)) * eta)).
Proof. exact C08.RoundFactor.ldl_backward_error. Qed.
Print Assumptions C08_ldl_backward_error.

(* the classical shape: |A - L^ D^ L^^T|_rc <= gamma_n (|L^||D^||L^|^T)_rc + O(n + sum |d_i|) eta for c <= r;
   ldlt_cell m r c = sum_{i<c} m r i * m c i * m i i + (m c c if r = c, else m r c * m c c), ldlt_abs_cell its |.| form *)
Theorem C08_ldl_backward_error_uniform : forall rnd eps eta tiny, std_model rnd eps eta -> 0 < tiny ->
  forall n (A : list R),
  length A = (n * n)%nat -> INR n * eps < 1 ->
  exists rc Mh, ldl (Rnd8_ops rnd tiny) n A = Some (rc, Mh) /\ length Mh = (n * n)%nat /\ (rc = 0%nat \/ rc = 1%nat) /\
    (rc = 0%nat ->
       (forall c, (c < n)%nat -> tiny <= Rabs (mg n Mh c c)) /\
       (forall r c, (c <= r)%nat -> (r < n)%nat ->
          Rabs (mg n A r c - ldlt_cell (mg n Mh) r c)
          <= gamma eps n * ldlt_abs_cell (mg n Mh) r c
             + (3 * INR n + rsum (fun i => Rabs (mg n Mh i i)) (S c)) * (1 + gamma eps n) * eta)).
Proof. exact C08.RoundFactor.ldl_backward_error_uniform. Qed.
Print Assumptions C08_ldl_backward_error_uniform.

(* PLU with partial pivoting, cell by cell (Higham Thm 9.3); row r of P A is row p[r] of A, p the permutation array
   the ROUNDED run leaves (its pivot search sees the rounded entries); every multiplier is rnd x for some |x| <= 1 *)
Theorem C08_plu_backward_error : forall rnd eps eta tiny, std_model rnd eps eta -> 0 < tiny ->
  forall n (A : list R) (p0 : list nat),
  length A = (n * n)%nat -> length p0 = n -> INR n * eps < 1 ->
  exists rc st, plu (Rnd8_ops rnd tiny) n A p0 = Some (rc, st) /\ length (pA st) = (n * n)%nat /\ length (pp st) = n /\
    (rc = 0%nat \/ rc = 1%nat) /\
    (rc = 0%nat ->
       Permutation (pp st) (seq 0 n) /\ psign st = perm_sign (pp st) /\
       (forall c, (c < n)%nat -> tiny <= Rabs (mg n (pA st) c c)) /\
       (forall r c, (c < r)%nat -> (r < n)%nat -> exists x, Rabs x <= 1 /\ mg n (pA st) r c = rnd x) /\
       (forall r c, (r <= c)%nat -> (c < n)%nat ->
          Rabs (mg n A (nth r (pp st) 0%nat) c - (rsum (fun j => mg n (pA st) r j * mg n (pA st) j c) r + mg n (pA st) r c))
          <= gamma eps r * (rsum (fun j => Rabs (mg n (pA st) r j) * Rabs (mg n (pA st) j c)) r + Rabs (mg n (pA st) r c))
             + 3 * INR r * (1 + gamma eps r) * eta) /\
       (forall r c, (c < r)%nat -> (r < n)%nat ->
          Rabs (mg n A (nth r (pp st) 0%nat) c - rsum (fun j => mg n (pA st) r j * mg n (pA st) j c) (S c))
          <= gamma eps (S c) * rsum (fun j => Rabs (mg n (pA st) r j) * Rabs (mg n (pA st) j c)) (S c)
             + (3 * INR (S c) + Rabs (mg n (pA st) c c)) * (1 + gamma eps (S c)) * eta)).
Proof. exact C08.RoundFactor.plu_backward_error. Qed.
Print Assumptions C08_plu_backward_error.

(* the classical shape: |P A - L^ U^|_rc <= gamma_n (|L^||U^|)_rc + O(n) eta for EVERY cell;
   lu_cell m r c = sum_{j < min(r,c+1)} m r j * m j c + (m r c if r <= c), lu_abs_cell its |.| form;
   without any monotonicity of rnd the multipliers are bounded by 1 + eps + eta *)
Theorem C08_plu_backward_error_uniform : forall rnd eps eta tiny, std_model rnd eps eta -> 0 < tiny ->
  forall n (A : list R) (p0 : list nat),
  length A = (n * n)%nat -> length p0 = n -> INR n * eps < 1 ->
  exists rc st, plu (Rnd8_ops rnd tiny) n A p0 = Some (rc, st) /\ length (pA st) = (n * n)%nat /\ length (pp st) = n /\
    (rc = 0%nat \/ rc = 1%nat) /\
    (rc = 0%nat ->
       Permutation (pp st) (seq 0 n) /\ psign st = perm_sign (pp st) /\
       (forall c, (c < n)%nat -> tiny <= Rabs (mg n (pA st) c c)) /\
       (forall r c, (c < r)%nat -> (r < n)%nat -> Rabs (mg n (pA st) r c) <= 1 + eps + eta) /\
       (forall r c, (r < n)%nat -> (c < n)%nat ->
          Rabs (mg n A (nth r (pp st) 0%nat) c - lu_cell (mg n (pA st)) r c)
          <= gamma eps n * lu_abs_cell (mg n (pA st)) r c
             + (3 * INR n + Rabs (mg n (pA st) c c)) * (1 + gamma eps n) * eta)).
Proof. exact C08.RoundFactor.plu_backward_error_uniform. Qed.
Print Assumptions C08_plu_backward_error_uniform.

(* the multiplier bound of partial pivoting in the rounded run, for EVERY monotone rounding that is odd and fixes 1
   (no error model needed): |l_rc| <= 1 *)
Theorem C08_plu_multipliers_monotone_rounding : forall rnd tiny n (A : list R) (p0 : list nat),
  mono_rnd rnd -> 0 < tiny -> length A = (n * n)%nat -> length p0 = n ->
  exists rc st, plu (Rnd8_ops rnd tiny) n A p0 = Some (rc, st) /\ (rc = 0%nat \/ rc = 1%nat) /\
    (rc = 0%nat -> forall r c, (c < r)%nat -> (r < n)%nat -> Rabs (mg n (pA st) r c) <= 1).
Proof. exact C08.RoundFactor.plu_multipliers_mono. Qed.
Print Assumptions C08_plu_multipliers_monotone_rounding.

(* a_real_llt followed by a_real_llt_solve on the factor it produced, stage by stage: factor against A, forward
   substitution and backward substitution against the COMPUTED factor *)
Theorem C08_llt_factor_solve_stages : forall rnd eps eta tiny, std_model rnd eps eta -> 0 < tiny ->
  forall n (A b : list R),
  length A = (n * n)%nat -> length b = n -> INR (n + 1) * eps < 1 -> eta * eta < (1 - eps) * (1 - eps) * tiny ->
  exists rc Lh, llt (Rnd8_ops rnd tiny) n A = Some (rc, Lh) /\ length Lh = (n * n)%nat /\ (rc = 0%nat \/ rc = 1%nat) /\
    (rc = 0%nat ->
       (forall r c, (c <= r)%nat -> (r < n)%nat ->
          Rabs (mg n A r c - rsum (fun i => mg n Lh r i * mg n Lh c i) (S c))
          <= gamma eps (n + 1) * rsum (fun i => Rabs (mg n Lh r i) * Rabs (mg n Lh c i)) (S c)
             + (3 * INR (n + 1) + (2 * Rabs (mg n Lh c c) + eta)) * (1 + gamma eps (n + 1)) * eta) /\
       exists yh xh, llt_lower (Rnd8_ops rnd tiny) n Lh b = Some yh /\ llt_solve (Rnd8_ops rnd tiny) n Lh b = Some xh /\
         length xh = n /\
         (forall r, (r < n)%nat ->
            Rabs (nth r b 0 - rsum (fun c => mg n Lh r c * nth c yh 0) (S r))
            <= gamma eps (S r) * rsum (fun c => Rabs (mg n Lh r c) * Rabs (nth c yh 0)) (S r)
               + (3 * INR (S r) + Rabs (mg n Lh r r)) * (1 + gamma eps (S r)) * eta) /\
         (forall c, (c < n)%nat ->
            Rabs (nth c yh 0 - isum (fun r => mg n Lh r c * nth r xh 0) c n)
            <= gamma eps (n - c) * isum (fun r => Rabs (mg n Lh r c) * Rabs (nth r xh 0)) c n
               + (3 * INR (n - c) + Rabs (mg n Lh c c)) * (1 + gamma eps (n - c)) * eta)).
Proof. exact C08.RoundFactor.llt_factor_solve_stages. Qed.
Print Assumptions C08_llt_factor_solve_stages.

(* IEEE binary64 round-to-nearest-even (u = eps64 = 2^-53, eta64 = 2^-1075, by Flocq), every order below 2^53;
   the condition on tiny holds for A_REAL_MIN = DBL_MIN = 2^-1022 (RoundFactor64.room64_dbl_min) *)
Theorem C08_llt_backward_error_binary64 : forall tiny n (A : list R),
  0 < tiny -> eta64 * eta64 < (1 - eps64) * (1 - eps64) * tiny ->
  length A = (n * n)%nat -> (Z.of_nat (n + 1) < 2 ^ 53)%Z ->
  exists rc Lh, llt (Rnd8_ops rnd64 tiny) n A = Some (rc, Lh) /\ length Lh = (n * n)%nat /\ (rc = 0%nat \/ rc = 1%nat) /\
    (rc = 0%nat ->
       (forall c, (c < n)%nat -> 0 < mg n Lh c c) /\
       (forall r c, (c <= r)%nat -> (r < n)%nat ->
          Rabs (mg n A r c - rsum (fun i => mg n Lh r i * mg n Lh c i) (S c))
          <= gamma eps64 (n + 1) * rsum (fun i => Rabs (mg n Lh r i) * Rabs (mg n Lh c i)) (S c)
             + (3 * INR (n + 1) + (2 * Rabs (mg n Lh c c) + eta64)) * (1 + gamma eps64 (n + 1)) * eta64)).
Proof. exact C08.RoundFactor64.llt_backward_error_binary64. Qed.
Print Assumptions C08_llt_backward_error_binary64.

Theorem C08_ldl_backward_error_binary64 : forall tiny n (A : list R),
  0 < tiny -> length A = (n * n)%nat -> (Z.of_nat n < 2 ^ 53)%Z ->
  exists rc Mh, ldl (Rnd8_ops rnd64 tiny) n A = Some (rc, Mh) /\ length Mh = (n * n)%nat /\ (rc = 0%nat \/ rc = 1%nat) /\
    (rc = 0%nat ->
       (forall c, (c < n)%nat -> tiny <= Rabs (mg n Mh c c)) /\
       (forall r c, (c <= r)%nat -> (r < n)%nat ->
          Rabs (mg n A r c - ldlt_cell (mg n Mh) r c)
          <= gamma eps64 n * ldlt_abs_cell (mg n Mh) r c
             + (3 * INR n + rsum (fun i => Rabs (mg n Mh i i)) (S c)) * (1 + gamma eps64 n) * eta64)).
Proof. exact C08.RoundFactor64.ldl_backward_error_binary64. Qed.
Print Assumptions C08_ldl_backward_error_binary64.

(* in binary64 the multipliers are bounded by 1 exactly (round to nearest even is monotone and fixes 1) *)
Theorem C08_plu_backward_error_binary64 : forall tiny n (A : list R) (p0 : list nat),
  0 < tiny -> length A = (n * n)%nat -> length p0 = n -> (Z.of_nat n < 2 ^ 53)%Z ->
  exists rc st, plu (Rnd8_ops rnd64 tiny) n A p0 = Some (rc, st) /\ length (pA st) = (n * n)%nat /\ length (pp st) = n /\
    (rc = 0%nat \/ rc = 1%nat) /\
    (rc = 0%nat ->
       Permutation (pp st) (seq 0 n) /\ psign st = perm_sign (pp st) /\
       (forall c, (c < n)%nat -> tiny <= Rabs (mg n (pA st) c c)) /\
       (forall r c, (c < r)%nat -> (r < n)%nat -> Rabs (mg n (pA st) r c) <= 1) /\
       (forall r c, (r < n)%nat -> (c < n)%nat ->
          Rabs (mg n A (nth r (pp st) 0%nat) c - lu_cell (mg n (pA st)) r c)
          <= gamma eps64 n * lu_abs_cell (mg n (pA st)) r c
             + (3 * INR n + Rabs (mg n (pA st) c c)) * (1 + gamma eps64 n) * eta64)).
Proof. exact C08.RoundFactor64.plu_backward_error_binary64. Qed.
Print Assumptions C08_plu_backward_error_binary64.

(* non-vacuity of the factorisation theorems: with the inexact rounding v -> v (1 + 1/8) (std_model_scale) and tiny = 1
   the rounded runs on [4 2; 2 25/8] (Cholesky), [4 2; 2 3] (LDL^T) and [1 2; 4 3] (PLU, rows exchanged) succeed with
   factors that are not the exact ones and residuals that are not zero and below the bounds
   (RoundFactor.llt_2x2_scale / ldl_2x2_scale / plu_2x2_scale); binary64 with tiny = DBL_MIN and n = 1000:
   RoundFactor64.room64_dbl_min, llt_binary64_dbl_min_1000, gamma64_1001. *)

(* a_real_llt + a_real_llt_solve in ONE statement (Higham Thm 10.4): the computed x^ solves a nearby system exactly,
   (A + dA) x^ = b + db, with A read as the symmetric matrix of its lower triangle (symlow n A r k = A[max r k][min r k]),
   |dA|_rk <= gamma_{3n+1} (|L^||L^|^T)_rk + (3(n+1) + 2|l_mm| + eta)(1 + gamma_{n+1}) eta, m = min r k, and an explicit
   |db| = O(n) eta that vanishes with eta *)
Theorem C08_llt_solve_end_to_end : forall rnd eps eta tiny, std_model rnd eps eta -> 0 < tiny ->
  forall n (A b : list R),
  length A = (n * n)%nat -> length b = n -> INR (3 * n + 1) * eps < 1 -> eta * eta < (1 - eps) * (1 - eps) * tiny ->
  exists rc Lh, llt (Rnd8_ops rnd tiny) n A = Some (rc, Lh) /\ length Lh = (n * n)%nat /\ (rc = 0%nat \/ rc = 1%nat) /\
    (rc = 0%nat ->
       exists xh (dA : nat -> nat -> R) (db : nat -> R),
         llt_solve (Rnd8_ops rnd tiny) n Lh b = Some xh /\ length xh = n /\
         (forall r, (r < n)%nat -> rsum (fun k => (symlow n A r k + dA r k) * nth k xh 0) n = nth r b 0 + db r) /\
         (forall r k, (r < n)%nat -> (k < n)%nat ->
            Rabs (dA r k)
            <= gamma eps (3 * n + 1) * rsum (fun i => Rabs (mg n Lh r i) * Rabs (mg n Lh k i)) (S (Nat.min r k))
               + (3 * INR (n + 1) + (2 * Rabs (mg n Lh (Nat.min r k) (Nat.min r k)) + eta)) * (1 + gamma eps (n + 1)) * eta) /\
         (forall r, (r < n)%nat ->
            Rabs (db r)
            <= (3 * INR (S r) + Rabs (mg n Lh r r)) * (1 + gamma eps (S r)) * eta
               + (1 + gamma eps n)
                 * rsum (fun c => Rabs (mg n Lh r c)
                                  * ((3 * INR (n - c) + Rabs (mg n Lh c c)) * (1 + gamma eps (n - c)) * eta)) (S r))).
Proof. exact C08.RoundFactor.llt_solve_end_to_end. Qed.
Print Assumptions C08_llt_solve_end_to_end.

Theorem C08_llt_solve_end_to_end_binary64 : forall tiny n (A b : list R),
  0 < tiny -> eta64 * eta64 < (1 - eps64) * (1 - eps64) * tiny ->
  length A = (n * n)%nat -> length b = n -> (Z.of_nat (3 * n + 1) < 2 ^ 53)%Z ->
  exists rc Lh, llt (Rnd8_ops rnd64 tiny) n A = Some (rc, Lh) /\ length Lh = (n * n)%nat /\ (rc = 0%nat \/ rc = 1%nat) /\
    (rc = 0%nat ->
       exists xh (dA : nat -> nat -> R) (db : nat -> R),
         llt_solve (Rnd8_ops rnd64 tiny) n Lh b = Some xh /\ length xh = n /\
         (forall r, (r < n)%nat -> rsum (fun k => (symlow n A r k + dA r k) * nth k xh 0) n = nth r b 0 + db r) /\
         (forall r k, (r < n)%nat -> (k < n)%nat ->
            Rabs (dA r k)
            <= gamma eps64 (3 * n + 1) * rsum (fun i => Rabs (mg n Lh r i) * Rabs (mg n Lh k i)) (S (Nat.min r k))
               + (3 * INR (n + 1) + (2 * Rabs (mg n Lh (Nat.min r k) (Nat.min r k)) + eta64)) * (1 + gamma eps64 (n + 1)) * eta64) /\
         (forall r, (r < n)%nat ->
            Rabs (db r)
            <= (3 * INR (S r) + Rabs (mg n Lh r r)) * (1 + gamma eps64 (S r)) * eta64
               + (1 + gamma eps64 n)
                 * rsum (fun c => Rabs (mg n Lh r c)
                                  * ((3 * INR (n - c) + Rabs (mg n Lh c c)) * (1 + gamma eps64 (n - c)) * eta64)) (S r))).
Proof. exact C08.RoundFactor64.llt_solve_end_to_end_binary64. Qed.
Print Assumptions C08_llt_solve_end_to_end_binary64.
(* non-vacuity: RoundFactor.llt_end_to_end_2x2_scale (eps = 1/8, n = 2: (3n+1) eps = 7/8 < 1, the run succeeds) *)

(* ===================================================================================== factorisation + solve in ONE
   statement for PLU and LDL^T (C08/RoundEndToEnd.v, RoundEndToEnd64.v; Higham Thm 9.4 and its LDL^T analogue), every
   order n with 3 n eps < 1, every input on which the ROUNDED factorisation returns 0.  The two substitutions run on the
   COMPUTED factors; each is the exact solution of a system with perturbed factor (Oettli-Prager, explicit), so
   (L^ + dL)(U^ + dU) x^ = b + db1 + (L^ + dL) db2 and dA := (L^ + dL)(U^ + dU) - A is bounded by
   gamma_n + (2 gamma_n + gamma_n^2) <= gamma_{3n} times |L^||U^|.  dA and db are explicit (no choice axiom). *)
From LibaV Require Import C08.RoundEndToEnd C08.RoundEndToEnd64.

(* a_real_plu + a_real_plu_solve: the computed x^ solves (A + dA) x^ = b + db EXACTLY, row by row of A.  M = pA st is the
   in-place result (multipliers below the diagonal, U on and above), p = pp st the permutation array of the rounded run,
   a permutation of 0..n-1; row p[r] of dA is bounded by row r of |L^||U^| (lu_abs_cell), i.e.
   |dA| <= gamma_{3n} P^T |L^||U^| + (3n + |u_cc|)(1 + gamma_n) eta, and db is O(n) eta, explicit, 0 when eta = 0.
   lrow n M r j = M[r][j] for j < r and 1 for j = r (the unit lower factor) *)
Theorem C08_plu_solve_end_to_end : forall rnd eps eta tiny, std_model rnd eps eta -> 0 < tiny ->
  forall n (A : list R) (p0 : list nat) (b x0 : list R),
  length A = (n * n)%nat -> length p0 = n -> length b = n -> length x0 = n -> INR (3 * n) * eps < 1 ->
  exists rc st, plu (Rnd8_ops rnd tiny) n A p0 = Some (rc, st) /\ length (pA st) = (n * n)%nat /\ length (pp st) = n /\
    (rc = 0%nat \/ rc = 1%nat) /\
    (rc = 0%nat ->
       Permutation (pp st) (seq 0 n) /\
       exists xh (dA : nat -> nat -> R) (db : nat -> R),
         plu_solve (Rnd8_ops rnd tiny) n (pA st) (pp st) b x0 = Some xh /\ length xh = n /\
         (forall i, (i < n)%nat -> rsum (fun c => (mg n A i c + dA i c) * nth c xh 0) n = nth i b 0 + db i) /\
         (forall r c, (r < n)%nat -> (c < n)%nat ->
            Rabs (dA (nth r (pp st) 0%nat) c)
            <= gamma eps (3 * n) * lu_abs_cell (mg n (pA st)) r c
               + (3 * INR n + Rabs (mg n (pA st) c c)) * (1 + gamma eps n) * eta) /\
         (forall r, (r < n)%nat ->
            Rabs (db (nth r (pp st) 0%nat))
            <= 3 * INR r * (1 + gamma eps r) * eta
               + (1 + gamma eps n)
                 * rsum (fun j => Rabs (lrow n (pA st) r j)
                                  * ((3 * INR (n - j) + Rabs (mg n (pA st) j j)) * (1 + gamma eps (n - j)) * eta)) (S r)) /\
         (eta = 0 -> forall i, (i < n)%nat -> db i = 0)).
Proof. exact C08.RoundEndToEnd.plu_solve_end_to_end. Qed.
Print Assumptions C08_plu_solve_end_to_end.

(* the same, indexed by the rows of P A (row r of P A is row p[r] of A, entry r of P b is b[p[r]]) *)
Theorem C08_plu_solve_end_to_end_rows_of_PA : forall rnd eps eta tiny, std_model rnd eps eta -> 0 < tiny ->
  forall n (A : list R) (p0 : list nat) (b x0 : list R),
  length A = (n * n)%nat -> length p0 = n -> length b = n -> length x0 = n -> INR (3 * n) * eps < 1 ->
  exists rc st, plu (Rnd8_ops rnd tiny) n A p0 = Some (rc, st) /\ length (pA st) = (n * n)%nat /\ length (pp st) = n /\
    (rc = 0%nat \/ rc = 1%nat) /\
    (rc = 0%nat ->
       Permutation (pp st) (seq 0 n) /\
       exists xh (dA : nat -> nat -> R) (db : nat -> R),
         plu_solve (Rnd8_ops rnd tiny) n (pA st) (pp st) b x0 = Some xh /\ length xh = n /\
         (forall r, (r < n)%nat ->
            rsum (fun c => (mg n A (nth r (pp st) 0%nat) c + dA r c) * nth c xh 0) n
            = nth (nth r (pp st) 0%nat) b 0 + db r) /\
         (forall r c, (r < n)%nat -> (c < n)%nat ->
            Rabs (dA r c)
            <= gamma eps (3 * n) * lu_abs_cell (mg n (pA st)) r c
               + (3 * INR n + Rabs (mg n (pA st) c c)) * (1 + gamma eps n) * eta) /\
         (forall r, (r < n)%nat ->
            Rabs (db r)
            <= 3 * INR r * (1 + gamma eps r) * eta
               + (1 + gamma eps n)
                 * rsum (fun j => Rabs (lrow n (pA st) r j)
                                  * ((3 * INR (n - j) + Rabs (mg n (pA st) j j)) * (1 + gamma eps (n - j)) * eta)) (S r))).
Proof. exact C08.RoundEndToEnd.plu_solve_end_to_end_PA. Qed.
Print Assumptions C08_plu_solve_end_to_end_rows_of_PA.

(* a_real_ldl_upper (x_c /= d_c FIRST, then the subtractions) in perturbed form: x^ solves (D L^T + dU) x^ = y + db
   exactly; dlt n L c k = d_c l_kc for c < k and d_c for k = c is the cell (c,k) of D L^T read from the in-place storage *)
Theorem C08_ldl_upper_solve_perturbed_system : forall rnd eps eta tiny, std_model rnd eps eta ->
  forall n (L y : list R), length L = (n * n)%nat -> length y = n ->
  (forall r, (r < n)%nat -> mg n L r r <> 0) -> INR n * eps < 1 ->
  exists xh (dU : nat -> nat -> R) (db : nat -> R), ldl_upper (Rnd8_ops rnd tiny) n L y = Some xh /\ length xh = n /\
    forall c, (c < n)%nat ->
      (forall k, (c <= k)%nat -> Rabs (dU c k) <= gamma eps (n - c) * Rabs (dlt n L c k)) /\
      Rabs (db c) <= Rabs (mg n L c c) * (3 * INR (n - c) * (1 + gamma eps (n - c)) * eta) /\
      isum (fun k => (dlt n L c k + dU c k) * nth k xh 0) c n = nth c y 0 + db c.
Proof. exact C08.RoundEndToEnd.ldl_upper_solve_perturbed. Qed.
Print Assumptions C08_ldl_upper_solve_perturbed_system.

(* a_real_ldl + a_real_ldl_solve: (A + dA) x^ = b + db EXACTLY, A read as the symmetric matrix of its lower triangle
   (symlow n A r k = A[max r k][min r k]); Mh the in-place result (d_c on the diagonal, l_rc below);
   |dA|_rk <= gamma_{3n} (|L^||D^||L^|^T)_rk + (3n + sum_{i <= min r k} |d_i|)(1 + gamma_n) eta, the product read at
   the cell (max r k, min r k) by ldlt_abs_cell; db is O(n) eta, explicit, 0 when eta = 0 *)
Theorem C08_ldl_solve_end_to_end : forall rnd eps eta tiny, std_model rnd eps eta -> 0 < tiny ->
  forall n (A b : list R),
  length A = (n * n)%nat -> length b = n -> INR (3 * n) * eps < 1 ->
  exists rc Mh, ldl (Rnd8_ops rnd tiny) n A = Some (rc, Mh) /\ length Mh = (n * n)%nat /\ (rc = 0%nat \/ rc = 1%nat) /\
    (rc = 0%nat ->
       exists xh (dA : nat -> nat -> R) (db : nat -> R),
         ldl_solve (Rnd8_ops rnd tiny) n Mh b = Some xh /\ length xh = n /\
         (forall r, (r < n)%nat -> rsum (fun k => (symlow n A r k + dA r k) * nth k xh 0) n = nth r b 0 + db r) /\
         (forall r k, (r < n)%nat -> (k < n)%nat ->
            Rabs (dA r k)
            <= gamma eps (3 * n) * ldlt_abs_cell (mg n Mh) (Nat.max r k) (Nat.min r k)
               + (3 * INR n + rsum (fun i => Rabs (mg n Mh i i)) (S (Nat.min r k))) * (1 + gamma eps n) * eta) /\
         (forall r, (r < n)%nat ->
            Rabs (db r)
            <= 3 * INR r * (1 + gamma eps r) * eta
               + (1 + gamma eps n)
                 * rsum (fun c => Rabs (lrow n Mh r c)
                                  * (Rabs (mg n Mh c c) * (3 * INR (n - c) * (1 + gamma eps (n - c)) * eta))) (S r)) /\
         (eta = 0 -> forall r, (r < n)%nat -> db r = 0)).
Proof. exact C08.RoundEndToEnd.ldl_solve_end_to_end. Qed.
Print Assumptions C08_ldl_solve_end_to_end.

(* IEEE binary64 round-to-nearest-even (u = eps64 = 2^-53, eta64 = 2^-1075, by Flocq), every order with 3 n < 2^53 *)
Theorem C08_plu_solve_end_to_end_binary64 : forall tiny n (A : list R) (p0 : list nat) (b x0 : list R),
  0 < tiny -> length A = (n * n)%nat -> length p0 = n -> length b = n -> length x0 = n -> (Z.of_nat (3 * n) < 2 ^ 53)%Z ->
  exists rc st, plu (Rnd8_ops rnd64 tiny) n A p0 = Some (rc, st) /\ length (pA st) = (n * n)%nat /\ length (pp st) = n /\
    (rc = 0%nat \/ rc = 1%nat) /\
    (rc = 0%nat ->
       Permutation (pp st) (seq 0 n) /\
       exists xh (dA : nat -> nat -> R) (db : nat -> R),
         plu_solve (Rnd8_ops rnd64 tiny) n (pA st) (pp st) b x0 = Some xh /\ length xh = n /\
         (forall i, (i < n)%nat -> rsum (fun c => (mg n A i c + dA i c) * nth c xh 0) n = nth i b 0 + db i) /\
         (forall r c, (r < n)%nat -> (c < n)%nat ->
            Rabs (dA (nth r (pp st) 0%nat) c)
            <= gamma eps64 (3 * n) * lu_abs_cell (mg n (pA st)) r c
               + (3 * INR n + Rabs (mg n (pA st) c c)) * (1 + gamma eps64 n) * eta64) /\
         (forall r, (r < n)%nat ->
            Rabs (db (nth r (pp st) 0%nat))
            <= 3 * INR r * (1 + gamma eps64 r) * eta64
               + (1 + gamma eps64 n)
                 * rsum (fun j => Rabs (lrow n (pA st) r j)
                                  * ((3 * INR (n - j) + Rabs (mg n (pA st) j j)) * (1 + gamma eps64 (n - j)) * eta64)) (S r)) /\
         (eta64 = 0 -> forall i, (i < n)%nat -> db i = 0)).
Proof. exact C08.RoundEndToEnd64.plu_solve_end_to_end_binary64. Qed.
Print Assumptions C08_plu_solve_end_to_end_binary64.

Theorem C08_ldl_solve_end_to_end_binary64 : forall tiny n (A b : list R),
  0 < tiny -> length A = (n * n)%nat -> length b = n -> (Z.of_nat (3 * n) < 2 ^ 53)%Z ->
  exists rc Mh, ldl (Rnd8_ops rnd64 tiny) n A = Some (rc, Mh) /\ length Mh = (n * n)%nat /\ (rc = 0%nat \/ rc = 1%nat) /\
    (rc = 0%nat ->
       exists xh (dA : nat -> nat -> R) (db : nat -> R),
         ldl_solve (Rnd8_ops rnd64 tiny) n Mh b = Some xh /\ length xh = n /\
         (forall r, (r < n)%nat -> rsum (fun k => (symlow n A r k + dA r k) * nth k xh 0) n = nth r b 0 + db r) /\
         (forall r k, (r < n)%nat -> (k < n)%nat ->
            Rabs (dA r k)
            <= gamma eps64 (3 * n) * ldlt_abs_cell (mg n Mh) (Nat.max r k) (Nat.min r k)
               + (3 * INR n + rsum (fun i => Rabs (mg n Mh i i)) (S (Nat.min r k))) * (1 + gamma eps64 n) * eta64) /\
         (forall r, (r < n)%nat ->
            Rabs (db r)
            <= 3 * INR r * (1 + gamma eps64 r) * eta64
               + (1 + gamma eps64 n)
                 * rsum (fun c => Rabs (lrow n Mh r c)
                                  * (Rabs (mg n Mh c c) * (3 * INR (n - c) * (1 + gamma eps64 (n - c)) * eta64))) (S r)) /\
         (eta64 = 0 -> forall r, (r < n)%nat -> db r = 0)).
Proof. exact C08.RoundEndToEnd64.ldl_solve_end_to_end_binary64. Qed.
Print Assumptions C08_ldl_solve_end_to_end_binary64.
(* non-vacuity: RoundEndToEnd.plu_end_to_end_2x2_scale / ldl_end_to_end_2x2_scale apply the theorems to the 2x2 runs of
   RoundFactor.v with the inexact rounding v -> v (1 + 1/8) (eps = 1/8, n = 2: 3 n eps = 3/4 < 1, the runs succeed);
   plu_solve_2x2_scale_values / ldl_solve_2x2_scale_values evaluate the computed solutions, which are not the exact ones
   (the residuals of A x^ = b are not zero); binary64 with tiny = DBL_MIN and n = 100:
   RoundEndToEnd64.plu_end_to_end_binary64_dbl_min_100, gamma64_300. *)
