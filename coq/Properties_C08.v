(* C08 - property theorems (statements only; proofs are in C08/*Proofs.v). *)
From Coq Require Import ZArith List Reals.
From LibaV Require Import C08.NumOps C08.FactorDefs C08.Instances C08.Base C08.DetProofs.
Local Open Scope R_scope.

Theorem plu_det_is_sign_times_diagonal : forall tiny n A sign,
  length A = (n * n)%nat ->
  plu_det (R_ops tiny) n A sign = Some (IZR sign * rprod (fun i => mg n A i i) n).
Proof. exact plu_det_spec. Qed.
Print Assumptions plu_det_is_sign_times_diagonal.
