(* C10 proofs, part 6: structure of the inverse families (for every binding), the real-argument variants. *)
From Coq Require Import Reals ZArith Lra Psatz Bool.
From Coquelicot Require Import Coquelicot.
From LibaV Require Import Common.NumOps Common.ROps C10.CxDefs C10.CxReal C10.CxField C10.CxTrig.
Local Open Scope R_scope.

Lemma mul_imag_1 (z : C) : mul_imag RO z 1 = Cmult Ci z.
Proof. destruct z as [x y]. unfold mul_imag, Cmult, Ci; cx. apply pair_eq; ring. Qed.
Lemma mul_imag_m1 (z : C) : mul_imag RO z (- 1) = Cmult (Copp Ci) z.
Proof. destruct z as [x y]. unfold mul_imag, Cmult, Copp, Ci; cx. apply pair_eq; ring. Qed.

Section Structure.
  Variable B : Binding R.

  (* asinh z = -i asin(i z),  atanh z = -i atan(i z) *)
  Theorem asinh_structure z : asinh_fb RO RE B z = Cmult (Copp Ci) (casin_ RO RE B (Cmult Ci z)).
  Proof. unfold asinh_fb; cx. now rewrite mul_imag_m1, mul_imag_1. Qed.

  Theorem atanh_structure z : snd z <> 0 -> atanh_fb RO RE B z = Cmult (Copp Ci) (catan_ RO RE B (Cmult Ci z)).
  Proof.
    intros H. unfold atanh_fb; cx. destruct (Reqb_spec (snd z) 0); [contradiction|]. cbn [negb].
    now rewrite mul_imag_m1, mul_imag_1.
  Qed.

  (* acosh z = +-i acos z, the sign chosen so that the real part is >= 0 *)
  Theorem acosh_structure z :
    let w := cacos_ RO RE B z in
    (acosh_fb RO RE B z = Cmult (Copp Ci) w \/ acosh_fb RO RE B z = Cmult Ci w) /\ 0 <= fst (acosh_fb RO RE B z).
  Proof.
    cbv zeta. unfold acosh_fb; cx. destruct (cacos_ RO RE B z) as [a b]. cbn [fst snd].
    destruct (Rltb_spec 0 b).
    - split; [left; apply mul_imag_m1|]. unfold mul_imag; cx. lra.
    - split; [right; apply mul_imag_1|]. unfold mul_imag; cx. lra.
  Qed.

  (* the reciprocal-argument families are the function of 1/z *)
  Theorem asec_structure z : z <> (0, 0) -> asec_ RO RE B z = cacos_ RO RE B (Cinv z).
  Proof. intros H. unfold asec_. now rewrite (proj2 (inv_Cinv z H)). Qed.
  Theorem acsc_structure z : z <> (0, 0) -> acsc_ RO RE B z = casin_ RO RE B (Cinv z).
  Proof. intros H. unfold acsc_. now rewrite (proj2 (inv_Cinv z H)). Qed.
  Theorem acot_structure z : z <> (0, 0) -> acot_ RO RE B z = catan_ RO RE B (Cinv z).
  Proof.
    intros H. unfold acot_; cx. rewrite (proj2 (inv_Cinv z H)). destruct z as [x y]; cbn [fst snd].
    assert (Hnz : negb (Reqb x 0) || negb (Reqb y 0) = true).
    { rcases; cbn; try reflexivity. subst. now elim H. }
    now rewrite Hnz.
  Qed.
  Theorem acot_zero : acot_ RO RE B (0, 0) = (PI / 2, 0).
  Proof. unfold acot_; cx. rcases; cbn; try lra; reflexivity. Qed.
  Theorem asech_structure z : z <> (0, 0) -> asech_ RO RE B z = cacosh_ RO RE B (Cinv z).
  Proof. intros H. unfold asech_. now rewrite (proj2 (inv_Cinv z H)). Qed.
  Theorem acsch_structure z : z <> (0, 0) -> acsch_ RO RE B z = casinh_ RO RE B (Cinv z).
  Proof. intros H. unfold acsch_. now rewrite (proj2 (inv_Cinv z H)). Qed.
  Theorem acoth_structure z : z <> (0, 0) -> acoth_ RO RE B z = catanh_ RO RE B (Cinv z).
  Proof. intros H. unfold acoth_. now rewrite (proj2 (inv_Cinv z H)). Qed.
End Structure.

(* ------------------------------------------------------------------ real-argument variants *)
(* they are what the complex fallbacks return on the real axis *)
Lemma asin_fb_real_axis x : asin_fb RO RE (x, 0) = asin_real RO RE x.
Proof. unfold asin_fb; cx. destruct (Reqb_spec 0 0); [reflexivity | lra]. Qed.
Lemma acos_fb_real_axis x : acos_fb RO RE (x, 0) = acos_real RO RE x.
Proof. unfold acos_fb; cx. destruct (Reqb_spec 0 0); [reflexivity | lra]. Qed.
Lemma atanh_fb_real_axis (B : Binding R) x : atanh_fb RO RE B (x, 0) = atanh_real RO RE x.
Proof. unfold atanh_fb; cx. destruct (Reqb_spec 0 0); [reflexivity | lra]. Qed.

(* asec_real x = acos_real (1/x), acsc_real x = asin_real (1/x) *)
Lemma inv_abs_le (x : R) : x <> 0 -> (Rabs (1 / x) <= 1 <-> (x <= -1 \/ 1 <= x)).
Proof.
  intros Hx. unfold Rdiv. rewrite Rmult_1_l, Rabs_inv.
  assert (0 < Rabs x) by now apply Rabs_pos_lt. split.
  - intros H1. assert (1 <= Rabs x).
    { apply Rmult_le_reg_r with (/ Rabs x); [now apply Rinv_0_lt_compat|]. rewrite Rinv_r by lra. lra. }
    unfold Rabs in *. destruct (Rcase_abs x); lra.
  - intros H1. assert (1 <= Rabs x) by (unfold Rabs; destruct (Rcase_abs x); lra).
    rewrite <- Rinv_1. apply Rinv_le_contravar; lra.
Qed.

Lemma inv_sign (x : R) : x <> 0 -> (0 < x -> 0 < 1 / x) /\ (x < 0 -> 1 / x < 0).
Proof.
  intros Hx. split; intros H.
  - apply Rdiv_lt_0_compat; lra.
  - unfold Rdiv. rewrite Rmult_1_l. now apply Rinv_lt_0_compat.
Qed.

Ltac real_variant_cases x Hx :=
  pose proof (inv_abs_le x Hx) as Hi; pose proof (inv_sign x Hx) as [Hp Hn];
  assert (Hc : (Rabs (1 / x) <= 1 /\ (x <= -1 \/ 1 <= x)) \/ (~ Rabs (1 / x) <= 1 /\ ~ (x <= -1 \/ 1 <= x)))
    by (destruct (Rle_dec (Rabs (1 / x)) 1); tauto);
  assert (Hs : (0 < x /\ 0 < 1 / x) \/ (x < 0 /\ 1 / x < 0))
    by (destruct (Rlt_dec 0 x); [left; split; auto | right; split; [lra | apply Hn; lra]]);
  clear Hi Hp Hn;
  rcases; cbn [orb]; try reflexivity; try (exfalso; lra).

Theorem asec_real_spec x : x <> 0 -> asec_real RO RE x = acos_real RO RE (1 / x).
Proof.
  intros Hx. unfold asec_real, acos_real; cx. cbn [x_acosh k_pi RE].
  real_variant_cases x Hx. do 3 f_equal. field. lra.
Qed.

Theorem acsc_real_spec x : x <> 0 -> acsc_real RO RE x = asin_real RO RE (1 / x).
Proof.
  intros Hx. unfold acsc_real, asin_real; cx. cbn [x_acosh k_pi_2 RE].
  real_variant_cases x Hx. do 3 f_equal. field. lra.
Qed.

(* cosh (acosh x) = x for x >= 1 : the argument of ln is positive, the argument of sqrt non-negative *)
Lemma cosh_Racosh (x : R) : 1 <= x -> cosh (Racosh x) = x /\ 0 <= Racosh x.
Proof.
  intros Hx. unfold Racosh, cosh. set (s := Rsqrt (x * x - 1)).
  assert (Hs : s * s = x * x - 1) by (apply sqrt_sqrt; nra).
  assert (Hs0 : 0 <= s) by apply sqrt_pos.
  assert (Ht : 0 < x + s) by lra.
  rewrite exp_Ropp, exp_ln by assumption. split.
  - field_simplify_eq; [nra | lra].
  - rewrite <- ln_1. destruct (Req_dec (x + s) 1) as [->|]; [lra|]. left. apply ln_increasing; lra.
Qed.

(* residuals of the real variants: sin(asin_real x) = x, cos(acos_real x) = x, cosh(acosh_real x) = x for EVERY real x *)
Theorem asin_real_residual x : Csin (asin_real RO RE x) = (x, 0).
Proof.
  rewrite Csin_parts. unfold asin_real; cx. cbn [x_acosh k_pi_2 RE]. unfold f_asin; cx.
  destruct (Rleb_spec (Rabs x) 1) as [H|H].
  - cbn [fst snd]. rewrite cosh_0, sinh_0, sin_asin; [apply pair_eq; ring|]. unfold Rabs in H. destruct (Rcase_abs x); lra.
  - destruct (Rltb_spec 0 x) as [Hp|Hp]; cbn [fst snd].
    + assert (1 <= x) by (unfold Rabs in H; destruct (Rcase_abs x); lra).
      rewrite sin_PI2, cos_PI2. replace (cosh (- Racosh x)) with (cosh (Racosh x)) by (unfold cosh; rewrite Ropp_involutive; lra).
      rewrite (proj1 (cosh_Racosh x H0)). apply pair_eq; ring.
    + assert (1 <= - x) by (unfold Rabs in H; destruct (Rcase_abs x); lra).
      rewrite sin_neg, cos_neg, sin_PI2, cos_PI2, (proj1 (cosh_Racosh _ H0)). apply pair_eq; ring.
Qed.

Theorem acos_real_residual x : Ccos (acos_real RO RE x) = (x, 0).
Proof.
  rewrite Ccos_parts. unfold acos_real; cx. cbn [x_acosh k_pi RE]. unfold f_acos; cx.
  destruct (Rleb_spec (Rabs x) 1) as [H|H].
  - cbn [fst snd]. rewrite cosh_0, sinh_0, cos_acos; [apply pair_eq; ring|]. unfold Rabs in H. destruct (Rcase_abs x); lra.
  - destruct (Rltb_spec 0 x) as [Hp|Hp]; cbn [fst snd].
    + assert (1 <= x) by (unfold Rabs in H; destruct (Rcase_abs x); lra).
      rewrite sin_0, cos_0, (proj1 (cosh_Racosh x H0)). apply pair_eq; ring.
    + assert (1 <= - x) by (unfold Rabs in H; destruct (Rcase_abs x); lra).
      replace (cosh (- Racosh (- x))) with (cosh (Racosh (- x))) by (unfold cosh; rewrite Ropp_involutive; lra).
      rewrite sin_PI, cos_PI, (proj1 (cosh_Racosh _ H0)). apply pair_eq; ring.
Qed.

Theorem acosh_real_residual x : Ccosh (acosh_real RO RE x) = (x, 0) /\ 0 <= fst (acosh_real RO RE x).
Proof.
  rewrite Ccosh_parts. unfold acosh_real; cx. cbn [x_acosh k_pi RE]. unfold f_acos; cx.
  destruct (Rleb_spec 1 x) as [H|H]; cbn [fst snd].
  - destruct (cosh_Racosh x H) as [-> ?]. rewrite sin_0, cos_0. split; [apply pair_eq; ring | assumption].
  - destruct (Rleb_spec (Ropp 1) x) as [H1|H1]; cbn [fst snd].
    + rewrite cosh_0, sinh_0, cos_acos by lra. split; [apply pair_eq; ring | lra].
    + assert (H2 : 1 <= - x) by lra. destruct (cosh_Racosh _ H2) as [-> ?]. rewrite sin_PI, cos_PI.
      split; [apply pair_eq; ring | assumption].
Qed.
