(* C10 proofs, part 3: modulus/argument, polar form, exp, log, pow, logarithms to base 2, 10 and b. *)
From Coq Require Import Reals ZArith Lra Psatz Bool.
From Coquelicot Require Import Coquelicot.
From LibaV Require Import Common.NumOps Common.ROps C10.CxDefs C10.CxReal C10.CxField.
Local Open Scope R_scope.

(* ------------------------------------------------------------------ atan2 *)
Lemma scale_hyp' (x y : R) : 0 < x -> x * Rsqrt (1 + (y / x)²) = Rsqrt (x * x + y * y).
Proof.
  intros Hx. rewrite <- (sqrt_square x) at 1 by lra. rewrite <- sqrt_mult_alt by nra.
  f_equal. unfold Rsqr. field. lra.
Qed.

Lemma sqrt1p_pos (t : R) : 0 < Rsqrt (1 + t²).
Proof. apply sqrt_lt_R0. pose proof (Rle_0_sqr t). lra. Qed.

(* the angle returned by atan2 is THE polar angle in (-PI, PI] *)
Lemma Ratan2_spec (x y : R) : (x, y) <> (0, 0) ->
  let t := Ratan2 y x in let m := Rsqrt (x * x + y * y) in
  - PI < t <= PI /\ x = m * cos t /\ y = m * sin t.
Proof.
  intros Hz. cbv zeta. unfold Ratan2. pose proof PI_RGT_0 as Hpi.
  destruct (Rlt_dec 0 x) as [Hx|Hx].
  - pose proof (atan_bound (y / x)) as [B1 B2]. rewrite cos_atan, sin_atan, <- (scale_hyp' x y Hx).
    pose proof (sqrt1p_pos (y / x)) as Hs. set (s := Rsqrt (1 + (y / x)²)) in *. repeat split; try lra; field; lra.
  - destruct (Rlt_dec x 0) as [Hx'|Hx'].
    + pose proof (atan_bound (y / x)) as [B1 B2]. pose proof (sqrt1p_pos (y / x)) as Hs.
      assert (Hm : Rsqrt (x * x + y * y) = - x * Rsqrt (1 + (y / x)²)).
      { replace (x * x + y * y) with ((- x) * (- x) + (- y) * (- y)) by ring.
        rewrite <- scale_hyp' by lra. replace ((- y) / (- x)) with (y / x) by (field; lra). reflexivity. }
      destruct (Rle_dec 0 y) as [Hy|Hy].
      * assert (atan (y / x) <= 0).
        { rewrite <- atan_0. destruct (Req_dec y 0) as [->|]; [unfold Rdiv; rewrite Rmult_0_l; lra|].
          left. apply atan_increasing. apply Ropp_lt_cancel. rewrite Ropp_0.
          replace (- (y / x)) with (y / (- x)) by (field; lra). apply Rdiv_lt_0_compat; lra. }
        rewrite neg_cos, neg_sin, cos_atan, sin_atan, Hm. set (s := Rsqrt (1 + (y / x)²)) in *. repeat split; try lra; field; lra.
      * assert (0 < atan (y / x)).
        { rewrite <- atan_0. apply atan_increasing.
          replace (y / x) with ((- y) / (- x)) by (field; lra). apply Rdiv_lt_0_compat; lra. }
        replace (atan (y / x) - PI) with (- (- atan (y / x) + PI)) by ring.
        rewrite cos_neg, sin_neg, neg_cos, neg_sin, cos_neg, sin_neg, cos_atan, sin_atan, Hm.
        set (s := Rsqrt (1 + (y / x)²)) in *. repeat split; try lra; field; lra.
    + assert (x = 0) by lra. subst x.
      replace (0 * 0 + y * y) with (y * y) by ring.
      destruct (Rlt_dec 0 y) as [Hy|Hy].
      * rewrite cos_PI2, sin_PI2, sqrt_square by lra. repeat split; lra.
      * destruct (Rlt_dec y 0) as [Hy'|Hy'].
        -- rewrite cos_neg, sin_neg, cos_PI2, sin_PI2. replace (y * y) with ((- y) * (- y)) by ring.
           rewrite sqrt_square by lra. repeat split; lra.
        -- assert (y = 0) by lra. subst. now elim Hz.
Qed.

(* an angle in (-PI, PI] is determined by its cosine and sine *)
Lemma angle_unique (a b : R) : - PI < a <= PI -> - PI < b <= PI -> cos a = cos b -> sin a = sin b -> a = b.
Proof.
  intros Ha Hb Hc Hs. pose proof PI_RGT_0 as Hpi.
  destruct (Rle_dec 0 a) as [A|A].
  - assert (0 <= b).
    { destruct (Rle_dec 0 b) as [|B]; [assumption|]. exfalso.
      pose proof (sin_ge_0 a A (proj2 Ha)). pose proof (sin_lt_0_var b (proj1 Hb)). lra. }
    apply cos_inj; lra.
  - assert (b < 0).
    { destruct (Rlt_dec b 0) as [|B]; [assumption|]. exfalso.
      assert (0 <= b) by lra. pose proof (sin_ge_0 b H (proj2 Hb)). pose proof (sin_lt_0_var a (proj1 Ha)). lra. }
    assert (- a = - b); [|lra]. apply cos_inj; rewrite ?cos_neg; lra.
Qed.

Lemma polar_mod (rho t : R) : 0 <= rho -> Rsqrt (rho * cos t * (rho * cos t) + rho * sin t * (rho * sin t)) = rho.
Proof.
  intros H. replace (rho * cos t * (rho * cos t) + rho * sin t * (rho * sin t)) with (rho * rho * ((sin t)² + (cos t)²))
    by (unfold Rsqr; ring).
  rewrite sin2_cos2, Rmult_1_r. now apply sqrt_square.
Qed.

Lemma Ratan2_polar (rho t : R) : 0 < rho -> - PI < t <= PI -> Ratan2 (rho * sin t) (rho * cos t) = t.
Proof.
  intros Hr Ht.
  assert (Hz : (rho * cos t, rho * sin t) <> (0, 0)).
  { intros E. assert (E1 := f_equal fst E). assert (E2 := f_equal snd E). cbn [fst snd] in *.
    pose proof (sin2_cos2 t). unfold Rsqr in *. nra. }
  pose proof (Ratan2_spec _ _ Hz) as (B & C1 & C2). cbv zeta in *. rewrite polar_mod in C1, C2 by lra.
  apply angle_unique; try assumption; symmetry.
  - apply Rmult_eq_reg_l with rho; lra.
  - apply Rmult_eq_reg_l with rho; lra.
Qed.

(* ------------------------------------------------------------------ modulus, argument, polar *)
Lemma arg_spec (z : C) : z <> (0, 0) ->
  let t := arg RO RE z in - PI < t <= PI /\ fst z = Cmod z * cos t /\ snd z = Cmod z * sin t.
Proof.
  intros Hz. destruct z as [x y]. unfold arg, Cmod; cx. cbn [x_atan2 RE].
  assert (Hnz : negb (Reqb x 0) || negb (Reqb y 0) = true).
  { rcases; cbn; try reflexivity. subst. now elim Hz. }
  rewrite Hnz. replace (x ^ 2 + y ^ 2) with (x * x + y * y) by ring. exact (Ratan2_spec x y Hz).
Qed.

Lemma arg_zero : arg RO RE (0, 0) = 0.
Proof. unfold arg; cx. rcases; cbn; try lra; reflexivity. Qed.

Lemma half_ln (v : R) : 0 < v -> 1 / 2 * ln v = ln (Rsqrt v).
Proof.
  intros Hv. assert (0 < Rsqrt v) by now apply sqrt_lt_R0.
  rewrite <- (sqrt_sqrt v) at 1 by lra. rewrite ln_mult by assumption. lra.
Qed.

Lemma half_is (x : R) : half RO = 1 / 2.
Proof. unfold half; cx. unfold powerRZ. simpl. field. Qed.

(* logabs z = ln |z|, and on the way: the divisor is non-zero, both log arguments are positive (definedness) *)
Lemma logabs_spec (z : C) : z <> (0, 0) -> logabs RO z = ln (Cmod z).
Proof.
  intros Hz. pose proof (C_neq0 z Hz) as Hq. destruct z as [a b]. cbn [fst snd] in *.
  unfold logabs, f_log, f_log1p, Cmod; cx. rewrite (half_is 0).
  set (x := Rabs a). set (y := Rabs b).
  assert (Hx : 0 <= x) by apply Rabs_pos. assert (Hy : 0 <= y) by apply Rabs_pos.
  assert (Hxx : x * x = a * a) by (unfold x; rewrite <- Rabs_mult; apply Rabs_pos_eq; nra).
  assert (Hyy : y * y = b * b) by (unfold y; rewrite <- Rabs_mult; apply Rabs_pos_eq; nra).
  replace (a ^ 2 + b ^ 2) with (x * x + y * y) by lra.
  destruct (Rleb_spec y x).
  - assert (Hxp : 0 < x) by nra.
    rewrite half_ln by nra. rewrite <- ln_mult; [|lra|apply sqrt_lt_R0; nra].
    f_equal. replace (1 + y / x * (y / x)) with (1 + (y / x)²) by (unfold Rsqr; ring). now apply scale_hyp'.
  - assert (Hyp : 0 < y) by lra.
    rewrite half_ln by nra. rewrite <- ln_mult; [|lra|apply sqrt_lt_R0; nra].
    f_equal. replace (1 + x / y * (x / y)) with (1 + (x / y)²) by (unfold Rsqr; ring).
    rewrite scale_hyp' by lra. f_equal. ring.
Qed.

Lemma Cmod_pos (z : C) : z <> (0, 0) -> 0 < Cmod z.
Proof. intros H. rewrite <- cabs_Cmod. now apply cabs_pos. Qed.

(* polar: modulus and argument of rho (cos t + i sin t) *)
Lemma polar_abs_arg (rho t : R) : 0 < rho -> - PI < t <= PI ->
  cabs RO (polar RO rho t) = rho /\ arg RO RE (polar RO rho t) = t.
Proof.
  intros Hr Ht. unfold polar, cabs, arg, f_hypot, f_cos, f_sin; cx. cbn [x_atan2 RE]. split.
  - apply polar_mod. lra.
  - assert (Hnz : negb (Reqb (rho * cos t) 0) || negb (Reqb (rho * sin t) 0) = true).
    { rcases; cbn; try reflexivity. exfalso. pose proof (sin2_cos2 t). unfold Rsqr in *. nra. }
    rewrite Hnz. now apply Ratan2_polar.
Qed.

(* ------------------------------------------------------------------ exp, log *)
Lemma exp_fb_Cexp (z : C) : exp_fb RO z = Cexp z.
Proof. reflexivity. Qed.

Lemma exp_fb_nonzero (z : C) : exp_fb RO z <> (0, 0).
Proof.
  destruct z as [x y]. unfold exp_fb, polar, f_exp, f_cos, f_sin; cx. intros E.
  assert (E1 := f_equal fst E). assert (E2 := f_equal snd E). cbn [fst snd] in *.
  pose proof (exp_pos x). pose proof (sin2_cos2 y). unfold Rsqr in *. nra.
Qed.

Lemma exp_fb_add (a b : C) : exp_fb RO (cadd RO a b) = mul_ RO (exp_fb RO a) (exp_fb RO b).
Proof.
  destruct a as [x y], b as [u v]. unfold exp_fb, polar, cadd, mul_, f_exp, f_cos, f_sin; cx.
  rewrite exp_plus, cos_plus, sin_plus. apply pair_eq; ring.
Qed.

Theorem exp_log_id (z : C) : z <> (0, 0) -> exp_fb RO (log_fb RO RE z) = z.
Proof.
  intros Hz. pose proof (arg_spec z Hz) as (_ & Hc & Hs). cbv zeta in *.
  unfold exp_fb, log_fb, polar, f_exp, f_cos, f_sin; cx.
  rewrite (logabs_spec z Hz), exp_ln by now apply Cmod_pos.
  destruct z as [x y]. cbn [fst snd] in *. now rewrite <- Hc, <- Hs.
Qed.

Theorem log_exp_id (z : C) : - PI < snd z <= PI -> log_fb RO RE (exp_fb RO z) = z.
Proof.
  intros Hy. unfold log_fb. rewrite (logabs_spec _ (exp_fb_nonzero z)).
  destruct z as [x y]. cbn [fst snd] in *. pose proof (exp_pos x) as He.
  unfold exp_fb, f_exp. destruct (polar_abs_arg (exp x) y He Hy) as [Ha Hg].
  rewrite <- cabs_Cmod. cx. rewrite Ha, Hg, ln_exp. reflexivity.
Qed.

(* ------------------------------------------------------------------ pow *)
Theorem pow_fb_spec (z a : C) : z <> (0, 0) -> pow_fb RO RE z a = exp_fb RO (mul_ RO a (log_fb RO RE z)).
Proof.
  intros Hz. destruct z as [x y], a as [u v]. unfold pow_fb; cx.
  assert (Hnz : negb (Reqb x 0) || negb (Reqb y 0) = true).
  { rcases; cbn; try reflexivity. subst. now elim Hz. }
  rewrite Hnz. unfold exp_fb, mul_, log_fb; cx. unfold polar. f_equal; f_equal; f_equal; ring.
Qed.

Lemma pow_fb_zero (a : C) : pow_fb RO RE (0, 0) a = if Req_EM_T (fst a) 0 then (if Req_EM_T (snd a) 0 then (1, 0) else (0, 0)) else (0, 0).
Proof.
  destruct a as [u v]. unfold pow_fb; cx. unfold Reqb. repeat destruct Req_EM_T; cbn; try reflexivity; lra.
Qed.

Theorem pow_real_spec (z : C) (a : R) : pow_real_ RO RE z a = pow_fb RO RE z (a, 0).
Proof.
  destruct z as [x y]. unfold pow_real_, pow_fb; cx. destruct (negb (Reqb x 0) || negb (Reqb y 0)).
  - unfold polar. f_equal; f_equal; f_equal; ring.
  - unfold Reqb. repeat destruct Req_EM_T; cbn; try reflexivity; lra.
Qed.

(* ------------------------------------------------------------------ log2, log10, logb (fallback log) *)
Lemma ln2_pos : 0 < ln 2.  Proof. rewrite <- ln_1. apply ln_increasing; lra. Qed.
Lemma ln10_pos : 0 < ln 10.  Proof. rewrite <- ln_1. apply ln_increasing; lra. Qed.

(* 2^(log2 z) = z and 10^(log10 z) = z, with b^w := exp (w ln b) *)
Theorem log2_spec (z : C) : z <> (0, 0) -> exp_fb RO (mul_real RO (log2_ RO RE fb_bind z) (ln 2)) = z.
Proof.
  intros Hz. rewrite <- (exp_log_id z Hz) at 2. f_equal. unfold log2_, clog_, mul_real. cbn [have fb_bind k_ln1_2 RE]. cx.
  pose proof ln2_pos. destruct (log_fb RO RE z) as [p q]; cbn [fst snd]. apply pair_eq; field; lra.
Qed.

Theorem log10_spec (z : C) : z <> (0, 0) -> exp_fb RO (mul_real RO (log10_ RO RE fb_bind z) (ln 10)) = z.
Proof.
  intros Hz. rewrite <- (exp_log_id z Hz) at 2. f_equal. unfold log10_, clog_, mul_real. cbn [have fb_bind k_ln1_10 RE]. cx.
  pose proof ln10_pos. destruct (log_fb RO RE z) as [p q]; cbn [fst snd]. apply pair_eq; field; lra.
Qed.

(* for every binding of log: log2 z = log z / ln 2 (componentwise), logb z b = log z / log b *)
Lemma log2_any (B : Binding R) (z : C) : log2_ RO RE B z = (fst (clog_ RO RE B z) / ln 2, snd (clog_ RO RE B z) / ln 2).
Proof. unfold log2_, mul_real. cbn [k_ln1_2 RE]. cx. reflexivity. Qed.
Lemma log10_any (B : Binding R) (z : C) : log10_ RO RE B z = (fst (clog_ RO RE B z) / ln 10, snd (clog_ RO RE B z) / ln 10).
Proof. unfold log10_, mul_real. cbn [k_ln1_10 RE]. cx. reflexivity. Qed.
Lemma logb_any (B : Binding R) (z b : C) : clog_ RO RE B b <> (0, 0) ->
  logb_ RO RE B z b = Cdiv (clog_ RO RE B z) (clog_ RO RE B b) /\ mul_ RO (logb_ RO RE B z b) (clog_ RO RE B b) = clog_ RO RE B z.
Proof. intros H. unfold logb_. split; [apply (div_Cdiv _ _ H) | now apply div_mul_id]. Qed.

