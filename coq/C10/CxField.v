(* C10 proofs, part 1: field arithmetic, scalar forms, inverse pairs, modulus, square root. *)
From Coq Require Import Reals ZArith Lra Psatz Bool.
From Coquelicot Require Import Coquelicot.
From LibaV Require Import Common.NumOps Common.ROps C10.CxDefs C10.CxReal.
Local Open Scope R_scope.

Notation Rsqrt := R_sqrt.sqrt.
Notation RO := R_ops.
Notation RE := R_ext.

Ltac cx := unfold_ops; cbn [R_fn1 R_fn2 fst snd] in *.

Lemma pair_eq (a b c d : R) : a = c -> b = d -> (a, b) = (c, d).
Proof. intros; subst; reflexivity. Qed.

Lemma C_neq0 (z : C) : z <> (0, 0) -> 0 < fst z * fst z + snd z * snd z.
Proof.
  destruct z as [x y]; cbn; intros H.
  destruct (Req_dec x 0) as [->|]; [destruct (Req_dec y 0) as [->|]; [now elim H|]|]; nra.
Qed.

Lemma C_zero_dec (z : C) : z = (0, 0) \/ z <> (0, 0).
Proof.
  destruct z as [x y]. destruct (Req_dec x 0) as [->|Hx]; [destruct (Req_dec y 0) as [->|Hy]|].
  - now left.
  - right; intros E; inversion E; lra.
  - right; intros E; inversion E; lra.
Qed.

Lemma hypot_sq (x y : R) : Rsqrt (x * x + y * y) * Rsqrt (x * x + y * y) = x * x + y * y.
Proof. apply sqrt_sqrt; nra. Qed.

Lemma cabs_Cmod (z : C) : cabs RO z = Cmod z.
Proof. unfold cabs, f_hypot, Cmod; cx. f_equal; ring. Qed.

Lemma cabs_pos (z : C) : z <> (0, 0) -> 0 < cabs RO z.
Proof. intros H; unfold cabs, f_hypot; cx. apply sqrt_lt_R0. now apply C_neq0. Qed.

Lemma abs2_Cmod (z : C) : abs2 RO z = Cmod z * Cmod z.
Proof. unfold abs2, Cmod; cx. rewrite sqrt_sqrt; [ring | nra]. Qed.

(* ---- +, -, *, /, 1/z are the field operations of C ---- *)
Lemma add_Cplus (x y : C) : cadd RO x y = Cplus x y.  Proof. reflexivity. Qed.
Lemma sub_Cminus (x y : C) : csub RO x y = Cminus x y.
Proof. destruct x, y; unfold csub, Cminus, Cplus, Copp; cx. apply pair_eq; ring. Qed.
Lemma neg_Copp (z : C) : neg RO z = Copp z.  Proof. reflexivity. Qed.
Lemma conj_Cconj (z : C) : conj RO z = Cconj z.  Proof. reflexivity. Qed.
Lemma mul_Cmult (x z : C) : mul_ RO x z = Cmult x z.  Proof. reflexivity. Qed.

Lemma inv_Cinv (z : C) : z <> (0, 0) -> cabs RO z <> 0 /\ inv_ RO z = Cinv z.
Proof.
  intros H. pose proof (cabs_pos z H) as Hp. split; [lra|].
  pose proof (C_neq0 z H) as Hq. destruct z as [x y].
  unfold inv_, Cinv, cabs, f_hypot in *; cx. set (h := Rsqrt (x * x + y * y)) in *.
  assert (Hh : h * h = x * x + y * y) by apply hypot_sq.
  replace (x ^ 2 + y ^ 2) with (h * h) by (rewrite Hh; ring).
  apply pair_eq; field; lra.
Qed.

Lemma div_Cdiv (x z : C) : z <> (0, 0) -> cabs RO z <> 0 /\ div_ RO x z = Cdiv x z.
Proof.
  intros H. pose proof (cabs_pos z H) as Hp. split; [lra|].
  pose proof (C_neq0 z H) as Hq. destruct z as [c d], x as [a b].
  unfold div_, Cdiv, Cmult, Cinv, cabs, f_hypot in *; cx. set (h := Rsqrt (c * c + d * d)) in *.
  assert (Hh : h * h = c * c + d * d) by apply hypot_sq.
  assert (Hi : (1 / h) * (1 / h) = / (c * c + d * d)).
  { rewrite <- Hh. field. lra. }
  apply pair_eq.
  - replace (a * (1 / h) * (c * (1 / h)) + b * (1 / h) * (d * (1 / h))) with ((a * c + b * d) * ((1 / h) * (1 / h))) by ring.
    rewrite Hi. field. nra.
  - replace (b * (1 / h) * (c * (1 / h)) - a * (1 / h) * (d * (1 / h))) with ((b * c - a * d) * ((1 / h) * (1 / h))) by ring.
    rewrite Hi. field. nra.
Qed.

(* ---- scalar forms are the operation with (y, 0) resp. (0, y) ---- *)
Lemma add_real_spec x y : add_real RO x y = cadd RO x (y, 0).
Proof. destruct x; unfold add_real, cadd; cx. apply pair_eq; ring. Qed.
Lemma add_imag_spec x y : add_imag RO x y = cadd RO x (0, y).
Proof. destruct x; unfold add_imag, cadd; cx. apply pair_eq; ring. Qed.
Lemma sub_real_spec x y : sub_real RO x y = csub RO x (y, 0).
Proof. destruct x; unfold sub_real, csub; cx. apply pair_eq; ring. Qed.
Lemma sub_imag_spec x y : sub_imag RO x y = csub RO x (0, y).
Proof. destruct x; unfold sub_imag, csub; cx. apply pair_eq; ring. Qed.
Lemma mul_real_spec x y : mul_real RO x y = mul_ RO x (y, 0).
Proof. destruct x; unfold mul_real, mul_; cx. apply pair_eq; ring. Qed.
Lemma mul_imag_spec x y : mul_imag RO x y = mul_ RO x (0, y).
Proof. destruct x; unfold mul_imag, mul_; cx. apply pair_eq; ring. Qed.
Lemma div_real_spec x y : y <> 0 -> div_real RO x y = div_ RO x (y, 0).
Proof.
  intros Hy. assert (Hz : (y, 0) <> (0, 0)) by (intros E; inversion E; lra).
  rewrite (proj2 (div_Cdiv x _ Hz)). destruct x as [a b]. unfold div_real, Cdiv, Cmult, Cinv; cx.
  apply pair_eq; field; nra.
Qed.
Lemma div_imag_spec x y : y <> 0 -> div_imag RO x y = div_ RO x (0, y).
Proof.
  intros Hy. assert (Hz : (0, y) <> (0, 0)) by (intros E; inversion E; lra).
  rewrite (proj2 (div_Cdiv x _ Hz)). destruct x as [a b]. unfold div_imag, Cdiv, Cmult, Cinv; cx.
  apply pair_eq; field; nra.
Qed.

(* ---- documented inverse pairs ---- *)
Lemma mul_div_real_id z y : y <> 0 -> div_real RO (mul_real RO z y) y = z.
Proof. intros; destruct z; unfold div_real, mul_real; cx. apply pair_eq; field; lra. Qed.
Lemma div_mul_real_id z y : y <> 0 -> mul_real RO (div_real RO z y) y = z.
Proof. intros; destruct z; unfold div_real, mul_real; cx. apply pair_eq; field; lra. Qed.
Lemma mul_div_imag_id z y : y <> 0 -> div_imag RO (mul_imag RO z y) y = z.
Proof. intros; destruct z; unfold div_imag, mul_imag; cx. apply pair_eq; field; lra. Qed.
Lemma div_mul_imag_id z y : y <> 0 -> mul_imag RO (div_imag RO z y) y = z.
Proof. intros; destruct z; unfold div_imag, mul_imag; cx. apply pair_eq; field; lra. Qed.

(* the body as found (a copy of mul_imag) is NOT the inverse of mul_imag: it composes to -z *)
Lemma div_imag_unfixed_refuted :
  exists z y, y <> 0 /\ div_imag_unfixed RO (mul_imag RO z y) y <> z /\ div_imag_unfixed RO (mul_imag RO z y) y = neg RO z.
Proof.
  exists (2, 3), 5. split; [lra|]. unfold div_imag_unfixed, mul_imag, neg; cx. split.
  - intros E. inversion E. lra.
  - apply pair_eq; field.
Qed.

Lemma inv_nonzero z : z <> (0, 0) -> inv_ RO z <> (0, 0).
Proof.
  intros H. rewrite (proj2 (inv_Cinv z H)). pose proof (C_neq0 z H) as Hq. destruct z as [x y]. unfold Cinv; cx.
  intros E. assert (E1 := f_equal fst E). assert (E2 := f_equal snd E). cbn [fst snd] in E1, E2.
  assert (Hx : x = x / (x ^ 2 + y ^ 2) * (x ^ 2 + y ^ 2)) by (field; nra).
  assert (Hy : y = - (- y / (x ^ 2 + y ^ 2) * (x ^ 2 + y ^ 2))) by (field; nra).
  rewrite E1 in Hx. rewrite E2 in Hy. nra.
Qed.

Lemma inv_inv_id z : z <> (0, 0) -> inv_ RO (inv_ RO z) = z.
Proof.
  intros H. rewrite (proj2 (inv_Cinv _ (inv_nonzero z H))), (proj2 (inv_Cinv z H)).
  pose proof (C_neq0 z H) as Hq. destruct z as [x y]. unfold Cinv; cx.
  apply pair_eq; field; nra.
Qed.

Lemma mul_inv_one z : z <> (0, 0) -> mul_ RO z (inv_ RO z) = (1, 0).
Proof.
  intros H. rewrite (proj2 (inv_Cinv z H)). pose proof (C_neq0 z H) as Hq. destruct z as [x y].
  unfold mul_, Cinv; cx. apply pair_eq; field; nra.
Qed.

Lemma div_mul_id x z : z <> (0, 0) -> mul_ RO (div_ RO x z) z = x.
Proof.
  intros H. rewrite (proj2 (div_Cdiv x z H)). pose proof (C_neq0 z H) as Hq. destruct z as [c d], x as [a b].
  unfold mul_, Cdiv, Cmult, Cinv; cx. apply pair_eq; field; nra.
Qed.

Lemma half_is_2 (x : R) : half RO = / 2.
Proof. unfold half; cx. unfold powerRZ. simpl. field. Qed.
Lemma quarter_is (x : R) : quarter RO = / 4.
Proof. unfold quarter; cx. unfold powerRZ. simpl. field. Qed.
