(* C10: the real-number instance of ExtOps (what the libm names mean over R), and the mathematical definitions the
   theorems compare the model with.  Definitions only. *)
From Coq Require Import Reals ZArith.
From Coquelicot Require Import Coquelicot.
From LibaV Require Import Common.NumOps Common.ROps C10.CxDefs.
Local Open Scope R_scope.

(* atan2(y, x): the angle of the point (x, y) in (-PI, PI], 0 at the origin *)
Definition Ratan2 (y x : R) : R :=
  if Rlt_dec 0 x then atan (y / x)
  else if Rlt_dec x 0 then (if Rle_dec 0 y then atan (y / x) + PI else atan (y / x) - PI)
  else if Rlt_dec 0 y then PI / 2
  else if Rlt_dec y 0 then - (PI / 2)
  else 0.

Definition Racosh (x : R) : R := ln (x + R_sqrt.sqrt (x * x - 1)).
Definition Ratanh (x : R) : R := / 2 * ln ((1 + x) / (1 - x)).
(* pow(x, 2) = x*x for every x (Rpower is only defined for positive bases) *)
Definition Rpow (x y : R) : R := if Req_EM_T y 2 then x * x else Rpower x y.

(* the exact constants: the theorems are about these; CxConst.v bounds the distance of the binary64 literals *)
Definition R_ext : ExtOps R := {|
  x_atan2 := Ratan2; x_acosh := Racosh; x_atanh := Ratanh; x_pow := Rpow;
  k_sqrt1_2 := / R_sqrt.sqrt 2; k_pi := PI; k_pi_2 := PI / 2; k_ln1_2 := / ln 2; k_ln1_10 := / ln 10
|}.

(* a binding in which no A_HAVE_C* switch is on: every fallback body in use *)
Definition fb_bind : Binding R := {| have := fun _ => false; lib1c := fun _ z => z; lib_cpow := fun z _ => z |}.

(* ---- the mathematical functions, through the complex exponential (Coquelicot's C = R * R) ---- *)
Definition Cexp (z : C) : C := (exp (fst z) * cos (snd z), exp (fst z) * sin (snd z)).
Definition two : C := RtoC 2.
Definition Csin (z : C) : C := Cdiv (Cminus (Cexp (Cmult Ci z)) (Cexp (Copp (Cmult Ci z)))) (Cmult two Ci).
Definition Ccos (z : C) : C := Cdiv (Cplus (Cexp (Cmult Ci z)) (Cexp (Copp (Cmult Ci z)))) two.
Definition Csinh (z : C) : C := Cdiv (Cminus (Cexp z) (Cexp (Copp z))) two.
Definition Ccosh (z : C) : C := Cdiv (Cplus (Cexp z) (Cexp (Copp z))) two.
Definition Ctan (z : C) : C := Cdiv (Csin z) (Ccos z).
Definition Ctanh (z : C) : C := Cdiv (Csinh z) (Ccosh z).

(* principal square root: the root in the closed right half plane, on the imaginary axis the upper one *)
Definition principal_root (w z : C) : Prop :=
  Cmult w w = z /\ (0 < fst w \/ (fst w = 0 /\ 0 <= snd w)).

(* the literal of a/math.h as a real number *)
Definition lit (m e : Z) : R := IZR m * powerRZ 2 e.
