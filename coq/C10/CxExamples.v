(* C10: non-vacuity - the hypotheses of the property theorems are satisfied by concrete non-trivial points. *)
From Coq Require Import Reals ZArith Lra Psatz Bool.
From Coquelicot Require Import Coquelicot.
From LibaV Require Import Common.NumOps Common.ROps C10.CxDefs C10.CxReal C10.CxField C10.CxSqrt C10.CxExpLog C10.CxTrig
  C10.CxInverse.
Local Open Scope R_scope.

Example ex_nonzero : (-3, -4) <> ((0, 0) : C).
Proof. intros E. inversion E. lra. Qed.

(* third quadrant: the case the unfixed sqrt got wrong *)
Example ex_sqrt_q3 : principal_root (sqrt_fb RO RE (-3, -4)) (-3, -4).
Proof. apply sqrt_fb_principal. Qed.

Example ex_div : div_ RO (1, 2) (-3, -4) = Cdiv (1, 2) (-3, -4).
Proof. apply (div_Cdiv _ _ ex_nonzero). Qed.

Example ex_scalar : (5 : R) <> 0.  Proof. lra. Qed.
Example ex_mul_div_imag : div_imag RO (mul_imag RO (2, 3) 5) 5 = (2, 3).
Proof. apply mul_div_imag_id, ex_scalar. Qed.

Example ex_exp_log : exp_fb RO (log_fb RO RE (-3, -4)) = (-3, -4).
Proof. apply exp_log_id, ex_nonzero. Qed.

Example ex_strip : - PI < snd ((2, -3) : C) <= PI.
Proof. cbn. pose proof PI_RGT_0. pose proof PI_4. split; [|lra].
  assert (3 < PI); [|lra]. pose proof (PI2_3_2). unfold PI2 in *. lra. Qed.
Example ex_log_exp : log_fb RO RE (exp_fb RO (2, -3)) = (2, -3).
Proof. apply log_exp_id, ex_strip. Qed.

Example ex_polar : 0 < 2 /\ - PI < -1 <= PI.
Proof. pose proof PI_RGT_0. pose proof (PI2_3_2). unfold PI2 in *. lra. Qed.

Example ex_pow : pow_fb RO RE (-3, -4) (0, 1) = exp_fb RO (mul_ RO (0, 1) (log_fb RO RE (-3, -4))).
Proof. apply pow_fb_spec, ex_nonzero. Qed.

(* away from the poles of tan / tanh *)
Example ex_cos_nonzero : Ccos (0, 1) <> (0, 0).
Proof. rewrite Ccos_parts. cbn [fst snd]. intros E. assert (E1 := f_equal fst E). cbn [fst] in E1.
  rewrite cos_0 in E1. pose proof (cosh_pos 1). lra. Qed.
Example ex_cosh_nonzero : Ccosh (1, 0) <> (0, 0).
Proof. rewrite Ccosh_parts. cbn [fst snd]. intros E. assert (E1 := f_equal fst E). cbn [fst] in E1.
  rewrite cos_0 in E1. pose proof (cosh_pos 1). lra. Qed.
Example ex_tan : tan_fb RO RE (0, 1) = Ctan (0, 1).
Proof. apply (tan_fb_spec _ ex_cos_nonzero). Qed.
Example ex_tanh : tanh_fb RO RE (1, 0) = Ctanh (1, 0).
Proof. apply (tanh_fb_spec _ ex_cosh_nonzero). Qed.

Example ex_sec : sec_ RO fb_bind (0, 1) = Cinv (Ccos (0, 1)).
Proof. apply sec_fb_spec, ex_cos_nonzero. Qed.

Example ex_atanh_structure : snd ((1, 2) : C) <> 0.  Proof. cbn. lra. Qed.
Example ex_asec_real : (1 / 2 : R) <> 0.  Proof. lra. Qed.
