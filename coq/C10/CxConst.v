(* C10 proofs, part 4: the irrational constants complex.c takes from a/math.h.  The theorems over R use the exact values
   (CxReal.R_ext); here the binary64 values of the literals (the ones the bit-exact model uses, and the check compares with
   the current header) are shown to be within 2^-53 (relative) of them - by interval arithmetic. *)
From Coq Require Import Reals ZArith Lra.
From Interval Require Import Tactic.
From LibaV Require Import Common.NumOps Common.ROps C10.CxDefs C10.CxReal.
Local Open Scope R_scope.

Ltac lit_norm := unfold lit, SQRT1_2_m, SQRT1_2_e, PI_m, PI_e, PI_2_m, PI_2_e, LN1_2_m, LN1_2_e, LN1_10_m, LN1_10_e,
                 LN1_2_bad_m, LN1_2_bad_e, powerRZ; simpl Pos.to_nat.

Lemma const_sqrt1_2 : Rabs (lit SQRT1_2_m SQRT1_2_e * R_sqrt.sqrt 2 - 1) <= / 2 ^ 53.
Proof. lit_norm. interval with (i_prec 100). Qed.

Lemma const_pi : Rabs (lit PI_m PI_e / PI - 1) <= / 2 ^ 53.
Proof. lit_norm. interval with (i_prec 100). Qed.

Lemma const_pi_2 : Rabs (lit PI_2_m PI_2_e / (PI / 2) - 1) <= / 2 ^ 53.
Proof. lit_norm. interval with (i_prec 100). Qed.

(* A_LN1_2 * ln 2 = 1 and A_LN1_10 * ln 10 = 1 to within 2^-53 (after the fix C10-2) *)
Lemma const_ln1_2 : Rabs (lit LN1_2_m LN1_2_e * ln 2 - 1) <= / 2 ^ 53.
Proof. lit_norm. interval with (i_prec 100). Qed.

Lemma const_ln1_10 : Rabs (lit LN1_10_m LN1_10_e * ln 10 - 1) <= / 2 ^ 53.
Proof. lit_norm. interval with (i_prec 100). Qed.

(* the literal as found, 3.32192809488736218171, is log2(10): off by a factor 2.3 *)
Lemma const_ln1_2_unfixed_refuted :
  Rabs (lit LN1_2_bad_m LN1_2_bad_e * ln 2 - 1) >= 1 /\ Rabs (lit LN1_2_bad_m LN1_2_bad_e * ln 2 - ln 10) <= / 2 ^ 50.
Proof. lit_norm. split; interval with (i_prec 100). Qed.
