(* C10 model: src/complex.c and the inline functions of include/a/complex.h, transcribed statement by statement as
   functions on pairs (real, imag), polymorphic over NumOps (basic IEEE/real operations and the libm functions of
   Common/NumOps.v), ExtOps (the libm functions NumOps has no name for, and the five irrational constants of a/math.h that
   complex.c uses) and Binding (which of the 16 A_HAVE_C* switches are on, and what the C library functions they select
   compute).  No proofs here.

   What is modelled is the FIXED code (proposed_fixes/C10-1..5): div_imag sign, A_LN1_2 = 1/ln 2, third-quadrant sqrt,
   acosh through acos, atan on the imaginary axis.  The behaviour of the unfixed bodies is kept as *_unfixed for the
   `_refuted` witnesses.

   Conventions of the transcription:
     a_real_abs = fabs            -> abs O         a_real_sqrt = sqrt      -> sqrt O
     a_real_hypot(a,b)            -> fn2 O Hypot a b
     a_real_atan2(y,x)            -> x_atan2 E y x          a_real_pow(a,2) -> x_pow E a 2
     a_real_acosh / a_real_atanh  -> x_acosh E / x_atanh E
     a_real_log1p / exp / log / sin / cos / sinh / cosh / tanh / asin / acos / atan -> fn1 O ...
     integer literal n            -> ofZ O n       A_REAL_C(0.5) etc. -> ofD O m e (the exact binary64 value)
     x != 0                       -> neb O x 0     x >= y -> geb O x y  (all false on NaN except !=, as in C)
   (with A_HAVE_HYPOT/ATAN2/LOG1P/ACOSH/ATANH off, these names are bound to the bodies in src/math.c: property C11.) *)
From Coq Require Import ZArith Bool.
From LibaV Require Import Common.NumOps.

(* the 16 switches A_HAVE_CSQRT ... A_HAVE_CATANH *)
Inductive cfun := CSqrt | CExp | CLog | CSin | CCos | CTan | CSinh | CCosh | CTanh
                | CAsin | CAcos | CAtan | CAsinh | CAcosh | CAtanh | CPow.

Record ExtOps (T : Type) := {
  x_atan2 : T -> T -> T;        (* atan2(y, x) *)
  x_acosh : T -> T;
  x_atanh : T -> T;
  x_pow : T -> T -> T;          (* pow(x, y); complex.c only calls pow(x, 2) *)
  k_sqrt1_2 : T;                (* A_REAL_SQRT1_2 *)
  k_pi : T;                     (* A_REAL_PI *)
  k_pi_2 : T;                   (* A_REAL_PI_2 *)
  k_ln1_2 : T;                  (* A_REAL_LN1_2 *)
  k_ln1_10 : T                  (* A_REAL_LN1_10 *)
}.
Arguments x_atan2 {T}. Arguments x_acosh {T}. Arguments x_atanh {T}. Arguments x_pow {T}.
Arguments k_sqrt1_2 {T}. Arguments k_pi {T}. Arguments k_pi_2 {T}. Arguments k_ln1_2 {T}. Arguments k_ln1_10 {T}.

Record Binding (T : Type) := {
  have : cfun -> bool;                         (* A_HAVE_C<f> defined and > 0 *)
  lib1c : cfun -> T * T -> T * T;              (* csqrt, cexp, ... of the C library *)
  lib_cpow : T * T -> T * T -> T * T           (* cpow *)
}.
Arguments have {T}. Arguments lib1c {T}. Arguments lib_cpow {T}.

(* the double values of the literals in a/math.h (after the fix of A_LN1_2), as m * 2^e *)
Definition SQRT1_2_m := 6369051672525773%Z.  Definition SQRT1_2_e := (-53)%Z.   (* 0.707106781186547524401 *)
Definition PI_m := 884279719003555%Z.        Definition PI_e := (-48)%Z.        (* 3.14159265358979323846 *)
Definition PI_2_m := 884279719003555%Z.      Definition PI_2_e := (-49)%Z.      (* 1.57079632679489661923 *)
Definition LN1_2_m := 3248660424278399%Z.    Definition LN1_2_e := (-51)%Z.     (* 1.44269504088896340736 *)
Definition LN1_10_m := 3911776933737095%Z.   Definition LN1_10_e := (-53)%Z.    (* 0.434294481903251827651 *)
(* the literal the unfixed header has for A_LN1_2: 3.32192809488736218171 = log2(10) *)
Definition LN1_2_bad_m := 7480317065143153%Z. Definition LN1_2_bad_e := (-51)%Z.

Section Model.
  Context {T : Type} (O : NumOps T) (E : ExtOps T) (B : Binding T).
  Local Notation "x + y" := (add O x y) (at level 50, left associativity).
  Local Notation "x - y" := (sub O x y) (at level 50, left associativity).
  Local Notation "x * y" := (mul O x y) (at level 40, left associativity).
  Local Notation "x / y" := (div O x y) (at level 40, left associativity).
  Local Notation "- x" := (opp O x) (at level 35, right associativity).
  Local Notation "x <? y" := (ltb O x y) (at level 70).
  Local Notation "x <=? y" := (leb O x y) (at level 70).
  Local Notation "x >? y" := (gtb O x y) (at level 70).
  Local Notation "x >=? y" := (geb O x y) (at level 70).
  Local Notation "x !=? y" := (neb O x y) (at level 70).
  Local Notation "x ==? y" := (eqb O x y) (at level 70).
  Local Notation "# z" := (ofZ O z%Z) (at level 0, z at level 0).
  Local Notation C := (T * T)%type.

  Definition half : T := ofD O 1 (-1).                          (* A_REAL_C(0.5) *)
  Definition quarter : T := ofD O 1 (-2).                       (* A_REAL_C(0.25) *)
  Definition tenth : T := ofD O 3602879701896397 (-55).         (* A_REAL_C(0.1) *)
  Definition a_crossover : T := ofD O 3 (-1).                   (* A_REAL_C(1.5) *)
  Definition b_crossover : T := ofD O 5779919761767295 (-53).   (* A_REAL_C(0.6417) *)

  Definition f_exp := fn1 O Exp.     Definition f_log := fn1 O Log.     Definition f_log1p := fn1 O Log1p.
  Definition f_sin := fn1 O Sin.     Definition f_cos := fn1 O Cos.
  Definition f_sinh := fn1 O Sinh.   Definition f_cosh := fn1 O Cosh.   Definition f_tanh := fn1 O Tanh.
  Definition f_asin := fn1 O Asin.   Definition f_acos := fn1 O Acos.   Definition f_atan := fn1 O Atan.
  Definition f_hypot := fn2 O Hypot.

  (* ------------------------------------------------------------------ always compiled: src/complex.c:41-154 *)
  Definition rect (re im : T) : C := (re, im).
  Definition polar (rho theta : T) : C := (rho * f_cos theta, rho * f_sin theta).

  Definition logabs (z : C) : T :=
    let xabs := abs O (fst z) in
    let yabs := abs O (snd z) in
    if xabs >=? yabs
    then (let r := xabs in let u := yabs / xabs in f_log r + half * f_log1p (u * u))
    else (let r := yabs in let u := xabs / yabs in f_log r + half * f_log1p (u * u)).

  Definition abs2 (z : C) : T := fst z * fst z + snd z * snd z.
  Definition cabs (z : C) : T := f_hypot (fst z) (snd z).
  Definition arg (z : C) : T :=
    if (fst z !=? #0) || (snd z !=? #0) then x_atan2 E (snd z) (fst z) else #0.

  Definition mul_ (x z : C) : C :=
    let real := fst x in
    (real * fst z - snd x * snd z, real * snd z + snd x * fst z).

  Definition div_ (x z : C) : C :=
    let inv := #1 / cabs z in
    let xr := fst x * inv in
    let xi := snd x * inv in
    let yr := fst z * inv in
    let yi := snd z * inv in
    (xr * yr + xi * yi, xi * yr - xr * yi).

  Definition inv_ (x : C) : C :=
    let inv := #1 / cabs x in
    (inv * fst x * inv, (- inv) * snd x * inv).

  (* ------------------------------------------------------------------ inline: include/a/complex.h *)
  Definition conj (z : C) : C := (fst z, - snd z).
  Definition neg (z : C) : C := (- fst z, - snd z).
  Definition cadd (x y : C) : C := (fst x + fst y, snd x + snd y).
  Definition csub (x y : C) : C := (fst x - fst y, snd x - snd y).
  Definition add_real (x : C) (y : T) : C := (fst x + y, snd x).
  Definition add_imag (x : C) (y : T) : C := (fst x, snd x + y).
  Definition sub_real (x : C) (y : T) : C := (fst x - y, snd x).
  Definition sub_imag (x : C) (y : T) : C := (fst x, snd x - y).
  Definition mul_real (x : C) (y : T) : C := (fst x * y, snd x * y).
  Definition mul_imag (x : C) (y : T) : C := ((- snd x) * y, fst x * y).
  Definition div_real (x : C) (y : T) : C := (fst x / y, snd x / y).
  (* FIXED (C10-1): x / (i y) = (imag / y, -real / y) *)
  Definition div_imag (x : C) (y : T) : C := (snd x / y, (- fst x) / y).
  (* as found: a copy of mul_imag with / for * *)
  Definition div_imag_unfixed (x : C) (y : T) : C := ((- snd x) / y, fst x / y).

  (* ------------------------------------------------------------------ sqrt *)
  Definition sqrt_w (z : C) : T :=
    let x := abs O (fst z) in
    let y := abs O (snd z) in
    if x >=? y
    then (let u := y / x in k_sqrt1_2 E * sqrt O x * sqrt O (sqrt O (u * u + #1) + #1))
    else (let u := x / y in k_sqrt1_2 E * sqrt O y * sqrt O (sqrt O (u * u + #1) + u)).

  (* FIXED (C10-3) *)
  Definition sqrt_fb (z : C) : C :=
    if (fst z !=? #0) || (snd z !=? #0) then
      let w := sqrt_w z in
      if fst z >=? #0 then (w, snd z / (#2 * w))
      else (let vi := if snd z <? #0 then - w else w in (snd z / (#2 * vi), vi))
    else z.

  Definition sqrt_fb_unfixed (z : C) : C :=
    if (fst z !=? #0) || (snd z !=? #0) then
      let w := sqrt_w z in
      if fst z >=? #0 then (w, snd z / (#2 * w))
      else (snd z / (#2 * w), if snd z <? #0 then - w else w)
    else z.

  Definition csqrt_ (z : C) : C := if have B CSqrt then lib1c B CSqrt z else sqrt_fb z.

  Definition sqrt_real (x : T) : C := if x >=? #0 then (sqrt O x, #0) else (#0, sqrt O (- x)).

  (* ------------------------------------------------------------------ pow, exp, log *)
  Definition pow_fb (z a : C) : C :=
    if (fst z !=? #0) || (snd z !=? #0) then
      let logr := logabs z in
      let theta := arg z in
      let rho := f_exp (logr * fst a - theta * snd a) in
      let beta := theta * fst a + logr * snd a in
      polar rho beta
    else ((if (fst a ==? #0) && (snd a ==? #0) then #1 else #0), snd z).
  Definition cpow_ (z a : C) : C := if have B CPow then lib_cpow B z a else pow_fb z a.

  Definition pow_real_ (z : C) (a : T) : C :=
    if (fst z !=? #0) || (snd z !=? #0) then
      let logr := logabs z in
      let theta := arg z in
      let rho := f_exp (logr * a) in
      let beta := theta * a in
      polar rho beta
    else ((if a ==? #0 then #1 else #0), snd z).

  Definition exp_fb (z : C) : C := polar (f_exp (fst z)) (snd z).
  Definition cexp_ (z : C) : C := if have B CExp then lib1c B CExp z else exp_fb z.

  Definition log_fb (z : C) : C := (logabs z, arg z).
  Definition clog_ (z : C) : C := if have B CLog then lib1c B CLog z else log_fb z.

  Definition log2_ (z : C) : C := mul_real (clog_ z) (k_ln1_2 E).
  Definition log10_ (z : C) : C := mul_real (clog_ z) (k_ln1_10 E).
  Definition logb_ (z b : C) : C := div_ (clog_ z) (clog_ b).

  (* ------------------------------------------------------------------ sin cos tan and reciprocals *)
  Definition sin_fb (z : C) : C :=
    if snd z !=? #0 then
      let real := fst z in
      (f_sin real * f_cosh (snd z), f_cos real * f_sinh (snd z))
    else (f_sin (fst z), snd z).
  Definition csin_ (z : C) : C := if have B CSin then lib1c B CSin z else sin_fb z.

  Definition cos_fb (z : C) : C :=
    if snd z !=? #0 then
      let real := fst z in
      (f_cos real * f_cosh (snd z), f_sin real * f_sinh (- snd z))
    else (f_cos (fst z), snd z).
  Definition ccos_ (z : C) : C := if have B CCos then lib1c B CCos z else cos_fb z.

  Definition tan_fb (z : C) : C :=
    let cr := f_cos (fst z) in
    let si := f_sinh (snd z) in
    let den := cr * cr + si * si in
    let re := half * f_sin (#2 * fst z) / den in
    if abs O (snd z) <? #1
    then (re, half * f_sinh (#2 * snd z) / den)
    else (let d := x_pow E (cr / si) #2 + #1 in (re, #1 / (f_tanh (snd z) * d))).
  Definition ctan_ (z : C) : C := if have B CTan then lib1c B CTan z else tan_fb z.

  Definition sec_ (z : C) : C := inv_ (ccos_ z).
  Definition csc_ (z : C) : C := inv_ (csin_ z).
  Definition cot_ (z : C) : C := inv_ (ctan_ z).

  (* ------------------------------------------------------------------ asin acos atan and reciprocals *)
  Definition asin_real (x : T) : C :=
    if abs O x <=? #1 then (f_asin x, #0)
    else if x >? #0 then (k_pi_2 E, - x_acosh E x)
    else (- k_pi_2 E, x_acosh E (- x)).

  Definition acos_real (x : T) : C :=
    if abs O x <=? #1 then (f_acos x, #0)
    else if x >? #0 then (#0, x_acosh E x)
    else (k_pi E, - x_acosh E (- x)).

  (* the part shared by the asin and acos fallbacks (Hull, Fairgrieve, Tang as in GSL): the imaginary magnitude *)
  Definition hull_imag (x y r s a y2 : T) : T :=
    if a <=? a_crossover then
      let am1 := if x <? #1
                 then half * (y2 / (r + x + #1) + y2 / (s + #1 - x))
                 else half * (y2 / (r + x + #1) + (s + x - #1)) in
      f_log1p (am1 + sqrt O ((a + #1) * am1))
    else f_log (a + sqrt O (a * a - #1)).

  Definition asin_fb (z : C) : C :=
    if snd z !=? #0 then
      let x := abs O (fst z) in
      let y := abs O (snd z) in
      let r := f_hypot (x + #1) y in
      let s := f_hypot (x - #1) y in
      let a := half * (r + s) in
      let b := x / a in
      let y2 := y * y in
      let re :=
        if b <=? b_crossover then f_asin b
        else if x <=? #1 then
          (let den := half * (a + x) * (y2 / (r + x + #1) + (s + #1 - x)) in f_atan (x / sqrt O den))
        else
          (let apx := a + x in
           let den := half * (apx / (r + x + #1) + apx / (s + x - #1)) in f_atan (x / (sqrt O den * y))) in
      let im := hull_imag x y r s a y2 in
      ((if fst z <? #0 then - re else re), (if snd z <? #0 then - im else im))
    else asin_real (fst z).
  Definition casin_ (z : C) : C := if have B CAsin then lib1c B CAsin z else asin_fb z.

  Definition acos_fb (z : C) : C :=
    if snd z !=? #0 then
      let x := abs O (fst z) in
      let y := abs O (snd z) in
      let r := f_hypot (x + #1) y in
      let s := f_hypot (x - #1) y in
      let a := half * (r + s) in
      let b := x / a in
      let y2 := y * y in
      let re :=
        if b <=? b_crossover then f_acos b
        else if x <=? #1 then
          (let den := half * (a + x) * (y2 / (r + x + #1) + (s + #1 - x)) in f_atan (sqrt O den / x))
        else
          (let apx := a + x in
           let den := half * (apx / (r + x + #1) + apx / (s + x - #1)) in f_atan (sqrt O den * y / x)) in
      let im := hull_imag x y r s a y2 in
      ((if fst z <? #0 then k_pi E - re else re), (if snd z >=? #0 then - im else im))
    else acos_real (fst z).
  Definition cacos_ (z : C) : C := if have B CAcos then lib1c B CAcos z else acos_fb z.

  (* pi_axis: the value returned on the imaginary axis beyond +-i.  FIXED (C10-5): A_REAL_PI_2; as found: A_REAL_PI *)
  Definition atan_fb_gen (pi_axis : T) (z : C) : C :=
    if snd z !=? #0 then
      let r := f_hypot (fst z) (snd z) in
      let u := #2 * snd z / (r * r + #1) in
      let imag := snd z in
      let im := if abs O u <? tenth
                then quarter * (f_log1p u - f_log1p (- u))
                else (let a := f_hypot (fst z) (snd z + #1) in
                      let b := f_hypot (fst z) (snd z - #1) in
                      half * f_log (a / b)) in
      if fst z !=? #0 then (half * x_atan2 E (#2 * fst z) ((#1 + r) * (#1 - r)), im)
      else if imag >? #1 then (pi_axis, im)
      else if imag <? - #1 then (- pi_axis, im)
      else (#0, im)
    else (f_atan (fst z), snd z).
  Definition atan_fb := atan_fb_gen (k_pi_2 E).
  Definition atan_fb_unfixed := atan_fb_gen (k_pi E).
  Definition catan_ (z : C) : C := if have B CAtan then lib1c B CAtan z else atan_fb z.

  Definition asec_ (z : C) : C := cacos_ (inv_ z).
  Definition asec_real (x : T) : C :=
    if (x <=? - #1) || (x >=? #1) then (f_acos (#1 / x), #0)
    else if x >=? #0 then (#0, x_acosh E (#1 / x))
    else (k_pi E, - x_acosh E ((- #1) / x)).

  Definition acsc_ (z : C) : C := casin_ (inv_ z).
  Definition acsc_real (x : T) : C :=
    if (x <=? - #1) || (x >=? #1) then (f_asin (#1 / x), #0)
    else if x >=? #0 then (k_pi_2 E, - x_acosh E (#1 / x))
    else (- k_pi_2 E, x_acosh E ((- #1) / x)).

  Definition acot_ (z : C) : C :=
    if (fst z !=? #0) || (snd z !=? #0) then catan_ (inv_ z) else (k_pi_2 E, snd z).

  (* ------------------------------------------------------------------ sinh cosh tanh and reciprocals *)
  Definition sinh_fb (z : C) : C :=
    let real := fst z in (f_sinh real * f_cos (snd z), f_cosh real * f_sin (snd z)).
  Definition csinh_ (z : C) : C := if have B CSinh then lib1c B CSinh z else sinh_fb z.

  Definition cosh_fb (z : C) : C :=
    let real := fst z in (f_cosh real * f_cos (snd z), f_sinh real * f_sin (snd z)).
  Definition ccosh_ (z : C) : C := if have B CCosh then lib1c B CCosh z else cosh_fb z.

  Definition tanh_fb (z : C) : C :=
    let ci := f_cos (snd z) in
    let sr := f_sinh (fst z) in
    let den := ci * ci + sr * sr in
    let im := half * f_sin (#2 * snd z) / den in
    if abs O (fst z) <? #1
    then (f_sinh (fst z) * f_cosh (fst z) / den, im)
    else (let d := x_pow E (ci / sr) #2 + #1 in (#1 / (f_tanh (fst z) * d), im)).
  Definition ctanh_ (z : C) : C := if have B CTanh then lib1c B CTanh z else tanh_fb z.

  Definition sech_ (z : C) : C := inv_ (ccosh_ z).
  Definition csch_ (z : C) : C := inv_ (csinh_ z).
  Definition coth_ (z : C) : C := inv_ (ctanh_ z).

  (* ------------------------------------------------------------------ asinh acosh atanh and reciprocals *)
  Definition asinh_fb (z : C) : C := mul_imag (casin_ (mul_imag z #1)) (- #1).
  Definition casinh_ (z : C) : C := if have B CAsinh then lib1c B CAsinh z else asinh_fb z.

  (* FIXED (C10-4): through acos.  As found: through acsc = asin(1/z). *)
  Definition acosh_fb (z : C) : C :=
    let w := cacos_ z in mul_imag w (if snd w >? #0 then - #1 else #1).
  Definition acosh_fb_unfixed (z : C) : C :=
    let w := acsc_ z in mul_imag w (if snd w >? #0 then - #1 else #1).
  Definition cacosh_ (z : C) : C := if have B CAcosh then lib1c B CAcosh z else acosh_fb z.

  Definition acosh_real (x : T) : C :=
    if x >=? #1 then (x_acosh E x, #0)
    else if x >=? - #1 then (#0, f_acos x)
    else (x_acosh E (- x), k_pi E).

  Definition atanh_real (x : T) : C :=
    if (x >? - #1) && (x <? #1) then (x_atanh E x, #0)
    else (x_atanh E (#1 / x), if x <? #0 then k_pi_2 E else - k_pi_2 E).

  (* complex.c:880 has an unconditional "#undef A_HAVE_CATANH": catanh of the C library is never used, the fallback
     body is compiled in every configuration.  The model follows the code: the switch is ignored. *)
  Definition atanh_fb (z : C) : C :=
    if snd z !=? #0 then mul_imag (catan_ (mul_imag z #1)) (- #1)
    else atanh_real (fst z).
  Definition catanh_ (z : C) : C := atanh_fb z.

  (* ------------------------------------------------------------------ proj (C99 cproj): the identity on finite values *)
  (* isinf as a/math.h itself falls back to: x + x == x && x != 0; A_REAL_INF = DBL_MAX * DBL_MAX *)
  Definition isinf_ (x : T) : bool := (x + x ==? x) && (x !=? #0).
  Definition real_inf : T := ofD O 9007199254740991 971 * ofD O 9007199254740991 971.
  Definition proj_ (z : C) : C :=
    if isinf_ (fst z) || isinf_ (snd z) then (real_inf, if snd z <? #0 then - #0 else #0) else z.

  Definition asech_ (z : C) : C := cacosh_ (inv_ z).
  Definition acsch_ (z : C) : C := casinh_ (inv_ z).
  Definition acoth_ (z : C) : C := catanh_ (inv_ z).
End Model.
