(* C10 proofs, part 5: the forward trigonometric / hyperbolic fallbacks equal their definitions through the complex
   exponential; the reciprocal families are reciprocals, for every binding. *)
From Coq Require Import Reals ZArith Lra Psatz Bool.
From Coquelicot Require Import Coquelicot.
From LibaV Require Import Common.NumOps Common.ROps C10.CxDefs C10.CxReal C10.CxField.
Local Open Scope R_scope.

Lemma cosh_pos (y : R) : 0 < cosh y.
Proof. unfold cosh. pose proof (exp_pos y). pose proof (exp_pos (- y)). lra. Qed.

Lemma cosh2_sinh2 (y : R) : cosh y * cosh y - sinh y * sinh y = 1.
Proof.
  unfold cosh, sinh. assert (exp y * exp (- y) = 1) by (rewrite <- exp_plus, Rplus_opp_r; apply exp_0).
  field_simplify. nra.
Qed.

Lemma sinh_2a (y : R) : sinh (2 * y) = 2 * sinh y * cosh y.
Proof.
  unfold sinh, cosh. replace (2 * y) with (y + y) by ring. replace (- (y + y)) with (- y + - y) by ring.
  rewrite !exp_plus. field.
Qed.

Lemma sinh_nonzero (y : R) : y <> 0 -> sinh y <> 0.
Proof.
  intros H. destruct (Rlt_dec y 0).
  - pose proof (sinh_lt y 0). rewrite sinh_0 in *. lra.
  - pose proof (sinh_lt 0 y). rewrite sinh_0 in *. lra.
Qed.

(* components of the exponential definitions *)
Lemma Csin_parts (z : C) : Csin z = (sin (fst z) * cosh (snd z), cos (fst z) * sinh (snd z)).
Proof.
  destruct z as [x y]. unfold Csin, Cdiv, Cminus, Cplus, Copp, Cmult, Cinv, Cexp, Ci, two, RtoC. cbn [fst snd].
  replace (- (0 * x - 1 * y)) with y by ring. replace (0 * x - 1 * y) with (- y) by ring.
  replace (- (0 * y + 1 * x)) with (- x) by ring. replace (0 * y + 1 * x) with x by ring.
  rewrite cos_neg, sin_neg. unfold cosh, sinh. apply pair_eq; field.
Qed.

Lemma Ccos_parts (z : C) : Ccos z = (cos (fst z) * cosh (snd z), - (sin (fst z) * sinh (snd z))).
Proof.
  destruct z as [x y]. unfold Ccos, Cdiv, Cminus, Cplus, Copp, Cmult, Cinv, Cexp, Ci, two, RtoC. cbn [fst snd].
  replace (- (0 * x - 1 * y)) with y by ring. replace (0 * x - 1 * y) with (- y) by ring.
  replace (- (0 * y + 1 * x)) with (- x) by ring. replace (0 * y + 1 * x) with x by ring.
  rewrite cos_neg, sin_neg. unfold cosh, sinh. apply pair_eq; field.
Qed.

Lemma Csinh_parts (z : C) : Csinh z = (sinh (fst z) * cos (snd z), cosh (fst z) * sin (snd z)).
Proof.
  destruct z as [x y]. unfold Csinh, Cdiv, Cminus, Cplus, Copp, Cmult, Cinv, Cexp, two, RtoC. cbn [fst snd].
  rewrite cos_neg, sin_neg. unfold cosh, sinh. apply pair_eq; field.
Qed.

Lemma Ccosh_parts (z : C) : Ccosh z = (cosh (fst z) * cos (snd z), sinh (fst z) * sin (snd z)).
Proof.
  destruct z as [x y]. unfold Ccosh, Cdiv, Cminus, Cplus, Copp, Cmult, Cinv, Cexp, two, RtoC. cbn [fst snd].
  rewrite cos_neg, sin_neg. unfold cosh, sinh. apply pair_eq; field.
Qed.

Ltac fns := unfold f_sin, f_cos, f_sinh, f_cosh, f_tanh, f_exp in *; cx.

Theorem sin_fb_spec (z : C) : sin_fb RO z = Csin z.
Proof.
  rewrite Csin_parts. destruct z as [x y]. unfold sin_fb; fns. destruct (Reqb_spec y 0) as [->|]; cbn [negb]; [|reflexivity].
  rewrite cosh_0, sinh_0. apply pair_eq; ring.
Qed.

Theorem cos_fb_spec (z : C) : cos_fb RO z = Ccos z.
Proof.
  rewrite Ccos_parts. destruct z as [x y]. unfold cos_fb; fns. destruct (Reqb_spec y 0) as [->|]; cbn [negb].
  - rewrite cosh_0, sinh_0. apply pair_eq; ring.
  - apply pair_eq; [reflexivity|]. unfold sinh. rewrite Ropp_involutive. unfold Rdiv. ring.
Qed.

Theorem sinh_fb_spec (z : C) : sinh_fb RO z = Csinh z.
Proof. rewrite Csinh_parts. destruct z as [x y]. unfold sinh_fb; fns. reflexivity. Qed.

Theorem cosh_fb_spec (z : C) : cosh_fb RO z = Ccosh z.
Proof. rewrite Ccosh_parts. destruct z as [x y]. unfold cosh_fb; fns. reflexivity. Qed.

Lemma Rpow_2 (t : R) : Rpow t 2 = t * t.
Proof. unfold Rpow. destruct (Req_EM_T 2 2); [reflexivity | lra]. Qed.

(* tan: both branches (|Im z| < 1 and >= 1); the divisors den, sinh(Im z), tanh(Im z)*d are non-zero away from the poles *)
Lemma tan_algebra (c s ch sh : R) :
  ch * ch - sh * sh = 1 -> s * s + c * c = 1 -> 0 < ch -> (c * ch, - (s * sh)) <> (0, 0) ->
  let den := c * c + sh * sh in
  0 < den /\
  Cdiv (s * ch, c * sh) (c * ch, - (s * sh)) = (s * c / den, sh * ch / den).
Proof.
  intros Hch Hsc Hcp Hc den. pose proof (C_neq0 _ Hc) as Hq. cbn [fst snd] in Hq.
  assert (Hden : den = c * ch * (c * ch) + - (s * sh) * - (s * sh)) by (unfold den; nra).
  assert (Hd : 0 < den) by lra. split; [assumption|].
  unfold Cdiv, Cmult, Cinv. cbn [fst snd].
  replace ((c * ch) ^ 2 + (- (s * sh)) ^ 2) with den by (rewrite Hden; ring).
  apply pair_eq.
  - replace (s * ch * (c * ch / den) - c * sh * (- - (s * sh) / den)) with (s * c * (ch * ch - sh * sh) / den) by (field; lra).
    rewrite Hch. field; lra.
  - replace (s * ch * (- - (s * sh) / den) + c * sh * (c * ch / den)) with (sh * ch * (s * s + c * c) / den) by (field; lra).
    rewrite Hsc. field; lra.
Qed.

Theorem tan_fb_spec (z : C) : Ccos z <> (0, 0) ->
  cos (fst z) * cos (fst z) + sinh (snd z) * sinh (snd z) <> 0 /\ tan_fb RO RE z = Ctan z.
Proof.
  intros Hc. unfold Ctan. rewrite Csin_parts. rewrite Ccos_parts in *.
  destruct z as [x y]. cbn [fst snd] in *.
  pose proof (cosh2_sinh2 y) as Hch. pose proof (cosh_pos y) as Hcp. pose proof (sin2_cos2 x) as Hsc. unfold Rsqr in Hsc.
  destruct (tan_algebra _ _ _ _ Hch Hsc Hcp Hc) as [Hd ->]. cbv zeta in Hd.
  split; [lra|].
  unfold tan_fb; fns. cbn [x_pow RE]. rewrite (half_is_2 0), sin_2a.
  assert (Hsh : ~ Rabs y < 1 -> sinh y <> 0).
  { intros Hy. apply sinh_nonzero. intros ->. rewrite Rabs_R0 in Hy. lra. }
  destruct (Rltb_spec (Rabs y) 1) as [Hy|Hy].
  - rewrite sinh_2a. apply pair_eq; field; lra.
  - specialize (Hsh Hy). rewrite Rpow_2. unfold tanh.
    set (c := cos x) in *. set (sh := sinh y) in *. set (ch := cosh y) in *. clearbody c sh ch.
    apply pair_eq; [field; lra|]. field. repeat split; (lra || nra).
Qed.

Lemma tanh_algebra (c s ch sh : R) :
  ch * ch - sh * sh = 1 -> s * s + c * c = 1 -> 0 < ch -> (ch * c, sh * s) <> (0, 0) ->
  let den := c * c + sh * sh in
  0 < den /\
  Cdiv (sh * c, ch * s) (ch * c, sh * s) = (sh * ch / den, s * c / den).
Proof.
  intros Hch Hsc Hcp Hc den. pose proof (C_neq0 _ Hc) as Hq. cbn [fst snd] in Hq.
  assert (Hden : den = ch * c * (ch * c) + sh * s * (sh * s)) by (unfold den; nra).
  assert (Hd : 0 < den) by lra. split; [assumption|].
  unfold Cdiv, Cmult, Cinv. cbn [fst snd].
  replace ((ch * c) ^ 2 + (sh * s) ^ 2) with den by (rewrite Hden; ring).
  apply pair_eq.
  - replace (sh * c * (ch * c / den) - ch * s * (- (sh * s) / den)) with (sh * ch * (s * s + c * c) / den) by (field; lra).
    rewrite Hsc. field; lra.
  - replace (sh * c * (- (sh * s) / den) + ch * s * (ch * c / den)) with (s * c * (ch * ch - sh * sh) / den) by (field; lra).
    rewrite Hch. field; lra.
Qed.

Theorem tanh_fb_spec (z : C) : Ccosh z <> (0, 0) ->
  cos (snd z) * cos (snd z) + sinh (fst z) * sinh (fst z) <> 0 /\ tanh_fb RO RE z = Ctanh z.
Proof.
  intros Hc. unfold Ctanh. rewrite Csinh_parts. rewrite Ccosh_parts in *.
  destruct z as [x y]. cbn [fst snd] in *.
  pose proof (cosh2_sinh2 x) as Hch. pose proof (cosh_pos x) as Hcp. pose proof (sin2_cos2 y) as Hsc. unfold Rsqr in Hsc.
  destruct (tanh_algebra _ _ _ _ Hch Hsc Hcp Hc) as [Hd ->]. cbv zeta in Hd.
  split; [lra|].
  unfold tanh_fb; fns. cbn [x_pow RE]. rewrite (half_is_2 0), sin_2a.
  assert (Hsh : ~ Rabs x < 1 -> sinh x <> 0).
  { intros Hx. apply sinh_nonzero. intros ->. rewrite Rabs_R0 in Hx. lra. }
  destruct (Rltb_spec (Rabs x) 1) as [Hx|Hx].
  - apply pair_eq; field; lra.
  - specialize (Hsh Hx). rewrite Rpow_2. unfold tanh.
    set (c := cos y) in *. set (sh := sinh x) in *. set (ch := cosh x) in *. clearbody c sh ch.
    apply pair_eq; [|field; lra]. field. repeat split; (lra || nra).
Qed.

(* reciprocal families: for EVERY binding of the six functions, sec = 1/cos etc. (the divisor |w| is non-zero) *)
Section Recip.
  Variable B : Binding R.
  Lemma sec_spec z : ccos_ RO B z <> (0, 0) -> sec_ RO B z = Cinv (ccos_ RO B z).
  Proof. intros H. apply (inv_Cinv _ H). Qed.
  Lemma csc_spec z : csin_ RO B z <> (0, 0) -> csc_ RO B z = Cinv (csin_ RO B z).
  Proof. intros H. apply (inv_Cinv _ H). Qed.
  Lemma cot_spec z : ctan_ RO RE B z <> (0, 0) -> cot_ RO RE B z = Cinv (ctan_ RO RE B z).
  Proof. intros H. apply (inv_Cinv _ H). Qed.
  Lemma sech_spec z : ccosh_ RO B z <> (0, 0) -> sech_ RO B z = Cinv (ccosh_ RO B z).
  Proof. intros H. apply (inv_Cinv _ H). Qed.
  Lemma csch_spec z : csinh_ RO B z <> (0, 0) -> csch_ RO B z = Cinv (csinh_ RO B z).
  Proof. intros H. apply (inv_Cinv _ H). Qed.
  Lemma coth_spec z : ctanh_ RO RE B z <> (0, 0) -> coth_ RO RE B z = Cinv (ctanh_ RO RE B z).
  Proof. intros H. apply (inv_Cinv _ H). Qed.
End Recip.

(* with the fallback bodies: sec z * cos z = 1 ... *)
Lemma sec_fb_spec z : Ccos z <> (0, 0) -> sec_ RO fb_bind z = Cinv (Ccos z).
Proof. intros H. rewrite <- cos_fb_spec in *. now apply sec_spec. Qed.
Lemma csc_fb_spec z : Csin z <> (0, 0) -> csc_ RO fb_bind z = Cinv (Csin z).
Proof. intros H. rewrite <- sin_fb_spec in *. now apply csc_spec. Qed.
Lemma sech_fb_spec z : Ccosh z <> (0, 0) -> sech_ RO fb_bind z = Cinv (Ccosh z).
Proof. intros H. rewrite <- cosh_fb_spec in *. now apply sech_spec. Qed.
Lemma csch_fb_spec z : Csinh z <> (0, 0) -> csch_ RO fb_bind z = Cinv (Csinh z).
Proof. intros H. rewrite <- sinh_fb_spec in *. now apply csch_spec. Qed.
Lemma cot_fb_spec z : Ccos z <> (0, 0) -> Ctan z <> (0, 0) -> cot_ RO RE fb_bind z = Cinv (Ctan z).
Proof. intros Hc H. rewrite <- (proj2 (tan_fb_spec z Hc)) in *. now apply cot_spec. Qed.
Lemma coth_fb_spec z : Ccosh z <> (0, 0) -> Ctanh z <> (0, 0) -> coth_ RO RE fb_bind z = Cinv (Ctanh z).
Proof. intros Hc H. rewrite <- (proj2 (tanh_fb_spec z Hc)) in *. now apply coth_spec. Qed.
