(* C10: the binary64 instances of ExtOps and Binding used by the bit-exact structural tie (vm_compute).  No proofs.
   The libm entry points are replaced by fixed substitute functions made of IEEE basic operations
   (Common/FloatOps.v sub1/sub2, harness/common/libm_subst.c, harness/C10/csubst.c define the identical functions on
   both sides); the constants are the binary64 values of the literals of a/math.h. *)
From Coq Require Import ZArith Floats List Bool.
From LibaV Require Import Common.NumOps Common.FloatOps C10.CxDefs.
Import ListNotations.
Local Open Scope float_scope.

Definition F64_ext : ExtOps float := {|
  x_atan2 := fn2 F64_ops Atan2;
  x_acosh := sub1 0x1.f1p+0;
  x_atanh := sub1 0x1.f2p+0;
  x_pow := fn2 F64_ops Pow;
  k_sqrt1_2 := f_ofD SQRT1_2_m SQRT1_2_e;
  k_pi := f_ofD PI_m PI_e;
  k_pi_2 := f_ofD PI_2_m PI_2_e;
  k_ln1_2 := f_ofD LN1_2_m LN1_2_e;
  k_ln1_10 := f_ofD LN1_10_m LN1_10_e
|}.

Definition cfun_eqb (a b : cfun) : bool :=
  match a, b with
  | CSqrt, CSqrt | CExp, CExp | CLog, CLog | CSin, CSin | CCos, CCos | CTan, CTan | CSinh, CSinh | CCosh, CCosh
  | CTanh, CTanh | CAsin, CAsin | CAcos, CAcos | CAtan, CAtan | CAsinh, CAsinh | CAcosh, CAcosh | CAtanh, CAtanh
  | CPow, CPow => true
  | _, _ => false
  end.

Definition csub1 (k : float) (z : float * float) : float * float :=
  (sub2 k (fst z) (snd z), sub2 (k + 0x1p-4) (snd z) (fst z)).

Definition F64_lib1c (f : cfun) : float * float -> float * float :=
  match f with
  | CSqrt => csub1 0x1.01p+1 | CExp => csub1 0x1.02p+1 | CLog => csub1 0x1.03p+1
  | CSin => csub1 0x1.04p+1 | CCos => csub1 0x1.05p+1 | CTan => csub1 0x1.06p+1
  | CSinh => csub1 0x1.07p+1 | CCosh => csub1 0x1.08p+1 | CTanh => csub1 0x1.09p+1
  | CAsin => csub1 0x1.0ap+1 | CAcos => csub1 0x1.0bp+1 | CAtan => csub1 0x1.0cp+1
  | CAsinh => csub1 0x1.0dp+1 | CAcosh => csub1 0x1.0ep+1 | CAtanh => csub1 0x1.0fp+1
  | CPow => fun z => z
  end.

Definition F64_cpow (z a : float * float) : float * float :=
  let x := fst z in let y := snd z in let u := fst a in let v := snd a in
  (sub2 0x1.1p+1 (sub2 0x1.11p+1 x y) (sub2 0x1.12p+1 u v),
   sub2 0x1.13p+1 (sub2 0x1.14p+1 y u) (sub2 0x1.15p+1 v x)).

(* the configuration in which exactly the switches of `on` are defined *)
Definition F64_bind (on : list cfun) : Binding float := {|
  have := fun f => existsb (cfun_eqb f) on;
  lib1c := F64_lib1c;
  lib_cpow := F64_cpow
|}.

Definition all_on : list cfun :=
  [CSqrt; CExp; CLog; CSin; CCos; CTan; CSinh; CCosh; CTanh; CAsin; CAcos; CAtan; CAsinh; CAcosh; CAtanh; CPow].

Definition pr (z : float * float) : list float := [fst z; snd z].

(* one entry point for the generated cases: run cfg "name" [args] *)
From Coq Require Export String.
Local Open Scope string_scope.
Definition run (cfg : list cfun) (fn : string) (a : list float) : list float :=
    let a0 := nth 0 a nan in let a1 := nth 1 a nan in let a2 := nth 2 a nan in let a3 := nth 3 a nan in
    if fn =? "polar" then pr (polar F64_ops a0 a1) else
    if fn =? "rect" then pr (rect a0 a1) else
    if fn =? "logabs" then [logabs F64_ops (a0, a1)] else
    if fn =? "abs2" then [abs2 F64_ops (a0, a1)] else
    if fn =? "abs" then [cabs F64_ops (a0, a1)] else
    if fn =? "arg" then [arg F64_ops F64_ext (a0, a1)] else
    if fn =? "conj" then pr (conj F64_ops (a0, a1)) else
    if fn =? "neg" then pr (neg F64_ops (a0, a1)) else
    if fn =? "inv" then pr (inv_ F64_ops (a0, a1)) else
    if fn =? "proj" then pr (proj_ F64_ops (a0, a1)) else
    if fn =? "add" then pr (cadd F64_ops (a0, a1) (a2, a3)) else
    if fn =? "sub" then pr (csub F64_ops (a0, a1) (a2, a3)) else
    if fn =? "mul" then pr (mul_ F64_ops (a0, a1) (a2, a3)) else
    if fn =? "div" then pr (div_ F64_ops (a0, a1) (a2, a3)) else
    if fn =? "pow" then pr (cpow_ F64_ops F64_ext (F64_bind cfg) (a0, a1) (a2, a3)) else
    if fn =? "logb" then pr (logb_ F64_ops F64_ext (F64_bind cfg) (a0, a1) (a2, a3)) else
    if fn =? "add_real" then pr (add_real F64_ops (a0, a1) a2) else
    if fn =? "add_imag" then pr (add_imag F64_ops (a0, a1) a2) else
    if fn =? "sub_real" then pr (sub_real F64_ops (a0, a1) a2) else
    if fn =? "sub_imag" then pr (sub_imag F64_ops (a0, a1) a2) else
    if fn =? "mul_real" then pr (mul_real F64_ops (a0, a1) a2) else
    if fn =? "mul_imag" then pr (mul_imag F64_ops (a0, a1) a2) else
    if fn =? "div_real" then pr (div_real F64_ops (a0, a1) a2) else
    if fn =? "div_imag" then pr (div_imag F64_ops (a0, a1) a2) else
    if fn =? "pow_real" then pr (pow_real_ F64_ops F64_ext (a0, a1) a2) else
    if fn =? "sqrt" then pr (csqrt_ F64_ops F64_ext (F64_bind cfg) (a0, a1)) else
    if fn =? "exp" then pr (cexp_ F64_ops (F64_bind cfg) (a0, a1)) else
    if fn =? "log" then pr (clog_ F64_ops F64_ext (F64_bind cfg) (a0, a1)) else
    if fn =? "log2" then pr (log2_ F64_ops F64_ext (F64_bind cfg) (a0, a1)) else
    if fn =? "log10" then pr (log10_ F64_ops F64_ext (F64_bind cfg) (a0, a1)) else
    if fn =? "sin" then pr (csin_ F64_ops (F64_bind cfg) (a0, a1)) else
    if fn =? "cos" then pr (ccos_ F64_ops (F64_bind cfg) (a0, a1)) else
    if fn =? "tan" then pr (ctan_ F64_ops F64_ext (F64_bind cfg) (a0, a1)) else
    if fn =? "sec" then pr (sec_ F64_ops (F64_bind cfg) (a0, a1)) else
    if fn =? "csc" then pr (csc_ F64_ops (F64_bind cfg) (a0, a1)) else
    if fn =? "cot" then pr (cot_ F64_ops F64_ext (F64_bind cfg) (a0, a1)) else
    if fn =? "asin" then pr (casin_ F64_ops F64_ext (F64_bind cfg) (a0, a1)) else
    if fn =? "acos" then pr (cacos_ F64_ops F64_ext (F64_bind cfg) (a0, a1)) else
    if fn =? "atan" then pr (catan_ F64_ops F64_ext (F64_bind cfg) (a0, a1)) else
    if fn =? "asec" then pr (asec_ F64_ops F64_ext (F64_bind cfg) (a0, a1)) else
    if fn =? "acsc" then pr (acsc_ F64_ops F64_ext (F64_bind cfg) (a0, a1)) else
    if fn =? "acot" then pr (acot_ F64_ops F64_ext (F64_bind cfg) (a0, a1)) else
    if fn =? "sinh" then pr (csinh_ F64_ops (F64_bind cfg) (a0, a1)) else
    if fn =? "cosh" then pr (ccosh_ F64_ops (F64_bind cfg) (a0, a1)) else
    if fn =? "tanh" then pr (ctanh_ F64_ops F64_ext (F64_bind cfg) (a0, a1)) else
    if fn =? "sech" then pr (sech_ F64_ops (F64_bind cfg) (a0, a1)) else
    if fn =? "csch" then pr (csch_ F64_ops (F64_bind cfg) (a0, a1)) else
    if fn =? "coth" then pr (coth_ F64_ops F64_ext (F64_bind cfg) (a0, a1)) else
    if fn =? "asinh" then pr (casinh_ F64_ops F64_ext (F64_bind cfg) (a0, a1)) else
    if fn =? "acosh" then pr (cacosh_ F64_ops F64_ext (F64_bind cfg) (a0, a1)) else
    if fn =? "atanh" then pr (catanh_ F64_ops F64_ext (F64_bind cfg) (a0, a1)) else
    if fn =? "asech" then pr (asech_ F64_ops F64_ext (F64_bind cfg) (a0, a1)) else
    if fn =? "acsch" then pr (acsch_ F64_ops F64_ext (F64_bind cfg) (a0, a1)) else
    if fn =? "acoth" then pr (acoth_ F64_ops F64_ext (F64_bind cfg) (a0, a1)) else
    if fn =? "sqrt_real" then pr (sqrt_real F64_ops a0) else
    if fn =? "asin_real" then pr (asin_real F64_ops F64_ext a0) else
    if fn =? "acos_real" then pr (acos_real F64_ops F64_ext a0) else
    if fn =? "asec_real" then pr (asec_real F64_ops F64_ext a0) else
    if fn =? "acsc_real" then pr (acsc_real F64_ops F64_ext a0) else
    if fn =? "acosh_real" then pr (acosh_real F64_ops F64_ext a0) else
    if fn =? "atanh_real" then pr (atanh_real F64_ops F64_ext a0) else
    if fn =? "div_imag_unfixed" then pr (div_imag_unfixed F64_ops (a0, a1) a2) else
    if fn =? "sqrt_unfixed" then pr (sqrt_fb_unfixed F64_ops F64_ext (a0, a1)) else
    if fn =? "atan_unfixed" then pr (atan_fb_unfixed F64_ops F64_ext (a0, a1)) else
    [].
