(* C10 proofs, part 2: the sqrt fallback is the principal square root in all quadrants and on both axes. *)
From Coq Require Import Reals ZArith Lra Psatz Bool.
From Coquelicot Require Import Coquelicot.
From LibaV Require Import Common.NumOps Common.ROps C10.CxDefs C10.CxReal C10.CxField.
Local Open Scope R_scope.

Lemma inv_sqrt2_sq : / Rsqrt 2 * / Rsqrt 2 = / 2.
Proof. rewrite <- Rinv_mult. f_equal. apply sqrt_sqrt; lra. Qed.

Lemma sqrt2_pos : 0 < / Rsqrt 2.
Proof. apply Rinv_0_lt_compat, sqrt_lt_R0; lra. Qed.

(* x * sqrt ((y/x)^2 + 1) = sqrt (x^2 + y^2) for x > 0 *)
Lemma scale_hyp (x y : R) : 0 < x -> x * Rsqrt (y / x * (y / x) + 1) = Rsqrt (x * x + y * y).
Proof.
  intros Hx. rewrite <- (sqrt_square x) at 1 by lra. rewrite <- sqrt_mult_alt by nra.
  f_equal. field. lra.
Qed.

(* the quantity w of the fallback: w > 0 and 2 w^2 = |re| + |z|; every sqrt argument is non-negative and the divisor of
   u is non-zero (definedness) *)
Lemma sqrt_w_spec (z : C) : z <> (0, 0) ->
  let w := sqrt_w RO RE z in
  0 < w /\ 2 * (w * w) = Rabs (fst z) + Rsqrt (fst z * fst z + snd z * snd z).
Proof.
  intros Hz. pose proof (C_neq0 z Hz) as Hq. destruct z as [a b]. cbn [fst snd] in *.
  unfold sqrt_w; cx. cbn [k_sqrt1_2 RE].
  set (x := Rabs a). set (y := Rabs b).
  assert (Hx : 0 <= x) by apply Rabs_pos. assert (Hy : 0 <= y) by apply Rabs_pos.
  assert (Hxx : x * x = a * a) by (unfold x; rewrite <- Rabs_mult; apply Rabs_pos_eq; nra).
  assert (Hyy : y * y = b * b) by (unfold y; rewrite <- Rabs_mult; apply Rabs_pos_eq; nra).
  replace (a * a + b * b) with (x * x + y * y) by lra.
  pose proof inv_sqrt2_sq as H2. pose proof sqrt2_pos as H2p.
  rcases.
  - (* x >= y: x > 0 *)
    assert (Hxp : 0 < x) by nra.
    set (u := y / x). set (s := Rsqrt (u * u + 1)).
    assert (Hs : x * s = Rsqrt (x * x + y * y)) by (apply scale_hyp; lra).
    assert (Hs1 : 1 <= s). { unfold s. rewrite <- sqrt_1 at 1. apply sqrt_le_1_alt. nra. }
    assert (Hsx : Rsqrt x * Rsqrt x = x) by (apply sqrt_sqrt; lra).
    assert (Hss : Rsqrt (s + 1) * Rsqrt (s + 1) = s + 1) by (apply sqrt_sqrt; lra).
    assert (0 < Rsqrt x) by (apply sqrt_lt_R0; lra).
    assert (0 < Rsqrt (s + 1)) by (apply sqrt_lt_R0; lra).
    split.
    + apply Rmult_lt_0_compat; [apply Rmult_lt_0_compat|]; assumption.
    + rewrite <- Hs.
      replace (2 * (/ Rsqrt 2 * Rsqrt x * Rsqrt (s + 1) * (/ Rsqrt 2 * Rsqrt x * Rsqrt (s + 1))))
        with (2 * (/ Rsqrt 2 * / Rsqrt 2) * (Rsqrt x * Rsqrt x) * (Rsqrt (s + 1) * Rsqrt (s + 1))) by ring.
      rewrite H2, Hsx, Hss. field.
  - (* x < y: y > 0 *)
    assert (Hyp : 0 < y) by lra.
    set (u := x / y). set (s := Rsqrt (u * u + 1)).
    assert (Hs : y * s = Rsqrt (y * y + x * x)) by (apply scale_hyp; lra).
    assert (Hu : 0 <= u) by (unfold u; apply Rmult_le_pos; [lra | left; apply Rinv_0_lt_compat; lra]).
    assert (Hs1 : 1 <= s). { unfold s. rewrite <- sqrt_1 at 1. apply sqrt_le_1_alt. nra. }
    assert (Hsy : Rsqrt y * Rsqrt y = y) by (apply sqrt_sqrt; lra).
    assert (Hss : Rsqrt (s + u) * Rsqrt (s + u) = s + u) by (apply sqrt_sqrt; lra).
    assert (0 < Rsqrt y) by (apply sqrt_lt_R0; lra).
    assert (0 < Rsqrt (s + u)) by (apply sqrt_lt_R0; lra).
    split.
    + apply Rmult_lt_0_compat; [apply Rmult_lt_0_compat|]; assumption.
    + replace (x * x + y * y) with (y * y + x * x) by ring. rewrite <- Hs.
      replace (2 * (/ Rsqrt 2 * Rsqrt y * Rsqrt (s + u) * (/ Rsqrt 2 * Rsqrt y * Rsqrt (s + u))))
        with (2 * (/ Rsqrt 2 * / Rsqrt 2) * (Rsqrt y * Rsqrt y) * (Rsqrt (s + u) * Rsqrt (s + u))) by ring.
      rewrite H2, Hsy, Hss. unfold u. field. lra.
Qed.

Lemma sqrt_fb_zero : sqrt_fb RO RE (0, 0) = (0, 0).
Proof. unfold sqrt_fb; cx. rcases; try lra; reflexivity. Qed.

(* THE principal root, for every z (all four quadrants, both axes, the origin); the divisor 2w (2vi) is non-zero *)
Theorem sqrt_fb_principal (z : C) : principal_root (sqrt_fb RO RE z) z.
Proof.
  destruct (C_zero_dec z) as [->|Hz].
  { rewrite sqrt_fb_zero. split; [unfold Cmult; cbn; apply pair_eq; ring | right; cbn; lra]. }
  pose proof (sqrt_w_spec z Hz) as [Hw Hww]. pose proof (C_neq0 z Hz) as Hq.
  destruct z as [a b]. cbn [fst snd] in *. unfold principal_root, sqrt_fb; cx.
  set (w := sqrt_w RO RE (a, b)) in *. set (m := Rsqrt (a * a + b * b)) in *.
  assert (Hm : m * m = a * a + b * b) by (apply sqrt_sqrt; nra).
  assert (Hm0 : 0 < m) by (apply sqrt_lt_R0; lra).
  assert (Hnz : (negb (Reqb a 0) || negb (Reqb b 0)) = true).
  { rcases; cbn; try reflexivity. subst. now elim Hz. }
  rewrite Hnz. rcases.
  - (* re >= 0 *)
    rewrite Rabs_pos_eq in Hww by lra. unfold Cmult; cbn [fst snd]. split; [|left; exact Hw].
    apply pair_eq; field_simplify_eq; try lra; nra.
  - (* re < 0, im < 0 *)
    rewrite Rabs_left in Hww by lra. unfold Cmult; cbn [fst snd]. split.
    + apply pair_eq; field_simplify_eq; try lra; nra.
    + left. replace (b / (2 * - w)) with ((- b) / (2 * w)) by (field; lra). apply Rdiv_lt_0_compat; lra.
  - (* re < 0, im >= 0 *)
    rewrite Rabs_left in Hww by lra. unfold Cmult; cbn [fst snd]. split.
    + apply pair_eq; field_simplify_eq; try lra; nra.
    + destruct (Req_dec b 0) as [->|Hb].
      * right. split; [field; lra | lra].
      * left. apply Rdiv_lt_0_compat; lra.
Qed.
