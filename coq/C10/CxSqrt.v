(* C10 proofs, part 2: the sqrt fallback is the principal square root in all quadrants and on both axes. *)
From Coq Require Import Reals ZArith Lra Psatz Bool.
From Coquelicot Require Import Coquelicot.
From LibaV Require Import Common.NumOps Common.ROps C10.CxDefs C10.CxReal C10.CxField.
Local Open Scope R_scope.

Lemma inv_sqrt2_sq : / Rsqrt 2 * / Rsqrt 2 = / 2.
Proof. rewrite <- Rinv_mult. f_equal. apply sqrt_sqrt; lra. Qed.

Lemma sqrt2_pos : 0 < / Rsqrt 2.
Proof. apply Rinv_0_lt_compat, sqrt_lt_R0; lra. Qed.

(* x * sqrt ((y/x)^2 + 1) = sqrt (x^2 + y^2) for x > 0 *)
Lemma scale_hyp (x y : R) : 0 < x -> x * Rsqrt (y / x * (y / x) + 1) = Rsqrt (x * x + y * y).
Proof.
  intros Hx. rewrite <- (sqrt_square x) at 1 by lra. rewrite <- sqrt_mult_alt by nra.
  f_equal. field. lra.
Qed.

(* the quantity w of the fallback: w > 0 and 2 w^2 = |re| + |z|; every sqrt argument is non-negative and the divisor of
   u is non-zero (definedness) *)
Lemma sqrt_w_spec (z : C) : z <> (0, 0) ->
  let w := sqrt_w RO RE z in
  0 < w /\ 2 * (w * w) = Rabs (fst z) + Rsqrt (fst z * fst z + snd z * snd z).
Proof.
  intros Hz. pose proof (C_neq0 z Hz) as Hq. destruct z as [a b]. cbn [fst snd] in *.
  unfold sqrt_w; cx. cbn [k_sqrt1_2 RE].
  set (x := Rabs a). set (y := Rabs b).
  assert (Hx : 0 <= x) by apply Rabs_pos. assert (Hy : 0 <= y) by apply Rabs_pos.
  assert (Hxx : x * x = a * a) by (unfold x; rewrite <- Rabs_mult; apply Rabs_pos_eq; nra).
  assert (Hyy : y * y = b * b) by (unfold y; rewrite <- Rabs_mult; apply Rabs_pos_eq; nra).
  replace (a * a + b * b) with (x * x + y * y) by lra.
  pose proof inv_sqrt2_sq as H2. pose proof sqrt2_pos as H2p.
  rcases.
  - (* x >= y: x > 0 *)
    assert (Hxp : 0 < x) by nra.
    set (u := y / x). set (s := Rsqrt (u * u + 1)).
    assert (Hs : x * s = Rsqrt (x * x + y * y)) by (apply scale_hyp; lra).
    assert (Hs1 : 1 <= s). { unfold s. rewrite <- sqrt_1 at 1. apply sqrt_le_1_alt. nra. }
    assert (Hsx : Rsqrt x * Rsqrt x = x) by (apply sqrt_sqrt; lra).
    assert (Hss : Rsqrt (s + 1) * Rsqrt (s + 1) = s + 1) by (apply sqrt_sqrt; lra).
    assert (0 < Rsqrt x) by (apply sqrt_lt_R0; lra).
    assert (0 < Rsqrt (s + 1)) by (apply sqrt_lt_R0; lra).
    split.
    + apply Rmult_lt_0_compat; [apply Rmult_lt_0_compat|]; assumption.
    + rewrite <- Hs.
      replace (2 * (/ Rsqrt 2 * Rsqrt x * Rsqrt (s + 1) * (/ Rsqrt 2 * Rsqrt x * Rsqrt (s + 1))))
        with (2 * (/ Rsqrt 2 * / Rsqrt 2) * (Rsqrt x * Rsqrt x) * (Rsqrt (s + 1) * Rsqrt (s + 1))) by ring.
      rewrite H2, Hsx, Hss. field.
  - (* x < y: y > 0 *)
    assert (Hyp : 0 < y) by lra.
    set (u := x / y). set (s := Rsqrt (u * u + 1)).
    assert (Hs : y * s = Rsqrt (y * y + x * x)) by (apply scale_hyp; lra).
    assert (Hu : 0 <= u) by (unfold u; apply Rmult_le_pos; [lra | left; apply Rinv_0_lt_compat; lra]).
    assert (Hs1 : 1 <= s). { unfold s. rewrite <- sqrt_1 at 1. apply sqrt_le_1_alt. nra. }
    assert (Hsy : Rsqrt y * Rsqrt y = y) by (apply sqrt_sqrt; lra).
    assert (Hss : Rsqrt (s + u) * Rsqrt (s + u) = s + u) by (apply sqrt_sqrt; lra).
    assert (0 < Rsqrt y) by (apply sqrt_lt_R0; lra).
    assert (0 < Rsqrt (s + u)) by (apply sqrt_lt_R0; lra).
    split.
    + apply Rmult_lt_0_compat; [apply Rmult_lt_0_compat|]; assumption.
    + replace (x * x + y * y) with (y * y + x * x) by ring. rewrite <- Hs.
      replace (2 * (/ Rsqrt 2 * Rsqrt y * Rsqrt (s + u) * (/ Rsqrt 2 * Rsqrt y * Rsqrt (s + u))))
        with (2 * (/ Rsqrt 2 * / Rsqrt 2) * (Rsqrt y * Rsqrt y) * (Rsqrt (s + u) * Rsqrt (s + u))) by ring.
      rewrite H2, Hsy, Hss. unfold u. field. lra.
Qed.

Lemma sqrt_fb_zero : sqrt_fb RO RE (0, 0) = (0, 0).
Proof. unfold sqrt_fb; cx. rcases; try lra; reflexivity. Qed.

(* THE principal root, for every z (all four quadrants, both axes, the origin); the divisor 2w (2vi) is non-zero *)
Theorem sqrt_fb_principal (z : C) : principal_root (sqrt_fb RO RE z) z.
Proof.
  destruct (C_zero_dec z) as [->|Hz].
  { rewrite sqrt_fb_zero. split; [unfold Cmult; cbn; apply pair_eq; ring | right; cbn; lra]. }
  pose proof (sqrt_w_spec z Hz) as [Hw Hww]. pose proof (C_neq0 z Hz) as Hq.
  destruct z as [a b]. cbn [fst snd] in *. unfold principal_root, sqrt_fb; cx.
  set (w := sqrt_w RO RE (a, b)) in *. set (m := Rsqrt (a * a + b * b)) in *.
  assert (Hm : m * m = a * a + b * b) by (apply sqrt_sqrt; nra).
  assert (Hm0 : 0 < m) by (apply sqrt_lt_R0; lra).
  assert (Hnz : (negb (Reqb a 0) || negb (Reqb b 0)) = true).
  { rcases; cbn; try reflexivity. subst. now elim Hz. }
  rewrite Hnz. clear Hnz.
  assert (Hwz : w * w <> 0) by nra.
  assert (Hsq : forall c, b / (2 * c) * (b / (2 * c)) = b * b / (4 * (c * c)) \/ c = 0).
  { intros c. destruct (Req_dec c 0); [now right | left; field; lra]. }
  destruct (Rleb_spec 0 a); [|destruct (Rltb_spec b 0)].
  - (* re >= 0 *)
    rewrite Rabs_pos_eq in Hww by lra.
    assert (Hb : b * b = 4 * (w * w) * (w * w) - 4 * (w * w) * a).
    { assert (m = 2 * (w * w) - a) as Em by lra. rewrite Em in Hm. nra. }
    unfold Cmult; cbn [fst snd]. split; [|left; exact Hw].
    apply pair_eq.
    + destruct (Hsq w) as [->|]; [|exfalso; lra]. rewrite Hb. field. lra.
    + field. lra.
  - (* re < 0, im < 0 *)
    rewrite Rabs_left in Hww by lra.
    assert (Hb : b * b = 4 * (w * w) * (w * w) + 4 * (w * w) * a).
    { assert (m = 2 * (w * w) + a) as Em by lra. rewrite Em in Hm. nra. }
    unfold Cmult; cbn [fst snd]. split.
    + apply pair_eq.
      * destruct (Hsq (- w)) as [->|]; [|exfalso; lra]. rewrite Hb. field. lra.
      * field. lra.
    + left. replace (b / (2 * - w)) with ((- b) / (2 * w)) by (field; lra). apply Rdiv_lt_0_compat; lra.
  - (* re < 0, im >= 0 *)
    rewrite Rabs_left in Hww by lra.
    assert (Hb : b * b = 4 * (w * w) * (w * w) + 4 * (w * w) * a).
    { assert (m = 2 * (w * w) + a) as Em by lra. rewrite Em in Hm. nra. }
    unfold Cmult; cbn [fst snd]. split.
    + apply pair_eq.
      * destruct (Hsq w) as [->|]; [|exfalso; lra]. rewrite Hb. field. lra.
      * field. lra.
    + destruct (Req_dec b 0) as [->|Hb0].
      * right. split; [field; lra | lra].
      * left. apply Rdiv_lt_0_compat; lra.
Qed.

(* the body as found returns, in the open third quadrant, the OTHER root (negative real part): not the principal value *)
Lemma sqrt_fb_unfixed_third_quadrant (z : C) : fst z < 0 -> snd z < 0 -> fst (sqrt_fb_unfixed RO RE z) < 0.
Proof.
  intros Ha Hb. assert (Hz : z <> (0, 0)) by (intros ->; cbn in Ha; lra).
  pose proof (sqrt_w_spec z Hz) as [Hw _]. destruct z as [a b]. cbn [fst snd] in *.
  unfold sqrt_fb_unfixed; cx. set (w := sqrt_w RO RE (a, b)) in *.
  destruct (Reqb_spec a 0); [lra|]. cbn [negb orb].
  destruct (Rleb_spec 0 a); [lra|]. cbn [fst].
  replace (b / (2 * w)) with (- ((- b) / (2 * w))) by (field; lra).
  apply Ropp_lt_gt_0_contravar, Rdiv_lt_0_compat; lra.
Qed.

Lemma sqrt_fb_unfixed_refuted : exists z : C, ~ principal_root (sqrt_fb_unfixed RO RE z) z.
Proof.
  exists (-3, -4). intros [_ [H | [H _]]];
    pose proof (sqrt_fb_unfixed_third_quadrant (-3, -4)) as Hn; cbn [fst snd] in Hn; lra.
Qed.

(* a_complex_sqrt_real: the principal root of (x, 0) *)
Lemma sqrt_real_principal (x : R) : principal_root (sqrt_real RO x) (x, 0).
Proof.
  unfold principal_root, sqrt_real; cx. destruct (Rleb_spec 0 x).
  - unfold Cmult; cbn [fst snd]. split.
    + apply pair_eq; [rewrite Rmult_0_l, Rminus_0_r; apply sqrt_sqrt; lra | ring].
    + destruct (Req_dec x 0) as [->|]; [right; rewrite sqrt_0; lra | left; apply sqrt_lt_R0; lra].
  - unfold Cmult; cbn [fst snd]. split.
    + apply pair_eq; [rewrite Rmult_0_l, Rminus_0_l, sqrt_sqrt by lra; ring | ring].
    + right. split; [reflexivity | apply sqrt_pos].
Qed.

Lemma sumsq0 (a b : R) : a * a + b * b = 0 -> a = 0 /\ b = 0.
Proof.
  intros H. split.
  - apply Rsqr_0_uniq. unfold Rsqr. pose proof (Rle_0_sqr a). pose proof (Rle_0_sqr b). unfold Rsqr in *. lra.
  - apply Rsqr_0_uniq. unfold Rsqr. pose proof (Rle_0_sqr a). pose proof (Rle_0_sqr b). unfold Rsqr in *. lra.
Qed.

(* the principal root is unique *)
Lemma principal_root_unique (w w' z : C) : principal_root w z -> principal_root w' z -> w = w'.
Proof.
  intros [H1 H2] [G1 G2]. destruct w as [p q], w' as [p' q'], z as [a b]. unfold Cmult in *; cbn [fst snd] in *.
  assert (E1 := f_equal fst H1). assert (E2 := f_equal snd H1). assert (F1 := f_equal fst G1). assert (F2 := f_equal snd G1).
  cbn [fst snd] in *.
  assert (P : ((p - p') * (p - p') + (q - q') * (q - q')) * ((p + p') * (p + p') + (q + q') * (q + q')) = 0).
  { replace (((p - p') * (p - p') + (q - q') * (q - q')) * ((p + p') * (p + p') + (q + q') * (q + q')))
      with (((p * p - q * q) - (p' * p' - q' * q')) * ((p * p - q * q) - (p' * p' - q' * q'))
            + ((p * q + q * p) - (p' * q' + q' * p')) * ((p * q + q * p) - (p' * q' + q' * p'))) by ring.
    rewrite E1, E2, F1, F2. ring. }
  apply Rmult_integral in P. destruct P as [P | P].
  - apply sumsq0 in P as [? ?]. apply pair_eq; lra.
  - apply sumsq0 in P as [Pp Pq].
    assert (p = 0) by (destruct H2 as [?|[? ?]], G2 as [?|[? ?]]; lra).
    assert (p' = 0) by lra. subst p p'.
    assert (q = 0) by (destruct H2 as [?|[? ?]], G2 as [?|[? ?]]; lra).
    apply pair_eq; lra.
Qed.

(* the real variant agrees with the complex fallback on the real axis *)
Lemma sqrt_fb_real_axis (x : R) : sqrt_fb RO RE (x, 0) = sqrt_real RO x.
Proof. apply principal_root_unique with (x, 0); [apply sqrt_fb_principal | apply sqrt_real_principal]. Qed.
