(* C10 rounding bounds, part 2:
   (a) the FALLBACK modulus.  With A_HAVE_HYPOT off, a_real_hypot is a_real_norm2 of src/math.c; its model is real_norm2 of
       C11/MathDefs.v, and C11/RoundProofs.v (norm2_round) bounds its rounded run:  |fl - h| <= 7/2 (eps + eta) h + eta.
       Rnd_ops_fb rnd := Rnd_ops_hyp rnd (real_norm2 (Rnd_ops rnd)) is the rounded instance in which the modulus of complex.c
       is that rounded body; cabs at it IS real_norm2 (Rnd_ops rnd) (by reflexivity), accurate to 8 eps |z| when |z| is in
       the normal range, and inv_/div_ get the constants 26 / 29 (componentwise) / 41 (normwise) instead of 11 / 14 / 19.
   (b) IEEE binary64 (Flocq, Common/RoundFlocq.v): rnd64 = round to nearest even with gradual underflow, eps64 = 2^-53,
       eta64 = 2^-1075, rnd64 1 = 1; the range hypotheses  eta <= eps |z|, eta |z| <= eps  read  2^-1022 <= |z| <= 2^1022.
       Overflow is outside the model (rnd64 has no largest number). *)
From Coq Require Import Reals ZArith Lra Psatz Bool.
From Coquelicot Require Import Coquelicot.
From LibaV Require Import Common.NumOps Common.ROps Common.RoundOps Common.RoundFlocq C11.MathDefs C11.RoundProofs.
From LibaV Require Import C10.CxDefs C10.CxReal C10.CxField C10.CxRound.
Local Open Scope R_scope.

Definition hyp_fb (rnd : R -> R) (x y : R) : R := real_norm2 (Rnd_ops rnd) x y.
Definition Rnd_ops_fb (rnd : R -> R) : NumOps R := Rnd_ops_hyp rnd (hyp_fb rnd).

Section Fallback.
  Variable rnd : R -> R.
  Variables eps eta : R.
  Hypothesis M : std_model rnd eps eta.

  (* the modulus of the instance is the rounded a_real_norm2, the very term C11's theorem is about *)
  Theorem cabs_fb_is_norm2 (z : C) : cabs (Rnd_ops_fb rnd) z = real_norm2 (Rnd_ops rnd) (fst z) (snd z).
  Proof. reflexivity. Qed.

  Theorem cabs_round_fb (z : C) : rnd 1 = 1 -> eps + eta <= / 64 ->
    (fst z = 0 \/ 2 * eta <= Rabs (fst z)) -> (snd z = 0 \/ 2 * eta <= Rabs (snd z)) ->
    Rabs (cabs (Rnd_ops_fb rnd) z - Cmod z) <= 7 / 2 * (eps + eta) * Cmod z + eta.
  Proof.
    intros H1 Hv Hx Hy. rewrite cabs_fb_is_norm2. destruct z as [c d]. cbn [fst snd] in *.
    destruct (norm2_round _ _ _ M c d H1 Hv Hx Hy) as (_ & B). cbv zeta in B. rewrite Cmod_hyp in B. exact B.
  Qed.

  Lemma hyp_fb_accuracy (z : C) : rnd 1 = 1 -> eps <= / 128 -> eta <= eps -> eta <= eps * Cmod z ->
    (fst z = 0 \/ 2 * eta <= Rabs (fst z)) -> (snd z = 0 \/ 2 * eta <= Rabs (snd z)) ->
    Rabs (hyp_fb rnd (fst z) (snd z) - Cmod z) <= 8 * eps * Cmod z.
  Proof.
    intros H1 He Hee Hn Hx Hy. pose proof (eps_ge0 _ _ _ M) as Hu. pose proof (eta_ge0 _ _ _ M) as Ht.
    pose proof (cabs_round_fb z H1 ltac:(lra) Hx Hy) as B. rewrite cabs_fb_is_norm2 in B. fold (hyp_fb rnd (fst z) (snd z)) in B.
    pose proof (Cmod_ge_0 z) as Hm.
    assert (A : 7 / 2 * (eps + eta) * Cmod z <= 7 * eps * Cmod z) by (apply Rmult_le_compat_r; lra).
    lra.
  Qed.

  Lemma theta_8eps : eps <= / 128 -> 0 <= 8 * eps <= / 2 /\ 8 * eps / (1 - 8 * eps) <= 128 / 15 * eps.
  Proof.
    intros He. pose proof (eps_ge0 _ _ _ M) as Hu. split; [lra|].
    apply (Rmult_le_reg_r (1 - 8 * eps)); [lra|]. unfold Rdiv. rewrite Rmult_assoc, Rinv_l by lra.
    assert (eps * eps <= / 128 * eps) by (apply Rmult_le_compat_r; lra). lra.
  Qed.

  Theorem inv_round_fallback (z : C) :
    rnd 1 = 1 -> eps <= / 128 -> z <> (0, 0) -> eta <= eps * Cmod z -> eta * Cmod z <= eps ->
    (fst z = 0 \/ 2 * eta <= Rabs (fst z)) -> (snd z = 0 \/ 2 * eta <= Rabs (snd z)) ->
    let f := inv_ (Rnd_ops_fb rnd) z in
    Rabs (fst f - fst (Cinv z)) <= 26 * eps * (Rabs (fst z) / (Cmod z * Cmod z)) + 2 * eta * (1 + 1 / Cmod z) /\
    Rabs (snd f - snd (Cinv z)) <= 26 * eps * (Rabs (snd z) / (Cmod z * Cmod z)) + 2 * eta * (1 + 1 / Cmod z) /\
    Cmod (Cminus f (Cinv z)) <= 26 * eps * (1 / Cmod z) + 2 * eta * (1 + 1 / Cmod z).
  Proof.
    intros H1 He Hz A B Hx Hy. destruct (theta_8eps He) as (Hth & Hr).
    assert (Hp : 0 < Cmod z) by (apply Cmod_gt_0; exact Hz).
    pose proof (normal_range _ _ _ M _ Hp A B) as Hee.
    apply (inv_round_num _ _ _ M (hyp_fb rnd) z (8 * eps) (128 / 15) 26 H1 ltac:(lra) Hz B Hth); [lra|exact Hr| |].
    - cbv zeta. split; lra.
    - exact (hyp_fb_accuracy z H1 He Hee A Hx Hy).
  Qed.

  Theorem div_round_fallback (x z : C) :
    rnd 1 = 1 -> eps <= / 128 -> z <> (0, 0) -> eta <= eps * Cmod z -> eta * Cmod z <= eps ->
    (fst z = 0 \/ 2 * eta <= Rabs (fst z)) -> (snd z = 0 \/ 2 * eta <= Rabs (snd z)) ->
    let X := Cmod (Cdiv x z) in
    let f := div_ (Rnd_ops_fb rnd) x z in
    Rabs (fst f - fst (Cdiv x z))
      <= 29 * eps * ((Rabs (fst x * fst z) + Rabs (snd x * snd z)) / (Cmod z * Cmod z)) + eta * (5 + 2 * X) /\
    Rabs (snd f - snd (Cdiv x z))
      <= 29 * eps * ((Rabs (snd x * fst z) + Rabs (fst x * snd z)) / (Cmod z * Cmod z)) + eta * (5 + 2 * X) /\
    Cmod (Cminus f (Cdiv x z)) <= 41 * eps * X + eta * (7 + 3 * X).
  Proof.
    intros H1 He Hz A B Hx Hy X f. pose proof (eps_ge0 _ _ _ M) as Hu. destruct (theta_8eps He) as (Hth & Hr).
    assert (Hp : 0 < Cmod z) by (apply Cmod_gt_0; exact Hz).
    pose proof (normal_range _ _ _ M _ Hp A B) as Hee.
    assert (HN : let i0 := 65 / 64 * (128 / 15) + 2 in let k0 := 65 / 64 * i0 + 1 in
                 k0 <= 64 / 5 /\ 65 / 64 * (65 / 64) * ((2 + k0 / 64) * k0) + 2 + / 64 <= 287 / 10) by (cbv zeta; split; lra).
    destruct (div_round_num _ _ _ M (hyp_fb rnd) x z (8 * eps) (128 / 15) (287 / 10) H1 ltac:(lra) Hz Hee B Hth ltac:(lra) Hr HN
                (hyp_fb_accuracy z H1 He Hee A Hx Hy)) as (C1 & C2 & C3).
    fold X in C1, C2, C3. fold (Rnd_ops_fb rnd) in C1, C2, C3. fold f in C1, C2, C3.
    assert (X0 : 0 <= X) by (unfold X; apply Cmod_ge_0).
    assert (IZ : 0 < / (Cmod z * Cmod z)) by (apply Rinv_0_lt_compat; nra).
    assert (V1 : 0 <= eps * ((Rabs (fst x * fst z) + Rabs (snd x * snd z)) / (Cmod z * Cmod z))).
    { apply Rmult_le_pos; [lra|]. apply Rmult_le_pos; [|lra]. pose proof (Rabs_pos (fst x * fst z)). pose proof (Rabs_pos (snd x * snd z)). lra. }
    assert (V2 : 0 <= eps * ((Rabs (snd x * fst z) + Rabs (fst x * snd z)) / (Cmod z * Cmod z))).
    { apply Rmult_le_pos; [lra|]. apply Rmult_le_pos; [|lra]. pose proof (Rabs_pos (snd x * fst z)). pose proof (Rabs_pos (fst x * snd z)). lra. }
    assert (V3 : 0 <= eps * X) by (apply Rmult_le_pos; lra).
    split; [lra|]. split; lra.
  Qed.
End Fallback.

(* ------------------------------------------------------------------ IEEE binary64 *)
Lemma eps64_small : eps64 <= / 128.
Proof. rewrite eps64_val. lra. Qed.

Local Notation O64 := (Rnd_ops rnd64).
Local Notation g64 := (2 * eps64 + eps64 * eps64).
Local Notation t64 := ((3 + 2 * eps64) * eta64).

Theorem add_sub_round_binary64 (x y : C) :
  (Rabs (fst (cadd O64 x y) - fst (Cplus x y)) <= eps64 * Rabs (fst (Cplus x y)) + eta64 /\
   Rabs (snd (cadd O64 x y) - snd (Cplus x y)) <= eps64 * Rabs (snd (Cplus x y)) + eta64) /\
  (Rabs (fst (csub O64 x y) - fst (Cminus x y)) <= eps64 * Rabs (fst (Cminus x y)) + eta64 /\
   Rabs (snd (csub O64 x y) - snd (Cminus x y)) <= eps64 * Rabs (snd (Cminus x y)) + eta64).
Proof. split; [exact (add_round _ _ _ std_model_binary64 x y)|exact (sub_round _ _ _ std_model_binary64 x y)]. Qed.

Theorem mul_round_binary64 (x z : C) :
  Rabs (fst (mul_ O64 x z) - fst (Cmult x z)) <= g64 * (Rabs (fst x * fst z) + Rabs (snd x * snd z)) + t64 /\
  Rabs (snd (mul_ O64 x z) - snd (Cmult x z)) <= g64 * (Rabs (fst x * snd z) + Rabs (snd x * fst z)) + t64 /\
  Cmod (Cminus (mul_ O64 x z) (Cmult x z)) <= Rsqrt 2 * (g64 * (Cmod x * Cmod z) + t64).
Proof.
  destruct (mul_round_comp _ _ _ std_model_binary64 x z) as (A & B).
  split; [exact A|]. split; [exact B|exact (mul_round_norm _ _ _ std_model_binary64 x z)].
Qed.

Theorem scalar_round_binary64 (x : C) (y : R) :
  (Rabs (fst (mul_real O64 x y) - fst x * y) <= eps64 * Rabs (fst x * y) + eta64 /\
   Rabs (snd (mul_real O64 x y) - snd x * y) <= eps64 * Rabs (snd x * y) + eta64) /\
  (Rabs (fst (mul_imag O64 x y) - (- snd x * y)) <= eps64 * Rabs (- snd x * y) + eta64 /\
   Rabs (snd (mul_imag O64 x y) - fst x * y) <= eps64 * Rabs (fst x * y) + eta64) /\
  (y <> 0 ->
   (Rabs (fst (div_real O64 x y) - fst x / y) <= eps64 * Rabs (fst x / y) + eta64 /\
    Rabs (snd (div_real O64 x y) - snd x / y) <= eps64 * Rabs (snd x / y) + eta64) /\
   (Rabs (fst (div_imag O64 x y) - snd x / y) <= eps64 * Rabs (snd x / y) + eta64 /\
    Rabs (snd (div_imag O64 x y) - (- fst x / y)) <= eps64 * Rabs (- fst x / y) + eta64)).
Proof.
  split; [exact (mul_real_round _ _ _ std_model_binary64 x y)|]. split; [exact (mul_imag_round _ _ _ std_model_binary64 x y)|].
  intros Hy. split; [exact (div_real_round _ _ _ std_model_binary64 x y Hy)|exact (div_imag_round _ _ _ std_model_binary64 x y Hy)].
Qed.

(* correctly rounded hypot (Rnd_ops rnd64 itself), |z| and 1/|z| in the normal range *)
Theorem inv_round_binary64 (z : C) : z <> (0, 0) -> eta64 <= eps64 * Cmod z -> eta64 * Cmod z <= eps64 ->
  Cmod (Cminus (inv_ O64 z) (Cinv z)) <= 11 * eps64 * (1 / Cmod z) + 2 * eta64 * (1 + 1 / Cmod z).
Proof.
  intros Hz A B. assert (He : eps64 <= / 64) by (pose proof eps64_small; lra).
  exact (proj2 (proj2 (inv_round_cr _ _ _ std_model_binary64 z rnd64_1 He Hz A B))).
Qed.

Theorem div_round_binary64 (x z : C) : z <> (0, 0) -> eta64 <= eps64 * Cmod z -> eta64 * Cmod z <= eps64 ->
  let X := Cmod (Cdiv x z) in
  Rabs (fst (div_ O64 x z) - fst (Cdiv x z))
    <= 14 * eps64 * ((Rabs (fst x * fst z) + Rabs (snd x * snd z)) / (Cmod z * Cmod z)) + eta64 * (5 + 2 * X) /\
  Rabs (snd (div_ O64 x z) - snd (Cdiv x z))
    <= 14 * eps64 * ((Rabs (snd x * fst z) + Rabs (fst x * snd z)) / (Cmod z * Cmod z)) + eta64 * (5 + 2 * X) /\
  Cmod (Cminus (div_ O64 x z) (Cdiv x z)) <= 19 * eps64 * X + eta64 * (7 + 3 * X).
Proof.
  intros Hz A B. assert (He : eps64 <= / 64) by (pose proof eps64_small; lra).
  exact (div_round_cr _ _ _ std_model_binary64 x z rnd64_1 He Hz A B).
Qed.

(* the fallback modulus a_real_norm2; every binary64 number is 0 or at least 2^-1074 = 2 eta64 in magnitude, so the two
   side conditions on the components hold for all floating-point arguments *)
Theorem cabs_round_fallback_binary64 (z : C) :
  (fst z = 0 \/ 2 * eta64 <= Rabs (fst z)) -> (snd z = 0 \/ 2 * eta64 <= Rabs (snd z)) ->
  Rabs (cabs (Rnd_ops_fb rnd64) z - Cmod z) <= 7 / 2 * (eps64 + eta64) * Cmod z + eta64.
Proof. intros Hx Hy. exact (cabs_round_fb _ _ _ std_model_binary64 z rnd64_1 eps_eta64_small Hx Hy). Qed.

Theorem inv_div_round_fallback_binary64 (x z : C) : z <> (0, 0) -> eta64 <= eps64 * Cmod z -> eta64 * Cmod z <= eps64 ->
  (fst z = 0 \/ 2 * eta64 <= Rabs (fst z)) -> (snd z = 0 \/ 2 * eta64 <= Rabs (snd z)) ->
  let X := Cmod (Cdiv x z) in
  Cmod (Cminus (inv_ (Rnd_ops_fb rnd64) z) (Cinv z)) <= 26 * eps64 * (1 / Cmod z) + 2 * eta64 * (1 + 1 / Cmod z) /\
  Cmod (Cminus (div_ (Rnd_ops_fb rnd64) x z) (Cdiv x z)) <= 41 * eps64 * X + eta64 * (7 + 3 * X).
Proof.
  intros Hz A B Hx Hy X. split.
  - exact (proj2 (proj2 (inv_round_fallback _ _ _ std_model_binary64 z rnd64_1 eps64_small Hz A B Hx Hy))).
  - exact (proj2 (proj2 (div_round_fallback _ _ _ std_model_binary64 x z rnd64_1 eps64_small Hz A B Hx Hy))).
Qed.

(* ------------------------------------------------------------------ non-vacuity in binary64: z = 3 + 4i, |z| = 5, x = 1 + 2i *)
Lemma Cmod_3_4 : Cmod (3, 4) = 5.
Proof. unfold Cmod. cbn [fst snd]. replace (3 ^ 2 + 4 ^ 2) with (5 * 5) by ring. apply sqrt_square. lra. Qed.

Lemma eta64_tiny : 0 <= eta64 /\ 1000 * eta64 <= eps64.
Proof.
  split; [apply Flocq.Core.Raux.bpow_ge_0|].
  assert (H : eta64 <= Flocq.Core.Raux.bpow Flocq.Core.Zaux.radix2 (-63)) by (apply Flocq.Core.Raux.bpow_le; lia).
  assert (E : Flocq.Core.Raux.bpow Flocq.Core.Zaux.radix2 (-63) = / 1024 * eps64).
  { unfold eps64. change (/ 1024) with (Flocq.Core.Raux.bpow Flocq.Core.Zaux.radix2 (-10)).
    rewrite <- Flocq.Core.Raux.bpow_plus. reflexivity. }
  pose proof (Flocq.Core.Raux.bpow_ge_0 Flocq.Core.Zaux.radix2 (-53)) as P. fold eps64 in P. lra.
Qed.

Example inv_div_round_binary64_ex :
  Cmod (Cminus (inv_ O64 (3, 4)) (Cinv (3, 4))) <= 11 * eps64 * (1 / 5) + 2 * eta64 * (1 + 1 / 5) /\
  Cmod (Cminus (div_ O64 (1, 2) (3, 4)) (Cdiv (1, 2) (3, 4)))
    <= 19 * eps64 * Cmod (Cdiv (1, 2) (3, 4)) + eta64 * (7 + 3 * Cmod (Cdiv (1, 2) (3, 4))) /\
  Cmod (Cminus (div_ (Rnd_ops_fb rnd64) (1, 2) (3, 4)) (Cdiv (1, 2) (3, 4)))
    <= 41 * eps64 * Cmod (Cdiv (1, 2) (3, 4)) + eta64 * (7 + 3 * Cmod (Cdiv (1, 2) (3, 4))).
Proof.
  destruct eta64_tiny as (E0 & E1).
  assert (Hz : (3, 4) <> (0, 0) :> C) by (intros E; inversion E; lra).
  assert (A : eta64 <= eps64 * Cmod (3, 4)) by (rewrite Cmod_3_4; lra).
  assert (B : eta64 * Cmod (3, 4) <= eps64) by (rewrite Cmod_3_4; lra).
  assert (Hx : fst (3, 4) = 0 \/ 2 * eta64 <= Rabs (fst (3, 4))).
  { right. cbn [fst]. rewrite Rabs_pos_eq by lra. rewrite eps64_val in E1. lra. }
  assert (Hy : snd (3, 4) = 0 \/ 2 * eta64 <= Rabs (snd (3, 4))).
  { right. cbn [snd]. rewrite Rabs_pos_eq by lra. rewrite eps64_val in E1. lra. }
  split; [|split].
  - pose proof (inv_round_binary64 (3, 4) Hz A B) as H. rewrite Cmod_3_4 in H. exact H.
  - exact (proj2 (proj2 (div_round_binary64 (1, 2) (3, 4) Hz A B))).
  - exact (proj2 (inv_div_round_fallback_binary64 (1, 2) (3, 4) Hz A B Hx Hy)).
Qed.
