(* C10: forward rounding-error bounds of the complex FIELD arithmetic (a_complex_add/sub/mul/div/inv, the real/imag scalar
   forms, abs2 and the modulus) in the standard model of floating-point arithmetic with gradual underflow
   (Common/RoundOps.v):  the SAME Gallina terms cadd/csub/mul_/div_/inv_/... of C10/CxDefs.v (those tied to the CURRENT
   src/complex.c by the translator tie harness/C10/TieCx*.v for EVERY NumOps instance) instantiated at a rounded-real
   instance (each + - * / followed by rnd) against their value at R_ops (exact; Coquelicot's Cplus/Cmult/Cdiv/Cinv by
   C10/CxField.v).  Everything is generic in  rnd, eps, eta  with  std_model rnd eps eta  (|rnd v - v| <= eps |v| + eta).

   THE MODULUS.  complex.c calls a_real_hypot, which is libm's hypot (A_HAVE_HYPOT) or the body a_real_norm2 of src/math.c;
   CxDefs.v writes it  fn2 O Hypot.  At  Rnd_ops rnd  that is  rnd (sqrt (x^2 + y^2))  - a CORRECTLY ROUNDED hypot, which is an
   idealisation of a real libm.  The theorems about inv_/div_/cabs are therefore stated at the instance
        Rnd_ops_hyp rnd hyp   =  Rnd_ops rnd  with  fn2 Hypot := hyp
   for an ARBITRARY function hyp about which only an accuracy hypothesis AT THE ARGUMENT is assumed
   (|hyp c d - |z|| <= theta |z|; theta = 2 eps covers a hypot with one unit in the last place of error as well as the
   correctly rounded one of Rnd_ops rnd in the normal range), and then specialised: *_cr to Rnd_ops rnd itself (here),
   *_fallback to hyp := real_norm2 (Rnd_ops rnd), the rounded a_real_norm2, using C11's norm2_round (C10/CxRound64.v).

   Notation: x = (a, b), z = (c, d), |.| = Cmod, g2 = 2 eps + eps^2, O = the rounded instance.
     add/sub (+ the four scalar forms)   componentwise |fl - exact| <= eps |exact| + eta   (a component that is copied: exact)
     mul_real/mul_imag/div_real/div_imag componentwise |fl - exact| <= eps |exact| + eta
     neg, conj                           exact
     mul_   |Re fl - (ac - bd)| <= g2 (|ac| + |bd|) + (3 + 2 eps) eta,  |Im fl - (ad + bc)| <= g2 (|ad| + |bc|) + (3 + 2 eps) eta
            |fl - x z| <= sqrt 2 (g2 |x| |z| + (3 + 2 eps) eta)                              (Higham's bound, with underflow term)
     abs2   |fl - (c^2 + d^2)| <= g2 (c^2 + d^2) + (3 + 2 eps) eta
     inv_   |fl - 1/z| <= 11 eps / |z| + 2 eta (1 + 1 / |z|)
     div_   |fl - x/z| <= 19 eps |x/z| + eta (7 + 3 |x/z|),  componentwise 14 eps (|ac| + |bd|) / |z|^2 + eta (5 + 2 |x/z|)
            both for  rnd 1 = 1, eps <= 1/64, z <> 0, theta = 2 eps  and  eta <= eps |z|, eta |z| <= eps  (|z| and 1/|z| in the
            "normal range" eta/eps .. eps/eta = 2^-1022 .. 2^1022 for binary64; inv_ needs only the second); the general
            forms div_round_gen/inv_round_gen (any theta <= 1/2, no smallness of eps) carry theta through the functions
            iota_of/kappa_of/Gdiv/Ginv/Tof/Tinv, and div_round_num/inv_round_num turn them into numbers.
     cabs   |fl - |z|| <= theta |z| (the hypothesis), = eps |z| + eta at Rnd_ops rnd.
   The constants are not sharp: std_model gives eps |v| + eta where IEEE arithmetic gives max (eps |v|, eta), so the
   hypothesis eta <= eps |v| yields 2 eps |v|; a sharp first-order analysis of div_ gives 8 eps componentwise.
   Overflow is outside the model.  No theorem here is about the transcendental functions. *)
From Coq Require Import Reals ZArith Lra Psatz Bool.
From Coquelicot Require Import Coquelicot.
From LibaV Require Import Common.NumOps Common.ROps Common.RoundOps C10.CxDefs C10.CxReal C10.CxField.
Local Open Scope R_scope.

(* the rounded instance with an arbitrary modulus function *)
Definition Rnd_ops_hyp (rnd : R -> R) (hyp : R -> R -> R) : NumOps R := {|
  zero := 0; one := rnd 1;
  add := fun a b => rnd (a + b); sub := fun a b => rnd (a - b);
  mul := fun a b => rnd (a * b); div := fun a b => rnd (a / b);
  opp := Ropp; abs := Rabs; sqrt := fun a => rnd (R_sqrt.sqrt a);
  ltb := Rltb; leb := Rleb; eqb := Reqb;
  ofZ := fun z => rnd (IZR z);
  ofD := fun m e => rnd (IZR m * powerRZ 2 e);
  fn1 := fun f x => rnd (R_fn1 f x);
  fn2 := fun f x y => match f with Hypot => hyp x y | _ => rnd (R_fn2 f x y) end
|}.

Ltac unfold_hops :=
  cbn [zero one add sub mul div opp abs sqrt ltb leb eqb ofZ ofD fn1 fn2 R_ops Rnd_ops Rnd_ops_hyp] in *.

(* Rnd_ops rnd is the member hyp := correctly rounded hypot (on the operations the field arithmetic uses) *)
Definition hyp_cr (rnd : R -> R) (x y : R) : R := rnd (Rsqrt (x * x + y * y)).

(* ------------------------------------------------------------------ real lemmas *)
Lemma Rabs_mul_err (xh x yh y : R) :
  Rabs (xh * yh - x * y) <= Rabs (xh - x) * Rabs (yh - y) + Rabs x * Rabs (yh - y) + Rabs y * Rabs (xh - x).
Proof.
  replace (xh * yh - x * y) with ((xh - x) * (yh - y) + x * (yh - y) + y * (xh - x)) by ring.
  eapply Rle_trans; [apply Rabs_triang|]. eapply Rle_trans; [apply Rplus_le_compat_r, Rabs_triang|].
  rewrite !Rabs_mult. lra.
Qed.

Lemma le_of_sq (p q : R) : 0 <= q -> p * p <= q * q -> p <= q.
Proof. intros Hq H. destruct (Rle_dec p q) as [L|L]; [exact L|]. nra. Qed.

Lemma sqrt2_bounds : 0 < Rsqrt 2 /\ Rsqrt 2 * Rsqrt 2 = 2 /\ Rsqrt 2 <= 1415 / 1000.
Proof.
  assert (P : 0 < Rsqrt 2) by (apply sqrt_lt_R0; lra).
  assert (S : Rsqrt 2 * Rsqrt 2 = 2) by (apply sqrt_sqrt; lra).
  split; [exact P|]. split; [exact S|]. apply le_of_sq; lra.
Qed.

(* the Euclidean norm of an error vector whose components are bounded by g U + t, g V + t, with U^2 + V^2 <= W^2 *)
Lemma norm_of_components (e1 e2 g t U V W : R) : 0 <= g -> 0 <= t -> 0 <= U -> 0 <= V -> 0 <= W ->
  U * U + V * V <= W * W -> Rabs e1 <= g * U + t -> Rabs e2 <= g * V + t ->
  Rsqrt (e1 ^ 2 + e2 ^ 2) <= g * W + Rsqrt 2 * t.
Proof.
  intros Hg Ht HU HV HW HUV H1 H2. destruct sqrt2_bounds as (Sp & Ss & _). set (s := Rsqrt 2) in *.
  assert (HS : U + V <= s * W).
  { apply le_of_sq; [apply Rmult_le_pos; lra|].
    replace (s * W * (s * W)) with ((s * s) * (W * W)) by ring. rewrite Ss.
    pose proof (Rle_0_sqr (U - V)) as Q. unfold Rsqr in Q. lra. }
  assert (R0 : 0 <= g * W + s * t) by (pose proof (Rmult_le_pos _ _ Hg HW); pose proof (Rmult_le_pos s t (Rlt_le _ _ Sp) Ht); lra).
  apply le_of_sq; [exact R0|]. rewrite sqrt_sqrt by nra.
  pose proof (Rabs_pos e1) as P1. pose proof (Rabs_pos e2) as P2.
  assert (Q1 : e1 ^ 2 <= (g * U + t) * (g * U + t)).
  { replace (e1 ^ 2) with (Rabs e1 * Rabs e1) by (rewrite <- Rabs_mult, Rabs_pos_eq; [ring|nra]). apply Rmult_le_compat; lra. }
  assert (Q2 : e2 ^ 2 <= (g * V + t) * (g * V + t)).
  { replace (e2 ^ 2) with (Rabs e2 * Rabs e2) by (rewrite <- Rabs_mult, Rabs_pos_eq; [ring|nra]). apply Rmult_le_compat; lra. }
  assert (A1 : g * g * (U * U + V * V) <= g * g * (W * W)) by (apply Rmult_le_compat_l; nra).
  assert (A2 : g * t * (U + V) <= g * t * (s * W)) by (apply Rmult_le_compat_l; [apply Rmult_le_pos; lra|exact HS]).
  replace ((g * W + s * t) * (g * W + s * t)) with (g * g * (W * W) + 2 * (g * t * (s * W)) + (s * s) * (t * t)) by ring.
  rewrite Ss. nra.
Qed.

Lemma Cmod_sq (z : C) : Cmod z * Cmod z = fst z * fst z + snd z * snd z.
Proof. unfold Cmod. rewrite sqrt_sqrt; [ring|]. nra. Qed.

Lemma abs_sq_eq (a : R) : Rabs a * Rabs a = a * a.
Proof. rewrite <- Rabs_mult. apply Rabs_pos_eq. nra. Qed.

Lemma Cmod_minus_unfold (p q : C) : Cmod (Cminus p q) = Rsqrt ((fst p - fst q) ^ 2 + (snd p - snd q) ^ 2).
Proof. destruct p, q. unfold Cmod, Cminus, Cplus, Copp. cbn [fst snd]. f_equal. Qed.

Section CxRound.
  Variable rnd : R -> R.
  Variables eps eta : R.
  Hypothesis M : std_model rnd eps eta.
  Local Notation O := (Rnd_ops rnd).
  Local Notation g2 := (2 * eps + eps * eps).
  Local Notation t3 := ((3 + 2 * eps) * eta).

  (* ---------------------------------------------------------------- 1. add, sub and their scalar forms *)
  Theorem add_round (x y : C) :
    Rabs (fst (cadd O x y) - fst (Cplus x y)) <= eps * Rabs (fst (Cplus x y)) + eta /\
    Rabs (snd (cadd O x y) - snd (Cplus x y)) <= eps * Rabs (snd (Cplus x y)) + eta.
  Proof. destruct x, y. unfold cadd, Cplus. cbn [fst snd]. unfold_rops. split; apply (rnd_err _ _ _ M). Qed.

  Theorem sub_round (x y : C) :
    Rabs (fst (csub O x y) - fst (Cminus x y)) <= eps * Rabs (fst (Cminus x y)) + eta /\
    Rabs (snd (csub O x y) - snd (Cminus x y)) <= eps * Rabs (snd (Cminus x y)) + eta.
  Proof. destruct x, y. unfold csub, Cminus, Cplus, Copp. cbn [fst snd]. unfold_rops. split; apply (rnd_err _ _ _ M). Qed.

  Theorem add_real_round (x : C) (y : R) :
    Rabs (fst (add_real O x y) - (fst x + y)) <= eps * Rabs (fst x + y) + eta /\ snd (add_real O x y) = snd x.
  Proof. destruct x. unfold add_real. cbn [fst snd]. unfold_rops. split; [apply (rnd_err _ _ _ M)|reflexivity]. Qed.
  Theorem add_imag_round (x : C) (y : R) :
    fst (add_imag O x y) = fst x /\ Rabs (snd (add_imag O x y) - (snd x + y)) <= eps * Rabs (snd x + y) + eta.
  Proof. destruct x. unfold add_imag. cbn [fst snd]. unfold_rops. split; [reflexivity|apply (rnd_err _ _ _ M)]. Qed.
  Theorem sub_real_round (x : C) (y : R) :
    Rabs (fst (sub_real O x y) - (fst x - y)) <= eps * Rabs (fst x - y) + eta /\ snd (sub_real O x y) = snd x.
  Proof. destruct x. unfold sub_real. cbn [fst snd]. unfold_rops. split; [apply (rnd_err _ _ _ M)|reflexivity]. Qed.
  Theorem sub_imag_round (x : C) (y : R) :
    fst (sub_imag O x y) = fst x /\ Rabs (snd (sub_imag O x y) - (snd x - y)) <= eps * Rabs (snd x - y) + eta.
  Proof. destruct x. unfold sub_imag. cbn [fst snd]. unfold_rops. split; [reflexivity|apply (rnd_err _ _ _ M)]. Qed.

  (* the exact values the four statements above compare with are those of the exact instance *)
  Lemma scalar_exact_values (x : C) (y : R) :
    add_real RO x y = (fst x + y, snd x) /\ add_imag RO x y = (fst x, snd x + y) /\
    sub_real RO x y = (fst x - y, snd x) /\ sub_imag RO x y = (fst x, snd x - y) /\
    mul_real RO x y = (fst x * y, snd x * y) /\ mul_imag RO x y = (- snd x * y, fst x * y) /\
    div_real RO x y = (fst x / y, snd x / y) /\ div_imag RO x y = (snd x / y, - fst x / y).
  Proof. repeat split. Qed.

  Theorem neg_conj_exact (z : C) : neg O z = Copp z /\ conj O z = Cconj z.
  Proof. split; reflexivity. Qed.

  (* ---------------------------------------------------------------- 2./3. scalar multiplication and division: one rounding *)
  Theorem mul_real_round (x : C) (y : R) :
    Rabs (fst (mul_real O x y) - fst x * y) <= eps * Rabs (fst x * y) + eta /\
    Rabs (snd (mul_real O x y) - snd x * y) <= eps * Rabs (snd x * y) + eta.
  Proof. destruct x. unfold mul_real. cbn [fst snd]. unfold_rops. split; apply (rnd_err _ _ _ M). Qed.
  Theorem mul_imag_round (x : C) (y : R) :
    Rabs (fst (mul_imag O x y) - (- snd x * y)) <= eps * Rabs (- snd x * y) + eta /\
    Rabs (snd (mul_imag O x y) - fst x * y) <= eps * Rabs (fst x * y) + eta.
  Proof. destruct x. unfold mul_imag. cbn [fst snd]. unfold_rops. split; apply (rnd_err _ _ _ M). Qed.
  Theorem div_real_round (x : C) (y : R) : y <> 0 ->
    Rabs (fst (div_real O x y) - fst x / y) <= eps * Rabs (fst x / y) + eta /\
    Rabs (snd (div_real O x y) - snd x / y) <= eps * Rabs (snd x / y) + eta.
  Proof. intros _. destruct x. unfold div_real. cbn [fst snd]. unfold_rops. split; apply (rnd_err _ _ _ M). Qed.
  Theorem div_imag_round (x : C) (y : R) : y <> 0 ->
    Rabs (fst (div_imag O x y) - snd x / y) <= eps * Rabs (snd x / y) + eta /\
    Rabs (snd (div_imag O x y) - (- fst x / y)) <= eps * Rabs (- fst x / y) + eta.
  Proof. intros _. destruct x. unfold div_imag. cbn [fst snd]. unfold_rops. split; apply (rnd_err _ _ _ M). Qed.

  (* ---------------------------------------------------------------- 2. the product *)
  (* two rounded products, then a rounded sum or difference *)
  Lemma two_products_add (p q : R) :
    Rabs (rnd (rnd p + rnd q) - (p + q)) <= g2 * (Rabs p + Rabs q) + t3.
  Proof.
    pose proof (eps_ge0 _ _ _ M) as Hu. pose proof (eta_ge0 _ _ _ M) as Ht.
    pose proof (rnd_err _ _ _ M p) as Hp. pose proof (rnd_err _ _ _ M q) as Hq.
    pose proof (rnd_step _ _ _ M (rnd p + rnd q) (p + q)) as H.
    assert (T1 : Rabs (rnd p + rnd q - (p + q)) <= Rabs (rnd p - p) + Rabs (rnd q - q)).
    { replace (rnd p + rnd q - (p + q)) with ((rnd p - p) + (rnd q - q)) by ring. apply Rabs_triang. }
    pose proof (Rabs_triang p q) as T2. pose proof (Rabs_pos p). pose proof (Rabs_pos q).
    assert (B1 : (1 + eps) * Rabs (rnd p + rnd q - (p + q)) <= (1 + eps) * (eps * (Rabs p + Rabs q) + 2 * eta))
      by (apply Rmult_le_compat_l; lra).
    assert (B2 : eps * Rabs (p + q) <= eps * (Rabs p + Rabs q)) by (apply Rmult_le_compat_l; lra).
    lra.
  Qed.
  Lemma two_products_sub (p q : R) :
    Rabs (rnd (rnd p - rnd q) - (p - q)) <= g2 * (Rabs p + Rabs q) + t3.
  Proof.
    pose proof (eps_ge0 _ _ _ M) as Hu. pose proof (eta_ge0 _ _ _ M) as Ht.
    pose proof (rnd_err _ _ _ M p) as Hp. pose proof (rnd_err _ _ _ M q) as Hq.
    pose proof (rnd_step _ _ _ M (rnd p - rnd q) (p - q)) as H.
    assert (T1 : Rabs (rnd p - rnd q - (p - q)) <= Rabs (rnd p - p) + Rabs (rnd q - q)).
    { replace (rnd p - rnd q - (p - q)) with ((rnd p - p) + - (rnd q - q)) by ring.
      eapply Rle_trans; [apply Rabs_triang|]. rewrite Rabs_Ropp. lra. }
    assert (T2 : Rabs (p - q) <= Rabs p + Rabs q).
    { unfold Rminus. eapply Rle_trans; [apply Rabs_triang|]. rewrite Rabs_Ropp. lra. }
    pose proof (Rabs_pos p). pose proof (Rabs_pos q).
    assert (B1 : (1 + eps) * Rabs (rnd p - rnd q - (p - q)) <= (1 + eps) * (eps * (Rabs p + Rabs q) + 2 * eta))
      by (apply Rmult_le_compat_l; lra).
    assert (B2 : eps * Rabs (p - q) <= eps * (Rabs p + Rabs q)) by (apply Rmult_le_compat_l; lra).
    lra.
  Qed.

  Theorem mul_round_comp (x z : C) :
    Rabs (fst (mul_ O x z) - fst (Cmult x z)) <= g2 * (Rabs (fst x * fst z) + Rabs (snd x * snd z)) + t3 /\
    Rabs (snd (mul_ O x z) - snd (Cmult x z)) <= g2 * (Rabs (fst x * snd z) + Rabs (snd x * fst z)) + t3.
  Proof.
    destruct x as [a b], z as [c d]. unfold mul_, Cmult. cbn [fst snd]. unfold_rops.
    split; [apply two_products_sub|apply two_products_add].
  Qed.

  Lemma cross_terms (a b c d : R) :
    let U := Rabs (a * c) + Rabs (b * d) in let V := Rabs (a * d) + Rabs (b * c) in
    0 <= U /\ 0 <= V /\ U * U + V * V <= 2 * ((a * a + b * b) * (c * c + d * d)).
  Proof.
    intros U V. unfold U, V. rewrite !Rabs_mult.
    pose proof (Rabs_pos a) as Ha. pose proof (Rabs_pos b) as Hb. pose proof (Rabs_pos c) as Hc. pose proof (Rabs_pos d) as Hd.
    rewrite <- (abs_sq_eq a), <- (abs_sq_eq b), <- (abs_sq_eq c), <- (abs_sq_eq d).
    set (A := Rabs a) in *. set (B := Rabs b) in *. set (C := Rabs c) in *. set (D := Rabs d) in *.
    assert (0 <= A * C) by (apply Rmult_le_pos; lra). assert (0 <= B * D) by (apply Rmult_le_pos; lra).
    assert (0 <= A * D) by (apply Rmult_le_pos; lra). assert (0 <= B * C) by (apply Rmult_le_pos; lra).
    split; [lra|]. split; [lra|].
    assert (K1 : 0 <= 2 * (A * B) <= A * A + B * B) by (split; [pose proof (Rmult_le_pos A B Ha Hb); lra|pose proof (Rle_0_sqr (A - B)) as Q; unfold Rsqr in Q; lra]).
    assert (K2 : 0 <= 2 * (C * D) <= C * C + D * D) by (split; [pose proof (Rmult_le_pos C D Hc Hd); lra|pose proof (Rle_0_sqr (C - D)) as Q; unfold Rsqr in Q; lra]).
    assert (K : (2 * (A * B)) * (2 * (C * D)) <= (A * A + B * B) * (C * C + D * D)) by (apply Rmult_le_compat; lra).
    nra.
  Qed.

  Theorem mul_round_norm (x z : C) :
    Cmod (Cminus (mul_ O x z) (Cmult x z)) <= Rsqrt 2 * (g2 * (Cmod x * Cmod z) + t3).
  Proof.
    pose proof (eps_ge0 _ _ _ M) as Hu. pose proof (eta_ge0 _ _ _ M) as Ht.
    destruct (mul_round_comp x z) as [H1 H2]. rewrite Cmod_minus_unfold.
    destruct sqrt2_bounds as (Sp & Ss & _).
    destruct x as [a b], z as [c d]. cbn [fst snd] in H1, H2.
    destruct (cross_terms a b c d) as (HU & HV & HUV). cbv zeta in HU, HV, HUV.
    pose proof (Cmod_ge_0 (a, b)) as Mx. pose proof (Cmod_ge_0 (c, d)) as Mz.
    pose proof (Cmod_sq (a, b)) as Sx. pose proof (Cmod_sq (c, d)) as Sz. cbn [fst snd] in Sx, Sz.
    assert (G0 : 0 <= g2) by nra. assert (T0 : 0 <= t3) by nra.
    assert (W0 : 0 <= Rsqrt 2 * (Cmod (a, b) * Cmod (c, d))) by (apply Rmult_le_pos; [lra|apply Rmult_le_pos; lra]).
    eapply Rle_trans.
    - apply (norm_of_components _ _ g2 t3 _ _ (Rsqrt 2 * (Cmod (a, b) * Cmod (c, d))) G0 T0 HU HV W0); [|exact H1|exact H2].
      replace (Rsqrt 2 * (Cmod (a, b) * Cmod (c, d)) * (Rsqrt 2 * (Cmod (a, b) * Cmod (c, d))))
        with ((Rsqrt 2 * Rsqrt 2) * ((Cmod (a, b) * Cmod (a, b)) * (Cmod (c, d) * Cmod (c, d)))) by ring.
      rewrite Ss, Sx, Sz. exact HUV.
    - apply Req_le. ring.
  Qed.

  (* abs2 = |z|^2 is computed the same way *)
  Theorem abs2_round (z : C) :
    Rabs (abs2 O z - Cmod z * Cmod z) <= g2 * (Cmod z * Cmod z) + t3.
  Proof.
    rewrite Cmod_sq. destruct z as [c d]. unfold abs2. cbn [fst snd]. unfold_rops.
    pose proof (two_products_add (c * c) (d * d)) as H. rewrite (Rabs_pos_eq (c * c)), (Rabs_pos_eq (d * d)) in H by nra. exact H.
  Qed.

  (* ---------------------------------------------------------------- 3. inv_ and div_: scaling by the rounded 1/|z| *)
  (* theta = relative accuracy of the computed modulus.  iota: relative error of i = fl(1/|z|^), kappa: of fl(a * i) *)
  Definition iota_of (theta : R) : R := (1 + eps) * (theta / (1 - theta)) + 2 * eps.
  Definition kappa_of (theta : R) : R := (1 + eps) * iota_of theta + eps.
  Definition Gof (k : R) : R := (1 + eps) * (1 + eps) * (k * k + 2 * k) + g2.
  Definition Tof (k S : R) : R := (1 + eps) * (1 + eps) * (eta * (1 + k) * S + 2 * (eta * eta)) + 2 * (1 + eps) * eta + eta.
  Definition Gdiv (theta : R) : R := Gof (kappa_of theta).
  Definition Ginv (theta : R) : R :=
    let i := iota_of theta in let k := kappa_of theta in (1 + eps) * (k * i + i + k) + eps.
  Definition Tinv (theta u : R) : R := eta * ((1 + eps) * (1 + iota_of theta) * u + 1).

  Lemma Rabs_le_both' (x y : R) : Rabs x <= y -> - y <= x <= y.
  Proof. unfold Rabs. destruct (Rcase_abs x); lra. Qed.

  (* i = rnd (1 / hh) against u = 1 / h *)
  Lemma inv_modulus (h hh theta : R) : 0 < h -> 0 <= theta <= / 2 -> eta * h <= eps ->
    Rabs (hh - h) <= theta * h ->
    Rabs (rnd (1 / hh) - 1 / h) <= iota_of theta * (1 / h).
  Proof.
    intros Hh Hth He HD. pose proof (eps_ge0 _ _ _ M) as Hu. pose proof (eta_ge0 _ _ _ M) as Ht.
    set (u := 1 / h). assert (Hup : 0 < u) by (unfold u; apply Rdiv_lt_0_compat; lra).
    assert (Hhu : h * u = 1) by (unfold u; field; lra).
    apply Rabs_le_both' in HD.
    assert (Hhh : h * (1 - theta) <= hh) by lra.
    assert (Hm : 0 < h * (1 - theta)) by (apply Rmult_lt_0_compat; lra).
    assert (Hhh0 : 0 < hh) by lra.
    assert (Hi : / hh <= u * / (1 - theta)).
    { replace (u * / (1 - theta)) with (/ (h * (1 - theta))) by (unfold u; field; lra).
      apply Rinv_le_contravar; lra. }
    assert (Hi0 : 0 < / hh) by (apply Rinv_0_lt_compat; lra).
    assert (E1 : Rabs (1 / hh - u) <= u * (theta / (1 - theta))).
    { replace (1 / hh - u) with ((h - hh) * (/ hh * u)) by (unfold u; field; lra).
      rewrite Rabs_mult, (Rabs_pos_eq (/ hh * u)) by (apply Rmult_le_pos; lra).
      assert (A : Rabs (h - hh) <= theta * h) by (apply Rabs_le; lra).
      assert (B : Rabs (h - hh) * (/ hh * u) <= theta * h * (/ hh * u)).
      { apply Rmult_le_compat_r; [apply Rmult_le_pos; lra|exact A]. }
      replace (theta * h * (/ hh * u)) with (theta * / hh) in B by (rewrite <- (Rmult_1_r (theta * / hh)), <- Hhu; ring).
      assert (C : theta * / hh <= theta * (u * / (1 - theta))) by (apply Rmult_le_compat_l; lra).
      unfold Rdiv. lra. }
    pose proof (rnd_step _ _ _ M (1 / hh) u) as H. rewrite (Rabs_pos_eq u) in H by lra.
    assert (E2 : eta <= eps * u).
    { replace eta with (eta * h * u) by (rewrite Rmult_assoc, Hhu; ring). apply Rmult_le_compat_r; lra. }
    assert (E3 : (1 + eps) * Rabs (1 / hh - u) <= (1 + eps) * (u * (theta / (1 - theta)))) by (apply Rmult_le_compat_l; lra).
    unfold iota_of. lra.
  Qed.

  (* a * i against a * u *)
  Lemma scaled_op (a i u iota : R) : 0 <= u -> Rabs (i - u) <= iota * u ->
    Rabs (rnd (a * i) - a * u) <= Rabs (a * u) * ((1 + eps) * iota + eps) + eta.
  Proof.
    intros Hu0 Hi. pose proof (eps_ge0 _ _ _ M) as Hu.
    pose proof (rnd_step _ _ _ M (a * i) (a * u)) as H.
    replace (a * i - a * u) with (a * (i - u)) in H by ring. rewrite !Rabs_mult, (Rabs_pos_eq u) in * by lra.
    pose proof (Rabs_pos a) as Ha.
    assert (B : Rabs a * Rabs (i - u) <= Rabs a * (iota * u)) by (apply Rmult_le_compat_l; lra).
    assert (B' : (1 + eps) * (Rabs a * Rabs (i - u)) <= (1 + eps) * (Rabs a * (iota * u))) by (apply Rmult_le_compat_l; lra).
    lra.
  Qed.

  (* the rounded product of two such quantities *)
  Lemma prod_round (xh x yh y k : R) : 0 <= k ->
    Rabs (xh - x) <= Rabs x * k + eta -> Rabs (yh - y) <= Rabs y * k + eta ->
    Rabs (rnd (xh * yh) - x * y)
      <= Rabs (x * y) * ((1 + eps) * (k * k + 2 * k) + eps) + (1 + eps) * (eta * (1 + k) * (Rabs x + Rabs y) + eta * eta) + eta.
  Proof.
    intros Hk Hx Hy. pose proof (eps_ge0 _ _ _ M) as Hu. pose proof (eta_ge0 _ _ _ M) as Ht.
    pose proof (rnd_step _ _ _ M (xh * yh) (x * y)) as H. pose proof (Rabs_mul_err xh x yh y) as E.
    rewrite Rabs_mult in *.
    pose proof (Rabs_pos x) as Px. pose proof (Rabs_pos y) as Py.
    pose proof (Rabs_pos (xh - x)) as Dx. pose proof (Rabs_pos (yh - y)) as Dy.
    set (P := Rabs x) in *. set (Q := Rabs y) in *. set (dx := Rabs (xh - x)) in *. set (dy := Rabs (yh - y)) in *.
    assert (Pk : 0 <= P * k) by (apply Rmult_le_pos; lra). assert (Qk : 0 <= Q * k) by (apply Rmult_le_pos; lra).
    assert (B1 : dx * dy <= (P * k + eta) * (Q * k + eta)) by (apply Rmult_le_compat; lra).
    assert (B2 : P * dy <= P * (Q * k + eta)) by (apply Rmult_le_compat_l; lra).
    assert (B3 : Q * dx <= Q * (P * k + eta)) by (apply Rmult_le_compat_l; lra).
    set (Z := Rabs (xh * yh - x * y)) in *.
    assert (B4 : Z <= P * Q * (k * k + 2 * k) + eta * (1 + k) * (P + Q) + eta * eta) by lra.
    assert (B5 : (1 + eps) * Z <= (1 + eps) * (P * Q * (k * k + 2 * k) + eta * (1 + k) * (P + Q) + eta * eta))
      by (apply Rmult_le_compat_l; lra).
    lra.
  Qed.

  (* rnd (rnd (x1^ y1^) +- rnd (x2^ y2^)) against x1 y1 +- x2 y2 *)
  Lemma dot2_round_add (x1h x1 y1h y1 x2h x2 y2h y2 k : R) : 0 <= k ->
    Rabs (x1h - x1) <= Rabs x1 * k + eta -> Rabs (y1h - y1) <= Rabs y1 * k + eta ->
    Rabs (x2h - x2) <= Rabs x2 * k + eta -> Rabs (y2h - y2) <= Rabs y2 * k + eta ->
    Rabs (rnd (rnd (x1h * y1h) + rnd (x2h * y2h)) - (x1 * y1 + x2 * y2))
      <= Gof k * (Rabs (x1 * y1) + Rabs (x2 * y2)) + Tof k (Rabs x1 + Rabs y1 + Rabs x2 + Rabs y2).
  Proof.
    intros Hk H1 H2 H3 H4. pose proof (eps_ge0 _ _ _ M) as Hu. pose proof (eta_ge0 _ _ _ M) as Ht.
    pose proof (prod_round _ _ _ _ k Hk H1 H2) as A. pose proof (prod_round _ _ _ _ k Hk H3 H4) as B.
    set (p1h := rnd (x1h * y1h)) in *. set (p2h := rnd (x2h * y2h)) in *.
    pose proof (rnd_step _ _ _ M (p1h + p2h) (x1 * y1 + x2 * y2)) as H.
    assert (T1 : Rabs (p1h + p2h - (x1 * y1 + x2 * y2)) <= Rabs (p1h - x1 * y1) + Rabs (p2h - x2 * y2)).
    { replace (p1h + p2h - (x1 * y1 + x2 * y2)) with ((p1h - x1 * y1) + (p2h - x2 * y2)) by ring. apply Rabs_triang. }
    pose proof (Rabs_triang (x1 * y1) (x2 * y2)) as T2.
    pose proof (Rabs_pos (x1 * y1)). pose proof (Rabs_pos (x2 * y2)).
    set (Z := Rabs (p1h + p2h - (x1 * y1 + x2 * y2))) in *.
    set (A0 := Rabs (x1 * y1) * ((1 + eps) * (k * k + 2 * k) + eps) + (1 + eps) * (eta * (1 + k) * (Rabs x1 + Rabs y1) + eta * eta) + eta) in *.
    set (B0 := Rabs (x2 * y2) * ((1 + eps) * (k * k + 2 * k) + eps) + (1 + eps) * (eta * (1 + k) * (Rabs x2 + Rabs y2) + eta * eta) + eta) in *.
    assert (C1 : (1 + eps) * Z <= (1 + eps) * (A0 + B0)) by (apply Rmult_le_compat_l; lra).
    assert (C2 : eps * Rabs (x1 * y1 + x2 * y2) <= eps * (Rabs (x1 * y1) + Rabs (x2 * y2))) by (apply Rmult_le_compat_l; lra).
    unfold Gof, Tof. unfold A0, B0 in C1. lra.
  Qed.
  Lemma dot2_round_sub (x1h x1 y1h y1 x2h x2 y2h y2 k : R) : 0 <= k ->
    Rabs (x1h - x1) <= Rabs x1 * k + eta -> Rabs (y1h - y1) <= Rabs y1 * k + eta ->
    Rabs (x2h - x2) <= Rabs x2 * k + eta -> Rabs (y2h - y2) <= Rabs y2 * k + eta ->
    Rabs (rnd (rnd (x1h * y1h) - rnd (x2h * y2h)) - (x1 * y1 - x2 * y2))
      <= Gof k * (Rabs (x1 * y1) + Rabs (x2 * y2)) + Tof k (Rabs x1 + Rabs y1 + Rabs x2 + Rabs y2).
  Proof.
    intros Hk H1 H2 H3 H4. pose proof (eps_ge0 _ _ _ M) as Hu. pose proof (eta_ge0 _ _ _ M) as Ht.
    pose proof (prod_round _ _ _ _ k Hk H1 H2) as A. pose proof (prod_round _ _ _ _ k Hk H3 H4) as B.
    set (p1h := rnd (x1h * y1h)) in *. set (p2h := rnd (x2h * y2h)) in *.
    pose proof (rnd_step _ _ _ M (p1h - p2h) (x1 * y1 - x2 * y2)) as H.
    assert (T1 : Rabs (p1h - p2h - (x1 * y1 - x2 * y2)) <= Rabs (p1h - x1 * y1) + Rabs (p2h - x2 * y2)).
    { replace (p1h - p2h - (x1 * y1 - x2 * y2)) with ((p1h - x1 * y1) + - (p2h - x2 * y2)) by ring.
      eapply Rle_trans; [apply Rabs_triang|]. rewrite Rabs_Ropp. lra. }
    assert (T2 : Rabs (x1 * y1 - x2 * y2) <= Rabs (x1 * y1) + Rabs (x2 * y2)).
    { unfold Rminus. eapply Rle_trans; [apply Rabs_triang|]. rewrite Rabs_Ropp. lra. }
    pose proof (Rabs_pos (x1 * y1)). pose proof (Rabs_pos (x2 * y2)).
    set (Z := Rabs (p1h - p2h - (x1 * y1 - x2 * y2))) in *.
    set (A0 := Rabs (x1 * y1) * ((1 + eps) * (k * k + 2 * k) + eps) + (1 + eps) * (eta * (1 + k) * (Rabs x1 + Rabs y1) + eta * eta) + eta) in *.
    set (B0 := Rabs (x2 * y2) * ((1 + eps) * (k * k + 2 * k) + eps) + (1 + eps) * (eta * (1 + k) * (Rabs x2 + Rabs y2) + eta * eta) + eta) in *.
    assert (C1 : (1 + eps) * Z <= (1 + eps) * (A0 + B0)) by (apply Rmult_le_compat_l; lra).
    assert (C2 : eps * Rabs (x1 * y1 - x2 * y2) <= eps * (Rabs (x1 * y1) + Rabs (x2 * y2))) by (apply Rmult_le_compat_l; lra).
    unfold Gof, Tof. unfold A0, B0 in C1. lra.
  Qed.

  (* one component of inv_:  rnd (rnd (i * a) * i)  against  u * a * u *)
  Lemma inv_component (a i u iota : R) : 0 <= u -> 0 <= iota -> Rabs (i - u) <= iota * u ->
    let k := (1 + eps) * iota + eps in
    Rabs (rnd (rnd (i * a) * i) - u * a * u)
      <= ((1 + eps) * (k * iota + iota + k) + eps) * (Rabs a * u * u) + eta * ((1 + eps) * (1 + iota) * u + 1).
  Proof.
    intros Hu0 Hi0 Hi k. pose proof (eps_ge0 _ _ _ M) as Hu. pose proof (eta_ge0 _ _ _ M) as Ht.
    assert (Hk : 0 <= k) by (unfold k; pose proof (Rmult_le_pos (1 + eps) iota); lra).
    pose proof (scaled_op a i u iota Hu0 Hi) as Hs. fold k in Hs. rewrite (Rmult_comm a i) in Hs.
    rewrite Rabs_mult, (Rabs_pos_eq u) in Hs by lra.
    set (t := rnd (i * a)) in *.
    pose proof (rnd_step _ _ _ M (t * i) (a * u * u)) as H. pose proof (Rabs_mul_err t (a * u) i u) as E.
    rewrite !Rabs_mult, !(Rabs_pos_eq u) in * by lra.
    pose proof (Rabs_pos a) as Pa. pose proof (Rabs_pos (t - a * u)) as Dt. pose proof (Rabs_pos (i - u)) as Di.
    set (A := Rabs a) in *. set (dt := Rabs (t - a * u)) in *. set (di := Rabs (i - u)) in *.
    assert (PA : 0 <= A * u) by (apply Rmult_le_pos; lra).
    assert (IU : 0 <= iota * u) by (apply Rmult_le_pos; lra).
    assert (B1 : dt * di <= (A * u * k + eta) * (iota * u)).
    { apply Rmult_le_compat; try lra. }
    assert (B2 : A * u * di <= A * u * (iota * u)) by (apply Rmult_le_compat_l; lra).
    assert (B3 : u * dt <= u * (A * u * k + eta)) by (apply Rmult_le_compat_l; lra).
    set (Z := Rabs (t * i - a * u * u)) in *.
    assert (B4 : Z <= A * u * u * (k * iota + iota + k) + eta * ((1 + iota) * u)) by lra.
    assert (B5 : (1 + eps) * Z <= (1 + eps) * (A * u * u * (k * iota + iota + k) + eta * ((1 + iota) * u)))
      by (apply Rmult_le_compat_l; lra).
    replace (u * a * u) with (a * u * u) by ring. lra.
  Qed.

  Lemma iota_of_ge0 (theta : R) : 0 <= theta <= / 2 -> 0 <= iota_of theta.
  Proof.
    intros H. pose proof (eps_ge0 _ _ _ M) as Hu. unfold iota_of.
    assert (0 <= theta / (1 - theta)) by (apply Rmult_le_pos; [lra|apply Rlt_le, Rinv_0_lt_compat; lra]).
    pose proof (Rmult_le_pos (1 + eps) (theta / (1 - theta))). lra.
  Qed.
  Lemma kappa_of_ge0 (theta : R) : 0 <= theta <= / 2 -> 0 <= kappa_of theta.
  Proof.
    intros H. pose proof (eps_ge0 _ _ _ M) as Hu. pose proof (iota_of_ge0 theta H). unfold kappa_of.
    pose proof (Rmult_le_pos (1 + eps) (iota_of theta)). lra.
  Qed.
  Lemma Gof_ge0 (k : R) : 0 <= k -> 0 <= Gof k.
  Proof.
    intros Hk. pose proof (eps_ge0 _ _ _ M) as Hu. unfold Gof.
    assert (0 <= k * k + 2 * k) by nra. assert (0 <= (1 + eps) * (1 + eps)) by nra.
    pose proof (Rmult_le_pos _ _ H0 H). nra.
  Qed.
  Lemma Tof_mono (k S S' : R) : 0 <= k -> S <= S' -> Tof k S <= Tof k S'.
  Proof.
    intros Hk HS. pose proof (eps_ge0 _ _ _ M) as Hu. pose proof (eta_ge0 _ _ _ M) as Ht. unfold Tof.
    assert (A : eta * (1 + k) * S <= eta * (1 + k) * S') by (apply Rmult_le_compat_l; [apply Rmult_le_pos; lra|exact HS]).
    assert (B : 0 <= (1 + eps) * (1 + eps)) by nra.
    assert (C : (1 + eps) * (1 + eps) * (eta * (1 + k) * S + 2 * (eta * eta)) <= (1 + eps) * (1 + eps) * (eta * (1 + k) * S' + 2 * (eta * eta)))
      by (apply Rmult_le_compat_l; lra).
    lra.
  Qed.
  Lemma Tof_ge0 (k S : R) : 0 <= k -> 0 <= S -> 0 <= Tof k S.
  Proof.
    intros Hk HS. pose proof (eps_ge0 _ _ _ M) as Hu. pose proof (eta_ge0 _ _ _ M) as Ht. unfold Tof.
    assert (0 <= eta * (1 + k) * S) by (apply Rmult_le_pos; [apply Rmult_le_pos; lra|exact HS]).
    assert (0 <= eta * eta) by nra. assert (B : 0 <= (1 + eps) * (1 + eps)) by nra.
    pose proof (Rmult_le_pos _ (eta * (1 + k) * S + 2 * (eta * eta)) B). pose proof (Rmult_le_pos (1 + eps) eta). lra.
  Qed.

  Lemma abs_sum_le_cmod (a b : R) : Rabs a + Rabs b <= Rsqrt 2 * Cmod (a, b).
  Proof.
    destruct sqrt2_bounds as (Sp & Ss & _). pose proof (Cmod_ge_0 (a, b)) as Hm.
    apply le_of_sq; [apply Rmult_le_pos; lra|].
    replace (Rsqrt 2 * Cmod (a, b) * (Rsqrt 2 * Cmod (a, b))) with ((Rsqrt 2 * Rsqrt 2) * (Cmod (a, b) * Cmod (a, b))) by ring.
    rewrite Ss, Cmod_sq. cbn [fst snd]. rewrite <- (abs_sq_eq a), <- (abs_sq_eq b).
    pose proof (Rle_0_sqr (Rabs a - Rabs b)) as Q. unfold Rsqr in Q. lra.
  Qed.

  Lemma Cmod_hyp (c d : R) : Rsqrt (c * c + d * d) = Cmod (c, d).
  Proof. unfold Cmod. cbn [fst snd]. f_equal. ring. Qed.

  (* ---- inv_ : general form ---- *)
  Theorem inv_round_gen (hyp : R -> R -> R) (z : C) (theta : R) :
    rnd 1 = 1 -> z <> (0, 0) -> 0 <= theta <= / 2 -> eta * Cmod z <= eps ->
    Rabs (hyp (fst z) (snd z) - Cmod z) <= theta * Cmod z ->
    let u := 1 / Cmod z in
    let f := inv_ (Rnd_ops_hyp rnd hyp) z in
    Rabs (fst f - fst (Cinv z)) <= Ginv theta * (Rabs (fst z) * u * u) + Tinv theta u /\
    Rabs (snd f - snd (Cinv z)) <= Ginv theta * (Rabs (snd z) * u * u) + Tinv theta u /\
    Cmod (Cminus f (Cinv z)) <= Ginv theta * u + Rsqrt 2 * Tinv theta u.
  Proof.
    intros H1 Hz Hth He Hh u f. pose proof (eps_ge0 _ _ _ M) as Hu. pose proof (eta_ge0 _ _ _ M) as Ht.
    pose proof (cabs_pos z Hz) as Hp. rewrite cabs_Cmod in Hp.
    rewrite <- (proj2 (inv_Cinv z Hz)). unfold f. clear f.
    pose proof (inv_modulus (Cmod z) (hyp (fst z) (snd z)) theta Hp Hth He Hh) as Hi. fold u in Hi.
    pose proof (iota_of_ge0 theta Hth) as I0. pose proof (kappa_of_ge0 theta Hth) as K0.
    assert (Hu0 : 0 < u) by (unfold u; apply Rdiv_lt_0_compat; lra).
    assert (Hhu : Cmod z * u = 1) by (unfold u; field; lra).
    pose proof (Cmod_sq z) as Sz.
    destruct z as [c d]. cbn [fst snd] in *.
    unfold inv_, cabs, f_hypot. cbv zeta. cbn [fst snd]. unfold_hops. cbn [R_fn2]. rewrite H1, Cmod_hyp. fold u.
    set (h := Cmod (c, d)) in *. set (i := rnd (1 / hyp c d)) in *.
    assert (C1 : Rabs (rnd (rnd (i * c) * i) - u * c * u) <= Ginv theta * (Rabs c * u * u) + Tinv theta u).
    { exact (inv_component c i u (iota_of theta) (Rlt_le _ _ Hu0) I0 Hi). }
    assert (C2 : Rabs (rnd (rnd (- i * d) * i) - - u * d * u) <= Ginv theta * (Rabs d * u * u) + Tinv theta u).
    { replace (- i * d) with (i * - d) by ring. replace (- u * d * u) with (u * - d * u) by ring.
      rewrite <- (Rabs_Ropp d). exact (inv_component (- d) i u (iota_of theta) (Rlt_le _ _ Hu0) I0 Hi). }
    split; [exact C1|]. split; [exact C2|].
    rewrite Cmod_minus_unfold. cbn [fst snd].
    assert (G0 : 0 <= Ginv theta).
    { unfold Ginv. cbv zeta. set (io := iota_of theta) in *. set (k := kappa_of theta) in *.
      pose proof (Rmult_le_pos k io K0 I0). pose proof (Rmult_le_pos (1 + eps) (k * io + io + k)). lra. }
    assert (T0 : 0 <= Tinv theta u).
    { unfold Tinv. apply Rmult_le_pos; [lra|]. set (io := iota_of theta) in *.
      pose proof (Rmult_le_pos (1 + eps) (1 + io)). pose proof (Rmult_le_pos ((1 + eps) * (1 + io)) u). lra. }
    pose proof (Rabs_pos c) as Pc. pose proof (Rabs_pos d) as Pd.
    assert (UU : 0 <= u * u) by nra.
    apply (norm_of_components _ _ (Ginv theta) (Tinv theta u) (Rabs c * u * u) (Rabs d * u * u) u G0 T0); try lra.
    - rewrite Rmult_assoc. apply Rmult_le_pos; lra.
    - rewrite Rmult_assoc. apply Rmult_le_pos; lra.
    - replace (Rabs c * u * u * (Rabs c * u * u) + Rabs d * u * u * (Rabs d * u * u))
        with ((Rabs c * Rabs c + Rabs d * Rabs d) * (u * u) * (u * u)) by ring.
      rewrite !abs_sq_eq, <- Sz.
      replace (h * h * (u * u) * (u * u)) with ((h * u) * (h * u) * (u * u)) by ring. rewrite Hhu. lra.
  Qed.

  (* ---- div_ : general form ---- *)
  Theorem div_round_gen (hyp : R -> R -> R) (x z : C) (theta : R) :
    rnd 1 = 1 -> z <> (0, 0) -> 0 <= theta <= / 2 -> eta * Cmod z <= eps ->
    Rabs (hyp (fst z) (snd z) - Cmod z) <= theta * Cmod z ->
    let k := kappa_of theta in
    let X := Cmod x / Cmod z in
    let T := Tof k (Rsqrt 2 * (1 + X)) in
    let f := div_ (Rnd_ops_hyp rnd hyp) x z in
    Rabs (fst f - fst (Cdiv x z))
      <= Gdiv theta * ((Rabs (fst x * fst z) + Rabs (snd x * snd z)) / (Cmod z * Cmod z)) + T /\
    Rabs (snd f - snd (Cdiv x z))
      <= Gdiv theta * ((Rabs (snd x * fst z) + Rabs (fst x * snd z)) / (Cmod z * Cmod z)) + T /\
    Cmod (Cminus f (Cdiv x z)) <= Rsqrt 2 * (Gdiv theta * X + T).
  Proof.
    intros H1 Hz Hth He Hh k X T f. pose proof (eps_ge0 _ _ _ M) as Hu. pose proof (eta_ge0 _ _ _ M) as Ht.
    pose proof (cabs_pos z Hz) as Hp. rewrite cabs_Cmod in Hp.
    rewrite <- (proj2 (div_Cdiv x z Hz)). unfold f. clear f.
    set (u := 1 / Cmod z).
    pose proof (inv_modulus (Cmod z) (hyp (fst z) (snd z)) theta Hp Hth He Hh) as Hi. fold u in Hi.
    pose proof (iota_of_ge0 theta Hth) as I0. pose proof (kappa_of_ge0 theta Hth) as K0. fold k in K0.
    assert (Hu0 : 0 < u) by (unfold u; apply Rdiv_lt_0_compat; lra).
    assert (Hhu : Cmod z * u = 1) by (unfold u; field; lra).
    assert (EX : X = Cmod x * u) by (unfold X, u; field; lra).
    assert (EI : forall v, v / (Cmod z * Cmod z) = v * u * u) by (intros v; unfold u; field; lra).
    rewrite !EI.
    pose proof (Cmod_sq z) as Sz. pose proof (Cmod_sq x) as Sx. pose proof (Cmod_ge_0 x) as Mx.
    assert (HS : forall a b c d, (a, b) = x -> (c, d) = z ->
              Rabs (a * u) + Rabs (c * u) + Rabs (b * u) + Rabs (d * u) <= Rsqrt 2 * (1 + X)).
    { intros a b c d Ex Ez. rewrite !Rabs_mult, (Rabs_pos_eq u) by lra.
      pose proof (abs_sum_le_cmod a b) as A. pose proof (abs_sum_le_cmod c d) as B. rewrite Ex in A. rewrite Ez in B.
      assert (A' : (Rabs a + Rabs b) * u <= Rsqrt 2 * Cmod x * u) by (apply Rmult_le_compat_r; lra).
      assert (B' : (Rabs c + Rabs d) * u <= Rsqrt 2 * Cmod z * u) by (apply Rmult_le_compat_r; lra).
      rewrite EX. replace (Rsqrt 2 * Cmod z * u) with (Rsqrt 2 * (Cmod z * u)) in B' by ring. rewrite Hhu in B'. lra. }
    destruct x as [a b], z as [c d]. cbn [fst snd] in *.
    specialize (HS a b c d eq_refl eq_refl).
    unfold div_, cabs, f_hypot. cbv zeta. cbn [fst snd]. unfold_hops. cbn [R_fn2]. rewrite H1, Cmod_hyp. fold u.
    set (h := Cmod (c, d)) in *. set (i := rnd (1 / hyp c d)) in *.
    assert (Sc : forall v, Rabs (rnd (v * i) - v * u) <= Rabs (v * u) * k + eta).
    { intros v. exact (scaled_op v i u (iota_of theta) (Rlt_le _ _ Hu0) Hi). }
    pose proof (dot2_round_add _ _ _ _ _ _ _ _ k K0 (Sc a) (Sc c) (Sc b) (Sc d)) as C1.
    pose proof (dot2_round_sub _ _ _ _ _ _ _ _ k K0 (Sc b) (Sc c) (Sc a) (Sc d)) as C2.
    assert (P : forall v w, Rabs (v * u * (w * u)) = Rabs (v * w) * u * u).
    { intros v w. replace (v * u * (w * u)) with (v * w * (u * u)) by ring.
      rewrite (Rabs_mult (v * w)), (Rabs_pos_eq (u * u)) by nra. ring. }
    rewrite !P in C1, C2.
    assert (TS1 : Tof k (Rabs (a * u) + Rabs (c * u) + Rabs (b * u) + Rabs (d * u)) <= T) by (apply Tof_mono; [exact K0|exact HS]).
    assert (TS2 : Tof k (Rabs (b * u) + Rabs (c * u) + Rabs (a * u) + Rabs (d * u)) <= T) by (apply Tof_mono; [exact K0|lra]).
    change (Gdiv theta) with (Gof k) in *.
    assert (D1 : Rabs (rnd (rnd (rnd (a * i) * rnd (c * i)) + rnd (rnd (b * i) * rnd (d * i))) - (a * u * (c * u) + b * u * (d * u)))
                 <= Gof k * ((Rabs (a * c) + Rabs (b * d)) * u * u) + T) by lra.
    assert (D2 : Rabs (rnd (rnd (rnd (b * i) * rnd (c * i)) - rnd (rnd (a * i) * rnd (d * i))) - (b * u * (c * u) - a * u * (d * u)))
                 <= Gof k * ((Rabs (b * c) + Rabs (a * d)) * u * u) + T) by lra.
    split; [exact D1|]. split; [exact D2|].
    rewrite Cmod_minus_unfold. cbn [fst snd].
    destruct sqrt2_bounds as (Sp & Ss & _).
    pose proof (Gof_ge0 k K0) as G0.
    assert (X0 : 0 <= X) by (rewrite EX; apply Rmult_le_pos; lra).
    assert (T0 : 0 <= T) by (apply Tof_ge0; [exact K0|apply Rmult_le_pos; lra]).
    destruct (cross_terms a b c d) as (HU & HV & HUV). cbv zeta in HU, HV, HUV.
    assert (UU : 0 <= u * u) by nra.
    eapply Rle_trans.
    - apply (norm_of_components _ _ (Gof k) T ((Rabs (a * c) + Rabs (b * d)) * u * u) ((Rabs (b * c) + Rabs (a * d)) * u * u)
               (Rsqrt 2 * X) G0 T0); [| | | |exact D1|exact D2].
      + rewrite Rmult_assoc. apply Rmult_le_pos; lra.
      + rewrite Rmult_assoc. apply Rmult_le_pos; [|lra]. pose proof (Rabs_pos (b * c)). pose proof (Rabs_pos (a * d)). lra.
      + apply Rmult_le_pos; lra.
      + set (U := Rabs (a * c) + Rabs (b * d)) in *. set (V := Rabs (b * c) + Rabs (a * d)).
        assert (EV : V = Rabs (a * d) + Rabs (b * c)) by (unfold V; ring). rewrite <- EV in HUV, HV.
        replace (U * u * u * (U * u * u) + V * u * u * (V * u * u)) with ((U * U + V * V) * ((u * u) * (u * u))) by ring.
        replace (Rsqrt 2 * X * (Rsqrt 2 * X)) with ((Rsqrt 2 * Rsqrt 2) * (X * X)) by ring. rewrite Ss, EX.
        replace (2 * (Cmod (a, b) * u * (Cmod (a, b) * u))) with (2 * ((Cmod (a, b) * Cmod (a, b)) * (h * u) * (h * u) * (u * u)))
          by (rewrite Hhu; ring).
        rewrite Sx.
        replace (2 * ((a * a + b * b) * (h * u) * (h * u) * (u * u))) with (2 * ((a * a + b * b) * (h * h)) * ((u * u) * (u * u))) by ring.
        rewrite Sz. apply Rmult_le_compat_r; [nra|exact HUV].
    - apply Req_le. ring.
  Qed.

  (* ---- the constants, for eps <= 1/64 and theta / (1 - theta) <= r eps ---- *)
  Lemma G_numbers (theta r : R) : eps <= / 64 -> 0 <= theta <= / 2 -> 0 <= r -> theta / (1 - theta) <= r * eps ->
    let i0 := 65 / 64 * r + 2 in let k0 := 65 / 64 * i0 + 1 in
    iota_of theta <= i0 * eps /\ kappa_of theta <= k0 * eps /\
    Gdiv theta <= (65 / 64 * (65 / 64) * ((2 + k0 / 64) * k0) + 2 + / 64) * eps /\
    Ginv theta <= (65 / 64 * ((1 + k0 / 64) * i0 + k0) + 1) * eps.
  Proof.
    intros He Hth Hr0 Hr i0 k0. pose proof (eps_ge0 _ _ _ M) as Hu.
    pose proof (iota_of_ge0 theta Hth) as I0. pose proof (kappa_of_ge0 theta Hth) as K0.
    assert (Q0 : 0 <= theta / (1 - theta)) by (apply Rmult_le_pos; [lra|apply Rlt_le, Rinv_0_lt_compat; lra]).
    assert (Hi0 : 2 <= i0) by (unfold i0; lra). assert (Hk0 : 3 <= k0) by (unfold k0; lra).
    assert (HI : iota_of theta <= i0 * eps).
    { unfold iota_of. set (q := theta / (1 - theta)) in *.
      assert (eps * q <= / 64 * q) by (apply Rmult_le_compat_r; lra). unfold i0. lra. }
    assert (HK : kappa_of theta <= k0 * eps).
    { unfold kappa_of. assert (eps * iota_of theta <= / 64 * iota_of theta) by (apply Rmult_le_compat_r; lra). unfold k0. lra. }
    split; [exact HI|]. split; [exact HK|].
    unfold Gdiv, Gof, Ginv. cbv zeta.
    set (io := iota_of theta) in *. set (k := kappa_of theta) in *.
    assert (E1 : i0 * eps <= i0 * / 64) by (apply Rmult_le_compat_l; lra).
    assert (E2 : k0 * eps <= k0 * / 64) by (apply Rmult_le_compat_l; lra).
    assert (Kb : k <= k0 / 64) by lra.
    assert (KK : k * k <= k0 / 64 * k) by (apply Rmult_le_compat_r; lra).
    assert (KI : k * io <= k0 / 64 * io) by (apply Rmult_le_compat_r; lra).
    assert (KK0 : 0 <= k * k) by nra. assert (KI0 : 0 <= k * io) by (apply Rmult_le_pos; lra).
    assert (EE : eps * eps <= / 64 * eps) by (apply Rmult_le_compat_r; lra).
    assert (SQ : (1 + eps) * (1 + eps) <= 65 / 64 * (65 / 64)) by (apply Rmult_le_compat; lra).
    split.
    - set (Y := k * k + 2 * k) in *.
      assert (Y0 : 0 <= Y) by (unfold Y; lra).
      assert (Y1 : Y <= (2 + k0 / 64) * k) by (unfold Y; lra).
      assert (Y2 : (2 + k0 / 64) * k <= (2 + k0 / 64) * (k0 * eps)) by (apply Rmult_le_compat_l; lra).
      assert (Y3 : (1 + eps) * (1 + eps) * Y <= 65 / 64 * (65 / 64) * Y) by (apply Rmult_le_compat_r; lra).
      assert (Y4 : 65 / 64 * (65 / 64) * Y <= 65 / 64 * (65 / 64) * ((2 + k0 / 64) * (k0 * eps))) by (apply Rmult_le_compat_l; lra).
      lra.
    - set (Z := k * io + io + k) in *.
      assert (Z0 : 0 <= Z) by (unfold Z; lra).
      assert (Z1 : Z <= (1 + k0 / 64) * io + k) by (unfold Z; lra).
      assert (Z2 : (1 + k0 / 64) * io <= (1 + k0 / 64) * (i0 * eps)) by (apply Rmult_le_compat_l; lra).
      assert (Z3 : (1 + eps) * Z <= 65 / 64 * Z) by (apply Rmult_le_compat_r; lra).
      lra.
  Qed.

  Lemma Tof_bound (k X : R) : eps <= / 64 -> eta <= eps -> 0 <= k <= / 5 -> 0 <= X ->
    Tof k (Rsqrt 2 * (1 + X)) <= eta * (482 / 100 + 176 / 100 * X).
  Proof.
    intros He Hee Hk HX. pose proof (eps_ge0 _ _ _ M) as Hu. pose proof (eta_ge0 _ _ _ M) as Ht.
    destruct sqrt2_bounds as (Sp & _ & Sb). unfold Tof.
    set (S := Rsqrt 2 * (1 + X)).
    assert (S0 : 0 <= S) by (unfold S; apply Rmult_le_pos; lra).
    assert (S1 : S <= 1415 / 1000 * (1 + X)) by (unfold S; apply Rmult_le_compat_r; lra).
    assert (A1 : (1 + k) * S <= 6 / 5 * (1415 / 1000 * (1 + X))) by (apply Rmult_le_compat; lra).
    assert (A2 : eta * ((1 + k) * S) <= eta * (6 / 5 * (1415 / 1000 * (1 + X)))) by (apply Rmult_le_compat_l; lra).
    assert (A3 : eta * eta <= eta * / 64) by (apply Rmult_le_compat_l; lra).
    assert (A0 : 0 <= eta * ((1 + k) * S)) by (apply Rmult_le_pos; [lra|apply Rmult_le_pos; lra]).
    assert (A00 : 0 <= eta * eta) by nra.
    set (I := eta * (1 + k) * S + 2 * (eta * eta)).
    assert (I0 : 0 <= I) by (unfold I; rewrite Rmult_assoc; lra).
    assert (I1 : I <= eta * (6 / 5 * (1415 / 1000 * (1 + X))) + 2 * (eta * / 64)) by (unfold I; rewrite Rmult_assoc; lra).
    assert (SQ : (1 + eps) * (1 + eps) <= 65 / 64 * (65 / 64)) by (apply Rmult_le_compat; lra).
    assert (B1 : (1 + eps) * (1 + eps) * I <= 65 / 64 * (65 / 64) * I) by (apply Rmult_le_compat_r; lra).
    assert (B2 : 65 / 64 * (65 / 64) * I <= 65 / 64 * (65 / 64) * (eta * (6 / 5 * (1415 / 1000 * (1 + X))) + 2 * (eta * / 64)))
      by (apply Rmult_le_compat_l; lra).
    assert (B3 : (1 + eps) * eta <= 65 / 64 * eta) by (apply Rmult_le_compat_r; lra).
    assert (XE : 0 <= eta * X) by (apply Rmult_le_pos; lra).
    lra.
  Qed.

  Lemma Tinv_bound (theta u : R) : eps <= / 64 -> 0 <= iota_of theta <= / 5 -> 0 <= u ->
    Rsqrt 2 * Tinv theta u <= 2 * eta * (1 + u).
  Proof.
    intros He Hi Hu0. pose proof (eps_ge0 _ _ _ M) as Hu. pose proof (eta_ge0 _ _ _ M) as Ht.
    destruct sqrt2_bounds as (Sp & _ & Sb). unfold Tinv. set (io := iota_of theta) in *.
    assert (A1 : (1 + eps) * (1 + io) <= 65 / 64 * (6 / 5)) by (apply Rmult_le_compat; lra).
    assert (A2 : (1 + eps) * (1 + io) * u <= 65 / 64 * (6 / 5) * u) by (apply Rmult_le_compat_r; lra).
    assert (A0 : 0 <= (1 + eps) * (1 + io) * u) by (apply Rmult_le_pos; [apply Rmult_le_pos; lra|lra]).
    set (Y := (1 + eps) * (1 + io) * u + 1) in *.
    assert (Y1 : Y <= 65 / 64 * (6 / 5) * u + 1) by (unfold Y; lra). assert (Y0 : 0 <= Y) by (unfold Y; lra).
    assert (B1 : eta * Y <= eta * (65 / 64 * (6 / 5) * u + 1)) by (apply Rmult_le_compat_l; lra).
    assert (B0 : 0 <= eta * Y) by (apply Rmult_le_pos; lra).
    assert (B2 : Rsqrt 2 * (eta * Y) <= 1415 / 1000 * (eta * Y)) by (apply Rmult_le_compat_r; lra).
    assert (UE : 0 <= eta * u) by (apply Rmult_le_pos; lra).
    lra.
  Qed.

  (* theta = 2 eps *)
  Lemma theta_2eps : eps <= / 64 -> 0 <= 2 * eps <= / 2 /\ 2 * eps / (1 - 2 * eps) <= 64 / 31 * eps.
  Proof.
    intros He. pose proof (eps_ge0 _ _ _ M) as Hu. split; [lra|].
    apply (Rmult_le_reg_r (1 - 2 * eps)); [lra|]. unfold Rdiv. rewrite Rmult_assoc, Rinv_l by lra.
    assert (eps * eps <= / 64 * eps) by (apply Rmult_le_compat_r; lra). lra.
  Qed.

  (* ---- inv_ and div_ with numbers: theta / (1 - theta) <= r eps, Ki / Kc = the constants G_numbers gives for r ---- *)
  Lemma inv_round_num (hyp : R -> R -> R) (z : C) (theta r Ki : R) :
    rnd 1 = 1 -> eps <= / 64 -> z <> (0, 0) -> eta * Cmod z <= eps ->
    0 <= theta <= / 2 -> 0 <= r -> theta / (1 - theta) <= r * eps ->
    (let i0 := 65 / 64 * r + 2 in let k0 := 65 / 64 * i0 + 1 in
     i0 <= 64 / 5 /\ 65 / 64 * ((1 + k0 / 64) * i0 + k0) + 1 <= Ki) ->
    Rabs (hyp (fst z) (snd z) - Cmod z) <= theta * Cmod z ->
    let f := inv_ (Rnd_ops_hyp rnd hyp) z in
    Rabs (fst f - fst (Cinv z)) <= Ki * eps * (Rabs (fst z) / (Cmod z * Cmod z)) + 2 * eta * (1 + 1 / Cmod z) /\
    Rabs (snd f - snd (Cinv z)) <= Ki * eps * (Rabs (snd z) / (Cmod z * Cmod z)) + 2 * eta * (1 + 1 / Cmod z) /\
    Cmod (Cminus f (Cinv z)) <= Ki * eps * (1 / Cmod z) + 2 * eta * (1 + 1 / Cmod z).
  Proof.
    intros H1 He Hz H2 Hth Hr0 Hr HN Hh f. pose proof (eps_ge0 _ _ _ M) as Hu. pose proof (eta_ge0 _ _ _ M) as Ht.
    destruct (G_numbers theta r He Hth Hr0 Hr) as (NI & _ & _ & NG). cbv zeta in NI, NG, HN. destruct HN as (HN1 & HN2).
    destruct (inv_round_gen hyp z theta H1 Hz Hth H2 Hh) as (C1 & C2 & C3). cbv zeta in C1, C2, C3. fold f in C1, C2, C3.
    pose proof (Cmod_gt_0 z) as Hp. assert (Hp' : 0 < Cmod z) by (apply Hp; exact Hz). clear Hp.
    set (u := 1 / Cmod z) in *. assert (Hu0 : 0 < u) by (unfold u; apply Rdiv_lt_0_compat; lra).
    pose proof (iota_of_ge0 theta Hth) as I0.
    assert (IB : (65 / 64 * r + 2) * eps <= 64 / 5 * / 64) by (apply Rmult_le_compat; lra).
    assert (TB : Rsqrt 2 * Tinv theta u <= 2 * eta * (1 + u)) by (apply Tinv_bound; lra).
    destruct sqrt2_bounds as (Sp & Ss & _).
    assert (T0 : 0 <= Tinv theta u).
    { unfold Tinv. apply Rmult_le_pos; [lra|]. pose proof (Rmult_le_pos (1 + eps) (1 + iota_of theta)).
      pose proof (Rmult_le_pos ((1 + eps) * (1 + iota_of theta)) u). lra. }
    assert (T1 : Tinv theta u <= 2 * eta * (1 + u)).
    { assert (1 * Tinv theta u <= Rsqrt 2 * Tinv theta u); [|lra]. apply Rmult_le_compat_r; [lra|].
      apply le_of_sq; [lra|]. lra. }
    assert (NG' : Ginv theta <= Ki * eps).
    { eapply Rle_trans; [exact NG|]. apply Rmult_le_compat_r; lra. }
    assert (EI : forall v, v / (Cmod z * Cmod z) = v * u * u) by (intros v; unfold u; field; lra).
    rewrite !EI.
    assert (W : forall v, 0 <= v -> Ginv theta * v <= Ki * eps * v) by (intros v Hv; apply Rmult_le_compat_r; lra).
    pose proof (Rabs_pos (fst z)). pose proof (Rabs_pos (snd z)). assert (UU : 0 <= u * u) by nra.
    assert (V1 : 0 <= Rabs (fst z) * u * u) by (rewrite Rmult_assoc; apply Rmult_le_pos; lra).
    assert (V2 : 0 <= Rabs (snd z) * u * u) by (rewrite Rmult_assoc; apply Rmult_le_pos; lra).
    pose proof (W _ V1). pose proof (W _ V2). pose proof (W u (Rlt_le _ _ Hu0)).
    split; [lra|]. split; lra.
  Qed.

  Lemma div_round_num (hyp : R -> R -> R) (x z : C) (theta r Kc : R) :
    rnd 1 = 1 -> eps <= / 64 -> z <> (0, 0) -> eta <= eps -> eta * Cmod z <= eps ->
    0 <= theta <= / 2 -> 0 <= r -> theta / (1 - theta) <= r * eps ->
    (let i0 := 65 / 64 * r + 2 in let k0 := 65 / 64 * i0 + 1 in
     k0 <= 64 / 5 /\ 65 / 64 * (65 / 64) * ((2 + k0 / 64) * k0) + 2 + / 64 <= Kc) ->
    Rabs (hyp (fst z) (snd z) - Cmod z) <= theta * Cmod z ->
    let X := Cmod (Cdiv x z) in
    let f := div_ (Rnd_ops_hyp rnd hyp) x z in
    Rabs (fst f - fst (Cdiv x z))
      <= Kc * eps * ((Rabs (fst x * fst z) + Rabs (snd x * snd z)) / (Cmod z * Cmod z)) + eta * (5 + 2 * X) /\
    Rabs (snd f - snd (Cdiv x z))
      <= Kc * eps * ((Rabs (snd x * fst z) + Rabs (fst x * snd z)) / (Cmod z * Cmod z)) + eta * (5 + 2 * X) /\
    Cmod (Cminus f (Cdiv x z)) <= 1415 / 1000 * Kc * eps * X + eta * (7 + 3 * X).
  Proof.
    intros H1 He Hz Hee H2 Hth Hr0 Hr HN Hh X f. pose proof (eps_ge0 _ _ _ M) as Hu. pose proof (eta_ge0 _ _ _ M) as Ht.
    destruct (G_numbers theta r He Hth Hr0 Hr) as (_ & NK & NG & _). cbv zeta in NK, NG, HN. destruct HN as (HN1 & HN2).
    destruct (div_round_gen hyp x z theta H1 Hz Hth H2 Hh) as (C1 & C2 & C3). cbv zeta in C1, C2, C3. fold f in C1, C2, C3.
    pose proof (Cmod_gt_0 z) as Hp. assert (Hp' : 0 < Cmod z) by (apply Hp; exact Hz). clear Hp.
    assert (EX : X = Cmod x / Cmod z) by (unfold X; apply Cmod_div; exact Hz). rewrite <- EX in C1, C2, C3.
    assert (X0 : 0 <= X) by (unfold X; apply Cmod_ge_0).
    pose proof (kappa_of_ge0 theta Hth) as K0.
    assert (KB : (65 / 64 * (65 / 64 * r + 2) + 1) * eps <= 64 / 5 * / 64) by (apply Rmult_le_compat; lra).
    assert (TB : Tof (kappa_of theta) (Rsqrt 2 * (1 + X)) <= eta * (482 / 100 + 176 / 100 * X)) by (apply Tof_bound; lra).
    set (T := Tof (kappa_of theta) (Rsqrt 2 * (1 + X))) in *.
    assert (Kc0 : 2 <= Kc).
    { assert (0 <= (2 + (65 / 64 * (65 / 64 * r + 2) + 1) / 64) * (65 / 64 * (65 / 64 * r + 2) + 1)) by (apply Rmult_le_pos; lra).
      lra. }
    assert (NG' : Gdiv theta <= Kc * eps).
    { eapply Rle_trans; [exact NG|]. apply Rmult_le_compat_r; lra. }
    assert (XE : 0 <= eta * X) by (apply Rmult_le_pos; lra).
    assert (W : forall v, 0 <= v -> Gdiv theta * v <= Kc * eps * v) by (intros v Hv; apply Rmult_le_compat_r; lra).
    assert (IZ : 0 < / (Cmod z * Cmod z)) by (apply Rinv_0_lt_compat; nra).
    assert (V1 : 0 <= (Rabs (fst x * fst z) + Rabs (snd x * snd z)) / (Cmod z * Cmod z)).
    { apply Rmult_le_pos; [|lra]. pose proof (Rabs_pos (fst x * fst z)). pose proof (Rabs_pos (snd x * snd z)). lra. }
    assert (V2 : 0 <= (Rabs (snd x * fst z) + Rabs (fst x * snd z)) / (Cmod z * Cmod z)).
    { apply Rmult_le_pos; [|lra]. pose proof (Rabs_pos (snd x * fst z)). pose proof (Rabs_pos (fst x * snd z)). lra. }
    pose proof (W _ V1) as W1. pose proof (W _ V2) as W2. pose proof (W X X0) as W3.
    split; [lra|]. split; [lra|].
    destruct sqrt2_bounds as (Sp & _ & Sb).
    set (Y := Gdiv theta * X + T) in *.
    assert (Y1 : Y <= Kc * eps * X + eta * (482 / 100 + 176 / 100 * X)) by (unfold Y; lra).
    assert (Y0 : 0 <= Y).
    { unfold Y. pose proof (Gof_ge0 _ K0). fold (Gdiv theta) in H.
      assert (0 <= T) by (apply Tof_ge0; [exact K0|apply Rmult_le_pos; lra]).
      pose proof (Rmult_le_pos _ _ H X0). lra. }
    assert (Y2 : Rsqrt 2 * Y <= 1415 / 1000 * Y) by (apply Rmult_le_compat_r; lra).
    lra.
  Qed.

  (* ---- inv_ and div_ with a modulus accurate to 2 eps ---- *)
  Theorem inv_round (hyp : R -> R -> R) (z : C) :
    rnd 1 = 1 -> eps <= / 64 -> z <> (0, 0) -> eta * Cmod z <= eps ->
    Rabs (hyp (fst z) (snd z) - Cmod z) <= 2 * eps * Cmod z ->
    let f := inv_ (Rnd_ops_hyp rnd hyp) z in
    Rabs (fst f - fst (Cinv z)) <= 11 * eps * (Rabs (fst z) / (Cmod z * Cmod z)) + 2 * eta * (1 + 1 / Cmod z) /\
    Rabs (snd f - snd (Cinv z)) <= 11 * eps * (Rabs (snd z) / (Cmod z * Cmod z)) + 2 * eta * (1 + 1 / Cmod z) /\
    Cmod (Cminus f (Cinv z)) <= 11 * eps * (1 / Cmod z) + 2 * eta * (1 + 1 / Cmod z).
  Proof.
    intros H1 He Hz H2 Hh. destruct (theta_2eps He) as (Hth & Hr).
    apply (inv_round_num hyp z (2 * eps) (64 / 31) 11 H1 He Hz H2 Hth); [lra|exact Hr| |exact Hh].
    cbv zeta. split; lra.
  Qed.

  Theorem div_round (hyp : R -> R -> R) (x z : C) :
    rnd 1 = 1 -> eps <= / 64 -> z <> (0, 0) -> eta <= eps -> eta * Cmod z <= eps ->
    Rabs (hyp (fst z) (snd z) - Cmod z) <= 2 * eps * Cmod z ->
    let X := Cmod (Cdiv x z) in
    let f := div_ (Rnd_ops_hyp rnd hyp) x z in
    Rabs (fst f - fst (Cdiv x z))
      <= 14 * eps * ((Rabs (fst x * fst z) + Rabs (snd x * snd z)) / (Cmod z * Cmod z)) + eta * (5 + 2 * X) /\
    Rabs (snd f - snd (Cdiv x z))
      <= 14 * eps * ((Rabs (snd x * fst z) + Rabs (fst x * snd z)) / (Cmod z * Cmod z)) + eta * (5 + 2 * X) /\
    Cmod (Cminus f (Cdiv x z)) <= 19 * eps * X + eta * (7 + 3 * X).
  Proof.
    intros H1 He Hz Hee H2 Hh X f. pose proof (eps_ge0 _ _ _ M) as Hu. destruct (theta_2eps He) as (Hth & Hr).
    assert (HN : let i0 := 65 / 64 * (64 / 31) + 2 in let k0 := 65 / 64 * i0 + 1 in
                 k0 <= 64 / 5 /\ 65 / 64 * (65 / 64) * ((2 + k0 / 64) * k0) + 2 + / 64 <= 131 / 10) by (cbv zeta; split; lra).
    destruct (div_round_num hyp x z (2 * eps) (64 / 31) (131 / 10) H1 He Hz Hee H2 Hth ltac:(lra) Hr HN Hh) as (C1 & C2 & C3).
    fold X in C1, C2, C3. fold f in C1, C2, C3.
    assert (X0 : 0 <= X) by (unfold X; apply Cmod_ge_0).
    assert (Hp' : 0 < Cmod z) by (apply Cmod_gt_0; exact Hz).
    assert (IZ : 0 < / (Cmod z * Cmod z)) by (apply Rinv_0_lt_compat; nra).
    assert (V1 : 0 <= eps * ((Rabs (fst x * fst z) + Rabs (snd x * snd z)) / (Cmod z * Cmod z))).
    { apply Rmult_le_pos; [lra|]. apply Rmult_le_pos; [|lra]. pose proof (Rabs_pos (fst x * fst z)). pose proof (Rabs_pos (snd x * snd z)). lra. }
    assert (V2 : 0 <= eps * ((Rabs (snd x * fst z) + Rabs (fst x * snd z)) / (Cmod z * Cmod z))).
    { apply Rmult_le_pos; [lra|]. apply Rmult_le_pos; [|lra]. pose proof (Rabs_pos (snd x * fst z)). pose proof (Rabs_pos (fst x * snd z)). lra. }
    assert (V3 : 0 <= eps * X) by (apply Rmult_le_pos; lra).
    split; [lra|]. split; lra.
  Qed.

  (* ---- 4. the modulus ---- *)
  Theorem cabs_hyp (hyp : R -> R -> R) (z : C) : cabs (Rnd_ops_hyp rnd hyp) z = hyp (fst z) (snd z).
  Proof. reflexivity. Qed.

  Theorem cabs_round_cr (z : C) : Rabs (cabs O z - Cmod z) <= eps * Cmod z + eta.
  Proof.
    destruct z as [c d]. unfold cabs, f_hypot. cbn [fst snd]. unfold_rops. cbn [R_fn2]. rewrite Cmod_hyp.
    pose proof (rnd_err _ _ _ M (Cmod (c, d))) as H. rewrite (Rabs_pos_eq (Cmod (c, d))) in H by apply Cmod_ge_0. exact H.
  Qed.

  (* ---- the instance Rnd_ops rnd itself: fn2 Hypot = the correctly rounded hypot_cr ---- *)
  Lemma ops_cr_inv (z : C) : inv_ O z = inv_ (Rnd_ops_hyp rnd (hyp_cr rnd)) z.
  Proof. reflexivity. Qed.
  Lemma ops_cr_div (x z : C) : div_ O x z = div_ (Rnd_ops_hyp rnd (hyp_cr rnd)) x z.
  Proof. reflexivity. Qed.

  Lemma normal_range (h : R) : 0 < h -> eta <= eps * h -> eta * h <= eps -> eta <= eps.
  Proof.
    intros Hh A B. pose proof (eps_ge0 _ _ _ M) as Hu. pose proof (eta_ge0 _ _ _ M) as Ht.
    destruct (Rle_dec h 1) as [L|L].
    - assert (eps * h <= eps * 1) by (apply Rmult_le_compat_l; lra). lra.
    - assert (eta * 1 <= eta * h) by (apply Rmult_le_compat_l; lra). lra.
  Qed.

  Lemma hyp_cr_accuracy (z : C) : eta <= eps * Cmod z ->
    Rabs (hyp_cr rnd (fst z) (snd z) - Cmod z) <= 2 * eps * Cmod z.
  Proof.
    intros H. destruct z as [c d]. cbn [fst snd]. unfold hyp_cr. rewrite Cmod_hyp.
    pose proof (rnd_err _ _ _ M (Cmod (c, d))) as E. rewrite (Rabs_pos_eq (Cmod (c, d))) in E by apply Cmod_ge_0. lra.
  Qed.

  Theorem inv_round_cr (z : C) :
    rnd 1 = 1 -> eps <= / 64 -> z <> (0, 0) -> eta <= eps * Cmod z -> eta * Cmod z <= eps ->
    let f := inv_ O z in
    Rabs (fst f - fst (Cinv z)) <= 11 * eps * (Rabs (fst z) / (Cmod z * Cmod z)) + 2 * eta * (1 + 1 / Cmod z) /\
    Rabs (snd f - snd (Cinv z)) <= 11 * eps * (Rabs (snd z) / (Cmod z * Cmod z)) + 2 * eta * (1 + 1 / Cmod z) /\
    Cmod (Cminus f (Cinv z)) <= 11 * eps * (1 / Cmod z) + 2 * eta * (1 + 1 / Cmod z).
  Proof.
    intros H1 He Hz A B. rewrite ops_cr_inv.
    exact (inv_round (hyp_cr rnd) z H1 He Hz B (hyp_cr_accuracy z A)).
  Qed.

  Theorem div_round_cr (x z : C) :
    rnd 1 = 1 -> eps <= / 64 -> z <> (0, 0) -> eta <= eps * Cmod z -> eta * Cmod z <= eps ->
    let X := Cmod (Cdiv x z) in
    let f := div_ O x z in
    Rabs (fst f - fst (Cdiv x z))
      <= 14 * eps * ((Rabs (fst x * fst z) + Rabs (snd x * snd z)) / (Cmod z * Cmod z)) + eta * (5 + 2 * X) /\
    Rabs (snd f - snd (Cdiv x z))
      <= 14 * eps * ((Rabs (snd x * fst z) + Rabs (fst x * snd z)) / (Cmod z * Cmod z)) + eta * (5 + 2 * X) /\
    Cmod (Cminus f (Cdiv x z)) <= 19 * eps * X + eta * (7 + 3 * X).
  Proof.
    intros H1 He Hz A B. rewrite ops_cr_div.
    assert (Hp : 0 < Cmod z) by (apply Cmod_gt_0; exact Hz).
    exact (div_round (hyp_cr rnd) x z H1 He Hz (normal_range _ Hp A B) B (hyp_cr_accuracy z A)).
  Qed.
End CxRound.

(* ------------------------------------------------------------------ non-vacuity *)
Lemma Rabs_le0_eq (a b : R) : Rabs (a - b) <= 0 -> a = b.
Proof. intros H. pose proof (Rabs_pos (a - b)). destruct (Req_dec (a - b) 0) as [E|E]; [lra|]. apply Rabs_no_R0 in E. lra. Qed.

(* (1) the identity is a model with eps = eta = 0 and rnd 1 = 1: every hypothesis of inv_round_cr/div_round_cr holds for every
   z <> 0, every bound is 0, and the rounded instance computes the exact quotient and inverse *)
Example inv_div_round_id (x z : C) : z <> (0, 0) ->
  inv_ (Rnd_ops (fun v => v)) z = Cinv z /\ div_ (Rnd_ops (fun v => v)) x z = Cdiv x z /\
  mul_ (Rnd_ops (fun v => v)) x z = Cmult x z.
Proof.
  intros Hz. pose proof (Cmod_ge_0 z) as Hm.
  destruct (inv_round_cr _ _ _ std_model_id z eq_refl ltac:(lra) Hz ltac:(lra) ltac:(lra)) as (A1 & A2 & _).
  destruct (div_round_cr _ _ _ std_model_id x z eq_refl ltac:(lra) Hz ltac:(lra) ltac:(lra)) as (B1 & B2 & _).
  destruct (mul_round_comp _ _ _ std_model_id x z) as (C1 & C2).
  cbv zeta in A1, A2, B1, B2.
  split; [|split]; apply injective_projections; apply Rabs_le0_eq; lra.
Qed.

(* (2) a genuinely inexact model, rnd v = v (1 + 1/8) (eps = 1/8, eta = 0): (1 + 2i)(3 + 4i) = -5 + 10i is computed as
   -405/64 + 405/32 i; the real part is inside its bound 17/64 * 11, the imaginary part ATTAINS its bound 17/64 * 10;
   the sum (1 + 2i) + (3 + 4i) is computed as 9/2 + 27/4 i and attains eps |exact| in both components *)
Example mul_add_round_scale :
  let rnd := fun v => v * (1 + / 8) in
  mul_ (Rnd_ops rnd) (1, 2) (3, 4) = (- (405 / 64), 405 / 32) /\ Cmult (1, 2) (3, 4) = (-5, 10) /\
  Rabs (- (405 / 64) - -5) <= (2 * / 8 + / 8 * / 8) * (Rabs (1 * 3) + Rabs (2 * 4)) + (3 + 2 * / 8) * 0 /\
  Rabs (405 / 32 - 10) = (2 * / 8 + / 8 * / 8) * (Rabs (1 * 4) + Rabs (2 * 3)) + (3 + 2 * / 8) * 0 /\
  cadd (Rnd_ops rnd) (1, 2) (3, 4) = (9 / 2, 27 / 4) /\ Cplus (1, 2) (3, 4) = (4, 6) /\
  Rabs (9 / 2 - 4) = / 8 * Rabs 4 + 0 /\ Rabs (27 / 4 - 6) = / 8 * Rabs 6 + 0.
Proof.
  cbv zeta. repeat split.
  - unfold mul_. cbn [fst snd]. unfold_rops. apply pair_eq; field.
  - unfold Cmult. cbn [fst snd]. apply pair_eq; ring.
  - rewrite (Rabs_pos_eq (1 * 3)), (Rabs_pos_eq (2 * 4)) by lra. rewrite Rabs_left by lra. lra.
  - rewrite (Rabs_pos_eq (1 * 4)), (Rabs_pos_eq (2 * 3)) by lra. rewrite Rabs_pos_eq by lra. lra.
  - unfold cadd. cbn [fst snd]. unfold_rops. apply pair_eq; field.
  - unfold Cplus. cbn [fst snd]. apply pair_eq; ring.
  - rewrite (Rabs_pos_eq 4) by lra. rewrite Rabs_pos_eq by lra. lra.
  - rewrite (Rabs_pos_eq 6) by lra. rewrite Rabs_pos_eq by lra. lra.
Qed.
