(* C09 - Matrix product, transpose and structure kernels match their definitions
   (src/linalg.c).  Model: coq/C09/LinalgDefs.v.  Every theorem is for ALL dimensions
   (0 included, m<n, m=n, m>n, inner dimension one) and ALL contents, for an arbitrary
   element type T with arbitrary operations (so in particular for every commutative
   ring, for Z, for R, and for the binary64 instance the bit-exact tie runs); the
   theorems of the last block assume the ring laws.

   INTEGER WIDTHS.  The model evaluates every integer expression from which the C
   computes an array offset with the C's type: a_uint is 32 bit (wrap32), a_size is
   64 bit (wrap64); see the header of LinalgDefs.v for the list of sites.  A routine
   whose model contains such an expression has the hypothesis `U32 d` (d < 2^32,
   LinalgSpec.v) for each dimension d that enters one: these are exactly the values an
   a_uint parameter can hold, so the hypothesis excludes no call the C can receive, and
   the theorems PROVE that none of the offset computations wraps.  Routines that only
   move cursors ( *E++, A += n ) and count with loop-guarded counters have no such
   hypothesis.  (C09/LinalgExamples.v: U32 holds of every N below 2^32 and fails at 2^32.)

   Reading a statement:  `f ... b0 = Ok b`  says the model terminated without running
   out of fuel and without any out-of-bounds read or write (every access of the model
   is bounds-checked against the arrays it was given: the result array has exactly
   the documented size, so no write falls outside it);  `nwr b = nwr b0 + k`  counts
   the stores performed;  `ent T zero ncol l r c`  is entry (r, c) of the row-major
   array l with ncol columns;  `dotsum T zero add k f`  is  f 0 + ... + f (k-1)
   accumulated from zero.  The initial contents of the result array (cells b0) are
   arbitrary and do not appear on the right-hand sides: every cell is overwritten.  *)
From Coq Require Import List Arith ZArith Reals.
From Coq Require Import Ring_theory.
From LibaV Require Import C09.LinalgDefs C09.LinalgSpec C09.LinalgPatProofs C09.LinalgTProofs
     C09.LinalgMulProofs C09.LinalgRing C09.LinalgWide C09.LinalgWideProofs.
From LibaV Require C09.LinalgExamples.   (* non-vacuity examples: built and checked with this file *)

(* ---------------------------------------------------------------- products *)

Theorem C09_mulmm_spec :
  forall (T : Type) (zero : T) (add mul : T -> T -> T) (row c_r col : nat) (X Y : list T),
    length X = row * c_r -> length Y = c_r * col -> U32 row -> U32 col ->
    forall b0 : buf T, length (cells b0) = row * col ->
    exists b, mulmm T zero add mul row c_r col X Y b0 = Ok b /\
      nwr b = nwr b0 + row * col + row * c_r * col /\ length (cells b) = row * col /\
      forall i j, i < row -> j < col ->
        ent T zero col (cells b) i j =
        dotsum T zero add c_r (fun t => mul (ent T zero c_r X i t) (ent T zero col Y t j)).
Proof. exact mulmm_ok. Qed.
Print Assumptions C09_mulmm_spec.

Theorem C09_mulTm_spec :
  forall (T : Type) (zero : T) (add mul : T -> T -> T) (c_r row col : nat) (X Y : list T),
    length X = c_r * row -> length Y = c_r * col -> U32 row -> U32 col ->
    forall b0 : buf T, length (cells b0) = row * col ->
    exists b, mulTm T zero add mul c_r row col X Y b0 = Ok b /\
      nwr b = nwr b0 + row * col + c_r * row * col /\ length (cells b) = row * col /\
      forall i j, i < row -> j < col ->
        ent T zero col (cells b) i j =
        dotsum T zero add c_r (fun t => mul (ent T zero row X t i) (ent T zero col Y t j)).
Proof. exact mulTm_ok. Qed.
Print Assumptions C09_mulTm_spec.

Theorem C09_mulmT_spec :
  forall (T : Type) (zero : T) (add mul : T -> T -> T) (row col c_r : nat) (X Y : list T),
    length X = row * c_r -> length Y = col * c_r -> U32 row -> U32 col -> U32 c_r ->
    forall b0 : buf T, length (cells b0) = row * col ->
    exists b, mulmT T zero add mul row col c_r X Y b0 = Ok b /\
      nwr b = nwr b0 + row * col + row * col * c_r /\ length (cells b) = row * col /\
      forall i j, i < row -> j < col ->
        ent T zero col (cells b) i j =
        dotsum T zero add c_r (fun t => mul (ent T zero c_r X i t) (ent T zero c_r Y j t)).
Proof. exact mulmT_ok. Qed.
Print Assumptions C09_mulmT_spec.

Theorem C09_mulTT_spec :
  forall (T : Type) (zero : T) (add mul : T -> T -> T) (row c_r col : nat) (X Y : list T),
    length X = c_r * row -> length Y = col * c_r -> U32 row -> U32 c_r -> U32 col ->
    forall b0 : buf T, length (cells b0) = row * col ->
    exists b, mulTT T zero add mul row c_r col X Y b0 = Ok b /\
      nwr b = nwr b0 + row * col + c_r * row * col /\ length (cells b) = row * col /\
      forall i j, i < row -> j < col ->
        ent T zero col (cells b) i j =
        dotsum T zero add c_r (fun t => mul (ent T zero row X t i) (ent T zero c_r Y j t)).
Proof. exact mulTT_ok. Qed.
Print Assumptions C09_mulTT_spec.

(* -------------------------------------------------------------- transposes *)

Theorem C09_T2_spec :
  forall (T : Type) (zero : T) (m n : nat) (A : list T) (b0 : buf T),
    U32 m -> U32 n -> length A = m * n -> length (cells b0) = n * m ->
    exists b, T2 T m n A b0 = Ok b /\ nwr b = nwr b0 + n * m /\ length (cells b) = n * m /\
      forall r c, r < m -> c < n -> ent T zero m (cells b) c r = ent T zero n A r c.
Proof. exact T2_ok. Qed.
Print Assumptions C09_T2_spec.

(* in place: n*(n-1) stores (two per exchanged pair), written nwr b + n = nwr b0 + n*n *)
Theorem C09_T1_spec :
  forall (T : Type) (zero : T) (n : nat) (b0 : buf T),
    U32 n -> length (cells b0) = n * n ->
    exists b, T1 T n b0 = Ok b /\ nwr b + n = nwr b0 + n * n /\ length (cells b) = n * n /\
      forall r c, r < n -> c < n -> ent T zero n (cells b) r c = ent T zero n (cells b0) c r.
Proof. exact T1_ok. Qed.
Print Assumptions C09_T1_spec.

(* (zero is only the default element of nth inside the proof; it does not occur in the statement) *)
Theorem C09_T2_involutive :
  forall (T : Type) (zero : T) (m n : nat) (A : list T) (b0 b1 : buf T),
    U32 m -> U32 n -> length A = m * n -> length (cells b0) = n * m -> length (cells b1) = m * n ->
    exists t u, T2 T m n A b0 = Ok t /\ T2 T n m (cells t) b1 = Ok u /\ cells u = A.
Proof. exact T2_involutive. Qed.
Print Assumptions C09_T2_involutive.

Theorem C09_T1_involutive :
  forall (T : Type) (zero : T) (n : nat) (b0 : buf T),
    U32 n -> length (cells b0) = n * n ->
    exists b1 b2, T1 T n b0 = Ok b1 /\ T1 T n b1 = Ok b2 /\ cells b2 = cells b0.
Proof. exact T1_involutive. Qed.
Print Assumptions C09_T1_involutive.

(* on square matrices the two transposes agree *)
Theorem C09_T1_T2_agree :
  forall (T : Type) (zero : T) (n : nat) (A : list T) (w : nat) (b0 : buf T),
    U32 n -> length A = n * n -> length (cells b0) = n * n ->
    exists b1 b2, T1 T n (mkbuf A w) = Ok b1 /\ T2 T n n A b0 = Ok b2 /\ cells b1 = cells b2.
Proof. exact T1_T2_agree. Qed.
Print Assumptions C09_T1_T2_agree.

(* ------------------------------------------------- the 13 structure routines *)

Theorem C09_eye1_spec :
  forall (T : Type) (zero one : T) (n : nat) (b0 : buf T),
    length (cells b0) = n * n ->
    exists b, eye1 T zero one n b0 = Ok b /\ nwr b = nwr b0 + n * n /\ length (cells b) = n * n /\
      forall r c, r < n -> c < n -> ent T zero n (cells b) r c = if r =? c then one else zero.
Proof. exact eye1_ok. Qed.
Print Assumptions C09_eye1_spec.

Theorem C09_eye2_spec :
  forall (T : Type) (zero one : T) (m n : nat) (b0 : buf T),
    length (cells b0) = m * n ->
    exists b, eye2 T zero one m n b0 = Ok b /\ nwr b = nwr b0 + m * n /\ length (cells b) = m * n /\
      forall r c, r < m -> c < n -> ent T zero n (cells b) r c = if r =? c then one else zero.
Proof. exact eye2_ok. Qed.
Print Assumptions C09_eye2_spec.

Theorem C09_tri1_spec :
  forall (T : Type) (zero one : T) (n : nat) (b0 : buf T),
    length (cells b0) = n * n ->
    exists b, tri1 T zero one n b0 = Ok b /\ nwr b = nwr b0 + n * n /\ length (cells b) = n * n /\
      forall r c, r < n -> c < n -> ent T zero n (cells b) r c = if c <=? r then one else zero.
Proof. exact tri1_ok. Qed.
Print Assumptions C09_tri1_spec.

Theorem C09_tri2_spec :
  forall (T : Type) (zero one : T) (m n : nat) (b0 : buf T),
    length (cells b0) = m * n ->
    exists b, tri2 T zero one m n b0 = Ok b /\ nwr b = nwr b0 + m * n /\ length (cells b) = m * n /\
      forall r c, r < m -> c < n -> ent T zero n (cells b) r c = if c <=? r then one else zero.
Proof. exact tri2_ok. Qed.
Print Assumptions C09_tri2_spec.

Theorem C09_diag_spec :
  forall (T : Type) (zero : T) (n : nat) (a : list T) (b0 : buf T),
    U32 n -> length a = n -> length (cells b0) = n * n ->
    exists b, diag T zero n a b0 = Ok b /\ nwr b = nwr b0 + n * n /\ length (cells b) = n * n /\
      forall r c, r < n -> c < n ->
        ent T zero n (cells b) r c = if r =? c then nth r a zero else zero.
Proof. exact diag_ok. Qed.
Print Assumptions C09_diag_spec.

Theorem C09_diag1_spec :
  forall (T : Type) (zero : T) (n : nat) (A : list T) (b0 : buf T),
    U32 n -> length A = n * n -> length (cells b0) = n ->
    exists b, diag1 T n A b0 = Ok b /\ nwr b = nwr b0 + n /\ length (cells b) = n /\
      forall i, i < n -> nth i (cells b) zero = ent T zero n A i i.
Proof. exact diag1_ok. Qed.
Print Assumptions C09_diag1_spec.

Theorem C09_diag2_spec :
  forall (T : Type) (zero : T) (m n : nat) (A : list T) (b0 : buf T),
    U32 n -> length A = m * n -> length (cells b0) = Nat.min m n ->
    exists b, diag2 T m n A b0 = Ok b /\ nwr b = nwr b0 + Nat.min m n /\
      length (cells b) = Nat.min m n /\
      forall i, i < Nat.min m n -> nth i (cells b) zero = ent T zero n A i i.
Proof. exact diag2_ok. Qed.
Print Assumptions C09_diag2_spec.

Theorem C09_triL_spec :
  forall (T : Type) (zero : T) (n : nat) (A : list T) (b0 : buf T),
    length A = n * n -> length (cells b0) = n * n ->
    exists b, triL T zero n A b0 = Ok b /\ nwr b = nwr b0 + n * n /\ length (cells b) = n * n /\
      forall r c, r < n -> c < n ->
        ent T zero n (cells b) r c = if c <=? r then ent T zero n A r c else zero.
Proof. exact triL_ok. Qed.
Print Assumptions C09_triL_spec.

Theorem C09_triL1_spec :
  forall (T : Type) (zero one : T) (n : nat) (A : list T) (b0 : buf T),
    length A = n * n -> length (cells b0) = n * n ->
    exists b, triL1 T zero one n A b0 = Ok b /\ nwr b = nwr b0 + n * n /\ length (cells b) = n * n /\
      forall r c, r < n -> c < n ->
        ent T zero n (cells b) r c =
        if c <? r then ent T zero n A r c else if c =? r then one else zero.
Proof. exact triL1_ok. Qed.
Print Assumptions C09_triL1_spec.

Theorem C09_triL2_spec :
  forall (T : Type) (zero : T) (m n : nat) (A : list T) (b0 : buf T),
    length A = m * n -> length (cells b0) = m * n ->
    exists b, triL2 T zero m n A b0 = Ok b /\ nwr b = nwr b0 + m * n /\ length (cells b) = m * n /\
      forall r c, r < m -> c < n ->
        ent T zero n (cells b) r c = if c <=? r then ent T zero n A r c else zero.
Proof. exact triL2_ok. Qed.
Print Assumptions C09_triL2_spec.

Theorem C09_triU_spec :
  forall (T : Type) (zero : T) (n : nat) (A : list T) (b0 : buf T),
    length A = n * n -> length (cells b0) = n * n ->
    exists b, triU T zero n A b0 = Ok b /\ nwr b = nwr b0 + n * n /\ length (cells b) = n * n /\
      forall r c, r < n -> c < n ->
        ent T zero n (cells b) r c = if r <=? c then ent T zero n A r c else zero.
Proof. exact triU_ok. Qed.
Print Assumptions C09_triU_spec.

Theorem C09_triU1_spec :
  forall (T : Type) (zero one : T) (n : nat) (A : list T) (b0 : buf T),
    length A = n * n -> length (cells b0) = n * n ->
    exists b, triU1 T zero one n A b0 = Ok b /\ nwr b = nwr b0 + n * n /\ length (cells b) = n * n /\
      forall r c, r < n -> c < n ->
        ent T zero n (cells b) r c =
        if c <? r then zero else if c =? r then one else ent T zero n A r c.
Proof. exact triU1_ok. Qed.
Print Assumptions C09_triU1_spec.

Theorem C09_triU2_spec :
  forall (T : Type) (zero : T) (m n : nat) (A : list T) (b0 : buf T),
    length A = m * n -> length (cells b0) = m * n ->
    exists b, triU2 T zero m n A b0 = Ok b /\ nwr b = nwr b0 + m * n /\ length (cells b) = m * n /\
      forall r c, r < m -> c < n ->
        ent T zero n (cells b) r c = if r <=? c then ent T zero n A r c else zero.
Proof. exact triU2_ok. Qed.
Print Assumptions C09_triU2_spec.

(* ------------------- "the product of the correspondingly transposed operands" *)
(* The transposed products equal the plain product applied to operands transposed by
   the model's own T2 (any T, no law). *)

Theorem C09_mulTm_is_mulmm_of_transposed :
  forall (T : Type) (zero : T) (add mul : T -> T -> T) (c_r row col : nat) (X Y : list T)
         (bt b0 b1 : buf T),
    U32 c_r -> U32 row -> U32 col -> length X = c_r * row -> length Y = c_r * col ->
    length (cells bt) = row * c_r -> length (cells b0) = row * col -> length (cells b1) = row * col ->
    exists xt z1 z2,
      T2 T c_r row X bt = Ok xt /\
      mulTm T zero add mul c_r row col X Y b0 = Ok z1 /\
      mulmm T zero add mul row c_r col (cells xt) Y b1 = Ok z2 /\
      cells z1 = cells z2.
Proof. exact mulTm_as_mulmm. Qed.
Print Assumptions C09_mulTm_is_mulmm_of_transposed.

Theorem C09_mulmT_is_mulmm_of_transposed :
  forall (T : Type) (zero : T) (add mul : T -> T -> T) (row col c_r : nat) (X Y : list T)
         (bt b0 b1 : buf T),
    U32 row -> U32 col -> U32 c_r -> length X = row * c_r -> length Y = col * c_r ->
    length (cells bt) = c_r * col -> length (cells b0) = row * col -> length (cells b1) = row * col ->
    exists yt z1 z2,
      T2 T col c_r Y bt = Ok yt /\
      mulmT T zero add mul row col c_r X Y b0 = Ok z1 /\
      mulmm T zero add mul row c_r col X (cells yt) b1 = Ok z2 /\
      cells z1 = cells z2.
Proof. exact mulmT_as_mulmm. Qed.
Print Assumptions C09_mulmT_is_mulmm_of_transposed.

Theorem C09_mulTT_is_mulmm_of_transposed :
  forall (T : Type) (zero : T) (add mul : T -> T -> T) (row c_r col : nat) (X Y : list T)
         (btx bty b0 b1 : buf T),
    U32 row -> U32 c_r -> U32 col -> length X = c_r * row -> length Y = col * c_r ->
    length (cells btx) = row * c_r -> length (cells bty) = c_r * col ->
    length (cells b0) = row * col -> length (cells b1) = row * col ->
    exists xt yt z1 z2,
      T2 T c_r row X btx = Ok xt /\ T2 T col c_r Y bty = Ok yt /\
      mulTT T zero add mul row c_r col X Y b0 = Ok z1 /\
      mulmm T zero add mul row c_r col (cells xt) (cells yt) b1 = Ok z2 /\
      cells z1 = cells z2.
Proof. exact mulTT_as_mulmm. Qed.
Print Assumptions C09_mulTT_is_mulmm_of_transposed.

(* ------------------------------------------------ over a commutative ring *)

(* the order of accumulation (the C sums the inner index upwards) is immaterial *)
Theorem C09_dotsum_order_irrelevant :
  forall (T : Type) (zero one : T) (add mul sub : T -> T -> T) (opp : T -> T),
    ring_theory zero one add mul sub opp (@eq T) ->
    forall (k : nat) (f : nat -> T),
      dotsum T zero add k f = dotsum T zero add k (fun t => f (k - 1 - t)).
Proof. exact dotsum_rev. Qed.
Print Assumptions C09_dotsum_order_irrelevant.

(* (Y X)^T = X^T Y^T as computed by mulmm, T2 and mulTT *)
Theorem C09_mul_transpose :
  forall (T : Type) (zero one : T) (add mul sub : T -> T -> T) (opp : T -> T),
    ring_theory zero one add mul sub opp (@eq T) ->
    forall (row c_r col : nat) (X Y : list T) (b0 b1 b2 : buf T),
      U32 row -> U32 c_r -> U32 col -> length X = c_r * row -> length Y = col * c_r ->
      length (cells b0) = row * col -> length (cells b1) = col * row -> length (cells b2) = row * col ->
      exists z1 p z2,
        mulTT T zero add mul row c_r col X Y b0 = Ok z1 /\
        mulmm T zero add mul col c_r row Y X b1 = Ok p /\
        T2 T col row (cells p) b2 = Ok z2 /\
        cells z1 = cells z2.
Proof. exact mul_transpose. Qed.
Print Assumptions C09_mul_transpose.

(* the matrix produced by eye1 is a left and a right unit of mulmm *)
Theorem C09_eye_left_unit :
  forall (T : Type) (zero one : T) (add mul sub : T -> T -> T) (opp : T -> T),
    ring_theory zero one add mul sub opp (@eq T) ->
    forall (n col : nat) (Y : list T) (be b0 : buf T),
      U32 n -> U32 col -> length Y = n * col -> length (cells be) = n * n -> length (cells b0) = n * col ->
      exists e z, eye1 T zero one n be = Ok e /\
                  mulmm T zero add mul n n col (cells e) Y b0 = Ok z /\ cells z = Y.
Proof. exact mulmm_eye_l. Qed.
Print Assumptions C09_eye_left_unit.

Theorem C09_eye_right_unit :
  forall (T : Type) (zero one : T) (add mul sub : T -> T -> T) (opp : T -> T),
    ring_theory zero one add mul sub opp (@eq T) ->
    forall (row n : nat) (X : list T) (be b0 : buf T),
      U32 row -> U32 n -> length X = row * n -> length (cells be) = n * n -> length (cells b0) = row * n ->
      exists e z, eye1 T zero one n be = Ok e /\
                  mulmm T zero add mul row n n X (cells e) b0 = Ok z /\ cells z = X.
Proof. exact mulmm_eye_r. Qed.
Print Assumptions C09_eye_right_unit.

(* ------------------------------------------------------ instances Z and R *)

Theorem C09_mul_transpose_Z :
  forall (row c_r col : nat) (X Y : list Z) (b0 b1 b2 : buf Z),
    U32 row -> U32 c_r -> U32 col -> length X = c_r * row -> length Y = col * c_r ->
    length (cells b0) = row * col -> length (cells b1) = col * row -> length (cells b2) = row * col ->
    exists z1 p z2,
      mulTT Z 0%Z Z.add Z.mul row c_r col X Y b0 = Ok z1 /\
      mulmm Z 0%Z Z.add Z.mul col c_r row Y X b1 = Ok p /\
      T2 Z col row (cells p) b2 = Ok z2 /\
      cells z1 = cells z2.
Proof. exact (mul_transpose Z 0%Z 1%Z Z.add Z.mul Z.sub Z.opp Z_ring). Qed.
Print Assumptions C09_mul_transpose_Z.

Theorem C09_eye_left_unit_Z :
  forall (n col : nat) (Y : list Z) (be b0 : buf Z),
    U32 n -> U32 col -> length Y = n * col -> length (cells be) = n * n -> length (cells b0) = n * col ->
    exists e z, eye1 Z 0%Z 1%Z n be = Ok e /\
                mulmm Z 0%Z Z.add Z.mul n n col (cells e) Y b0 = Ok z /\ cells z = Y.
Proof. exact (mulmm_eye_l Z 0%Z 1%Z Z.add Z.mul Z.sub Z.opp Z_ring). Qed.
Print Assumptions C09_eye_left_unit_Z.

Theorem C09_mul_transpose_R :
  forall (row c_r col : nat) (X Y : list R) (b0 b1 b2 : buf R),
    U32 row -> U32 c_r -> U32 col -> length X = c_r * row -> length Y = col * c_r ->
    length (cells b0) = row * col -> length (cells b1) = col * row -> length (cells b2) = row * col ->
    exists z1 p z2,
      mulTT R 0%R Rplus Rmult row c_r col X Y b0 = Ok z1 /\
      mulmm R 0%R Rplus Rmult col c_r row Y X b1 = Ok p /\
      T2 R col row (cells p) b2 = Ok z2 /\
      cells z1 = cells z2.
Proof. exact (mul_transpose R 0%R 1%R Rplus Rmult Rminus Ropp R_ring). Qed.
Print Assumptions C09_mul_transpose_R.

(* over R every entry of mulmm is the standard library's finite sum (inner dimension k+1 >= 1) *)
Theorem C09_mulmm_R_sum_f_R0 :
  forall (row k col : nat) (X Y : list R) (b0 : buf R),
    U32 row -> U32 col -> length X = row * S k -> length Y = S k * col -> length (cells b0) = row * col ->
    exists b, mulmm R 0%R Rplus Rmult row (S k) col X Y b0 = Ok b /\
      forall i j, i < row -> j < col ->
        ent R 0%R col (cells b) i j =
        sum_f_R0 (fun t => (ent R 0%R (S k) X i t * ent R 0%R col Y t j)%R) k.
Proof. exact mulmm_R_sum_f_R0. Qed.
Print Assumptions C09_mulmm_R_sum_f_R0.

(* ------------------------------------- offset width: the N-indexed model of diag1/diag2 *)
(* LinalgWide.v models a_real_diag1 / a_real_diag2 a second time with binary offsets and a sparse
   input array, so that the correspondence check can run them on matrices of 2^32 and more cells
   (where a 32-bit offset computation would go wrong).  The theorems tie that model to the list
   model and to the specification. *)

(* for ALL n, i - wrapping ones included - the list model reads the cell the wide model reads *)
Theorem C09_diag_offset_same_in_both_models :
  forall n i : nat, sz_mul (sz_add n 1) i = N.to_nat (diag_offN (N.of_nat n) (N.of_nat i)).
Proof. exact diag_off_bridge. Qed.
Print Assumptions C09_diag_offset_same_in_both_models.

Theorem C09_amin_same_in_both_models :
  forall m n : nat, amin m n = N.to_nat (aminN (N.of_nat m) (N.of_nat n)).
Proof. exact amin_bridge. Qed.
Print Assumptions C09_amin_same_in_both_models.

(* the 64-bit offset (a_size)(n+1) * i never wraps for an a_uint n and i <= n: it is the diagonal index *)
Theorem C09_diag_offset_does_not_wrap :
  forall n i : N, (n < 4294967296)%N -> (i <= n)%N -> diag_offN n i = (i * n + i)%N.
Proof. exact diag_offN_id. Qed.
Print Assumptions C09_diag_offset_does_not_wrap.

(* ... while the same expression in 32 bits does (n = 65537, i = 65535: reads cell 65534) *)
Theorem C09_diag_offset_32bit_would_wrap :
  let n := 65537%N in let i := 65535%N in
  (n < 4294967296)%N /\ (i < n)%N /\
  diag_offN n i = 4295032830%N /\ wrap32N (wrap32N (n + 1) * i) = 65534%N.
Proof. exact diag_off_32bit_wraps. Qed.
Print Assumptions C09_diag_offset_32bit_would_wrap.

(* the wide model: every cell of a written once, a[i] = A[i*n+i], no access out of bounds *)
Theorem C09_diag1_wide_spec :
  forall (T : Type) (zero : T) (n : N) (A : sparse T),
    (n < 4294967296)%N -> slen A = (n * n)%N ->
    diag1N T zero n A n = Ok (diag_cells T zero n A (N.to_nat n)).
Proof. exact diag1N_ok. Qed.
Print Assumptions C09_diag1_wide_spec.

Theorem C09_diag2_wide_spec :
  forall (T : Type) (zero : T) (m n : N) (A : sparse T),
    (n < 4294967296)%N -> slen A = (m * n)%N ->
    diag2N T zero m n A (N.min m n) = Ok (diag_cells T zero n A (N.to_nat (N.min m n))).
Proof. exact diag2N_ok. Qed.
Print Assumptions C09_diag2_wide_spec.

Theorem C09_diag_cells_nth :
  forall (T : Type) (zero : T) (n : N) (A : sparse T) (k i : nat) (d : N * T), i < k ->
    length (diag_cells T zero n A k) = k /\
    nth i (diag_cells T zero n A k) d =
    (N.of_nat i, lookup T zero (scells A) (N.of_nat i * n + N.of_nat i)%N).
Proof. exact diag_cells_read. Qed.
Print Assumptions C09_diag_cells_nth.

(* on an array both models can hold, they return the same cells *)
Theorem C09_diag1_models_agree :
  forall (T : Type) (zero : T) (n : nat) (A : list T) (S : sparse T) (b0 : buf T),
    U32 n -> length A = n * n -> length (cells b0) = n -> represents zero S A ->
    exists b w, diag1 T n A b0 = Ok b /\ diag1N T zero (N.of_nat n) S (N.of_nat n) = Ok w /\
      length w = n /\
      forall i, i < n -> nth i w (0%N, zero) = (N.of_nat i, nth i (cells b) zero).
Proof. exact diag1_models_agree. Qed.
Print Assumptions C09_diag1_models_agree.

Theorem C09_diag2_models_agree :
  forall (T : Type) (zero : T) (m n : nat) (A : list T) (S : sparse T) (b0 : buf T),
    U32 n -> length A = m * n -> length (cells b0) = Nat.min m n -> represents zero S A ->
    exists b w, diag2 T m n A b0 = Ok b /\
      diag2N T zero (N.of_nat m) (N.of_nat n) S (N.of_nat (Nat.min m n)) = Ok w /\
      length w = Nat.min m n /\
      forall i, i < Nat.min m n -> nth i w (0%N, zero) = (N.of_nat i, nth i (cells b) zero).
Proof. exact diag2_models_agree. Qed.
Print Assumptions C09_diag2_models_agree.
