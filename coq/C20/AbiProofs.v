(* C20 - proofs: layout well-formedness, soundness of the reflection [abi_compatible],
   and the "read identically on the other side" consequence. *)

From Coq Require Import ZArith NArith List String Bool Lia ZifyBool ZifyNat ZifyN.
From LibaV Require Import C20.AbiDefs C20.AbiSpec.
Import ListNotations.
Local Open Scope string_scope.
Local Open Scope list_scope.
Local Open Scope N_scope.

Ltac Zify.zify_post_hook ::= Z.div_mod_to_equations.

(* ------------------------------------------------------------------ arithmetic *)

Lemma round_up_spec : forall x a, 0 < a ->
  x <= round_up x a /\ round_up x a < x + a /\ round_up x a mod a = 0.
Proof.
  intros x a Ha. unfold round_up.
  assert (H := N.div_mod (x + a - 1) a ltac:(lia)).
  assert (H2 := N.mod_lt (x + a - 1) a ltac:(lia)).
  repeat split.
  - nia.
  - nia.
  - apply N.mod_mul. lia.
Qed.

Lemma pow2_small_pos : forall a, pow2_small a -> 0 < a.
Proof. unfold pow2_small; simpl; intros a H. intuition lia. Qed.

Lemma pow2_small_max : forall a b, pow2_small a -> pow2_small b -> pow2_small (N.max a b).
Proof.
  intros a b Ha Hb. destruct (N.max_spec a b) as [[_ ->]|[_ ->]]; assumption.
Qed.

Lemma pow2_small_divide : forall a b, pow2_small a -> pow2_small b -> a <= b -> (a | b).
Proof.
  unfold pow2_small; simpl; intros a b Ha Hb Hle.
  repeat (destruct Ha as [Ha|Ha]; [subst a|]); try contradiction;
  repeat (destruct Hb as [Hb|Hb]; [subst b|]); try contradiction; try lia;
  match goal with |- (?x | ?y) => exists (y / x); vm_compute; reflexivity end.
Qed.

Lemma pow2_small_divide_max_l : forall a b, pow2_small a -> pow2_small b -> (a | N.max a b).
Proof. intros. apply pow2_small_divide; auto using pow2_small_max. lia. Qed.

Lemma pow2_small_divide_max_r : forall a b, pow2_small a -> pow2_small b -> (b | N.max a b).
Proof. intros. apply pow2_small_divide; auto using pow2_small_max. lia. Qed.

(* ------------------------------------------------------------------ size_align *)

Definition tbl_ok (tbl : ltable) : Prop :=
  forall n l, lookup n tbl = Some l -> slayout_wf l.

Lemma int_size_ok_pow2 : forall s, int_size_ok s = true -> pow2_small s.
Proof. unfold int_size_ok, pow2_small; simpl; intros. lia. Qed.

Lemma flt_size_ok_pow2 : forall s, flt_size_ok s = true -> pow2_small s.
Proof. unfold flt_size_ok, pow2_small; simpl; intros. lia. Qed.

Lemma size_align_pow2 : forall tbl t s a, tbl_ok tbl -> size_align tbl t = Some (s, a) -> pow2_small a.
Proof.
  intros tbl t; induction t; intros s a Hok H; cbn [size_align] in H; try discriminate.
  - inversion H; subst. unfold pow2_small; simpl; auto.
  - destruct (int_size_ok sz) eqn:E; inversion H; subst. now apply int_size_ok_pow2.
  - destruct (flt_size_ok sz) eqn:E; inversion H; subst. now apply flt_size_ok_pow2.
  - inversion H; subst. unfold pow2_small, ptr_size; simpl; auto.
  - destruct (size_align tbl t) as [[s' a']|] eqn:E; inversion H; subst. eapply IHt; eauto.
  - destruct (lookup name tbl) eqn:E; inversion H; subst. apply (Hok _ _ E).
  - inversion H; subst. unfold pow2_small, ptr_size; simpl; auto.
Qed.

(* ------------------------------------------------------------------ layout_fields *)

Definition fwf (al' e : N) (f : flayout) : Prop :=
  pow2_small (fl_align f) /\ (fl_align f | al') /\ fl_off f mod fl_align f = 0
  /\ fl_off f + fl_size f <= e.

Lemma fwf_weaken : forall al' e e' f, e <= e' -> fwf al' e f -> fwf al' e' f.
Proof. unfold fwf; intros; intuition lia. Qed.

Lemma layout_fields_struct : forall tbl, tbl_ok tbl ->
  forall fs off al fl e al',
  pow2_small al ->
  layout_fields tbl false fs off al = Some (fl, e, al') ->
  pow2_small al' /\ (al | al') /\ chain off fl /\ chain_end off fl = e /\ off <= e
  /\ Forall (fwf al' e) fl.
Proof.
  intros tbl Hok fs; induction fs as [|[n t] r IH]; intros off al fl e al' Hal H; cbn [layout_fields] in H.
  - inversion H; subst. cbn. repeat split; auto; try lia. apply N.divide_refl.
  - destruct (size_align tbl t) as [[sz a]|] eqn:Esa; [|discriminate].
    assert (Ha : pow2_small a) by (eapply size_align_pow2; eauto).
    destruct (layout_fields tbl false r (round_up off a + sz) (N.max al a)) as [[[fl0 e0] al0]|] eqn:Er;
      [|discriminate].
    inversion H; subst; clear H.
    destruct (IH _ _ _ _ _ (pow2_small_max _ _ Hal Ha) Er) as (P1 & P2 & P3 & P4 & P5 & P6).
    destruct (round_up_spec off a (pow2_small_pos _ Ha)) as (R1 & R2 & R3).
    split; [exact P1|]. split.
    { apply N.divide_trans with (N.max al a); [apply pow2_small_divide_max_l; assumption|exact P2]. }
    split.
    { cbn [chain fl_off fl_align fl_size]. auto. }
    split; [exact P4|]. split; [lia|].
    constructor; auto. unfold fwf; cbn [fl_off fl_align fl_size].
    split; [exact Ha|]. split.
    { apply N.divide_trans with (N.max al a); [apply pow2_small_divide_max_r; assumption|exact P2]. }
    split; [exact R3|exact P5].
Qed.

Lemma layout_fields_union : forall tbl, tbl_ok tbl ->
  forall fs off al fl e al',
  pow2_small al ->
  layout_fields tbl true fs off al = Some (fl, e, al') ->
  pow2_small al' /\ (al | al') /\ off <= e
  /\ Forall (fun f => fl_off f = 0) fl /\ Forall (fwf al' e) fl.
Proof.
  intros tbl Hok fs; induction fs as [|[n t] r IH]; intros off al fl e al' Hal H; cbn [layout_fields] in H.
  - inversion H; subst. repeat split; auto; try lia. apply N.divide_refl.
  - destruct (size_align tbl t) as [[sz a]|] eqn:Esa; [|discriminate].
    assert (Ha : pow2_small a) by (eapply size_align_pow2; eauto).
    destruct (layout_fields tbl true r (N.max off sz) (N.max al a)) as [[[fl0 e0] al0]|] eqn:Er;
      [|discriminate].
    inversion H; subst; clear H.
    destruct (IH _ _ _ _ _ (pow2_small_max _ _ Hal Ha) Er) as (P1 & P2 & P3 & P4 & P5).
    split; [exact P1|]. split.
    { apply N.divide_trans with (N.max al a); [apply pow2_small_divide_max_l; assumption|exact P2]. }
    split; [lia|]. split; [constructor; auto|].
    constructor; auto. unfold fwf; cbn [fl_off fl_align fl_size].
    split; [exact Ha|]. split.
    { apply N.divide_trans with (N.max al a); [apply pow2_small_divide_max_r; assumption|exact P2]. }
    split.
    { apply N.mod_0_l. apply N.neq_0_lt_0, pow2_small_pos; auto. }
    lia.
Qed.

Lemma pow2_small_1 : pow2_small 1.
Proof. unfold pow2_small; simpl; auto. Qed.

Lemma layout_struct_wf : forall tbl s l, tbl_ok tbl -> layout_struct tbl s = Some l -> slayout_wf l.
Proof.
  intros tbl s l Hok H. unfold layout_struct in H.
  destruct (layout_fields tbl (s_union s) (s_fields s) 0 1) as [[[fl e] al]|] eqn:E; [|discriminate].
  inversion H; subst; clear H.
  destruct (s_union s) eqn:U.
  - destruct (layout_fields_union tbl Hok _ _ _ _ _ _ pow2_small_1 E) as (P1 & P2 & P3 & P4 & P5).
    destruct (round_up_spec e al (pow2_small_pos _ P1)) as (R1 & R2 & R3).
    unfold slayout_wf; cbn [sl_union sl_size sl_align sl_fields]. repeat split; auto; try discriminate.
    eapply Forall_impl; [|exact P5]. intros f Hf. unfold field_wf; cbn [sl_size sl_align].
    unfold fwf in Hf. intuition lia.
  - destruct (layout_fields_struct tbl Hok _ _ _ _ _ _ pow2_small_1 E) as (P1 & P2 & P3 & P4 & P5 & P6).
    destruct (round_up_spec e al (pow2_small_pos _ P1)) as (R1 & R2 & R3).
    unfold slayout_wf; cbn [sl_union sl_size sl_align sl_fields]. repeat split; auto; try discriminate; try lia.
    eapply Forall_impl; [|exact P6]. intros f Hf. unfold field_wf; cbn [sl_size sl_align].
    unfold fwf in Hf. intuition lia.
Qed.

Lemma tbl_ok_nil : tbl_ok [].
Proof. intros n l H; discriminate. Qed.

Lemma tbl_ok_cons : forall k l tbl, slayout_wf l -> tbl_ok tbl -> tbl_ok ((k, l) :: tbl).
Proof.
  intros k l tbl Hl Hok n l' H. cbn [lookup] in H.
  destruct (String.eqb n k); [inversion H; subst; auto|]. eapply Hok; eauto.
Qed.

Lemma layout_decls_ok : forall ds tbl tbl', tbl_ok tbl -> layout_decls ds tbl = Some tbl' -> tbl_ok tbl'.
Proof.
  induction ds as [|s r IH]; intros tbl tbl' Hok H; cbn [layout_decls] in H.
  - inversion H; subst; auto.
  - destruct (lookup (s_name s) tbl); [discriminate|].
    destruct (layout_struct tbl s) as [l|] eqn:E; [|discriminate].
    eapply IH; [|exact H]. apply tbl_ok_cons; auto. eapply layout_struct_wf; eauto.
Qed.

(* layout_wf: every record of every declaration list that can be laid out is laid out well *)
Theorem decls_layout_wf_all : forall d, decls_layout_wf d.
Proof.
  intros d tbl H. exact (layout_decls_ok _ _ _ tbl_ok_nil H).
Qed.

(* consequences of [chain]: members do not overlap *)
Lemma chain_lo_le : forall fs lo, chain lo fs -> Forall (fun f => lo <= fl_off f) fs.
Proof.
  induction fs as [|f r IH]; intros lo H; constructor; cbn [chain] in H.
  - tauto.
  - destruct H as (H1 & _ & _ & H4). eapply Forall_impl; [|apply (IH _ H4)].
    cbn; intros; lia.
Qed.

Lemma chain_disjoint : forall fs lo i j fi fj, chain lo fs -> (i < j)%nat ->
  nth_error fs i = Some fi -> nth_error fs j = Some fj -> fl_off fi + fl_size fi <= fl_off fj.
Proof.
  induction fs as [|f r IH]; intros lo i j fi fj H Hij Hi Hj.
  - destruct i; discriminate.
  - cbn [chain] in H. destruct H as (H1 & _ & _ & H4).
    destruct j as [|j]; [lia|]. cbn [nth_error] in Hj.
    destruct i as [|i]; cbn [nth_error] in Hi.
    + inversion Hi; subst. pose proof (chain_lo_le _ _ H4) as F.
      rewrite Forall_forall in F. apply F. eapply nth_error_In; eauto.
    + apply (IH _ i j fi fj H4); [lia|assumption|assumption].
Qed.

(* ------------------------------------------------------------------ soundness of the reflection *)

Lemma chk_nil : forall b m, chk b m = [] -> b = true.
Proof. intros [|] m H; [reflexivity|discriminate]. Qed.

Lemma flat_map_nil : forall {A B} (f : A -> list B) l, flat_map f l = [] -> Forall (fun x => f x = []) l.
Proof.
  induction l as [|x r IH]; intros H; constructor; cbn [flat_map] in H;
    apply app_eq_nil in H; destruct H; auto.
Qed.

Lemma nlen_eqb : forall {A B} (a : list A) (b : list B),
  (nlen a =? nlen b) = true -> List.length a = List.length b.
Proof. unfold nlen; intros. lia. Qed.

Lemma compat_class : forall r c, compat r c = true -> class_of r = class_of c.
Proof.
  induction r; intros c H; destruct c; cbn [compat] in H; try discriminate; cbn [class_of]; auto.
  - apply andb_true_iff in H. destruct H as [H _]. apply N.eqb_eq in H. now subst.
  - apply N.eqb_eq in H. now subst.
  - apply andb_true_iff in H. destruct H as [H1 H2]. apply N.eqb_eq in H2. subst.
    now rewrite (IHr _ H1).
Qed.

Lemma compat_ty_agree : forall r c, compat r c = true -> ty_agree r c.
Proof. intros; split; auto using compat_class. Qed.

Lemma field_mm_nil : forall s i fr fc, field_mm s i fr fc = [] -> field_agree fr fc.
Proof.
  unfold field_mm; intros s i fr fc H.
  repeat (apply app_eq_nil in H; let H1 := fresh "K" in destruct H as [H1 H]; apply chk_nil in H1).
  apply chk_nil in H.
  unfold field_agree. rewrite N.eqb_eq in *. auto 10 using compat_class.
Qed.

Lemma fields_mm_nil : forall s lr lc i, List.length lr = List.length lc ->
  fields_mm s i lr lc = [] -> Forall2 field_agree lr lc.
Proof.
  induction lr as [|fr lr IH]; intros [|fc lc] i Hlen H; try discriminate; constructor.
  - cbn [fields_mm] in H. apply app_eq_nil in H. destruct H as [H _]. eapply field_mm_nil; eauto.
  - cbn [fields_mm] in H. apply app_eq_nil in H. destruct H as [_ H]. eapply IH; eauto.
Qed.

Lemma mem_str_In : forall s l, mem_str s l = true -> In s l.
Proof.
  induction l as [|x r IH]; cbn [mem_str]; intros H; [discriminate|].
  apply orb_true_iff in H. destruct H as [H|H]; [left; symmetry; now apply String.eqb_eq|right; auto].
Qed.

Lemma struct_mm_nil : forall tr tc s, struct_mm tr tc s = [] -> struct_agree tr tc s.
Proof.
  unfold struct_mm, struct_agree; intros tr tc s H.
  destruct (lookup (s_name s) tr) as [lr|]; [|discriminate].
  exists lr; split; auto.
  destruct (lookup (mirror (s_name s)) tc) as [lc|].
  - apply app_eq_nil in H; destruct H as [K1 H]; apply chk_nil in K1.
    apply app_eq_nil in H; destruct H as [K2 H]; apply chk_nil in K2.
    apply app_eq_nil in H; destruct H as [K3 H]; apply chk_nil in K3.
    apply app_eq_nil in H; destruct H as [K4 H]; apply chk_nil in K4.
    apply Bool.eqb_prop in K1. apply N.eqb_eq in K2. apply N.eqb_eq in K3. apply nlen_eqb in K4.
    repeat split; auto. eapply fields_mm_nil; eauto.
  - apply chk_nil in H. now apply mem_str_In.
Qed.

Lemma params_mm_nil : forall f pr pc i, List.length pr = List.length pc ->
  params_mm f i pr pc = [] -> Forall2 ty_agree pr pc.
Proof.
  induction pr as [|x pr IH]; intros [|y pc] i Hlen H; try discriminate; constructor;
    cbn [params_mm] in H; apply app_eq_nil in H; destruct H as [H1 H2].
  - apply chk_nil in H1. now apply compat_ty_agree.
  - eapply IH; eauto.
Qed.

Lemma find_fun_some : forall n l g, find_fun n l = Some g -> In g l /\ f_name g = n.
Proof.
  induction l as [|x r IH]; intros g H; cbn [find_fun] in H; [discriminate|].
  destruct (String.eqb n (f_name x)) eqn:E.
  - inversion H; subst. apply String.eqb_eq in E. split; [left|]; auto.
  - destruct (IH _ H); split; [right|]; auto.
Qed.

Lemma find_var_some : forall n l g, find_var n l = Some g -> In g l /\ v_name g = n.
Proof.
  induction l as [|x r IH]; intros g H; cbn [find_var] in H; [discriminate|].
  destruct (String.eqb n (v_name x)) eqn:E.
  - inversion H; subst. apply String.eqb_eq in E. split; [left|]; auto.
  - destruct (IH _ H); split; [right|]; auto.
Qed.

Lemma fun_mm_nil : forall c f, fun_mm c f = [] -> fun_agree c f.
Proof.
  unfold fun_mm, fun_agree; intros c f H.
  destruct (find_fun (f_name f) (d_funs c)) as [g|] eqn:E; [|discriminate].
  apply find_fun_some in E. destruct E as [E1 E2].
  apply app_eq_nil in H; destruct H as [K1 H]; apply chk_nil in K1.
  apply app_eq_nil in H; destruct H as [K2 K3]; apply chk_nil in K3.
  apply nlen_eqb in K1.
  exists g. repeat split; auto using compat_class. eapply params_mm_nil; eauto.
Qed.

Lemma var_mm_nil : forall c v, var_mm c v = [] -> var_agree c v.
Proof.
  unfold var_mm, var_agree; intros c v H.
  destruct (find_var (v_name v) (d_vars c)) as [w|] eqn:E; [|discriminate].
  apply find_var_some in E. destruct E as [E1 E2]. apply chk_nil in H.
  exists w. repeat split; auto using compat_class.
Qed.

Theorem abi_compatible_sound : forall r c, abi_compatible r c = true -> abi_agree r c.
Proof.
  unfold abi_compatible, abi_mismatches, abi_agree; intros r c H.
  destruct (layout_decls (d_structs r) []) as [tr|]; [|discriminate].
  destruct (layout_decls (d_structs c) []) as [tc|]; [|discriminate].
  exists tr, tc. split; [reflexivity|]. split; [reflexivity|].
  match type of H with match ?l with _ => _ end = _ => destruct l eqn:E; [|discriminate] end.
  apply app_eq_nil in E; destruct E as [E1 E]. apply app_eq_nil in E; destruct E as [E2 E3].
  split; [|split].
  - eapply Forall_impl; [|apply (flat_map_nil _ _ E1)]. apply struct_mm_nil.
  - eapply Forall_impl; [|apply (flat_map_nil _ _ E2)]. apply fun_mm_nil.
  - eapply Forall_impl; [|apply (flat_map_nil _ _ E3)]. apply var_mm_nil.
Qed.

(* ------------------------------------------------------------------ byte images *)

Lemma nth_map_seq : forall (f : nat -> N) n k d, (k < n)%nat -> nth k (map f (seq 0 n)) d = f k.
Proof.
  intros f n k d H.
  rewrite (nth_indep _ d (f 0%nat)) by (rewrite map_length, seq_length; lia).
  rewrite map_nth. rewrite seq_nth; auto.
Qed.

Lemma read_length : forall img off len, List.length (read img off len) = N.to_nat len.
Proof. intros; unfold read. now rewrite map_length, seq_length. Qed.

Lemma read_write_same : forall img off bs, read (write img off bs) off (nlen bs) = bs.
Proof.
  intros img off bs. apply nth_ext with (d := 0) (d' := 0).
  - rewrite read_length. unfold nlen. lia.
  - rewrite read_length. unfold nlen. intros k Hk. unfold read.
    rewrite nth_map_seq by (unfold nlen; lia).
    unfold write, nlen.
    destruct ((off <=? off + N.of_nat k) && (off + N.of_nat k <? off + N.of_nat (List.length bs))) eqn:E;
      [|lia].
    f_equal. lia.
Qed.

Lemma read_write_other : forall img off bs o2 l2,
  o2 + l2 <= off \/ off + nlen bs <= o2 ->
  read (write img off bs) o2 l2 = read img o2 l2.
Proof.
  intros img off bs o2 l2 H. unfold read. apply map_ext_in. intros k Hk.
  apply in_seq in Hk. unfold write, nlen in *.
  destruct ((off <=? o2 + N.of_nat k) && (o2 + N.of_nat k <? off + N.of_nat (List.length bs))) eqn:E;
    [lia|reflexivity].
Qed.

Lemma Forall2_nth_error : forall {A B} (P : A -> B -> Prop) l1 l2 i x y,
  Forall2 P l1 l2 -> nth_error l1 i = Some x -> nth_error l2 i = Some y -> P x y.
Proof.
  intros A B P l1 l2 i x y H; revert i; induction H; intros [|i] H1 H2; cbn [nth_error] in *;
    try discriminate.
  - inversion H1; inversion H2; subst; auto.
  - eapply IHForall2; eauto.
Qed.

(* A field written through one declaration is read back identically through the other one, and
   leaves every other field - as seen through the other declaration - untouched. *)
Theorem field_rw_agree : forall r c, abi_compatible r c = true ->
  forall tr tc, layout_decls (d_structs r) [] = Some tr -> layout_decls (d_structs c) [] = Some tc ->
  forall s lr lc, In s (d_structs r) ->
    lookup (s_name s) tr = Some lr -> lookup (mirror (s_name s)) tc = Some lc ->
  forall i fr fc, nth_error (sl_fields lr) i = Some fr -> nth_error (sl_fields lc) i = Some fc ->
  forall (img : image) (bs : list N), nlen bs = fl_size fr ->
    read (write img (fl_off fr) bs) (fl_off fc) (fl_size fc) = bs
    /\ read (write img (fl_off fc) bs) (fl_off fr) (fl_size fr) = bs
    /\ (sl_union lr = false ->
        forall j frj fcj, j <> i ->
          nth_error (sl_fields lr) j = Some frj -> nth_error (sl_fields lc) j = Some fcj ->
          read (write img (fl_off fr) bs) (fl_off fcj) (fl_size fcj) = read img (fl_off fcj) (fl_size fcj)
          /\ read (write img (fl_off fc) bs) (fl_off frj) (fl_size frj) = read img (fl_off frj) (fl_size frj)).
Proof.
  intros r c Hc tr tc Htr Htc s lr lc Hs Hlr Hlc i fr fc Hi Hic img bs Hbs.
  destruct (abi_compatible_sound _ _ Hc) as (tr' & tc' & E1 & E2 & Fs & _ & _).
  rewrite Htr in E1; inversion E1; subst tr'. rewrite Htc in E2; inversion E2; subst tc'.
  rewrite Forall_forall in Fs. destruct (Fs _ Hs) as (lr' & L1 & L2).
  rewrite Hlr in L1; inversion L1; subst lr'. rewrite Hlc in L2.
  destruct L2 as (_ & _ & _ & _ & F2).
  destruct (Forall2_nth_error _ _ _ _ _ _ F2 Hi Hic) as (_ & A2 & A3 & _).
  rewrite <- A2, <- A3, <- Hbs.
  split; [apply read_write_same|]. split; [apply read_write_same|].
  intros U j frj fcj Hji Hj Hjc.
  destruct (Forall2_nth_error _ _ _ _ _ _ F2 Hj Hjc) as (_ & B2 & B3 & _).
  rewrite <- B2, <- B3.
  assert (W : slayout_wf lr) by (eapply (decls_layout_wf_all r); eauto).
  destruct W as (_ & _ & _ & W & _). destruct (W U) as (Ch & _).
  assert (D : fl_off frj + fl_size frj <= fl_off fr \/ fl_off fr + nlen bs <= fl_off frj).
  { destruct (Nat.lt_ge_cases j i) as [Hlt|Hge].
    - left. eapply chain_disjoint; eauto.
    - right. rewrite Hbs. eapply (chain_disjoint _ _ i j); eauto. lia. }
  split; apply read_write_other; exact D.
Qed.

(* ------------------------------------------------------------------ compatible types have the same size and alignment *)

Definition tables_agree (tr tc : ltable) : Prop :=
  forall n lr lc, lookup n tr = Some lr -> lookup (mirror n) tc = Some lc ->
                  sl_size lr = sl_size lc /\ sl_align lr = sl_align lc.

Lemma compat_size_align : forall tr tc, tables_agree tr tc ->
  forall r c x y, compat r c = true ->
  size_align tr r = Some x -> size_align tc c = Some y -> x = y.
Proof.
  intros tr tc Hag; induction r; intros c x y H Hr Hc; destruct c; cbn [compat] in H; try discriminate;
    cbn [size_align] in Hr, Hc; try discriminate.
  - congruence.
  - apply andb_true_iff in H. destruct H as [H _]. apply N.eqb_eq in H. subst.
    destruct (int_size_ok sz0); congruence.
  - apply N.eqb_eq in H. subst. destruct (flt_size_ok sz0); congruence.
  - congruence.
  - apply andb_true_iff in H. destruct H as [H1 H2]. apply N.eqb_eq in H2. subst.
    destruct (size_align tr r) as [[s1 a1]|] eqn:E1; [|discriminate].
    destruct (size_align tc c) as [[s2 a2]|] eqn:E2; [|discriminate].
    specialize (IHr _ _ _ H1 eq_refl E2). inversion IHr; subst. congruence.
  - apply String.eqb_eq in H. subst.
    destruct (lookup name tr) as [lr|] eqn:E1; [|discriminate].
    destruct (lookup (mirror name) tc) as [lc|] eqn:E2; [|discriminate].
    destruct (Hag _ _ _ E1 E2) as [A B]. inversion Hr; inversion Hc; subst. now rewrite A, B.
  - congruence.
Qed.

Lemma lookup_name_in : forall ds tbl tbl' n l,
  layout_decls ds tbl = Some tbl' -> lookup n tbl' = Some l ->
  lookup n tbl = Some l \/ exists s, In s ds /\ s_name s = n.
Proof.
  induction ds as [|s r IH]; intros tbl tbl' n l H L; cbn [layout_decls] in H.
  - inversion H; subst; auto.
  - destruct (lookup (s_name s) tbl); [discriminate|].
    destruct (layout_struct tbl s) as [l0|]; [|discriminate].
    destruct (IH _ _ _ _ H L) as [K|(s' & K1 & K2)].
    + cbn [lookup] in K. destruct (String.eqb n (s_name s)) eqn:E.
      * right. exists s. split; [left; auto|]. apply String.eqb_eq in E. auto.
      * left; auto.
    + right. exists s'. split; [right|]; auto.
Qed.

(* the tables of two agreeing declaration lists agree on every mirrored record *)
Lemma abi_agree_tables : forall r c tr tc,
  abi_compatible r c = true ->
  layout_decls (d_structs r) [] = Some tr -> layout_decls (d_structs c) [] = Some tc ->
  tables_agree tr tc.
Proof.
  intros r c tr tc Hc Htr Htc n lr lc L1 L2.
  destruct (abi_compatible_sound _ _ Hc) as (tr' & tc' & E1 & E2 & Fs & _ & _).
  rewrite Htr in E1; inversion E1; subst tr'. rewrite Htc in E2; inversion E2; subst tc'.
  destruct (lookup_name_in _ _ _ _ _ Htr L1) as [K|(s & K1 & K2)]; [discriminate|].
  rewrite Forall_forall in Fs. destruct (Fs _ K1) as (lr' & M1 & M2).
  rewrite K2 in M1, M2. rewrite L1 in M1; inversion M1; subst lr'. rewrite L2 in M2.
  tauto.
Qed.

(* members of a well-formed struct layout do not overlap *)
Lemma struct_fields_disjoint : forall l, slayout_wf l -> sl_union l = false ->
  forall i j fi fj, (i < j)%nat -> nth_error (sl_fields l) i = Some fi -> nth_error (sl_fields l) j = Some fj ->
  fl_off fi + fl_size fi <= fl_off fj.
Proof.
  intros l (_ & _ & _ & W & _) U i j fi fj Hij Hi Hj. destruct (W U) as (Ch & _).
  eapply chain_disjoint; eauto.
Qed.
