(* C20 - non-vacuity: concrete declaration lists satisfying the hypotheses of the theorems, and
   concrete ones the reflection rejects (each kind of mismatch is actually detected). *)

From Coq Require Import NArith List String Bool.
From LibaV Require Import C20.AbiDefs C20.AbiSpec C20.AbiProofs.
Import ListNotations.
Local Open Scope string_scope.
Local Open Scope list_scope.
Local Open Scope N_scope.

(* a mirror with internal and tail padding, a nested record, an array, pointers, a function pointer *)
Definition ex_rust : decls := {|
  d_structs := [
    {| s_name := "in"; s_union := false; s_fields := [("a", Int 1 Unsigned); ("b", Flt 8)] |};
    {| s_name := "ex"; s_union := false;
       s_fields := [("tag", Int 1 Unsigned); ("n", Int 4 Unsigned); ("p", Ptr (Flt 8));
                    ("h", Arr (Int 2 Signed) 3); ("inner", Rec "in");
                    ("cb", FnPtr [Flt 8; Flt 8] (Flt 8)); ("alpha", Arr (Int 1 Unsigned) 4);
                    ("ok", Bool)] |};
    {| s_name := "crc8"; s_union := false; s_fields := [("table", Arr (Int 1 Unsigned) 256)] |} ];
  d_funs := [
    {| f_name := "a_ex_run"; f_params := [Ptr (Rec "ex"); Flt 8; Int 8 Unsigned; Ptr (Arr (Int 1 Unsigned) 5)];
       f_ret := Flt 8 |};
    {| f_name := "a_ex_zero"; f_params := [Ptr (Rec "ex")]; f_ret := Void |} ];
  d_vars := [ {| v_name := "a_ex_version"; v_ty := Int 4 Unsigned |} ] |}.

Definition ex_c : decls := {|
  d_structs := [
    {| s_name := "a_in"; s_union := false; s_fields := [("a", Int 1 Unsigned); ("b", Flt 8)] |};
    {| s_name := "a_unrelated"; s_union := true; s_fields := [("x", Int 4 Signed); ("y", Flt 8)] |};
    {| s_name := "a_ex"; s_union := false;
       s_fields := [("tag", Int 1 Unsigned); ("n", Int 4 Unsigned); ("p", Ptr (Flt 8));
                    ("h", Arr (Int 2 Signed) 3); ("inner", Rec "a_in");
                    ("cb", FnPtr [Flt 8; Flt 8] (Flt 8)); ("alpha_", Arr (Int 1 PlainChar) 4);
                    ("ok", Bool)] |} ];
  d_funs := [
    {| f_name := "a_ex_zero"; f_params := [Ptr (Rec "a_ex")]; f_ret := Void |};
    {| f_name := "a_ex_run"; f_params := [Ptr (Rec "a_ex"); Flt 8; Int 8 Unsigned; Ptr (Int 1 PlainChar)];
       f_ret := Flt 8 |};
    {| f_name := "a_other"; f_params := [Ptr Void]; f_ret := Int 4 Signed |} ];
  d_vars := [ {| v_name := "a_ex_version"; v_ty := Int 4 Unsigned |} ] |}.

(* the layout rule on the example: padding after tag (1 -> 4), after h (22 -> 24), tail padding *)
Example ex_layout :
  dump_decls ex_c =
  ["S a_in struct 16 8 2"; "F a_in 0 a 0 1 1"; "F a_in 1 b 8 8 8";
   "S a_unrelated union 8 8 2"; "F a_unrelated 0 x 0 4 4"; "F a_unrelated 1 y 0 8 8";
   "S a_ex struct 56 8 8"; "F a_ex 0 tag 0 1 1"; "F a_ex 1 n 4 4 4"; "F a_ex 2 p 8 8 8";
   "F a_ex 3 h 16 6 2"; "F a_ex 4 inner 24 16 8"; "F a_ex 5 cb 40 8 8"; "F a_ex 6 alpha_ 48 4 1";
   "F a_ex 7 ok 52 1 1"].
Proof. vm_compute. reflexivity. Qed.

Example ex_compatible : abi_compatible ex_rust ex_c = true.
Proof. vm_compute. reflexivity. Qed.

(* hypotheses of abi_compatible_sound / field_rw_agree are satisfiable by a non-trivial state *)
Example ex_agree : abi_agree ex_rust ex_c.
Proof. exact (abi_compatible_sound _ _ ex_compatible). Qed.

Example ex_rw :
  let img : image := fun a => a mod 256 in
  read (write img 4 [1; 2; 3; 4]) 4 4 = [1; 2; 3; 4]
  /\ read (write img 4 [1; 2; 3; 4]) 8 8 = read img 8 8
  /\ read (write img 4 [1; 2; 3; 4]) 0 1 = [0].
Proof. vm_compute. repeat split. Qed.

(* hypotheses of decls_layout_wf: the table exists and is non-empty *)
Example ex_layout_exists : exists t, layout_decls (d_structs ex_c) [] = Some t /\ List.length t = 3%nat.
Proof. eexists; split; vm_compute; reflexivity. Qed.

(* ---- the reflection is not vacuous: each kind of disagreement is reported *)

Definition with_structs (d : decls) (ss : list sdecl) : decls :=
  {| d_structs := ss; d_funs := d_funs d; d_vars := d_vars d |}.
Definition with_funs (d : decls) (fs : list fdecl) : decls :=
  {| d_structs := d_structs d; d_funs := fs; d_vars := d_vars d |}.

(* C adds a field in the middle of a_in: offsets of a_ex move as well *)
Example ex_field_inserted :
  abi_mismatches ex_rust (with_structs ex_c
    ({| s_name := "a_in"; s_union := false;
        s_fields := [("a", Int 1 Unsigned); ("k", Int 4 Signed); ("b", Flt 8)] |} :: tl (d_structs ex_c)))
  = [MM_nfields "in" 2 3; MM_field_name "in" 1 "b" "k"; MM_field_off "in" 1 "b" 8 4;
     MM_field_size "in" 1 "b" 8 4; MM_field_align "in" 1 "b" 8 4; MM_field_ty "in" 1 "b" (Flt 8) (Int 4 Signed)].
Proof. vm_compute. reflexivity. Qed.

(* two same-typed fields swapped: only the names can tell *)
Example ex_fields_swapped :
  abi_mismatches
    (with_structs ex_rust [{| s_name := "in"; s_union := false; s_fields := [("a", Flt 8); ("b", Flt 8)] |}])
    (with_structs ex_c [{| s_name := "a_in"; s_union := false; s_fields := [("b", Flt 8); ("a", Flt 8)] |}])
  <> [].
Proof. vm_compute. discriminate. Qed.

(* return type dropped on the Rust side (the a_regress_linear_mgd defect) *)
Example ex_ret_dropped :
  abi_mismatches (with_funs ex_rust [{| f_name := "a_ex_run";
       f_params := [Ptr (Rec "ex"); Flt 8; Int 8 Unsigned; Ptr (Int 1 Unsigned)]; f_ret := Void |}]) ex_c
  = [MM_ret "a_ex_run" Void (Flt 8)].
Proof. vm_compute. reflexivity. Qed.

(* signedness of a result (the a_version_tostr defect), a missing symbol, a wrong arity, a wrong width *)
Example ex_fun_mismatches :
  abi_mismatches (with_funs ex_rust [
     {| f_name := "a_other"; f_params := [Ptr (Int 1 Unsigned)]; f_ret := Int 4 Unsigned |};
     {| f_name := "a_gone"; f_params := []; f_ret := Void |};
     {| f_name := "a_ex_zero"; f_params := [Ptr (Rec "ex"); Int 4 Signed]; f_ret := Void |};
     {| f_name := "a_ex_run"; f_params := [Ptr (Rec "in"); Flt 4; Int 8 Unsigned; Ptr (Flt 8)]; f_ret := Flt 8 |}]) ex_c
  = [MM_ret "a_other" (Int 4 Unsigned) (Int 4 Signed); MM_fn_missing "a_gone"; MM_arity "a_ex_zero" 2 1;
     MM_param "a_ex_run" 0 (Ptr (Rec "in")) (Ptr (Rec "a_ex")); MM_param "a_ex_run" 1 (Flt 4) (Flt 8);
     MM_param "a_ex_run" 3 (Ptr (Flt 8)) (Ptr (Int 1 PlainChar))].
Proof. vm_compute. reflexivity. Qed.

(* a repr(C) struct without a C record must be on the rust_only list *)
Example ex_no_mirror :
  abi_mismatches (with_structs ex_rust
     [{| s_name := "stray"; s_union := false; s_fields := [("x", Int 4 Signed)] |}]) ex_c
  = [MM_no_mirror "stray"].
Proof. vm_compute. reflexivity. Qed.
