(* C20 - the layout model and the reflection for OTHER data models (ILP32, LLP64, 8-byte scalars
   aligned to 4, ...).

   coq/C20/AbiDefs.v fixes the x86-64 SysV facts (pointers 8/8, every scalar aligned to its size).
   Here the same definitions take a [target] (pointer size, alignment of the 8-byte and of the
   16-byte scalars; 1-, 2- and 4-byte scalars are aligned to their size on every target the project
   supports, which checks/C20.py observes on the target's compiler).  Everything that does not
   depend on the layout rule ([compat], [struct_mm], [fun_mm], [var_mm], the Prop-level
   specifications of AbiSpec.v, [dump_table]) is REUSED, not copied.

     [abi_mismatches_lp64]      at the target [lp64] the parametric functions ARE the ones of AbiDefs.v
     [decls_layout_wf_t_all]    layouts computed for a well-formed target are well formed
     [abi_compatible_t_sound]   soundness of the reflection for every target
     [compat_size_align_t], [field_rw_agree_t]   the two consequences, for every target

   checks/C20.py regenerates, for every cross target, both declaration lists from the current
   sources with the TARGET's compiler front ends and re-proves [abi_compatible_t tg r c = true] by
   vm_compute (build/C20/AbiGenThmX_<target>.v). *)

From Coq Require Import ZArith NArith List String Bool Lia ZifyBool ZifyNat ZifyN.
From LibaV Require Import C20.AbiDefs C20.AbiSpec C20.AbiProofs.
Import ListNotations.
Local Open Scope string_scope.
Local Open Scope list_scope.
Local Open Scope N_scope.

Ltac Zify.zify_post_hook ::= Z.div_mod_to_equations.

(* ------------------------------------------------------------------ targets *)

Record target := { t_ptr : N; t_a8 : N; t_a16 : N }.

Definition pow2b (a : N) : bool := (a =? 1) || (a =? 2) || (a =? 4) || (a =? 8) || (a =? 16).

Definition target_ok (tg : target) : bool := pow2b (t_ptr tg) && pow2b (t_a8 tg) && pow2b (t_a16 tg).

(* x86-64 SysV, AArch64 AAPCS64, Windows x64 (LLP64 differs in what `long` IS, which is the
   declaration lists' business, not the layout rule's) *)
Definition lp64 : target := {| t_ptr := 8; t_a8 := 8; t_a16 := 16 |}.
(* i386 SysV: double / long long aligned to 4 inside records *)
Definition ilp32_a4 : target := {| t_ptr := 4; t_a8 := 4; t_a16 := 16 |}.
(* 32-bit ARM AAPCS: 8-byte scalars aligned to 8 *)
Definition ilp32_a8 : target := {| t_ptr := 4; t_a8 := 8; t_a16 := 16 |}.

Section WithTarget.
Variable tg : target.

Definition scalar_align (s : N) : N :=
  if s =? 8 then t_a8 tg else if s =? 16 then t_a16 tg else s.

Fixpoint size_align_t (tbl : ltable) (t : cty) : option (N * N) :=
  match t with
  | Void => None
  | Bool => Some (1, 1)
  | Int s _ => if int_size_ok s then Some (s, scalar_align s) else None
  | Flt s => if flt_size_ok s then Some (s, scalar_align s) else None
  | Ptr _ => Some (t_ptr tg, t_ptr tg)
  | FnPtr _ _ => Some (t_ptr tg, t_ptr tg)
  | Arr e n => match size_align_t tbl e with
               | Some (s, a) => Some (n * s, a)
               | None => None
               end
  | Rec name => match lookup name tbl with
                | Some l => Some (sl_size l, sl_align l)
                | None => None
                end
  | Unsupported _ => None
  end.

Fixpoint layout_fields_t (tbl : ltable) (union : bool) (fs : list (string * cty)) (off al : N)
  : option (list flayout * N * N) :=
  match fs with
  | [] => Some ([], off, al)
  | (n, t) :: r =>
      match size_align_t tbl t with
      | None => None
      | Some (sz, a) =>
          let o := if union then 0 else round_up off a in
          let next := if union then N.max off sz else o + sz in
          match layout_fields_t tbl union r next (N.max al a) with
          | None => None
          | Some (fl, e, al') =>
              Some ({| fl_name := n; fl_ty := t; fl_off := o; fl_size := sz; fl_align := a |} :: fl, e, al')
          end
      end
  end.

Definition layout_struct_t (tbl : ltable) (s : sdecl) : option slayout :=
  match layout_fields_t tbl (s_union s) (s_fields s) 0 1 with
  | None => None
  | Some (fl, e, al) =>
      Some {| sl_union := s_union s; sl_size := round_up e al; sl_align := al; sl_fields := fl |}
  end.

Fixpoint layout_decls_t (ds : list sdecl) (tbl : ltable) : option ltable :=
  match ds with
  | [] => Some tbl
  | s :: r =>
      match lookup (s_name s) tbl with
      | Some _ => None
      | None =>
          match layout_struct_t tbl s with
          | None => None
          | Some l => layout_decls_t r ((s_name s, l) :: tbl)
          end
      end
  end.

Definition abi_mismatches_t (r c : decls) : list mismatch :=
  match layout_decls_t (d_structs r) [] with
  | None => [MM_layout_rust]
  | Some tr =>
      match layout_decls_t (d_structs c) [] with
      | None => [MM_layout_c]
      | Some tc =>
          flat_map (struct_mm tr tc) (d_structs r)
          ++ flat_map (fun_mm c) (d_funs r)
          ++ flat_map (var_mm c) (d_vars r)
      end
  end.

Definition abi_compatible_t (r c : decls) : bool :=
  match abi_mismatches_t r c with [] => true | _ => false end.

Definition dump_decls_t (d : decls) : list string :=
  match layout_decls_t (d_structs d) [] with
  | None => ["LAYOUT-FAILED"]
  | Some t => dump_table t
  end.

(* ------------------------------------------------------------------ specifications (as AbiSpec.v, for the target) *)

Definition decls_layout_wf_t (d : decls) : Prop :=
  forall tbl, layout_decls_t (d_structs d) [] = Some tbl ->
  forall n l, lookup n tbl = Some l -> slayout_wf l.

Definition abi_agree_t (r c : decls) : Prop :=
  exists tr tc,
    layout_decls_t (d_structs r) [] = Some tr
    /\ layout_decls_t (d_structs c) [] = Some tc
    /\ Forall (struct_agree tr tc) (d_structs r)
    /\ Forall (fun_agree c) (d_funs r)
    /\ Forall (var_agree c) (d_vars r).

(* ------------------------------------------------------------------ well-formed layouts *)

Hypothesis Htg : target_ok tg = true.

Lemma pow2b_small : forall a, pow2b a = true -> pow2_small a.
Proof. unfold pow2b, pow2_small; simpl; intros. lia. Qed.

Lemma target_ok_parts : pow2_small (t_ptr tg) /\ pow2_small (t_a8 tg) /\ pow2_small (t_a16 tg).
Proof.
  unfold target_ok in Htg. apply andb_true_iff in Htg. destruct Htg as [H12 H3].
  apply andb_true_iff in H12. destruct H12 as [H1 H2].
  repeat split; now apply pow2b_small.
Qed.

Lemma scalar_align_pow2 : forall s, pow2_small s -> pow2_small (scalar_align s).
Proof.
  intros s Hs. unfold scalar_align. destruct target_ok_parts as (_ & P8 & P16).
  destruct (s =? 8); [exact P8|]. destruct (s =? 16); [exact P16|exact Hs].
Qed.

Lemma size_align_t_pow2 : forall tbl t s a, tbl_ok tbl -> size_align_t tbl t = Some (s, a) -> pow2_small a.
Proof.
  intros tbl t; induction t; intros s a Hok H; cbn [size_align_t] in H; try discriminate.
  - inversion H; subst. unfold pow2_small; simpl; auto.
  - destruct (int_size_ok sz) eqn:E; inversion H; subst. apply scalar_align_pow2. now apply int_size_ok_pow2.
  - destruct (flt_size_ok sz) eqn:E; inversion H; subst. apply scalar_align_pow2. now apply flt_size_ok_pow2.
  - inversion H; subst. apply target_ok_parts.
  - destruct (size_align_t tbl t) as [[s' a']|] eqn:E; inversion H; subst. eapply IHt; eauto.
  - destruct (lookup name tbl) eqn:E; inversion H; subst. apply (Hok _ _ E).
  - inversion H; subst. apply target_ok_parts.
Qed.

Lemma layout_fields_t_struct : forall tbl, tbl_ok tbl ->
  forall fs off al fl e al',
  pow2_small al ->
  layout_fields_t tbl false fs off al = Some (fl, e, al') ->
  pow2_small al' /\ (al | al') /\ chain off fl /\ chain_end off fl = e /\ off <= e
  /\ Forall (fwf al' e) fl.
Proof.
  intros tbl Hok fs; induction fs as [|[n t] r IH]; intros off al fl e al' Hal H; cbn [layout_fields_t] in H.
  - inversion H; subst. cbn. repeat split; auto; try lia. apply N.divide_refl.
  - destruct (size_align_t tbl t) as [[sz a]|] eqn:Esa; [|discriminate].
    assert (Ha : pow2_small a) by (eapply size_align_t_pow2; eauto).
    destruct (layout_fields_t tbl false r (round_up off a + sz) (N.max al a)) as [[[fl0 e0] al0]|] eqn:Er;
      [|discriminate].
    inversion H; subst; clear H.
    destruct (IH _ _ _ _ _ (pow2_small_max _ _ Hal Ha) Er) as (P1 & P2 & P3 & P4 & P5 & P6).
    destruct (round_up_spec off a (pow2_small_pos _ Ha)) as (R1 & R2 & R3).
    split; [exact P1|]. split.
    { apply N.divide_trans with (N.max al a); [apply pow2_small_divide_max_l; assumption|exact P2]. }
    split.
    { cbn [chain fl_off fl_align fl_size]. auto. }
    split; [exact P4|]. split; [lia|].
    constructor; auto. unfold fwf; cbn [fl_off fl_align fl_size].
    split; [exact Ha|]. split.
    { apply N.divide_trans with (N.max al a); [apply pow2_small_divide_max_r; assumption|exact P2]. }
    split; [exact R3|exact P5].
Qed.

Lemma layout_fields_t_union : forall tbl, tbl_ok tbl ->
  forall fs off al fl e al',
  pow2_small al ->
  layout_fields_t tbl true fs off al = Some (fl, e, al') ->
  pow2_small al' /\ (al | al') /\ off <= e
  /\ Forall (fun f => fl_off f = 0) fl /\ Forall (fwf al' e) fl.
Proof.
  intros tbl Hok fs; induction fs as [|[n t] r IH]; intros off al fl e al' Hal H; cbn [layout_fields_t] in H.
  - inversion H; subst. repeat split; auto; try lia. apply N.divide_refl.
  - destruct (size_align_t tbl t) as [[sz a]|] eqn:Esa; [|discriminate].
    assert (Ha : pow2_small a) by (eapply size_align_t_pow2; eauto).
    destruct (layout_fields_t tbl true r (N.max off sz) (N.max al a)) as [[[fl0 e0] al0]|] eqn:Er;
      [|discriminate].
    inversion H; subst; clear H.
    destruct (IH _ _ _ _ _ (pow2_small_max _ _ Hal Ha) Er) as (P1 & P2 & P3 & P4 & P5).
    split; [exact P1|]. split.
    { apply N.divide_trans with (N.max al a); [apply pow2_small_divide_max_l; assumption|exact P2]. }
    split; [lia|]. split; [constructor; auto|].
    constructor; auto. unfold fwf; cbn [fl_off fl_align fl_size].
    split; [exact Ha|]. split.
    { apply N.divide_trans with (N.max al a); [apply pow2_small_divide_max_r; assumption|exact P2]. }
    split.
    { apply N.mod_0_l. apply N.neq_0_lt_0, pow2_small_pos; auto. }
    lia.
Qed.

Lemma layout_struct_t_wf : forall tbl s l, tbl_ok tbl -> layout_struct_t tbl s = Some l -> slayout_wf l.
Proof.
  intros tbl s l Hok H. unfold layout_struct_t in H.
  destruct (layout_fields_t tbl (s_union s) (s_fields s) 0 1) as [[[fl e] al]|] eqn:E; [|discriminate].
  inversion H; subst; clear H.
  destruct (s_union s) eqn:U.
  - destruct (layout_fields_t_union tbl Hok _ _ _ _ _ _ pow2_small_1 E) as (P1 & P2 & P3 & P4 & P5).
    destruct (round_up_spec e al (pow2_small_pos _ P1)) as (R1 & R2 & R3).
    unfold slayout_wf; cbn [sl_union sl_size sl_align sl_fields]. repeat split; auto; try discriminate.
    eapply Forall_impl; [|exact P5]. intros f Hf. unfold field_wf; cbn [sl_size sl_align].
    unfold fwf in Hf. intuition lia.
  - destruct (layout_fields_t_struct tbl Hok _ _ _ _ _ _ pow2_small_1 E) as (P1 & P2 & P3 & P4 & P5 & P6).
    destruct (round_up_spec e al (pow2_small_pos _ P1)) as (R1 & R2 & R3).
    unfold slayout_wf; cbn [sl_union sl_size sl_align sl_fields]. repeat split; auto; try discriminate; try lia.
    eapply Forall_impl; [|exact P6]. intros f Hf. unfold field_wf; cbn [sl_size sl_align].
    unfold fwf in Hf. intuition lia.
Qed.

Lemma layout_decls_t_ok : forall ds tbl tbl', tbl_ok tbl -> layout_decls_t ds tbl = Some tbl' -> tbl_ok tbl'.
Proof.
  induction ds as [|s r IH]; intros tbl tbl' Hok H; cbn [layout_decls_t] in H.
  - inversion H; subst; auto.
  - destruct (lookup (s_name s) tbl); [discriminate|].
    destruct (layout_struct_t tbl s) as [l|] eqn:E; [|discriminate].
    eapply IH; [|exact H]. apply tbl_ok_cons; auto. eapply layout_struct_t_wf; eauto.
Qed.

Theorem decls_layout_wf_t_all : forall d, decls_layout_wf_t d.
Proof.
  intros d tbl H. exact (layout_decls_t_ok _ _ _ tbl_ok_nil H).
Qed.

(* ------------------------------------------------------------------ soundness of the reflection *)

Theorem abi_compatible_t_sound : forall r c, abi_compatible_t r c = true -> abi_agree_t r c.
Proof.
  unfold abi_compatible_t, abi_mismatches_t, abi_agree_t; intros r c H.
  destruct (layout_decls_t (d_structs r) []) as [tr|]; [|discriminate].
  destruct (layout_decls_t (d_structs c) []) as [tc|]; [|discriminate].
  exists tr, tc. split; [reflexivity|]. split; [reflexivity|].
  match type of H with match ?l with _ => _ end = _ => destruct l eqn:E; [|discriminate] end.
  apply app_eq_nil in E; destruct E as [E1 E]. apply app_eq_nil in E; destruct E as [E2 E3].
  split; [|split].
  - eapply Forall_impl; [|apply (flat_map_nil _ _ E1)]. apply struct_mm_nil.
  - eapply Forall_impl; [|apply (flat_map_nil _ _ E2)]. apply fun_mm_nil.
  - eapply Forall_impl; [|apply (flat_map_nil _ _ E3)]. apply var_mm_nil.
Qed.

(* ------------------------------------------------------------------ consequences *)

Theorem field_rw_agree_t : forall r c, abi_compatible_t r c = true ->
  forall tr tc, layout_decls_t (d_structs r) [] = Some tr -> layout_decls_t (d_structs c) [] = Some tc ->
  forall s lr lc, In s (d_structs r) ->
    lookup (s_name s) tr = Some lr -> lookup (mirror (s_name s)) tc = Some lc ->
  forall i fr fc, nth_error (sl_fields lr) i = Some fr -> nth_error (sl_fields lc) i = Some fc ->
  forall (img : image) (bs : list N), nlen bs = fl_size fr ->
    read (write img (fl_off fr) bs) (fl_off fc) (fl_size fc) = bs
    /\ read (write img (fl_off fc) bs) (fl_off fr) (fl_size fr) = bs
    /\ (sl_union lr = false ->
        forall j frj fcj, j <> i ->
          nth_error (sl_fields lr) j = Some frj -> nth_error (sl_fields lc) j = Some fcj ->
          read (write img (fl_off fr) bs) (fl_off fcj) (fl_size fcj) = read img (fl_off fcj) (fl_size fcj)
          /\ read (write img (fl_off fc) bs) (fl_off frj) (fl_size frj) = read img (fl_off frj) (fl_size frj)).
Proof.
  intros r c Hc tr tc Htr Htc s lr lc Hs Hlr Hlc i fr fc Hi Hic img bs Hbs.
  destruct (abi_compatible_t_sound _ _ Hc) as (tr' & tc' & E1 & E2 & Fs & _ & _).
  rewrite Htr in E1; inversion E1; subst tr'. rewrite Htc in E2; inversion E2; subst tc'.
  rewrite Forall_forall in Fs. destruct (Fs _ Hs) as (lr' & L1 & L2).
  rewrite Hlr in L1; inversion L1; subst lr'. rewrite Hlc in L2.
  destruct L2 as (_ & _ & _ & _ & F2).
  destruct (Forall2_nth_error _ _ _ _ _ _ F2 Hi Hic) as (_ & A2 & A3 & _).
  rewrite <- A2, <- A3, <- Hbs.
  split; [apply read_write_same|]. split; [apply read_write_same|].
  intros U j frj fcj Hji Hj Hjc.
  destruct (Forall2_nth_error _ _ _ _ _ _ F2 Hj Hjc) as (_ & B2 & B3 & _).
  rewrite <- B2, <- B3.
  assert (W : slayout_wf lr) by (eapply (decls_layout_wf_t_all r); eauto).
  destruct W as (_ & _ & _ & W & _). destruct (W U) as (Ch & _).
  assert (D : fl_off frj + fl_size frj <= fl_off fr \/ fl_off fr + nlen bs <= fl_off frj).
  { destruct (Nat.lt_ge_cases j i) as [Hlt|Hge].
    - left. eapply chain_disjoint; eauto.
    - right. rewrite Hbs. eapply (chain_disjoint _ _ i j); eauto. lia. }
  split; apply read_write_other; exact D.
Qed.

Lemma compat_size_align_t : forall tr tc, tables_agree tr tc ->
  forall r c x y, compat r c = true ->
  size_align_t tr r = Some x -> size_align_t tc c = Some y -> x = y.
Proof.
  intros tr tc Hag; induction r; intros c x y H Hr Hc; destruct c; cbn [compat] in H; try discriminate;
    cbn [size_align_t] in Hr, Hc; try discriminate.
  - congruence.
  - apply andb_true_iff in H. destruct H as [H _]. apply N.eqb_eq in H. subst.
    destruct (int_size_ok sz0); congruence.
  - apply N.eqb_eq in H. subst. destruct (flt_size_ok sz0); congruence.
  - congruence.
  - apply andb_true_iff in H. destruct H as [H1 H2]. apply N.eqb_eq in H2. subst.
    destruct (size_align_t tr r) as [[s1 a1]|] eqn:E1; [|discriminate].
    destruct (size_align_t tc c) as [[s2 a2]|] eqn:E2; [|discriminate].
    specialize (IHr _ _ _ H1 eq_refl E2). inversion IHr; subst. congruence.
  - apply String.eqb_eq in H. subst.
    destruct (lookup name tr) as [lr|] eqn:E1; [|discriminate].
    destruct (lookup (mirror name) tc) as [lc|] eqn:E2; [|discriminate].
    destruct (Hag _ _ _ E1 E2) as [A B]. inversion Hr; inversion Hc; subst. now rewrite A, B.
  - congruence.
Qed.

End WithTarget.

(* ------------------------------------------------------------------ the host model is the instance [lp64] *)

Lemma scalar_align_lp64 : forall s, int_size_ok s = true \/ flt_size_ok s = true -> scalar_align lp64 s = s.
Proof.
  intros s H. unfold scalar_align, lp64; cbn [t_a8 t_a16].
  destruct (s =? 8) eqn:E8; [apply N.eqb_eq in E8; congruence|].
  destruct (s =? 16) eqn:E16; [apply N.eqb_eq in E16; congruence|reflexivity].
Qed.

Lemma size_align_lp64 : forall tbl t, size_align_t lp64 tbl t = size_align tbl t.
Proof.
  intros tbl t; induction t; cbn [size_align_t size_align]; auto.
  - destruct (int_size_ok sz) eqn:E; [|reflexivity]. rewrite scalar_align_lp64; auto.
  - destruct (flt_size_ok sz) eqn:E; [|reflexivity]. rewrite scalar_align_lp64; auto.
  - rewrite IHt. reflexivity.
Qed.

Lemma layout_fields_lp64 : forall tbl u fs off al, layout_fields_t lp64 tbl u fs off al = layout_fields tbl u fs off al.
Proof.
  intros tbl u fs; induction fs as [|[n t] r IH]; intros off al; cbn [layout_fields_t layout_fields]; auto.
  rewrite size_align_lp64. destruct (size_align tbl t) as [[sz a]|]; [|reflexivity].
  cbv zeta. rewrite IH. reflexivity.
Qed.

Lemma layout_struct_lp64 : forall tbl s, layout_struct_t lp64 tbl s = layout_struct tbl s.
Proof. intros. unfold layout_struct_t, layout_struct. now rewrite layout_fields_lp64. Qed.

Lemma layout_decls_lp64 : forall ds tbl, layout_decls_t lp64 ds tbl = layout_decls ds tbl.
Proof.
  induction ds as [|s r IH]; intros tbl; cbn [layout_decls_t layout_decls]; auto.
  destruct (lookup (s_name s) tbl); [reflexivity|]. rewrite layout_struct_lp64.
  destruct (layout_struct tbl s); [apply IH|reflexivity].
Qed.

Theorem abi_mismatches_lp64 : forall r c, abi_mismatches_t lp64 r c = abi_mismatches r c.
Proof. intros. unfold abi_mismatches_t, abi_mismatches. now rewrite !layout_decls_lp64. Qed.

Theorem abi_compatible_lp64 : forall r c, abi_compatible_t lp64 r c = abi_compatible r c.
Proof. intros. unfold abi_compatible_t, abi_compatible. now rewrite abi_mismatches_lp64. Qed.

(* ------------------------------------------------------------------ the rule differs where it should *)

Definition ex_t_decl : decls :=
  {| d_structs := [ {| s_name := "s"; s_union := false;
                       s_fields := [("c", Int 1 Unsigned); ("d", Flt 8); ("p", Ptr Void); ("n", Int 4 Signed)] |} ];
     d_funs := []; d_vars := [] |}.

Example ex_t_lp64 : dump_decls_t lp64 ex_t_decl = ["S s struct 32 8 4"; "F s 0 c 0 1 1"; "F s 1 d 8 8 8"; "F s 2 p 16 8 8"; "F s 3 n 24 4 4"].
Proof. vm_compute. reflexivity. Qed.
Example ex_t_i386 : dump_decls_t ilp32_a4 ex_t_decl = ["S s struct 20 4 4"; "F s 0 c 0 1 1"; "F s 1 d 4 8 4"; "F s 2 p 12 4 4"; "F s 3 n 16 4 4"].
Proof. vm_compute. reflexivity. Qed.
Example ex_t_arm : dump_decls_t ilp32_a8 ex_t_decl = ["S s struct 24 8 4"; "F s 0 c 0 1 1"; "F s 1 d 8 8 8"; "F s 2 p 16 4 4"; "F s 3 n 20 4 4"].
Proof. vm_compute. reflexivity. Qed.
