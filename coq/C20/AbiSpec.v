(* C20 - what the theorems say (Prop-level specifications; no proofs in this file). *)

From Coq Require Import NArith List String Bool.
From LibaV Require Import C20.AbiDefs.
Import ListNotations.
Local Open Scope string_scope.
Local Open Scope list_scope.
Local Open Scope N_scope.

(* ------------------------------------------------------------------ well-formed layouts *)

Definition pow2_small (a : N) : Prop := In a [1; 2; 4; 8; 16].

(* struct members from first free byte [lo]: each member starts at or after the end of the previous
   one, at a multiple of its alignment, and at the FIRST such multiple (tight) *)
Fixpoint chain (lo : N) (fs : list flayout) : Prop :=
  match fs with
  | [] => True
  | f :: r =>
      lo <= fl_off f /\ fl_off f < lo + fl_align f /\ fl_off f mod fl_align f = 0
      /\ chain (fl_off f + fl_size f) r
  end.

Fixpoint chain_end (lo : N) (fs : list flayout) : N :=
  match fs with
  | [] => lo
  | f :: r => chain_end (fl_off f + fl_size f) r
  end.

Definition field_wf (l : slayout) (f : flayout) : Prop :=
  pow2_small (fl_align f) /\ (fl_align f | sl_align l) /\ fl_off f mod fl_align f = 0
  /\ fl_off f + fl_size f <= sl_size l.

Definition slayout_wf (l : slayout) : Prop :=
  pow2_small (sl_align l)
  /\ sl_size l mod sl_align l = 0
  /\ Forall (field_wf l) (sl_fields l)
  /\ (sl_union l = false ->
        chain 0 (sl_fields l)
        /\ chain_end 0 (sl_fields l) <= sl_size l
        /\ sl_size l < chain_end 0 (sl_fields l) + sl_align l)
  /\ (sl_union l = true -> Forall (fun f => fl_off f = 0) (sl_fields l)).

(* every record of a declaration list that can be laid out at all is laid out well *)
Definition decls_layout_wf (d : decls) : Prop :=
  forall tbl, layout_decls (d_structs d) [] = Some tbl ->
  forall n l, lookup n tbl = Some l -> slayout_wf l.

(* ------------------------------------------------------------------ agreement of two declaration lists *)

Definition field_agree (fr fc : flayout) : Prop :=
  name_compat (fl_name fr) (fl_name fc) = true
  /\ fl_off fr = fl_off fc
  /\ fl_size fr = fl_size fc
  /\ fl_align fr = fl_align fc
  /\ compat (fl_ty fr) (fl_ty fc) = true
  /\ class_of (fl_ty fr) = class_of (fl_ty fc).

Definition struct_agree (tr tc : ltable) (s : sdecl) : Prop :=
  exists lr, lookup (s_name s) tr = Some lr /\
  match lookup (mirror (s_name s)) tc with
  | None => In (s_name s) rust_only
  | Some lc =>
      sl_union lr = sl_union lc
      /\ sl_size lr = sl_size lc
      /\ sl_align lr = sl_align lc
      /\ List.length (sl_fields lr) = List.length (sl_fields lc)
      /\ Forall2 field_agree (sl_fields lr) (sl_fields lc)
  end.

Definition ty_agree (r c : cty) : Prop := compat r c = true /\ class_of r = class_of c.

Definition fun_agree (c : decls) (f : fdecl) : Prop :=
  exists g, In g (d_funs c) /\ f_name g = f_name f
            /\ List.length (f_params f) = List.length (f_params g)
            /\ Forall2 ty_agree (f_params f) (f_params g)
            /\ ty_agree (f_ret f) (f_ret g).

Definition var_agree (c : decls) (v : vdecl) : Prop :=
  exists w, In w (d_vars c) /\ v_name w = v_name v /\ ty_agree (v_ty v) (v_ty w).

Definition abi_agree (r c : decls) : Prop :=
  exists tr tc,
    layout_decls (d_structs r) [] = Some tr
    /\ layout_decls (d_structs c) [] = Some tc
    /\ Forall (struct_agree tr tc) (d_structs r)
    /\ Forall (fun_agree c) (d_funs r)
    /\ Forall (var_agree c) (d_vars r).
