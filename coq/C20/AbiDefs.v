(* C20 - Rust mirror ABI (src/lib.rs vs include/a/*.h): executable model.  NO proofs in this file.

   What is modelled
   ----------------
   * [cty]: the machine-level type language both declaration lists are rendered in by
     harness/C20/abi2coq.py (C side: clang JSON AST of the current headers; Rust side: a
     purpose-built parser of the current src/lib.rs).
   * [size_align], [layout_fields], [layout_struct], [layout_decls]: the C struct/union layout rule
     of the x86-64 SysV ABI (which `#[repr(C)]` promises to follow): each member at the next
     multiple of its alignment, struct alignment = max member alignment, size rounded up to the
     alignment; unions: every member at 0, size = max rounded up.  Pointers are 8/8.
   * [compat]: the compatibility relation between a Rust-side type and a C-side type
     (written down once, here; a reader must agree with it - see DESIGN.md C20).
   * [abi_mismatches] : the list of concrete disagreements between the two declaration lists, and
     [abi_compatible r c] := "that list is empty".  The diagnostics the check prints and the
     boolean the reflection theorem is about are therefore the same computation.
   * [dump_table]: canonical text of a layout table, compared line by line with what gcc / clang /
     rustc print for the same declarations. *)

From Coq Require Import NArith List String Bool Ascii DecimalString.
Import ListNotations.
Local Open Scope string_scope.
Local Open Scope list_scope.
Local Open Scope N_scope.

(* ------------------------------------------------------------------ types *)

Inductive sgn := Signed | Unsigned | PlainChar.   (* PlainChar: C `char`, implementation-defined signedness *)

Inductive cty : Type :=
| Void
| Bool                                   (* C _Bool / Rust bool *)
| Int (sz : N) (sg : sgn)
| Flt (sz : N)
| Ptr (t : cty)                          (* object pointer, Rust raw pointer or reference *)
| Arr (t : cty) (n : N)
| Rec (name : string)                    (* struct/union by value, by the name on its own side *)
| FnPtr (ps : list cty) (ret : cty)
| Unsupported (why : string).            (* bit-field, packed/aligned attribute, variadic, ... : never compatible *)

Record sdecl := { s_name : string; s_union : bool; s_fields : list (string * cty) }.
Record fdecl := { f_name : string; f_params : list cty; f_ret : cty }.
Record vdecl := { v_name : string; v_ty : cty }.
Record decls := { d_structs : list sdecl; d_funs : list fdecl; d_vars : list vdecl }.

(* ------------------------------------------------------------------ layout *)

Record flayout := { fl_name : string; fl_ty : cty; fl_off : N; fl_size : N; fl_align : N }.
Record slayout := { sl_union : bool; sl_size : N; sl_align : N; sl_fields : list flayout }.
Definition ltable := list (string * slayout).

Fixpoint lookup {A} (k : string) (l : list (string * A)) : option A :=
  match l with
  | [] => None
  | (k', v) :: r => if String.eqb k k' then Some v else lookup k r
  end.

Definition ptr_size : N := 8.

Definition int_size_ok (s : N) : bool := (s =? 1) || (s =? 2) || (s =? 4) || (s =? 8) || (s =? 16).
Definition flt_size_ok (s : N) : bool := (s =? 4) || (s =? 8) || (s =? 16).

(* (size, alignment) of a complete object type; None = incomplete / unsupported / unknown record *)
Fixpoint size_align (tbl : ltable) (t : cty) : option (N * N) :=
  match t with
  | Void => None
  | Bool => Some (1, 1)
  | Int s _ => if int_size_ok s then Some (s, s) else None
  | Flt s => if flt_size_ok s then Some (s, s) else None
  | Ptr _ => Some (ptr_size, ptr_size)
  | FnPtr _ _ => Some (ptr_size, ptr_size)
  | Arr e n => match size_align tbl e with
               | Some (s, a) => Some (n * s, a)
               | None => None
               end
  | Rec name => match lookup name tbl with
                | Some l => Some (sl_size l, sl_align l)
                | None => None
                end
  | Unsupported _ => None
  end.

(* next multiple of a at or above x  (a > 0) *)
Definition round_up (x a : N) : N := ((x + a - 1) / a) * a.

(* off: first free byte (struct) / largest member size so far (union); al: alignment so far *)
Fixpoint layout_fields (tbl : ltable) (union : bool) (fs : list (string * cty)) (off al : N)
  : option (list flayout * N * N) :=
  match fs with
  | [] => Some ([], off, al)
  | (n, t) :: r =>
      match size_align tbl t with
      | None => None
      | Some (sz, a) =>
          let o := if union then 0 else round_up off a in
          let next := if union then N.max off sz else o + sz in
          match layout_fields tbl union r next (N.max al a) with
          | None => None
          | Some (fl, e, al') =>
              Some ({| fl_name := n; fl_ty := t; fl_off := o; fl_size := sz; fl_align := a |} :: fl, e, al')
          end
      end
  end.

Definition layout_struct (tbl : ltable) (s : sdecl) : option slayout :=
  match layout_fields tbl (s_union s) (s_fields s) 0 1 with
  | None => None
  | Some (fl, e, al) =>
      Some {| sl_union := s_union s; sl_size := round_up e al; sl_align := al; sl_fields := fl |}
  end.

(* records are laid out in declaration order; a by-value member must name an EARLIER record
   (C: complete type; the Rust list is emitted in dependency order by the translator);
   a duplicate name is an error *)
Fixpoint layout_decls (ds : list sdecl) (tbl : ltable) : option ltable :=
  match ds with
  | [] => Some tbl
  | s :: r =>
      match lookup (s_name s) tbl with
      | Some _ => None
      | None =>
          match layout_struct tbl s with
          | None => None
          | Some l => layout_decls r ((s_name s, l) :: tbl)
          end
      end
  end.

(* ------------------------------------------------------------------ compatibility *)

(* name of the C record a Rust mirror stands for *)
Definition mirror (rust_name : string) : string := ("a_" ++ rust_name)%string.

(* repr(C) structs of lib.rs that are NOT mirrors of a C record (they exist on the Rust side only;
   the C functions they are used with take pointers to their members).  A Rust repr(C) struct with
   no C record `a_<name>` must be listed here, otherwise it is a mismatch. *)
Definition rust_only : list string := ["crc8"; "crc16"; "crc32"; "crc64"].

Fixpoint mem_str (s : string) (l : list string) : bool :=
  match l with [] => false | x :: r => String.eqb s x || mem_str s r end.

Definition sgn_compat (r c : sgn) : bool :=
  match r, c with
  | Signed, Signed => true
  | Unsigned, Unsigned => true
  | PlainChar, PlainChar => true
  | Signed, PlainChar => true      (* Rust i8 for C char *)
  | Unsigned, PlainChar => true    (* Rust u8 for C char *)
  | _, _ => false
  end.

Definition is_void (t : cty) : bool := match t with Void => true | _ => false end.

(* r: Rust-side type, c: C-side type *)
Fixpoint compat (r c : cty) {struct r} : bool :=
  match r, c with
  | Void, Void => true
  | Bool, Bool => true
  | Int s1 g1, Int s2 g2 => (s1 =? s2) && sgn_compat g1 g2
  | Flt s1, Flt s2 => s1 =? s2
  | Ptr a, Ptr b =>
      (* void* on either side is a wildcard; a pointer to an array is a pointer to its first element *)
      is_void a || is_void b || compat a b
      || match a with Arr a' _ => compat a' b | _ => false end
  | Arr a n, Arr b m => compat a b && (n =? m)
  | Rec n1, Rec n2 => String.eqb (mirror n1) n2
  | FnPtr ps1 r1, FnPtr ps2 r2 =>
      (fix compat_list (l1 l2 : list cty) {struct l1} : bool :=
         match l1, l2 with
         | [], [] => true
         | x :: l1', y :: l2' => compat x y && compat_list l1' l2'
         | _, _ => false
         end) ps1 ps2 && compat r1 r2
  | _, _ => false
  end.

Fixpoint compat_list (l1 l2 : list cty) : bool :=
  match l1, l2 with
  | [], [] => true
  | x :: l1', y :: l2' => compat x y && compat_list l1' l2'
  | _, _ => false
  end.

(* machine class of a type: what the calling convention / a field access depends on *)
Inductive mclass :=
| KVoid | KBool | KInt (sz : N) | KFlt (sz : N) | KPtr | KFnPtr | KArr (k : mclass) (n : N) | KRec | KNone.

Fixpoint class_of (t : cty) : mclass :=
  match t with
  | Void => KVoid | Bool => KBool | Int s _ => KInt s | Flt s => KFlt s
  | Ptr _ => KPtr | FnPtr _ _ => KFnPtr | Arr e n => KArr (class_of e) n | Rec _ => KRec
  | Unsupported _ => KNone
  end.

(* field names: equal, or the C name is the Rust name with a trailing underscore (alpha / alpha_) *)
Definition name_compat (r c : string) : bool := String.eqb r c || String.eqb (r ++ "_")%string c.

(* ------------------------------------------------------------------ mismatches *)

Inductive mismatch :=
| MM_layout_rust                          (* the Rust declaration list cannot be laid out *)
| MM_layout_c
| MM_struct_lost (s : string)             (* internal: struct missing from its own table *)
| MM_no_mirror (s : string)               (* no C record a_<s> and s not in rust_only *)
| MM_kind (s : string)                    (* struct vs union *)
| MM_size (s : string) (r c : N)
| MM_align (s : string) (r c : N)
| MM_nfields (s : string) (r c : N)
| MM_field_name (s : string) (i : N) (r c : string)
| MM_field_off (s : string) (i : N) (f : string) (r c : N)
| MM_field_size (s : string) (i : N) (f : string) (r c : N)
| MM_field_align (s : string) (i : N) (f : string) (r c : N)
| MM_field_ty (s : string) (i : N) (f : string) (r c : cty)
| MM_fn_missing (f : string)
| MM_arity (f : string) (r c : N)
| MM_param (f : string) (i : N) (r c : cty)
| MM_ret (f : string) (r c : cty)
| MM_var_missing (v : string)
| MM_var_ty (v : string) (r c : cty).

Definition chk (b : bool) (m : mismatch) : list mismatch := if b then [] else [m].

Definition field_mm (s : string) (i : N) (fr fc : flayout) : list mismatch :=
  chk (name_compat (fl_name fr) (fl_name fc)) (MM_field_name s i (fl_name fr) (fl_name fc))
  ++ chk (fl_off fr =? fl_off fc) (MM_field_off s i (fl_name fr) (fl_off fr) (fl_off fc))
  ++ chk (fl_size fr =? fl_size fc) (MM_field_size s i (fl_name fr) (fl_size fr) (fl_size fc))
  ++ chk (fl_align fr =? fl_align fc) (MM_field_align s i (fl_name fr) (fl_align fr) (fl_align fc))
  ++ chk (compat (fl_ty fr) (fl_ty fc)) (MM_field_ty s i (fl_name fr) (fl_ty fr) (fl_ty fc)).

Fixpoint fields_mm (s : string) (i : N) (lr lc : list flayout) : list mismatch :=
  match lr, lc with
  | fr :: lr', fc :: lc' => field_mm s i fr fc ++ fields_mm s (i + 1) lr' lc'
  | _, _ => []
  end.

Definition nlen {A} (l : list A) : N := N.of_nat (List.length l).

Definition struct_mm (tr tc : ltable) (s : sdecl) : list mismatch :=
  let n := s_name s in
  match lookup n tr with
  | None => [MM_struct_lost n]
  | Some lr =>
      match lookup (mirror n) tc with
      | None => chk (mem_str n rust_only) (MM_no_mirror n)
      | Some lc =>
          chk (Bool.eqb (sl_union lr) (sl_union lc)) (MM_kind n)
          ++ chk (sl_size lr =? sl_size lc) (MM_size n (sl_size lr) (sl_size lc))
          ++ chk (sl_align lr =? sl_align lc) (MM_align n (sl_align lr) (sl_align lc))
          ++ chk (nlen (sl_fields lr) =? nlen (sl_fields lc)) (MM_nfields n (nlen (sl_fields lr)) (nlen (sl_fields lc)))
          ++ fields_mm n 0 (sl_fields lr) (sl_fields lc)
      end
  end.

Fixpoint find_fun (n : string) (l : list fdecl) : option fdecl :=
  match l with
  | [] => None
  | g :: r => if String.eqb n (f_name g) then Some g else find_fun n r
  end.

Fixpoint find_var (n : string) (l : list vdecl) : option vdecl :=
  match l with
  | [] => None
  | g :: r => if String.eqb n (v_name g) then Some g else find_var n r
  end.

Fixpoint params_mm (f : string) (i : N) (pr pc : list cty) : list mismatch :=
  match pr, pc with
  | x :: pr', y :: pc' => chk (compat x y) (MM_param f i x y) ++ params_mm f (i + 1) pr' pc'
  | _, _ => []
  end.

Definition fun_mm (c : decls) (f : fdecl) : list mismatch :=
  match find_fun (f_name f) (d_funs c) with
  | None => [MM_fn_missing (f_name f)]
  | Some g =>
      chk (nlen (f_params f) =? nlen (f_params g)) (MM_arity (f_name f) (nlen (f_params f)) (nlen (f_params g)))
      ++ params_mm (f_name f) 0 (f_params f) (f_params g)
      ++ chk (compat (f_ret f) (f_ret g)) (MM_ret (f_name f) (f_ret f) (f_ret g))
  end.

Definition var_mm (c : decls) (v : vdecl) : list mismatch :=
  match find_var (v_name v) (d_vars c) with
  | None => [MM_var_missing (v_name v)]
  | Some w => chk (compat (v_ty v) (v_ty w)) (MM_var_ty (v_name v) (v_ty v) (v_ty w))
  end.

Definition abi_mismatches (r c : decls) : list mismatch :=
  match layout_decls (d_structs r) [] with
  | None => [MM_layout_rust]
  | Some tr =>
      match layout_decls (d_structs c) [] with
      | None => [MM_layout_c]
      | Some tc =>
          flat_map (struct_mm tr tc) (d_structs r)
          ++ flat_map (fun_mm c) (d_funs r)
          ++ flat_map (var_mm c) (d_vars r)
      end
  end.

Definition abi_compatible (r c : decls) : bool :=
  match abi_mismatches r c with [] => true | _ => false end.

(* ------------------------------------------------------------------ byte images *)

(* Memory as seen through a pointer to a struct value: byte at (address - base).  The two sides of
   the boundary exchange struct values only through such pointers. *)
Definition image := N -> N.

(* the [len] bytes at offset [off] *)
Definition read (img : image) (off len : N) : list N :=
  map (fun k => img (off + N.of_nat k)) (seq 0 (N.to_nat len)).

(* store the bytes [bs] at offset [off] *)
Definition write (img : image) (off : N) (bs : list N) : image :=
  fun a => if (off <=? a) && (a <? off + nlen bs)
           then nth (N.to_nat (a - off)) bs 0
           else img a.

(* ------------------------------------------------------------------ canonical dump *)

Definition dec (n : N) : string := NilZero.string_of_uint (N.to_uint n).

Fixpoint dump_fields (s : string) (i : N) (l : list flayout) : list string :=
  match l with
  | [] => []
  | f :: r =>
      ("F " ++ s ++ " " ++ dec i ++ " " ++ fl_name f ++ " " ++ dec (fl_off f) ++ " " ++ dec (fl_size f)
            ++ " " ++ dec (fl_align f))%string :: dump_fields s (i + 1) r
  end.

Definition dump_struct (n : string) (l : slayout) : list string :=
  ("S " ++ n ++ " " ++ (if sl_union l then "union" else "struct") ++ " " ++ dec (sl_size l) ++ " "
        ++ dec (sl_align l) ++ " " ++ dec (nlen (sl_fields l)))%string
    :: dump_fields n 0 (sl_fields l).

(* in declaration order (the table is built by consing) *)
Definition dump_table (t : ltable) : list string :=
  flat_map (fun p => dump_struct (fst p) (snd p)) (rev t).

Definition dump_decls (d : decls) : list string :=
  match layout_decls (d_structs d) [] with
  | None => ["LAYOUT-FAILED"]
  | Some t => dump_table t
  end.
