(* C15: forward error bound of Horner's rule in the standard model of floating-point arithmetic (Common/RoundOps.v).

   The SAME Gallina term poly_eval (the one a_poly_eval_ is tied to bit for bit at F64_ops) is instantiated at
   Rnd_ops rnd (every multiplication and addition followed by rnd) and compared with its value at R_ops (exact), for
   EVERY coefficient count n+1 >= 1 and every x, by induction on the coefficient list:

     | poly_eval (Rnd_ops rnd) c x - poly_eval R_ops c x |
          <=  ((1+eps)^(2n) - 1) * sum_i |c_i| |x|^i   +   2 eta (1+eps)^(2n) * (1 + |x| + ... + |x|^(n-1))

   and (1+eps)^(2n) - 1 <= gamma_(2n) = 2n eps / (1 - 2n eps) when 2n eps < 1: Higham's classical bound
   (Accuracy and Stability of Numerical Algorithms, section 5.1) plus the explicit underflow term.
   Overflow is outside the model (see RoundOps.v / RoundFlocq.v).  No hypothesis on c or x (they need not be
   representable), none on rnd beyond std_model. *)
From Coq Require Import Reals ZArith List Lra Lia.
From LibaV Require Import Common.NumOps Common.ROps Common.RoundOps Common.RoundFlocq C15.PolyDefs C15.PolyProofs.
Import ListNotations.
Local Open Scope R_scope.

(* sum_i |c_i| |x|^i, as an explicit sum *)
Definition abs_poly (c : list R) (x : R) : R :=
  fold_right Rplus 0 (map (fun i => Rabs (nth i c 0) * Rabs x ^ i) (seq 0 (length c))).

Lemma abs_poly_pval c x : abs_poly c x = pval (map Rabs c) (Rabs x).
Proof.
  rewrite pval_sum, map_length. unfold abs_poly. f_equal. apply map_ext. intros i.
  rewrite <- (map_nth Rabs c 0 i), Rabs_R0. reflexivity.
Qed.
Lemma pval_abs_nonneg c x : 0 <= pval (map Rabs c) (Rabs x).
Proof.
  induction c as [|a t IH]; cbn [map pval]; [lra|].
  pose proof (Rabs_pos a). pose proof (Rabs_pos x). pose proof (Rmult_le_pos _ _ H0 IH). lra.
Qed.
Lemma pval_app l b x : pval (l ++ [b]) x = pval l x + x ^ (length l) * b.
Proof. induction l as [|c l IHl]; cbn [app pval length pow]; [ring|]. rewrite IHl. ring. Qed.

Lemma fold_left_map_l {A B C : Type} (f : A -> C -> A) (g : B -> C) (l : list B) :
  forall a, fold_left (fun s v => f s (g v)) l a = fold_left f (map g l) a.
Proof. induction l as [|h t IH]; intros a; cbn [fold_left map]; [reflexivity|apply IH]. Qed.

(* the recursion of the coefficient of eta: b -> b |x| + 2 *)
Lemma eta_fold (X : R) (t : list R) : forall b,
  fold_left (fun s (_ : R) => s * X + 2) t b = b * X ^ (length t) + 2 * geo X (length t).
Proof.
  induction t as [|c t IH]; intros b; cbn [fold_left length].
  - unfold geo. simpl. ring.
  - rewrite IH, geo_S_r. cbn [pow]. ring.
Qed.

Section Horner.
  Variable rnd : R -> R.
  Variables eps eta : R.
  Hypothesis M : std_model rnd eps eta.
  Local Notation P k := ((1 + eps) ^ k).

  (* one Horner step  y := rnd (rnd (y * x) + c)  against  y * x + c *)
  Lemma horner_step (x yh y c a b : R) (k : nat) :
    Rabs y <= a -> 0 <= b ->
    Rabs (yh - y) <= (P k - 1) * a + eta * P k * b ->
    Rabs (rnd (rnd (yh * x) + c) - (y * x + c))
      <= (P (k + 2) - 1) * (a * Rabs x + Rabs c) + eta * P (k + 2) * (b * Rabs x + 2).
  Proof.
    intros Hy Hb HD.
    pose proof (eps_ge0 _ _ _ M) as Hu. pose proof (eta_ge0 _ _ _ M) as Ht. pose proof (p1_ge1 _ _ _ M k) as HP.
    rewrite (pow_add (1 + eps) k 2). replace (P 2) with ((1 + eps) * (1 + eps)) by (simpl; ring).
    pose proof (Rabs_pos x) as HX. pose proof (Rabs_pos c) as HC. pose proof (Rabs_pos y) as Hy0. pose proof (Rabs_pos (yh - y)) as HD0.
    set (X := Rabs x) in *. set (C := Rabs c) in *. set (D := Rabs (yh - y)) in *. set (p := P k) in *.
    (* first rounding *)
    pose proof (rnd_step _ _ _ M (yh * x) (y * x)) as H1.
    replace (yh * x - y * x) with ((yh - y) * x) in H1 by ring. rewrite !Rabs_mult in H1. fold X D in H1.
    assert (HyX : Rabs y * X <= a * X) by (apply Rmult_le_compat_r; lra).
    set (m := rnd (yh * x)) in *.
    (* second rounding *)
    pose proof (rnd_step _ _ _ M (m + c) (y * x + c)) as H2.
    replace (m + c - (y * x + c)) with (m - y * x) in H2 by ring.
    assert (Hyc : Rabs (y * x + c) <= a * X + C).
    { eapply Rle_trans; [apply Rabs_triang|]. rewrite Rabs_mult. fold X C. lra. }
    set (M1 := Rabs (m - y * x)) in *. set (Res := Rabs (rnd (m + c) - (y * x + c))) in *.
    assert (HDX : D * X <= ((p - 1) * a + eta * p * b) * X) by (apply Rmult_le_compat_r; lra).
    assert (B1 : M1 <= (1 + eps) * (((p - 1) * a + eta * p * b) * X) + eps * (a * X) + eta).
    { assert ((1 + eps) * (D * X) <= (1 + eps) * (((p - 1) * a + eta * p * b) * X)) by (apply Rmult_le_compat_l; lra).
      assert (eps * (Rabs y * X) <= eps * (a * X)) by (apply Rmult_le_compat_l; lra). lra. }
    assert (B2 : (1 + eps) * M1 <= (1 + eps) * ((1 + eps) * (((p - 1) * a + eta * p * b) * X) + eps * (a * X) + eta))
      by (apply Rmult_le_compat_l; lra).
    assert (B3 : eps * Rabs (y * x + c) <= eps * (a * X + C)) by (apply Rmult_le_compat_l; lra).
    assert (A1 : 0 <= p * ((1 + eps) * (1 + eps)) - 1 - eps) by nra.
    assert (A2 : 0 <= (p * ((1 + eps) * (1 + eps)) - 1 - eps) * C) by (apply Rmult_le_pos; lra).
    assert (A3 : 0 <= 2 * (p * ((1 + eps) * (1 + eps))) - 2 - eps) by nra.
    assert (A4 : 0 <= eta * (2 * (p * ((1 + eps) * (1 + eps))) - 2 - eps)) by (apply Rmult_le_pos; lra).
    lra.
  Qed.

  Lemma horner_fold_err (x : R) (t : list R) : forall (yh y a b : R) (k : nat),
    Rabs y <= a -> 0 <= b ->
    Rabs (yh - y) <= (P k - 1) * a + eta * P k * b ->
    Rabs (fold_left (fun y ci => rnd (rnd (y * x) + ci)) t yh - fold_left (fun y ci => y * x + ci) t y)
      <= (P (k + 2 * length t) - 1) * fold_left (fun s ci => s * Rabs x + Rabs ci) t a
         + eta * P (k + 2 * length t) * fold_left (fun s (_ : R) => s * Rabs x + 2) t b.
  Proof.
    induction t as [|c t IH]; intros yh y a b k Hy Hb HD; cbn [fold_left length].
    - rewrite Nat.mul_0_r, Nat.add_0_r. exact HD.
    - replace (k + 2 * S (length t))%nat with ((k + 2) + 2 * length t)%nat by lia.
      apply IH.
      + eapply Rle_trans; [apply Rabs_triang|]. rewrite Rabs_mult.
        pose proof (Rabs_pos x). assert (Rabs y * Rabs x <= a * Rabs x) by (apply Rmult_le_compat_r; lra). lra.
      + pose proof (Rabs_pos x). pose proof (Rmult_le_pos _ _ Hb H). lra.
      + apply horner_step; assumption.
  Qed.

  (* the value of the fold started at the leading coefficient h *)
  Lemma horner_round (x h : R) (t : list R) :
    let n := length t in
    Rabs (fold_left (fun y ci => rnd (rnd (y * x) + ci)) t h - pval (rev t ++ [h]) x)
      <= (P (2 * n) - 1) * pval (map Rabs (rev t ++ [h])) (Rabs x) + 2 * eta * P (2 * n) * geo (Rabs x) n.
  Proof.
    intros n. pose proof (horner_fold_err x t h h (Rabs h) 0 0 (Rle_refl _) (Rle_refl _)) as H.
    rewrite Nat.add_0_l in H.
    assert (E0 : Rabs (h - h) <= (P 0 - 1) * Rabs h + eta * P 0 * 0).
    { rewrite Rminus_diag_eq, Rabs_R0 by reflexivity. simpl. lra. }
    specialize (H E0). rewrite horner_fold in H. rewrite eta_fold in H.
    rewrite (fold_left_map_l (fun s v => s * Rabs x + v) Rabs t), horner_fold in H.
    rewrite pval_app, rev_length. rewrite map_app. cbn [map]. rewrite pval_app, map_length, rev_length, map_rev.
    rewrite map_length in H. fold n in H |- *. lra.
  Qed.

  (* ------------------------------------------------------------------ a_poly_eval_ / a_poly_evar_ / the wrappers *)
  Theorem poly_eval_round (c : list R) (x : R) : c <> [] ->
    let n := (length c - 1)%nat in
    exists vr, poly_eval (Rnd_ops rnd) c x = Some vr /\ poly_eval R_ops c x = Some (pval c x) /\
      Rabs (vr - pval c x) <= (P (2 * n) - 1) * abs_poly c x + 2 * eta * P (2 * n) * geo (Rabs x) n.
  Proof.
    intros Hc n. rewrite poly_eval_spec by exact Hc. unfold poly_eval.
    destruct (rev c) as [|h t] eqn:E.
    - exfalso. apply Hc. rewrite <- (rev_involutive c), E. reflexivity.
    - assert (Ec : c = rev t ++ [h]) by (rewrite <- (rev_involutive c), E; reflexivity).
      assert (En : n = length t).
      { unfold n. rewrite Ec, app_length, rev_length. simpl. lia. }
      eexists. split; [reflexivity|]. split; [reflexivity|].
      unfold_rops. rewrite abs_poly_pval, En, Ec. apply horner_round.
  Qed.

  Theorem poly_evar_rev {T} (O : NumOps T) (c : list T) (x : T) : poly_evar O c x = poly_eval O (rev c) x.
  Proof. unfold poly_evar, poly_eval. rewrite rev_involutive. reflexivity. Qed.

  Theorem poly_evar_round (c : list R) (x : R) : c <> [] ->
    let n := (length c - 1)%nat in
    exists vr, poly_evar (Rnd_ops rnd) c x = Some vr /\ poly_evar R_ops c x = Some (pval (rev c) x) /\
      Rabs (vr - pval (rev c) x) <= (P (2 * n) - 1) * abs_poly (rev c) x + 2 * eta * P (2 * n) * geo (Rabs x) n.
  Proof.
    intros Hc n. rewrite !poly_evar_rev. unfold n. rewrite <- (rev_length c). apply poly_eval_round.
    intros E. apply Hc. rewrite <- (rev_involutive c), E. reflexivity.
  Qed.

  (* the public wrappers, every coefficient count including 0 (both instances return 0 there) *)
  Theorem poly_wrappers_round (c : list R) (x : R) :
    let n := (length c - 1)%nat in
    Rabs (poly_eval_w (Rnd_ops rnd) c x - poly_eval_w R_ops c x)
      <= (P (2 * n) - 1) * abs_poly c x + 2 * eta * P (2 * n) * geo (Rabs x) n /\
    Rabs (poly_evar_w (Rnd_ops rnd) c x - poly_evar_w R_ops c x)
      <= (P (2 * n) - 1) * abs_poly (rev c) x + 2 * eta * P (2 * n) * geo (Rabs x) n.
  Proof.
    intros n. destruct c as [|a t].
    - unfold poly_eval_w, poly_evar_w. unfold_rops. rewrite (rnd_0 _ _ _ M).
      rewrite Rminus_diag_eq, Rabs_R0 by reflexivity. unfold abs_poly, geo. simpl. lra.
    - assert (Hc : a :: t <> []) by discriminate. split.
      + destruct (poly_eval_round (a :: t) x Hc) as (vr & E1 & E2 & B).
        unfold poly_eval_w. rewrite E1, E2. exact B.
      + destruct (poly_evar_round (a :: t) x Hc) as (vr & E1 & E2 & B).
        unfold poly_evar_w. rewrite E1, E2. exact B.
  Qed.

  (* the same with Higham's constant gamma_(2n), 2 n eps < 1 *)
  Theorem poly_eval_round_gamma (c : list R) (x : R) : c <> [] ->
    let n := (length c - 1)%nat in
    INR (2 * n) * eps < 1 ->
    exists vr, poly_eval (Rnd_ops rnd) c x = Some vr /\ poly_eval R_ops c x = Some (pval c x) /\
      Rabs (vr - pval c x) <= gamma eps (2 * n) * abs_poly c x + 2 * eta * (1 + gamma eps (2 * n)) * geo (Rabs x) n.
  Proof.
    intros Hc n Hg. destruct (poly_eval_round c x Hc) as (vr & E1 & E2 & B). fold n in B.
    exists vr. split; [exact E1|]. split; [exact E2|].
    pose proof (p1_le_gamma _ _ _ M (2 * n) Hg) as G.
    assert (S0 : 0 <= abs_poly c x) by (rewrite abs_poly_pval; apply pval_abs_nonneg).
    assert (G0 : 0 <= geo (Rabs x) n) by (apply geo_nonneg, Rabs_pos).
    pose proof (eta_ge0 _ _ _ M) as Ht.
    assert ((P (2 * n) - 1) * abs_poly c x <= gamma eps (2 * n) * abs_poly c x) by (apply Rmult_le_compat_r; lra).
    assert (0 <= eta * geo (Rabs x) n) by (apply Rmult_le_pos; lra).
    assert (P (2 * n) * (eta * geo (Rabs x) n) <= (1 + gamma eps (2 * n)) * (eta * geo (Rabs x) n)) by (apply Rmult_le_compat_r; lra).
    lra.
  Qed.
End Horner.

(* non-vacuity 1: the identity rounding (eps = eta = 0) is a model; the bound is then 0 and the two instances agree *)
Example horner_round_id : forall c x, c <> [] -> poly_eval (Rnd_ops (fun v => v)) c x = poly_eval R_ops c x.
Proof.
  intros c x Hc. destruct (poly_eval_round _ _ _ std_model_id c x Hc) as (vr & E1 & E2 & B).
  rewrite E1, E2. f_equal.
  replace (1 + 0) with 1 in B by ring. rewrite pow1 in B.
  assert (Rabs (vr - pval c x) <= 0) by lra.
  pose proof (Rabs_pos (vr - pval c x)). assert (Z : Rabs (vr - pval c x) = 0) by lra.
  destruct (Req_dec (vr - pval c x) 0) as [E|E]; [lra|]. apply Rabs_no_R0 in E. lra.
Qed.
(* non-vacuity 2: a rounding that is NOT exact.  The simplest genuinely inexact model is rnd v = v * (1 + 1/8):
   eps = 1/8, eta = 0.  The computed value of
   2 + 3 x at x = 1 is ((3 * 9/8) + 2) * 9/8 = 387/64 instead of 5, inside the bound ((9/8)^2 - 1) * 5 = 85/64. *)
Example horner_round_scale :
  poly_eval (Rnd_ops (fun v => v * (1 + / 8))) [2; 3] 1 = Some (387 / 64) /\ poly_eval R_ops [2; 3] 1 = Some 5 /\
  Rabs (387 / 64 - 5) <= ((1 + / 8) ^ 2 - 1) * abs_poly [2; 3] 1 + 2 * 0 * (1 + / 8) ^ 2 * geo (Rabs 1) 1.
Proof.
  split; [|split].
  - unfold poly_eval. cbn [rev app fold_left]. unfold_rops. f_equal. field.
  - unfold poly_eval. cbn [rev app fold_left]. unfold_ops. f_equal. ring.
  - unfold abs_poly, geo. cbn [length seq map fold_right nth pow]. rewrite !Rabs_pos_eq by lra. lra.
Qed.

(* ------------------------------------------------------------------ IEEE binary64 (Flocq): eps = 2^-53, eta = 2^-1075 *)
Theorem poly_eval_round_binary64 (c : list R) (x : R) : c <> [] ->
  let n := (length c - 1)%nat in
  exists vr, poly_eval (Rnd_ops rnd64) c x = Some vr /\ poly_eval R_ops c x = Some (pval c x) /\
    Rabs (vr - pval c x) <= ((1 + eps64) ^ (2 * n) - 1) * abs_poly c x + 2 * eta64 * (1 + eps64) ^ (2 * n) * geo (Rabs x) n /\
    (INR (2 * n) * eps64 < 1 ->
     Rabs (vr - pval c x) <= gamma eps64 (2 * n) * abs_poly c x + 2 * eta64 * (1 + gamma eps64 (2 * n)) * geo (Rabs x) n).
Proof.
  intros Hc n. destruct (poly_eval_round _ _ _ std_model_binary64 c x Hc) as (vr & E1 & E2 & B).
  exists vr. split; [exact E1|]. split; [exact E2|]. split; [exact B|].
  intros Hg. destruct (poly_eval_round_gamma _ _ _ std_model_binary64 c x Hc Hg) as (vr' & E1' & _ & B').
  rewrite E1 in E1'. injection E1' as <-. exact B'.
Qed.
(* a cubic at x = 1/2: 6 eps64 < 1, so the gamma form applies *)
Example poly_eval_round_binary64_ex :
  exists vr, poly_eval (Rnd_ops rnd64) [1; 2; 3; 4] (/ 2) = Some vr /\
    Rabs (vr - pval [1; 2; 3; 4] (/ 2)) <= gamma eps64 6 * abs_poly [1; 2; 3; 4] (/ 2) + 2 * eta64 * (1 + gamma eps64 6) * geo (Rabs (/ 2)) 3.
Proof.
  destruct (poly_eval_round_binary64 [1; 2; 3; 4] (/ 2)) as (vr & E1 & _ & _ & B); [discriminate|].
  exists vr. split; [exact E1|]. apply B. rewrite eps64_val. simpl. lra.
Qed.
