(* C15: END-TO-END rounding bound of the generated cubic and quintic trajectories (src/trajpoly3.c, src/trajpoly5.c) in
   the standard model of floating-point arithmetic with gradual underflow (Common/RoundOps.v):

     the coefficients are COMPUTED by trajpoly3_gen / trajpoly5_gen with every operation rounded, then the position /
     velocity / acceleration polynomial is EVALUATED at t = ts by Horner's rule with every operation rounded
     (the same Gallina terms a_trajpoly{3,5}_gen/_pos/_vel/_acc are tied to, instantiated at Rnd_ops rnd);
     the result is within an explicit multiple of eps of the requested end value p1 / v1 / a1.

   For EVERY rounding rnd with std_model rnd eps eta, eps <= 2^-20, eta <= 1, every ts <> 0 and all real boundary data:
     cubic    |pos(ts) - p1| <=  20 eps (|p0| + 5|p1-p0| + |ts|(4|v0| + 2|v1|))         + 48  eta E(3,3)   <= 100 eps S + ..
              |vel(ts) - v1| <=  20 eps (8|v0| + 5|v1| + 12|p1-p0|/|ts|)                + 192 eta E(3,2)   <= 240 eps S/|ts| + ..
       with S = |p0| + |p1-p0| + |ts|(|v0|+|v1|)  (and 120 / 240 for the scale |p0| + |p1| + |ts|(|v0|+|v1|)),
       E(n,m) = (1 + 1/|ts|)^n (1 + |ts|)^m (1 + |p1-p0| + |v0| + |v1|);
     quintic  (additional hypothesis rnd 2 = 2, see below)  33 eps (weighted scale) + C eta E5(5,m), i.e.
              1056 eps S5, 3960 eps S5/|ts|, 11880 eps S5/|ts|^2 for position, velocity, acceleration,
              S5 = |p0| + |p1| + |ts|(|v0|+|v1|) + |ts|^2(|a0|+|a1|).
   At t = 0 the outputs are rnd p0, rnd v0 (the stored c0 = p0, c1 = v0 times/plus zeros): exact for format numbers.
   No hypothesis that the data are representable; the constants 1, -2, 3, 2, ... of the formulas are rounded by the model
   (ofZ z = rnd (IZR z)) and that rounding is accounted for (it only costs a larger count), EXCEPT the divisor 2 of
   `half' = rnd (rnd 1 / rnd 2) in the quintic, where rnd 2 = 2 is assumed (true in every binary format; discharged for
   binary64).  Overflow is outside the model (RoundOps.v).  The septic generator is NOT covered here.

   Method: a small calculus `approx xh x k a b' (|x| <= a, |xh - x| <= ((1+eps)^k - 1) a + eta (1+eps)^k b) closed
   under rounded + - * and division by an exact number; a syntax-directed tactic builds the statement for the whole
   program term; then (1) the exact value is p1 by the field identity of PolyProofs, (2) the magnitude a equals the
   weighted scale by a field identity, (3) the underflow coefficient b, a polynomial with non-negative coefficients in
   1/|ts|, |ts| and the data, is dominated monomial by monomial by C E(n,m), (4) (1+eps)^k - 1 <= (k+1) eps. *)
From Coq Require Import Reals ZArith List Lra Lia.
From LibaV Require Import Common.NumOps Common.ROps Common.RoundOps Common.RoundFlocq C15.PolyDefs C15.PolyProofs.
Import ListNotations.
Local Open Scope R_scope.

(* ------------------------------------------------------------------ a calculus of approximations
   approx xh x k a b :  the computed xh stands for the exact x, |x| <= a, and
        |xh - x| <= ((1+eps)^k - 1) a + eta (1+eps)^k b.
   k counts roundings along the longest path, a is the "sum of absolute values" magnitude of the exact expression and b
   the coefficient of the underflow term.  The rules below are closed under rounded +, -, *, and / by an exact number. *)
Section Approx.
  Variable rnd : R -> R.
  Variables eps eta : R.
  Hypothesis M : std_model rnd eps eta.
  Local Notation P k := ((1 + eps) ^ k).

  Definition approx (xh x : R) (k : nat) (a b : R) : Prop :=
    Rabs x <= a /\ 0 <= b /\ Rabs (xh - x) <= (P k - 1) * a + eta * P k * b.

  Lemma ap_exact x : approx x x 0 (Rabs x) 0.
  Proof.
    split; [lra|]. split; [lra|]. rewrite Rminus_diag_eq, Rabs_R0 by reflexivity. simpl. lra.
  Qed.

  Lemma ap_weaken xh x k a b k' a' b' : approx xh x k a b -> (k <= k')%nat -> a <= a' -> b <= b' -> approx xh x k' a' b'.
  Proof.
    intros (Hx & Hb & HD) Hk Ha Hb'.
    pose proof (Rabs_pos x) as Hx0. pose proof (eta_ge0 _ _ _ M) as Ht.
    pose proof (p1_ge1 _ _ _ M k) as Hp. pose proof (p1_mono _ _ _ M k k' Hk) as Hm.
    split; [lra|]. split; [lra|].
    eapply Rle_trans; [exact HD|].
    assert ((P k - 1) * a <= (P k' - 1) * a') by (apply Rmult_le_compat; lra).
    assert (P k * b <= P k' * b') by (apply Rmult_le_compat; lra).
    assert (eta * (P k * b) <= eta * (P k' * b')) by (apply Rmult_le_compat_l; lra).
    lra.
  Qed.

  (* one rounding on top of an unrounded estimate *)
  Lemma ap_rnd vh v k a b : Rabs v <= a -> 0 <= b -> Rabs (vh - v) <= (P k - 1) * a + eta * P k * b ->
    approx (rnd vh) v (S k) a (b + 1).
  Proof.
    intros Hv Hb HD. split; [exact Hv|]. split; [lra|].
    pose proof (rnd_step _ _ _ M vh v) as H. pose proof (eps_ge0 _ _ _ M) as Hu. pose proof (eta_ge0 _ _ _ M) as Ht.
    pose proof (p1_ge1 _ _ _ M k) as Hp. rewrite p1_S. set (p := P k) in *.
    pose proof (Rabs_pos v) as Hv0.
    assert (A1 : (1 + eps) * Rabs (vh - v) <= (1 + eps) * ((p - 1) * a + eta * p * b)) by (apply Rmult_le_compat_l; lra).
    assert (A2 : eps * Rabs v <= eps * a) by (apply Rmult_le_compat_l; lra).
    assert (A3 : 0 <= eta * ((1 + eps) * p - 1)) by (apply Rmult_le_pos; nra).
    nra.
  Qed.

  (* a rounded exact quantity: stored constants, p1 - p0 *)
  Lemma ap_rnd_exact v : approx (rnd v) v 1 (Rabs v) 1.
  Proof.
    split; [lra|]. split; [lra|]. pose proof (rnd_err _ _ _ M v) as H.
    pose proof (eps_ge0 _ _ _ M) as Hu. pose proof (eta_ge0 _ _ _ M) as Ht.
    simpl. nra.
  Qed.

  Lemma ap_add xh x k a b yh y k' a' b' : approx xh x k a b -> approx yh y k' a' b' ->
    approx (rnd (xh + yh)) (x + y) (S (Nat.max k k')) (a + a') (b + b' + 1).
  Proof.
    intros Hx Hy.
    apply (ap_weaken _ _ _ _ _ (Nat.max k k') a b) in Hx; [|apply Nat.le_max_l|lra|lra].
    apply (ap_weaken _ _ _ _ _ (Nat.max k k') a' b') in Hy; [|apply Nat.le_max_r|lra|lra].
    destruct Hx as (Hx & Hb & HDx). destruct Hy as (Hy & Hb' & HDy).
    apply ap_rnd; [eapply Rle_trans; [apply Rabs_triang|lra]|lra|].
    replace (xh + yh - (x + y)) with ((xh - x) + (yh - y)) by ring.
    eapply Rle_trans; [apply Rabs_triang|]. lra.
  Qed.

  Lemma ap_sub xh x k a b yh y k' a' b' : approx xh x k a b -> approx yh y k' a' b' ->
    approx (rnd (xh - yh)) (x - y) (S (Nat.max k k')) (a + a') (b + b' + 1).
  Proof.
    intros Hx Hy.
    apply (ap_weaken _ _ _ _ _ (Nat.max k k') a b) in Hx; [|apply Nat.le_max_l|lra|lra].
    apply (ap_weaken _ _ _ _ _ (Nat.max k k') a' b') in Hy; [|apply Nat.le_max_r|lra|lra].
    destruct Hx as (Hx & Hb & HDx). destruct Hy as (Hy & Hb' & HDy).
    apply ap_rnd; [unfold Rminus; eapply Rle_trans; [apply Rabs_triang|rewrite Rabs_Ropp; lra]|lra|].
    replace (xh - yh - (x - y)) with ((xh - x) + - (yh - y)) by ring.
    eapply Rle_trans; [apply Rabs_triang|]. rewrite Rabs_Ropp. lra.
  Qed.

  Lemma ap_mul xh x k a b yh y k' a' b' : eta <= 1 -> approx xh x k a b -> approx yh y k' a' b' ->
    approx (rnd (xh * yh)) (x * y) (S (k + k')) (a * a') (a * b' + a' * b + b * b' + 1).
  Proof.
    intros Heta1 (Hx & Hb & HDx) (Hy & Hb' & HDy).
    pose proof (Rabs_pos x) as Hx0. pose proof (Rabs_pos y) as Hy0.
    pose proof (eta_ge0 _ _ _ M) as Ht.
    pose proof (p1_ge1 _ _ _ M k) as Hp. pose proof (p1_ge1 _ _ _ M k') as Hq.
    assert (Ha : 0 <= a) by lra. assert (Ha' : 0 <= a') by lra.
    pose proof (Rmult_le_pos _ _ Ha Hb') as N1. pose proof (Rmult_le_pos _ _ Ha' Hb) as N2. pose proof (Rmult_le_pos _ _ Hb Hb') as N3.
    apply ap_rnd.
    - rewrite Rabs_mult. apply Rmult_le_compat; lra.
    - lra.
    - rewrite p1_add. set (p := P k) in *. set (q := P k') in *.
      set (Ex := (p - 1) * a + eta * p * b) in *. set (Ey := (q - 1) * a' + eta * q * b') in *.
      pose proof (Rabs_pos (xh - x)) as Dx0. pose proof (Rabs_pos (yh - y)) as Dy0.
      replace (xh * yh - x * y) with ((xh - x) * (yh - y) + x * (yh - y) + (xh - x) * y) by ring.
      eapply Rle_trans; [apply Rabs_triang|]. eapply Rle_trans; [apply Rplus_le_compat_r, Rabs_triang|].
      rewrite !Rabs_mult.
      assert (B1 : Rabs (xh - x) * Rabs (yh - y) <= Ex * Ey) by (apply Rmult_le_compat; lra).
      assert (B2 : Rabs x * Rabs (yh - y) <= a * Ey) by (apply Rmult_le_compat; lra).
      assert (B3 : Rabs (xh - x) * Rabs y <= Ex * a') by (apply Rmult_le_compat; lra).
      assert (Hid : Ex * Ey + a * Ey + Ex * a'
                    = (p * q - 1) * (a * a') + eta * (p * q) * (a * b' + a' * b + b * b') - (eta * (1 - eta)) * ((p * q) * (b * b')))
        by (unfold Ex, Ey; ring).
      assert (N4 : 0 <= (eta * (1 - eta)) * ((p * q) * (b * b'))).
      { apply Rmult_le_pos; [apply Rmult_le_pos; lra|]. apply Rmult_le_pos; [|lra].
        apply Rmult_le_pos; lra. }
      lra.
  Qed.

  (* division by an exact non-zero number *)
  Lemma ap_div xh x k a b t : approx xh x k a b -> t <> 0 ->
    approx (rnd (xh / t)) (x / t) (S k) (a * / Rabs t) (b * / Rabs t + 1).
  Proof.
    intros (Hx & Hb & HD) Ht0.
    assert (HT : 0 < Rabs t) by (apply Rabs_pos_lt; exact Ht0).
    assert (HU : 0 < / Rabs t) by (apply Rinv_0_lt_compat; exact HT).
    pose proof (Rabs_pos x) as Hx0.
    apply ap_rnd.
    - unfold Rdiv. rewrite Rabs_mult, Rabs_inv. apply Rmult_le_compat_r; lra.
    - apply Rmult_le_pos; lra.
    - replace (xh / t - x / t) with ((xh - x) * / t) by (field; exact Ht0).
      rewrite Rabs_mult, Rabs_inv.
      assert (Rabs (xh - x) * / Rabs t <= ((P k - 1) * a + eta * P k * b) * / Rabs t) by (apply Rmult_le_compat_r; lra).
      lra.
  Qed.

  (* from the power form to a linear constant *)
  Lemma P_lin_aux k : INR k * (INR k + 1) * eps <= 1 -> P k - 1 <= (INR k + 1) * eps.
  Proof.
    intros H. pose proof (p1_gamma_aux _ _ _ M k) as A. pose proof (eps_ge0 _ _ _ M) as Hu.
    pose proof (pos_INR k) as Hk. pose proof (p1_ge1 _ _ _ M k) as Hp.
    assert (Hke : INR k * eps < 1).
    { assert (INR k * eps <= INR k * (INR k + 1) * eps) by nra.
      destruct (Req_dec eps 0) as [->|Hne]; [lra|].
      assert (INR k * eps < INR k * eps + eps) by lra. nra. }
    assert (B : 1 <= (1 + (INR k + 1) * eps) * (1 - INR k * eps)) by nra.
    assert (C : P k * (1 - INR k * eps) <= (1 + (INR k + 1) * eps) * (1 - INR k * eps)) by lra.
    apply Rmult_le_reg_r in C; lra.
  Qed.

  (* multiplication by an exact number (no second error term) *)
  Lemma ap_mul_r xh x k a b y : approx xh x k a b -> approx (rnd (xh * y)) (x * y) (S k) (a * Rabs y) (Rabs y * b + 1).
  Proof.
    intros (Hx & Hb & HD). pose proof (Rabs_pos x) as Hx0. pose proof (Rabs_pos y) as Hy0.
    apply ap_rnd.
    - rewrite Rabs_mult. apply Rmult_le_compat_r; lra.
    - apply Rmult_le_pos; lra.
    - replace (xh * y - x * y) with ((xh - x) * y) by ring. rewrite Rabs_mult.
      assert (Rabs (xh - x) * Rabs y <= ((P k - 1) * a + eta * P k * b) * Rabs y) by (apply Rmult_le_compat_r; lra).
      lra.
  Qed.
  Lemma ap_mul_l x yh y k a b : approx yh y k a b -> approx (rnd (x * yh)) (x * y) (S k) (Rabs x * a) (Rabs x * b + 1).
  Proof.
    intros H. apply (ap_mul_r _ _ _ _ _ x) in H. rewrite (Rmult_comm x yh), (Rmult_comm x y), (Rmult_comm (Rabs x) a). exact H.
  Qed.

  (* integer constants: the magnitude as a literal *)
  Lemma ap_const z : approx (rnd (IZR z)) (IZR z) 1 (IZR (Z.abs z)) 1.
  Proof. rewrite abs_IZR. apply ap_rnd_exact. Qed.

  (* reading off the final bound: exact value x', magnitude A', underflow coefficient B' *)
  Lemma ap_finish vr X k A B x' A' B' K C C2 : approx vr X k A B -> X = x' -> A = A' -> B <= C * B' ->
    INR k * (INR k + 1) * eps <= 1 -> (INR k + 1) * eps <= 1 -> K = INR k + 1 -> C2 = 2 * C ->
    Rabs (vr - x') <= K * eps * A' + C2 * eta * B'.
  Proof.
    intros (Hx & Hb & HD) <- <- HB H1 H2 -> ->. pose proof (P_lin_aux k H1) as HP.
    pose proof (p1_ge1 _ _ _ M k) as Hp. pose proof (eta_ge0 _ _ _ M) as Ht. pose proof (Rabs_pos X) as HX.
    eapply Rle_trans; [exact HD|].
    assert ((P k - 1) * A <= (INR k + 1) * eps * A) by (apply Rmult_le_compat_r; lra).
    assert (P k * B <= 2 * (C * B')) by (apply Rmult_le_compat; lra).
    assert (eta * (P k * B) <= eta * (2 * (C * B'))) by (apply Rmult_le_compat_l; lra).
    lra.
  Qed.
End Approx.

(* syntax-directed construction of the approximation statement of a rounded term *)
Ltac ap_is_exact y :=
  is_var y; lazymatch goal with H : approx _ _ y _ _ _ _ |- _ => fail | _ => idtac end.
Ltac ap_step M Heta1 rnd ts Hts :=
  lazymatch goal with
  | H : approx _ _ ?xh _ _ _ _ |- approx _ _ ?xh _ _ _ _ => exact H
  | |- approx _ _ (rnd (?x - ?y)) _ _ _ _ => eapply (ap_sub _ _ _ M)
  | |- approx _ _ (rnd (?x + ?y)) _ _ _ _ => eapply (ap_add _ _ _ M)
  | |- approx _ _ (rnd (?x * ?y)) _ _ _ _ =>
      tryif ap_is_exact y then eapply (ap_mul_r _ _ _ M)
      else tryif ap_is_exact x then eapply (ap_mul_l _ _ _ M)
      else (eapply (ap_mul _ _ _ M); [exact Heta1| |])
  | |- approx _ _ (rnd (?x / ts)) _ _ _ _ => eapply (ap_div _ _ _ M); [|exact Hts]
  | |- approx _ _ (rnd (IZR ?z)) _ _ _ _ => eapply (ap_const _ _ _ M)
  | |- approx _ _ ?x _ _ _ _ => eapply ap_exact
  end.
Ltac ap_build M Heta1 rnd ts Hts := repeat (ap_step M Heta1 rnd ts Hts).

(* 0 <= polynomial with non-negative coefficients in non-negative variables *)
Ltac pos_poly :=
  repeat first [ assumption | apply Rplus_le_le_0_compat | apply Rmult_le_pos | apply pow_le
               | apply Rle_0_1 | match goal with |- 0 <= IZR _ => lra | |- 0 <= / IZR _ => lra end ].
Ltac poly_le := match goal with |- ?l <= ?r => let D := fresh "D" in assert (D : 0 <= r - l); [ring_simplify; pos_poly|lra] end.
(* the same when the coefficients are fractions: clear the denominators first (no variable occurs in a denominator) *)
Ltac poly_le_frac :=
  match goal with |- ?l <= ?r =>
    let D := fresh "D" in
    assert (D : 0 <= r - l);
    [ match goal with |- 0 <= ?e => field_simplify e end;
      first [ unfold Rdiv; apply Rmult_le_pos; [pos_poly|lra] | pos_poly ]
    | lra ]
  end.

Definition traj3_pos_scale (ts p0 p1 v0 v1 : R) : R := Rabs p0 + 5 * Rabs (p1 - p0) + Rabs ts * (4 * Rabs v0 + 2 * Rabs v1).
Definition traj3_vel_scale (ts p0 p1 v0 v1 : R) : R := 8 * Rabs v0 + 5 * Rabs v1 + 12 * (Rabs (p1 - p0) / Rabs ts).
(* (1 + 1/|ts|)^n (1 + |ts|)^m (1 + |p1 - p0| + |v0| + |v1|): the scale of the underflow term *)
Definition traj3_eta_scale (n m : nat) (ts p0 p1 v0 v1 : R) : R :=
  (1 + / Rabs ts) ^ n * (1 + Rabs ts) ^ m * (1 + Rabs (p1 - p0) + Rabs v0 + Rabs v1).

Section Cubic.
  Variable rnd : R -> R.
  Variables eps eta : R.
  Hypothesis M : std_model rnd eps eta.
  Hypothesis Heps : eps <= / 1048576.
  Hypothesis Heta1 : eta <= 1.
  Variables ts p0 p1 v0 v1 : R.
  Hypothesis Hts : ts <> 0.

  (* goal |t - x'| <= K eps A' + C2 eta B':  build the approximation statement of t, then check the exact value (field
     identity), the magnitude (field identity) and the underflow coefficient (polynomial with non-negative coefficients) *)
  Ltac close3 C :=
    match goal with |- Rabs (?t - _) <= _ =>
      let H := fresh "H" in
      eassert (H : approx eps eta t _ _ _ _) by (ap_build M Heta1 rnd ts Hts);
      cbn [Nat.max Nat.add Z.abs] in H;
      eapply (ap_finish _ _ _ M _ _ _ _ _ _ _ _ _ C _ H);
      [ try reflexivity; field; exact Hts
      | unfold traj3_pos_scale, traj3_vel_scale; field; lra
      | unfold traj3_eta_scale; poly_le
      | simpl; lra | simpl; lra | simpl; lra | lra ]
    end.
  Ltac facts3 :=
    pose proof (eps_ge0 _ _ _ M) as Hu;
    assert (HT : 0 < Rabs ts) by (apply Rabs_pos_lt; exact Hts);
    assert (HU : 0 <= / Rabs ts) by (left; apply Rinv_0_lt_compat; exact HT);
    pose proof (Rabs_pos v0); pose proof (Rabs_pos v1); pose proof (Rabs_pos (p1 - p0)); pose proof (Rabs_pos p0);
    assert (HT0 : 0 <= Rabs ts) by lra;
    assert (Hp : approx eps eta (rnd (p1 - p0)) (p1 - p0) 1 (Rabs (p1 - p0)) 1) by (apply (ap_rnd_exact _ _ _ M));
    set (ph := rnd (p1 - p0)) in *.

  (* the two computed coefficients against the exact ones; c0 = p0 and c1 = v0 are stored without any operation *)
  Theorem traj3_coeff_rounding :
    exists c2h c3h c2 c3,
      trajpoly3_gen (Rnd_ops rnd) ts p0 p1 v0 v1 = [p0; v0; c2h; c3h] /\ trajpoly3_gen R_ops ts p0 p1 v0 v1 = [p0; v0; c2; c3] /\
      Rabs (c2h - c2) <= 11 * eps * ((2 * Rabs v0 + Rabs v1) / Rabs ts + 3 * Rabs (p1 - p0) / Rabs ts ^ 2)
                         + 34 * eta * traj3_eta_scale 2 0 ts p0 p1 v0 v1 /\
      Rabs (c3h - c3) <= 14 * eps * ((Rabs v0 + Rabs v1) / Rabs ts ^ 2 + 2 * Rabs (p1 - p0) / Rabs ts ^ 3)
                         + 48 * eta * traj3_eta_scale 3 0 ts p0 p1 v0 v1.
  Proof.
    unfold trajpoly3_gen. unfold_rops. facts3.
    eexists. eexists. eexists. eexists. split; [reflexivity|]. split; [reflexivity|]. split.
    - close3 17.
    - close3 24.
  Qed.

  Theorem traj3_end_pos_weighted :
    exists vr, traj_pos (Rnd_ops rnd) (trajpoly3_gen (Rnd_ops rnd) ts p0 p1 v0 v1) ts = Some vr /\
      Rabs (vr - p1) <= 20 * eps * traj3_pos_scale ts p0 p1 v0 v1 + 48 * eta * traj3_eta_scale 3 3 ts p0 p1 v0 v1.
  Proof.
    unfold traj_pos, poly_eval, trajpoly3_gen. cbn [rev app fold_left]. unfold_rops. facts3.
    eexists. split; [reflexivity|]. close3 24.
  Qed.

  Theorem traj3_end_vel_weighted :
    exists vr, traj_vel (Rnd_ops rnd) (trajpoly3_gen (Rnd_ops rnd) ts p0 p1 v0 v1) ts = Some vr /\
      Rabs (vr - v1) <= 20 * eps * traj3_vel_scale ts p0 p1 v0 v1 + 192 * eta * traj3_eta_scale 3 2 ts p0 p1 v0 v1.
  Proof.
    unfold traj_vel, poly_eval, c1_of, trajpoly3_gen.
    cbn [rev app fold_left length seq combine map Z.of_nat Pos.of_succ_nat Pos.succ]. unfold_rops. facts3.
    eexists. split; [reflexivity|]. close3 96.
  Qed.
End Cubic.

(* ------------------------------------------------------------------ the statements in terms of one scale of the data *)
(* S = |p0| + |p1 - p0| + |ts| (|v0| + |v1|);  the "natural" scale |p0| + |p1| + |ts| (|v0| + |v1|) dominates S / 2 *)
Definition traj3_S (ts p0 p1 v0 v1 : R) : R := Rabs p0 + Rabs (p1 - p0) + Rabs ts * (Rabs v0 + Rabs v1).
Definition traj3_Snat (ts p0 p1 v0 v1 : R) : R := Rabs p0 + Rabs p1 + Rabs ts * (Rabs v0 + Rabs v1).

Lemma traj3_scales ts p0 p1 v0 v1 : ts <> 0 ->
  traj3_pos_scale ts p0 p1 v0 v1 <= 5 * traj3_S ts p0 p1 v0 v1 /\
  traj3_pos_scale ts p0 p1 v0 v1 <= 6 * traj3_Snat ts p0 p1 v0 v1 /\
  traj3_vel_scale ts p0 p1 v0 v1 <= 12 * (traj3_S ts p0 p1 v0 v1 / Rabs ts) /\
  traj3_vel_scale ts p0 p1 v0 v1 <= 12 * (traj3_Snat ts p0 p1 v0 v1 / Rabs ts).
Proof.
  intros Hts. unfold traj3_pos_scale, traj3_vel_scale, traj3_S, traj3_Snat.
  assert (HT : 0 < Rabs ts) by (apply Rabs_pos_lt; exact Hts).
  assert (HU : 0 < / Rabs ts) by (apply Rinv_0_lt_compat; exact HT).
  pose proof (Rabs_pos v0) as A0. pose proof (Rabs_pos v1) as A1. pose proof (Rabs_pos p0) as Q0. pose proof (Rabs_pos p1) as Q1.
  pose proof (Rabs_pos (p1 - p0)) as Pp.
  assert (Hp : Rabs (p1 - p0) <= Rabs p0 + Rabs p1).
  { unfold Rminus. eapply Rle_trans; [apply Rabs_triang|]. rewrite Rabs_Ropp. lra. }
  pose proof (Rmult_le_pos _ _ (Rlt_le _ _ HT) A0). pose proof (Rmult_le_pos _ _ (Rlt_le _ _ HT) A1).
  assert (E1 : forall x, x / Rabs ts = x * / Rabs ts) by reflexivity.
  assert (E2 : forall a b, (a + Rabs ts * b) / Rabs ts = a * / Rabs ts + b) by (intros; field; lra).
  rewrite !E2, E1.
  pose proof (Rmult_le_pos _ _ Q0 (Rlt_le _ _ HU)). pose proof (Rmult_le_pos _ _ Q1 (Rlt_le _ _ HU)).
  pose proof (Rmult_le_pos _ _ Pp (Rlt_le _ _ HU)).
  assert (Rabs (p1 - p0) * / Rabs ts <= (Rabs p0 + Rabs p1) * / Rabs ts) by (apply Rmult_le_compat_r; lra).
  repeat split; lra.
Qed.

Theorem traj3_end_pos_rounding_bound (rnd : R -> R) (eps eta : R) : std_model rnd eps eta -> eps <= / 1048576 -> eta <= 1 ->
  forall ts p0 p1 v0 v1, ts <> 0 ->
  exists vr, traj_pos (Rnd_ops rnd) (trajpoly3_gen (Rnd_ops rnd) ts p0 p1 v0 v1) ts = Some vr /\
    Rabs (vr - p1) <= 100 * eps * traj3_S ts p0 p1 v0 v1 + 48 * eta * traj3_eta_scale 3 3 ts p0 p1 v0 v1 /\
    Rabs (vr - p1) <= 120 * eps * traj3_Snat ts p0 p1 v0 v1 + 48 * eta * traj3_eta_scale 3 3 ts p0 p1 v0 v1.
Proof.
  intros M He Ht ts p0 p1 v0 v1 Hts.
  destruct (traj3_end_pos_weighted rnd eps eta M He Ht ts p0 p1 v0 v1 Hts) as (vr & E & B).
  exists vr. split; [exact E|]. destruct (traj3_scales ts p0 p1 v0 v1 Hts) as (S1 & S2 & _).
  pose proof (eps_ge0 _ _ _ M) as Hu.
  assert (20 * eps * traj3_pos_scale ts p0 p1 v0 v1 <= 20 * eps * (5 * traj3_S ts p0 p1 v0 v1)) by (apply Rmult_le_compat_l; lra).
  assert (20 * eps * traj3_pos_scale ts p0 p1 v0 v1 <= 20 * eps * (6 * traj3_Snat ts p0 p1 v0 v1)) by (apply Rmult_le_compat_l; lra).
  split; lra.
Qed.

Theorem traj3_end_vel_rounding_bound (rnd : R -> R) (eps eta : R) : std_model rnd eps eta -> eps <= / 1048576 -> eta <= 1 ->
  forall ts p0 p1 v0 v1, ts <> 0 ->
  exists vr, traj_vel (Rnd_ops rnd) (trajpoly3_gen (Rnd_ops rnd) ts p0 p1 v0 v1) ts = Some vr /\
    Rabs (vr - v1) <= 240 * eps * (traj3_S ts p0 p1 v0 v1 / Rabs ts) + 192 * eta * traj3_eta_scale 3 2 ts p0 p1 v0 v1 /\
    Rabs (vr - v1) <= 240 * eps * (traj3_Snat ts p0 p1 v0 v1 / Rabs ts) + 192 * eta * traj3_eta_scale 3 2 ts p0 p1 v0 v1.
Proof.
  intros M He Ht ts p0 p1 v0 v1 Hts.
  destruct (traj3_end_vel_weighted rnd eps eta M He Ht ts p0 p1 v0 v1 Hts) as (vr & E & B).
  exists vr. split; [exact E|]. destruct (traj3_scales ts p0 p1 v0 v1 Hts) as (_ & _ & S1 & S2).
  pose proof (eps_ge0 _ _ _ M) as Hu.
  assert (20 * eps * traj3_vel_scale ts p0 p1 v0 v1 <= 20 * eps * (12 * (traj3_S ts p0 p1 v0 v1 / Rabs ts))) by (apply Rmult_le_compat_l; lra).
  assert (20 * eps * traj3_vel_scale ts p0 p1 v0 v1 <= 20 * eps * (12 * (traj3_Snat ts p0 p1 v0 v1 / Rabs ts))) by (apply Rmult_le_compat_l; lra).
  split; lra.
Qed.

(* position and velocity together: the natural scale, and the sharper weighted scale *)
Theorem traj3_end_rounding_bound (rnd : R -> R) (eps eta : R) : std_model rnd eps eta -> eps <= / 1048576 -> eta <= 1 ->
  forall ts p0 p1 v0 v1, ts <> 0 ->
  let c := trajpoly3_gen (Rnd_ops rnd) ts p0 p1 v0 v1 in
  exists pr vr, traj_pos (Rnd_ops rnd) c ts = Some pr /\ traj_vel (Rnd_ops rnd) c ts = Some vr /\
    Rabs (pr - p1) <= 120 * eps * traj3_Snat ts p0 p1 v0 v1 + 48 * eta * traj3_eta_scale 3 3 ts p0 p1 v0 v1 /\
    Rabs (vr - v1) <= 240 * eps * (traj3_Snat ts p0 p1 v0 v1 / Rabs ts) + 192 * eta * traj3_eta_scale 3 2 ts p0 p1 v0 v1.
Proof.
  intros M He Ht ts p0 p1 v0 v1 Hts c.
  destruct (traj3_end_pos_rounding_bound _ _ _ M He Ht ts p0 p1 v0 v1 Hts) as (pr & E1 & _ & B1).
  destruct (traj3_end_vel_rounding_bound _ _ _ M He Ht ts p0 p1 v0 v1 Hts) as (vr & E2 & _ & B2).
  exists pr, vr. repeat split; assumption.
Qed.

Theorem traj3_end_rounding_weighted (rnd : R -> R) (eps eta : R) : std_model rnd eps eta -> eps <= / 1048576 -> eta <= 1 ->
  forall ts p0 p1 v0 v1, ts <> 0 ->
  let c := trajpoly3_gen (Rnd_ops rnd) ts p0 p1 v0 v1 in
  exists pr vr, traj_pos (Rnd_ops rnd) c ts = Some pr /\ traj_vel (Rnd_ops rnd) c ts = Some vr /\
    Rabs (pr - p1) <= 20 * eps * traj3_pos_scale ts p0 p1 v0 v1 + 48 * eta * traj3_eta_scale 3 3 ts p0 p1 v0 v1 /\
    Rabs (vr - v1) <= 20 * eps * traj3_vel_scale ts p0 p1 v0 v1 + 192 * eta * traj3_eta_scale 3 2 ts p0 p1 v0 v1.
Proof.
  intros M He Ht ts p0 p1 v0 v1 Hts c.
  destruct (traj3_end_pos_weighted _ _ _ M He Ht ts p0 p1 v0 v1 Hts) as (pr & E1 & B1).
  destruct (traj3_end_vel_weighted _ _ _ M He Ht ts p0 p1 v0 v1 Hts) as (vr & E2 & B2).
  exists pr, vr. repeat split; assumption.
Qed.

(* the start of the trajectory: c0 = p0 and c1 = v0 are stored as given, and evaluating at 0 multiplies by 0 and adds 0,
   so the outputs at time 0 are rnd p0 and rnd v0: EXACTLY p0 and v0 whenever these are numbers of the format
   (they are: the C receives them as a_real) *)
Theorem traj3_start_exact (rnd : R -> R) (eps eta : R) : std_model rnd eps eta ->
  forall ts p0 p1 v0 v1,
  let c := trajpoly3_gen (Rnd_ops rnd) ts p0 p1 v0 v1 in
  nth 0 c 0 = p0 /\ nth 1 c 0 = v0 /\
  traj_pos (Rnd_ops rnd) c 0 = Some (rnd p0) /\ traj_vel (Rnd_ops rnd) c 0 = Some (rnd v0) /\
  (rnd p0 = p0 -> traj_pos (Rnd_ops rnd) c 0 = Some p0) /\ (rnd v0 = v0 -> traj_vel (Rnd_ops rnd) c 0 = Some v0).
Proof.
  intros M ts p0 p1 v0 v1 c.
  assert (E1 : traj_pos (Rnd_ops rnd) c 0 = Some (rnd p0)).
  { unfold c, traj_pos, poly_eval, trajpoly3_gen. cbn [rev app fold_left]. unfold_rops. f_equal.
    repeat (rewrite Rmult_0_r || rewrite (rnd_0 _ _ _ M) || rewrite Rplus_0_l). reflexivity. }
  assert (E2 : traj_vel (Rnd_ops rnd) c 0 = Some (rnd v0)).
  { unfold c, traj_vel, poly_eval, c1_of, trajpoly3_gen.
    cbn [rev app fold_left length seq combine map Z.of_nat Pos.of_succ_nat Pos.succ]. unfold_rops. f_equal.
    repeat (rewrite Rmult_0_r || rewrite (rnd_0 _ _ _ M) || rewrite Rplus_0_l). reflexivity. }
  split; [reflexivity|]. split; [reflexivity|]. split; [exact E1|]. split; [exact E2|].
  split; intros <-; assumption.
Qed.

(* ------------------------------------------------------------------ IEEE binary64 (Flocq): eps = 2^-53, eta = 2^-1075 *)
Lemma eps64_small : eps64 <= / 1048576.
Proof. rewrite eps64_val. lra. Qed.
Lemma eta64_le1 : eta64 <= 1.
Proof. unfold eta64. change 1 with (Flocq.Core.Raux.bpow Flocq.Core.Zaux.radix2 0). apply Flocq.Core.Raux.bpow_le. lia. Qed.

Theorem traj3_end_rounding_bound_binary64 : forall ts p0 p1 v0 v1, ts <> 0 ->
  exists pr vr,
    traj_pos (Rnd_ops rnd64) (trajpoly3_gen (Rnd_ops rnd64) ts p0 p1 v0 v1) ts = Some pr /\
    traj_vel (Rnd_ops rnd64) (trajpoly3_gen (Rnd_ops rnd64) ts p0 p1 v0 v1) ts = Some vr /\
    Rabs (pr - p1) <= 120 * eps64 * traj3_Snat ts p0 p1 v0 v1 + 48 * eta64 * traj3_eta_scale 3 3 ts p0 p1 v0 v1 /\
    Rabs (vr - v1) <= 240 * eps64 * (traj3_Snat ts p0 p1 v0 v1 / Rabs ts) + 192 * eta64 * traj3_eta_scale 3 2 ts p0 p1 v0 v1.
Proof.
  intros ts p0 p1 v0 v1 Hts.
  destruct (traj3_end_pos_rounding_bound _ _ _ std_model_binary64 eps64_small eta64_le1 ts p0 p1 v0 v1 Hts) as (pr & E1 & _ & B1).
  destruct (traj3_end_vel_rounding_bound _ _ _ std_model_binary64 eps64_small eta64_le1 ts p0 p1 v0 v1 Hts) as (vr & E2 & _ & B2).
  exists pr, vr. repeat split; assumption.
Qed.

(* ================================================================== quintic *)
Definition traj5_pos_scale (ts p0 p1 v0 v1 a0 a1 : R) : R :=
  Rabs p0 + 31 * Rabs (p1 - p0) + Rabs ts * (18 * Rabs v0 + 14 * Rabs v1) + Rabs ts ^ 2 * (4 * Rabs a0 + 2 * Rabs a1).
Definition traj5_vel_scale (ts p0 p1 v0 v1 a0 a1 : R) : R :=
  66 * Rabs v0 + 55 * Rabs v1 + Rabs ts * (14 * Rabs a0 + 8 * Rabs a1) + 120 * (Rabs (p1 - p0) / Rabs ts).
Definition traj5_acc_scale (ts p0 p1 v0 v1 a0 a1 : R) : R :=
  38 * Rabs a0 + 25 * Rabs a1 + (192 * Rabs v0 + 168 * Rabs v1) / Rabs ts + 360 * (Rabs (p1 - p0) / Rabs ts ^ 2).
Definition traj5_eta_scale (n m : nat) (ts p0 p1 v0 v1 a0 a1 : R) : R :=
  (1 + / Rabs ts) ^ n * (1 + Rabs ts) ^ m * (1 + Rabs (p1 - p0) + Rabs v0 + Rabs v1 + Rabs a0 + Rabs a1).

Section Quintic.
  Variable rnd : R -> R.
  Variables eps eta : R.
  Hypothesis M : std_model rnd eps eta.
  Hypothesis Heps : eps <= / 1048576.
  Hypothesis Heta1 : eta <= 1.
  Hypothesis H2 : rnd 2 = 2.       (* the constant (a_real)(1.0 / 2) of the C is computed with an exact 2 *)
  Variables ts p0 p1 v0 v1 a0 a1 : R.
  Hypothesis Hts : ts <> 0.

  Lemma ap_half : approx eps eta (rnd (rnd 1 / rnd 2)) (1 / 2) 2 (/ 2) (3 / 2).
  Proof.
    rewrite H2. pose proof (ap_div _ _ _ M _ _ _ _ _ 2 (ap_const _ _ _ M 1)) as H.
    rewrite (Rabs_pos_eq 2) in H by lra. cbn [Z.abs] in H.
    replace (1 * / 2) with (/ 2) in H by lra. replace (/ 2 + 1) with (3 / 2) in H by lra. apply H. lra.
  Qed.

  Ltac close5 C :=
    match goal with |- Rabs (?t - _) <= _ =>
      let H := fresh "HA" in
      eassert (H : approx eps eta t _ _ _ _) by (ap_build M Heta1 rnd ts Hts);
      cbn [Nat.max Nat.add Z.abs] in H;
      eapply (ap_finish _ _ _ M _ _ _ _ _ _ _ _ _ C _ H);
      [ try reflexivity; field; exact Hts
      | unfold traj5_pos_scale, traj5_vel_scale, traj5_acc_scale; field; lra
      | unfold traj5_eta_scale; clear H; generalize dependent (/ Rabs ts); intros u; intros; poly_le_frac
      | simpl; lra | simpl; lra | simpl; lra | lra ]
    end.
  Ltac facts5 :=
    pose proof (eps_ge0 _ _ _ M) as Hu;
    assert (HT : 0 < Rabs ts) by (apply Rabs_pos_lt; exact Hts);
    assert (HU : 0 <= / Rabs ts) by (left; apply Rinv_0_lt_compat; exact HT);
    pose proof (Rabs_pos v0); pose proof (Rabs_pos v1); pose proof (Rabs_pos a0); pose proof (Rabs_pos a1);
    pose proof (Rabs_pos (p1 - p0)); pose proof (Rabs_pos p0);
    assert (HT0 : 0 <= Rabs ts) by lra;
    assert (Hp : approx eps eta (rnd (p1 - p0)) (p1 - p0) 1 (Rabs (p1 - p0)) 1) by (apply (ap_rnd_exact _ _ _ M));
    set (ph := rnd (p1 - p0)) in *;
    pose proof ap_half as Hh; set (hf := rnd (rnd 1 / rnd 2)) in *.

  Theorem traj5_end_pos_weighted :
    exists vr, traj_pos (Rnd_ops rnd) (trajpoly5_gen (Rnd_ops rnd) ts p0 p1 v0 v1 a0 a1) ts = Some vr /\
      Rabs (vr - p1) <= 33 * eps * traj5_pos_scale ts p0 p1 v0 v1 a0 a1 + 1664 * eta * traj5_eta_scale 5 5 ts p0 p1 v0 v1 a0 a1.
  Proof.
    unfold traj_pos, poly_eval, trajpoly5_gen, half. cbn [rev app fold_left]. unfold_rops. facts5.
    eexists. split; [reflexivity|]. close5 832.
  Qed.

  Theorem traj5_end_vel_weighted :
    exists vr, traj_vel (Rnd_ops rnd) (trajpoly5_gen (Rnd_ops rnd) ts p0 p1 v0 v1 a0 a1) ts = Some vr /\
      Rabs (vr - v1) <= 33 * eps * traj5_vel_scale ts p0 p1 v0 v1 a0 a1 + 9984 * eta * traj5_eta_scale 5 4 ts p0 p1 v0 v1 a0 a1.
  Proof.
    unfold traj_vel, poly_eval, c1_of, trajpoly5_gen, half.
    cbn [rev app fold_left length seq combine map Z.of_nat Nat.sub Pos.of_succ_nat Pos.succ]. unfold_rops. facts5.
    eexists. split; [reflexivity|]. close5 4992.
  Qed.

  Theorem traj5_end_acc_weighted :
    exists vr, traj_acc (Rnd_ops rnd) (trajpoly5_gen (Rnd_ops rnd) ts p0 p1 v0 v1 a0 a1) ts = Some vr /\
      Rabs (vr - a1) <= 33 * eps * traj5_acc_scale ts p0 p1 v0 v1 a0 a1 + 49920 * eta * traj5_eta_scale 5 3 ts p0 p1 v0 v1 a0 a1.
  Proof.
    unfold traj_acc, poly_eval, c2_of, trajpoly5_gen, half.
    cbn [rev app fold_left length seq combine map Z.of_nat Nat.sub Pos.of_succ_nat Pos.succ]. unfold_rops. facts5.
    eexists. split; [reflexivity|]. close5 24960.
  Qed.
End Quintic.

Definition traj5_Snat (ts p0 p1 v0 v1 a0 a1 : R) : R :=
  Rabs p0 + Rabs p1 + Rabs ts * (Rabs v0 + Rabs v1) + Rabs ts ^ 2 * (Rabs a0 + Rabs a1).

Lemma traj5_scales ts p0 p1 v0 v1 a0 a1 : ts <> 0 ->
  traj5_pos_scale ts p0 p1 v0 v1 a0 a1 <= 32 * traj5_Snat ts p0 p1 v0 v1 a0 a1 /\
  traj5_vel_scale ts p0 p1 v0 v1 a0 a1 <= 120 * (traj5_Snat ts p0 p1 v0 v1 a0 a1 / Rabs ts) /\
  traj5_acc_scale ts p0 p1 v0 v1 a0 a1 <= 360 * (traj5_Snat ts p0 p1 v0 v1 a0 a1 / Rabs ts ^ 2).
Proof.
  intros Hts. unfold traj5_pos_scale, traj5_vel_scale, traj5_acc_scale, traj5_Snat.
  assert (HT : 0 < Rabs ts) by (apply Rabs_pos_lt; exact Hts).
  assert (HU : 0 < / Rabs ts) by (apply Rinv_0_lt_compat; exact HT).
  pose proof (Rabs_pos v0) as V0. pose proof (Rabs_pos v1) as V1. pose proof (Rabs_pos a0) as A0. pose proof (Rabs_pos a1) as A1.
  pose proof (Rabs_pos p0) as Q0. pose proof (Rabs_pos p1) as Q1. pose proof (Rabs_pos (p1 - p0)) as Pp.
  assert (Hp : Rabs (p1 - p0) <= Rabs p0 + Rabs p1).
  { unfold Rminus. eapply Rle_trans; [apply Rabs_triang|]. rewrite Rabs_Ropp. lra. }
  set (T := Rabs ts) in *. set (u := / T) in *.
  assert (HT2 : 0 <= T ^ 2) by (apply pow_le; lra). assert (HU2 : 0 <= u ^ 2) by (apply pow_le; lra).
  replace ((Rabs p0 + Rabs p1 + T * (Rabs v0 + Rabs v1) + T ^ 2 * (Rabs a0 + Rabs a1)) / T)
    with (Rabs p0 * u + Rabs p1 * u + (Rabs v0 + Rabs v1) + T * Rabs a0 + T * Rabs a1) by (unfold u; field; lra).
  replace ((Rabs p0 + Rabs p1 + T * (Rabs v0 + Rabs v1) + T ^ 2 * (Rabs a0 + Rabs a1)) / T ^ 2)
    with (Rabs p0 * u ^ 2 + Rabs p1 * u ^ 2 + Rabs v0 * u + Rabs v1 * u + (Rabs a0 + Rabs a1)) by (unfold u; field; lra).
  replace (Rabs (p1 - p0) / T) with (Rabs (p1 - p0) * u) by reflexivity.
  replace (Rabs (p1 - p0) / T ^ 2) with (Rabs (p1 - p0) * u ^ 2) by (unfold u; field; lra).
  replace ((192 * Rabs v0 + 168 * Rabs v1) / T) with (192 * (Rabs v0 * u) + 168 * (Rabs v1 * u)) by (unfold u; field; lra).
  assert (Rabs (p1 - p0) * u <= (Rabs p0 + Rabs p1) * u) by (apply Rmult_le_compat_r; lra).
  assert (Rabs (p1 - p0) * u ^ 2 <= (Rabs p0 + Rabs p1) * u ^ 2) by (apply Rmult_le_compat_r; lra).
  pose proof (Rmult_le_pos _ _ Q0 (Rlt_le _ _ HU)). pose proof (Rmult_le_pos _ _ Q1 (Rlt_le _ _ HU)).
  pose proof (Rmult_le_pos _ _ Q0 HU2). pose proof (Rmult_le_pos _ _ Q1 HU2).
  pose proof (Rmult_le_pos _ _ V0 (Rlt_le _ _ HU)). pose proof (Rmult_le_pos _ _ V1 (Rlt_le _ _ HU)).
  pose proof (Rmult_le_pos _ _ (Rlt_le _ _ HT) V0). pose proof (Rmult_le_pos _ _ (Rlt_le _ _ HT) V1).
  pose proof (Rmult_le_pos _ _ (Rlt_le _ _ HT) A0). pose proof (Rmult_le_pos _ _ (Rlt_le _ _ HT) A1).
  pose proof (Rmult_le_pos _ _ HT2 A0). pose proof (Rmult_le_pos _ _ HT2 A1).
  repeat split; lra.
Qed.

(* quintic, end values, natural scale.  Hypothesis rnd 2 = 2: the model computes the constant (a_real)(1.0 / 2) as
   rnd (rnd 1 / rnd 2); 2 is a number of every binary format *)
Theorem traj5_end_rounding_bound (rnd : R -> R) (eps eta : R) : std_model rnd eps eta -> eps <= / 1048576 -> eta <= 1 -> rnd 2 = 2 ->
  forall ts p0 p1 v0 v1 a0 a1, ts <> 0 ->
  let c := trajpoly5_gen (Rnd_ops rnd) ts p0 p1 v0 v1 a0 a1 in
  let S := traj5_Snat ts p0 p1 v0 v1 a0 a1 in
  exists pr vr ar, traj_pos (Rnd_ops rnd) c ts = Some pr /\ traj_vel (Rnd_ops rnd) c ts = Some vr /\ traj_acc (Rnd_ops rnd) c ts = Some ar /\
    Rabs (pr - p1) <= 1056 * eps * S + 1664 * eta * traj5_eta_scale 5 5 ts p0 p1 v0 v1 a0 a1 /\
    Rabs (vr - v1) <= 3960 * eps * (S / Rabs ts) + 9984 * eta * traj5_eta_scale 5 4 ts p0 p1 v0 v1 a0 a1 /\
    Rabs (ar - a1) <= 11880 * eps * (S / Rabs ts ^ 2) + 49920 * eta * traj5_eta_scale 5 3 ts p0 p1 v0 v1 a0 a1.
Proof.
  intros M He Ht H2 ts p0 p1 v0 v1 a0 a1 Hts c S.
  destruct (traj5_end_pos_weighted rnd eps eta M He Ht H2 ts p0 p1 v0 v1 a0 a1 Hts) as (pr & E1 & B1).
  destruct (traj5_end_vel_weighted rnd eps eta M He Ht H2 ts p0 p1 v0 v1 a0 a1 Hts) as (vr & E2 & B2).
  destruct (traj5_end_acc_weighted rnd eps eta M He Ht H2 ts p0 p1 v0 v1 a0 a1 Hts) as (ar & E3 & B3).
  exists pr, vr, ar. split; [exact E1|]. split; [exact E2|]. split; [exact E3|].
  destruct (traj5_scales ts p0 p1 v0 v1 a0 a1 Hts) as (S1 & S2 & S3). fold S in S1, S2, S3.
  pose proof (eps_ge0 _ _ _ M) as Hu.
  assert (33 * eps * traj5_pos_scale ts p0 p1 v0 v1 a0 a1 <= 33 * eps * (32 * S)) by (apply Rmult_le_compat_l; lra).
  assert (33 * eps * traj5_vel_scale ts p0 p1 v0 v1 a0 a1 <= 33 * eps * (120 * (S / Rabs ts))) by (apply Rmult_le_compat_l; lra).
  assert (33 * eps * traj5_acc_scale ts p0 p1 v0 v1 a0 a1 <= 33 * eps * (360 * (S / Rabs ts ^ 2))) by (apply Rmult_le_compat_l; lra).
  repeat split; lra.
Qed.

Theorem traj5_end_rounding_bound_binary64 : forall ts p0 p1 v0 v1 a0 a1, ts <> 0 ->
  let c := trajpoly5_gen (Rnd_ops rnd64) ts p0 p1 v0 v1 a0 a1 in
  let S := traj5_Snat ts p0 p1 v0 v1 a0 a1 in
  exists pr vr ar, traj_pos (Rnd_ops rnd64) c ts = Some pr /\ traj_vel (Rnd_ops rnd64) c ts = Some vr /\ traj_acc (Rnd_ops rnd64) c ts = Some ar /\
    Rabs (pr - p1) <= 1056 * eps64 * S + 1664 * eta64 * traj5_eta_scale 5 5 ts p0 p1 v0 v1 a0 a1 /\
    Rabs (vr - v1) <= 3960 * eps64 * (S / Rabs ts) + 9984 * eta64 * traj5_eta_scale 5 4 ts p0 p1 v0 v1 a0 a1 /\
    Rabs (ar - a1) <= 11880 * eps64 * (S / Rabs ts ^ 2) + 49920 * eta64 * traj5_eta_scale 5 3 ts p0 p1 v0 v1 a0 a1.
Proof.
  apply (traj5_end_rounding_bound _ _ _ std_model_binary64 eps64_small eta64_le1). apply (rnd64_IZR 2). simpl. lia.
Qed.

(* ------------------------------------------------------------------ non-vacuity *)
(* 1: the identity rounding is a model (eps = eta = 0): the bound is 0, the computed end values ARE p1 and v1 *)
Example traj3_end_id : forall ts p0 p1 v0 v1, ts <> 0 ->
  traj_pos (Rnd_ops (fun v => v)) (trajpoly3_gen (Rnd_ops (fun v => v)) ts p0 p1 v0 v1) ts = Some p1 /\
  traj_vel (Rnd_ops (fun v => v)) (trajpoly3_gen (Rnd_ops (fun v => v)) ts p0 p1 v0 v1) ts = Some v1.
Proof.
  intros ts p0 p1 v0 v1 Hts.
  assert (Z : forall x y, Rabs (x - y) <= 0 -> x = y).
  { intros x y H. pose proof (Rabs_pos (x - y)). destruct (Req_dec (x - y) 0) as [E|E]; [lra|]. apply Rabs_no_R0 in E. lra. }
  destruct (traj3_end_pos_weighted _ 0 0 std_model_id ltac:(lra) ltac:(lra) ts p0 p1 v0 v1 Hts) as (pr & E1 & B1).
  destruct (traj3_end_vel_weighted _ 0 0 std_model_id ltac:(lra) ltac:(lra) ts p0 p1 v0 v1 Hts) as (vr & E2 & B2).
  rewrite E1, E2. split; f_equal; apply Z; lra.
Qed.

(* 2: a rounding that is NOT exact and satisfies every hypothesis: rnd v = v (1 + 2^-20), eps = 2^-20, eta = 0 *)
Lemma std_model_scale20 : std_model (fun v => v * (1 + / 1048576)) (/ 1048576) 0.
Proof.
  constructor; [|ring|lra|lra].
  intros v. replace (v * (1 + / 1048576) - v) with (v * / 1048576) by ring. rewrite Rabs_mult, (Rabs_pos_eq (/ 1048576)) by lra. lra.
Qed.
Example traj3_end_scale20 : forall ts p0 p1 v0 v1, ts <> 0 ->
  let rnd := fun v => v * (1 + / 1048576) in
  exists pr, traj_pos (Rnd_ops rnd) (trajpoly3_gen (Rnd_ops rnd) ts p0 p1 v0 v1) ts = Some pr /\
    Rabs (pr - p1) <= 100 * / 1048576 * traj3_S ts p0 p1 v0 v1.
Proof.
  intros ts p0 p1 v0 v1 Hts rnd.
  destruct (traj3_end_pos_rounding_bound _ _ _ std_model_scale20 ltac:(lra) ltac:(lra) ts p0 p1 v0 v1 Hts) as (pr & E & B & _).
  exists pr. split; [exact E|]. lra.
Qed.

(* 3: binary64, the trajectory of PolyProofs.traj3_ex (ts = 2, 0 -> 10, v0 = 1, v1 = -1): both end values within 2^-40 *)
Example traj3_end_binary64_ex :
  exists pr vr, traj_pos (Rnd_ops rnd64) (trajpoly3_gen (Rnd_ops rnd64) 2 0 10 1 (-1)) 2 = Some pr /\
                traj_vel (Rnd_ops rnd64) (trajpoly3_gen (Rnd_ops rnd64) 2 0 10 1 (-1)) 2 = Some vr /\
                Rabs (pr - 10) <= / 1099511627776 /\ Rabs (vr - -1) <= / 1099511627776.
Proof.
  destruct (traj3_end_rounding_bound_binary64 2 0 10 1 (-1) ltac:(lra)) as (pr & vr & E1 & E2 & B1 & B2).
  exists pr, vr. split; [exact E1|]. split; [exact E2|].
  unfold traj3_Snat, traj3_eta_scale in B1, B2.
  replace (10 - 0) with 10 in * by ring.
  assert (A0 : Rabs 0 = 0) by apply Rabs_R0. assert (A1 : Rabs 1 = 1) by (apply Rabs_pos_eq; lra).
  assert (A2 : Rabs 2 = 2) by (apply Rabs_pos_eq; lra). assert (A10 : Rabs 10 = 10) by (apply Rabs_pos_eq; lra).
  assert (Am : Rabs (-1) = 1) by (unfold Rabs; destruct Rcase_abs; lra).
  rewrite A0, A1, A2, A10, Am in *.
  assert (Ht : eta64 <= / 1267650600228229401496703205376).
  { unfold eta64. change (/ 1267650600228229401496703205376) with (Flocq.Core.Raux.bpow Flocq.Core.Zaux.radix2 (-100)).
    apply Flocq.Core.Raux.bpow_le. lia. }
  assert (Ht0 : 0 <= eta64) by (apply (eta_ge0 _ _ _ std_model_binary64)).
  rewrite eps64_val in *. cbn [pow] in B1, B2. split; lra.
Qed.
