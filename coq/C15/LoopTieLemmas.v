(* List lemmas used by the all-lengths translator ties of C15 and C16 (harness/C15/TieLoop*.v, harness/C16/TieLoop*.v):
   the cell at a known position of a three-part array, the checked update there (written out, so that the generated
   prelude's `upd` unfolds to it), and that the hand model of a_poly_swap_ is list reversal (the statement of
   C15/PolyProofs.v, proved again here so that the tie does not load the real-number library).
   Nothing here mentions generated code. *)
From Coq Require Import List Arith Lia.
From LibaV Require Import Common.NumOps C15.PolyDefs.
Import ListNotations.

Section Lists.
  Context {T : Type}.

  Lemma nth_error_mid (pre : list T) (v : T) (rest : list T) : nth_error (pre ++ v :: rest) (length pre) = Some v.
  Proof. rewrite nth_error_app2 by lia. rewrite Nat.sub_diag. reflexivity. Qed.

  Lemma nth_error_mid' (pre : list T) (v : T) (rest : list T) (i : nat) : i = length pre -> nth_error (pre ++ v :: rest) i = Some v.
  Proof. intros ->. apply nth_error_mid. Qed.

  (* the body of the checked update m[i] := v at i = length pre *)
  Lemma upd_raw_mid (pre : list T) (v0 v : T) (rest : list T) (i : nat) : i = length pre ->
    (if i <? length (pre ++ v0 :: rest) then Some (firstn i (pre ++ v0 :: rest) ++ v :: skipn (S i) (pre ++ v0 :: rest)) else None)
    = Some (pre ++ v :: rest).
  Proof.
    intros ->. rewrite app_length. cbn [length].
    replace (length pre <? length pre + S (length rest)) with true by (symmetry; apply Nat.ltb_lt; lia).
    rewrite firstn_app, Nat.sub_diag, firstn_all. cbn [firstn]. rewrite app_nil_r.
    replace (S (length pre)) with (length pre + 1) by lia.
    rewrite skipn_app. rewrite skipn_all2 by lia. replace (length pre + 1 - length pre) with 1 by lia. reflexivity.
  Qed.

  (* the cells [off, off + n) replaced: the body of the checked block write *)
  Lemma blit_raw_mid (pre old new post : list T) (i : nat) : i = length pre -> length old = length new ->
    (if i + length new <=? length (pre ++ old ++ post)
     then Some (firstn i (pre ++ old ++ post) ++ new ++ skipn (i + length new) (pre ++ old ++ post)) else None)
    = Some (pre ++ new ++ post).
  Proof.
    intros -> Hl. rewrite !app_length.
    replace (length pre + length new <=? length pre + (length old + length post)) with true by (symmetry; apply Nat.leb_le; lia).
    rewrite firstn_app, Nat.sub_diag, firstn_all. cbn [firstn]. rewrite app_nil_r.
    rewrite skipn_app. rewrite skipn_all2 by lia. cbn [app].
    replace (length pre + length new - length pre) with (length old) by lia.
    rewrite skipn_app, skipn_all, Nat.sub_diag. reflexivity.
  Qed.

  (* the cells [off, off + n) read: the body of the checked block read *)
  Lemma sub_raw_mid (pre mid post : list T) (i n : nat) : i = length pre -> n = length mid ->
    (if i + n <=? length (pre ++ mid ++ post) then Some (firstn n (skipn i (pre ++ mid ++ post))) else None) = Some mid.
  Proof.
    intros -> ->. rewrite !app_length.
    replace (length pre + length mid <=? length pre + (length mid + length post)) with true by (symmetry; apply Nat.leb_le; lia).
    rewrite skipn_app, skipn_all, Nat.sub_diag. cbn [skipn app].
    rewrite firstn_app, Nat.sub_diag, firstn_all. cbn [firstn]. rewrite app_nil_r. reflexivity.
  Qed.

  (* in-place reversal with two cursors is list reversal *)
  Lemma swap_loop_is_rev : forall (fuel : nat) (front back mid : list T),
    length mid <= 2 * fuel -> swap_loop fuel front back mid = rev front ++ rev mid ++ back.
  Proof.
    induction fuel as [|f IH]; intros front back mid Hl.
    - destruct mid; [reflexivity|cbn in Hl; lia].
    - cbn [swap_loop]. destruct mid as [|a rest]; [reflexivity|].
      destruct rest as [|a2 rest']; [reflexivity|].
      destruct (rev (a2 :: rest')) as [|b rmid'] eqn:E.
      + exfalso. apply (f_equal (@length T)) in E. rewrite rev_length in E. cbn in E. lia.
      + assert (E' : a2 :: rest' = rev rmid' ++ [b]).
        { rewrite <- (rev_involutive (a2 :: rest')), E. reflexivity. }
        rewrite IH.
        * rewrite E'. cbn [rev]. rewrite rev_app_distr. cbn [rev app]. rewrite !rev_involutive.
          rewrite <- !app_assoc. cbn [app]. reflexivity.
        * apply (f_equal (@length T)) in E. rewrite rev_length in E. cbn [length] in *. rewrite rev_length. lia.
  Qed.

  Lemma poly_swap_rev (c : list T) : poly_swap c = rev c.
  Proof. unfold poly_swap. rewrite swap_loop_is_rev by lia. cbn [rev app]. rewrite app_nil_r. reflexivity. Qed.
End Lists.
