From Coq Require Import Reals ZArith List Lra Lia.
From Coquelicot Require Import Coquelicot.
From LibaV Require Import Common.NumOps Common.ROps C15.PolyDefs.
Import ListNotations.
Local Open Scope R_scope.

(* the polynomial a coefficient list denotes: c0 + c1 x + c2 x^2 + ... *)
Fixpoint pval (c : list R) (x : R) : R :=
  match c with
  | [] => 0
  | a :: t => a + x * pval t x
  end.

Lemma pval_sum c x : pval c x = fold_right Rplus 0 (map (fun i => nth i c 0 * x ^ i) (seq 0 (length c))).
Proof.
  induction c as [|a t IH]; [reflexivity|].
  cbn [pval length seq map fold_right nth]. rewrite IH. rewrite pow_O, Rmult_1_r. f_equal.
  rewrite <- seq_shift, map_map.
  clear IH. induction (seq 0 (length t)) as [|i l IHl]; cbn [map fold_right]; [ring|].
  rewrite <- IHl. cbn [nth pow]. ring.
Qed.

Lemma horner_fold t h x :
  fold_left (fun y ci => y * x + ci) t h = pval (rev t) x + x ^ (length t) * h.
Proof.
  revert h. induction t as [|a t IH]; intros h; cbn [fold_left rev length pow pval]; [ring|].
  rewrite IH.
  assert (E : forall l b, pval (l ++ [b]) x = pval l x + x ^ (length l) * b).
  { induction l as [|c l IHl]; intros b; cbn [app pval length pow]; [ring|]. rewrite IHl. ring. }
  rewrite E, rev_length. ring.
Qed.

Theorem poly_eval_spec c x : c <> [] -> poly_eval R_ops c x = Some (pval c x).
Proof.
  intros Hc. unfold poly_eval. destruct (rev c) as [|h t] eqn:E.
  - exfalso. apply Hc. rewrite <- (rev_involutive c), E. reflexivity.
  - f_equal. unfold_ops. rewrite horner_fold.
    rewrite <- (rev_involutive c), E. cbn [rev].
    assert (E2 : forall l b, pval (l ++ [b]) x = pval l x + x ^ (length l) * b).
    { induction l as [|a l IHl]; intros b; cbn [app pval length pow]; [ring|]. rewrite IHl. ring. }
    rewrite E2, rev_length. reflexivity.
Qed.

Theorem poly_evar_spec c x : poly_evar R_ops c x = poly_eval R_ops (rev c) x.
Proof. unfold poly_evar, poly_eval. rewrite rev_involutive. reflexivity. Qed.

Theorem poly_eval_empty_undefined {T} (O : NumOps T) x : poly_eval O [] x = None /\ poly_evar O [] x = None.
Proof. split; reflexivity. Qed.

(* in-place reversal *)
Lemma swap_loop_rev {T} : forall (fuel : nat) (front back mid : list T),
  (length mid <= 2 * fuel)%nat -> swap_loop fuel front back mid = rev front ++ rev mid ++ back.
Proof.
  induction fuel as [|f IH]; intros front back mid Hl.
  - destruct mid; [reflexivity|cbn in Hl; lia].
  - cbn [swap_loop]. destruct mid as [|a rest]; [reflexivity|].
    destruct rest as [|a2 rest']; [reflexivity|].
    destruct (rev (a2 :: rest')) as [|b rmid'] eqn:E.
    + exfalso. apply (f_equal (@length T)) in E. rewrite rev_length in E. cbn in E. lia.
    + assert (E' : a2 :: rest' = rev rmid' ++ [b]).
      { rewrite <- (rev_involutive (a2 :: rest')), E. reflexivity. }
      rewrite IH.
      * rewrite E'. cbn [rev]. rewrite rev_app_distr. cbn [rev app]. rewrite !rev_involutive.
        rewrite <- !app_assoc. cbn [app]. reflexivity.
      * apply (f_equal (@length T)) in E. rewrite rev_length in E. cbn [length] in *. rewrite rev_length. lia.
Qed.

Theorem poly_swap_is_rev {T} (c : list T) : poly_swap c = rev c.
Proof. unfold poly_swap. rewrite swap_loop_rev by lia. cbn [rev app]. rewrite app_nil_r. reflexivity. Qed.

Theorem poly_swap_involutive {T} (c : list T) : poly_swap (poly_swap c) = c.
Proof. rewrite !poly_swap_is_rev. apply rev_involutive. Qed.

(* the public wrappers: defined for every length, 0 for the empty polynomial *)
Theorem poly_wrappers_spec c x :
  poly_eval_w R_ops c x = pval c x /\ poly_evar_w R_ops c x = pval (rev c) x /\ poly_swap_w c = rev c.
Proof.
  split; [|split].
  - unfold poly_eval_w. destruct c as [|a t]; [reflexivity|]. rewrite poly_eval_spec by discriminate. reflexivity.
  - unfold poly_evar_w. destruct c as [|a t]; [reflexivity|].
    rewrite poly_evar_spec, poly_eval_spec; [reflexivity|].
    intro E. apply (f_equal (@length R)) in E. rewrite rev_length in E. discriminate.
  - unfold poly_swap_w. destruct c as [|a [|b t]]; try reflexivity. apply poly_swap_is_rev.
Qed.

(* ------------------------------------------------------------------ trajectories *)
Ltac ev := unfold traj_pos, traj_vel, traj_acc, traj_jer, poly_eval, c1_of, c2_of, c3_of,
           trajpoly3_gen, trajpoly5_gen, trajpoly7_gen, half, sixth;
           cbn [rev app fold_left length seq combine map Z.of_nat Nat.sub Pos.of_succ_nat Pos.succ];
           unfold_ops; f_equal.

(* cubic: exact boundary conditions *)
Theorem trajpoly3_boundary ts p0 p1 v0 v1 : ts <> 0 ->
  let c := trajpoly3_gen R_ops ts p0 p1 v0 v1 in
  traj_pos R_ops c 0 = Some p0 /\ traj_vel R_ops c 0 = Some v0 /\
  traj_pos R_ops c ts = Some p1 /\ traj_vel R_ops c ts = Some v1.
Proof. intros H c. unfold c. repeat split; ev; field; exact H. Qed.

Theorem trajpoly5_boundary ts p0 p1 v0 v1 a0 a1 : ts <> 0 ->
  let c := trajpoly5_gen R_ops ts p0 p1 v0 v1 a0 a1 in
  traj_pos R_ops c 0 = Some p0 /\ traj_vel R_ops c 0 = Some v0 /\ traj_acc R_ops c 0 = Some a0 /\
  traj_pos R_ops c ts = Some p1 /\ traj_vel R_ops c ts = Some v1 /\ traj_acc R_ops c ts = Some a1.
Proof. intros H c. unfold c. repeat split; ev; field; exact H. Qed.

Theorem trajpoly7_boundary ts p0 p1 v0 v1 a0 a1 j0 j1 : ts <> 0 ->
  let c := trajpoly7_gen R_ops ts p0 p1 v0 v1 a0 a1 j0 j1 in
  traj_pos R_ops c 0 = Some p0 /\ traj_vel R_ops c 0 = Some v0 /\ traj_acc R_ops c 0 = Some a0 /\ traj_jer R_ops c 0 = Some j0 /\
  traj_pos R_ops c ts = Some p1 /\ traj_vel R_ops c ts = Some v1 /\ traj_acc R_ops c ts = Some a1 /\ traj_jer R_ops c ts = Some j1.
Proof. intros H c. unfold c. repeat split; ev; field; exact H. Qed.

(* the derivative outputs are the derivatives of the position polynomial, for every coefficient vector *)
Definition the (o : option R) : R := match o with Some v => v | None => 0 end.

Ltac deriv := intros; unfold traj_pos, traj_vel, traj_acc, traj_jer, poly_eval, c1_of, c2_of, c3_of;
              cbn [rev app fold_left length seq combine map Z.of_nat Nat.sub Pos.of_succ_nat Pos.succ];
              unfold the; cbv beta iota;
              unfold_ops; auto_derive; [exact I|ring].

Theorem trajpoly3_derivatives c0 c1 c2 c3 (x : R) :
  let c := [c0; c1; c2; c3] in
  is_derive (fun t : R => the (traj_pos R_ops c t)) x (the (traj_vel R_ops c x)) /\
  is_derive (fun t : R => the (traj_vel R_ops c t)) x (the (traj_acc R_ops c x)).
Proof. split; deriv. Qed.

Theorem trajpoly5_derivatives c0 c1 c2 c3 c4 c5 (x : R) :
  let c := [c0; c1; c2; c3; c4; c5] in
  is_derive (fun t : R => the (traj_pos R_ops c t)) x (the (traj_vel R_ops c x)) /\
  is_derive (fun t : R => the (traj_vel R_ops c t)) x (the (traj_acc R_ops c x)).
Proof. split; deriv. Qed.

Theorem trajpoly7_derivatives c0 c1 c2 c3 c4 c5 c6 c7 (x : R) :
  let c := [c0; c1; c2; c3; c4; c5; c6; c7] in
  is_derive (fun t : R => the (traj_pos R_ops c t)) x (the (traj_vel R_ops c x)) /\
  is_derive (fun t : R => the (traj_vel R_ops c t)) x (the (traj_acc R_ops c x)) /\
  is_derive (fun t : R => the (traj_acc R_ops c t)) x (the (traj_jer R_ops c x)).
Proof. split; [|split]; deriv. Qed.

(* position is the Horner value of the coefficient list; the outputs are always defined *)
Theorem traj_pos_is_pval c x : c <> [] -> traj_pos R_ops c x = Some (pval c x).
Proof. apply poly_eval_spec. Qed.

Example traj3_ex : let c := trajpoly3_gen R_ops 2 0 10 1 (-1) in traj_pos R_ops c 2 = Some 10 /\ traj_vel R_ops c 2 = Some (-1).
Proof. cbv zeta. split; ev; field. Qed.
