(* C15 model: src/poly.c (a_poly_eval_/evar_/swap_) and src/trajpoly{3,5,7}.c, transcribed statement by statement,
   polymorphic over NumOps (R for the theorems, binary64 for the bit-exact run).  No proofs here. *)
From Coq Require Import ZArith List.
From LibaV Require Import Common.NumOps.
Import ListNotations.

Section Model.
  Context {T : Type} (O : NumOps T).
  Local Notation "x + y" := (add O x y) (at level 50, left associativity).
  Local Notation "x - y" := (sub O x y) (at level 50, left associativity).
  Local Notation "x * y" := (mul O x y) (at level 40, left associativity).
  Local Notation "x / y" := (div O x y) (at level 40, left associativity).
  Local Notation "# z" := (ofZ O z%Z) (at level 0, z at level 0).

  (* a_poly_eval_(a, b, x): for (y = *--b; b > a;) y = y * x + *--b;   coefficients c[0] + c[1] x + ...
     An empty range is undefined behaviour in C (reads a[-1]); the model returns None. *)
  Definition poly_eval (c : list T) (x : T) : option T :=
    match rev c with
    | [] => None
    | h :: t => Some (fold_left (fun y ci => y * x + ci) t h)
    end.

  (* a_poly_evar_(a, b, x): for (y = *a; ++a < b;) y = y * x + *a;   highest coefficient first *)
  Definition poly_evar (c : list T) (x : T) : option T :=
    match c with
    | [] => None
    | h :: t => Some (fold_left (fun y ci => y * x + ci) t h)
    end.

  (* a_poly_swap_: for (; a < --b; ++a) exchange a[0] and b[0] : in-place reversal with two cursors *)
  Fixpoint swap_loop (fuel : nat) (front back : list T) (mid : list T) : list T :=
    (* state: front (reversed, already final), mid = remaining window; take first and last of the window *)
    match fuel with
    | 0%nat => rev front ++ mid ++ back
    | S f =>
        match mid with
        | [] => rev front ++ back
        | [m] => rev front ++ [m] ++ back
        | a :: rest =>
            match rev rest with
            | [] => rev front ++ [a] ++ back   (* unreachable: rest non-empty *)
            | b :: rmid' => swap_loop f (b :: front) (a :: back) (rev rmid')
            end
        end
    end.
  Definition poly_swap (c : list T) : list T := swap_loop (length c) [] [] c.

  (* the public wrappers of include/a/poly.h: a_poly_eval(a, n, x) = n ? a_poly_eval_(a, a + n, x) : 0, likewise evar;
     a_poly_swap(a, n): if (n > 1) a_poly_swap_(a, a + n) *)
  Definition poly_eval_w (c : list T) (x : T) : T :=
    match c with [] => ofZ O 0 | _ => match poly_eval c x with Some v => v | None => ofZ O 0 end end.
  Definition poly_evar_w (c : list T) (x : T) : T :=
    match c with [] => ofZ O 0 | _ => match poly_evar c x with Some v => v | None => ofZ O 0 end end.
  Definition poly_swap_w (c : list T) : list T :=
    match c with [] => c | [_] => c | _ => poly_swap c end.

  Definition get (d : T) (c : list T) (i : nat) : T := nth i c d.
  Definition half : T := #1 / #2.      (* (a_real)(1.0 / 2) *)
  Definition sixth : T := #1 / #6.     (* (a_real)(1.0 / 6) *)

  (* ------------------------------------------------------------ cubic *)
  Definition trajpoly3_gen (ts p0 p1 v0 v1 : T) : list T :=
    let p := p1 - p0 in
    let _t1 := #1 / ts in
    let _t2 := _t1 * _t1 in
    let _t3 := _t1 * _t2 in
    [ p0;
      v0;
      _t1 * (#(-2) * v0 - v1) + _t2 * p * #3;
      _t2 * (v0 + v1) - _t3 * p * #2 ].

  Definition c1_of (c : list T) : list T :=      (* c[i] = ctx->c[i+1] * (i+1), c[0] = ctx->c[1] *)
    match c with
    | _ :: c1 :: rest => c1 :: map (fun '(k, ci) => ci * (ofZ O (Z.of_nat k))) (combine (seq 2 (length rest)) rest)
    | _ => []
    end.
  Definition c2_of (c : list T) : list T :=      (* c[0] = ctx->c[2] * 2; c[i] = ctx->c[i+2] * (i+2) * (i+1) *)
    match c with
    | _ :: _ :: c2 :: rest =>
        c2 * #2 :: map (fun '(k, ci) => ci * (ofZ O (Z.of_nat k)) * (ofZ O (Z.of_nat (k - 1)))) (combine (seq 3 (length rest)) rest)
    | _ => []
    end.
  Definition c3_of (c : list T) : list T :=      (* c[0] = ctx->c[3] * 3 * 2; c[i] = ctx->c[i+3]*(i+3)*(i+2)*(i+1) *)
    match c with
    | _ :: _ :: _ :: c3 :: rest =>
        c3 * #3 * #2 :: map (fun '(k, ci) => ci * (ofZ O (Z.of_nat k)) * (ofZ O (Z.of_nat (k - 1))) * (ofZ O (Z.of_nat (k - 2))))
                            (combine (seq 4 (length rest)) rest)
    | _ => []
    end.

  Definition traj_pos (c : list T) (x : T) := poly_eval c x.
  Definition traj_vel (c : list T) (x : T) := poly_eval (c1_of c) x.
  Definition traj_acc (c : list T) (x : T) := poly_eval (c2_of c) x.
  Definition traj_jer (c : list T) (x : T) := poly_eval (c3_of c) x.

  (* ------------------------------------------------------------ quintic *)
  Definition trajpoly5_gen (ts p0 p1 v0 v1 a0 a1 : T) : list T :=
    let p := p1 - p0 in
    let _t1 := #1 / ts in
    let _t2 := _t1 * _t1 in
    let _t3 := _t1 * _t2 in
    let _t4 := _t2 * _t2 in
    let _t5 := _t2 * _t3 in
    [ p0;
      v0;
      a0 * half;
      half * (_t1 * (a1 - #3 * a0) - _t2 * (#12 * v0 + #8 * v1) + _t3 * p * #20);
      half * (_t2 * (#3 * a0 - #2 * a1) + _t3 * (#16 * v0 + #14 * v1) - _t4 * p * #30);
      half * (_t3 * (a1 - a0) - _t4 * (v0 + v1) * #6 + _t5 * p * #12) ].

  (* ------------------------------------------------------------ septic *)
  Definition trajpoly7_gen (ts p0 p1 v0 v1 a0 a1 j0 j1 : T) : list T :=
    let p := p1 - p0 in
    let _t1 := #1 / ts in
    let _t2 := _t1 * _t1 in
    let _t3 := _t1 * _t2 in
    let _t4 := _t2 * _t2 in
    let _t5 := _t2 * _t3 in
    let _t6 := _t3 * _t3 in
    let _t7 := _t3 * _t4 in
    [ p0;
      v0;
      a0 * half;
      j0 * sixth;
      sixth * (_t1 * (#(-4) * j0 - j1) + _t2 * (#15 * a1 - #30 * a0) - _t3 * (#120 * v0 + #90 * v1) + _t4 * p * #210);
      half * (_t2 * (#2 * j0 + j1) + _t3 * (#20 * a0 - #14 * a1) + _t4 * (#90 * v0 + #78 * v1) - _t5 * p * #168);
      sixth * (_t3 * (#(-4) * j0 - #3 * j1) + _t4 * (#39 * a1 - #45 * a0) - _t5 * (#216 * v0 + #204 * v1) + _t6 * p * #420);
      sixth * (_t4 * (j0 + j1) + _t5 * (a0 - a1) * #12 + _t6 * (v0 + v1) * #60 - _t7 * p * #120) ].
End Model.
