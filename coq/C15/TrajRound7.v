(* C15: END-TO-END rounding bound of the generated SEPTIC trajectory (src/trajpoly7.c) in the standard model of
   floating-point arithmetic with gradual underflow (Common/RoundOps.v); companion of C15/TrajRound.v (cubic, quintic).

     the eight coefficients are COMPUTED by trajpoly7_gen with every operation rounded (the reciprocal 1/ts, its powers up to
     the 7th by repeated rounded products, the integer constants -4, 15, 30, ... 420 and the constants (a_real)(1.0/2),
     (a_real)(1.0/6) = rnd (rnd 1 / rnd 2), rnd (rnd 1 / rnd 6)), then position / velocity / acceleration / jerk are
     EVALUATED at t = ts by Horner's rule with every operation rounded, including the factors k, k(k-1), k(k-1)(k-2) of the
     derivative coefficients (the same Gallina terms a_trajpoly7_gen/_pos/_vel/_acc/_jer are tied to, at Rnd_ops rnd);
     the result is within an explicit multiple of eps of the requested end value p1 / v1 / a1 / j1.

   For EVERY rounding rnd with std_model rnd eps eta, eps <= 2^-20, eta <= 1, rnd 2 = 2, rnd 6 = 6, every ts <> 0 and all real
   boundary data (not required to be representable), with T = |ts|:
     |pos(ts) - p1| <= 43 eps (|p0| + 209|p1-p0| + T(112|v0| + 98|v1|) + T^2(25|a0| + 18|a1|) + T^3(8/3|j0| + 4/3|j1|))  <=   9030 eps S7
     |vel(ts) - v1| <= 43 eps (1120|p1-p0|/T + 592|v0| + 529|v1| + T(130|a0| + 98|a1|) + T^2(40/3|j0| + 22/3|j1|))     <=  48160 eps S7/T
     |acc(ts) - a1| <= 43 eps (5040|p1-p0|/T^2 + (2640|v0| + 2400|v1|)/T + 570|a0| + 449|a1| + T(56|j0| + 34|j1|))      <= 216720 eps S7/T^2
     |jer(ts) - j1| <= 43 eps (18480|p1-p0|/T^3 + (9600|v0| + 8880|v1|)/T^2 + (2040|a0| + 1680|a1|)/T + 192|j0| + 129|j1|) <= 794640 eps S7/T^3
   each plus C eta (1 + 1/T)^7 (1 + T)^m (1 + |p1-p0| + |v0| + |v1| + |a0| + |a1| + |j0| + |j1|), (C, m) = (10^6, 7), (4 10^6, 6),
   (3 10^7, 5), (3 10^8, 4);   S7 = |p0| + |p1| + T(|v0|+|v1|) + T^2(|a0|+|a1|) + T^3(|j0|+|j1|).
   43 = 42 + 1 where 42 is the number of roundings along the longest path (20 for the 7th power of 1/ts, 8 more for the
   coefficient c7, 14 for the seven Horner steps).  The weights are the "all signs positive" values of the exact formulas:
   they are large (209, 1120, ...) because the septic coefficients 35 p/ts^4, -84 p/ts^5, 70 p/ts^6, -20 p/ts^7 cancel at t = ts.
   The divisors 2 and 6 of the two constants are assumed exact (true in every binary format, discharged for binary64); the
   quotient 1/6 is NOT a binary number and its rounding IS part of the bound (2 of the 42 roundings).  Overflow is outside the
   model (RoundOps.v).
   At t = 0: position and velocity are rnd p0, rnd v0 (exact for format numbers); acceleration and jerk are within
   7 eps |a0| and 9 eps |j0| (+ eta terms) of a0, j0 (traj7_start_exact, traj7_start_rounding_bound).
   Per coefficient: traj7_coeff_rounding.

   Method: the `approx' calculus and the syntax-directed tactic of TrajRound.v, applied in THREE LAYERS so that the polynomial
   inequalities for the underflow coefficient stay small (the one-shot construction used for the quintic takes about a minute
   per end value here): (1) the powers th_k of the rounded reciprocal: approx th_k (1/ts)^k n_k u^k (c_k (1+u)^k), u = 1/|ts|;
   (2) each coefficient against its exact formula: approx c_i (exact c_i) k_i (magnitude m_i) (C_i (1+u)^i W); (3) a Horner
   lemma generic in the eight coefficients (c0, c1 exact, the others given with approx statements whose underflow coefficients
   and magnitudes are below Cc Zw for one constant Cc and one Zw >= 1).  Then the exact value is the requested end value by
   the field identity (as in PolyProofs.trajpoly7_boundary) and the magnitude equals the weighted scale by a field identity. *)
From Coq Require Import Reals ZArith List Lra Lia.
From LibaV Require Import Common.NumOps Common.ROps Common.RoundOps Common.RoundFlocq C15.PolyDefs C15.PolyProofs C15.TrajRound.
Import ListNotations.
Local Open Scope R_scope.

Section Calc.
  Variable rnd : R -> R.
  Variables eps eta : R.
  Hypothesis M : std_model rnd eps eta.

  Lemma ap_conv xh X k A B x' A' B' : approx eps eta xh X k A B -> X = x' -> A = A' -> B <= B' -> approx eps eta xh x' k A' B'.
  Proof. intros H <- <- HB. apply (ap_weaken _ _ _ M _ _ _ _ _ k A B' H); [apply le_n|lra|exact HB]. Qed.

  Lemma ap_rnd1 vh v k a b : approx eps eta vh v k a b -> approx eps eta (rnd vh) v (S k) a (b + 1).
  Proof. intros (H1 & H2 & H3). apply (ap_rnd _ _ _ M); assumption. Qed.

  (* powers of the rounded reciprocal: magnitude u^i exactly, underflow coefficient c (1+u)^i *)
  Lemma ap_pw_mul (u z : R) xh yh i j k k' ci cj c : 0 <= u -> 0 <= ci -> 0 <= cj -> eta <= 1 -> c = ci + cj + ci * cj + 1 ->
    approx eps eta xh (z ^ i) k (u ^ i) (ci * (1 + u) ^ i) -> approx eps eta yh (z ^ j) k' (u ^ j) (cj * (1 + u) ^ j) ->
    approx eps eta (rnd (xh * yh)) (z ^ (i + j)) (S (k + k')) (u ^ (i + j)) (c * (1 + u) ^ (i + j)).
  Proof.
    intros Hu Hi Hj He -> Hx Hy.
    apply (ap_conv _ _ _ _ _ _ _ _ (ap_mul _ _ _ M _ _ _ _ _ _ _ _ _ _ He Hx Hy)); [symmetry; apply pow_add|symmetry; apply pow_add|].
    rewrite (pow_add (1 + u)).
    assert (A1 : u ^ i <= (1 + u) ^ i) by (apply pow_incr; lra).
    assert (A2 : u ^ j <= (1 + u) ^ j) by (apply pow_incr; lra).
    assert (A3 : 1 <= (1 + u) ^ i) by (apply pow_R1_Rle; lra).
    assert (A4 : 1 <= (1 + u) ^ j) by (apply pow_R1_Rle; lra).
    assert (A5 : 0 <= u ^ i) by (apply pow_le; lra). assert (A6 : 0 <= u ^ j) by (apply pow_le; lra).
    set (Ui := (1 + u) ^ i) in *. set (Uj := (1 + u) ^ j) in *. set (ui := u ^ i) in *. set (uj := u ^ j) in *.
    assert (B1 : ui * (cj * Uj) <= Ui * (cj * Uj)) by (apply Rmult_le_compat_r; [apply Rmult_le_pos; lra|lra]).
    assert (B2 : uj * (ci * Ui) <= Uj * (ci * Ui)) by (apply Rmult_le_compat_r; [apply Rmult_le_pos; lra|lra]).
    assert (B3 : 1 * 1 <= Ui * Uj) by (apply Rmult_le_compat; lra).
    lra.
  Qed.
End Calc.

Definition t7_1 (rnd : R -> R) (ts : R) := rnd (rnd 1 / ts).
Definition t7_2 (rnd : R -> R) (ts : R) := rnd (t7_1 rnd ts * t7_1 rnd ts).
Definition t7_3 (rnd : R -> R) (ts : R) := rnd (t7_1 rnd ts * t7_2 rnd ts).
Definition t7_4 (rnd : R -> R) (ts : R) := rnd (t7_2 rnd ts * t7_2 rnd ts).
Definition t7_5 (rnd : R -> R) (ts : R) := rnd (t7_2 rnd ts * t7_3 rnd ts).
Definition t7_6 (rnd : R -> R) (ts : R) := rnd (t7_3 rnd ts * t7_3 rnd ts).
Definition t7_7 (rnd : R -> R) (ts : R) := rnd (t7_3 rnd ts * t7_4 rnd ts).

Section Powers.
  Variable rnd : R -> R.
  Variables eps eta : R.
  Hypothesis M : std_model rnd eps eta.
  Hypothesis Heta1 : eta <= 1.
  Variable ts : R.
  Hypothesis Hts : ts <> 0.
  Local Notation u := (/ Rabs ts).

  Lemma u_ge0 : 0 <= u.
  Proof. left. apply Rinv_0_lt_compat, Rabs_pos_lt, Hts. Qed.

  Lemma ap_t1 : approx eps eta (t7_1 rnd ts) ((1 / ts) ^ 1) 2 (u ^ 1) (1 * (1 + u) ^ 1).
  Proof.
    apply (ap_conv _ _ _ M _ _ _ _ _ _ _ _ (ap_div _ _ _ M _ _ _ _ _ ts (ap_const _ _ _ M 1) Hts)); cbn [Z.abs pow]; [unfold Rdiv; ring|ring|apply Req_le; ring].
  Qed.
  Ltac pw H1 H2 := refine (ap_pw_mul _ _ _ M _ _ _ _ _ _ _ _ _ _ _ u_ge0 _ _ Heta1 _ H1 H2); lra.
  Lemma ap_t2 : approx eps eta (t7_2 rnd ts) ((1 / ts) ^ 2) 5 (u ^ 2) (4 * (1 + u) ^ 2).
  Proof. pw ap_t1 ap_t1. Qed.
  Lemma ap_t3 : approx eps eta (t7_3 rnd ts) ((1 / ts) ^ 3) 8 (u ^ 3) (10 * (1 + u) ^ 3).
  Proof. pw ap_t1 ap_t2. Qed.
  Lemma ap_t4 : approx eps eta (t7_4 rnd ts) ((1 / ts) ^ 4) 11 (u ^ 4) (25 * (1 + u) ^ 4).
  Proof. pw ap_t2 ap_t2. Qed.
  Lemma ap_t5 : approx eps eta (t7_5 rnd ts) ((1 / ts) ^ 5) 14 (u ^ 5) (55 * (1 + u) ^ 5).
  Proof. pw ap_t2 ap_t3. Qed.
  Lemma ap_t6 : approx eps eta (t7_6 rnd ts) ((1 / ts) ^ 6) 17 (u ^ 6) (121 * (1 + u) ^ 6).
  Proof. pw ap_t3 ap_t3. Qed.
  Lemma ap_t7 : approx eps eta (t7_7 rnd ts) ((1 / ts) ^ 7) 20 (u ^ 7) (286 * (1 + u) ^ 7).
  Proof. pw ap_t3 ap_t4. Qed.
End Powers.

(* magnitudes ("all signs positive") of the exact coefficients *)
Definition traj7_W (p0 p1 v0 v1 a0 a1 j0 j1 : R) : R :=
  1 + Rabs (p1 - p0) + Rabs v0 + Rabs v1 + Rabs a0 + Rabs a1 + Rabs j0 + Rabs j1.
Definition traj7_mag (i : nat) (ts p0 p1 v0 v1 a0 a1 j0 j1 : R) : R :=
  let u := / Rabs ts in let P := Rabs (p1 - p0) in
  let V0 := Rabs v0 in let V1 := Rabs v1 in let A0 := Rabs a0 in let A1 := Rabs a1 in let J0 := Rabs j0 in let J1 := Rabs j1 in
  match i with
  | 0%nat => Rabs p0 | 1%nat => V0 | 2%nat => A0 * / 2 | 3%nat => J0 * / 6
  | 4%nat => / 6 * (u * (4 * J0 + J1) + u ^ 2 * (15 * A1 + 30 * A0) + u ^ 3 * (120 * V0 + 90 * V1) + u ^ 4 * P * 210)
  | 5%nat => / 2 * (u ^ 2 * (2 * J0 + J1) + u ^ 3 * (20 * A0 + 14 * A1) + u ^ 4 * (90 * V0 + 78 * V1) + u ^ 5 * P * 168)
  | 6%nat => / 6 * (u ^ 3 * (4 * J0 + 3 * J1) + u ^ 4 * (39 * A1 + 45 * A0) + u ^ 5 * (216 * V0 + 204 * V1) + u ^ 6 * P * 420)
  | 7%nat => / 6 * (u ^ 4 * (J0 + J1) + u ^ 5 * (A0 + A1) * 12 + u ^ 6 * (V0 + V1) * 60 + u ^ 7 * P * 120)
  | _ => 0
  end.

Section Coeffs.
  Variable rnd : R -> R.
  Variables eps eta : R.
  Hypothesis M : std_model rnd eps eta.
  Hypothesis Heta1 : eta <= 1.
  Hypothesis H2 : rnd 2 = 2.
  Hypothesis H6 : rnd 6 = 6.
  Variables ts p0 p1 v0 v1 a0 a1 j0 j1 : R.
  Hypothesis Hts : ts <> 0.
  Local Notation u := (/ Rabs ts).
  Local Notation W := (traj7_W p0 p1 v0 v1 a0 a1 j0 j1).
  Local Notation ch i := (nth i (trajpoly7_gen (Rnd_ops rnd) ts p0 p1 v0 v1 a0 a1 j0 j1) 0).
  Local Notation cx i := (nth i (trajpoly7_gen R_ops ts p0 p1 v0 v1 a0 a1 j0 j1) 0).
  Local Notation mg i := (traj7_mag i ts p0 p1 v0 v1 a0 a1 j0 j1).

  Lemma ap_sixth : approx eps eta (rnd (rnd 1 / rnd 6)) (1 / 6) 2 (/ 6) (7 / 6).
  Proof.
    rewrite H6. pose proof (ap_div _ _ _ M _ _ _ _ _ 6 (ap_const _ _ _ M 1)) as H.
    rewrite (Rabs_pos_eq 6) in H by lra. cbn [Z.abs] in H.
    replace (1 * / 6) with (/ 6) in H by lra. replace (/ 6 + 1) with (7 / 6) in H by lra. apply H. lra.
  Qed.

  Ltac facts7 :=
    assert (HT : 0 < Rabs ts) by (apply Rabs_pos_lt; exact Hts);
    assert (HU : 0 <= / Rabs ts) by (left; apply Rinv_0_lt_compat; exact HT);
    pose proof (Rabs_pos v0); pose proof (Rabs_pos v1); pose proof (Rabs_pos a0); pose proof (Rabs_pos a1);
    pose proof (Rabs_pos j0); pose proof (Rabs_pos j1);
    pose proof (Rabs_pos (p1 - p0)); pose proof (Rabs_pos p0);
    assert (HT0 : 0 <= Rabs ts) by lra;
    assert (Hp : approx eps eta (rnd (p1 - p0)) (p1 - p0) 1 (Rabs (p1 - p0)) 1) by (apply (ap_rnd_exact _ _ _ M));
    set (ph := rnd (p1 - p0)) in *;
    pose proof (ap_half rnd eps eta M H2) as Hh; set (hf := rnd (rnd 1 / rnd 2)) in *;
    pose proof ap_sixth as Hs; set (sx := rnd (rnd 1 / rnd 6)) in *;
    pose proof (ap_t1 rnd eps eta M ts Hts) as Ht1; pose proof (ap_t2 rnd eps eta M Heta1 ts Hts) as Ht2;
    pose proof (ap_t3 rnd eps eta M Heta1 ts Hts) as Ht3; pose proof (ap_t4 rnd eps eta M Heta1 ts Hts) as Ht4;
    pose proof (ap_t5 rnd eps eta M Heta1 ts Hts) as Ht5; pose proof (ap_t6 rnd eps eta M Heta1 ts Hts) as Ht6;
    pose proof (ap_t7 rnd eps eta M Heta1 ts Hts) as Ht7;
    unfold t7_7, t7_6, t7_5, t7_4, t7_3, t7_2, t7_1 in *;
    set (t1 := rnd (rnd 1 / ts)) in *; set (t2 := rnd (t1 * t1)) in *; set (t3 := rnd (t1 * t2)) in *;
    set (t4 := rnd (t2 * t2)) in *; set (t5 := rnd (t2 * t3)) in *; set (t6 := rnd (t3 * t3)) in *; set (t7 := rnd (t3 * t4)) in *.

  Ltac coeff :=
    unfold trajpoly7_gen, half, sixth; cbn [nth]; unfold_rops; facts7;
    match goal with |- approx _ _ ?t _ _ _ _ =>
      let HA := fresh "HA" in
      eassert (HA : approx eps eta t _ _ _ _) by (ap_build M Heta1 rnd ts Hts);
      cbn [Nat.max Nat.add Z.abs] in HA;
      apply (ap_conv _ _ _ M _ _ _ _ _ _ _ _ HA);
      [ field; exact Hts
      | unfold traj7_mag; field; lra
      | unfold traj7_W; clear HA; generalize dependent (/ Rabs ts); intros u; intros; poly_le_frac ]
    end.

  Lemma ap_c2 : approx eps eta (ch 2) (cx 2) 3 (mg 2) (2 * W).
  Proof. coeff. Qed.
  Lemma ap_c3 : approx eps eta (ch 3) (cx 3) 3 (mg 3) (2 * W).
  Proof. coeff. Qed.
  Lemma ap_c4 : approx eps eta (ch 4) (cx 4) 19 (mg 4) (10000 * ((1 + u) ^ 4 * W)).
  Proof. coeff. Qed.
  Lemma ap_c5 : approx eps eta (ch 5) (cx 5) 22 (mg 5) (20000 * ((1 + u) ^ 5 * W)).
  Proof. coeff. Qed.
  Lemma ap_c6 : approx eps eta (ch 6) (cx 6) 25 (mg 6) (100000 * ((1 + u) ^ 6 * W)).
  Proof. coeff. Qed.
  Lemma ap_c7 : approx eps eta (ch 7) (cx 7) 28 (mg 7) (100000 * ((1 + u) ^ 7 * W)).
  Proof. coeff. Qed.

  (* the magnitudes against the same scale *)
  Ltac mag_le := unfold traj7_mag, traj7_W;
    assert (HT : 0 < Rabs ts) by (apply Rabs_pos_lt; exact Hts);
    assert (HU : 0 <= / Rabs ts) by (left; apply Rinv_0_lt_compat; exact HT);
    pose proof (Rabs_pos v0); pose proof (Rabs_pos v1); pose proof (Rabs_pos a0); pose proof (Rabs_pos a1);
    pose proof (Rabs_pos j0); pose proof (Rabs_pos j1); pose proof (Rabs_pos (p1 - p0));
    generalize dependent (/ Rabs ts); intros u; intros; poly_le_frac.
  Lemma mag2_le : mg 2 <= 1 * W. Proof. mag_le. Qed.
  Lemma mag3_le : mg 3 <= 1 * W. Proof. mag_le. Qed.
  Lemma mag4_le : mg 4 <= 35 * ((1 + u) ^ 4 * W). Proof. mag_le. Qed.
  Lemma mag5_le : mg 5 <= 84 * ((1 + u) ^ 5 * W). Proof. mag_le. Qed.
  Lemma mag6_le : mg 6 <= 70 * ((1 + u) ^ 6 * W). Proof. mag_le. Qed.
  Lemma mag7_le : mg 7 <= 20 * ((1 + u) ^ 7 * W). Proof. mag_le. Qed.
End Coeffs.

(* ------------------------------------------------------------------ rounded Horner evaluation of position / velocity /
   acceleration / jerk over eight coefficients of which c0, c1 are exact and c2 .. c7 are approximations *)
Section Horner7.
  Variable rnd : R -> R.
  Variables eps eta : R.
  Hypothesis M : std_model rnd eps eta.
  Hypothesis Heta1 : eta <= 1.

  Definition ap_le (xh x : R) (k : nat) (m Cc Zw : R) : Prop := approx eps eta xh x k m (Cc * Zw) /\ m <= Cc * Zw.

  Ltac horner :=
    intros x c0 c1 c2h c3h c4h c5h c6h c7h c2 c3 c4 c5 c6 c7 m2 m3 m4 m5 m6 m7 Cc Zw HC HZ [A2 L2] [A3 L3] [A4 L4] [A5 L5] [A6 L6] [A7 L7];
    unfold traj_pos, traj_vel, traj_acc, traj_jer, poly_eval, c1_of, c2_of, c3_of;
    cbn [rev app fold_left length seq combine map Z.of_nat Nat.sub Pos.of_succ_nat Pos.succ]; unfold the; unfold_rops;
    eexists; split; [reflexivity|];
    match goal with |- approx _ _ ?t _ _ _ _ =>
      let HA := fresh "HA" in
      eassert (HA : approx eps eta t _ _ _ _) by (ap_build M Heta1 rnd x I);
      cbn [Nat.max Nat.add Z.abs] in HA;
      apply (ap_conv _ _ _ M _ _ _ _ _ _ _ _ HA); [ring|ring|]; clear HA
    end;
    pose proof (Rabs_pos x) as HT; generalize dependent (Rabs x); intros T HT;
    assert (E2 : exists s, 0 <= s /\ m2 = Cc * Zw - s) by (exists (Cc * Zw - m2); split; lra);
    assert (E3 : exists s, 0 <= s /\ m3 = Cc * Zw - s) by (exists (Cc * Zw - m3); split; lra);
    assert (E4 : exists s, 0 <= s /\ m4 = Cc * Zw - s) by (exists (Cc * Zw - m4); split; lra);
    assert (E5 : exists s, 0 <= s /\ m5 = Cc * Zw - s) by (exists (Cc * Zw - m5); split; lra);
    assert (E6 : exists s, 0 <= s /\ m6 = Cc * Zw - s) by (exists (Cc * Zw - m6); split; lra);
    assert (E7 : exists s, 0 <= s /\ m7 = Cc * Zw - s) by (exists (Cc * Zw - m7); split; lra);
    assert (EZ : exists z, 0 <= z /\ Zw = 1 + z) by (exists (Zw - 1); split; lra);
    destruct E2 as (s2 & S2 & ->); destruct E3 as (s3 & S3 & ->); destruct E4 as (s4 & S4 & ->);
    destruct E5 as (s5 & S5 & ->); destruct E6 as (s6 & S6 & ->); destruct E7 as (s7 & S7 & ->);
    destruct EZ as (z & Hz & ->);
    clear A2 A3 A4 A5 A6 A7 L2 L3 L4 L5 L6 L7; poly_le.

  Lemma horner7_pos : forall x c0 c1 c2h c3h c4h c5h c6h c7h c2 c3 c4 c5 c6 c7 m2 m3 m4 m5 m6 m7 Cc Zw, 0 <= Cc -> 1 <= Zw ->
    ap_le c2h c2 3 m2 Cc Zw -> ap_le c3h c3 3 m3 Cc Zw -> ap_le c4h c4 19 m4 Cc Zw -> ap_le c5h c5 22 m5 Cc Zw ->
    ap_le c6h c6 25 m6 Cc Zw -> ap_le c7h c7 28 m7 Cc Zw ->
    exists vr, traj_pos (Rnd_ops rnd) [c0; c1; c2h; c3h; c4h; c5h; c6h; c7h] x = Some vr /\
      approx eps eta vr (the (traj_pos R_ops [c0; c1; c2; c3; c4; c5; c6; c7] x)) 42
             (the (traj_pos R_ops [Rabs c0; Rabs c1; m2; m3; m4; m5; m6; m7] (Rabs x)))
             (4 * ((1 + Cc) * ((1 + Rabs x) ^ 7 * Zw))).
  Proof. horner. Qed.
  Lemma horner7_vel : forall x c0 c1 c2h c3h c4h c5h c6h c7h c2 c3 c4 c5 c6 c7 m2 m3 m4 m5 m6 m7 Cc Zw, 0 <= Cc -> 1 <= Zw ->
    ap_le c2h c2 3 m2 Cc Zw -> ap_le c3h c3 3 m3 Cc Zw -> ap_le c4h c4 19 m4 Cc Zw -> ap_le c5h c5 22 m5 Cc Zw ->
    ap_le c6h c6 25 m6 Cc Zw -> ap_le c7h c7 28 m7 Cc Zw ->
    exists vr, traj_vel (Rnd_ops rnd) [c0; c1; c2h; c3h; c4h; c5h; c6h; c7h] x = Some vr /\
      approx eps eta vr (the (traj_vel R_ops [c0; c1; c2; c3; c4; c5; c6; c7] x)) 42
             (the (traj_vel R_ops [Rabs c0; Rabs c1; m2; m3; m4; m5; m6; m7] (Rabs x)))
             (16 * ((1 + Cc) * ((1 + Rabs x) ^ 6 * Zw))).
  Proof. horner. Qed.
  Lemma horner7_acc : forall x c0 c1 c2h c3h c4h c5h c6h c7h c2 c3 c4 c5 c6 c7 m2 m3 m4 m5 m6 m7 Cc Zw, 0 <= Cc -> 1 <= Zw ->
    ap_le c2h c2 3 m2 Cc Zw -> ap_le c3h c3 3 m3 Cc Zw -> ap_le c4h c4 19 m4 Cc Zw -> ap_le c5h c5 22 m5 Cc Zw ->
    ap_le c6h c6 25 m6 Cc Zw -> ap_le c7h c7 28 m7 Cc Zw ->
    exists vr, traj_acc (Rnd_ops rnd) [c0; c1; c2h; c3h; c4h; c5h; c6h; c7h] x = Some vr /\
      approx eps eta vr (the (traj_acc R_ops [c0; c1; c2; c3; c4; c5; c6; c7] x)) 42
             (the (traj_acc R_ops [Rabs c0; Rabs c1; m2; m3; m4; m5; m6; m7] (Rabs x)))
             (128 * ((1 + Cc) * ((1 + Rabs x) ^ 5 * Zw))).
  Proof. horner. Qed.
  Lemma horner7_jer : forall x c0 c1 c2h c3h c4h c5h c6h c7h c2 c3 c4 c5 c6 c7 m2 m3 m4 m5 m6 m7 Cc Zw, 0 <= Cc -> 1 <= Zw ->
    ap_le c2h c2 3 m2 Cc Zw -> ap_le c3h c3 3 m3 Cc Zw -> ap_le c4h c4 19 m4 Cc Zw -> ap_le c5h c5 22 m5 Cc Zw ->
    ap_le c6h c6 25 m6 Cc Zw -> ap_le c7h c7 28 m7 Cc Zw ->
    exists vr, traj_jer (Rnd_ops rnd) [c0; c1; c2h; c3h; c4h; c5h; c6h; c7h] x = Some vr /\
      approx eps eta vr (the (traj_jer R_ops [c0; c1; c2; c3; c4; c5; c6; c7] x)) 42
             (the (traj_jer R_ops [Rabs c0; Rabs c1; m2; m3; m4; m5; m6; m7] (Rabs x)))
             (1024 * ((1 + Cc) * ((1 + Rabs x) ^ 4 * Zw))).
  Proof. horner. Qed.
End Horner7.

(* ------------------------------------------------------------------ the weighted scales of the four end values *)
Definition traj7_pos_scale (ts p0 p1 v0 v1 a0 a1 j0 j1 : R) : R :=
  Rabs p0 + 209 * Rabs (p1 - p0) + Rabs ts * (112 * Rabs v0 + 98 * Rabs v1) + Rabs ts ^ 2 * (25 * Rabs a0 + 18 * Rabs a1)
  + Rabs ts ^ 3 * (8 / 3 * Rabs j0 + 4 / 3 * Rabs j1).
Definition traj7_vel_scale (ts p0 p1 v0 v1 a0 a1 j0 j1 : R) : R :=
  592 * Rabs v0 + 529 * Rabs v1 + Rabs ts * (130 * Rabs a0 + 98 * Rabs a1) + Rabs ts ^ 2 * (40 / 3 * Rabs j0 + 22 / 3 * Rabs j1)
  + 1120 * (Rabs (p1 - p0) / Rabs ts).
Definition traj7_acc_scale (ts p0 p1 v0 v1 a0 a1 j0 j1 : R) : R :=
  570 * Rabs a0 + 449 * Rabs a1 + Rabs ts * (56 * Rabs j0 + 34 * Rabs j1) + (2640 * Rabs v0 + 2400 * Rabs v1) / Rabs ts
  + 5040 * (Rabs (p1 - p0) / Rabs ts ^ 2).
Definition traj7_jer_scale (ts p0 p1 v0 v1 a0 a1 j0 j1 : R) : R :=
  192 * Rabs j0 + 129 * Rabs j1 + (2040 * Rabs a0 + 1680 * Rabs a1) / Rabs ts + (9600 * Rabs v0 + 8880 * Rabs v1) / Rabs ts ^ 2
  + 18480 * (Rabs (p1 - p0) / Rabs ts ^ 3).
(* (1 + 1/|ts|)^n (1 + |ts|)^m (1 + |p1 - p0| + |v0| + ... + |j1|): the scale of the underflow term *)
Definition traj7_eta_scale (n m : nat) (ts p0 p1 v0 v1 a0 a1 j0 j1 : R) : R :=
  (1 + / Rabs ts) ^ n * (1 + Rabs ts) ^ m * traj7_W p0 p1 v0 v1 a0 a1 j0 j1.

Section Septic.
  Variable rnd : R -> R.
  Variables eps eta : R.
  Hypothesis M : std_model rnd eps eta.
  Hypothesis Heps : eps <= / 1048576.
  Hypothesis Heta1 : eta <= 1.
  Hypothesis H2 : rnd 2 = 2.       (* the divisors of the constants (a_real)(1.0 / 2) and (a_real)(1.0 / 6) are exact; *)
  Hypothesis H6 : rnd 6 = 6.       (* the quotient 1/6 itself IS rounded and its error is part of the bound *)
  Variables ts p0 p1 v0 v1 a0 a1 j0 j1 : R.
  Hypothesis Hts : ts <> 0.
  Local Notation u := (/ Rabs ts).
  Local Notation W := (traj7_W p0 p1 v0 v1 a0 a1 j0 j1).
  Local Notation Zw := ((1 + u) ^ 7 * W).
  Local Notation ch i := (nth i (trajpoly7_gen (Rnd_ops rnd) ts p0 p1 v0 v1 a0 a1 j0 j1) 0).
  Local Notation cx i := (nth i (trajpoly7_gen R_ops ts p0 p1 v0 v1 a0 a1 j0 j1) 0).
  Local Notation mg i := (traj7_mag i ts p0 p1 v0 v1 a0 a1 j0 j1).

  Lemma W_ge1 : 1 <= W.
  Proof.
    unfold traj7_W. pose proof (Rabs_pos (p1 - p0)). pose proof (Rabs_pos v0). pose proof (Rabs_pos v1). pose proof (Rabs_pos a0).
    pose proof (Rabs_pos a1). pose proof (Rabs_pos j0). pose proof (Rabs_pos j1). lra.
  Qed.
  Lemma Zw_ge1 : 1 <= Zw.
  Proof.
    pose proof W_ge1 as HW. pose proof (u_ge0 ts Hts) as HU.
    assert (A : 1 <= (1 + u) ^ 7) by (apply pow_R1_Rle; lra).
    replace 1 with (1 * 1) at 1 by ring. apply Rmult_le_compat; lra.
  Qed.
  Lemma Zw_pow i : (i <= 7)%nat -> (1 + u) ^ i * W <= Zw.
  Proof.
    intros Hi. pose proof W_ge1 as HW. pose proof (u_ge0 ts Hts) as HU.
    apply Rmult_le_compat_r; [lra|]. apply Rle_pow; [lra|exact Hi].
  Qed.

  Ltac aple A L i :=
    pose proof (Zw_pow i ltac:(lia)) as Q; pose proof L as QL;
    split; [eapply (ap_weaken _ _ _ M); [exact A|apply le_n|lra|]|]; pose proof W_ge1 as Q1; pose proof Zw_ge1 as Q2; set (Z := Zw) in *;
    try (rewrite pow_O, Rmult_1_l in Q); try set (Y := (1 + u) ^ i * W) in *; lra.
  Lemma aple2 : ap_le eps eta (ch 2) (cx 2) 3 (mg 2) 100000 Zw.
  Proof. aple (ap_c2 rnd eps eta M Heta1 H2 H6 ts p0 p1 v0 v1 a0 a1 j0 j1 Hts) (mag2_le ts p0 p1 v0 v1 a0 a1 j0 j1 Hts) 0%nat. Qed.
  Lemma aple3 : ap_le eps eta (ch 3) (cx 3) 3 (mg 3) 100000 Zw.
  Proof. aple (ap_c3 rnd eps eta M Heta1 H2 H6 ts p0 p1 v0 v1 a0 a1 j0 j1 Hts) (mag3_le ts p0 p1 v0 v1 a0 a1 j0 j1 Hts) 0%nat. Qed.
  Lemma aple4 : ap_le eps eta (ch 4) (cx 4) 19 (mg 4) 100000 Zw.
  Proof. aple (ap_c4 rnd eps eta M Heta1 H2 H6 ts p0 p1 v0 v1 a0 a1 j0 j1 Hts) (mag4_le ts p0 p1 v0 v1 a0 a1 j0 j1 Hts) 4%nat. Qed.
  Lemma aple5 : ap_le eps eta (ch 5) (cx 5) 22 (mg 5) 100000 Zw.
  Proof. aple (ap_c5 rnd eps eta M Heta1 H2 H6 ts p0 p1 v0 v1 a0 a1 j0 j1 Hts) (mag5_le ts p0 p1 v0 v1 a0 a1 j0 j1 Hts) 5%nat. Qed.
  Lemma aple6 : ap_le eps eta (ch 6) (cx 6) 25 (mg 6) 100000 Zw.
  Proof. aple (ap_c6 rnd eps eta M Heta1 H2 H6 ts p0 p1 v0 v1 a0 a1 j0 j1 Hts) (mag6_le ts p0 p1 v0 v1 a0 a1 j0 j1 Hts) 6%nat. Qed.
  Lemma aple7 : ap_le eps eta (ch 7) (cx 7) 28 (mg 7) 100000 Zw.
  Proof. aple (ap_c7 rnd eps eta M Heta1 H2 H6 ts p0 p1 v0 v1 a0 a1 j0 j1 Hts) (mag7_le ts p0 p1 v0 v1 a0 a1 j0 j1 Hts) 7%nat. Qed.

  Ltac finish7 HA C :=
    assert (HT : 0 < Rabs ts) by (apply Rabs_pos_lt; exact Hts);
    pose proof (eps_ge0 _ _ _ M) as Hu;
    eapply (ap_finish _ _ _ M _ _ _ _ _ _ _ _ _ C _ HA);
    [ unfold the, traj_pos, traj_vel, traj_acc, traj_jer, poly_eval, c1_of, c2_of, c3_of, trajpoly7_gen, half, sixth;
      cbn [nth rev app fold_left length seq combine map Z.of_nat Nat.sub Pos.of_succ_nat Pos.succ]; unfold_rops; field; exact Hts
    | unfold the, traj_pos, traj_vel, traj_acc, traj_jer, poly_eval, c1_of, c2_of, c3_of, traj7_mag,
             traj7_pos_scale, traj7_vel_scale, traj7_acc_scale, traj7_jer_scale;
      cbn [rev app fold_left length seq combine map Z.of_nat Nat.sub Pos.of_succ_nat Pos.succ]; unfold_rops; field; lra
    | unfold traj7_eta_scale;
      match goal with |- _ * (_ * (?a * (?b * ?w))) <= _ * (?b * ?a * ?w) =>
        let q := fresh "q" in
        assert (q : 0 <= b * a * w);
        [ pose proof W_ge1; pose proof (u_ge0 ts Hts);
          apply Rmult_le_pos; [apply Rmult_le_pos; apply pow_le; lra|lra]
        | replace (a * (b * w)) with (b * a * w) by ring; lra ]
      end
    | simpl; lra | simpl; lra | simpl; lra | lra ].

  Theorem traj7_end_pos_weighted :
    exists vr, traj_pos (Rnd_ops rnd) (trajpoly7_gen (Rnd_ops rnd) ts p0 p1 v0 v1 a0 a1 j0 j1) ts = Some vr /\
      Rabs (vr - p1) <= 43 * eps * traj7_pos_scale ts p0 p1 v0 v1 a0 a1 j0 j1
                        + 1000000 * eta * traj7_eta_scale 7 7 ts p0 p1 v0 v1 a0 a1 j0 j1.
  Proof.
    destruct (horner7_pos rnd eps eta M ts p0 v0 _ _ _ _ _ _ _ _ _ _ _ _ _ _ _ _ _ _ 100000 Zw ltac:(lra) Zw_ge1
                aple2 aple3 aple4 aple5 aple6 aple7) as (vr & E & HA).
    exists vr. split; [exact E|]. finish7 HA 500000.
  Qed.

  Theorem traj7_end_vel_weighted :
    exists vr, traj_vel (Rnd_ops rnd) (trajpoly7_gen (Rnd_ops rnd) ts p0 p1 v0 v1 a0 a1 j0 j1) ts = Some vr /\
      Rabs (vr - v1) <= 43 * eps * traj7_vel_scale ts p0 p1 v0 v1 a0 a1 j0 j1
                        + 4000000 * eta * traj7_eta_scale 7 6 ts p0 p1 v0 v1 a0 a1 j0 j1.
  Proof.
    destruct (horner7_vel rnd eps eta M Heta1 ts p0 v0 _ _ _ _ _ _ _ _ _ _ _ _ _ _ _ _ _ _ 100000 Zw ltac:(lra) Zw_ge1
                aple2 aple3 aple4 aple5 aple6 aple7) as (vr & E & HA).
    exists vr. split; [exact E|]. finish7 HA 2000000.
  Qed.

  Theorem traj7_end_acc_weighted :
    exists vr, traj_acc (Rnd_ops rnd) (trajpoly7_gen (Rnd_ops rnd) ts p0 p1 v0 v1 a0 a1 j0 j1) ts = Some vr /\
      Rabs (vr - a1) <= 43 * eps * traj7_acc_scale ts p0 p1 v0 v1 a0 a1 j0 j1
                        + 30000000 * eta * traj7_eta_scale 7 5 ts p0 p1 v0 v1 a0 a1 j0 j1.
  Proof.
    destruct (horner7_acc rnd eps eta M Heta1 ts p0 v0 _ _ _ _ _ _ _ _ _ _ _ _ _ _ _ _ _ _ 100000 Zw ltac:(lra) Zw_ge1
                aple2 aple3 aple4 aple5 aple6 aple7) as (vr & E & HA).
    exists vr. split; [exact E|]. finish7 HA 15000000.
  Qed.

  Theorem traj7_end_jer_weighted :
    exists vr, traj_jer (Rnd_ops rnd) (trajpoly7_gen (Rnd_ops rnd) ts p0 p1 v0 v1 a0 a1 j0 j1) ts = Some vr /\
      Rabs (vr - j1) <= 43 * eps * traj7_jer_scale ts p0 p1 v0 v1 a0 a1 j0 j1
                        + 300000000 * eta * traj7_eta_scale 7 4 ts p0 p1 v0 v1 a0 a1 j0 j1.
  Proof.
    destruct (horner7_jer rnd eps eta M Heta1 ts p0 v0 _ _ _ _ _ _ _ _ _ _ _ _ _ _ _ _ _ _ 100000 Zw ltac:(lra) Zw_ge1
                aple2 aple3 aple4 aple5 aple6 aple7) as (vr & E & HA).
    exists vr. split; [exact E|]. finish7 HA 150000000.
  Qed.
End Septic.

(* ------------------------------------------------------------------ the six computed coefficients against the exact ones *)
Theorem traj7_coeff_rounding (rnd : R -> R) (eps eta : R) : std_model rnd eps eta -> eps <= / 1048576 -> eta <= 1 ->
  rnd 2 = 2 -> rnd 6 = 6 ->
  forall ts p0 p1 v0 v1 a0 a1 j0 j1, ts <> 0 ->
  let ch := trajpoly7_gen (Rnd_ops rnd) ts p0 p1 v0 v1 a0 a1 j0 j1 in
  let cx := trajpoly7_gen R_ops ts p0 p1 v0 v1 a0 a1 j0 j1 in
  let mg i := traj7_mag i ts p0 p1 v0 v1 a0 a1 j0 j1 in
  let W := traj7_W p0 p1 v0 v1 a0 a1 j0 j1 in
  let E n := (1 + / Rabs ts) ^ n * W in
  length ch = 8%nat /\ nth 0 ch 0 = p0 /\ nth 1 ch 0 = v0 /\ nth 2 cx 0 = a0 * (1 / 2) /\ nth 3 cx 0 = j0 * (1 / 6) /\
  Rabs (nth 2 ch 0 - nth 2 cx 0) <= 4 * eps * mg 2%nat + 4 * eta * W /\
  Rabs (nth 3 ch 0 - nth 3 cx 0) <= 4 * eps * mg 3%nat + 4 * eta * W /\
  Rabs (nth 4 ch 0 - nth 4 cx 0) <= 20 * eps * mg 4%nat + 20000 * eta * E 4%nat /\
  Rabs (nth 5 ch 0 - nth 5 cx 0) <= 23 * eps * mg 5%nat + 40000 * eta * E 5%nat /\
  Rabs (nth 6 ch 0 - nth 6 cx 0) <= 26 * eps * mg 6%nat + 200000 * eta * E 6%nat /\
  Rabs (nth 7 ch 0 - nth 7 cx 0) <= 29 * eps * mg 7%nat + 200000 * eta * E 7%nat.
Proof.
  intros M He Ht H2 H6 ts p0 p1 v0 v1 a0 a1 j0 j1 Hts ch cx mg W E.
  pose proof (eps_ge0 _ _ _ M) as Hu.
  split; [reflexivity|]. split; [reflexivity|]. split; [reflexivity|]. split; [reflexivity|]. split; [reflexivity|].
  assert (F : forall xh x k a C b K C2, approx eps eta xh x k a (C * b) -> INR k * (INR k + 1) * eps <= 1 -> (INR k + 1) * eps <= 1 ->
              K = INR k + 1 -> C2 = 2 * C -> Rabs (xh - x) <= K * eps * a + C2 * eta * b).
  { intros xh x k a C b K C2 HA h1 h2 h3 h4.
    apply (ap_finish _ _ _ M _ _ _ _ _ x a b K C C2 HA); try reflexivity; try assumption. apply Rle_refl. }
  split; [apply (F _ _ _ _ _ _ _ _ (ap_c2 rnd eps eta M Ht H2 H6 ts p0 p1 v0 v1 a0 a1 j0 j1 Hts)); simpl; lra|].
  split; [apply (F _ _ _ _ _ _ _ _ (ap_c3 rnd eps eta M Ht H2 H6 ts p0 p1 v0 v1 a0 a1 j0 j1 Hts)); simpl; lra|].
  split; [apply (F _ _ _ _ _ _ _ _ (ap_c4 rnd eps eta M Ht H2 H6 ts p0 p1 v0 v1 a0 a1 j0 j1 Hts)); simpl; lra|].
  split; [apply (F _ _ _ _ _ _ _ _ (ap_c5 rnd eps eta M Ht H2 H6 ts p0 p1 v0 v1 a0 a1 j0 j1 Hts)); simpl; lra|].
  split; [apply (F _ _ _ _ _ _ _ _ (ap_c6 rnd eps eta M Ht H2 H6 ts p0 p1 v0 v1 a0 a1 j0 j1 Hts)); simpl; lra|].
  apply (F _ _ _ _ _ _ _ _ (ap_c7 rnd eps eta M Ht H2 H6 ts p0 p1 v0 v1 a0 a1 j0 j1 Hts)); simpl; lra.
Qed.

(* ------------------------------------------------------------------ the statements in terms of one scale of the data *)
Definition traj7_Snat (ts p0 p1 v0 v1 a0 a1 j0 j1 : R) : R :=
  Rabs p0 + Rabs p1 + Rabs ts * (Rabs v0 + Rabs v1) + Rabs ts ^ 2 * (Rabs a0 + Rabs a1) + Rabs ts ^ 3 * (Rabs j0 + Rabs j1).

Lemma traj7_scales ts p0 p1 v0 v1 a0 a1 j0 j1 : ts <> 0 ->
  traj7_pos_scale ts p0 p1 v0 v1 a0 a1 j0 j1 <= 210 * traj7_Snat ts p0 p1 v0 v1 a0 a1 j0 j1 /\
  traj7_vel_scale ts p0 p1 v0 v1 a0 a1 j0 j1 <= 1120 * (traj7_Snat ts p0 p1 v0 v1 a0 a1 j0 j1 / Rabs ts) /\
  traj7_acc_scale ts p0 p1 v0 v1 a0 a1 j0 j1 <= 5040 * (traj7_Snat ts p0 p1 v0 v1 a0 a1 j0 j1 / Rabs ts ^ 2) /\
  traj7_jer_scale ts p0 p1 v0 v1 a0 a1 j0 j1 <= 18480 * (traj7_Snat ts p0 p1 v0 v1 a0 a1 j0 j1 / Rabs ts ^ 3).
Proof.
  intros Hts. unfold traj7_pos_scale, traj7_vel_scale, traj7_acc_scale, traj7_jer_scale, traj7_Snat.
  assert (HT : 0 < Rabs ts) by (apply Rabs_pos_lt; exact Hts).
  assert (HU : 0 < / Rabs ts) by (apply Rinv_0_lt_compat; exact HT).
  pose proof (Rabs_pos v0) as V0. pose proof (Rabs_pos v1) as V1. pose proof (Rabs_pos a0) as A0. pose proof (Rabs_pos a1) as A1.
  pose proof (Rabs_pos j0) as J0. pose proof (Rabs_pos j1) as J1.
  pose proof (Rabs_pos p0) as Q0. pose proof (Rabs_pos p1) as Q1. pose proof (Rabs_pos (p1 - p0)) as Pp.
  assert (Hp : Rabs (p1 - p0) <= Rabs p0 + Rabs p1).
  { unfold Rminus. eapply Rle_trans; [apply Rabs_triang|]. rewrite Rabs_Ropp. lra. }
  set (T := Rabs ts) in *. set (u := / T) in *.
  set (P := Rabs (p1 - p0)) in *. set (P0 := Rabs p0) in *. set (P1 := Rabs p1) in *.
  set (x0 := Rabs v0) in *. set (x1 := Rabs v1) in *. set (y0 := Rabs a0) in *. set (y1 := Rabs a1) in *.
  set (z0 := Rabs j0) in *. set (z1 := Rabs j1) in *.
  assert (HT2 : 0 <= T ^ 2) by (apply pow_le; lra). assert (HT3 : 0 <= T ^ 3) by (apply pow_le; lra).
  assert (HU2 : 0 <= u ^ 2) by (apply pow_le; lra). assert (HU3 : 0 <= u ^ 3) by (apply pow_le; lra).
  replace ((P0 + P1 + T * (x0 + x1) + T ^ 2 * (y0 + y1) + T ^ 3 * (z0 + z1)) / T)
    with (P0 * u + P1 * u + x0 + x1 + T * y0 + T * y1 + T ^ 2 * z0 + T ^ 2 * z1) by (unfold u; field; lra).
  replace ((P0 + P1 + T * (x0 + x1) + T ^ 2 * (y0 + y1) + T ^ 3 * (z0 + z1)) / T ^ 2)
    with (P0 * u ^ 2 + P1 * u ^ 2 + x0 * u + x1 * u + y0 + y1 + T * z0 + T * z1) by (unfold u; field; lra).
  replace ((P0 + P1 + T * (x0 + x1) + T ^ 2 * (y0 + y1) + T ^ 3 * (z0 + z1)) / T ^ 3)
    with (P0 * u ^ 3 + P1 * u ^ 3 + x0 * u ^ 2 + x1 * u ^ 2 + y0 * u + y1 * u + z0 + z1) by (unfold u; field; lra).
  replace (P / T) with (P * u) by reflexivity.
  replace (P / T ^ 2) with (P * u ^ 2) by (unfold u; field; lra).
  replace (P / T ^ 3) with (P * u ^ 3) by (unfold u; field; lra).
  replace ((2640 * x0 + 2400 * x1) / T) with (2640 * (x0 * u) + 2400 * (x1 * u)) by (unfold u; field; lra).
  replace ((2040 * y0 + 1680 * y1) / T) with (2040 * (y0 * u) + 1680 * (y1 * u)) by (unfold u; field; lra).
  replace ((9600 * x0 + 8880 * x1) / T ^ 2) with (9600 * (x0 * u ^ 2) + 8880 * (x1 * u ^ 2)) by (unfold u; field; lra).
  assert (P * u <= (P0 + P1) * u) by (apply Rmult_le_compat_r; lra).
  assert (P * u ^ 2 <= (P0 + P1) * u ^ 2) by (apply Rmult_le_compat_r; lra).
  assert (P * u ^ 3 <= (P0 + P1) * u ^ 3) by (apply Rmult_le_compat_r; lra).
  assert (HUl : 0 <= u) by lra. assert (HTl : 0 <= T) by lra.
  pose proof (Rmult_le_pos _ _ Q0 HUl). pose proof (Rmult_le_pos _ _ Q1 HUl).
  pose proof (Rmult_le_pos _ _ Q0 HU2). pose proof (Rmult_le_pos _ _ Q1 HU2).
  pose proof (Rmult_le_pos _ _ Q0 HU3). pose proof (Rmult_le_pos _ _ Q1 HU3).
  pose proof (Rmult_le_pos _ _ V0 HUl). pose proof (Rmult_le_pos _ _ V1 HUl).
  pose proof (Rmult_le_pos _ _ V0 HU2). pose proof (Rmult_le_pos _ _ V1 HU2).
  pose proof (Rmult_le_pos _ _ A0 HUl). pose proof (Rmult_le_pos _ _ A1 HUl).
  pose proof (Rmult_le_pos _ _ HTl V0). pose proof (Rmult_le_pos _ _ HTl V1).
  pose proof (Rmult_le_pos _ _ HTl A0). pose proof (Rmult_le_pos _ _ HTl A1).
  pose proof (Rmult_le_pos _ _ HTl J0). pose proof (Rmult_le_pos _ _ HTl J1).
  pose proof (Rmult_le_pos _ _ HT2 A0). pose proof (Rmult_le_pos _ _ HT2 A1).
  pose proof (Rmult_le_pos _ _ HT2 J0). pose proof (Rmult_le_pos _ _ HT2 J1).
  pose proof (Rmult_le_pos _ _ HT3 J0). pose proof (Rmult_le_pos _ _ HT3 J1).
  repeat split; lra.
Qed.

(* septic, end values, natural scale S7 = |p0| + |p1| + |ts|(|v0|+|v1|) + |ts|^2(|a0|+|a1|) + |ts|^3(|j0|+|j1|).
   Hypotheses rnd 2 = 2, rnd 6 = 6: the model computes the constants (a_real)(1.0 / 2), (a_real)(1.0 / 6) as
   rnd (rnd 1 / rnd 2), rnd (rnd 1 / rnd 6); 2 and 6 are numbers of every binary format with at least 2 digits; the quotient
   1/6 is NOT a binary number: its rounding is counted (two of the 42 roundings of the longest path). *)
Theorem traj7_end_rounding_bound (rnd : R -> R) (eps eta : R) : std_model rnd eps eta -> eps <= / 1048576 -> eta <= 1 ->
  rnd 2 = 2 -> rnd 6 = 6 ->
  forall ts p0 p1 v0 v1 a0 a1 j0 j1, ts <> 0 ->
  let c := trajpoly7_gen (Rnd_ops rnd) ts p0 p1 v0 v1 a0 a1 j0 j1 in
  let S := traj7_Snat ts p0 p1 v0 v1 a0 a1 j0 j1 in
  exists pr vr ar jr, traj_pos (Rnd_ops rnd) c ts = Some pr /\ traj_vel (Rnd_ops rnd) c ts = Some vr /\
    traj_acc (Rnd_ops rnd) c ts = Some ar /\ traj_jer (Rnd_ops rnd) c ts = Some jr /\
    Rabs (pr - p1) <= 9030 * eps * S + 1000000 * eta * traj7_eta_scale 7 7 ts p0 p1 v0 v1 a0 a1 j0 j1 /\
    Rabs (vr - v1) <= 48160 * eps * (S / Rabs ts) + 4000000 * eta * traj7_eta_scale 7 6 ts p0 p1 v0 v1 a0 a1 j0 j1 /\
    Rabs (ar - a1) <= 216720 * eps * (S / Rabs ts ^ 2) + 30000000 * eta * traj7_eta_scale 7 5 ts p0 p1 v0 v1 a0 a1 j0 j1 /\
    Rabs (jr - j1) <= 794640 * eps * (S / Rabs ts ^ 3) + 300000000 * eta * traj7_eta_scale 7 4 ts p0 p1 v0 v1 a0 a1 j0 j1.
Proof.
  intros M He Ht H2 H6 ts p0 p1 v0 v1 a0 a1 j0 j1 Hts c S.
  destruct (traj7_end_pos_weighted rnd eps eta M He Ht H2 H6 ts p0 p1 v0 v1 a0 a1 j0 j1 Hts) as (pr & E1 & B1).
  destruct (traj7_end_vel_weighted rnd eps eta M He Ht H2 H6 ts p0 p1 v0 v1 a0 a1 j0 j1 Hts) as (vr & E2 & B2).
  destruct (traj7_end_acc_weighted rnd eps eta M He Ht H2 H6 ts p0 p1 v0 v1 a0 a1 j0 j1 Hts) as (ar & E3 & B3).
  destruct (traj7_end_jer_weighted rnd eps eta M He Ht H2 H6 ts p0 p1 v0 v1 a0 a1 j0 j1 Hts) as (jr & E4 & B4).
  exists pr, vr, ar, jr. split; [exact E1|]. split; [exact E2|]. split; [exact E3|]. split; [exact E4|].
  destruct (traj7_scales ts p0 p1 v0 v1 a0 a1 j0 j1 Hts) as (S1 & S2 & S3 & S4). fold S in S1, S2, S3, S4.
  pose proof (eps_ge0 _ _ _ M) as Hu.
  assert (43 * eps * traj7_pos_scale ts p0 p1 v0 v1 a0 a1 j0 j1 <= 43 * eps * (210 * S)) by (apply Rmult_le_compat_l; lra).
  assert (43 * eps * traj7_vel_scale ts p0 p1 v0 v1 a0 a1 j0 j1 <= 43 * eps * (1120 * (S / Rabs ts))) by (apply Rmult_le_compat_l; lra).
  assert (43 * eps * traj7_acc_scale ts p0 p1 v0 v1 a0 a1 j0 j1 <= 43 * eps * (5040 * (S / Rabs ts ^ 2))) by (apply Rmult_le_compat_l; lra).
  assert (43 * eps * traj7_jer_scale ts p0 p1 v0 v1 a0 a1 j0 j1 <= 43 * eps * (18480 * (S / Rabs ts ^ 3))) by (apply Rmult_le_compat_l; lra).
  repeat split; lra.
Qed.

(* the sharper weighted form *)
Theorem traj7_end_rounding_weighted (rnd : R -> R) (eps eta : R) : std_model rnd eps eta -> eps <= / 1048576 -> eta <= 1 ->
  rnd 2 = 2 -> rnd 6 = 6 ->
  forall ts p0 p1 v0 v1 a0 a1 j0 j1, ts <> 0 ->
  let c := trajpoly7_gen (Rnd_ops rnd) ts p0 p1 v0 v1 a0 a1 j0 j1 in
  exists pr vr ar jr, traj_pos (Rnd_ops rnd) c ts = Some pr /\ traj_vel (Rnd_ops rnd) c ts = Some vr /\
    traj_acc (Rnd_ops rnd) c ts = Some ar /\ traj_jer (Rnd_ops rnd) c ts = Some jr /\
    Rabs (pr - p1) <= 43 * eps * traj7_pos_scale ts p0 p1 v0 v1 a0 a1 j0 j1 + 1000000 * eta * traj7_eta_scale 7 7 ts p0 p1 v0 v1 a0 a1 j0 j1 /\
    Rabs (vr - v1) <= 43 * eps * traj7_vel_scale ts p0 p1 v0 v1 a0 a1 j0 j1 + 4000000 * eta * traj7_eta_scale 7 6 ts p0 p1 v0 v1 a0 a1 j0 j1 /\
    Rabs (ar - a1) <= 43 * eps * traj7_acc_scale ts p0 p1 v0 v1 a0 a1 j0 j1 + 30000000 * eta * traj7_eta_scale 7 5 ts p0 p1 v0 v1 a0 a1 j0 j1 /\
    Rabs (jr - j1) <= 43 * eps * traj7_jer_scale ts p0 p1 v0 v1 a0 a1 j0 j1 + 300000000 * eta * traj7_eta_scale 7 4 ts p0 p1 v0 v1 a0 a1 j0 j1.
Proof.
  intros M He Ht H2 H6 ts p0 p1 v0 v1 a0 a1 j0 j1 Hts c.
  destruct (traj7_end_pos_weighted rnd eps eta M He Ht H2 H6 ts p0 p1 v0 v1 a0 a1 j0 j1 Hts) as (pr & E1 & B1).
  destruct (traj7_end_vel_weighted rnd eps eta M He Ht H2 H6 ts p0 p1 v0 v1 a0 a1 j0 j1 Hts) as (vr & E2 & B2).
  destruct (traj7_end_acc_weighted rnd eps eta M He Ht H2 H6 ts p0 p1 v0 v1 a0 a1 j0 j1 Hts) as (ar & E3 & B3).
  destruct (traj7_end_jer_weighted rnd eps eta M He Ht H2 H6 ts p0 p1 v0 v1 a0 a1 j0 j1 Hts) as (jr & E4 & B4).
  exists pr, vr, ar, jr. repeat split; assumption.
Qed.

Theorem traj7_end_rounding_bound_binary64 : forall ts p0 p1 v0 v1 a0 a1 j0 j1, ts <> 0 ->
  let c := trajpoly7_gen (Rnd_ops rnd64) ts p0 p1 v0 v1 a0 a1 j0 j1 in
  let S := traj7_Snat ts p0 p1 v0 v1 a0 a1 j0 j1 in
  exists pr vr ar jr, traj_pos (Rnd_ops rnd64) c ts = Some pr /\ traj_vel (Rnd_ops rnd64) c ts = Some vr /\
    traj_acc (Rnd_ops rnd64) c ts = Some ar /\ traj_jer (Rnd_ops rnd64) c ts = Some jr /\
    Rabs (pr - p1) <= 9030 * eps64 * S + 1000000 * eta64 * traj7_eta_scale 7 7 ts p0 p1 v0 v1 a0 a1 j0 j1 /\
    Rabs (vr - v1) <= 48160 * eps64 * (S / Rabs ts) + 4000000 * eta64 * traj7_eta_scale 7 6 ts p0 p1 v0 v1 a0 a1 j0 j1 /\
    Rabs (ar - a1) <= 216720 * eps64 * (S / Rabs ts ^ 2) + 30000000 * eta64 * traj7_eta_scale 7 5 ts p0 p1 v0 v1 a0 a1 j0 j1 /\
    Rabs (jr - j1) <= 794640 * eps64 * (S / Rabs ts ^ 3) + 300000000 * eta64 * traj7_eta_scale 7 4 ts p0 p1 v0 v1 a0 a1 j0 j1.
Proof.
  apply (traj7_end_rounding_bound _ _ _ std_model_binary64 eps64_small eta64_le1); [apply (rnd64_IZR 2)|apply (rnd64_IZR 6)]; simpl; lia.
Qed.

(* ------------------------------------------------------------------ the start of the trajectory.
   c0 = p0 and c1 = v0 are stored as given and evaluating at 0 multiplies by 0 and adds 0: position and velocity at time 0
   are rnd p0 and rnd v0, EXACTLY p0 and v0 for numbers of the format.  Acceleration and jerk at 0 are
   rnd (rnd (rnd (a0 * half) * 2)) and rnd (rnd (rnd (rnd (j0 * sixth) * 3) * 2)) with half, sixth the rounded constants:
   within 7 eps |a0| and 9 eps |j0| of a0 and j0 (the product by the rounded 1/6 followed by 3 and 2 does not give j0 back
   exactly in binary arithmetic). *)
Lemma horner7_at0 (rnd : R -> R) (eps eta : R) : std_model rnd eps eta -> forall c0 c1 c2 c3 c4 c5 c6 c7,
  let c := [c0; c1; c2; c3; c4; c5; c6; c7] in
  traj_pos (Rnd_ops rnd) c 0 = Some (rnd c0) /\ traj_vel (Rnd_ops rnd) c 0 = Some (rnd c1) /\
  traj_acc (Rnd_ops rnd) c 0 = Some (rnd (rnd (c2 * rnd 2))) /\
  traj_jer (Rnd_ops rnd) c 0 = Some (rnd (rnd (rnd (c3 * rnd 3) * rnd 2))).
Proof.
  intros M c0 c1 c2 c3 c4 c5 c6 c7 c. unfold c, traj_pos, traj_vel, traj_acc, traj_jer, poly_eval, c1_of, c2_of, c3_of.
  cbn [rev app fold_left length seq combine map Z.of_nat Nat.sub Pos.of_succ_nat Pos.succ]. unfold_rops.
  repeat (rewrite Rmult_0_r || rewrite (rnd_0 _ _ _ M) || rewrite Rplus_0_l). repeat split.
Qed.

Theorem traj7_start_exact (rnd : R -> R) (eps eta : R) : std_model rnd eps eta ->
  forall ts p0 p1 v0 v1 a0 a1 j0 j1,
  let c := trajpoly7_gen (Rnd_ops rnd) ts p0 p1 v0 v1 a0 a1 j0 j1 in
  nth 0 c 0 = p0 /\ nth 1 c 0 = v0 /\
  traj_pos (Rnd_ops rnd) c 0 = Some (rnd p0) /\ traj_vel (Rnd_ops rnd) c 0 = Some (rnd v0) /\
  (rnd p0 = p0 -> traj_pos (Rnd_ops rnd) c 0 = Some p0) /\ (rnd v0 = v0 -> traj_vel (Rnd_ops rnd) c 0 = Some v0).
Proof.
  intros M ts p0 p1 v0 v1 a0 a1 j0 j1 c.
  destruct (horner7_at0 rnd eps eta M p0 v0 (nth 2 c 0) (nth 3 c 0) (nth 4 c 0) (nth 5 c 0) (nth 6 c 0) (nth 7 c 0)) as (E1 & E2 & _).
  split; [reflexivity|]. split; [reflexivity|]. split; [exact E1|]. split; [exact E2|].
  split; intros <-; assumption.
Qed.

Theorem traj7_start_rounding_bound (rnd : R -> R) (eps eta : R) : std_model rnd eps eta -> eps <= / 1048576 -> eta <= 1 ->
  rnd 2 = 2 -> rnd 6 = 6 ->
  forall ts p0 p1 v0 v1 a0 a1 j0 j1,
  let c := trajpoly7_gen (Rnd_ops rnd) ts p0 p1 v0 v1 a0 a1 j0 j1 in
  exists ar jr, traj_acc (Rnd_ops rnd) c 0 = Some ar /\ traj_jer (Rnd_ops rnd) c 0 = Some jr /\
    Rabs (ar - a0) <= 7 * eps * Rabs a0 + 16 * eta * (1 + Rabs a0) /\
    Rabs (jr - j0) <= 9 * eps * Rabs j0 + 64 * eta * (1 + Rabs j0).
Proof.
  intros M He Ht H2 H6 ts p0 p1 v0 v1 a0 a1 j0 j1 c.
  destruct (horner7_at0 rnd eps eta M p0 v0 (nth 2 c 0) (nth 3 c 0) (nth 4 c 0) (nth 5 c 0) (nth 6 c 0) (nth 7 c 0)) as (_ & _ & E3 & E4).
  eexists. eexists. split; [exact E3|]. split; [exact E4|].
  pose proof (eps_ge0 _ _ _ M) as Hu. pose proof (Rabs_pos a0). pose proof (Rabs_pos j0).
  pose proof (ap_half rnd eps eta M H2) as Hh. pose proof (ap_sixth rnd eps eta M H6) as Hs.
  unfold c, trajpoly7_gen, half, sixth. cbn [nth]. unfold_rops.
  set (hf := rnd (rnd 1 / rnd 2)) in *. set (sx := rnd (rnd 1 / rnd 6)) in *.
  split.
  - match goal with |- Rabs (rnd ?t - _) <= _ =>
      eassert (HA : approx eps eta t _ _ _ _) by (ap_build M Ht rnd ts I) end.
    apply (ap_rnd1 _ _ _ M) in HA. cbn [Nat.max Nat.add Z.abs] in HA.
    eapply (ap_finish _ _ _ M _ _ _ _ _ _ _ _ _ 8 _ HA); [field|field|poly_le_frac|simpl; lra|simpl; lra|simpl; lra|lra].
  - match goal with |- Rabs (rnd ?t - _) <= _ =>
      eassert (HA : approx eps eta t _ _ _ _) by (ap_build M Ht rnd ts I) end.
    apply (ap_rnd1 _ _ _ M) in HA. cbn [Nat.max Nat.add Z.abs] in HA.
    eapply (ap_finish _ _ _ M _ _ _ _ _ _ _ _ _ 32 _ HA); [field|field|poly_le_frac|simpl; lra|simpl; lra|simpl; lra|lra].
Qed.

(* ------------------------------------------------------------------ non-vacuity *)
(* 1: the identity rounding is a model (eps = eta = 0): the bound is 0, the computed end values ARE p1, v1, a1, j1 *)
Example traj7_end_id : forall ts p0 p1 v0 v1 a0 a1 j0 j1, ts <> 0 ->
  let c := trajpoly7_gen (Rnd_ops (fun v => v)) ts p0 p1 v0 v1 a0 a1 j0 j1 in
  traj_pos (Rnd_ops (fun v => v)) c ts = Some p1 /\ traj_vel (Rnd_ops (fun v => v)) c ts = Some v1 /\
  traj_acc (Rnd_ops (fun v => v)) c ts = Some a1 /\ traj_jer (Rnd_ops (fun v => v)) c ts = Some j1.
Proof.
  intros ts p0 p1 v0 v1 a0 a1 j0 j1 Hts c.
  assert (Z : forall x y, Rabs (x - y) <= 0 -> x = y).
  { intros x y H. pose proof (Rabs_pos (x - y)). destruct (Req_dec (x - y) 0) as [E|E]; [lra|]. apply Rabs_no_R0 in E. lra. }
  destruct (traj7_end_rounding_weighted _ 0 0 std_model_id ltac:(lra) ltac:(lra) eq_refl eq_refl ts p0 p1 v0 v1 a0 a1 j0 j1 Hts)
    as (pr & vr & ar & jr & E1 & E2 & E3 & E4 & B1 & B2 & B3 & B4).
  unfold c. rewrite E1, E2, E3, E4. repeat split; f_equal; apply Z; lra.
Qed.

(* 2: a rounding that is NOT exact and satisfies every hypothesis of the general theorem: 2 and 6 are kept, every other number
   is multiplied by 1 + 2^-20 (eps = 2^-20, eta = 0) *)
Definition rnd_keep26 (v : R) : R := if Req_EM_T v 2 then v else if Req_EM_T v 6 then v else v * (1 + / 1048576).
Lemma std_model_keep26 : std_model rnd_keep26 (/ 1048576) 0 /\ rnd_keep26 2 = 2 /\ rnd_keep26 6 = 6 /\ rnd_keep26 1 <> 1.
Proof.
  split; [|split; [|split]].
  - constructor; [|unfold rnd_keep26; destruct (Req_EM_T 0 2); [lra|]; destruct (Req_EM_T 0 6); [lra|ring]|lra|lra].
    intros v. pose proof (Rabs_pos v). unfold rnd_keep26.
    destruct (Req_EM_T v 2); [rewrite Rminus_diag_eq, Rabs_R0 by reflexivity; lra|].
    destruct (Req_EM_T v 6); [rewrite Rminus_diag_eq, Rabs_R0 by reflexivity; lra|].
    replace (v * (1 + / 1048576) - v) with (v * / 1048576) by ring. rewrite Rabs_mult, (Rabs_pos_eq (/ 1048576)) by lra. lra.
  - unfold rnd_keep26. destruct (Req_EM_T 2 2); [reflexivity|lra].
  - unfold rnd_keep26. destruct (Req_EM_T 6 2); [reflexivity|]. destruct (Req_EM_T 6 6); [reflexivity|lra].
  - unfold rnd_keep26. destruct (Req_EM_T 1 2); [lra|]. destruct (Req_EM_T 1 6); lra.
Qed.
Example traj7_end_keep26 : forall ts p0 p1 v0 v1 a0 a1 j0 j1, ts <> 0 ->
  exists pr, traj_pos (Rnd_ops rnd_keep26) (trajpoly7_gen (Rnd_ops rnd_keep26) ts p0 p1 v0 v1 a0 a1 j0 j1) ts = Some pr /\
    Rabs (pr - p1) <= 9030 * / 1048576 * traj7_Snat ts p0 p1 v0 v1 a0 a1 j0 j1.
Proof.
  intros ts p0 p1 v0 v1 a0 a1 j0 j1 Hts. destruct std_model_keep26 as (M & K2 & K6 & _).
  destruct (traj7_end_rounding_bound _ _ _ M ltac:(lra) ltac:(lra) K2 K6 ts p0 p1 v0 v1 a0 a1 j0 j1 Hts)
    as (pr & vr & ar & jr & E1 & _ & _ & _ & B1 & _).
  exists pr. split; [exact E1|]. lra.
Qed.

(* 3: binary64, ts = 2, 0 -> 10, v: 1 -> -1, a: 1 -> -1, j: 1 -> 0: all four end values within 2^-30 *)
Example traj7_end_binary64_ex :
  let c := trajpoly7_gen (Rnd_ops rnd64) 2 0 10 1 (-1) 1 (-1) 1 0 in
  exists pr vr ar jr, traj_pos (Rnd_ops rnd64) c 2 = Some pr /\ traj_vel (Rnd_ops rnd64) c 2 = Some vr /\
    traj_acc (Rnd_ops rnd64) c 2 = Some ar /\ traj_jer (Rnd_ops rnd64) c 2 = Some jr /\
    Rabs (pr - 10) <= / 1073741824 /\ Rabs (vr - -1) <= / 1073741824 /\ Rabs (ar - -1) <= / 1073741824 /\ Rabs (jr - 0) <= / 1073741824.
Proof.
  intros c.
  destruct (traj7_end_rounding_bound_binary64 2 0 10 1 (-1) 1 (-1) 1 0 ltac:(lra)) as (pr & vr & ar & jr & E1 & E2 & E3 & E4 & B1 & B2 & B3 & B4).
  exists pr, vr, ar, jr. split; [exact E1|]. split; [exact E2|]. split; [exact E3|]. split; [exact E4|].
  unfold traj7_Snat, traj7_eta_scale, traj7_W in B1, B2, B3, B4.
  replace (10 - 0) with 10 in * by ring.
  assert (A0 : Rabs 0 = 0) by apply Rabs_R0. assert (A1 : Rabs 1 = 1) by (apply Rabs_pos_eq; lra).
  assert (A2 : Rabs 2 = 2) by (apply Rabs_pos_eq; lra). assert (A10 : Rabs 10 = 10) by (apply Rabs_pos_eq; lra).
  assert (Am : Rabs (-1) = 1) by (unfold Rabs; destruct Rcase_abs; lra).
  rewrite A0, A1, A2, A10, Am in *.
  assert (Ht : eta64 <= / 1267650600228229401496703205376).
  { unfold eta64. change (/ 1267650600228229401496703205376) with (Flocq.Core.Raux.bpow Flocq.Core.Zaux.radix2 (-100)).
    apply Flocq.Core.Raux.bpow_le. lia. }
  assert (Ht0 : 0 <= eta64) by (apply (eta_ge0 _ _ _ std_model_binary64)).
  rewrite eps64_val in *. cbn [pow] in B1, B2, B3, B4. repeat split; lra.
Qed.
