(* C16, the low-pass filter: the binary64 (primitive float) run of the model IS the rounded-real run.

   The rounding theorems of FilterRound.v are about  lpf_iter (Rnd_ops rnd64)  - exact real operations each followed by
   round-to-nearest-even.  The bit-exact correspondence with the C is about  lpf_iter F64_ops  - Coq's primitive
   floats.  Until now the two were related only operation by operation (Common/RoundFlocq.v).  Here the relation is
   composed along the program and along a whole run:

     f64_lpf_iter_refines : finite alpha in [0,1], finite state and sample of magnitude <= 2^1022
                            -> the float step is finite and its real value is the rounded-real step
     f64_lpf_run_refines  : for EVERY input list, as long as the rounded-real outputs stay <= 2^1022 in magnitude
                            (the overflow guard, stated on the real-number side where the hull theorems bound it)
     f64_lpf_run_nonneg / f64_lpf_run_mono-style corollaries transport FilterRound's theorems to the float run.

   The magnitude hypothesis is what keeps the four operations of a step away from the overflow threshold: both products
   have a factor in [0,1] (monotone rounding keeps rnd64 (1 - alpha) in [0,1]), so they are bounded by the state and
   the sample, and their sum by 2^1023 < 2^1024. *)
From Coq Require Import Reals ZArith Lra Lia List Floats Bool.
From Flocq Require Import Core.
From LibaV Require Import Common.NumOps Common.ROps Common.RoundOps Common.RoundMono Common.RoundFlocq Common.FloatOps
                          Common.F64Refine C16.FilterDefs C16.FilterRound.
Import ListNotations.
Local Open Scope R_scope.

Local Notation pfloat := Floats.PrimFloat.float.
Definition B1022 : R := bpow radix2 1022.

Lemma B1022_fix : rnd64 B1022 = B1022.
Proof. apply rnd64_bpow. lia. Qed.
Lemma B1023_fix : rnd64 (bpow radix2 1023) = bpow radix2 1023.
Proof. apply rnd64_bpow. lia. Qed.
Lemma B1022_twice : B1022 + B1022 = bpow radix2 1023.
Proof. unfold B1022. change 1023%Z with (1022 + 1)%Z. rewrite bpow_plus. simpl (bpow radix2 1). lra. Qed.
Lemma B1023_lt : bpow radix2 1023 < bpow radix2 1024.
Proof. apply bpow_lt. lia. Qed.
Lemma B1022_lt : B1022 < bpow radix2 1024.
Proof. apply bpow_lt. lia. Qed.
Lemma one_lt_B1024 : 1 < bpow radix2 1024.
Proof. change 1 with (bpow radix2 0). apply bpow_lt. lia. Qed.
Lemma B1022_pos : 0 < B1022.
Proof. apply bpow_gt_0. Qed.

(* |o * b| <= |o| for b in [0,1] *)
Lemma Rabs_mul_01 (o b m : R) : 0 <= b <= 1 -> Rabs o <= m -> Rabs (o * b) <= m.
Proof.
  intros [Hb0 Hb1] Ho. rewrite Rabs_mult, (Rabs_pos_eq b) by exact Hb0.
  pose proof (Rabs_pos o). nra.
Qed.

(* the rounded-real step, written out *)
Lemma r64_lpf_iter_eq a o x :
  lpf_iter (Rnd_ops rnd64) a o x = rnd64 (rnd64 (o * rnd64 (rnd64 1 - a)) + rnd64 (x * a)).
Proof. reflexivity. Qed.

Theorem f64_lpf_iter_refines (alpha o x : pfloat) :
  ffinite alpha = true -> ffinite o = true -> ffinite x = true ->
  0 <= f2r alpha <= 1 -> Rabs (f2r o) <= B1022 -> Rabs (f2r x) <= B1022 ->
  frel (lpf_iter F64_ops alpha o x) (lpf_iter (Rnd_ops rnd64) (f2r alpha) (f2r o) (f2r x)).
Proof.
  intros Fa Fo Fx Ha Ho Hx. pose proof mono_rnd_binary64 as M.
  pose proof (frel_f2r _ Fa) as Ra. pose proof (frel_f2r _ Fo) as Ro. pose proof (frel_f2r _ Fx) as Rx.
  set (a := f2r alpha) in *. set (ov := f2r o) in *. set (xv := f2r x) in *.
  assert (Hb : 0 <= rnd64 (rnd64 1 - a) <= 1).
  { rewrite rnd64_1. apply (mrnd_01 rnd64 M). lra. }
  unfold lpf_iter.
  assert (R1 : frel (sub F64_ops (ofZ F64_ops 1) alpha) (sub (Rnd_ops rnd64) (ofZ (Rnd_ops rnd64) 1) a)).
  { apply frel_sub; [exact frel_ofZ1|exact Ra|].
    cbn [ofZ Rnd_ops]. rewrite rnd64_1. apply no_overflow_le with (m := 1); [|exact rnd64_1|exact one_lt_B1024].
    rewrite Rabs_pos_eq; lra. }
  assert (R2 : frel (mul F64_ops o (sub F64_ops (ofZ F64_ops 1) alpha))
                    (mul (Rnd_ops rnd64) ov (sub (Rnd_ops rnd64) (ofZ (Rnd_ops rnd64) 1) a))).
  { apply frel_mul; [exact Ro|exact R1|].
    apply no_overflow_le with (m := B1022); [|exact B1022_fix|exact B1022_lt].
    apply Rabs_mul_01; [exact Hb|exact Ho]. }
  assert (R3 : frel (mul F64_ops x alpha) (mul (Rnd_ops rnd64) xv a)).
  { apply frel_mul; [exact Rx|exact Ra|].
    apply no_overflow_le with (m := B1022); [|exact B1022_fix|exact B1022_lt].
    apply Rabs_mul_01; [exact Ha|exact Hx]. }
  apply frel_add; [exact R2|exact R3|].
  apply no_overflow_le with (m := bpow radix2 1023); [|exact B1023_fix|exact B1023_lt].
  rewrite <- B1022_twice. eapply Rle_trans; [apply Rabs_triang|].
  apply Rplus_le_compat; cbn [mul sub ofZ Rnd_ops]; apply rnd64_abs_le; try exact B1022_fix.
  - apply Rabs_mul_01; [exact Hb|exact Ho].
  - apply Rabs_mul_01; [exact Ha|exact Hx].
Qed.

(* the run, for every NumOps instance, as a Fixpoint *)
Fixpoint g_lpf_outs {T} (O : NumOps T) (alpha o : T) (xs : list T) : list T :=
  match xs with
  | [] => []
  | x :: r => let o' := lpf_iter O alpha o x in o' :: g_lpf_outs O alpha o' r
  end.

Lemma g_lpf_run_outs {T} (O : NumOps T) alpha : forall xs o acc,
  snd (fold_left (fun st x => let o := lpf_iter O alpha (fst st) x in (o, snd st ++ [o])) xs (o, acc)) =
  acc ++ g_lpf_outs O alpha o xs.
Proof.
  induction xs as [|x r IH]; intros o acc; cbn [fold_left g_lpf_outs]; [rewrite app_nil_r; reflexivity|].
  cbv zeta. cbn [fst snd]. rewrite IH, <- app_assoc. reflexivity.
Qed.

Lemma g_lpf_run_eq {T} (O : NumOps T) alpha o xs : lpf_run O alpha o xs = g_lpf_outs O alpha o xs.
Proof. unfold lpf_run. rewrite g_lpf_run_outs. reflexivity. Qed.

Definition fin_le (x : pfloat) : Prop := ffinite x = true /\ Rabs (f2r x) <= B1022.

Theorem f64_lpf_run_refines (alpha : pfloat) : ffinite alpha = true -> 0 <= f2r alpha <= 1 ->
  forall (xs : list pfloat) (o : pfloat), fin_le o -> Forall fin_le xs ->
  Forall (fun y => Rabs y <= B1022) (lpf_run (Rnd_ops rnd64) (f2r alpha) (f2r o) (map f2r xs)) ->
  Forall2 frel (lpf_run F64_ops alpha o xs) (lpf_run (Rnd_ops rnd64) (f2r alpha) (f2r o) (map f2r xs)).
Proof.
  intros Fa Ha xs.
  induction xs as [|x r IH]; intros o [Fo Ho] Hxs Hys; rewrite !g_lpf_run_eq in *; cbn [map g_lpf_outs] in *; [constructor|].
  apply Forall_cons_iff in Hxs. destruct Hxs as [[Fx Hx] Hr].
  apply Forall_cons_iff in Hys. destruct Hys as [Hy Hys].
  pose proof (f64_lpf_iter_refines alpha o x Fa Fo Fx Ha Ho Hx) as [F1 E1].
  constructor; [split; assumption|].
  rewrite <- E1 in Hy, Hys |- *.
  rewrite <- !g_lpf_run_eq. apply IH; [split; assumption|exact Hr|].
  rewrite g_lpf_run_eq. exact Hys.
Qed.

(* transport: what FilterRound proves of the rounded-real run holds of the real values of the float run *)
Lemma Forall2_frel_map xs ys : Forall2 frel xs ys -> map f2r xs = ys /\ Forall (fun x => ffinite x = true) xs.
Proof.
  induction 1 as [|x y xs ys [F E] _ [IH1 IH2]]; [split; [reflexivity|constructor]|].
  split; [cbn [map]; rewrite E, IH1; reflexivity|constructor; assumption].
Qed.

Theorem f64_lpf_run_values (alpha : pfloat) : ffinite alpha = true -> 0 <= f2r alpha <= 1 ->
  forall (xs : list pfloat) (o : pfloat), fin_le o -> Forall fin_le xs ->
  Forall (fun y => Rabs y <= B1022) (lpf_run (Rnd_ops rnd64) (f2r alpha) (f2r o) (map f2r xs)) ->
  map f2r (lpf_run F64_ops alpha o xs) = lpf_run (Rnd_ops rnd64) (f2r alpha) (f2r o) (map f2r xs) /\
  Forall (fun y => ffinite y = true) (lpf_run F64_ops alpha o xs).
Proof. intros Fa Ha xs o Ho Hxs Hys. apply Forall2_frel_map. apply f64_lpf_run_refines; assumption. Qed.

(* non-negative data: the float run stays finite and non-negative - the sign hull of FilterRound on the float side.
   The overflow guard is discharged for non-negative data bounded by M <= 2^1022 whenever the corner M is stable
   (lpf_iter alpha M M <= M), the exact condition of C16_round_lpf_hull_iff_corners. *)
Theorem f64_lpf_run_hull (alpha : pfloat) (Mx : R) : ffinite alpha = true -> 0 <= f2r alpha <= 1 ->
  0 <= Mx <= B1022 ->
  - Mx <= lpf_iter (Rnd_ops rnd64) (f2r alpha) (- Mx) (- Mx) ->
  lpf_iter (Rnd_ops rnd64) (f2r alpha) Mx Mx <= Mx ->
  forall (xs : list pfloat) (o : pfloat),
  ffinite o = true -> - Mx <= f2r o <= Mx ->
  Forall (fun x => ffinite x = true /\ - Mx <= f2r x <= Mx) xs ->
  Forall (fun y => ffinite y = true /\ - Mx <= f2r y <= Mx) (lpf_run F64_ops alpha o xs).
Proof.
  intros Fa Ha HM Hlo Hhi xs o Fo Ho Hxs.
  pose proof mono_rnd_binary64 as M.
  assert (Hull : Forall (fun y => - Mx <= y <= Mx) (lpf_run (Rnd_ops rnd64) (f2r alpha) (f2r o) (map f2r xs))).
  { apply (proj2 (r_lpf_hull_iff_corners rnd64 M (f2r alpha) (- Mx) Mx Ha ltac:(lra))); [split; assumption|exact Ho|].
    apply Forall_forall. intros y Hy. apply in_map_iff in Hy. destruct Hy as (x & <- & Hx).
    rewrite Forall_forall in Hxs. exact (proj2 (Hxs x Hx)). }
  assert (G : Forall (fun y => Rabs y <= B1022) (lpf_run (Rnd_ops rnd64) (f2r alpha) (f2r o) (map f2r xs))).
  { eapply Forall_impl; [|exact Hull]. cbv beta. intros y Hy. apply Rabs_le. lra. }
  assert (Ho' : fin_le o) by (split; [exact Fo|apply Rabs_le; lra]).
  assert (Hxs' : Forall fin_le xs).
  { eapply Forall_impl; [|exact Hxs]. cbv beta. intros x [Fx Hx]. split; [exact Fx|apply Rabs_le; lra]. }
  destruct (f64_lpf_run_values alpha Fa Ha xs o Ho' Hxs' G) as [E F].
  rewrite <- E in Hull. rewrite Forall_map in Hull.
  apply Forall_forall. intros y Hy. rewrite Forall_forall in Hull, F. split; [apply F|apply Hull]; exact Hy.
Qed.

(* non-vacuity: the corner conditions of f64_lpf_run_hull hold for alpha = 1/2 and the bound 1024 (every operation of the
   corner step is exact), and 0.5, 1024 are finite floats with these values *)
Lemma rnd64_is_bpow e r : r = bpow radix2 e -> (-1074 <= e)%Z -> rnd64 r = r.
Proof. intros -> He. apply rnd64_bpow. exact He. Qed.

Example lpf_corner_half_1024 :
  - 1024 <= lpf_iter (Rnd_ops rnd64) (/ 2) (- 1024) (- 1024) /\ lpf_iter (Rnd_ops rnd64) (/ 2) 1024 1024 <= 1024.
Proof.
  pose proof mono_rnd_binary64 as M.
  assert (H : lpf_iter (Rnd_ops rnd64) (/ 2) 1024 1024 = 1024).
  { rewrite r64_lpf_iter_eq, rnd64_1.
    rewrite (rnd64_is_bpow (-1) (1 - / 2)) by (simpl; lra || lia).
    rewrite (rnd64_is_bpow 9 (1024 * (1 - / 2))) by (simpl; lra || lia).
    rewrite (rnd64_is_bpow 9 (1024 * / 2)) by (simpl; lra || lia).
    rewrite (rnd64_is_bpow 10) by (simpl; lra || lia). lra. }
  assert (H' : lpf_iter (Rnd_ops rnd64) (/ 2) (- 1024) (- 1024) = - 1024).
  { rewrite r64_lpf_iter_eq, rnd64_1.
    rewrite (rnd64_is_bpow (-1) (1 - / 2)) by (simpl; lra || lia).
    replace (- 1024 * (1 - / 2)) with (- (bpow radix2 9)) by (simpl; lra).
    replace (- 1024 * / 2) with (- (bpow radix2 9)) by (simpl; lra).
    rewrite !(mrnd_opp rnd64 M), (rnd64_bpow 9) by lia.
    replace (- bpow radix2 9 + - bpow radix2 9) with (- bpow radix2 10) by (simpl; lra).
    rewrite (mrnd_opp rnd64 M), (rnd64_bpow 10) by lia. simpl; lra. }
  rewrite H, H'. lra.
Qed.

(* ------------------------------------------------------------------ the high pass: one step and a run *)
Definition B1021 : R := bpow radix2 1021.
Lemma B1021_twice : B1021 + B1021 = B1022.
Proof. unfold B1021, B1022. change 1022%Z with (1021 + 1)%Z. rewrite bpow_plus. simpl (bpow radix2 1). lra. Qed.
Lemma B1021_pos : 0 < B1021.
Proof. apply bpow_gt_0. Qed.

Lemma r64_hpf_iter_eq a o xi x :
  hpf_iter (Rnd_ops rnd64) a (o, xi) x = (rnd64 (a * rnd64 (rnd64 (o + x) - xi)), x).
Proof. reflexivity. Qed.

Theorem f64_hpf_iter_refines (alpha o xi x : pfloat) :
  ffinite alpha = true -> ffinite o = true -> ffinite xi = true -> ffinite x = true ->
  0 <= f2r alpha <= 1 -> Rabs (f2r o) <= B1021 -> Rabs (f2r xi) <= B1021 -> Rabs (f2r x) <= B1021 ->
  frel (fst (hpf_iter F64_ops alpha (o, xi) x)) (fst (hpf_iter (Rnd_ops rnd64) (f2r alpha) (f2r o, f2r xi) (f2r x))) /\
  snd (hpf_iter F64_ops alpha (o, xi) x) = x.
Proof.
  intros Fa Fo Fi Fx Ha Ho Hi Hx. split; [|reflexivity].
  pose proof (frel_f2r _ Fa) as Ra. pose proof (frel_f2r _ Fo) as Ro.
  pose proof (frel_f2r _ Fi) as Ri. pose proof (frel_f2r _ Fx) as Rx.
  pose proof B1021_twice as T1. pose proof B1022_twice as T2. pose proof B1021_pos as P1.
  unfold hpf_iter. cbn [fst snd].
  assert (S1 : Rabs (f2r o + f2r x) <= B1022).
  { rewrite <- T1. eapply Rle_trans; [apply Rabs_triang|]. lra. }
  assert (R1 : frel (add F64_ops o x) (add (Rnd_ops rnd64) (f2r o) (f2r x))).
  { apply frel_add; [exact Ro|exact Rx|]. apply no_overflow_le with (m := B1022); [exact S1|exact B1022_fix|exact B1022_lt]. }
  assert (S2 : Rabs (add (Rnd_ops rnd64) (f2r o) (f2r x) - f2r xi) <= bpow radix2 1023).
  { rewrite <- T2. unfold Rminus. eapply Rle_trans; [apply Rabs_triang|]. rewrite Rabs_Ropp.
    apply Rplus_le_compat; [cbn [add Rnd_ops]; apply rnd64_abs_le; [exact S1|exact B1022_fix]|]. lra. }
  assert (R2 : frel (sub F64_ops (add F64_ops o x) xi) (sub (Rnd_ops rnd64) (add (Rnd_ops rnd64) (f2r o) (f2r x)) (f2r xi))).
  { apply frel_sub; [exact R1|exact Ri|]. apply no_overflow_le with (m := bpow radix2 1023); [exact S2|exact B1023_fix|exact B1023_lt]. }
  apply frel_mul; [exact Ra|exact R2|].
  apply no_overflow_le with (m := bpow radix2 1023); [|exact B1023_fix|exact B1023_lt].
  rewrite Rmult_comm. apply Rabs_mul_01; [exact Ha|].
  cbn [sub Rnd_ops]. apply rnd64_abs_le; [exact S2|exact B1023_fix].
Qed.

(* the high-pass run, for every NumOps instance, as a Fixpoint *)
Fixpoint g_hpf_outs {T} (O : NumOps T) (alpha : T) (st : T * T) (xs : list T) : list T :=
  match xs with
  | [] => []
  | x :: r => let st' := hpf_iter O alpha st x in fst st' :: g_hpf_outs O alpha st' r
  end.

Lemma g_hpf_run_outs {T} (O : NumOps T) alpha : forall xs st acc,
  snd (fold_left (fun a x => let st' := hpf_iter O alpha (fst a) x in (st', snd a ++ [fst st'])) xs (st, acc)) =
  acc ++ g_hpf_outs O alpha st xs.
Proof.
  induction xs as [|x r IH]; intros st acc; cbn [fold_left g_hpf_outs]; [rewrite app_nil_r; reflexivity|].
  cbv zeta. cbn [fst snd]. rewrite IH, <- app_assoc. reflexivity.
Qed.

Lemma g_hpf_run_eq {T} (O : NumOps T) alpha st xs : hpf_run O alpha st xs = g_hpf_outs O alpha st xs.
Proof. unfold hpf_run. rewrite g_hpf_run_outs. reflexivity. Qed.

Definition fin_le21 (x : pfloat) : Prop := ffinite x = true /\ Rabs (f2r x) <= B1021.

(* a run of any length: as long as the rounded-real outputs stay within 2^1021, the float run is the rounded-real run *)
Theorem f64_hpf_run_refines (alpha : pfloat) : ffinite alpha = true -> 0 <= f2r alpha <= 1 ->
  forall (xs : list pfloat) (o xi : pfloat), fin_le21 o -> fin_le21 xi -> Forall fin_le21 xs ->
  Forall (fun y => Rabs y <= B1021) (hpf_run (Rnd_ops rnd64) (f2r alpha) (f2r o, f2r xi) (map f2r xs)) ->
  Forall2 frel (hpf_run F64_ops alpha (o, xi) xs) (hpf_run (Rnd_ops rnd64) (f2r alpha) (f2r o, f2r xi) (map f2r xs)).
Proof.
  intros Fa Ha xs.
  induction xs as [|x r IH]; intros o xi [Fo Ho] [Fi Hi] Hxs Hys; rewrite !g_hpf_run_eq in *; cbn [map g_hpf_outs] in *; [constructor|].
  apply Forall_cons_iff in Hxs. destruct Hxs as [[Fx Hx] Hr].
  apply Forall_cons_iff in Hys. destruct Hys as [Hy Hys].
  destruct (f64_hpf_iter_refines alpha o xi x Fa Fo Fi Fx Ha Ho Hi Hx) as [[F1 E1] E2].
  constructor; [split; assumption|].
  rewrite (surjective_pairing (hpf_iter F64_ops alpha (o, xi) x)), E2.
  rewrite (surjective_pairing (hpf_iter (Rnd_ops rnd64) (f2r alpha) (f2r o, f2r xi) (f2r x))) in Hys |- *.
  change (snd (hpf_iter (Rnd_ops rnd64) (f2r alpha) (f2r o, f2r xi) (f2r x))) with (f2r x) in Hys |- *.
  rewrite <- E1 in Hy, Hys |- *.
  rewrite <- !g_hpf_run_eq. apply IH; [split; assumption|split; assumption|exact Hr|].
  rewrite g_hpf_run_eq. exact Hys.
Qed.

Theorem f64_hpf_run_values (alpha : pfloat) : ffinite alpha = true -> 0 <= f2r alpha <= 1 ->
  forall (xs : list pfloat) (o xi : pfloat), fin_le21 o -> fin_le21 xi -> Forall fin_le21 xs ->
  Forall (fun y => Rabs y <= B1021) (hpf_run (Rnd_ops rnd64) (f2r alpha) (f2r o, f2r xi) (map f2r xs)) ->
  map f2r (hpf_run F64_ops alpha (o, xi) xs) = hpf_run (Rnd_ops rnd64) (f2r alpha) (f2r o, f2r xi) (map f2r xs) /\
  Forall (fun y => ffinite y = true) (hpf_run F64_ops alpha (o, xi) xs).
Proof. intros Fa Ha xs o xi Ho Hi Hxs Hys. apply Forall2_frel_map. apply f64_hpf_run_refines; assumption. Qed.
