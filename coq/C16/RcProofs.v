From Coq Require Import Reals ZArith List Lra Lia.
From Coquelicot Require Import Coquelicot.
From LibaV Require Import Common.NumOps Common.ROps C16.FilterDefs.
Import ListNotations.
Local Open Scope R_scope.

(* ------------------------------------------------------------ low pass *)
Fixpoint lpf_outs (alpha o : R) (xs : list R) : list R :=
  match xs with
  | [] => []
  | x :: r => let o' := lpf_iter R_ops alpha o x in o' :: lpf_outs alpha o' r
  end.

Lemma lpf_run_outs alpha : forall xs o acc,
  snd (fold_left (fun st x => let o := lpf_iter R_ops alpha (fst st) x in (o, snd st ++ [o])) xs (o, acc)) =
  acc ++ lpf_outs alpha o xs.
Proof.
  induction xs as [|x r IH]; intros o acc; cbn [fold_left lpf_outs]; [rewrite app_nil_r; reflexivity|].
  cbv zeta. cbn [fst snd]. rewrite IH, <- app_assoc. reflexivity.
Qed.

Theorem lpf_run_eq alpha o xs : lpf_run R_ops alpha o xs = lpf_outs alpha o xs.
Proof. unfold lpf_run. rewrite lpf_run_outs. reflexivity. Qed.

Lemma lpf_iter_R alpha o x : lpf_iter R_ops alpha o x = o * (1 - alpha) + x * alpha.
Proof. reflexivity. Qed.

Lemma lpf_convex_step alpha o x lo hi :
  0 <= alpha <= 1 -> lo <= o <= hi -> lo <= x <= hi -> lo <= lpf_iter R_ops alpha o x <= hi.
Proof. intros Ha Ho Hx. rewrite lpf_iter_R. split; nra. Qed.

(* every output lies in any interval containing the initial state and all inputs fed so far *)
Theorem lpf_convex alpha lo hi : 0 <= alpha <= 1 -> forall xs o,
  lo <= o <= hi -> List.Forall (fun x => lo <= x <= hi) xs ->
  List.Forall (fun y => lo <= y <= hi) (lpf_run R_ops alpha o xs).
Proof.
  intros Ha xs. induction xs as [|x r IH]; intros o Ho Hxs; rewrite lpf_run_eq; cbn [lpf_outs]; [constructor|].
  inversion Hxs as [|? ? Hx Hr]; subst. cbv zeta.
  pose proof (lpf_convex_step alpha o x lo hi Ha Ho Hx) as H1.
  constructor; [exact H1|]. rewrite <- lpf_run_eq. apply IH; assumption.
Qed.

Fixpoint lpf_n (alpha o c : R) (k : nat) : R :=
  match k with O => o | S k' => lpf_iter R_ops alpha (lpf_n alpha o c k') c end.

Lemma lpf_outs_const alpha c : forall n o k, (k < n)%nat ->
  nth k (lpf_outs alpha o (repeat c n)) 0 = lpf_n alpha o c (S k).
Proof.
  induction n as [|n IH]; intros o k Hk; [lia|]. cbn [repeat lpf_outs]. cbv zeta.
  destruct k as [|k]; [reflexivity|]. cbn [nth]. rewrite IH by lia.
  clear. revert o. induction k as [|k IHk]; intros o; [reflexivity|].
  cbn [lpf_n] in *. rewrite IHk. reflexivity.
Qed.

Theorem lpf_const_closed_form alpha o c k : lpf_n alpha o c k - c = (1 - alpha) ^ k * (o - c).
Proof. induction k as [|k IH]; cbn [lpf_n pow]; [ring|]. rewrite lpf_iter_R. replace (lpf_n alpha o c k) with (c + (1 - alpha) ^ k * (o - c)) by lra. ring. Qed.

Theorem lpf_settles alpha o c : 0 < alpha <= 1 -> is_lim_seq (fun k => lpf_n alpha o c k) c.
Proof.
  intros Ha.
  apply is_lim_seq_ext with (u := fun k => c + (1 - alpha) ^ k * (o - c)).
  { intros k. pose proof (lpf_const_closed_form alpha o c k). lra. }
  replace (Finite c) with (Rbar_plus c (Rbar_mult 0 (o - c))) by (cbn; f_equal; ring).
  apply is_lim_seq_plus'; [apply is_lim_seq_const|].
  apply is_lim_seq_mult'; [|apply is_lim_seq_const].
  apply is_lim_seq_geom. rewrite Rabs_pos_eq; lra.
Qed.

(* ------------------------------------------------------------ high pass *)
Fixpoint hpf_n (alpha : R) (st : R * R) (c : R) (k : nat) : R * R :=
  match k with O => st | S k' => hpf_iter R_ops alpha (hpf_n alpha st c k') c end.

Lemma hpf_iter_R alpha st x : hpf_iter R_ops alpha st x = (alpha * (fst st + x - snd st), x).
Proof. reflexivity. Qed.

(* once the held input equals the constant input, every further step multiplies the output by alpha *)
Theorem hpf_const_closed_form alpha st c k :
  hpf_n alpha (hpf_iter R_ops alpha st c) c k = (alpha ^ k * fst (hpf_iter R_ops alpha st c), c).
Proof.
  induction k as [|k IH]; cbn [hpf_n pow].
  - rewrite hpf_iter_R. cbn [fst]. f_equal. ring.
  - rewrite IH, hpf_iter_R. cbn [fst snd]. f_equal. ring.
Qed.

Theorem hpf_decays alpha st c : 0 <= alpha < 1 ->
  is_lim_seq (fun k => fst (hpf_n alpha (hpf_iter R_ops alpha st c) c k)) 0.
Proof.
  intros Ha.
  apply is_lim_seq_ext with (u := fun k => alpha ^ k * fst (hpf_iter R_ops alpha st c)).
  { intros k. rewrite hpf_const_closed_form. reflexivity. }
  replace (Finite 0) with (Rbar_mult 0 (fst (hpf_iter R_ops alpha st c))) by (cbn; f_equal; ring).
  apply is_lim_seq_mult'; [|apply is_lim_seq_const].
  apply is_lim_seq_geom. rewrite Rabs_pos_eq; lra.
Qed.

Fixpoint hpf_outs (alpha : R) (st : R * R) (xs : list R) : list R :=
  match xs with
  | [] => []
  | x :: r => let st' := hpf_iter R_ops alpha st x in fst st' :: hpf_outs alpha st' r
  end.

Lemma hpf_run_outs alpha : forall xs st acc,
  snd (fold_left (fun acc x => let st' := hpf_iter R_ops alpha (fst acc) x in (st', snd acc ++ [fst st'])) xs (st, acc)) =
  acc ++ hpf_outs alpha st xs.
Proof.
  induction xs as [|x r IH]; intros st acc; cbn [fold_left hpf_outs]; [rewrite app_nil_r; reflexivity|].
  cbv zeta. cbn [fst snd]. rewrite IH, <- app_assoc. reflexivity.
Qed.

Theorem hpf_run_eq alpha st xs : hpf_run R_ops alpha st xs = hpf_outs alpha st xs.
Proof. unfold hpf_run. rewrite hpf_run_outs. reflexivity. Qed.

(* ------------------------------------------------------------ coefficient generators *)
Lemma c_1_tau_pos : 0 < c_1_tau R_ops.
Proof. unfold c_1_tau. unfold_ops. apply Rmult_lt_0_compat; [apply IZR_lt; reflexivity|apply powerRZ_lt; lra]. Qed.
Lemma c_tau_pos : 0 < c_tau R_ops.
Proof. unfold c_tau. unfold_ops. apply Rmult_lt_0_compat; [apply IZR_lt; reflexivity|apply powerRZ_lt; lra]. Qed.

Theorem lpf_gen_range fc ts : 0 < fc -> 0 < ts -> 0 < lpf_gen R_ops fc ts < 1.
Proof.
  intros Hf Ht. unfold lpf_gen. generalize c_1_tau_pos. generalize (c_1_tau R_ops). intros K HK. unfold_ops.
  assert (Hp : 0 < fc * ts) by (apply Rmult_lt_0_compat; assumption).
  assert (Hq : 0 < K / (fc * ts)) by (apply Rdiv_lt_0_compat; assumption).
  split.
  - apply Rdiv_lt_0_compat; lra.
  - apply Rmult_lt_reg_r with (r := K / (fc * ts) + 1); [lra|].
    unfold Rdiv at 1. rewrite Rmult_assoc, Rinv_l by lra. lra.
Qed.

Theorem hpf_gen_range fc ts : 0 < fc -> 0 < ts -> 0 < hpf_gen R_ops fc ts < 1.
Proof.
  intros Hf Ht. unfold hpf_gen. generalize c_tau_pos. generalize (c_tau R_ops). intros K HK. unfold_ops.
  assert (Hp0 : 0 < fc * ts) by (apply Rmult_lt_0_compat; assumption).
  assert (Hp : 0 < K * (fc * ts)) by (apply Rmult_lt_0_compat; assumption).
  split.
  - apply Rdiv_lt_0_compat; lra.
  - apply Rmult_lt_reg_r with (r := K * (fc * ts) + 1); [lra|].
    unfold Rdiv. rewrite Rmult_assoc, Rinv_l by lra. lra.
Qed.

Example lpf_ex : List.Forall (fun y => 0 <= y <= 4) (lpf_run R_ops (1/2) 0 [4; 4; 0; 2]).
Proof. apply lpf_convex; [lra|lra|]. repeat constructor; lra. Qed.
