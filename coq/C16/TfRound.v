(* C16 transfer function a_tf_iter at the ROUNDED instance Rnd_ops rnd (every + - * followed by rnd, overflow outside the
   model, Common/RoundOps.v), for EVERY pair of orders, every state and every std_model rnd eps eta
   (|rnd v - v| <= eps |v| + eta, rnd 0 = 0).

   tf_iter (Rnd_ops rnd) s x  pushes x into the input delay line and evaluates
        y^ = fold over den of  y := rnd (y - rnd (den_j * out_j))   started from
             fold over num of  y := rnd (y + rnd (num_i * inp_i))   started from 0,
   one recursive summation of m = nn + nd rounded products.  With P k = (1+eps)^k, U the input delay line after the push, Y
   the output delay line (both hold the CURRENT, already rounded, histories), dot / adot the sums of a_i b_i / |a_i b_i|:

   ONE STEP
     tf_iter_round        |y^ - (dot num U - dot den Y)| <= (P (m+1) - 1) (adot num U + adot den Y) + 2 m eta P (m+1)
                          m = number of products actually formed (lengths of the combined lists), any state, any rnd;
                          the new state is the old one with U and the push of y^ into Y; the reference value
                          dot num U - dot den Y is what tf_iter R_ops returns from the same state
     tf_iter_round_orders the same with m replaced by nn + nd = length num + length den (monotonicity of the bound)
     tf_iter_round_gamma  the classical form gamma_(nn+nd+1) (adot ..) + 2 (nn+nd) eta (1 + gamma_(nn+nd+1)), (nn+nd+1) eps < 1
     tf_iter_round_sharp  one rounding fewer, P m and (2m - 1) eta, m >= 1, if rnd is idempotent (the first addition
                          0 + rnd p is exact) and - when the numerator is empty - odd (0 - rnd p = - rnd p is exact)
   RUN  (residual form; from the zero state tf_init, ys^ = computed outputs, every input sequence)
     tf_run_round_residual  for every k:  |ys^_k - (dot num U_k - dot den Y_k)| <= (P (nn+nd+1) - 1) (adot num U_k + adot den Y_k)
                            + 2 (nn+nd) eta P (nn+nd+1),  U_k = the nn most recent inputs u_k, u_k-1, .., Y_k = the nd most recent
                            COMPUTED outputs ys^_k-1, ..  (zero padded): the computed sequence satisfies the difference
                            equation of C16_tf_difference_equation up to the one-step residual
     tf_run_round_perturbed the same as an exact statement: ys^ is the EXACT response (over R) of the difference equation to the
                            inputs us with a disturbance r_k added at the summing node, |r_k| <= that residual bound
     tf_run_round_error     hence computed = exact + e, where e is the EXACT response of the all-pole filter 1/den to the
                            residual sequence r (error propagation through the recursion; no bound on e is claimed: it
                            depends on the stability of 1/den)
   What is NOT proved: a "perturbed input" form (ys^ = exact response to inputs us + du with small du) - the perturbation would
   be r filtered by 1/num, which is not bounded in general.
   Binary64 corollaries (Flocq: eps = 2^-53, eta = 2^-1075, rnd64 idempotent and odd) and Examples at the end. *)
From Coq Require Import Reals ZArith List Lra Lia.
From LibaV Require Import Common.NumOps Common.ROps Common.RoundOps Common.RoundFlocq Common.RoundMono
                          C16.FilterDefs C16.TfProofs.
Import ListNotations.
Local Open Scope R_scope.

(* ------------------------------------------------------------ sums over lists of pairs *)
Definition tsum {A : Type} (f : A -> R) (l : list A) : R := fold_right (fun x acc => f x + acc) 0 l.
Definition pmul (p : R * R) : R := fst p * snd p.
Definition pabs (p : R * R) : R := Rabs (fst p * snd p).
(* sum |a_i b_i| over the common length *)
Definition adot (a b : list R) : R := tsum pabs (combine a b).

Lemma dot_tsum a b : dot a b = tsum pmul (combine a b).
Proof. reflexivity. Qed.
Lemma tsum_cons {A} (f : A -> R) x l : tsum f (x :: l) = f x + tsum f l.
Proof. reflexivity. Qed.
Lemma tsum_nil {A} (f : A -> R) : tsum f [] = 0.
Proof. reflexivity. Qed.
Lemma tsum_app {A} (f : A -> R) l1 l2 : tsum f (l1 ++ l2) = tsum f l1 + tsum f l2.
Proof. induction l1 as [|x l1 IH]; cbn [app]; [unfold tsum; simpl; ring|]. rewrite !tsum_cons, IH. ring. Qed.
Lemma tsum_nonneg {A} (f : A -> R) l : (forall x, 0 <= f x) -> 0 <= tsum f l.
Proof. intros H. induction l as [|x l IH]; [unfold tsum; simpl; lra|]. rewrite tsum_cons. pose proof (H x). lra. Qed.
Lemma tsum_opp {A} (f : A -> R) l : tsum (fun x => - f x) l = - tsum f l.
Proof. induction l as [|x l IH]; [unfold tsum; simpl; ring|]. rewrite !tsum_cons, IH. ring. Qed.
Lemma tsum_const {A} (c : R) (l : list A) : tsum (fun _ => c) l = c * INR (length l).
Proof. induction l as [|x l IH]; [unfold tsum; simpl; ring|]. rewrite tsum_cons, IH. cbn [length]. rewrite S_INR. ring. Qed.
Lemma fold_left_tsum {A} (f : A -> R) l : forall s, fold_left (fun r x => r + f x) l s = s + tsum f l.
Proof. induction l as [|x l IH]; intros s; cbn [fold_left]; [unfold tsum; simpl; ring|]. rewrite IH, tsum_cons. ring. Qed.
Lemma adot_nonneg a b : 0 <= adot a b.
Proof. apply tsum_nonneg. intros p. apply Rabs_pos. Qed.
Lemma pabs_pos p : 0 <= pabs p.
Proof. apply Rabs_pos. Qed.

(* the computed output of one step, on given delay lines U (input line after the push) and Y (output line) *)
Definition r_y (rnd : R -> R) (nm dn U Y : list R) : R :=
  fold_left (fun y dj => rnd (y - rnd (fst dj * snd dj))) (combine dn Y)
    (fold_left (fun y ni => rnd (y + rnd (fst ni * snd ni))) (combine nm U) 0).

(* the one-step bound, k roundings deep, c eta-terms *)
Definition tf_B (eps eta : R) (k : nat) (c S : R) : R := ((1 + eps) ^ k - 1) * S + c * eta * (1 + eps) ^ k.

Lemma tf_iter_rnd_eq rnd (s : tf (T := R)) x :
  tf_iter (Rnd_ops rnd) s x =
  let inp := push_fore (input s) x in
  let y := r_y rnd (num s) (den s) inp (output s) in
  ({| num := num s; den := den s; input := inp; output := push_fore (output s) y |}, y).
Proof. reflexivity. Qed.

Lemma tf_iter_exact_eq (s : tf (T := R)) x :
  snd (tf_iter R_ops s x) = dot (num s) (push_fore (input s) x) - dot (den s) (output s).
Proof. unfold tf_iter. cbn [snd]. unfold_ops. rewrite fold_den, fold_num. ring. Qed.

Section Rounded.
  Variable rnd : R -> R.
  Variables eps eta : R.
  Hypothesis M : std_model rnd eps eta.
  Local Notation P k := ((1 + eps) ^ k).

  (* ------------------------------------------------------------ one accumulation step  s := rnd (s + w^)
     (the argument of C11/RoundProofs.v acc_step / acc_fold, repeated here so that C16 does not depend on C11) *)
  Lemma acc_step (sh s wh w a al b be : R) (k p : nat) : (p <= k)%nat ->
    Rabs s <= a -> Rabs w <= al -> 0 <= b -> 0 <= be ->
    Rabs (sh - s) <= (P k - 1) * a + eta * P k * b ->
    Rabs (wh - w) <= (P p - 1) * al + eta * be ->
    Rabs (rnd (sh + wh) - (s + w)) <= (P (S k) - 1) * (a + al) + eta * P (S k) * (b + be + 1).
  Proof.
    intros Hpk Hs Hw Hb Hbe HDs HDw.
    pose proof (eps_ge0 _ _ _ M) as Hu. pose proof (eta_ge0 _ _ _ M) as Ht.
    pose proof (p1_ge1 _ _ _ M k) as HPk. pose proof (p1_ge1 _ _ _ M p) as HPp. pose proof (p1_mono _ _ _ M p k Hpk) as HPpk.
    cbn [pow]. set (pk := P k) in *. set (pp := P p) in *.
    pose proof (Rabs_pos s). pose proof (Rabs_pos w).
    pose proof (rnd_step _ _ _ M (sh + wh) (s + w)) as H1.
    assert (T1 : Rabs (sh + wh - (s + w)) <= Rabs (sh - s) + Rabs (wh - w)).
    { replace (sh + wh - (s + w)) with ((sh - s) + (wh - w)) by ring. apply Rabs_triang. }
    assert (T2 : Rabs (s + w) <= a + al) by (eapply Rle_trans; [apply Rabs_triang|lra]).
    set (Ds := Rabs (sh - s)) in *. set (Dw := Rabs (wh - w)) in *.
    assert (B1 : (1 + eps) * Rabs (sh + wh - (s + w)) <= (1 + eps) * (((pk - 1) * a + eta * pk * b) + ((pp - 1) * al + eta * be)))
      by (apply Rmult_le_compat_l; lra).
    assert (B2 : eps * Rabs (s + w) <= eps * (a + al)) by (apply Rmult_le_compat_l; lra).
    assert (A1 : 0 <= (1 + eps) * (pk - pp) * al) by (apply Rmult_le_pos; [apply Rmult_le_pos|]; lra).
    assert (A2 : 0 <= eta * ((1 + eps) * (pk - 1) * be)) by (repeat apply Rmult_le_pos; lra).
    assert (A3 : 0 <= eta * ((1 + eps) * pk - 1)) by (apply Rmult_le_pos; nra).
    lra.
  Qed.

  (* the loop  y := rnd (y + sg * rnd (a_i b_i))  over any list of pairs, sg = 1 (numerator) or -1 (denominator) *)
  Lemma acc_fold (sg : R) (l : list (R * R)) : Rabs sg = 1 ->
    forall (sh s a b : R) (k : nat), (1 <= k)%nat -> Rabs s <= a -> 0 <= b ->
    Rabs (sh - s) <= (P k - 1) * a + eta * P k * b ->
    Rabs (fold_left (fun r x => rnd (r + sg * rnd (pmul x))) l sh - (s + sg * tsum pmul l))
      <= (P (k + length l) - 1) * (a + tsum pabs l) + eta * P (k + length l) * (b + 2 * INR (length l)).
  Proof.
    intros Hsg. induction l as [|x l IH]; intros sh s a b k Hk Hs Hb HD.
    - cbn [fold_left length]. rewrite Nat.add_0_r. unfold tsum. cbn [fold_right INR].
      rewrite !Rmult_0_r, !Rplus_0_r. exact HD.
    - cbn [fold_left length]. rewrite !tsum_cons, S_INR.
      replace (k + S (length l))%nat with (S k + length l)%nat by lia.
      eapply Rle_trans.
      + replace (s + sg * (pmul x + tsum pmul l)) with ((s + sg * pmul x) + sg * tsum pmul l) by ring.
        apply (IH (rnd (sh + sg * rnd (pmul x))) (s + sg * pmul x) (a + pabs x) (b + 1 + 1) (S k)).
        * lia.
        * eapply Rle_trans; [apply Rabs_triang|]. rewrite Rabs_mult, Hsg, Rmult_1_l. unfold pabs, pmul in *. lra.
        * lra.
        * apply (acc_step sh s (sg * rnd (pmul x)) (sg * pmul x) a (pabs x) b 1 k 1); try assumption; try lra.
          -- rewrite Rabs_mult, Hsg, Rmult_1_l. unfold pabs, pmul. lra.
          -- replace (sg * rnd (pmul x) - sg * pmul x) with (sg * (rnd (pmul x) - pmul x)) by ring.
             rewrite Rabs_mult, Hsg, Rmult_1_l. pose proof (rnd_err _ _ _ M (pmul x)) as E. unfold pabs. fold (pmul x).
             simpl. lra.
      + apply Req_le. ring.
  Qed.

  Lemma num_fold_eq (l : list (R * R)) sh :
    fold_left (fun y ni => rnd (y + rnd (fst ni * snd ni))) l sh = fold_left (fun r x => rnd (r + 1 * rnd (pmul x))) l sh.
  Proof. revert sh. induction l as [|x l IH]; intros sh; cbn [fold_left]; [reflexivity|]. rewrite IH, Rmult_1_l. reflexivity. Qed.
  Lemma den_fold_eq (l : list (R * R)) sh :
    fold_left (fun y dj => rnd (y - rnd (fst dj * snd dj))) l sh = fold_left (fun r x => rnd (r + -1 * rnd (pmul x))) l sh.
  Proof.
    revert sh. induction l as [|x l IH]; intros sh; cbn [fold_left]; [reflexivity|]. rewrite IH.
    replace (sh + -1 * rnd (pmul x)) with (sh - rnd (fst x * snd x)) by (unfold pmul; ring). reflexivity.
  Qed.

  (* both loops in sequence *)
  Lemma two_fold (l1 l2 : list (R * R)) (sh s a b : R) (k : nat) : (1 <= k)%nat -> Rabs s <= a -> 0 <= b ->
    Rabs (sh - s) <= (P k - 1) * a + eta * P k * b ->
    Rabs (fold_left (fun y dj => rnd (y - rnd (fst dj * snd dj))) l2
            (fold_left (fun y ni => rnd (y + rnd (fst ni * snd ni))) l1 sh) - (s + tsum pmul l1 - tsum pmul l2))
      <= (P (k + (length l1 + length l2)) - 1) * (a + tsum pabs l1 + tsum pabs l2)
         + eta * P (k + (length l1 + length l2)) * (b + 2 * INR (length l1 + length l2)).
  Proof.
    intros Hk Hs Hb HD. rewrite num_fold_eq, den_fold_eq.
    assert (S1 : Rabs 1 = 1) by (apply Rabs_pos_eq; lra).
    assert (S2 : Rabs (-1) = 1) by (rewrite Rabs_left by lra; lra).
    pose proof (acc_fold 1 l1 S1 sh s a b k Hk Hs Hb HD) as H1.
    set (y1 := fold_left (fun r x => rnd (r + 1 * rnd (pmul x))) l1 sh) in *.
    assert (Hs1 : Rabs (s + 1 * tsum pmul l1) <= a + tsum pabs l1).
    { eapply Rle_trans; [apply Rabs_triang|]. rewrite Rmult_1_l.
      assert (Rabs (tsum pmul l1) <= tsum pabs l1).
      { clear. induction l1 as [|x l IH]; [unfold tsum; simpl; rewrite Rabs_R0; lra|].
        rewrite !tsum_cons. eapply Rle_trans; [apply Rabs_triang|]. unfold pabs at 1, pmul at 1. lra. }
      lra. }
    assert (Hb1 : 0 <= b + 2 * INR (length l1)) by (pose proof (pos_INR (length l1)); lra).
    pose proof (acc_fold (-1) l2 S2 y1 (s + 1 * tsum pmul l1) (a + tsum pabs l1) (b + 2 * INR (length l1)) (k + length l1)
                  ltac:(lia) Hs1 Hb1 H1) as H2.
    replace (k + length l1 + length l2)%nat with (k + (length l1 + length l2))%nat in H2 by lia.
    rewrite plus_INR.
    eapply Rle_trans; [|eapply Rle_trans; [exact H2|]]; apply Req_le; [f_equal; ring|ring].
  Qed.

  (* ------------------------------------------------------------ ONE STEP, the computed value on given delay lines *)
  Lemma r_y_round (nm dn U Y : list R) :
    let m := (length (combine nm U) + length (combine dn Y))%nat in
    Rabs (r_y rnd nm dn U Y - (dot nm U - dot dn Y))
      <= tf_B eps eta (m + 1) (2 * INR m) (adot nm U + adot dn Y).
  Proof.
    intros m. unfold r_y, tf_B, adot. rewrite !dot_tsum.
    pose proof (eta_ge0 _ _ _ M) as Ht.
    pose proof (two_fold (combine nm U) (combine dn Y) 0 0 0 0 1 (Nat.le_refl _)) as H.
    rewrite Rminus_diag_eq, Rabs_R0 in H by reflexivity.
    specialize (H (Rle_refl _) (Rle_refl _)).
    assert (H0 : 0 <= (P 1 - 1) * 0 + eta * P 1 * 0) by lra. specialize (H H0).
    fold m in H. replace (1 + m)%nat with (m + 1)%nat in H by lia.
    rewrite !Rplus_0_l in H. lra.
  Qed.

  (* the bound grows with the number of roundings *)
  Lemma tf_B_mono (k k' : nat) (c c' S : R) : (k <= k')%nat -> 0 <= c <= c' -> 0 <= S ->
    tf_B eps eta k c S <= tf_B eps eta k' c' S.
  Proof.
    intros Hk Hc HS. unfold tf_B. pose proof (p1_mono _ _ _ M k k' Hk) as H1. pose proof (p1_ge1 _ _ _ M k) as H2.
    pose proof (eta_ge0 _ _ _ M) as Ht.
    assert ((P k - 1) * S <= (P k' - 1) * S) by (apply Rmult_le_compat_r; lra).
    assert (c * eta * P k <= c' * eta * P k').
    { apply Rmult_le_compat; [apply Rmult_le_pos; lra|lra| |lra]. apply Rmult_le_compat_r; lra. }
    lra.
  Qed.

  Lemma r_y_round_orders (nm dn U Y : list R) :
    let n := (length nm + length dn)%nat in
    Rabs (r_y rnd nm dn U Y - (dot nm U - dot dn Y))
      <= tf_B eps eta (n + 1) (2 * INR n) (adot nm U + adot dn Y).
  Proof.
    intros n. eapply Rle_trans; [apply r_y_round|]. cbv zeta.
    assert (Hm : (length (combine nm U) + length (combine dn Y) <= n)%nat).
    { unfold n. rewrite !combine_length. lia. }
    apply tf_B_mono.
    - lia.
    - split; [pose proof (pos_INR (length (combine nm U) + length (combine dn Y))); lra|].
      apply Rmult_le_compat_l; [lra|]. apply le_INR. exact Hm.
    - pose proof (adot_nonneg nm U). pose proof (adot_nonneg dn Y). lra.
  Qed.

  (* one rounding fewer: the first accumulation is exact *)
  Lemma r_y_round_sharp (nm dn U Y : list R) :
    (forall v, rnd (rnd v) = rnd v) -> (combine nm U <> [] \/ forall v, rnd (- v) = - rnd v) ->
    let m := (length (combine nm U) + length (combine dn Y))%nat in (1 <= m)%nat ->
    Rabs (r_y rnd nm dn U Y - (dot nm U - dot dn Y))
      <= tf_B eps eta m (2 * INR m - 1) (adot nm U + adot dn Y).
  Proof.
    intros Hid Hodd m Hm. unfold r_y, tf_B, adot. rewrite !dot_tsum.
    pose proof (eps_ge0 _ _ _ M) as Hu. pose proof (eta_ge0 _ _ _ M) as Ht.
    unfold m in *. clear m.
    destruct (combine nm U) as [|h t] eqn:E1.
    - (* empty numerator: the first denominator term *)
      destruct Hodd as [Hodd|Hodd]; [congruence|].
      destruct (combine dn Y) as [|h t] eqn:E2; [cbn [length] in Hm; lia|].
      cbn [fold_left length]. rewrite Rminus_0_l, Hodd, Hid.
      pose proof (two_fold [] t (- rnd (pmul h)) (- pmul h) (pabs h) 1 1 (Nat.le_refl _)) as H.
      assert (A1 : Rabs (- pmul h) <= pabs h) by (rewrite Rabs_Ropp; unfold pabs, pmul; lra).
      assert (A2 : Rabs (- rnd (pmul h) - - pmul h) <= (P 1 - 1) * pabs h + eta * P 1 * 1).
      { replace (- rnd (pmul h) - - pmul h) with (- (rnd (pmul h) - pmul h)) by ring. rewrite Rabs_Ropp.
        pose proof (rnd_err _ _ _ M (pmul h)) as Q. unfold pabs. fold (pmul h). simpl. nra. }
      specialize (H A1 Rle_0_1 A2). cbn [fold_left length] in H.
      rewrite !tsum_cons, !tsum_nil. rewrite !tsum_nil in H.
      change (fst h * snd h) with (pmul h).
      change (0 + S (length t))%nat with (S (length t)). change (0 + length t)%nat with (length t) in H.
      change (1 + length t)%nat with (S (length t)) in H. rewrite S_INR.
      eapply Rle_trans; [|eapply Rle_trans; [exact H|]]; apply Req_le; [f_equal; ring|ring].
    - cbn [fold_left length]. rewrite Rplus_0_l, Hid.
      pose proof (two_fold t (combine dn Y) (rnd (pmul h)) (pmul h) (pabs h) 1 1 (Nat.le_refl _)) as H.
      assert (A1 : Rabs (pmul h) <= pabs h) by (unfold pabs, pmul; lra).
      assert (A2 : Rabs (rnd (pmul h) - pmul h) <= (P 1 - 1) * pabs h + eta * P 1 * 1).
      { pose proof (rnd_err _ _ _ M (pmul h)) as Q. unfold pabs. fold (pmul h). simpl. nra. }
      specialize (H A1 Rle_0_1 A2).
      rewrite !tsum_cons. change (fst h * snd h) with (pmul h).
      replace (S (length t) + length (combine dn Y))%nat with (1 + (length t + length (combine dn Y)))%nat by lia.
      replace (INR (1 + (length t + length (combine dn Y)))) with (1 + INR (length t + length (combine dn Y)))
        by (rewrite (plus_INR 1); reflexivity).
      eapply Rle_trans; [|eapply Rle_trans; [exact H|]]; apply Req_le; [f_equal; ring|ring].
  Qed.

  (* ------------------------------------------------------------ ONE STEP of the model, every state *)
  Theorem tf_iter_round (s : tf (T := R)) (x : R) :
    let inp := push_fore (input s) x in
    let m := (length (combine (num s) inp) + length (combine (den s) (output s)))%nat in
    let y := snd (tf_iter (Rnd_ops rnd) s x) in
    fst (tf_iter (Rnd_ops rnd) s x) = {| num := num s; den := den s; input := inp; output := push_fore (output s) y |} /\
    snd (tf_iter R_ops s x) = dot (num s) inp - dot (den s) (output s) /\
    Rabs (y - (dot (num s) inp - dot (den s) (output s)))
      <= (P (m + 1) - 1) * (adot (num s) inp + adot (den s) (output s)) + 2 * INR m * eta * P (m + 1).
  Proof.
    intros inp m y. split; [reflexivity|]. split; [apply tf_iter_exact_eq|].
    exact (r_y_round (num s) (den s) inp (output s)).
  Qed.

  Theorem tf_iter_round_orders (s : tf (T := R)) (x : R) :
    let inp := push_fore (input s) x in
    let n := (length (num s) + length (den s))%nat in
    let y := snd (tf_iter (Rnd_ops rnd) s x) in
    Rabs (y - (dot (num s) inp - dot (den s) (output s)))
      <= (P (n + 1) - 1) * (adot (num s) inp + adot (den s) (output s)) + 2 * INR n * eta * P (n + 1).
  Proof. intros inp n y. exact (r_y_round_orders (num s) (den s) inp (output s)). Qed.

  Theorem tf_iter_round_gamma (s : tf (T := R)) (x : R) :
    let inp := push_fore (input s) x in
    let n := (length (num s) + length (den s))%nat in
    let y := snd (tf_iter (Rnd_ops rnd) s x) in
    INR (n + 1) * eps < 1 ->
    Rabs (y - (dot (num s) inp - dot (den s) (output s)))
      <= gamma eps (n + 1) * (adot (num s) inp + adot (den s) (output s)) + 2 * INR n * eta * (1 + gamma eps (n + 1)).
  Proof.
    intros inp n y Hg. pose proof (tf_iter_round_orders s x) as H. cbv zeta in H. fold inp n y in H.
    apply (bound_gamma _ _ _ M (n + 1)); [exact Hg| | |exact H].
    - pose proof (adot_nonneg (num s) inp). pose proof (adot_nonneg (den s) (output s)). lra.
    - apply Rmult_le_pos; [pose proof (pos_INR n); lra|apply (eta_ge0 _ _ _ M)].
  Qed.

  Theorem tf_iter_round_sharp (s : tf (T := R)) (x : R) :
    (forall v, rnd (rnd v) = rnd v) ->
    let inp := push_fore (input s) x in
    (combine (num s) inp <> [] \/ forall v, rnd (- v) = - rnd v) ->
    let m := (length (combine (num s) inp) + length (combine (den s) (output s)))%nat in
    let y := snd (tf_iter (Rnd_ops rnd) s x) in
    (1 <= m)%nat ->
    Rabs (y - (dot (num s) inp - dot (den s) (output s)))
      <= (P m - 1) * (adot (num s) inp + adot (den s) (output s)) + (2 * INR m - 1) * eta * P m.
  Proof. intros Hid inp Hodd m y Hm. exact (r_y_round_sharp (num s) (den s) inp (output s) Hid Hodd Hm). Qed.

  (* ------------------------------------------------------------ RUN *)
  (* the computed recurrence with explicit full histories (most recent first), as TfProofs.spec_run *)
  Fixpoint r_spec_run (nm dn hu hy us : list R) : list R :=
    match us with
    | [] => []
    | u :: r => let y := r_y rnd nm dn (recent (length nm) (u :: hu)) (recent (length dn) hy) in
                y :: r_spec_run nm dn (u :: hu) (y :: hy) r
    end.

  Lemma r_tf_iter_st nm dn hu hy u :
    tf_iter (Rnd_ops rnd) (st nm dn hu hy) u =
    let y := r_y rnd nm dn (recent (length nm) (u :: hu)) (recent (length dn) hy) in
    (st nm dn (u :: hu) (y :: hy), y).
  Proof.
    rewrite tf_iter_rnd_eq. unfold st. cbn [num den input output]. cbv zeta.
    rewrite !push_fore_recent. reflexivity.
  Qed.

  Lemma r_tf_run_spec nm dn : forall us hu hy,
    tf_run (Rnd_ops rnd) (st nm dn hu hy) us =
    (st nm dn (rev us ++ hu) (rev (r_spec_run nm dn hu hy us) ++ hy), r_spec_run nm dn hu hy us).
  Proof.
    induction us as [|u r IH]; intros hu hy; [reflexivity|].
    cbn [tf_run r_spec_run rev]. rewrite r_tf_iter_st. cbv beta iota zeta. rewrite IH, <- !app_assoc. reflexivity.
  Qed.

  Lemma r_tf_init_st nm dn : tf_init (Rnd_ops rnd) nm dn = st nm dn [] [].
  Proof. unfold tf_init, st. unfold_rops. rewrite !map_zero_recent. reflexivity. Qed.

  Definition r_tf_out (nm dn us : list R) : list R := snd (tf_run (Rnd_ops rnd) (tf_init (Rnd_ops rnd) nm dn) us).

  Lemma r_tf_out_spec nm dn us : r_tf_out nm dn us = r_spec_run nm dn [] [] us.
  Proof. unfold r_tf_out. rewrite r_tf_init_st, r_tf_run_spec. reflexivity. Qed.

  Lemma r_spec_run_length nm dn : forall us hu hy, length (r_spec_run nm dn hu hy us) = length us.
  Proof. induction us as [|u r IH]; intros; cbn [r_spec_run length]; [reflexivity|]. rewrite IH. reflexivity. Qed.

  Lemma r_spec_run_nth nm dn : forall us hu hy k, (k < length us)%nat ->
    let ys := r_spec_run nm dn hu hy us in
    nth k ys 0 = r_y rnd nm dn (recent (length nm) (rev (firstn (S k) us) ++ hu))
                               (recent (length dn) (rev (firstn k ys) ++ hy)).
  Proof.
    induction us as [|u r IH]; intros hu hy k Hk; [cbn in Hk; lia|].
    cbv zeta. cbn [r_spec_run]. destruct k as [|k].
    - cbn [nth firstn rev app]. reflexivity.
    - cbn [nth]. cbn [length] in Hk. rewrite (IH (u :: hu) _ k) by lia.
      cbn [firstn rev]. rewrite <- !app_assoc. cbn [app]. reflexivity.
  Qed.

  (* the residual bound of step k on the delay lines U, Y *)
  Definition tf_res_bound (nm dn U Y : list R) : R :=
    let n := (length nm + length dn)%nat in
    (P (n + 1) - 1) * (adot nm U + adot dn Y) + 2 * INR n * eta * P (n + 1).

  (* residual form, indexed as C16_tf_difference_equation *)
  Theorem tf_run_round_residual nm dn us k : (k < length us)%nat ->
    let ys := r_tf_out nm dn us in
    let U := recent (length nm) (rev (firstn (S k) us)) in
    let Y := recent (length dn) (rev (firstn k ys)) in
    Rabs (nth k ys 0 - (dot nm U - dot dn Y)) <= tf_res_bound nm dn U Y.
  Proof.
    intros Hk ys U Y. unfold Y, U, ys. rewrite r_tf_out_spec.
    pose proof (r_spec_run_nth nm dn us [] [] k Hk) as H. cbv zeta in H. rewrite !app_nil_r in H. rewrite H.
    apply r_y_round_orders.
  Qed.

  (* the exact recurrence with a disturbance e_k added at the summing node *)
  Fixpoint spec_run_d (nm dn hu hy us rs : list R) : list R :=
    match us, rs with
    | u :: r, e :: re => let y := dot nm (recent (length nm) (u :: hu)) - dot dn (recent (length dn) hy) + e in
                         y :: spec_run_d nm dn (u :: hu) (y :: hy) r re
    | _, _ => []
    end.

  (* the residual sequence of the computed run *)
  Fixpoint r_resid (nm dn hu hy us : list R) : list R :=
    match us with
    | [] => []
    | u :: r => let U := recent (length nm) (u :: hu) in let Y := recent (length dn) hy in
                let y := r_y rnd nm dn U Y in
                (y - (dot nm U - dot dn Y)) :: r_resid nm dn (u :: hu) (y :: hy) r
    end.

  Lemma r_resid_length nm dn : forall us hu hy, length (r_resid nm dn hu hy us) = length us.
  Proof. induction us as [|u r IH]; intros; cbn [r_resid length]; [reflexivity|]. cbv zeta. cbn [length]. rewrite IH. reflexivity. Qed.

  Lemma r_spec_run_is_d nm dn : forall us hu hy,
    r_spec_run nm dn hu hy us = spec_run_d nm dn hu hy us (r_resid nm dn hu hy us).
  Proof.
    induction us as [|u r IH]; intros hu hy; [reflexivity|].
    cbn [r_spec_run r_resid spec_run_d]. cbv zeta.
    set (U := recent (length nm) (u :: hu)). set (Y := recent (length dn) hy). set (y := r_y rnd nm dn U Y).
    replace (dot nm U - dot dn Y + (y - (dot nm U - dot dn Y))) with y by ring.
    f_equal. apply IH.
  Qed.

  Lemma r_resid_nth nm dn : forall us hu hy k, (k < length us)%nat ->
    let ys := r_spec_run nm dn hu hy us in
    let U := recent (length nm) (rev (firstn (S k) us) ++ hu) in
    let Y := recent (length dn) (rev (firstn k ys) ++ hy) in
    nth k (r_resid nm dn hu hy us) 0 = r_y rnd nm dn U Y - (dot nm U - dot dn Y).
  Proof.
    induction us as [|u r IH]; intros hu hy k Hk; [cbn in Hk; lia|].
    cbv zeta. cbn [r_spec_run r_resid]. cbv zeta. destruct k as [|k].
    - cbn [nth firstn rev app]. reflexivity.
    - cbn [nth]. cbn [length] in Hk. rewrite (IH (u :: hu) _ k) by lia. cbv zeta.
      cbn [firstn rev]. rewrite <- !app_assoc. cbn [app]. reflexivity.
  Qed.

  Theorem tf_run_round_perturbed nm dn us :
    exists rs, length rs = length us /\
      r_tf_out nm dn us = spec_run_d nm dn [] [] us rs /\
      forall k, (k < length us)%nat ->
        Rabs (nth k rs 0) <= tf_res_bound nm dn (recent (length nm) (rev (firstn (S k) us)))
                                             (recent (length dn) (rev (firstn k (r_tf_out nm dn us)))).
  Proof.
    exists (r_resid nm dn [] [] us). split; [apply r_resid_length|]. split.
    - rewrite r_tf_out_spec. apply r_spec_run_is_d.
    - intros k Hk. rewrite r_tf_out_spec.
      pose proof (r_resid_nth nm dn us [] [] k Hk) as H. cbv zeta in H. rewrite !app_nil_r in H. rewrite H.
      apply r_y_round_orders.
  Qed.
End Rounded.

(* ------------------------------------------------------------ error propagation (exact arithmetic over R)
   the response to inputs us with disturbance rs = exact response to us + response of the all-pole filter [1]/den to rs *)
Lemma lc11_cons a b l1 l2 : lc 1 (a :: l1) 1 (b :: l2) = (a + b) :: lc 1 l1 1 l2.
Proof. unfold lc. cbn [combine map fst snd]. f_equal. ring. Qed.

Lemma dot_one_recent r hr : dot [1] (recent 1 (r :: hr)) = r.
Proof. unfold recent, dot. cbn [app firstn combine fold_right fst snd]. ring. Qed.

Lemma spec_run_d_split nm dn : forall us rs hu hy he hr,
  length rs = length us -> length hy = length he ->
  spec_run_d nm dn hu (lc 1 hy 1 he) us rs =
  lc 1 (spec_run nm dn hu hy us) 1 (spec_run [1] dn hr he rs).
Proof.
  induction us as [|u r IH]; intros [|e re] hu hy he hr Hl Hh; try discriminate; [reflexivity|].
  cbn [spec_run_d spec_run]. cbv zeta. cbn [length].
  rewrite dot_one_recent.
  set (y := dot nm (recent (length nm) (u :: hu)) - dot dn (recent (length dn) hy)).
  set (ee := e - dot dn (recent (length dn) he)).
  rewrite lc11_cons.
  assert (Ey : dot nm (recent (length nm) (u :: hu)) - dot dn (recent (length dn) (lc 1 hy 1 he)) + e = y + ee).
  { rewrite recent_lc by exact Hh. rewrite dot_lc by (rewrite !recent_length; reflexivity). unfold y, ee. ring. }
  rewrite Ey. f_equal.
  rewrite <- lc11_cons. apply IH; [cbn [length] in Hl; lia|cbn [length]; lia].
Qed.

Theorem tf_run_round_error (rnd : R -> R) (eps eta : R) (M : std_model rnd eps eta) nm dn us :
  exists rs, length rs = length us /\
    r_tf_out rnd nm dn us = lc 1 (tf_out nm dn us) 1 (tf_out [1] dn rs) /\
    forall k, (k < length us)%nat ->
      Rabs (nth k rs 0) <= tf_res_bound eps eta nm dn (recent (length nm) (rev (firstn (S k) us)))
                                                (recent (length dn) (rev (firstn k (r_tf_out rnd nm dn us)))).
Proof.
  destruct (tf_run_round_perturbed rnd eps eta M nm dn us) as (rs & Hl & E & B).
  exists rs. split; [exact Hl|]. split; [|exact B].
  rewrite E, !tf_out_spec.
  exact (spec_run_d_split nm dn us rs [] [] [] [] Hl eq_refl).
Qed.

(* ------------------------------------------------------------ IEEE binary64 (Flocq) *)
Local Notation P64 k := ((1 + eps64) ^ k).

Lemma rnd64_odd v : rnd64 (- v) = - rnd64 v.
Proof. exact (mr_opp rnd64 mono_rnd_binary64 v). Qed.

Theorem tf_iter_round_binary64 (s : tf (T := R)) (x : R) :
  let inp := push_fore (input s) x in
  let m := (length (combine (num s) inp) + length (combine (den s) (output s)))%nat in
  let y := snd (tf_iter (Rnd_ops rnd64) s x) in
  (1 <= m)%nat ->
  Rabs (y - (dot (num s) inp - dot (den s) (output s)))
    <= (P64 m - 1) * (adot (num s) inp + adot (den s) (output s)) + (2 * INR m - 1) * eta64 * P64 m.
Proof.
  intros inp m y Hm.
  exact (tf_iter_round_sharp rnd64 eps64 eta64 std_model_binary64 s x rnd64_idem (or_intror rnd64_odd) Hm).
Qed.

Theorem tf_run_round_binary64 nm dn us k : (k < length us)%nat ->
  let ys := r_tf_out rnd64 nm dn us in
  let U := recent (length nm) (rev (firstn (S k) us)) in
  let Y := recent (length dn) (rev (firstn k ys)) in
  Rabs (nth k ys 0 - (dot nm U - dot dn Y)) <= tf_res_bound eps64 eta64 nm dn U Y.
Proof. exact (tf_run_round_residual rnd64 eps64 eta64 std_model_binary64 nm dn us k). Qed.

(* ------------------------------------------------------------ non-vacuity *)
(* a genuinely inexact model, rnd v = v (1 + 1/8) (std_model_scale: eps = 1/8, eta = 0), the filter of TfProofs.tf_ex
   (num [1; 2], den [1/2]) in a state with input line [1; 0], output line [3/2], next input 0: after the push U = [0; 1];
   exact value on these lines 1*0 + 2*1 - 1/2 * 3/2 = 5/4; computed ((2 * 9/8) * 9/8 - (3/4) * 9/8) * 9/8 = 243/128;
   the error 83/128 is inside the bound ((9/8)^4 - 1) * (0 + 2 + 3/4) = 1.65.., which is not trivial (< 2) *)
Definition sc (v : R) : R := v * (1 + / 8).
Definition ex_state : tf (T := R) := {| num := [1; 2]; den := [1 / 2]; input := [1; 0]; output := [3 / 2] |}.

Example tf_iter_round_scale :
  snd (tf_iter (Rnd_ops sc) ex_state 0) = 243 / 128 /\
  snd (tf_iter R_ops ex_state 0) = 5 / 4 /\
  Rabs (243 / 128 - 5 / 4) <= ((1 + / 8) ^ 4 - 1) * (11 / 4) + 2 * INR 3 * 0 * (1 + / 8) ^ 4 /\
  ((1 + / 8) ^ 4 - 1) * (11 / 4) < 2.
Proof.
  split; [|split; [|split]].
  - unfold tf_iter, ex_state, push_fore. cbn. unfold sc. field.
  - unfold tf_iter, ex_state, push_fore. cbn. field.
  - rewrite Rabs_pos_eq by lra. simpl. lra.
  - simpl. lra.
Qed.

(* the theorem instantiated on that state gives exactly this bound *)
Example tf_iter_round_scale_thm :
  Rabs (snd (tf_iter (Rnd_ops sc) ex_state 0) - 5 / 4) <= ((1 + / 8) ^ 4 - 1) * (11 / 4).
Proof.
  destruct (tf_iter_round sc (/ 8) 0 std_model_scale ex_state 0) as (_ & _ & B). cbv zeta in B.
  unfold ex_state, push_fore in B. cbn [num den input output removelast combine length Nat.add] in B.
  unfold dot, adot, tsum, pabs in B. cbn [combine fold_right fst snd] in B.
  replace (Rabs (1 * 0)) with 0 in B by (rewrite Rmult_0_r, Rabs_R0; reflexivity).
  replace (Rabs (2 * 1)) with 2 in B by (rewrite Rabs_pos_eq; lra).
  replace (Rabs (1 / 2 * (3 / 2))) with (3 / 4) in B by (rewrite Rabs_pos_eq; lra).
  replace (5 / 4) with (1 * 0 + (2 * 1 + 0) - (1 / 2 * (3 / 2) + 0)) by lra.
  eapply Rle_trans; [exact B|]. simpl. lra.
Qed.

(* the gamma form: (n+1) eps = 4/8 < 1, gamma_4 = 1 *)
Example tf_iter_round_gamma_ex : Rabs (snd (tf_iter (Rnd_ops sc) ex_state 0) - 5 / 4) <= 1 * (11 / 4).
Proof.
  assert (Hg : INR (length (num ex_state) + length (den ex_state) + 1) * / 8 < 1) by (simpl; lra).
  pose proof (tf_iter_round_gamma sc (/ 8) 0 std_model_scale ex_state 0 Hg) as B.
  unfold ex_state, push_fore in B. cbn [num den input output removelast combine length Nat.add] in B.
  unfold dot, adot, tsum, pabs, gamma in B. cbn [combine fold_right fst snd] in B.
  replace (Rabs (1 * 0)) with 0 in B by (rewrite Rmult_0_r, Rabs_R0; reflexivity).
  replace (Rabs (2 * 1)) with 2 in B by (rewrite Rabs_pos_eq; lra).
  replace (Rabs (1 / 2 * (3 / 2))) with (3 / 4) in B by (rewrite Rabs_pos_eq; lra).
  replace (5 / 4) with (1 * 0 + (2 * 1 + 0) - (1 / 2 * (3 / 2) + 0)) by lra.
  eapply Rle_trans; [exact B|]. simpl. lra.
Qed.

(* binary64: a whole run of three samples satisfies the difference equation up to the residual bound, at every index *)
Example tf_run_round_binary64_ex : forall k, (k < 3)%nat ->
  let ys := r_tf_out rnd64 [1; 2] [1 / 2] [1; 0; 0] in
  Rabs (nth k ys 0 - (dot [1; 2] (recent 2 (rev (firstn (S k) [1; 0; 0]))) - dot [1 / 2] (recent 1 (rev (firstn k ys)))))
    <= tf_res_bound eps64 eta64 [1; 2] [1 / 2] (recent 2 (rev (firstn (S k) [1; 0; 0]))) (recent 1 (rev (firstn k ys))).
Proof. intros k Hk. exact (tf_run_round_binary64 [1; 2] [1 / 2] [1; 0; 0] k Hk). Qed.
