(* C16 low pass at the ROUNDED instance Rnd_ops rnd:   output *= 1 - alpha; output += x * alpha   is

        lpf_iter (Rnd_ops rnd) alpha out x = rnd (rnd (out * rnd (1 - alpha)) + rnd (x * alpha))          (r_lpf_iter_eq)

   QUESTION: does "the output stays within [min, max] of the previous output and the input" (RcProofs.lpf_convex over
   the reals) survive monotone rounding?   ANSWER: NO.
     lpf_hull_refuted        : in the 3-bit binary round-to-nearest-even format rnd3 (Common/RoundMono.v: monotone, odd,
                               idempotent, rnd 0 = 0, rnd 1 = 1, standard model with eps = 1/8), alpha = 5/64, out = x = 5
                               (all numbers of the format):  rnd3 (1 - 5/64) = 7/8,  rnd3 (5 * 7/8) = 4,
                               rnd3 (5 * 5/64) = 3/8,  rnd3 (4 + 3/8) = 4:  the constant input 5 moves the state 5 to 4.
                               The two weights rnd (1 - alpha) and alpha no longer sum to 1 and each product is rounded.
     lpf_hull_refuted_binary64 : and in IEEE binary64 itself: alpha = 0x1.999999999999ap-4 (nearest 0.1), out = x = 13
                               give 13 + 2^-49 = 13.000000000000002 > 13 (one ulp outside; no tie in the four roundings).
   WHAT IS TRUE under monotone rounding (mono_rnd), alpha in [0,1], for every history:
     r_lpf_mono              : the filter is MONOTONE in (state, inputs): pointwise smaller state and inputs give
                               pointwise smaller outputs;
     r_lpf_nonneg/_nonpos    : hence sign preservation: state and inputs >= 0 (<= 0) give outputs >= 0 (<= 0)
                               (0 is a fixed point: the hulls [0, +oo) and (-oo, 0] DO survive);
     r_lpf_hull_iff_corners  : hence the hull statement for an interval [lo, hi] holds for every history IF AND ONLY IF
                               it holds in the two constant corner cases  lo <= lpf(lo, lo)  and  lpf(hi, hi) <= hi:
                               the refutation above is the only way it can fail;
     r_lpf_alpha0/_alpha1    : alpha = 0 keeps the state, alpha = 1 copies the input, exactly (format-valued data).
   WHAT IS TRUE under the standard model (std_model rnd eps eta, rnd 1 = 1; monotonicity not needed), one step, |out|,|x| <= A:
     r_lpf_error             : |rounded step - exact step| <= B,   B = ((1+eps)^3 - 1) A + eta ((1+eps)^2 A + 2 (1+eps) + 1)
     r_lpf_hull_enlarged     : lo <= out, x <= hi  ->  lo - B <= rounded step <= hi + B      (the weakened hull statement).
   Overflow is outside the model (Common/RoundOps.v). *)
From Coq Require Import Reals ZArith List Lra Lia.
From Flocq Require Import Core.
From LibaV Require Import Common.NumOps Common.ROps Common.RoundOps Common.RoundFlocq Common.RoundMono
                          C16.FilterDefs C16.RcProofs.
Import ListNotations.
Local Open Scope R_scope.

Fixpoint r_lpf_outs (rnd : R -> R) (alpha o : R) (xs : list R) : list R :=
  match xs with
  | [] => []
  | x :: r => let o' := lpf_iter (Rnd_ops rnd) alpha o x in o' :: r_lpf_outs rnd alpha o' r
  end.

Lemma r_lpf_run_outs rnd alpha : forall xs o acc,
  snd (fold_left (fun st x => let o := lpf_iter (Rnd_ops rnd) alpha (fst st) x in (o, snd st ++ [o])) xs (o, acc)) =
  acc ++ r_lpf_outs rnd alpha o xs.
Proof.
  induction xs as [|x r IH]; intros o acc; cbn [fold_left r_lpf_outs]; [rewrite app_nil_r; reflexivity|].
  cbv zeta. cbn [fst snd]. rewrite IH, <- app_assoc. reflexivity.
Qed.

Lemma r_lpf_run_eq rnd alpha o xs : lpf_run (Rnd_ops rnd) alpha o xs = r_lpf_outs rnd alpha o xs.
Proof. unfold lpf_run. rewrite r_lpf_run_outs. reflexivity. Qed.

(* the bound of the weakened statement *)
Definition lpf_B (eps eta A : R) : R := ((1 + eps) ^ 3 - 1) * A + eta * ((1 + eps) ^ 2 * A + 2 * (1 + eps) + 1).

(* ------------------------------------------------------------ monotone rounding *)
Section MonoRnd.
  Variable rnd : R -> R.
  Hypothesis M : mono_rnd rnd.

  Lemma r_lpf_iter_eq alpha o x :
    lpf_iter (Rnd_ops rnd) alpha o x = rnd (rnd (o * rnd (1 - alpha)) + rnd (x * alpha)).
  Proof. unfold lpf_iter. unfold_rops. rewrite (mrnd_1 rnd M). reflexivity. Qed.

  Lemma r_lpf_mono_step alpha o1 o2 x1 x2 : 0 <= alpha <= 1 -> o1 <= o2 -> x1 <= x2 ->
    lpf_iter (Rnd_ops rnd) alpha o1 x1 <= lpf_iter (Rnd_ops rnd) alpha o2 x2.
  Proof.
    intros Ha Ho Hx. rewrite !r_lpf_iter_eq.
    assert (Hc : 0 <= rnd (1 - alpha)) by (apply (mrnd_ge0 rnd M); lra).
    apply (mrnd_le rnd M). apply Rplus_le_compat; apply (mrnd_le rnd M).
    - apply Rmult_le_compat_r; assumption.
    - apply Rmult_le_compat_r; lra.
  Qed.

  (* the filter is monotone in the initial state and in the input sequence, for every history *)
  Theorem r_lpf_mono alpha : 0 <= alpha <= 1 -> forall xs1 xs2 o1 o2,
    o1 <= o2 -> Forall2 Rle xs1 xs2 ->
    Forall2 Rle (lpf_run (Rnd_ops rnd) alpha o1 xs1) (lpf_run (Rnd_ops rnd) alpha o2 xs2).
  Proof.
    intros Ha xs1 xs2 o1 o2 Ho Hxs. rewrite !r_lpf_run_eq. revert o1 o2 Ho.
    induction Hxs as [|x1 x2 r1 r2 Hx Hr IH]; intros o1 o2 Ho; cbn [r_lpf_outs]; [constructor|].
    cbv zeta. pose proof (r_lpf_mono_step alpha o1 o2 x1 x2 Ha Ho Hx) as H1.
    constructor; [exact H1|apply IH; exact H1].
  Qed.

  (* 0 is a fixed point *)
  Lemma r_lpf_zero alpha : lpf_iter (Rnd_ops rnd) alpha 0 0 = 0.
  Proof. rewrite r_lpf_iter_eq, !Rmult_0_l, (mrnd_0 rnd M), Rplus_0_r. apply (mrnd_0 rnd M). Qed.

  Theorem r_lpf_nonneg alpha : 0 <= alpha <= 1 -> forall xs o,
    0 <= o -> Forall (fun x => 0 <= x) xs -> Forall (fun y => 0 <= y) (lpf_run (Rnd_ops rnd) alpha o xs).
  Proof.
    intros Ha xs. induction xs as [|x r IH]; intros o Ho Hxs; rewrite r_lpf_run_eq; cbn [r_lpf_outs]; [constructor|].
    inversion Hxs as [|? ? Hx Hr]; subst. cbv zeta.
    assert (H1 : 0 <= lpf_iter (Rnd_ops rnd) alpha o x).
    { rewrite <- (r_lpf_zero alpha). apply r_lpf_mono_step; assumption. }
    constructor; [exact H1|]. rewrite <- r_lpf_run_eq. apply IH; assumption.
  Qed.

  Theorem r_lpf_nonpos alpha : 0 <= alpha <= 1 -> forall xs o,
    o <= 0 -> Forall (fun x => x <= 0) xs -> Forall (fun y => y <= 0) (lpf_run (Rnd_ops rnd) alpha o xs).
  Proof.
    intros Ha xs. induction xs as [|x r IH]; intros o Ho Hxs; rewrite r_lpf_run_eq; cbn [r_lpf_outs]; [constructor|].
    inversion Hxs as [|? ? Hx Hr]; subst. cbv zeta.
    assert (H1 : lpf_iter (Rnd_ops rnd) alpha o x <= 0).
    { rewrite <- (r_lpf_zero alpha). apply r_lpf_mono_step; assumption. }
    constructor; [exact H1|]. rewrite <- r_lpf_run_eq. apply IH; assumption.
  Qed.

  (* the hull statement for [lo, hi], every history  <->  the two constant corner cases *)
  Definition lpf_hull (alpha lo hi : R) : Prop := forall xs o,
    lo <= o <= hi -> Forall (fun x => lo <= x <= hi) xs ->
    Forall (fun y => lo <= y <= hi) (lpf_run (Rnd_ops rnd) alpha o xs).

  Lemma r_lpf_hull_step alpha lo hi o x : 0 <= alpha <= 1 ->
    lo <= lpf_iter (Rnd_ops rnd) alpha lo lo -> lpf_iter (Rnd_ops rnd) alpha hi hi <= hi ->
    lo <= o <= hi -> lo <= x <= hi -> lo <= lpf_iter (Rnd_ops rnd) alpha o x <= hi.
  Proof.
    intros Ha Hl Hh Ho Hx. split.
    - eapply Rle_trans; [exact Hl|]. apply r_lpf_mono_step; lra.
    - eapply Rle_trans; [|exact Hh]. apply r_lpf_mono_step; lra.
  Qed.

  Theorem r_lpf_hull_iff_corners alpha lo hi : 0 <= alpha <= 1 -> lo <= hi ->
    (lpf_hull alpha lo hi <->
     lo <= lpf_iter (Rnd_ops rnd) alpha lo lo /\ lpf_iter (Rnd_ops rnd) alpha hi hi <= hi).
  Proof.
    intros Ha Hlh. split.
    - intros H. split.
      + specialize (H [lo] lo). rewrite r_lpf_run_eq in H. cbn [r_lpf_outs] in H.
        assert (F : Forall (fun y => lo <= y <= hi) [lpf_iter (Rnd_ops rnd) alpha lo lo]).
        { apply H; [lra|]. constructor; [lra|constructor]. }
        apply Forall_inv in F. lra.
      + specialize (H [hi] hi). rewrite r_lpf_run_eq in H. cbn [r_lpf_outs] in H.
        assert (F : Forall (fun y => lo <= y <= hi) [lpf_iter (Rnd_ops rnd) alpha hi hi]).
        { apply H; [lra|]. constructor; [lra|constructor]. }
        apply Forall_inv in F. lra.
    - intros [Hl Hh] xs. induction xs as [|x r IH]; intros o Ho Hxs; rewrite r_lpf_run_eq; cbn [r_lpf_outs]; [constructor|].
      inversion Hxs as [|? ? Hx Hr]; subst. cbv zeta.
      pose proof (r_lpf_hull_step alpha lo hi o x Ha Hl Hh Ho Hx) as H1.
      constructor; [exact H1|]. rewrite <- r_lpf_run_eq. apply IH; assumption.
  Qed.

  (* the two exact cases *)
  Lemma r_lpf_alpha0 o x : rnd o = o -> lpf_iter (Rnd_ops rnd) 0 o x = o.
  Proof.
    intros Fo. rewrite r_lpf_iter_eq. rewrite Rminus_0_r, (mrnd_1 rnd M), Rmult_1_r, Rmult_0_r, (mrnd_0 rnd M), Fo, Rplus_0_r.
    exact Fo.
  Qed.
  Lemma r_lpf_alpha1 o x : rnd x = x -> lpf_iter (Rnd_ops rnd) 1 o x = x.
  Proof.
    intros Fx. rewrite r_lpf_iter_eq. replace (1 - 1) with 0 by ring.
    rewrite (mrnd_0 rnd M), Rmult_0_r, (mrnd_0 rnd M), Rmult_1_r, Fx, Rplus_0_l. exact Fx.
  Qed.
End MonoRnd.

(* ------------------------------------------------------------ the hull statement is FALSE under monotone rounding *)
Lemma bpow_m3 : bpow radix2 (-3) = / 8. Proof. reflexivity. Qed.
Lemma bpow_m4 : bpow radix2 (-4) = / 16. Proof. reflexivity. Qed.

Lemma rnd3_59_64 : rnd3 (1 - 5 / 64) = 7 / 8.
Proof.
  rewrite (rnd3_near 7 (-3)).
  - rewrite bpow_m3. lra.
  - change (bpow radix2 (-3 + 2)) with (/ 2). change (bpow radix2 (-3 + 3)) with 1. lra.
  - rewrite bpow_m3. apply Rabs_def1; lra.
Qed.
Lemma rnd3_35_8 : rnd3 (5 * (7 / 8)) = 4.
Proof.
  rewrite (rnd3_near 4 0).
  - simpl. lra.
  - change (bpow radix2 (0 + 2)) with 4. change (bpow radix2 (0 + 3)) with 8. lra.
  - change (bpow radix2 0) with 1. apply Rabs_def1; lra.
Qed.
Lemma rnd3_25_64 : rnd3 (5 * (5 / 64)) = 3 / 8.
Proof.
  rewrite (rnd3_near 6 (-4)).
  - rewrite bpow_m4. lra.
  - change (bpow radix2 (-4 + 2)) with (/ 4). change (bpow radix2 (-4 + 3)) with (/ 2). lra.
  - rewrite bpow_m4. apply Rabs_def1; lra.
Qed.
Lemma rnd3_35_8' : rnd3 (4 + 3 / 8) = 4.
Proof. replace (4 + 3 / 8) with (5 * (7 / 8)) by lra. exact rnd3_35_8. Qed.

Lemma lpf_rnd3_witness : lpf_iter (Rnd_ops rnd3) (5 / 64) 5 5 = 4.
Proof. rewrite (r_lpf_iter_eq rnd3 mono_rnd_3), rnd3_59_64, rnd3_35_8, rnd3_25_64. exact rnd3_35_8'. Qed.

(* all three data are numbers of the 3-bit format: 5 = 5 * 2^0, 5/64 = 5 * 2^-6 *)
Lemma rnd3_5 : rnd3 5 = 5.
Proof. pose proof (fix3 5 0) as H. simpl in H. rewrite Rmult_1_r in H. apply H. lia. Qed.
Lemma rnd3_5_64 : rnd3 (5 / 64) = 5 / 64.
Proof.
  pose proof (fix3 5 (-6)) as H. change (bpow radix2 (-6)) with (/ 64) in H.
  replace (5 / 64) with (5 * / 64) by lra. apply H. simpl. lia.
Qed.

Theorem lpf_hull_refuted :
  exists (rnd : R -> R) (alpha o x : R),
    mono_rnd rnd /\ idem_rnd rnd /\ std_model rnd (/ 8) 0 /\
    0 <= alpha <= 1 /\ rnd alpha = alpha /\ rnd o = o /\ rnd x = x /\
    lpf_iter (Rnd_ops rnd) alpha o x < Rmin o x.
Proof.
  exists rnd3, (5 / 64), 5, 5.
  split; [exact mono_rnd_3|]. split; [exact idem_rnd_3|]. split; [exact std_model_3|].
  split; [lra|]. split; [exact rnd3_5_64|]. split; [exact rnd3_5|]. split; [exact rnd3_5|].
  rewrite lpf_rnd3_witness. unfold Rmin. destruct (Rle_dec 5 5); lra.
Qed.

(* in the form of the real-number theorem lpf_convex: it does not hold at Rnd_ops rnd3 *)
Theorem lpf_convex_rounded_refuted :
  ~ (forall alpha lo hi, 0 <= alpha <= 1 -> forall xs o,
       lo <= o <= hi -> Forall (fun x => lo <= x <= hi) xs ->
       Forall (fun y => lo <= y <= hi) (lpf_run (Rnd_ops rnd3) alpha o xs)).
Proof.
  intros H. specialize (H (5 / 64) 5 5 ltac:(lra) [5] 5 ltac:(lra) ltac:(constructor; [lra|constructor])).
  rewrite r_lpf_run_eq in H. cbn [r_lpf_outs] in H. apply Forall_inv in H.
  rewrite lpf_rnd3_witness in H. lra.
Qed.

(* ... and it is false in IEEE binary64 itself: alpha = a64 = 0x1.999999999999ap-4 (the binary64 number nearest 0.1),
   out = x = 13:   rnd64 (1 - a64) = 0x1.ccccccccccccdp-1,  rnd64 (13 * that) = 0x1.7666666666667p+3,
   rnd64 (13 * a64) = 0x1.4cccccccccccdp+0,  and their sum rounds to 0x1.a000000000001p+3 = 13 + 2^-49 > 13.
   No tie occurs in the four roundings (rnd64_near).  The C code a_lpf_iter computes exactly this. *)
Definition a64 : R := 3602879701896397 / 36028797018963968.

Lemma rnd64_a64 : rnd64 a64 = a64.
Proof.
  unfold a64, rnd64. apply round_generic; [typeclasses eauto|]. apply generic_format_FLT.
  exists (Float radix2 3602879701896397 (-55)).
  - unfold F2R. cbn [Fnum Fexp]. change (bpow radix2 (-55)) with (/ 36028797018963968). reflexivity.
  - cbn [Fnum]. change (radix2 ^ 53)%Z with (2 ^ 53)%Z. simpl. lia.
  - cbn [Fexp]. lia.
Qed.
Lemma rnd64_13 : rnd64 13 = 13.
Proof. apply (rnd64_IZR 13). simpl. lia. Qed.

Lemma rnd64_w1 : rnd64 (1 - a64) = 8106479329266893 / 9007199254740992.
Proof.
  unfold a64. rewrite (rnd64_near 8106479329266893 (-53)); [|lia| |].
  - change (bpow radix2 (-53)) with (/ 9007199254740992). reflexivity.
  - change (bpow radix2 (-53 + 52)) with (/ 2). change (bpow radix2 (-53 + 53)) with 1. lra.
  - change (bpow radix2 (-53)) with (/ 9007199254740992). apply Rabs_def1; lra.
Qed.
Lemma rnd64_w2 : rnd64 (13 * (8106479329266893 / 9007199254740992)) = 6586514455029351 / 562949953421312.
Proof.
  rewrite (rnd64_near 6586514455029351 (-49)); [|lia| |].
  - change (bpow radix2 (-49)) with (/ 562949953421312). reflexivity.
  - change (bpow radix2 (-49 + 52)) with 8. change (bpow radix2 (-49 + 53)) with 16. lra.
  - change (bpow radix2 (-49)) with (/ 562949953421312). apply Rabs_def1; lra.
Qed.
Lemma rnd64_w3 : rnd64 (13 * a64) = 5854679515581645 / 4503599627370496.
Proof.
  unfold a64. rewrite (rnd64_near 5854679515581645 (-52)); [|lia| |].
  - change (bpow radix2 (-52)) with (/ 4503599627370496). reflexivity.
  - change (bpow radix2 (-52 + 52)) with 1. change (bpow radix2 (-52 + 53)) with 2. lra.
  - change (bpow radix2 (-52)) with (/ 4503599627370496). apply Rabs_def1; lra.
Qed.
Lemma rnd64_w4 : rnd64 (6586514455029351 / 562949953421312 + 5854679515581645 / 4503599627370496) =
                 7318349394477057 / 562949953421312.
Proof.
  rewrite (rnd64_near 7318349394477057 (-49)); [|lia| |].
  - change (bpow radix2 (-49)) with (/ 562949953421312). reflexivity.
  - change (bpow radix2 (-49 + 52)) with 8. change (bpow radix2 (-49 + 53)) with 16. lra.
  - change (bpow radix2 (-49)) with (/ 562949953421312). apply Rabs_def1; lra.
Qed.

Lemma lpf_rnd64_witness : lpf_iter (Rnd_ops rnd64) a64 13 13 = 13 + / 562949953421312.
Proof.
  rewrite (r_lpf_iter_eq rnd64 mono_rnd_binary64), rnd64_w1, rnd64_w2, rnd64_w3, rnd64_w4. lra.
Qed.

Theorem lpf_hull_refuted_binary64 :
  exists alpha o x : R,
    0 <= alpha <= 1 /\ rnd64 alpha = alpha /\ rnd64 o = o /\ rnd64 x = x /\ Rmax o x < lpf_iter (Rnd_ops rnd64) alpha o x.
Proof.
  exists a64, 13, 13.
  split; [unfold a64; lra|]. split; [exact rnd64_a64|]. split; [exact rnd64_13|]. split; [exact rnd64_13|].
  rewrite lpf_rnd64_witness. unfold Rmax. destruct (Rle_dec 13 13); lra.
Qed.

Theorem lpf_convex_binary64_refuted :
  ~ (forall alpha lo hi, 0 <= alpha <= 1 -> forall xs o,
       lo <= o <= hi -> Forall (fun x => lo <= x <= hi) xs ->
       Forall (fun y => lo <= y <= hi) (lpf_run (Rnd_ops rnd64) alpha o xs)).
Proof.
  intros H. specialize (H a64 13 13 ltac:(unfold a64; lra) [13] 13 ltac:(lra) ltac:(constructor; [lra|constructor])).
  rewrite r_lpf_run_eq in H. cbn [r_lpf_outs] in H. apply Forall_inv in H.
  rewrite lpf_rnd64_witness in H. lra.
Qed.

(* ------------------------------------------------------------ the weakened statement, under the standard model *)
Section StdModel.
  Variable rnd : R -> R.
  Variables eps eta : R.
  Hypothesis S : std_model rnd eps eta.
  Hypothesis R1 : rnd 1 = 1.

  Lemma s_lpf_iter_eq alpha o x :
    lpf_iter (Rnd_ops rnd) alpha o x = rnd (rnd (o * rnd (1 - alpha)) + rnd (x * alpha)).
  Proof. unfold lpf_iter. unfold_rops. rewrite R1. reflexivity. Qed.

  Theorem r_lpf_error alpha o x A : 0 <= alpha <= 1 -> Rabs o <= A -> Rabs x <= A ->
    Rabs (lpf_iter (Rnd_ops rnd) alpha o x - lpf_iter R_ops alpha o x) <= lpf_B eps eta A.
  Proof.
    intros Ha Ho Hx. rewrite s_lpf_iter_eq, lpf_iter_R.
    pose proof (eps_ge0 _ _ _ S) as He. pose proof (eta_ge0 _ _ _ S) as Ht.
    assert (HA : 0 <= A) by (pose proof (Rabs_pos o); lra).
    set (c := rnd (1 - alpha)). set (p1 := rnd (o * c)). set (p2 := rnd (x * alpha)).
    (* the rounded weight *)
    assert (E0 : Rabs (c - (1 - alpha)) <= eps * (1 - alpha) + eta).
    { pose proof (rnd_err _ _ _ S (1 - alpha)) as H. rewrite (Rabs_pos_eq (1 - alpha)) in H by lra. exact H. }
    (* first product against o (1 - alpha) *)
    assert (E1 : Rabs (p1 - o * (1 - alpha)) <= (1 + eps) * (A * (eps * (1 - alpha) + eta)) + eps * (A * (1 - alpha)) + eta).
    { pose proof (rnd_step _ _ _ S (o * c) (o * (1 - alpha))) as H.
      replace (o * c - o * (1 - alpha)) with (o * (c - (1 - alpha))) in H by ring.
      rewrite !Rabs_mult, (Rabs_pos_eq (1 - alpha)) in H by lra.
      assert (Rabs o * Rabs (c - (1 - alpha)) <= A * (eps * (1 - alpha) + eta)).
      { apply Rmult_le_compat; [apply Rabs_pos|apply Rabs_pos|exact Ho|exact E0]. }
      assert (Rabs o * (1 - alpha) <= A * (1 - alpha)) by (apply Rmult_le_compat_r; lra).
      eapply Rle_trans; [exact H|]. nra. }
    (* second product against x alpha *)
    assert (E2 : Rabs (p2 - x * alpha) <= eps * (A * alpha) + eta).
    { pose proof (rnd_err _ _ _ S (x * alpha)) as H. rewrite Rabs_mult, (Rabs_pos_eq alpha) in H by lra.
      assert (Rabs x * alpha <= A * alpha) by (apply Rmult_le_compat_r; lra).
      eapply Rle_trans; [exact H|]. nra. }
    (* the sum *)
    pose proof (rnd_step _ _ _ S (p1 + p2) (o * (1 - alpha) + x * alpha)) as H.
    assert (V : Rabs (o * (1 - alpha) + x * alpha) <= A).
    { eapply Rle_trans; [apply Rabs_triang|]. rewrite !Rabs_mult, (Rabs_pos_eq (1 - alpha)), (Rabs_pos_eq alpha) by lra.
      assert (Rabs o * (1 - alpha) <= A * (1 - alpha)) by (apply Rmult_le_compat_r; lra).
      assert (Rabs x * alpha <= A * alpha) by (apply Rmult_le_compat_r; lra). lra. }
    assert (D : Rabs (p1 + p2 - (o * (1 - alpha) + x * alpha)) <=
                ((1 + eps) * (A * (eps * (1 - alpha) + eta)) + eps * (A * (1 - alpha)) + eta) + (eps * (A * alpha) + eta)).
    { replace (p1 + p2 - (o * (1 - alpha) + x * alpha)) with ((p1 - o * (1 - alpha)) + (p2 - x * alpha)) by ring.
      eapply Rle_trans; [apply Rabs_triang|]. lra. }
    eapply Rle_trans; [exact H|].
    set (D1 := (1 + eps) * (A * (eps * (1 - alpha) + eta)) + eps * (A * (1 - alpha)) + eta + (eps * (A * alpha) + eta)) in *.
    assert (G : (1 + eps) * D1 + eps * A + eta + A * eps * (1 + eps) ^ 2 * alpha = lpf_B eps eta A).
    { unfold D1, lpf_B. ring. }
    assert (0 <= A * eps * (1 + eps) ^ 2 * alpha).
    { repeat apply Rmult_le_pos; try lra; apply pow2_ge_0. }
    assert ((1 + eps) * Rabs (p1 + p2 - (o * (1 - alpha) + x * alpha)) <= (1 + eps) * D1) by (apply Rmult_le_compat_l; lra).
    assert (eps * Rabs (o * (1 - alpha) + x * alpha) <= eps * A) by (apply Rmult_le_compat_l; lra).
    lra.
  Qed.

  (* the hull enlarged by the error bound *)
  Theorem r_lpf_hull_enlarged alpha o x lo hi A : 0 <= alpha <= 1 ->
    lo <= o <= hi -> lo <= x <= hi -> Rabs lo <= A -> Rabs hi <= A ->
    lo - lpf_B eps eta A <= lpf_iter (Rnd_ops rnd) alpha o x <= hi + lpf_B eps eta A.
  Proof.
    intros Ha Ho Hx Hl Hh.
    assert (Bo : Rabs o <= A).
    { apply Rabs_le. pose proof (Rabs_le_inv _ _ Hl). pose proof (Rabs_le_inv _ _ Hh). lra. }
    assert (Bx : Rabs x <= A).
    { apply Rabs_le. pose proof (Rabs_le_inv _ _ Hl). pose proof (Rabs_le_inv _ _ Hh). lra. }
    pose proof (r_lpf_error alpha o x A Ha Bo Bx) as E. apply Rabs_le_inv in E.
    pose proof (lpf_convex_step alpha o x lo hi Ha Ho Hx). lra.
  Qed.

  Theorem r_lpf_error_and_hull alpha o x lo hi A : 0 <= alpha <= 1 ->
    lo <= o <= hi -> lo <= x <= hi -> Rabs lo <= A -> Rabs hi <= A ->
    Rabs (lpf_iter (Rnd_ops rnd) alpha o x - lpf_iter R_ops alpha o x) <= lpf_B eps eta A /\
    lo - lpf_B eps eta A <= lpf_iter (Rnd_ops rnd) alpha o x <= hi + lpf_B eps eta A.
  Proof.
    intros Ha Ho Hx Hl Hh. split; [|apply r_lpf_hull_enlarged; assumption].
    apply r_lpf_error; [exact Ha| |]; apply Rabs_le; pose proof (Rabs_le_inv _ _ Hl); pose proof (Rabs_le_inv _ _ Hh); lra.
  Qed.
End StdModel.

(* ------------------------------------------------------------ binary64 corollaries *)
Corollary b64_lpf_mono alpha : 0 <= alpha <= 1 -> forall xs1 xs2 o1 o2,
  o1 <= o2 -> Forall2 Rle xs1 xs2 ->
  Forall2 Rle (lpf_run (Rnd_ops rnd64) alpha o1 xs1) (lpf_run (Rnd_ops rnd64) alpha o2 xs2).
Proof. exact (r_lpf_mono rnd64 mono_rnd_binary64 alpha). Qed.

Corollary b64_lpf_nonneg alpha : 0 <= alpha <= 1 -> forall xs o,
  0 <= o -> Forall (fun x => 0 <= x) xs -> Forall (fun y => 0 <= y) (lpf_run (Rnd_ops rnd64) alpha o xs).
Proof. exact (r_lpf_nonneg rnd64 mono_rnd_binary64 alpha). Qed.

Corollary b64_lpf_hull_iff_corners alpha lo hi : 0 <= alpha <= 1 -> lo <= hi ->
  (lpf_hull rnd64 alpha lo hi <->
   lo <= lpf_iter (Rnd_ops rnd64) alpha lo lo /\ lpf_iter (Rnd_ops rnd64) alpha hi hi <= hi).
Proof. exact (r_lpf_hull_iff_corners rnd64 mono_rnd_binary64 alpha lo hi). Qed.

Corollary b64_lpf_hull_enlarged alpha o x lo hi A : 0 <= alpha <= 1 ->
  lo <= o <= hi -> lo <= x <= hi -> Rabs lo <= A -> Rabs hi <= A ->
  lo - lpf_B eps64 eta64 A <= lpf_iter (Rnd_ops rnd64) alpha o x <= hi + lpf_B eps64 eta64 A.
Proof. exact (r_lpf_hull_enlarged rnd64 eps64 eta64 std_model_binary64 rnd64_1 alpha o x lo hi A). Qed.

(* ------------------------------------------------------------ non-vacuity *)
(* the hypotheses of the monotonicity / sign theorems on a concrete history *)
Example r_lpf_ex : Forall (fun y => 0 <= y) (lpf_run (Rnd_ops rnd64) (1 / 2) 0 [4; 4; 0; 2]) /\
                   Forall2 Rle [1; 2; 0] [1; 3; 4].
Proof. split; [apply b64_lpf_nonneg; [lra|lra|repeat constructor; lra]|repeat constructor; lra]. Qed.

(* the corner condition is satisfiable non-trivially: in binary64, alpha = 1/2, [lo, hi] = [-3, 3]:
   rnd64 (rnd64 (3 * rnd64 (1/2)) + rnd64 (3 * 1/2)) = 3 (all intermediate values are binary64 numbers) *)
Lemma rnd64_half_int (z : Z) : (Z.abs z <= 2 ^ 53)%Z -> rnd64 (IZR z * / 2) = IZR z * / 2.
Proof.
  intros Hz. unfold rnd64. apply round_generic; [typeclasses eauto|].
  apply generic_format_FLT.
  destruct (Z.eq_dec (Z.abs z) (2 ^ 53)) as [E|E].
  - assert (Hs : z = (Z.sgn z * 2 ^ 53)%Z) by lia.
    exists (Float radix2 (Z.sgn z) 52).
    + unfold F2R. cbn [Fnum Fexp]. rewrite Hs at 1. rewrite mult_IZR.
      change (IZR (2 ^ 53)) with (bpow radix2 53). change (/ 2) with (bpow radix2 (-1)).
      rewrite Rmult_assoc, <- bpow_plus. reflexivity.
    + cbn [Fnum]. destruct z; simpl; lia.
    + cbn [Fexp]. lia.
  - exists (Float radix2 z (-1)).
    + unfold F2R. cbn [Fnum Fexp]. reflexivity.
    + cbn [Fnum]. change (radix2 ^ 53)%Z with (2 ^ 53)%Z. lia.
    + cbn [Fexp]. lia.
Qed.

Example b64_corner_ex : lpf_hull rnd64 (1 / 2) (-3) 3.
Proof.
  assert (H3 : lpf_iter (Rnd_ops rnd64) (1 / 2) 3 3 = 3).
  { rewrite (r_lpf_iter_eq rnd64 mono_rnd_binary64).
    replace (1 - 1 / 2) with (IZR 1 * / 2) by lra. rewrite rnd64_half_int by (simpl; lia).
    replace (3 * (IZR 1 * / 2)) with (IZR 3 * / 2) by lra. replace (3 * (1 / 2)) with (IZR 3 * / 2) by lra.
    rewrite rnd64_half_int by (simpl; lia). replace (IZR 3 * / 2 + IZR 3 * / 2) with (IZR 3) by lra.
    apply rnd64_IZR. simpl; lia. }
  assert (Hm3 : lpf_iter (Rnd_ops rnd64) (1 / 2) (-3) (-3) = -3).
  { rewrite (r_lpf_iter_eq rnd64 mono_rnd_binary64).
    replace (1 - 1 / 2) with (IZR 1 * / 2) by lra. rewrite rnd64_half_int by (simpl; lia).
    replace (-3 * (IZR 1 * / 2)) with (IZR (-3) * / 2) by lra. replace (-3 * (1 / 2)) with (IZR (-3) * / 2) by lra.
    rewrite rnd64_half_int by (simpl; lia). replace (IZR (-3) * / 2 + IZR (-3) * / 2) with (IZR (-3)) by lra.
    apply rnd64_IZR. simpl; lia. }
  apply b64_lpf_hull_iff_corners; [lra|lra|]. rewrite H3, Hm3. lra.
Qed.

(* the enlarged hull is a genuine enlargement in the refuting format: eps = 1/8, eta = 0, A = 5: B = 5 ((9/8)^3 - 1) > 1,
   and the witness 4 lies in [5 - B, 5 + B] *)
Example enlarged_hull_ex : 5 - lpf_B (/ 8) 0 5 <= lpf_iter (Rnd_ops rnd3) (5 / 64) 5 5 <= 5 + lpf_B (/ 8) 0 5.
Proof.
  apply (r_lpf_hull_enlarged rnd3 (/ 8) 0 std_model_3 (mr_1 _ mono_rnd_3)); try lra; rewrite Rabs_pos_eq; lra.
Qed.
