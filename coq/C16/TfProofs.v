From Coq Require Import Reals ZArith List Lra Lia.
From LibaV Require Import Common.NumOps Common.ROps C16.FilterDefs.
Import ListNotations.
Local Open Scope R_scope.

(* ------------------------------------------------------------ list helpers *)
Definition zeros (n : nat) : list R := repeat 0 n.

(* the n most recent samples of a history (most recent first), zero padded *)
Definition recent (n : nat) (h : list R) : list R := firstn n (h ++ zeros n).

Definition dot (a b : list R) : R := fold_right (fun p acc => fst p * snd p + acc) 0 (combine a b).

Lemma firstn_repeat {A} (x : A) k m : firstn k (repeat x m) = repeat x (Nat.min k m).
Proof. revert m. induction k as [|k IH]; intros [|m]; cbn; try reflexivity. rewrite IH. reflexivity. Qed.

Lemma recent_length n h : length (recent n h) = n.
Proof. unfold recent, zeros. rewrite firstn_length, app_length, repeat_length. lia. Qed.

Lemma recent_nil n : recent n [] = zeros n.
Proof. unfold recent, zeros. cbn [app]. rewrite firstn_repeat, Nat.min_id. reflexivity. Qed.

Lemma recent_pad n h j : recent n (h ++ zeros j) = recent n h.
Proof.
  unfold recent, zeros. rewrite <- app_assoc, <- repeat_app.
  rewrite !firstn_app, !firstn_repeat. f_equal. f_equal. lia.
Qed.

Lemma map_zero_recent (l : list R) : map (fun _ => 0) l = recent (length l) [].
Proof. rewrite recent_nil. unfold zeros. induction l; cbn; [reflexivity|]. rewrite IHl. reflexivity. Qed.

Lemma push_fore_recent n h x : push_fore (recent n h) x = recent n (x :: h).
Proof.
  destruct n as [|n]; [reflexivity|].
  unfold push_fore.
  destruct (recent (S n) h) as [|a l] eqn:E.
  - apply (f_equal (@length R)) in E. rewrite recent_length in E. discriminate.
  - rewrite <- E. unfold recent. rewrite <- app_comm_cons, firstn_cons. f_equal.
    assert (Hl : (n < length (h ++ zeros (S n)))%nat).
    { rewrite app_length. unfold zeros. rewrite repeat_length. lia. }
    rewrite removelast_firstn by exact Hl.
    unfold zeros. rewrite !firstn_app, !firstn_repeat. f_equal; f_equal; lia.
Qed.

Lemma fold_num (a b : list R) y0 :
  fold_left (fun y ni => y + fst ni * snd ni) (combine a b) y0 = y0 + dot a b.
Proof.
  unfold dot. revert y0. induction (combine a b) as [|p l IH]; intros y0; cbn [fold_left fold_right]; [ring|].
  rewrite IH. ring.
Qed.

Lemma fold_den (a b : list R) y0 :
  fold_left (fun y dj => y - fst dj * snd dj) (combine a b) y0 = y0 - dot a b.
Proof.
  unfold dot. revert y0. induction (combine a b) as [|p l IH]; intros y0; cbn [fold_left fold_right]; [ring|].
  rewrite IH. ring.
Qed.

(* ------------------------------------------------------------ the difference equation *)
(* the recurrence with explicit full histories hu, hy (most recent first) *)
Fixpoint spec_run (nm dn hu hy us : list R) : list R :=
  match us with
  | [] => []
  | u :: r => let y := dot nm (recent (length nm) (u :: hu)) - dot dn (recent (length dn) hy) in
              y :: spec_run nm dn (u :: hu) (y :: hy) r
  end.

Definition st (nm dn hu hy : list R) : tf (T := R) :=
  {| num := nm; den := dn; input := recent (length nm) hu; output := recent (length dn) hy |}.

Lemma tf_iter_spec nm dn hu hy u :
  tf_iter R_ops (st nm dn hu hy) u =
  let y := dot nm (recent (length nm) (u :: hu)) - dot dn (recent (length dn) hy) in
  (st nm dn (u :: hu) (y :: hy), y).
Proof.
  unfold tf_iter, st. cbn [num den input output]. unfold_ops.
  rewrite !push_fore_recent, fold_num, fold_den. rewrite Rplus_0_l. reflexivity.
Qed.

Fixpoint hist_after (nm dn hu hy us : list R) : list R * list R :=
  match us with
  | [] => (hu, hy)
  | u :: r => let y := dot nm (recent (length nm) (u :: hu)) - dot dn (recent (length dn) hy) in
              hist_after nm dn (u :: hu) (y :: hy) r
  end.

Theorem tf_run_spec nm dn : forall us hu hy,
  tf_run R_ops (st nm dn hu hy) us =
  (st nm dn (fst (hist_after nm dn hu hy us)) (snd (hist_after nm dn hu hy us)), spec_run nm dn hu hy us).
Proof.
  induction us as [|u r IH]; intros hu hy; [reflexivity|].
  cbn [tf_run spec_run hist_after]. rewrite tf_iter_spec. cbv beta iota zeta. rewrite IH. reflexivity.
Qed.

Lemma tf_init_st nm dn : tf_init R_ops nm dn = st nm dn [] [].
Proof. unfold tf_init, st. unfold_ops. rewrite !map_zero_recent. reflexivity. Qed.

(* indexed form: output k = sum num_i * (k-i)-th most recent input  -  sum den_j * (k-1-j)-th most recent output *)
Lemma spec_run_nth nm dn : forall us hu hy k, (k < length us)%nat ->
  let ys := spec_run nm dn hu hy us in
  nth k ys 0 = dot nm (recent (length nm) (rev (firstn (S k) us) ++ hu))
             - dot dn (recent (length dn) (rev (firstn k ys) ++ hy)).
Proof.
  induction us as [|u r IH]; intros hu hy k Hk; [cbn in Hk; lia|].
  cbv zeta. cbn [spec_run]. destruct k as [|k].
  - cbn [nth firstn rev app]. reflexivity.
  - cbn [nth]. cbn [length] in Hk. rewrite (IH (u :: hu) _ k) by lia.
    cbn [firstn rev]. rewrite <- !app_assoc. cbn [app]. reflexivity.
Qed.

Lemma spec_run_length nm dn : forall us hu hy, length (spec_run nm dn hu hy us) = length us.
Proof. induction us as [|u r IH]; intros; cbn [spec_run length]; [reflexivity|]. rewrite IH. reflexivity. Qed.

(* ------------------------------------------------------------ linearity *)
Definition lc (a : R) (l1 : list R) (b : R) (l2 : list R) : list R :=
  map (fun p => a * fst p + b * snd p) (combine l1 l2).

Lemma lc_length a l1 b l2 : length l1 = length l2 -> length (lc a l1 b l2) = length l1.
Proof. intros H. unfold lc. rewrite map_length, combine_length. lia. Qed.

Lemma lc_zeros a b n : lc a (zeros n) b (zeros n) = zeros n.
Proof. unfold lc, zeros. induction n; cbn; [reflexivity|]. rewrite IHn. f_equal. ring. Qed.

Lemma lc_app a b l1 l2 m1 m2 : length l1 = length l2 ->
  lc a (l1 ++ m1) b (l2 ++ m2) = lc a l1 b l2 ++ lc a m1 b m2.
Proof.
  revert l2. induction l1 as [|x l1 IH]; intros [|y l2] H; try discriminate; [reflexivity|].
  unfold lc in *. cbn [app combine map]. f_equal. apply IH. cbn in H. lia.
Qed.

Lemma lc_firstn a b n l1 l2 : firstn n (lc a l1 b l2) = lc a (firstn n l1) b (firstn n l2).
Proof. unfold lc. rewrite firstn_map, combine_firstn. reflexivity. Qed.

Lemma recent_lc n a b h1 h2 : length h1 = length h2 ->
  recent n (lc a h1 b h2) = lc a (recent n h1) b (recent n h2).
Proof.
  intros H. unfold recent. rewrite <- lc_firstn. f_equal.
  rewrite lc_app by exact H. rewrite lc_zeros. reflexivity.
Qed.

Lemma dot_lc c a b : forall l1 l2, length l1 = length l2 ->
  dot c (lc a l1 b l2) = a * dot c l1 + b * dot c l2.
Proof.
  unfold dot, lc. induction c as [|x c IH]; intros l1 l2 H; [cbn; ring|].
  destruct l1 as [|y1 l1], l2 as [|y2 l2]; try discriminate; [cbn; ring|].
  cbn [combine map fold_right fst snd]. rewrite IH by (cbn in H; lia). ring.
Qed.

Theorem spec_run_linear nm dn a b : forall us1 us2 hu1 hu2 hy1 hy2,
  length us1 = length us2 -> length hu1 = length hu2 -> length hy1 = length hy2 ->
  spec_run nm dn (lc a hu1 b hu2) (lc a hy1 b hy2) (lc a us1 b us2) =
  lc a (spec_run nm dn hu1 hy1 us1) b (spec_run nm dn hu2 hy2 us2).
Proof.
  induction us1 as [|u1 r1 IH]; intros [|u2 r2] hu1 hu2 hy1 hy2 Hus Hhu Hhy; try discriminate; [reflexivity|].
  cbn [spec_run]. cbv zeta.
  change (lc a (u1 :: r1) b (u2 :: r2)) with ((a * u1 + b * u2) :: lc a r1 b r2).
  cbn [spec_run]. cbv zeta.
  set (y1 := dot nm (recent (length nm) (u1 :: hu1)) - dot dn (recent (length dn) hy1)).
  set (y2 := dot nm (recent (length nm) (u2 :: hu2)) - dot dn (recent (length dn) hy2)).
  assert (Ey : dot nm (recent (length nm) ((a * u1 + b * u2) :: lc a hu1 b hu2)) -
               dot dn (recent (length dn) (lc a hy1 b hy2)) = a * y1 + b * y2).
  { change ((a * u1 + b * u2) :: lc a hu1 b hu2) with (lc a (u1 :: hu1) b (u2 :: hu2)).
    rewrite !recent_lc by (cbn [length]; lia).
    rewrite !dot_lc by (rewrite !recent_length; reflexivity).
    unfold y1, y2. ring. }
  rewrite Ey.
  change (lc a (y1 :: spec_run nm dn (u1 :: hu1) (y1 :: hy1) r1) b (y2 :: spec_run nm dn (u2 :: hu2) (y2 :: hy2) r2))
    with ((a * y1 + b * y2) :: lc a (spec_run nm dn (u1 :: hu1) (y1 :: hy1) r1) b (spec_run nm dn (u2 :: hu2) (y2 :: hy2) r2)).
  f_equal.
  change ((a * u1 + b * u2) :: lc a hu1 b hu2) with (lc a (u1 :: hu1) b (u2 :: hu2)).
  change ((a * y1 + b * y2) :: lc a hy1 b hy2) with (lc a (y1 :: hy1) b (y2 :: hy2)).
  apply IH; cbn [length] in *; lia.
Qed.

(* ------------------------------------------------------------ time invariance *)
Lemma dot_zeros_r c n : dot c (zeros n) = 0.
Proof.
  unfold dot, zeros. revert n. induction c as [|x c IH]; intros [|n]; cbn; try reflexivity.
  rewrite IH. ring.
Qed.

Lemma spec_run_pad nm dn : forall us hu hy i j,
  spec_run nm dn (hu ++ zeros i) (hy ++ zeros j) us = spec_run nm dn hu hy us.
Proof.
  induction us as [|u r IH]; intros hu hy i j; [reflexivity|].
  cbn [spec_run]. cbv zeta.
  rewrite (app_comm_cons hu (zeros i) u), !recent_pad. f_equal.
  rewrite (app_comm_cons hy (zeros j)). apply IH.
Qed.

Theorem spec_run_delay nm dn d us :
  spec_run nm dn [] [] (zeros d ++ us) = zeros d ++ spec_run nm dn [] [] us.
Proof.
  induction d as [|d IH]; [reflexivity|].
  unfold zeros in *. cbn [repeat app spec_run]. cbv zeta.
  assert (E0 : dot nm (recent (length nm) [0]) - dot dn (recent (length dn) []) = 0).
  { change [0] with ([] ++ zeros 1). rewrite recent_pad, !recent_nil, !dot_zeros_r. ring. }
  rewrite E0. f_equal.
  change [0] with ([] ++ zeros 1). rewrite spec_run_pad. exact IH.
Qed.

(* ------------------------------------------------------------ zeroing *)
Theorem tf_zero_is_init nm dn hu hy : tf_zero R_ops (st nm dn hu hy) = tf_init R_ops nm dn.
Proof.
  unfold tf_zero, tf_init, st. cbn [num den input output]. unfold_ops. f_equal.
  - rewrite !map_zero_recent, recent_length. reflexivity.
  - rewrite !map_zero_recent, recent_length. reflexivity.
Qed.

(* ------------------------------------------------------------ statements about the model itself *)
Definition tf_out (nm dn us : list R) : list R := snd (tf_run R_ops (tf_init R_ops nm dn) us).

Theorem tf_out_spec nm dn us : tf_out nm dn us = spec_run nm dn [] [] us.
Proof. unfold tf_out. rewrite tf_init_st, tf_run_spec. reflexivity. Qed.

Theorem tf_difference_eq nm dn us k : (k < length us)%nat ->
  nth k (tf_out nm dn us) 0 =
    dot nm (recent (length nm) (rev (firstn (S k) us)))
  - dot dn (recent (length dn) (rev (firstn k (tf_out nm dn us)))).
Proof.
  intros Hk. rewrite tf_out_spec. pose proof (spec_run_nth nm dn us [] [] k Hk) as H. cbv zeta in H.
  rewrite !app_nil_r in H. exact H.
Qed.

Theorem tf_linear nm dn a b us1 us2 : length us1 = length us2 ->
  tf_out nm dn (lc a us1 b us2) = lc a (tf_out nm dn us1) b (tf_out nm dn us2).
Proof.
  intros H. rewrite !tf_out_spec.
  exact (spec_run_linear nm dn a b us1 us2 [] [] [] [] H eq_refl eq_refl).
Qed.

Theorem tf_time_invariant nm dn d us : tf_out nm dn (zeros d ++ us) = zeros d ++ tf_out nm dn us.
Proof. rewrite !tf_out_spec. apply spec_run_delay. Qed.

Theorem tf_zero_resets nm dn us :
  tf_zero R_ops (fst (tf_run R_ops (tf_init R_ops nm dn) us)) = tf_init R_ops nm dn.
Proof. rewrite tf_init_st at 1. rewrite tf_run_spec. cbn [fst]. apply tf_zero_is_init. Qed.

Theorem tf_state_after nm dn us :
  let s := fst (tf_run R_ops (tf_init R_ops nm dn) us) in
  input s = recent (length nm) (fst (hist_after nm dn [] [] us)) /\
  output s = recent (length dn) (snd (hist_after nm dn [] [] us)).
Proof. cbv zeta. rewrite tf_init_st, tf_run_spec. split; reflexivity. Qed.

Lemma hist_after_is_rev nm dn : forall us hu hy,
  hist_after nm dn hu hy us = (rev us ++ hu, rev (spec_run nm dn hu hy us) ++ hy).
Proof.
  induction us as [|u r IH]; intros hu hy; [reflexivity|].
  cbn [hist_after spec_run rev]. cbv zeta. rewrite IH, <- !app_assoc. reflexivity.
Qed.

Example tf_ex : tf_out [1; 2] [1/2] [1; 0; 0] = [1; 3/2; -3/4].
Proof.
  unfold tf_out, tf_init, tf_run, tf_iter, push_fore. cbn. unfold_ops.
  f_equal; [field|]. f_equal; [field|]. f_equal; field.
Qed.
