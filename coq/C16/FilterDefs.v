(* C16 model: src/tf.c (a_tf_iter / a_tf_zero, with a_real_push_fore of src/math.c), include/a/lpf.h, include/a/hpf.h.
   Polymorphic over NumOps.  No proofs here. *)
From Coq Require Import ZArith List.
From LibaV Require Import Common.NumOps.
Import ListNotations.

Section Model.
  Context {T : Type} (O : NumOps T).
  Local Notation "x + y" := (add O x y) (at level 50, left associativity).
  Local Notation "x - y" := (sub O x y) (at level 50, left associativity).
  Local Notation "x * y" := (mul O x y) (at level 40, left associativity).
  Local Notation "x / y" := (div O x y) (at level 40, left associativity).
  Local Notation "# z" := (ofZ O z%Z) (at level 0, z at level 0).

  (* a_real_push_fore(p, n, x): if (n--) { memmove(p + 1, p, n); p[0] = x; } : shift towards the back, drop the last *)
  Definition push_fore (l : list T) (x : T) : list T :=
    match l with
    | [] => []
    | _ => x :: removelast l
    end.

  (* delay lines have the lengths of the coefficient vectors (a_tf_set_num / a_tf_set_den) *)
  Record tf := { num : list T; den : list T; input : list T; output : list T }.

  Definition tf_init (nm dn : list T) : tf :=
    {| num := nm; den := dn; input := map (fun _ => zero O) nm; output := map (fun _ => zero O) dn |}.

  Definition tf_zero (s : tf) : tf :=
    {| num := num s; den := den s; input := map (fun _ => zero O) (input s); output := map (fun _ => zero O) (output s) |}.

  (* y = 0; push input; y += num[i]*input[i] (i ascending); y -= den[i]*output[i]; push output *)
  Definition tf_iter (s : tf) (x : T) : tf * T :=
    let inp := push_fore (input s) x in
    let y := fold_left (fun y ni => y + fst ni * snd ni) (combine (num s) inp) (zero O) in
    let y := fold_left (fun y dj => y - fst dj * snd dj) (combine (den s) (output s)) y in
    ({| num := num s; den := den s; input := inp; output := push_fore (output s) y |}, y).

  Fixpoint tf_run (s : tf) (us : list T) : tf * list T :=
    match us with
    | [] => (s, [])
    | u :: r => let '(s1, y) := tf_iter s u in
                let '(s2, ys) := tf_run s1 r in (s2, y :: ys)
    end.

  (* low pass: output *= 1 - alpha; output += x * alpha *)
  Definition lpf_iter (alpha out x : T) : T := out * (#1 - alpha) + x * alpha.
  Definition lpf_run (alpha : T) (out : T) (xs : list T) : list T :=
    snd (fold_left (fun st x => let o := lpf_iter alpha (fst st) x in (o, snd st ++ [o])) xs (out, [])).

  (* high pass: output = alpha * (output + x - input); input = x *)
  Definition hpf_iter (alpha : T) (st : T * T) (x : T) : T * T :=   (* st = (output, input) *)
    (alpha * (fst st + x - snd st), x).
  Definition hpf_run (alpha : T) (st : T * T) (xs : list T) : list T :=
    snd (fold_left (fun acc x => let st' := hpf_iter alpha (fst acc) x in (st', snd acc ++ [fst st'])) xs (st, [])).

  (* A_1_TAU = 0.159154943091895335769 and A_TAU = 6.28318530717958647693 as the binary64 values the compiler uses *)
  Definition c_1_tau : T := ofD O 5734161139222659 (-55).    (* = 0x145f306dc9c883 * 2^-55 *)
  Definition c_tau : T := ofD O 884279719003555 (-47).     (* = 0x1921fb54442d18 * 2^-50, odd mantissa form *)

  Definition lpf_gen (fc ts : T) : T := #1 / (c_1_tau / (fc * ts) + #1).      (* after the fix: the product fc*ts first *)
  Definition hpf_gen (fc ts : T) : T := #1 / (c_tau * (fc * ts) + #1).
End Model.
