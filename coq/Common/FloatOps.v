(* The binary64 instance: Coq primitive floats.  Used only for execution (vm_compute) in correspondence runs. *)
From Coq Require Import ZArith Floats Uint63 List.
From LibaV Require Import Common.NumOps.
Import ListNotations.
Local Open Scope float_scope.

Definition f_ofZ (z : Z) : float :=
  match z with
  | Z0 => 0
  | Zpos p => PrimFloat.of_uint63 (Uint63.of_Z (Zpos p))
  | Zneg p => - PrimFloat.of_uint63 (Uint63.of_Z (Zpos p))
  end.

Definition f_ofD (m e : Z) : float :=
  match m with
  | Z0 => 0
  | Zpos p => SF2Prim (S754_finite false p e)
  | Zneg p => SF2Prim (S754_finite true p e)
  end.

(* Substitutes for libm in the bit-exact run.  Each is an arbitrary but fixed function made of IEEE basic operations;
   harness/common/libm_subst.h defines the identical C expressions.  They are NOT approximations of the real functions:
   they only make the code around a libm call comparable bit for bit. *)
Definition sub1 (k : float) (x : float) : float := (x * k + 0x1.8p-1) / (x * x + 0x1.4p+0) + k.
Definition f_fn1 (f : lib1) (x : float) : float :=
  match f with
  | Exp => sub1 0x1.1p+0 x | Log => sub1 0x1.2p+0 x | Sin => sub1 0x1.3p+0 x | Cos => sub1 0x1.4p+0 x
  | Tan => sub1 0x1.5p+0 x | Atan => sub1 0x1.6p+0 x | Asin => sub1 0x1.7p+0 x | Acos => sub1 0x1.8p+0 x
  | Sinh => sub1 0x1.9p+0 x | Cosh => sub1 0x1.ap+0 x | Tanh => sub1 0x1.bp+0 x
  | Expm1 => sub1 0x1.cp+0 x | Log1p => sub1 0x1.dp+0 x | Floor => sub1 0x1.ep+0 x
  end.
Definition sub2 (k : float) (x y : float) : float := (x * k + y) / (x * x + y * y + 0x1.4p+0) + k * y.
Definition f_fn2 (f : lib2) (x y : float) : float :=
  match f with
  | Pow => sub2 0x1.1p+1 x y | Atan2 => sub2 0x1.2p+1 x y | Hypot => sub2 0x1.3p+1 x y | Fmod => sub2 0x1.4p+1 x y
  end.

Definition F64_ops : NumOps float := {|
  zero := 0; one := 1;
  add := PrimFloat.add; sub := PrimFloat.sub; mul := PrimFloat.mul; div := PrimFloat.div;
  opp := PrimFloat.opp; abs := PrimFloat.abs; sqrt := PrimFloat.sqrt;
  ltb := PrimFloat.ltb; leb := PrimFloat.leb; eqb := PrimFloat.eqb;
  ofZ := f_ofZ; ofD := f_ofD;
  fn1 := f_fn1; fn2 := f_fn2
|}.

(* exact printable form of a result: sign, mantissa, exponent *)
Definition show (x : float) : spec_float := Prim2SF x.

Definition optf (o : option float) : float := match o with Some v => v | None => nan end.
