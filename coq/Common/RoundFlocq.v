(* IEEE binary64 round-to-nearest-even satisfies the standard model of Common/RoundOps.v (by Flocq).

   rnd64 x = round radix2 (FLT_exp (-1074) 53) ZnearestE x  is the rounding of a real number to the binary64 format
   WITH gradual underflow and WITHOUT an upper exponent bound: Flocq's FLT format has no largest number.  Hence
   OVERFLOW IS OUTSIDE THE MODEL: a statement about rnd64 describes what a binary64 operation returns only when the
   rounded result is below the overflow threshold 2^1024 (the corollaries at the end of the file carry exactly this
   hypothesis, as Flocq's Bplus_correct etc. do).

   std_model_binary64 :  std_model rnd64 2^-53 2^-1075        (from Flocq.Prop.Relative.error_N_FLT)
   rnd64_idem, rnd64_1, rnd64_IZR : rnd64 is idempotent and is the identity on 1 and on every integer |z| <= 2^53
   prim_add/sub/mul/div/sqrt_rnd64 : Coq's primitive float operations (the F64_ops instance) on finite operands return
       rnd64 of the exact result whenever that is below 2^1024  (Flocq.IEEE754.PrimFloat + BinarySingleNaN). *)
From Coq Require Import Reals ZArith Lra Lia Floats.
From Flocq Require Import Core Relative BinarySingleNaN PrimFloat.
From LibaV Require Import Common.NumOps Common.ROps Common.RoundOps.
Local Open Scope R_scope.

Definition fexp64 : Z -> Z := FLT_exp (-1074) 53.
Definition rnd64 (x : R) : R := round radix2 fexp64 ZnearestE x.
Definition eps64 : R := bpow radix2 (-53).
Definition eta64 : R := bpow radix2 (-1075).

Lemma eps64_val : eps64 = / 9007199254740992.          (* 2^-53 *)
Proof. reflexivity. Qed.
Lemma eta64_val : eta64 = / IZR (2 ^ 1075).
Proof. reflexivity. Qed.

Local Instance prec53 : Prec_gt_0 53 := eq_refl.
Local Instance valid64 : Valid_exp fexp64 := FLT_exp_valid (-1074) 53.

Theorem std_model_binary64 : std_model rnd64 eps64 eta64.
Proof.
  constructor.
  - intros x. destruct (error_N_FLT radix2 (-1074) 53 eq_refl (fun z => negb (Z.even z)) x) as (d & e & Hd & He & _ & Hr).
    unfold rnd64, fexp64. rewrite Hr.
    replace (x * (1 + d) + e - x) with (x * d + e) by ring.
    eapply Rle_trans; [apply Rabs_triang|]. rewrite Rabs_mult.
    assert (E1 : / 2 * bpow radix2 (- (53) + 1) = eps64).
    { unfold eps64. change (/ 2) with (bpow radix2 (-1)). rewrite <- bpow_plus. reflexivity. }
    assert (E2 : / 2 * bpow radix2 (-1074) = eta64).
    { unfold eta64. change (/ 2) with (bpow radix2 (-1)). rewrite <- bpow_plus. reflexivity. }
    rewrite E1 in Hd. rewrite E2 in He. pose proof (Rabs_pos x). nra.
  - apply round_0. typeclasses eauto.
  - split; [apply bpow_ge_0|]. unfold eps64. replace (1 / 4) with (bpow radix2 (-2)) by (simpl; lra).
    apply bpow_lt. lia.
  - apply bpow_ge_0.
Qed.

Lemma rnd64_idem x : rnd64 (rnd64 x) = rnd64 x.
Proof. unfold rnd64. apply round_generic; [typeclasses eauto|]. apply generic_format_round; typeclasses eauto. Qed.

(* integers up to 2^53 in magnitude are binary64 numbers *)
Lemma rnd64_IZR z : (Z.abs z <= 2 ^ 53)%Z -> rnd64 (IZR z) = IZR z.
Proof.
  intros Hz. unfold rnd64. apply round_generic; [typeclasses eauto|].
  unfold fexp64. apply generic_format_FLT.
  destruct (Z.eq_dec (Z.abs z) (2 ^ 53)) as [E|E].
  - (* +-2^53 = +-1 * 2^53 *)
    assert (Hs : z = (Z.sgn z * 2 ^ 53)%Z) by lia.
    exists (Float radix2 (Z.sgn z) 53).
    + unfold F2R. cbn [Fnum Fexp]. rewrite Hs at 1. rewrite mult_IZR. reflexivity.
    + cbn [Fnum]. destruct z; simpl; lia.
    + cbn [Fexp]. lia.
  - exists (Float radix2 z 0).
    + unfold F2R. cbn [Fnum Fexp]. simpl. ring.
    + cbn [Fnum]. change (radix2 ^ 53)%Z with (2 ^ 53)%Z. lia.
    + cbn [Fexp]. lia.
Qed.
Lemma rnd64_1 : rnd64 1 = 1.
Proof. apply (rnd64_IZR 1). simpl. lia. Qed.
Lemma rnd64_INR n : (n <= 2 ^ 53)%nat -> rnd64 (INR n) = INR n.
Proof.
  intros H. rewrite INR_IZR_INZ. apply rnd64_IZR. rewrite Z.abs_eq by lia.
  apply Nat2Z.inj_le in H. rewrite Nat2Z.inj_pow in H. exact H.
Qed.

(* ------------------------------------------------------------------ Coq's primitive floats (the F64_ops instance)
   The real value of a primitive float; finite = neither infinite nor NaN. *)
Local Notation pfloat := Floats.PrimFloat.float.
Definition f2r (x : pfloat) : R := B2R (Prim2B x).
Definition ffinite (x : pfloat) : bool := is_finite (Prim2B x).
Definition no_overflow (r : R) : Prop := Rabs (rnd64 r) < bpow radix2 1024.

Lemma fexp_eq : SpecFloat.fexp prec emax = fexp64.
Proof. reflexivity. Qed.

Theorem prim_add_rnd64 (x y : pfloat) : ffinite x = true -> ffinite y = true -> no_overflow (f2r x + f2r y) ->
  f2r (x + y)%float = rnd64 (f2r x + f2r y) /\ ffinite (x + y)%float = true.
Proof.
  unfold f2r, ffinite, no_overflow. intros Fx Fy Ho. rewrite add_equiv.
  pose proof (Bplus_correct prec emax Hprec Hmax mode_NE (Prim2B x) (Prim2B y) Fx Fy) as H.
  rewrite Rlt_bool_true in H by exact Ho. destruct H as (H1 & H2 & _). split; [exact H1|exact H2].
Qed.
Theorem prim_sub_rnd64 (x y : pfloat) : ffinite x = true -> ffinite y = true -> no_overflow (f2r x - f2r y) ->
  f2r (x - y)%float = rnd64 (f2r x - f2r y) /\ ffinite (x - y)%float = true.
Proof.
  unfold f2r, ffinite, no_overflow. intros Fx Fy Ho. rewrite sub_equiv.
  pose proof (Bminus_correct prec emax Hprec Hmax mode_NE (Prim2B x) (Prim2B y) Fx Fy) as H.
  rewrite Rlt_bool_true in H by exact Ho. destruct H as (H1 & H2 & _). split; [exact H1|exact H2].
Qed.
Theorem prim_mul_rnd64 (x y : pfloat) : ffinite x = true -> ffinite y = true -> no_overflow (f2r x * f2r y) ->
  f2r (x * y)%float = rnd64 (f2r x * f2r y) /\ ffinite (x * y)%float = true.
Proof.
  unfold f2r, ffinite, no_overflow. intros Fx Fy Ho. rewrite mul_equiv.
  pose proof (Bmult_correct prec emax Hprec Hmax mode_NE (Prim2B x) (Prim2B y)) as H.
  rewrite Rlt_bool_true in H by exact Ho. destruct H as (H1 & H2 & _). split; [exact H1|]. rewrite H2, Fx, Fy. reflexivity.
Qed.
Theorem prim_div_rnd64 (x y : pfloat) : ffinite x = true -> f2r y <> 0 -> no_overflow (f2r x / f2r y) ->
  f2r (x / y)%float = rnd64 (f2r x / f2r y) /\ ffinite (x / y)%float = true.
Proof.
  unfold f2r, ffinite, no_overflow. intros Fx Hy Ho. rewrite div_equiv.
  pose proof (Bdiv_correct prec emax Hprec Hmax mode_NE (Prim2B x) (Prim2B y) Hy) as H.
  rewrite Rlt_bool_true in H by exact Ho. destruct H as (H1 & H2 & _). split; [exact H1|]. rewrite H2. exact Fx.
Qed.
(* the square root never overflows *)
Theorem prim_sqrt_rnd64 (x : pfloat) : f2r (Floats.PrimFloat.sqrt x) = rnd64 (R_sqrt.sqrt (f2r x)).
Proof.
  unfold f2r. rewrite sqrt_equiv.
  exact (proj1 (Bsqrt_correct prec emax Hprec Hmax mode_NE (Prim2B x))).
Qed.
(* opp and abs are exact *)
Theorem prim_opp_abs_exact (x : pfloat) : f2r (- x)%float = - f2r x /\ f2r (Floats.PrimFloat.abs x) = Rabs (f2r x).
Proof. unfold f2r. rewrite opp_equiv, abs_equiv, B2R_Bopp, B2R_Babs. split; reflexivity. Qed.

(* non-vacuity: 1 + 2^-53 rounds to 1 (a tie, broken to even): the rounding is not the identity, and the model's bound
   is attained *)
Example rnd64_tie : rnd64 (1 + eps64) = 1.
Proof.
  unfold rnd64.
  assert (F1 : generic_format radix2 fexp64 1) by (rewrite <- rnd64_1; apply generic_format_round; typeclasses eauto).
  (* the two neighbours are 1 and 1 + 2^-52; proof by the characterisation of round-to-nearest *)
  assert (U : ulp radix2 fexp64 1 = bpow radix2 (-52)).
  { rewrite ulp_neq_0 by lra. unfold cexp, fexp64, FLT_exp. rewrite mag_1. reflexivity. }
  assert (S1 : succ radix2 fexp64 1 = 1 + bpow radix2 (-52)).
  { rewrite succ_eq_pos by lra. rewrite U. reflexivity. }
  assert (Ed : round radix2 fexp64 Zfloor (1 + eps64) = 1).
  { apply round_DN_eq; [typeclasses eauto|exact F1|]. rewrite S1. unfold eps64.
    assert (bpow radix2 (-53) < bpow radix2 (-52)) by (apply bpow_lt; lia). pose proof (bpow_gt_0 radix2 (-53)). lra. }
  assert (Eu : round radix2 fexp64 Zceil (1 + eps64) = 1 + bpow radix2 (-52)).
  { rewrite <- S1. apply round_UP_eq; [typeclasses eauto|apply generic_format_succ; [typeclasses eauto|exact F1]|].
    rewrite pred_succ by (typeclasses eauto || exact F1). rewrite S1. unfold eps64.
    assert (bpow radix2 (-53) < bpow radix2 (-52)) by (apply bpow_lt; lia). pose proof (bpow_gt_0 radix2 (-53)). lra. }
  unfold rnd64. rewrite round_N_middle.
  - (* the down neighbour 1 has an even mantissa *)
    rewrite Ed at 1.
    assert (Ev : Z.even (Zfloor (scaled_mantissa radix2 fexp64 (1 + eps64))) = true).
    { assert (Em : scaled_mantissa radix2 fexp64 (1 + eps64) = (1 + eps64) * bpow radix2 52).
      { unfold scaled_mantissa, cexp, fexp64, FLT_exp.
        rewrite (mag_unique radix2 (1 + eps64) 1); [reflexivity|].
        unfold eps64. pose proof (bpow_gt_0 radix2 (-53)). assert (bpow radix2 (-53) < 1) by (apply (bpow_lt radix2 (-53) 0); lia).
        rewrite Rabs_pos_eq by lra. simpl. lra. }
      rewrite Em.
      rewrite (Zfloor_imp (2 ^ 52)); [reflexivity|].
      unfold eps64. rewrite Rmult_plus_distr_r, <- bpow_plus.
      change (-53 + 52)%Z with (-1)%Z. change (bpow radix2 (-1)) with (/ 2).
      change (bpow radix2 52) with 4503599627370496. change (2 ^ 52)%Z with 4503599627370496%Z.
      rewrite plus_IZR. lra. }
    rewrite Ev. reflexivity.
  - rewrite Ed, Eu. unfold eps64. replace (bpow radix2 (-52)) with (2 * bpow radix2 (-53))
      by (change 2 with (bpow radix2 1); rewrite <- bpow_plus; reflexivity).
    ring.
Qed.
