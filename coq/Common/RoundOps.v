(* The rounded-real instance of NumOps: every arithmetic operation is the exact real operation followed by a rounding
   function  rnd : R -> R.  Nothing is assumed about rnd in the DEFINITION of the instance; the lemmas are proved under the
   STANDARD MODEL OF FLOATING-POINT ARITHMETIC WITH GRADUAL UNDERFLOW

        forall x,  |rnd x - x| <= eps * |x| + eta,      rnd 0 = 0,   0 <= eps < 1/4,   0 <= eta

   (record std_model).  Overflow is OUTSIDE this model: rnd is a total function on R with unbounded range, so a theorem
   proved here speaks about a binary64 computation only as long as no intermediate result reaches the overflow
   threshold.  Common/RoundFlocq.v shows that IEEE binary64 round-to-nearest-even satisfies the model with
   eps = 2^-53, eta = 2^-1075.  No monotonicity of rnd is needed by any proof of this development.

   Choices in the instance:
   - add/sub/mul/div/sqrt, fn1/fn2: exact operation of R_ops, then rnd.  (For fn1/fn2 this says "libm is correctly
     rounded", which real libms are not; no theorem of this development goes through fn1/fn2 at Rnd_ops.)
   - opp, abs: exact (sign-bit operations in IEEE arithmetic), comparisons: those of R_ops (comparisons do not round).
   - ofZ z := rnd (IZR z): an integer-to-real conversion rounds when |z| > 2^53; with rnd 0 = 0 the literal 0 is exact.
     ofD m e := rnd (m * 2^e): the literal is first the exact dyadic value, then rounded to the format; for the
     constants of the models (all binary64 numbers) the rounding is the identity in the binary64 instance.  Rounding the
     constants is the conservative choice in the abstract model (it can only add error terms); theorems that need a
     constant to be exact say so with a hypothesis (rnd 1 = 1, rnd (INR n) = INR n), discharged in RoundFlocq.v.
   - zero := 0 (= rnd 0 in the model), one := rnd 1, consistent with ofZ. *)
From Coq Require Import Reals ZArith Lra Lia List Bool.
From LibaV Require Import Common.NumOps Common.ROps.
Import ListNotations.
Local Open Scope R_scope.

Definition Rnd_ops (rnd : R -> R) : NumOps R := {|
  zero := 0; one := rnd 1;
  add := fun a b => rnd (a + b); sub := fun a b => rnd (a - b);
  mul := fun a b => rnd (a * b); div := fun a b => rnd (a / b);
  opp := Ropp; abs := Rabs; sqrt := fun a => rnd (R_sqrt.sqrt a);
  ltb := Rltb; leb := Rleb; eqb := Reqb;
  ofZ := fun z => rnd (IZR z);
  ofD := fun m e => rnd (IZR m * powerRZ 2 e);
  fn1 := fun f x => rnd (R_fn1 f x); fn2 := fun f x y => rnd (R_fn2 f x y)
|}.

Ltac unfold_rops :=
  cbn [zero one add sub mul div opp abs sqrt ltb leb eqb ofZ ofD fn1 fn2 R_ops Rnd_ops gtb geb neb] in *;
  unfold gtb, geb, neb in *;
  cbn [zero one add sub mul div opp abs sqrt ltb leb eqb ofZ ofD fn1 fn2 R_ops Rnd_ops] in *.

(* the standard model with gradual underflow *)
Record std_model (rnd : R -> R) (eps eta : R) : Prop := {
  sm_err : forall x, Rabs (rnd x - x) <= eps * Rabs x + eta;
  sm_zero : rnd 0 = 0;
  sm_eps : 0 <= eps < 1 / 4;
  sm_eta : 0 <= eta
}.

(* gamma_k = k eps / (1 - k eps), meaningful when k eps < 1 *)
Definition gamma (eps : R) (k : nat) : R := INR k * eps / (1 - INR k * eps).
(* 1 + q + ... + q^(m-1) *)
Definition geo (q : R) (m : nat) : R := fold_right Rplus 0 (map (pow q) (seq 0 m)).

Lemma geo_S q m : geo q (S m) = 1 + q * geo q m.
Proof.
  unfold geo. cbn [seq map fold_right pow]. f_equal. rewrite <- seq_shift, map_map.
  induction (seq 0 m) as [|i l IH]; cbn [map fold_right]; [ring|]. rewrite IH. cbn [pow]. ring.
Qed.
Lemma geo_S_r q m : geo q (S m) = geo q m + q ^ m.
Proof.
  induction m as [|m IH]; [unfold geo; cbn; ring|].
  rewrite (geo_S q (S m)). rewrite (geo_S q m) in *. cbn [pow].
  apply (f_equal (Rmult q)) in IH. lra.
Qed.
Lemma geo_nonneg q m : 0 <= q -> 0 <= geo q m.
Proof. intros Hq. induction m as [|m IH]; [unfold geo; cbn; lra|]. rewrite geo_S. pose proof (Rmult_le_pos _ _ Hq IH). lra. Qed.
Lemma geo_1 m : geo 1 m = INR m.
Proof. induction m as [|m IH]; [reflexivity|]. rewrite geo_S, IH, S_INR. ring. Qed.

Section Rounded.
  Variable rnd : R -> R.
  Variables eps eta : R.
  Hypothesis M : std_model rnd eps eta.

  Lemma eps_ge0 : 0 <= eps. Proof. exact (proj1 (sm_eps _ _ _ M)). Qed.
  Lemma eps_lt : eps < 1 / 4. Proof. exact (proj2 (sm_eps _ _ _ M)). Qed.
  Lemma eta_ge0 : 0 <= eta. Proof. exact (sm_eta _ _ _ M). Qed.
  Lemma rnd_0 : rnd 0 = 0. Proof. exact (sm_zero _ _ _ M). Qed.
  Lemma rnd_err x : Rabs (rnd x - x) <= eps * Rabs x + eta. Proof. exact (sm_err _ _ _ M x). Qed.

  Lemma rnd_abs_le x : Rabs (rnd x) <= (1 + eps) * Rabs x + eta.
  Proof.
    pose proof (rnd_err x). replace (rnd x) with ((rnd x - x) + x) by ring.
    eapply Rle_trans; [apply Rabs_triang|]. lra.
  Qed.

  (* relative-error form: rnd x = x (1 + d) + e, |d| <= eps, |e| <= eta *)
  Lemma rnd_rel_ex x : exists d e, Rabs d <= eps /\ Rabs e <= eta /\ rnd x = x * (1 + d) + e.
  Proof.
    pose proof (rnd_err x) as H. pose proof eps_ge0 as He. pose proof eta_ge0 as Ht.
    set (r := rnd x - x) in *.
    destruct (Rle_dec (Rabs r) eta) as [Hs|Hs].
    - exists 0, r. rewrite Rabs_R0. repeat split; [lra|exact Hs|unfold r; ring].
    - assert (Hx : x <> 0).
      { intros ->. rewrite Rabs_R0 in H. lra. }
      assert (Hax : 0 < Rabs x) by (apply Rabs_pos_lt; exact Hx).
      set (e := if Rle_dec 0 r then eta else - eta).
      assert (Hre : Rabs (r - e) <= eps * Rabs x /\ Rabs e <= eta).
      { unfold e. destruct (Rle_dec 0 r) as [Hr|Hr].
        - rewrite (Rabs_pos_eq r) in * by lra. rewrite (Rabs_pos_eq (r - eta)) by lra. rewrite (Rabs_pos_eq eta) by lra. lra.
        - rewrite (Rabs_left r) in * by lra. rewrite (Rabs_left (r - - eta)) by lra. rewrite Rabs_Ropp, (Rabs_pos_eq eta) by lra. lra. }
      destruct Hre as [H1 H2].
      exists ((r - e) / x), e. repeat split; [|exact H2|unfold r; field; exact Hx].
      unfold Rdiv. rewrite Rabs_mult, Rabs_inv.
      apply (Rmult_le_reg_r (Rabs x)); [exact Hax|]. rewrite Rmult_assoc, Rinv_l by lra. lra.
  Qed.

  (* ---------------------------------------------------------------- powers of (1 + eps) *)
  Lemma p1_ge1 k : 1 <= (1 + eps) ^ k.
  Proof. apply pow_R1_Rle. pose proof eps_ge0. lra. Qed.
  Lemma p1_pos k : 0 < (1 + eps) ^ k.
  Proof. pose proof (p1_ge1 k). lra. Qed.
  Lemma p1_mono j k : (j <= k)%nat -> (1 + eps) ^ j <= (1 + eps) ^ k.
  Proof. intros H. apply Rle_pow; [pose proof eps_ge0; lra|exact H]. Qed.
  Lemma p1_S k : (1 + eps) ^ S k = (1 + eps) * (1 + eps) ^ k.
  Proof. reflexivity. Qed.
  Lemma p1_add j k : (1 + eps) ^ (j + k) = (1 + eps) ^ j * (1 + eps) ^ k.
  Proof. apply pow_add. Qed.
  (* the error factor E k = (1+eps)^k - 1 *)
  Lemma E_ge0 k : 0 <= (1 + eps) ^ k - 1.
  Proof. pose proof (p1_ge1 k). lra. Qed.
  Lemma E_mono j k : (j <= k)%nat -> (1 + eps) ^ j - 1 <= (1 + eps) ^ k - 1.
  Proof. intros H. pose proof (p1_mono j k H). lra. Qed.
  Lemma E_1 : (1 + eps) ^ 1 - 1 = eps.
  Proof. simpl. ring. Qed.

  (* (1+eps)^k - 1 <= gamma_k as soon as k eps < 1 *)
  Lemma p1_gamma_aux k : (1 + eps) ^ k * (1 - INR k * eps) <= 1.
  Proof.
    pose proof eps_ge0 as He.
    induction k as [|k IH]; [simpl; lra|].
    rewrite p1_S, S_INR. pose proof (p1_pos k) as Hp. pose proof (pos_INR k) as Hk.
    eapply Rle_trans; [|exact IH].
    replace ((1 + eps) * (1 + eps) ^ k * (1 - (INR k + 1) * eps))
      with ((1 + eps) ^ k * ((1 + eps) * (1 - (INR k + 1) * eps))) by ring.
    apply Rmult_le_compat_l; [lra|]. nra.
  Qed.
  Lemma p1_le_gamma k : INR k * eps < 1 -> (1 + eps) ^ k - 1 <= gamma eps k.
  Proof.
    intros H. pose proof (p1_gamma_aux k) as A. unfold gamma.
    assert (P : 0 < 1 - INR k * eps) by lra.
    apply (Rmult_le_reg_r (1 - INR k * eps)); [exact P|].
    unfold Rdiv. rewrite Rmult_assoc, Rinv_l by lra. lra.
  Qed.
  Lemma gamma_ge0 k : INR k * eps < 1 -> 0 <= gamma eps k.
  Proof. intros H. pose proof (p1_le_gamma k H). pose proof (E_ge0 k). lra. Qed.

  (* products of (1 + d_i) with |d_i| <= eps *)
  Lemma prod1p_bound (ds : list R) : Forall (fun d => Rabs d <= eps) ds ->
    Rabs (fold_right (fun d p => (1 + d) * p) 1 ds - 1) <= (1 + eps) ^ (length ds) - 1.
  Proof.
    induction 1 as [|d ds Hd _ IH]; cbn [fold_right length].
    - rewrite Rminus_diag_eq, Rabs_R0 by reflexivity. simpl. lra.
    - set (P := fold_right (fun d p => (1 + d) * p) 1 ds) in *.
      replace ((1 + d) * P - 1) with ((P - 1) + d * P) by ring.
      eapply Rle_trans; [apply Rabs_triang|]. rewrite Rabs_mult.
      assert (HP : Rabs P <= (1 + eps) ^ length ds).
      { replace P with ((P - 1) + 1) by ring. eapply Rle_trans; [apply Rabs_triang|]. rewrite Rabs_R1. lra. }
      rewrite p1_S. pose proof (Rabs_pos d). pose proof (Rabs_pos P).
      assert (Rabs d * Rabs P <= eps * (1 + eps) ^ length ds) by (apply Rmult_le_compat; lra).
      lra.
  Qed.
  Lemma prod1p_gamma (ds : list R) : Forall (fun d => Rabs d <= eps) ds -> INR (length ds) * eps < 1 ->
    Rabs (fold_right (fun d p => (1 + d) * p) 1 ds - 1) <= gamma eps (length ds).
  Proof. intros H1 H2. eapply Rle_trans; [apply prod1p_bound; exact H1|apply p1_le_gamma; exact H2]. Qed.

  (* ---------------------------------------------------------------- one rounded operation against its exact value *)
  (* a computed operand xh standing for x: the rounded result of an operation whose exact (unrounded) value on the
     computed operands is vh, against the exact value v on the exact operands *)
  Lemma rnd_step vh v : Rabs (rnd vh - v) <= (1 + eps) * Rabs (vh - v) + eps * Rabs v + eta.
  Proof.
    pose proof (rnd_err vh) as H. pose proof eps_ge0.
    replace (rnd vh - v) with ((rnd vh - vh) + (vh - v)) by ring.
    eapply Rle_trans; [apply Rabs_triang|].
    assert (Rabs vh <= Rabs (vh - v) + Rabs v).
    { replace vh with ((vh - v) + v) at 1 by ring. apply Rabs_triang. }
    nra.
  Qed.
End Rounded.

(* the identity is a rounding with eps = eta = 0: the model is satisfiable, and Rnd_ops id computes what R_ops computes *)
Lemma std_model_id : std_model (fun x => x) 0 0.
Proof.
  constructor; [|reflexivity|lra|lra].
  intros x. rewrite Rminus_diag_eq, Rabs_R0 by reflexivity. lra.
Qed.

(* a rounding that is NOT exact: rnd v = v * (1 + 1/8) satisfies the model with eps = 1/8, eta = 0 *)
Lemma std_model_scale : std_model (fun v => v * (1 + / 8)) (/ 8) 0.
Proof.
  constructor; [|ring|lra|lra].
  intros v. replace (v * (1 + / 8) - v) with (v * / 8) by ring. rewrite Rabs_mult, (Rabs_pos_eq (/ 8)) by lra. lra.
Qed.

(* from the (1+eps)^k - 1 form to the gamma_k form of a bound *)
Lemma bound_gamma (rnd : R -> R) (eps eta : R) (M : std_model rnd eps eta) (k : nat) (E S T : R) :
  INR k * eps < 1 -> 0 <= S -> 0 <= T ->
  E <= ((1 + eps) ^ k - 1) * S + T * (1 + eps) ^ k ->
  E <= gamma eps k * S + T * (1 + gamma eps k).
Proof.
  intros Hk HS HT HE. pose proof (p1_le_gamma _ _ _ M k Hk) as G.
  assert (((1 + eps) ^ k - 1) * S <= gamma eps k * S) by (apply Rmult_le_compat_r; lra).
  assert (T * (1 + eps) ^ k <= T * (1 + gamma eps k)) by (apply Rmult_le_compat_l; lra).
  lra.
Qed.
