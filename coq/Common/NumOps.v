(* Numeric models are written once, polymorphically over this record, and instantiated with
   - R_ops   : Coq's real numbers (what the theorems are about),
   - F64_ops : Coq's primitive binary64 floats (IEEE 754, round to nearest even) - the bit-exact execution compared
               with the C implementation built with -O2 -ffp-contract=off on x86-64 (SSE2),
   (see FloatOps.v for F64_ops).  No theorem relates the instances: they are the same Gallina term applied to
   different records; that argument is part of the trusted base (DESIGN.md section 7).
   libm is an oracle: `fn1`/`fn2`.  In R they are the real functions; in the float run they are fixed substitute
   functions built from IEEE basic operations only, and the C harness interposes the same substitutes on the libm entry
   points (linker --wrap), so that the comparison checks the code AROUND the libm calls bit for bit. *)
From Coq Require Import ZArith.

Inductive lib1 := Exp | Log | Sin | Cos | Tan | Atan | Asin | Acos | Sinh | Cosh | Tanh | Expm1 | Log1p | Floor.
Inductive lib2 := Pow | Atan2 | Hypot | Fmod.

Record NumOps (T : Type) := {
  zero : T; one : T;
  add : T -> T -> T; sub : T -> T -> T; mul : T -> T -> T; div : T -> T -> T;
  opp : T -> T; abs : T -> T; sqrt : T -> T;
  ltb : T -> T -> bool; leb : T -> T -> bool; eqb : T -> T -> bool;
  ofZ : Z -> T;                 (* integer literal / integer-to-real conversion *)
  ofD : Z -> Z -> T;            (* dyadic literal m * 2^e: the exact value of a C floating constant *)
  fn1 : lib1 -> T -> T;
  fn2 : lib2 -> T -> T -> T
}.
Arguments zero {T}. Arguments one {T}. Arguments add {T}. Arguments sub {T}. Arguments mul {T}. Arguments div {T}.
Arguments opp {T}. Arguments abs {T}. Arguments sqrt {T}. Arguments ltb {T}. Arguments leb {T}. Arguments eqb {T}.
Arguments ofZ {T}. Arguments ofD {T}. Arguments fn1 {T}. Arguments fn2 {T}.

(* derived comparisons, written the way the C writes them *)
Definition gtb {T} (O : NumOps T) (a b : T) : bool := ltb O b a.
Definition geb {T} (O : NumOps T) (a b : T) : bool := leb O b a.
Definition neb {T} (O : NumOps T) (a b : T) : bool := negb (eqb O a b).
