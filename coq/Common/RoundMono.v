(* MONOTONE ROUNDING: the hypotheses under which RANGE / INVARIANT statements survive rounding.

   Common/RoundOps.v bounds the ERROR of a rounded computation (std_model: |rnd x - x| <= eps |x| + eta).  The
   statements proved from this file are of another kind: "the result stays inside the interval", "the value is exactly
   1 on the core".  They rest on the comparisons (which do not round) and on

        mono_rnd rnd :   x <= y -> rnd x <= rnd y,    rnd 0 = 0,    rnd 1 = 1,    rnd (- x) = - rnd x

   and, where a stored value is rounded again, on idempotence  rnd (rnd x) = rnd x  (idem_rnd) - every stored value is
   a number of the format.  No error bound is used.  As in RoundOps.v, OVERFLOW IS OUTSIDE THE MODEL (rnd : R -> R is
   total with unbounded range).

   mono_rnd_id, idem_rnd_id             : the identity satisfies them (Rnd_ops id computes what R_ops computes)
   mono_rnd_binary64, idem_rnd_binary64 : IEEE binary64 round-to-nearest-even (rnd64 of RoundFlocq.v) satisfies them
                                          (Flocq: round_le, round_0, round_NE_opp, round_generic)
   rnd3, mono_rnd_3, idem_rnd_3, std_model_3 : a binary64-LIKE toy format with 3 significant bits (round to nearest
                                          even, unbounded exponent, Flocq FLX 3), used for refutation witnesses that
                                          can be evaluated by hand: it satisfies mono_rnd, idem_rnd and the standard
                                          model with eps = 2^-3, eta = 0.
   rnd3_near, rnd64_near, rnd64_tie     : evaluation of rnd3 / rnd64 at a concrete real that is not a tie / is a tie
   rnd64_dyadic, rnd64_sub_nz           : m 2^e (|m| < 2^53, e >= -1074) is a binary64 number; the rounded difference of
                                          two different binary64 numbers is not 0 (gradual underflow; Flocq round_plus_neq_0). *)
From Coq Require Import Reals ZArith Lra Lia.
From Flocq Require Import Core Relative Plus_error.
From LibaV Require Import Common.NumOps Common.ROps Common.RoundOps Common.RoundFlocq.
Local Open Scope R_scope.

Record mono_rnd (rnd : R -> R) : Prop := {
  mr_le : forall x y, x <= y -> rnd x <= rnd y;
  mr_0 : rnd 0 = 0;
  mr_1 : rnd 1 = 1;
  mr_opp : forall x, rnd (- x) = - rnd x
}.
Definition idem_rnd (rnd : R -> R) : Prop := forall x, rnd (rnd x) = rnd x.

Section Mono.
  Variable rnd : R -> R.
  Hypothesis M : mono_rnd rnd.

  Lemma mrnd_le x y : x <= y -> rnd x <= rnd y. Proof. exact (mr_le _ M x y). Qed.
  Lemma mrnd_0 : rnd 0 = 0. Proof. exact (mr_0 _ M). Qed.
  Lemma mrnd_1 : rnd 1 = 1. Proof. exact (mr_1 _ M). Qed.
  Lemma mrnd_opp x : rnd (- x) = - rnd x. Proof. exact (mr_opp _ M x). Qed.
  Lemma mrnd_m1 : rnd (- (1)) = - (1). Proof. rewrite mrnd_opp, mrnd_1. reflexivity. Qed.

  Lemma mrnd_ge0 x : 0 <= x -> 0 <= rnd x. Proof. intros H. rewrite <- mrnd_0. apply mrnd_le; exact H. Qed.
  Lemma mrnd_le0 x : x <= 0 -> rnd x <= 0. Proof. intros H. rewrite <- mrnd_0. apply mrnd_le; exact H. Qed.
  Lemma mrnd_le1 x : x <= 1 -> rnd x <= 1. Proof. intros H. rewrite <- mrnd_1. apply mrnd_le; exact H. Qed.
  Lemma mrnd_ge1 x : 1 <= x -> 1 <= rnd x. Proof. intros H. rewrite <- mrnd_1. apply mrnd_le; exact H. Qed.
  Lemma mrnd_01 x : 0 <= x <= 1 -> 0 <= rnd x <= 1. Proof. intros [H0 H1]. split; [apply mrnd_ge0|apply mrnd_le1]; assumption. Qed.
  (* the sign of a rounded value tells the sign of the exact one *)
  Lemma mrnd_lt0_inv x : rnd x < 0 -> x < 0.
  Proof. intros H. destruct (Rlt_le_dec x 0) as [L|L]; [exact L|]. pose proof (mrnd_ge0 x L). lra. Qed.
  Lemma mrnd_gt0_inv x : 0 < rnd x -> 0 < x.
  Proof. intros H. destruct (Rlt_le_dec 0 x) as [L|L]; [exact L|]. pose proof (mrnd_le0 x L). lra. Qed.
  (* against a number of the format *)
  Lemma mrnd_le_fix x y : rnd y = y -> x <= y -> rnd x <= y. Proof. intros F H. rewrite <- F. apply mrnd_le; exact H. Qed.
  Lemma mrnd_ge_fix x y : rnd x = x -> x <= y -> x <= rnd y. Proof. intros F H. rewrite <- F. apply mrnd_le; exact H. Qed.
  Lemma mrnd_between lo hi x : rnd lo = lo -> rnd hi = hi -> lo <= x <= hi -> lo <= rnd x <= hi.
  Proof. intros Fl Fh [H1 H2]. split; [apply mrnd_ge_fix|apply mrnd_le_fix]; assumption. Qed.
  Lemma mrnd_abs x : rnd (Rabs x) = Rabs (rnd x).
  Proof.
    unfold Rabs at 1. destruct (Rcase_abs x) as [L|L].
    - rewrite mrnd_opp. rewrite Rabs_left1; [reflexivity|]. apply mrnd_le0. lra.
    - rewrite Rabs_pos_eq; [reflexivity|]. apply mrnd_ge0. lra.
  Qed.
End Mono.

(* ------------------------------------------------------------------ the identity *)
Lemma mono_rnd_id : mono_rnd (fun x => x).
Proof. constructor; intros; auto. Qed.
Lemma idem_rnd_id : idem_rnd (fun x => x).
Proof. intros x. reflexivity. Qed.

(* ------------------------------------------------------------------ IEEE binary64, round to nearest even *)
Local Instance prec53' : Prec_gt_0 53 := eq_refl.
Local Instance valid64' : Valid_exp fexp64 := FLT_exp_valid (-1074) 53.

Theorem mono_rnd_binary64 : mono_rnd rnd64.
Proof.
  constructor.
  - intros x y H. unfold rnd64. apply round_le; [typeclasses eauto|typeclasses eauto|exact H].
  - unfold rnd64. apply round_0. typeclasses eauto.
  - exact rnd64_1.
  - intros x. unfold rnd64. apply round_NE_opp.
Qed.
Theorem idem_rnd_binary64 : idem_rnd rnd64.
Proof. exact rnd64_idem. Qed.

(* ------------------------------------------------------------------ a 3-bit binary toy format (FLX, nearest even) *)
Definition fexp3 : Z -> Z := FLX_exp 3.
Definition rnd3 (x : R) : R := round radix2 fexp3 ZnearestE x.
Local Instance prec3 : Prec_gt_0 3 := eq_refl.
Local Instance valid3 : Valid_exp fexp3 := FLX_exp_valid 3.

(* m * 2^e with |m| < 8 is a number of the format *)
Lemma fix3 (m e : Z) : (Z.abs m < 8)%Z -> rnd3 (IZR m * bpow radix2 e) = IZR m * bpow radix2 e.
Proof.
  intros H. unfold rnd3. apply round_generic; [typeclasses eauto|].
  apply generic_format_FLX. exists (Float radix2 m e); [reflexivity|exact H].
Qed.

Theorem mono_rnd_3 : mono_rnd rnd3.
Proof.
  constructor.
  - intros x y H. unfold rnd3. apply round_le; [typeclasses eauto|typeclasses eauto|exact H].
  - unfold rnd3. apply round_0. typeclasses eauto.
  - pose proof (fix3 1 0) as H. simpl in H. rewrite Rmult_1_r in H. apply H. lia.
  - intros x. unfold rnd3. apply round_NE_opp.
Qed.
Theorem idem_rnd_3 : idem_rnd rnd3.
Proof. intros x. unfold rnd3. apply round_generic; [typeclasses eauto|]. apply generic_format_round; typeclasses eauto. Qed.

Theorem std_model_3 : std_model rnd3 (/ 8) 0.
Proof.
  constructor; [|apply (mr_0 _ mono_rnd_3)|lra|lra].
  intros x. unfold rnd3, fexp3.
  pose proof (relative_error_N_FLX radix2 3 eq_refl (fun z => negb (Z.even z)) x) as H.
  change (/ 2 * bpow radix2 (- (3) + 1)) with (/ 2 * / 4) in H. lra.
Qed.

(* evaluation of rnd3 away from ties: x in the binade [2^(e+2), 2^(e+3)) (spacing 2^e) and nearer to m 2^e than to
   any other multiple of 2^e *)
Lemma rnd3_near (m e : Z) (x : R) :
  bpow radix2 (e + 2) <= x < bpow radix2 (e + 3) ->
  Rabs (x - IZR m * bpow radix2 e) < / 2 * bpow radix2 e -> rnd3 x = IZR m * bpow radix2 e.
Proof.
  intros Hx Hm. unfold rnd3, round, F2R. cbn [Fnum Fexp].
  assert (P : 0 < bpow radix2 (e + 2)) by apply bpow_gt_0.
  assert (C : cexp radix2 fexp3 x = e).
  { unfold cexp, fexp3, FLX_exp. rewrite (mag_unique radix2 x (e + 3)); [ring|].
    rewrite Rabs_pos_eq by lra. replace (e + 3 - 1)%Z with (e + 2)%Z by ring. exact Hx. }
  rewrite C. f_equal. f_equal. apply Znearest_imp.
  unfold scaled_mantissa. rewrite C, bpow_opp.
  pose proof (bpow_gt_0 radix2 e) as Pe.
  replace (x * / bpow radix2 e - IZR m) with ((x - IZR m * bpow radix2 e) * / bpow radix2 e) by (field; lra).
  rewrite Rabs_mult, (Rabs_pos_eq (/ bpow radix2 e)) by (left; apply Rinv_0_lt_compat; exact Pe).
  apply (Rmult_lt_reg_r (bpow radix2 e)); [exact Pe|]. rewrite Rmult_assoc, Rinv_l by lra. lra.
Qed.

(* the same evaluation lemma for binary64, normal range: x in the binade [2^(e+52), 2^(e+53)) (spacing 2^e, e >= -1074)
   and nearer to m 2^e than to any other multiple of 2^e *)
Lemma rnd64_near (m e : Z) (x : R) : (-1074 <= e)%Z ->
  bpow radix2 (e + 52) <= x < bpow radix2 (e + 53) ->
  Rabs (x - IZR m * bpow radix2 e) < / 2 * bpow radix2 e -> rnd64 x = IZR m * bpow radix2 e.
Proof.
  intros He Hx Hm. unfold rnd64, round, F2R. cbn [Fnum Fexp].
  assert (P : 0 < bpow radix2 (e + 52)) by apply bpow_gt_0.
  assert (C : cexp radix2 fexp64 x = e).
  { unfold cexp, fexp64, FLT_exp. rewrite (mag_unique radix2 x (e + 53)); [lia|].
    rewrite Rabs_pos_eq by lra. replace (e + 53 - 1)%Z with (e + 52)%Z by ring. exact Hx. }
  rewrite C. f_equal. f_equal. apply Znearest_imp.
  unfold scaled_mantissa. rewrite C, bpow_opp.
  pose proof (bpow_gt_0 radix2 e) as Pe.
  replace (x * / bpow radix2 e - IZR m) with ((x - IZR m * bpow radix2 e) * / bpow radix2 e) by (field; lra).
  rewrite Rabs_mult, (Rabs_pos_eq (/ bpow radix2 e)) by (left; apply Rinv_0_lt_compat; exact Pe).
  apply (Rmult_lt_reg_r (bpow radix2 e)); [exact Pe|]. rewrite Rmult_assoc, Rinv_l by lra. lra.
Qed.

(* ... at an exact tie: x = (n + 1/2) 2^e in that binade goes to the even neighbour *)
Lemma ZnearestE_half (n : Z) : ZnearestE (IZR n + / 2) = if Z.even n then n else (n + 1)%Z.
Proof.
  unfold Znearest.
  assert (F : Zfloor (IZR n + / 2) = n) by (apply Zfloor_imp; rewrite plus_IZR; lra).
  assert (C : Zceil (IZR n + / 2) = (n + 1)%Z) by (apply Zceil_imp; replace (n + 1 - 1)%Z with n by ring; rewrite plus_IZR; lra).
  rewrite F, C. replace (IZR n + / 2 - IZR n) with (/ 2) by ring.
  rewrite Rcompare_Eq by reflexivity. destruct (Z.even n); reflexivity.
Qed.

Lemma rnd64_tie (n e : Z) (x : R) : (-1074 <= e)%Z ->
  bpow radix2 (e + 52) <= x < bpow radix2 (e + 53) ->
  x = (IZR n + / 2) * bpow radix2 e ->
  rnd64 x = IZR (if Z.even n then n else (n + 1)%Z) * bpow radix2 e.
Proof.
  intros He Hx Hn. unfold rnd64, round, F2R. cbn [Fnum Fexp].
  assert (P : 0 < bpow radix2 (e + 52)) by apply bpow_gt_0.
  assert (C : cexp radix2 fexp64 x = e).
  { unfold cexp, fexp64, FLT_exp. rewrite (mag_unique radix2 x (e + 53)); [lia|].
    rewrite Rabs_pos_eq by lra. replace (e + 53 - 1)%Z with (e + 52)%Z by ring. exact Hx. }
  rewrite C. f_equal. f_equal. rewrite <- ZnearestE_half. f_equal.
  unfold scaled_mantissa. rewrite C, bpow_opp, Hn.
  pose proof (bpow_gt_0 radix2 e) as Pe. field. lra.
Qed.

(* numbers of the binary64 format *)
Lemma rnd64_dyadic (m e : Z) : (Z.abs m < 2 ^ 53)%Z -> (-1074 <= e)%Z ->
  rnd64 (IZR m * bpow radix2 e) = IZR m * bpow radix2 e.
Proof.
  intros Hm He. unfold rnd64. apply round_generic; [typeclasses eauto|].
  unfold fexp64. apply generic_format_FLT. exists (Float radix2 m e); [reflexivity| |exact He].
  cbn [Fnum]. change (radix2 ^ 53)%Z with (2 ^ 53)%Z. exact Hm.
Qed.

Lemma rnd64_fix_format x : rnd64 x = x -> generic_format radix2 fexp64 x.
Proof. intros H. rewrite <- H. unfold rnd64. apply generic_format_round; typeclasses eauto. Qed.

(* gradual underflow: the rounded difference of two different binary64 numbers is not zero *)
Lemma rnd64_sub_nz a b : rnd64 a = a -> rnd64 b = b -> a <> b -> rnd64 (b - a) <> 0.
Proof.
  intros Fa Fb Hab. unfold rnd64. unfold Rminus.
  assert (NF : Exp_not_FTZ fexp64).
  { apply monotone_exp_not_FTZ; [typeclasses eauto|]. unfold fexp64. apply FLT_exp_monotone. }
  apply (@round_plus_neq_0 radix2 fexp64 _ NF ZnearestE _ b (- a)).
  - apply rnd64_fix_format; exact Fb.
  - apply generic_format_opp. apply rnd64_fix_format; exact Fa.
  - lra.
Qed.
