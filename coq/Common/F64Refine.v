(* The link between the two executable-vs-provable instances of NumOps, composed along programs.

   RoundFlocq.v proves, per operation, that a primitive-float operation on finite operands returns rnd64 of the exact
   result when that does not overflow.  This file packages those facts as a RELATION between the binary64 instance
   F64_ops (what the bit-exact correspondence runs against the C) and the rounded-real instance Rnd_ops rnd64 (what the
   rounding theorems are about):

       frel x r  :=  x is finite  /\  f2r x = r

   and shows that every NumOps operation that the straight-line models use maps related arguments to related results
   under an explicit no-overflow side condition, comparisons included (they do not round).  A model that is a
   composition of these operations is then related at the two instances by applying the lemmas along its syntax
   (tactic frel_auto); C16/LpfFloat.v does it for the low-pass filter, including a whole run by induction.

   Nothing is assumed: the statements come from Flocq's B*_correct theorems and the standard library's FloatAxioms
   (the specification of the primitive operations, which Print Assumptions lists). *)
From Coq Require Import Reals ZArith Lra Lia Floats Bool.
From Flocq Require Import Core BinarySingleNaN PrimFloat.
From LibaV Require Import Common.NumOps Common.ROps Common.RoundOps Common.RoundFlocq Common.RoundMono Common.FloatOps.
Local Open Scope R_scope.

Local Notation pfloat := Floats.PrimFloat.float.

Definition frel (x : pfloat) (r : R) : Prop := ffinite x = true /\ f2r x = r.

Lemma frel_f2r x : ffinite x = true -> frel x (f2r x).
Proof. intros H. split; [exact H|reflexivity]. Qed.

Lemma frel_add x y a b : frel x a -> frel y b -> no_overflow (a + b) ->
  frel (add F64_ops x y) (add (Rnd_ops rnd64) a b).
Proof.
  intros [Fx <-] [Fy <-] Ho. cbn [add F64_ops Rnd_ops].
  destruct (prim_add_rnd64 x y Fx Fy Ho) as [H1 H2]. split; assumption.
Qed.

Lemma frel_sub x y a b : frel x a -> frel y b -> no_overflow (a - b) ->
  frel (sub F64_ops x y) (sub (Rnd_ops rnd64) a b).
Proof.
  intros [Fx <-] [Fy <-] Ho. cbn [sub F64_ops Rnd_ops].
  destruct (prim_sub_rnd64 x y Fx Fy Ho) as [H1 H2]. split; assumption.
Qed.

Lemma frel_mul x y a b : frel x a -> frel y b -> no_overflow (a * b) ->
  frel (mul F64_ops x y) (mul (Rnd_ops rnd64) a b).
Proof.
  intros [Fx <-] [Fy <-] Ho. cbn [mul F64_ops Rnd_ops].
  destruct (prim_mul_rnd64 x y Fx Fy Ho) as [H1 H2]. split; assumption.
Qed.

Lemma frel_div x y a b : frel x a -> frel y b -> b <> 0 -> no_overflow (a / b) ->
  frel (div F64_ops x y) (div (Rnd_ops rnd64) a b).
Proof.
  intros [Fx <-] [Fy <-] Hb Ho. cbn [div F64_ops Rnd_ops].
  destruct (prim_div_rnd64 x y Fx Hb Ho) as [H1 H2]. split; assumption.
Qed.

Lemma frel_opp x a : frel x a -> frel (opp F64_ops x) (opp (Rnd_ops rnd64) a).
Proof.
  intros [Fx <-]. cbn [opp F64_ops Rnd_ops]. split; [|exact (proj1 (prim_opp_abs_exact x))].
  unfold ffinite in *. rewrite opp_equiv, is_finite_Bopp. exact Fx.
Qed.

Lemma frel_abs x a : frel x a -> frel (abs F64_ops x) (abs (Rnd_ops rnd64) a).
Proof.
  intros [Fx <-]. cbn [abs F64_ops Rnd_ops]. split; [|exact (proj2 (prim_opp_abs_exact x))].
  unfold ffinite in *. rewrite abs_equiv, is_finite_Babs. exact Fx.
Qed.

(* the literals 0 and 1 *)
Lemma frel_zero : frel (zero F64_ops) (zero (Rnd_ops rnd64)).
Proof. cbn [zero F64_ops Rnd_ops]. split; [reflexivity|]. unfold f2r. cbv. reflexivity. Qed.

Lemma frel_one : frel (one F64_ops) (one (Rnd_ops rnd64)).
Proof.
  cbn [one F64_ops Rnd_ops]. rewrite rnd64_1. split; [reflexivity|].
  unfold f2r. change 1%float with Floats.PrimFloat.one. rewrite one_equiv, Prim2B_B2Prim. apply Bone_correct.
Qed.

Lemma frel_ofZ1 : frel (ofZ F64_ops 1) (ofZ (Rnd_ops rnd64) 1).
Proof.
  cbn [ofZ F64_ops Rnd_ops]. change (f_ofZ 1) with 1%float. exact frel_one.
Qed.

(* comparisons do not round: on finite operands they are the comparisons of the real values *)
Lemma frel_ltb x y a b : frel x a -> frel y b -> ltb F64_ops x y = ltb (Rnd_ops rnd64) a b.
Proof.
  intros [Fx <-] [Fy <-]. cbn [ltb F64_ops Rnd_ops]. unfold ffinite, f2r in *.
  rewrite ltb_equiv, (Bltb_correct prec emax _ _ Fx Fy).
  unfold Rltb. destruct (Rlt_dec _ _) as [H|H]; [apply Rlt_bool_true|apply Rlt_bool_false]; lra.
Qed.

Lemma frel_leb x y a b : frel x a -> frel y b -> leb F64_ops x y = leb (Rnd_ops rnd64) a b.
Proof.
  intros [Fx <-] [Fy <-]. cbn [leb F64_ops Rnd_ops]. unfold ffinite, f2r in *.
  rewrite leb_equiv, (Bleb_correct prec emax _ _ Fx Fy).
  unfold Rleb. destruct (Rle_dec _ _) as [H|H]; [apply Rle_bool_true|apply Rle_bool_false]; lra.
Qed.

(* magnitudes: what keeps a product or a sum below the overflow threshold *)
Lemma no_overflow_le (r m : R) : Rabs r <= m -> rnd64 m = m -> m < bpow radix2 1024 -> no_overflow r.
Proof.
  intros Hr Fm Hm. unfold no_overflow. apply Rle_lt_trans with (2 := Hm).
  pose proof mono_rnd_binary64 as M.
  rewrite <- (mrnd_abs rnd64 M). rewrite <- Fm. apply (mrnd_le rnd64 M). exact Hr.
Qed.

Lemma rnd64_bpow e : (-1074 <= e)%Z -> rnd64 (bpow radix2 e) = bpow radix2 e.
Proof.
  intros He. unfold rnd64. apply round_generic; [typeclasses eauto|].
  apply generic_format_bpow. unfold fexp64, FLT_exp. lia.
Qed.

(* |rnd64 r| <= m for a representable bound m *)
Lemma rnd64_abs_le (r m : R) : Rabs r <= m -> rnd64 m = m -> Rabs (rnd64 r) <= m.
Proof.
  intros Hr Fm. pose proof mono_rnd_binary64 as M.
  rewrite <- (mrnd_abs rnd64 M). rewrite <- Fm. apply (mrnd_le rnd64 M). exact Hr.
Qed.
