(* The real-number instance of NumOps and the lemmas that turn its boolean comparisons into propositions. *)
From Coq Require Import Reals ZArith Lra Bool.
From LibaV Require Import Common.NumOps.
Local Open Scope R_scope.

Definition Rltb (a b : R) : bool := if Rlt_dec a b then true else false.
Definition Rleb (a b : R) : bool := if Rle_dec a b then true else false.
Definition Reqb (a b : R) : bool := if Req_EM_T a b then true else false.

Lemma Rltb_spec a b : reflect (a < b) (Rltb a b).
Proof. unfold Rltb. destruct (Rlt_dec a b); constructor; assumption. Qed.
Lemma Rleb_spec a b : reflect (a <= b) (Rleb a b).
Proof. unfold Rleb. destruct (Rle_dec a b); constructor; assumption. Qed.
Lemma Reqb_spec a b : reflect (a = b) (Reqb a b).
Proof. unfold Reqb. destruct (Req_EM_T a b); constructor; assumption. Qed.

Definition R_fn1 (f : lib1) (x : R) : R :=
  match f with
  | Exp => exp x | Log => ln x | Sin => sin x | Cos => cos x | Tan => tan x | Atan => atan x
  | Asin => asin x | Acos => acos x | Sinh => sinh x | Cosh => cosh x | Tanh => tanh x
  | Expm1 => exp x - 1 | Log1p => ln (1 + x)
  | Floor => IZR (Int_part x)
  end.

Definition R_fn2 (f : lib2) (x y : R) : R :=
  match f with
  | Pow => Rpower x y            (* only meaningful for x > 0; models using Pow state that guard *)
  | Atan2 => 0                   (* no model uses these through R_ops; see the C10/C11 files *)
  | Hypot => R_sqrt.sqrt (x * x + y * y)
  | Fmod => 0
  end.

Definition R_ops : NumOps R := {|
  zero := 0; one := 1;
  add := Rplus; sub := Rminus; mul := Rmult; div := Rdiv;
  opp := Ropp; abs := Rabs; sqrt := R_sqrt.sqrt;
  ltb := Rltb; leb := Rleb; eqb := Reqb;
  ofZ := IZR;
  ofD := fun m e => IZR m * powerRZ 2 e;
  fn1 := R_fn1; fn2 := R_fn2
|}.

(* destruct every comparison of a goal produced from a model instantiated with R_ops *)
Ltac rcases :=
  repeat match goal with
         | |- context [Rltb ?a ?b] => destruct (Rltb_spec a b)
         | |- context [Rleb ?a ?b] => destruct (Rleb_spec a b)
         | |- context [Reqb ?a ?b] => destruct (Reqb_spec a b)
         | H : context [Rltb ?a ?b] |- _ => destruct (Rltb_spec a b)
         | H : context [Rleb ?a ?b] |- _ => destruct (Rleb_spec a b)
         | H : context [Reqb ?a ?b] |- _ => destruct (Reqb_spec a b)
         end.

Ltac unfold_ops :=
  cbn [zero one add sub mul div opp abs sqrt ltb leb eqb ofZ ofD fn1 fn2 R_ops gtb geb neb] in *;
  unfold gtb, geb, neb in *;
  cbn [zero one add sub mul div opp abs sqrt ltb leb eqb ofZ ofD fn1 fn2 R_ops] in *.
