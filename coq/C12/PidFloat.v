(* C12 on the PRIMITIVE-FLOAT run: the output clamp works for EVERY binary64 value, NaN and the infinities included.

   PidRound.v proves "output within the limits" for every rounding function over the reals, where NaN and overflow do not
   exist.  Here the same clause is proved about the instance that is compared bit for bit with the C: for finite limits
   outmin <= outmax and ANY state, gains, feedback and error (finite or not), the output stored by a_pid_run / a_pid_pos_ /
   a_pid_inc_ is finite and lies in [outmin, outmax].  The reason is the shape of A_SAT: `lo < x ? (x < hi ? x : hi) : lo`
   - a NaN fails the first comparison and yields lo, +inf fails the second and yields hi, -inf fails the first. *)
From Coq Require Import Reals ZArith Lra Lia Floats Bool.
From Flocq Require Import Core BinarySingleNaN PrimFloat.
From LibaV Require Import Common.NumOps Common.ROps Common.RoundOps Common.RoundFlocq Common.FloatOps Common.F64Refine C12.PidDefs.
Local Open Scope R_scope.

Local Notation pfloat := Floats.PrimFloat.float.

(* lo < o < hi with lo, hi finite forces o to be finite *)
Lemma between_finite (lo o hi : pfloat) : ffinite lo = true -> ffinite hi = true ->
  PrimFloat.ltb lo o = true -> PrimFloat.ltb o hi = true -> ffinite o = true.
Proof.
  unfold ffinite. rewrite !ltb_equiv. intros Fl Fh.
  destruct (Prim2B o) as [s|s| |s m e H]; try reflexivity.
  - (* infinity *)
    destruct s.
    + (* -inf: lo < -inf is false *)
      intros H1 _. destruct (Prim2B lo) as [sl|sl| |sl ml el Hl]; try discriminate; destruct sl; discriminate.
    + (* +inf: +inf < hi is false *)
      intros _ H2. destruct (Prim2B hi) as [sh|sh| |sh mh eh Hh]; try discriminate; destruct sh; discriminate.
  - (* nan *)
    intros H1 _. destruct (Prim2B lo); discriminate.
Qed.

Theorem f64_sat_in_limits (o lo hi : pfloat) : ffinite lo = true -> ffinite hi = true -> f2r lo <= f2r hi ->
  ffinite (sat F64_ops o lo hi) = true /\ f2r lo <= f2r (sat F64_ops o lo hi) <= f2r hi.
Proof.
  intros Fl Fh Hlh. unfold sat. cbn [ltb F64_ops].
  destruct (PrimFloat.ltb lo o) eqn:E1; [|split; [exact Fl|lra]].
  destruct (PrimFloat.ltb o hi) eqn:E2; [|split; [exact Fh|lra]].
  pose proof (between_finite lo o hi Fl Fh E1 E2) as Fo.
  split; [exact Fo|].
  pose proof (frel_ltb lo o _ _ (frel_f2r _ Fl) (frel_f2r _ Fo)) as H1.
  pose proof (frel_ltb o hi _ _ (frel_f2r _ Fo) (frel_f2r _ Fh)) as H2.
  cbn [ltb F64_ops Rnd_ops] in H1, H2. rewrite E1 in H1. rewrite E2 in H2.
  pose proof (Rltb_spec (f2r lo) (f2r o)) as S1. rewrite <- H1 in S1. inversion S1 as [L1|L1].
  pose proof (Rltb_spec (f2r o) (f2r hi)) as S2. rewrite <- H2 in S2. inversion S2 as [L2|L2].
  lra.
Qed.

Definition lim_ok (s : @pid pfloat) : Prop :=
  ffinite (outmin s) = true /\ ffinite (outmax s) = true /\ f2r (outmin s) <= f2r (outmax s).
Definition out_ok (s : @pid pfloat) : Prop :=
  ffinite (out s) = true /\ f2r (outmin s) <= f2r (out s) <= f2r (outmax s).

(* every step function: any state with finite ordered output limits, any arguments *)
Theorem f64_pid_out_in_limits (s : @pid pfloat) (set f e : pfloat) : lim_ok s ->
  (out_ok (pid_run_ F64_ops s set f e) /\ lim_ok (pid_run_ F64_ops s set f e)) /\
  (out_ok (pid_pos_ F64_ops s f e) /\ lim_ok (pid_pos_ F64_ops s f e)) /\
  (out_ok (pid_inc_ F64_ops s f e) /\ lim_ok (pid_inc_ F64_ops s f e)).
Proof.
  intros (Fl & Fh & Hlh).
  repeat split; unfold pid_run_, pid_pos_, pid_inc_, upd, out_ok, lim_ok; cbn [out outmin outmax];
    try assumption; try (apply f64_sat_in_limits; assumption).
Qed.

(* hence over a whole history of positional / incremental / open-loop steps *)
Inductive pstep := Run (set f : pfloat) | Pos (set f : pfloat) | Inc (set f : pfloat).
Definition pstep_apply (s : @pid pfloat) (c : pstep) : @pid pfloat :=
  match c with
  | Run set f => pid_run F64_ops s set f
  | Pos set f => pid_pos F64_ops s set f
  | Inc set f => pid_inc F64_ops s set f
  end.

Theorem f64_pid_history_in_limits (s : @pid pfloat) (cs : list pstep) : lim_ok s -> cs <> nil ->
  out_ok (List.fold_left pstep_apply cs s).
Proof.
  intros L. revert s L. induction cs as [|c r IH]; intros s L N; [congruence|].
  cbn [List.fold_left].
  assert (K : out_ok (pstep_apply s c) /\ lim_ok (pstep_apply s c)).
  { destruct c as [st f|st f|st f]; cbn [pstep_apply]; unfold pid_run, pid_pos, pid_inc.
    - exact (proj1 (f64_pid_out_in_limits s st f (sub F64_ops st f) L)).
    - exact (proj1 (proj2 (f64_pid_out_in_limits s st f (sub F64_ops st f) L))).
    - exact (proj2 (proj2 (f64_pid_out_in_limits s st f (sub F64_ops st f) L))). }
  destruct K as [K1 K2]. destruct r as [|c2 r2]; [exact K1|].
  apply IH; [exact K2|discriminate].
Qed.

(* the single-neuron controller: its output goes through the same clamp *)
Theorem f64_neuro_out_in_limits (n : @neuro pfloat) (set f e ec : pfloat) : lim_ok (npid n) ->
  (out_ok (npid (neuro_run F64_ops n set f)) /\ lim_ok (npid (neuro_run F64_ops n set f))) /\
  (out_ok (npid (neuro_inc_ F64_ops n f e ec)) /\ lim_ok (npid (neuro_inc_ F64_ops n f e ec))) /\
  (out_ok (npid (neuro_inc F64_ops n set f)) /\ lim_ok (npid (neuro_inc F64_ops n set f))).
Proof.
  intros (Fl & Fh & Hlh).
  repeat split; unfold neuro_run, neuro_inc, neuro_inc_, pid_run_, upd, out_ok, lim_ok; cbn [npid out outmin outmax];
    try assumption; try (apply f64_sat_in_limits; assumption).
Qed.
