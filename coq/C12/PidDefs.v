(* C12 model: src/pid.c and src/pid_neuro.c transcribed statement by statement, polymorphic over NumOps.
   (The fuzzy-tuned controller is in C13/FuzzyDefs.v: it wraps these functions after a_pid_fuzzy_out_.)  No proofs here. *)
From Coq Require Import ZArith List.
From LibaV Require Import Common.NumOps.
Import ListNotations.

Section Model.
  Context {T : Type} (O : NumOps T).
  Local Notation "x + y" := (add O x y) (at level 50, left associativity).
  Local Notation "x - y" := (sub O x y) (at level 50, left associativity).
  Local Notation "x * y" := (mul O x y) (at level 40, left associativity).
  Local Notation "x / y" := (div O x y) (at level 40, left associativity).
  Local Notation "x <? y" := (ltb O x y) (at level 70).
  Local Notation "# z" := (ofZ O z%Z) (at level 0, z at level 0).

  (* #define A_SAT(x, min, max) ((min) < (x) ? (x) < (max) ? (x) : (max) : (min))   - maps NaN to min *)
  Definition sat (x lo hi : T) : T := if lo <? x then (if x <? hi then x else hi) else lo.
  (* #define A_ABS(x) ((x) < 0 ? -(x) : (x))   - not fabs: A_ABS(-0.0) is -0.0 *)
  Definition c_abs (x : T) : T := if x <? #0 then opp O x else x.

  Record pid := {
    kp : T; ki : T; kd : T;
    summax : T; summin : T; sum : T;
    outmax : T; outmin : T; out : T;
    var : T; fdb : T; err : T }.

  Definition upd (s : pid) (sum' out' var' fdb' err' : T) : pid :=
    {| kp := kp s; ki := ki s; kd := kd s; summax := summax s; summin := summin s; sum := sum';
       outmax := outmax s; outmin := outmin s; out := out'; var := var'; fdb := fdb'; err := err' |}.

  Definition set_kpid (s : pid) (p i d : T) : pid :=
    {| kp := p; ki := i; kd := d; summax := summax s; summin := summin s; sum := sum s;
       outmax := outmax s; outmin := outmin s; out := out s; var := var s; fdb := fdb s; err := err s |}.

  (* a_pid_zero *)
  Definition pid_zero (s : pid) : pid := upd s #0 #0 #0 #0 #0.

  (* a_pid_run_(ctx, set, fdb, err) *)
  Definition pid_run_ (s : pid) (set f e : T) : pid :=
    let v := fdb s - f in
    upd s (sum s) (sat set (outmin s) (outmax s)) v f e.
  Definition pid_run (s : pid) (set f : T) : pid := pid_run_ s set f (set - f).

  (* a_pid_pos_(ctx, fdb, err) *)
  Definition pos_integrates (s : pid) (e : T) : bool :=
    ((summin s <? sum s) && (sum s <? summax s)) || (sum s * e <? #0).
  Definition pid_pos_ (s : pid) (f e : T) : pid :=
    let v := fdb s - f in
    let sum' := if pos_integrates s e then sum s + ki s * e else sum s in
    let o := kp s * e + sum' + kd s * v in
    upd s sum' (sat o (outmin s) (outmax s)) v f e.
  Definition pid_pos (s : pid) (set f : T) : pid := pid_pos_ s f (set - f).

  (* a_pid_inc_(ctx, fdb, err) *)
  Definition pid_inc_ (s : pid) (f e : T) : pid :=
    let v := fdb s - f in
    let o := out s + (kp s * (e - err s) + ki s * e + kd s * (v - var s)) in
    upd s (sum s) (sat o (outmin s) (outmax s)) v f e.
  Definition pid_inc (s : pid) (set f : T) : pid := pid_inc_ s f (set - f).

  (* ------------------------------------------------------------ single neuron *)
  Record neuro := { npid : pid; nk : T; wp : T; wi : T; wd : T; nec : T }.

  Definition neuro_zero (n : neuro) : neuro :=
    {| npid := pid_zero (npid n); nk := nk n; wp := wp n; wi := wi n; wd := wd n; nec := #0 |}.

  Definition neuro_run (n : neuro) (set f : T) : neuro :=
    let e := set - f in
    let ec := e - err (npid n) in
    {| npid := pid_run_ (npid n) set f e; nk := nk n; wp := wp n; wi := wi n; wd := wd n; nec := ec |}.

  (* the denominator of the neuron's normalisation *)
  Definition neuro_den (wp' wi' wd' : T) : T := c_abs wp' + c_abs wi' + c_abs wd'.

  (* a_pid_neuro_inc_(ctx, fdb, err, ec) *)
  Definition neuro_inc_ (n : neuro) (f e ec : T) : neuro :=
    let p := npid n in
    let v := ec - nec n in
    let o := e * out p in
    let wp' := wp n + kp p * o * nec n in
    let wi' := wi n + ki p * o * err p in
    let wd' := wd n + kd p * o * var p in
    let den := neuro_den wp' wi' wd' in
    let o2 := nk n * (wp' * ec + wi' * e + wd' * v) / den in
    {| npid := upd p (sum p) (sat o2 (outmin p) (outmax p)) v f e;
       nk := nk n; wp := wp'; wi := wi'; wd := wd'; nec := ec |}.

  (* a_pid_neuro_inc(ctx, set, fdb): err = set - fdb; ec = err - ctx->pid.err *)
  Definition neuro_inc (n : neuro) (set f : T) : neuro :=
    let e := set - f in
    neuro_inc_ n f e (e - err (npid n)).

  (* ------------------------------------------------------------ execution helpers for the correspondence run *)
  (* mode 0 run, 1 pos, 2 inc; 8 + mode: a_pid_zero first *)
  Definition pid_step (s : pid) (m : nat) (a f : T) : pid :=
    let s := if Nat.leb 8 m then pid_zero s else s in
    match (if Nat.leb 8 m then m - 8 else m)%nat with
    | 0%nat => pid_run s a f | 1%nat => pid_pos s a f | _ => pid_inc s a f end.
  Fixpoint pid_trace (s : pid) (steps : list (nat * (T * T))) : list T :=
    match steps with
    | [] => []
    | (m, (a, f)) :: r => let s' := pid_step s m a f in
                          [out s'; sum s'; var s'; fdb s'; err s'] ++ pid_trace s' r
    end.
  Definition neuro_step (n : neuro) (m : nat) (a f : T) : neuro :=
    let n := if Nat.leb 8 m then neuro_zero n else n in
    match (if Nat.leb 8 m then m - 8 else m)%nat with 0%nat => neuro_run n a f | _ => neuro_inc n a f end.
  Fixpoint neuro_trace (n : neuro) (steps : list (nat * (T * T))) : list T :=
    match steps with
    | [] => []
    | (m, (a, f)) :: r => let n' := neuro_step n m a f in
                          [out (npid n'); wp n'; wi n'; wd n'; nec n'; var (npid n'); fdb (npid n'); err (npid n')]
                            ++ neuro_trace n' r
    end.
End Model.
