(* C12 at the ROUNDED instance  Rnd_ops rnd  (every + - * / followed by rnd; comparisons exact): what survives rounding.

   1. OUTPUT WITHIN THE LIMITS: verbatim, and for EVERY function rnd : R -> R (no hypothesis on rnd at all): the output
      is A_SAT(...) of whatever was computed, A_SAT is two comparisons and a selection, and the comparisons of Rnd_ops
      are those of R_ops.  Every history, the three modes mixed arbitrarily, outmin <= outmax; also the single neuron.
   2. POSITIONAL INTEGRATOR, under monotone rounding (Common/RoundMono.v: mono_rnd) and for a stored sum that is a
      number of the format (rnd (sum s) = sum s):
        - once at or beyond a clamp it never moves further out: verbatim (r_integrator_no_further_out);
        - "stays within [summin, summax]" is not true even over the reals (PidProofs.integrator_overshoot: it overshoots
          by at most one increment ki*E); rounded, it overshoots by at most one ROUNDED increment, the bounds being the
          rounded sums    rnd (summin - rnd (ki*E)) <= sum <= rnd (summax + rnd (ki*E))
          over every history of positional steps with |err| <= E (idempotent rnd, limits and initial sum in the format).
      NOT claimed at the rounded instance: the real-number bound summax + ki*E itself (the bound that survives is its
      rounded evaluation above), the difference equations as equalities between real expressions, and the pos/inc
      coincidence (both rest on exact arithmetic: ring identities). *)
From Coq Require Import Reals ZArith List Lra Lia Bool.
From LibaV Require Import Common.NumOps Common.ROps Common.RoundOps Common.RoundFlocq Common.RoundMono
                          C12.PidDefs C12.PidProofs.
Import ListNotations.
Local Open Scope R_scope.

(* the clamp of Rnd_ops rnd IS the clamp of R_ops (same comparisons, no arithmetic) *)
Lemma sat_rnd_eq rnd x lo hi : sat (Rnd_ops rnd) x lo hi = sat R_ops x lo hi.
Proof. reflexivity. Qed.

Definition rstep (rnd : R -> R) (s : pidR) (o : op) : pidR :=
  match o with
  | Run a f => pid_run (Rnd_ops rnd) s a f
  | Pos a f => pid_pos (Rnd_ops rnd) s a f
  | Inc a f => pid_inc (Rnd_ops rnd) s a f
  end.

(* ------------------------------------------------------------ 1. output within the limits: any rnd whatsoever *)
Section AnyRnd.
  Variable rnd : R -> R.

  Lemma rstep_params s o : same_params s (rstep rnd s o).
  Proof. destruct o; unfold same_params; cbn; repeat split; reflexivity. Qed.

  Lemma rstep_out_in_limits s o : outmin s <= outmax s -> outmin s <= out (rstep rnd s o) <= outmax s.
  Proof. intros H. destruct o; cbn [rstep pid_run pid_run_ pid_pos pid_pos_ pid_inc pid_inc_ out upd]; rewrite sat_rnd_eq; apply sat_range; exact H. Qed.

  Theorem r_history_out_in_limits : forall (ops : list op) (s : pidR) (o : op),
    outmin s <= outmax s ->
    let s' := fold_left (rstep rnd) (ops ++ [o]) s in
    outmin s <= out s' <= outmax s /\ same_params s s'.
  Proof.
    induction ops as [|a ops IH]; intros s o H; cbv zeta.
    - cbn [app fold_left]. split; [apply rstep_out_in_limits; exact H|apply rstep_params].
    - cbn [app fold_left]. pose proof (rstep_params s a) as Hp.
      assert (H' : outmin (rstep rnd s a) <= outmax (rstep rnd s a)).
      { destruct Hp as (_&_&_&_&_&E1&E2). rewrite E1, E2. exact H. }
      specialize (IH (rstep rnd s a) o H'). cbv zeta in IH. destruct IH as [IH1 IH2].
      destruct Hp as (P1&P2&P3&P4&P5&P6&P7). rewrite P6, P7 in IH1. split; [exact IH1|].
      destruct IH2 as (Q1&Q2&Q3&Q4&Q5&Q6&Q7). unfold same_params. repeat split; congruence.
  Qed.

  (* single neuron: whatever the rounded quotient (also x/0) is, the clamp brings it inside *)
  Lemma r_neuro_out_in_limits (n : neuroR) a f :
    outmin (npid n) <= outmax (npid n) ->
    outmin (npid n) <= out (npid (neuro_inc (Rnd_ops rnd) n a f)) <= outmax (npid n) /\
    outmin (npid n) <= out (npid (neuro_run (Rnd_ops rnd) n a f)) <= outmax (npid n).
  Proof.
    intros H. split.
    - cbn [neuro_inc neuro_inc_ npid out upd]. rewrite sat_rnd_eq. apply sat_range; exact H.
    - cbn [neuro_run pid_run_ npid out upd]. rewrite sat_rnd_eq. apply sat_range; exact H.
  Qed.
End AnyRnd.

(* ------------------------------------------------------------ 2. the positional integrator under monotone rounding *)
Section MonoRnd.
  Variable rnd : R -> R.
  Hypothesis M : mono_rnd rnd.

  Lemma r_pos_sum_eq s f e : sum (pid_pos_ (Rnd_ops rnd) s f e) =
    if pos_integrates (Rnd_ops rnd) s e then rnd (sum s + rnd (ki s * e)) else sum s.
  Proof. reflexivity. Qed.

  (* the integration condition, unfolded: strictly inside, or the ROUNDED product sum*err is negative
     (the literal 0 of the C is ofZ 0 = rnd 0 = 0) *)
  Lemma r_pos_integrates_eq s e : pos_integrates (Rnd_ops rnd) s e =
    (Rltb (summin s) (sum s) && Rltb (sum s) (summax s)) || Rltb (rnd (sum s * e)) 0.
  Proof. unfold pos_integrates. unfold_rops. rewrite (mrnd_0 rnd M). reflexivity. Qed.

  (* once at or beyond a clamp the integrator never moves further out - verbatim *)
  Theorem r_integrator_no_further_out s f e :
    0 <= ki s -> summin s <= 0 <= summax s -> rnd (sum s) = sum s ->
    (summax s <= sum s -> sum (pid_pos_ (Rnd_ops rnd) s f e) <= sum s) /\
    (sum s <= summin s -> sum s <= sum (pid_pos_ (Rnd_ops rnd) s f e)).
  Proof.
    intros Hki Hlim Hfix. rewrite r_pos_sum_eq, r_pos_integrates_eq.
    split; intros Hs.
    - destruct (Rltb_spec (summin s) (sum s)) as [A|A], (Rltb_spec (sum s) (summax s)) as [B|B],
               (Rltb_spec (rnd (sum s * e)) 0) as [C|C]; cbn [andb orb]; try lra;
        pose proof (mrnd_lt0_inv rnd M _ C) as Hn; assert (He : e < 0) by nra;
        assert (H1 : rnd (ki s * e) <= 0) by (apply (mrnd_le0 rnd M); nra);
        (apply (mrnd_le_fix rnd M); [exact Hfix|lra]).
    - destruct (Rltb_spec (summin s) (sum s)) as [A|A], (Rltb_spec (sum s) (summax s)) as [B|B],
               (Rltb_spec (rnd (sum s * e)) 0) as [C|C]; cbn [andb orb]; try lra;
        pose proof (mrnd_lt0_inv rnd M _ C) as Hn; assert (He : 0 < e) by nra;
        assert (H1 : 0 <= rnd (ki s * e)) by (apply (mrnd_ge0 rnd M); nra);
        (apply (mrnd_ge_fix rnd M); [exact Hfix|lra]).
  Qed.

  (* overshoot by at most one ROUNDED increment *)
  Definition r_sum_bound (s : pidR) (E : R) : Prop :=
    rnd (summin s - rnd (ki s * E)) <= sum s <= rnd (summax s + rnd (ki s * E)).

  Lemma r_pos_sum_bound s f e E :
    0 <= ki s -> summin s <= 0 <= summax s -> rnd (sum s) = sum s -> Rabs e <= E ->
    r_sum_bound s E -> r_sum_bound (pid_pos_ (Rnd_ops rnd) s f e) E.
  Proof.
    intros Hki Hlim Hfix He Hb. unfold r_sum_bound in *.
    change (summin (pid_pos_ (Rnd_ops rnd) s f e)) with (summin s).
    change (summax (pid_pos_ (Rnd_ops rnd) s f e)) with (summax s).
    change (ki (pid_pos_ (Rnd_ops rnd) s f e)) with (ki s).
    rewrite r_pos_sum_eq, r_pos_integrates_eq.
    assert (He' : - E <= e <= E) by (unfold Rabs in He; destruct (Rcase_abs e); lra).
    assert (HE : 0 <= E) by lra.
    assert (I1 : rnd (ki s * e) <= rnd (ki s * E)) by (apply (mrnd_le rnd M); nra).
    assert (I2 : - rnd (ki s * E) <= rnd (ki s * e)).
    { rewrite <- (mrnd_opp rnd M). apply (mrnd_le rnd M). nra. }
    assert (I0 : 0 <= rnd (ki s * E)) by (apply (mrnd_ge0 rnd M); nra).
    destruct (Rltb_spec (summin s) (sum s)) as [A|A], (Rltb_spec (sum s) (summax s)) as [B|B],
             (Rltb_spec (rnd (sum s * e)) 0) as [C|C]; cbn [andb orb]; try exact Hb.
    - split; apply (mrnd_le rnd M); lra.
    - split; apply (mrnd_le rnd M); lra.
    - (* summax <= sum, rounded product negative: e < 0, the sum moves down *)
      pose proof (mrnd_lt0_inv rnd M _ C) as Hn. assert (e < 0) by nra.
      assert (rnd (ki s * e) <= 0) by (apply (mrnd_le0 rnd M); nra).
      split; [apply (mrnd_le rnd M); lra|].
      eapply Rle_trans; [|exact (proj2 Hb)]. apply (mrnd_le_fix rnd M); [exact Hfix|lra].
    - (* sum <= summin <= 0, rounded product negative: e > 0, the sum moves up *)
      pose proof (mrnd_lt0_inv rnd M _ C) as Hn. assert (0 < e) by nra.
      assert (0 <= rnd (ki s * e)) by (apply (mrnd_ge0 rnd M); nra).
      split; [|apply (mrnd_le rnd M); lra].
      eapply Rle_trans; [exact (proj1 Hb)|]. apply (mrnd_ge_fix rnd M); [exact Hfix|lra].
    - (* sum <= summin <= 0 <= summax <= sum: sum = 0, the product cannot be negative *)
      pose proof (mrnd_lt0_inv rnd M _ C) as Hn. exfalso. nra.
  Qed.

  (* every stored sum is a number of the format when rnd is idempotent *)
  Lemma r_pos_sum_fix s f e : idem_rnd rnd -> rnd (sum s) = sum s ->
    rnd (sum (pid_pos_ (Rnd_ops rnd) s f e)) = sum (pid_pos_ (Rnd_ops rnd) s f e).
  Proof. intros I Hfix. rewrite r_pos_sum_eq. destruct (pos_integrates _ _ _); [apply I|exact Hfix]. Qed.

  Theorem r_integrator_overshoot : idem_rnd rnd -> forall (es : list (R * R)) (s : pidR) (E : R),
    0 <= ki s -> summin s <= 0 <= summax s ->
    rnd (summin s) = summin s -> rnd (summax s) = summax s -> rnd (sum s) = sum s ->
    summin s <= sum s <= summax s -> 0 <= E ->
    Forall (fun fe => Rabs (snd fe) <= E) es ->
    r_sum_bound (fold_left (fun st fe => pid_pos_ (Rnd_ops rnd) st (fst fe) (snd fe)) es s) E.
  Proof.
    intros I es s E Hki Hlim Fmin Fmax Fs Hs HE Hes.
    assert (I0 : 0 <= rnd (ki s * E)) by (apply (mrnd_ge0 rnd M); nra).
    assert (Hb : r_sum_bound s E).
    { unfold r_sum_bound. split.
      - eapply Rle_trans; [|exact (proj1 Hs)]. apply (mrnd_le_fix rnd M); [exact Fmin|lra].
      - eapply Rle_trans; [exact (proj2 Hs)|]. apply (mrnd_ge_fix rnd M); [exact Fmax|lra]. }
    clear Hs Fmin Fmax I0. revert s Hki Hlim Fs Hb.
    induction es as [|fe r IH]; intros s Hki Hlim Fs Hb; [exact Hb|].
    cbn [fold_left]. inversion Hes as [|? ? H1 H2]; subst. apply IH; try assumption.
    - apply r_pos_sum_fix; assumption.
    - apply r_pos_sum_bound; assumption.
  Qed.

  (* strictly inside the clamps the integrator always integrates (the comparison part of the condition is exact) *)
  Lemma r_integrates_inside s e : summin s < sum s < summax s -> pos_integrates (Rnd_ops rnd) s e = true.
  Proof.
    intros [H1 H2]. rewrite r_pos_integrates_eq.
    destruct (Rltb_spec (summin s) (sum s)); [|lra]. destruct (Rltb_spec (sum s) (summax s)); [|lra]. reflexivity.
  Qed.
End MonoRnd.

(* ------------------------------------------------------------ binary64 corollaries *)
Corollary b64_history_out_in_limits : forall (ops : list op) (s : pidR) (o : op),
  outmin s <= outmax s ->
  let s' := fold_left (rstep rnd64) (ops ++ [o]) s in
  outmin s <= out s' <= outmax s /\ same_params s s'.
Proof. exact (r_history_out_in_limits rnd64). Qed.

Corollary b64_integrator_no_further_out : forall s f e,
  0 <= ki s -> summin s <= 0 <= summax s -> rnd64 (sum s) = sum s ->
  (summax s <= sum s -> sum (pid_pos_ (Rnd_ops rnd64) s f e) <= sum s) /\
  (sum s <= summin s -> sum s <= sum (pid_pos_ (Rnd_ops rnd64) s f e)).
Proof. exact (r_integrator_no_further_out rnd64 mono_rnd_binary64). Qed.

Corollary b64_integrator_overshoot : forall (es : list (R * R)) (s : pidR) (E : R),
  0 <= ki s -> summin s <= 0 <= summax s ->
  rnd64 (summin s) = summin s -> rnd64 (summax s) = summax s -> rnd64 (sum s) = sum s ->
  summin s <= sum s <= summax s -> 0 <= E ->
  Forall (fun fe => Rabs (snd fe) <= E) es ->
  r_sum_bound rnd64 (fold_left (fun st fe => pid_pos_ (Rnd_ops rnd64) st (fst fe) (snd fe)) es s) E.
Proof. exact (r_integrator_overshoot rnd64 mono_rnd_binary64 idem_rnd_binary64). Qed.

(* ------------------------------------------------------------ non-vacuity *)
(* a concrete state satisfying every hypothesis of the binary64 corollaries (all fields small integers, hence binary64
   numbers), driven beyond the upper clamp: the sum 10 = summax with err = -1 moves down to rnd64 (10 + rnd64 (1 * -1)) = 9 *)
Definition ex_state : pidR :=
  {| kp := 2; ki := 1; kd := 0; summax := 10; summin := -10; sum := 10; outmax := 100; outmin := -100;
     out := 0; var := 0; fdb := 0; err := 0 |}.

Example ex_state_hyps :
  0 <= ki ex_state /\ summin ex_state <= 0 <= summax ex_state /\ outmin ex_state <= outmax ex_state /\
  rnd64 (summin ex_state) = summin ex_state /\ rnd64 (summax ex_state) = summax ex_state /\
  rnd64 (sum ex_state) = sum ex_state /\ summin ex_state <= sum ex_state <= summax ex_state /\
  Forall (fun fe => Rabs (snd fe) <= 1) [(0, -1); (0, 1)].
Proof.
  cbn [ki summin summax outmin outmax sum ex_state].
  repeat split; try lra; try (apply (rnd64_IZR); simpl; lia).
  repeat constructor; cbn [snd]; [rewrite Rabs_left|rewrite Rabs_pos_eq]; lra.
Qed.

Example ex_state_moves_in : sum (pid_pos_ (Rnd_ops rnd64) ex_state 0 (-1)) = 9.
Proof.
  rewrite r_pos_sum_eq, (r_pos_integrates_eq rnd64 mono_rnd_binary64). cbn [ki summin summax sum ex_state].
  replace (10 * -1) with (IZR (-10)) by (simpl; lra). replace (1 * -1) with (IZR (-1)) by (simpl; lra).
  rewrite !rnd64_IZR by (simpl; lia).
  destruct (Rltb_spec (-10) 0); [|lra]. rewrite orb_true_r.
  replace (10 + -1) with (IZR 9) by (simpl; lra). apply rnd64_IZR. simpl; lia.
Qed.
