From Coq Require Import Reals ZArith List Lra Lia Bool.
From LibaV Require Import Common.NumOps Common.ROps C12.PidDefs.
Import ListNotations.
Local Open Scope R_scope.

Notation pidR := (pid (T := R)).
Notation neuroR := (neuro (T := R)).

(* ------------------------------------------------------------ the clamp *)
Lemma sat_range x lo hi : lo <= hi -> lo <= sat R_ops x lo hi <= hi.
Proof. intros H. unfold sat. unfold_ops. rcases; lra. Qed.

Lemma sat_id x lo hi : lo <= x <= hi -> sat R_ops x lo hi = x.
Proof. intros H. unfold sat. unfold_ops. rcases; lra. Qed.

Lemma sat_cases x lo hi : lo <= hi ->
  (x <= lo /\ sat R_ops x lo hi = lo) \/ (lo < x < hi /\ sat R_ops x lo hi = x) \/ (hi <= x /\ sat R_ops x lo hi = hi).
Proof. intros H. unfold sat. unfold_ops. rcases; lra. Qed.

(* parameters are never changed by a step *)
Definition same_params (s t : pidR) : Prop :=
  kp t = kp s /\ ki t = ki s /\ kd t = kd s /\ summax t = summax s /\ summin t = summin s /\
  outmax t = outmax s /\ outmin t = outmin s.

Inductive op := Run (set f : R) | Pos (set f : R) | Inc (set f : R).
Definition step (s : pidR) (o : op) : pidR :=
  match o with
  | Run a f => pid_run R_ops s a f
  | Pos a f => pid_pos R_ops s a f
  | Inc a f => pid_inc R_ops s a f
  end.

Lemma step_params s o : same_params s (step s o).
Proof. destruct o; unfold same_params; cbn; repeat split; reflexivity. Qed.

(* 1. output within the limits after EVERY step of EVERY history, all three modes, mixed arbitrarily *)
Lemma step_out_in_limits s o : outmin s <= outmax s -> outmin s <= out (step s o) <= outmax s.
Proof. intros H. destruct o; cbn; apply sat_range; exact H. Qed.

Theorem history_out_in_limits : forall (ops : list op) (s : pidR) (o : op),
  outmin s <= outmax s ->
  let s' := fold_left step (ops ++ [o]) s in
  outmin s <= out s' <= outmax s /\ same_params s s'.
Proof.
  induction ops as [|a ops IH]; intros s o H; cbv zeta.
  - cbn [app fold_left]. split; [apply step_out_in_limits; exact H|apply step_params].
  - cbn [app fold_left]. pose proof (step_params s a) as Hp.
    assert (H' : outmin (step s a) <= outmax (step s a)).
    { destruct Hp as (_&_&_&_&_&E1&E2). rewrite E1, E2. exact H. }
    specialize (IH (step s a) o H'). cbv zeta in IH. destruct IH as [IH1 IH2].
    destruct Hp as (P1&P2&P3&P4&P5&P6&P7). rewrite P6, P7 in IH1. split; [exact IH1|].
    destruct IH2 as (Q1&Q2&Q3&Q4&Q5&Q6&Q7). unfold same_params. repeat split; congruence.
Qed.

(* 2. the positional integrator: conditional integration *)
Definition pos_sum (s : pidR) (e : R) : R := sum (pid_pos_ R_ops s 0 e).

Lemma pos_sum_eq s f e : sum (pid_pos_ R_ops s f e) =
  if pos_integrates R_ops s e then sum s + ki s * e else sum s.
Proof. reflexivity. Qed.

(* once at or beyond a clamp the integrator never moves further out *)
Theorem integrator_no_further_out s f e :
  0 <= ki s -> summin s <= 0 <= summax s ->
  (summax s <= sum s -> sum (pid_pos_ R_ops s f e) <= sum s) /\
  (sum s <= summin s -> sum s <= sum (pid_pos_ R_ops s f e)).
Proof.
  intros Hki Hlim. rewrite pos_sum_eq. unfold pos_integrates. unfold_ops.
  split; intros Hs; rcases; cbn [andb orb]; try lra; destruct (Rle_dec 0 e); nra.
Qed.

(* hence it overshoots a clamp by at most one increment ki*|err|: invariant over every history of pos steps *)
Definition sum_bound (s : pidR) (E : R) : Prop := summin s - ki s * E <= sum s <= summax s + ki s * E.

Lemma pos_sum_bound s f e E :
  0 <= ki s -> summin s <= 0 <= summax s -> Rabs e <= E -> sum_bound s E -> sum_bound (pid_pos_ R_ops s f e) E.
Proof.
  intros Hki Hlim He Hb. unfold sum_bound in *.
  change (summin (pid_pos_ R_ops s f e)) with (summin s). change (summax (pid_pos_ R_ops s f e)) with (summax s).
  change (ki (pid_pos_ R_ops s f e)) with (ki s).
  rewrite pos_sum_eq. unfold pos_integrates. unfold_ops.
  assert (He' : - E <= e <= E).
  { unfold Rabs in He. destruct (Rcase_abs e); lra. }
  assert (HE : 0 <= E) by lra.
  rcases; cbn [andb orb]; try lra; destruct (Rle_dec 0 e); nra.
Qed.

Theorem integrator_overshoot : forall (es : list (R * R)) (s : pidR) (E : R),
  0 <= ki s -> summin s <= 0 <= summax s -> summin s <= sum s <= summax s -> 0 <= E ->
  Forall (fun fe => Rabs (snd fe) <= E) es ->
  sum_bound (fold_left (fun st fe => pid_pos_ R_ops st (fst fe) (snd fe)) es s) E.
Proof.
  intros es s E Hki Hlim Hs HE Hes.
  assert (Hb : sum_bound s E) by (unfold sum_bound; nra).
  clear Hs. revert s Hki Hlim Hb. induction es as [|fe r IH]; intros s Hki Hlim Hb; [exact Hb|].
  cbn [fold_left]. inversion Hes as [|? ? H1 H2]; subst. apply IH; try assumption.
  apply pos_sum_bound; assumption.
Qed.

(* 3. documented difference equations *)
Theorem pos_equation s f e : outmin s <= outmax s ->
  let s' := pid_pos_ R_ops s f e in
  out s' = sat R_ops (kp s * e + sum s' + kd s * (fdb s - f)) (outmin s) (outmax s) /\
  var s' = fdb s - f /\ fdb s' = f /\ err s' = e.
Proof. intros H. cbv zeta. repeat split; reflexivity. Qed.

Theorem inc_equation s f e :
  let s' := pid_inc_ R_ops s f e in
  out s' = sat R_ops (out s + (kp s * (e - err s) + ki s * e + kd s * ((fdb s - f) - var s))) (outmin s) (outmax s) /\
  var s' = fdb s - f /\ fdb s' = f /\ err s' = e /\ sum s' = sum s.
Proof. cbv zeta. repeat split; reflexivity. Qed.

(* 4. positional and incremental outputs coincide as long as no limit is active *)
Definition unsat (x : R) (s : pidR) : Prop := outmin s <= x <= outmax s.

(* "no limit active at this step" for the pair of controllers p (positional) and q (incremental) *)
Definition free_step (p q : pidR) (f e : R) : Prop :=
  pos_integrates R_ops p e = true /\
  unsat (kp p * e + (sum p + ki p * e) + kd p * (fdb p - f)) p /\
  unsat (out q + (kp q * (e - err q) + ki q * e + kd q * ((fdb q - f) - var q))) q.

Definition coupled (p q : pidR) : Prop :=
  same_params p q /\ var q = var p /\ fdb q = fdb p /\ err q = err p /\
  out q = kp p * err p + sum p + kd p * var p.

Lemma coupled_step p q f e : coupled p q -> free_step p q f e ->
  coupled (pid_pos_ R_ops p f e) (pid_inc_ R_ops q f e) /\ out (pid_inc_ R_ops q f e) = out (pid_pos_ R_ops p f e).
Proof.
  intros ((K1&K2&K3&K4&K5&K6&K7)&Cv&Cf&Ce&Co) (Hi&Hp&Hq).
  assert (Eo : out (pid_inc_ R_ops q f e) = out (pid_pos_ R_ops p f e)).
  { cbn [pid_pos_ pid_inc_ out upd]. rewrite Hi. unfold_ops.
    rewrite !sat_id.
    - rewrite K1, K2, K3, Cv, Cf, Ce, Co. ring.
    - exact Hp.
    - unfold unsat in Hq. exact Hq. }
  split; [|exact Eo].
  unfold coupled. split; [unfold same_params; cbn; repeat split; assumption|].
  split; [cbn; rewrite Cf; reflexivity|]. split; [reflexivity|]. split; [reflexivity|].
  rewrite Eo. cbn [pid_pos_ out upd kp sum kd var err]. rewrite Hi. unfold_ops.
  rewrite sat_id by exact Hp. reflexivity.
Qed.

Fixpoint free_history (p q : pidR) (h : list (R * R)) : Prop :=
  match h with
  | [] => True
  | (f, e) :: r => free_step p q f e /\ free_history (pid_pos_ R_ops p f e) (pid_inc_ R_ops q f e) r
  end.

Definition pos_trace (h : list (R * R)) (p : pidR) (acc : list pidR) : list pidR :=
  snd (fold_left (fun acc fe => let s := pid_pos_ R_ops (fst acc) (fst fe) (snd fe) in (s, snd acc ++ [s])) h (p, acc)).
Definition inc_trace (h : list (R * R)) (q : pidR) (acc : list pidR) : list pidR :=
  snd (fold_left (fun acc fe => let s := pid_inc_ R_ops (fst acc) (fst fe) (snd fe) in (s, snd acc ++ [s])) h (q, acc)).

Lemma pos_inc_coincide_gen : forall (h : list (R * R)) (p q : pidR) (ap aq : list pidR),
  coupled p q -> free_history p q h -> map (fun s => out s) ap = map (fun s => out s) aq ->
  map (fun s => out s) (pos_trace h p ap) = map (fun s => out s) (inc_trace h q aq).
Proof.
  unfold pos_trace, inc_trace.
  induction h as [|[f e] r IH]; intros p q ap aq Hc Hf Ha.
  - cbn. exact Ha.
  - cbn [fold_left fst snd]. cbn [free_history] in Hf. destruct Hf as [Hs Hr].
    destruct (coupled_step p q f e Hc Hs) as [Hc' Eo].
    apply IH; try assumption. rewrite !map_app. cbn [map]. rewrite Ha, Eo. reflexivity.
Qed.

Theorem pos_inc_coincide (h : list (R * R)) (p q : pidR) :
  coupled p q -> free_history p q h ->
  map (fun s => out s) (pos_trace h p []) = map (fun s => out s) (inc_trace h q []).
Proof. intros Hc Hf. apply pos_inc_coincide_gen; [assumption|assumption|reflexivity]. Qed.

(* a freshly zeroed pair with equal parameters is coupled *)
Lemma zero_coupled s : coupled (pid_zero R_ops s) (pid_zero R_ops s).
Proof.
  unfold coupled, same_params. cbn. unfold_ops. repeat split; try reflexivity. ring.
Qed.

(* 5. zeroing = freshly initialised (a_pid_init is a macro for a_pid_zero): the result does not depend on the
   dynamic state, and is idempotent *)
Theorem zero_is_fresh s t : same_params s t -> pid_zero R_ops s = pid_zero R_ops t.
Proof.
  intros (K1&K2&K3&K4&K5&K6&K7). unfold pid_zero, upd. rewrite K1, K2, K3, K4, K5, K6, K7. reflexivity.
Qed.

Theorem zero_idempotent s : pid_zero R_ops (pid_zero R_ops s) = pid_zero R_ops s.
Proof. reflexivity. Qed.

Theorem zero_then_same_future s t (ops : list op) : same_params s t ->
  fold_left step ops (pid_zero R_ops s) = fold_left step ops (pid_zero R_ops t).
Proof. intros H. rewrite (zero_is_fresh s t H). reflexivity. Qed.

(* ------------------------------------------------------------ single neuron *)
Lemma neuro_out_in_limits (n : neuroR) a f :
  outmin (npid n) <= outmax (npid n) ->
  outmin (npid n) <= out (npid (neuro_inc R_ops n a f)) <= outmax (npid n) /\
  outmin (npid n) <= out (npid (neuro_run R_ops n a f)) <= outmax (npid n).
Proof. intros H. split; cbn; apply sat_range; exact H. Qed.

Lemma c_abs_R x : c_abs R_ops x = Rabs x.
Proof. unfold c_abs. unfold_ops. rcases; [rewrite Rabs_left|rewrite Rabs_right]; lra. Qed.

(* definedness: the normalising denominator vanishes exactly when all three updated weights are zero *)
Theorem neuro_den_zero_iff a b c : neuro_den R_ops a b c = 0 <-> a = 0 /\ b = 0 /\ c = 0.
Proof.
  unfold neuro_den. rewrite !c_abs_R. unfold_ops. split.
  - intros H. pose proof (Rabs_pos a). pose proof (Rabs_pos b). pose proof (Rabs_pos c).
    assert (Rabs a = 0 /\ Rabs b = 0 /\ Rabs c = 0) as (Ha&Hb&Hc) by lra.
    repeat split; [destruct (Req_dec a 0) as [E|E]|destruct (Req_dec b 0) as [E|E]|destruct (Req_dec c 0) as [E|E]];
      try exact E; exfalso; apply Rabs_no_R0 in E; lra.
  - intros (->&->&->). rewrite Rabs_R0. lra.
Qed.

(* the clamp maps every value, defined or not, into the limits; no other state field receives the quotient *)
Theorem neuro_state_independent_of_quotient (n : neuroR) a f :
  let n' := neuro_inc R_ops n a f in
  let p := npid n in let e := a - f in
  wp n' = wp n + kp p * (e * out p) * nec n /\
  wi n' = wi n + ki p * (e * out p) * err p /\
  wd n' = wd n + kd p * (e * out p) * var p /\
  err (npid n') = e /\ fdb (npid n') = f /\ nec n' = e - err p /\ var (npid n') = (e - err p) - nec n.
Proof. cbv zeta. repeat split; reflexivity. Qed.

Example pos_inc_ex :
  let s := {| kp := 2; ki := 1; kd := 1/2; summax := 10; summin := -10; sum := 0; outmax := 100; outmin := -100;
              out := 0; var := 0; fdb := 0; err := 0 |} in
  free_history s s [(0, 1)] /\ coupled s s.
Proof.
  cbv zeta. split.
  - cbn [free_history]. split; [|exact I]. unfold free_step, pos_integrates, unsat.
    cbn [kp ki kd sum summin summax outmin outmax out var fdb err]. unfold_ops.
    split; [|split; lra].
    destruct (Rltb_spec (-10) 0); [|lra]. destruct (Rltb_spec 0 10); [|lra]. reflexivity.
  - unfold coupled, same_params. cbn [kp ki kd sum summin summax outmin outmax out var fdb err].
    repeat split; try reflexivity. ring.
Qed.
