From Coq Require Import NArith.
From LibaV Require Import C06.StrDefs C06.StrProofs.
Local Open Scope N_scope.

Theorem c06_placeholder : num str_init <= mem str_init.
Proof. exact init_num_le_mem. Qed.
Print Assumptions c06_placeholder.
