(* C06 -- Dynamic string equals an abstract byte string and stays NUL-terminated.
   Model: C06/StrDefs.v (tied to src/str.c by checks/C06.py).  Vocabulary: C06/StrSpec.v
   ([inv], [content], [terminated], [op_ok], [spec_ok], [step_refines], [step_terminates],
   [steps] = every (state, op, result) triple of a history).  Proofs: C06/StrProofs.v. *)
From Coq Require Import NArith ZArith List Bool.
From LibaV Require Import C06.StrDefs C06.StrSpec C06.StrProofs C06.StrBig C06.StrAccDefs C06.StrAccProofs.
From LibaV Require C18.UtfDefs.
Import ListNotations.
Local Open Scope N_scope.

(* Clause "its length never exceeds its capacity" (and: the capacity is the size of the heap
   block, no operation touches a byte outside its block) -- after every operation of every
   finite history from A_STR_INIT, under every allocator fault schedule [sc]. *)
Theorem str_inv :
  forall (sc : sched) (ops : list op), ops_ok ops (m_init sc) ->
  Forall (fun x : mstate * op * (mstate * ret * list ev) =>
            let '(_, _, (m1, r, _)) := x in
            (num (sA m1) <= mem (sA m1) /\ len (buf (sA m1)) = mem (sA m1)) /\
            (num (sB m1) <= mem (sB m1) /\ len (buf (sB m1)) = mem (sB m1)) /\
            r <> RFault)
         (steps ops (m_init sc)).
Proof. exact str_inv_all. Qed.
Print Assumptions str_inv.

(* Clause "content equals the abstract byte string produced by the same operations": every step
   of every history either reports an allocation failure and leaves both byte strings unchanged,
   or has the return value and the effect of the abstract operation [spec_ok] (append c / bytes /
   C string / other or same object / formatter text / UTF-8 code; pop; trim; length change;
   hand-over; comparison). *)
Theorem str_refines_bytes :
  forall (sc : sched) (ops : list op), ops_ok ops (m_init sc) ->
  Forall (fun x : mstate * op * (mstate * ret * list ev) =>
            let '(m0, o, (m1, r, e)) := x in
            r <> RFault /\
            if any_failed e then abs m1 = abs m0 /\ fail_ret o = Some r
            else spec_ok o m0 r (abs m1))
         (steps ops (m_init sc)).
Proof. exact str_refines_all. Qed.
Print Assumptions str_refines_bytes.

(* Clause "the terminating variants leave a NUL byte directly after the content inside the
   capacity": a_str_catc/catn/cats/cat/catf, a_utf_catc always when they succeed;
   a_str_getc/getn/rtrim/ltrim/trim whenever they shortened the string. *)
Theorem str_terminated :
  forall (sc : sched) (ops : list op), ops_ok ops (m_init sc) ->
  Forall (fun x : mstate * op * (mstate * ret * list ev) =>
            let '(m0, o, (m1, _, e)) := x in
            match term_target o with
            | Some (t, always) =>
                any_failed e = false ->
                always = true \/ num (sel t m1) < num (sel t m0) ->
                num (sel t m1) < mem (sel t m1) /\ get (num (sel t m1)) (buf (sel t m1)) = Some 0
            | None => True
            end)
         (steps ops (m_init sc)).
Proof. exact str_terminated_all. Qed.
Print Assumptions str_terminated.

(* One step, from any state satisfying the invariant (not only reachable ones). *)
Theorem str_step :
  forall o m m' r e, minv m -> op_ok o m -> step o m = (m', r, e) ->
  minv m' /\ step_refines o m m' r e /\ step_terminates o m m' e.
Proof. exact step_good. Qed.
Print Assumptions str_step.

(* Clause "formatted append appends exactly what the C formatter produces and returns that
   length" ([out] = the formatter's output, [vsn] = the assumed vsnprintf contract), whether the
   text fits the spare room (one pass) or not (measure, grow, format again). *)
Theorem catf_appends_formatter_output :
  forall t out m m' r e,
  minv m -> fits (sel t m) (len out + 1) -> len out < 2147483647 ->
  step (OCatf t out) m = (m', r, e) -> any_failed e = false ->
  r = RInt (Z.of_N (len out)) /\
  content (sel t m') = content (sel t m) ++ out /\
  content (oth t m') = content (oth t m) /\
  terminated (sel t m').
Proof. exact catf_exact. Qed.
Print Assumptions catf_appends_formatter_output.

(* Clause "the comparison functions order strings like bytewise lexicographic comparison with
   length as tie-break" (sign of a_str_cmp / a_str_cmpn / a_str_cmps; NULL/empty operands
   included: [inv] allows ptr = None). *)
Theorem cmp_sign :
  forall l r d, inv l -> inv r ->
  cmp l r = Some (lex_cmp (content l) (content r)) /\
  cmpn l d = Some (lex_cmp (content l) d) /\
  cmps l d = Some (lex_cmp (content l) (cstr d)).
Proof. exact cmp_sign_all. Qed.
Print Assumptions cmp_sign.

(* ... where lex_cmp is the lexicographic order on byte lists: 0 exactly on equal strings,
   antisymmetric, a proper prefix is smaller, otherwise the first differing byte decides. *)
Theorem lex_cmp_lexicographic :
  (forall a b, lex_cmp a b = 0%Z <-> a = b) /\
  (forall a b, lex_cmp b a = (- lex_cmp a b)%Z) /\
  (forall a x t, lex_cmp a (a ++ x :: t) = (-1)%Z) /\
  (forall p x y a b, x < y -> lex_cmp (p ++ x :: a) (p ++ y :: b) = (-1)%Z).
Proof. exact lex_cmp_is_lexicographic. Qed.
Print Assumptions lex_cmp_lexicographic.

(* Trim: what [spec_ok] calls lstrip / rstrip removes the maximal prefix / suffix over the set
   (the all-trimmed case is lstrip f l = [] / rstrip f l = []). *)
Theorem trim_spec :
  forall f l,
  (exists pre, l = pre ++ lstrip f l /\ forallb f pre = true /\
               match lstrip f l with [] => True | x :: _ => f x = false end) /\
  (exists suf, l = rstrip f l ++ suf /\ forallb f suf = true /\
               match rev (rstrip f l) with [] => True | x :: _ => f x = false end).
Proof. exact strip_maximal. Qed.
Print Assumptions trim_spec.

(* Ownership hand-over (a_str_exit with proposed_fixes/C06-1.diff): the caller receives the
   content followed by a NUL inside the block, the object is reset; if no room for the NUL can be
   allocated NULL is returned and the object keeps its content. *)
Theorem exit_handover :
  forall s sc b0, inv s -> fits s 1 -> ptr s = Some b0 ->
  exists r s' sc' e, exit s sc = Some (r, s', sc', e) /\
    (any_failed e = false ->
       s' = str_init /\
       exists blk, r = Some blk /\ take (num s + 1) blk = content s ++ [0] /\ num s < len blk) /\
    (any_failed e = true -> r = None /\ inv s' /\ content s' = content s).
Proof. exact StrProofs.exit_handover. Qed.
Print Assumptions exit_handover.

(* The code as found (before the proposed fixes) does not have the property: *)
(* a_str_exit stores the NUL at ptr_[num_] one past the block when num_ = mem_ *)
Theorem exit_as_found_refuted : exists s, inv s /\ exit_orig s = None.
Proof. exact exit_orig_refuted. Qed.
Print Assumptions exit_as_found_refuted.

(* a_str_cat(ctx, ctx) reads the block that its own reservation has just moved *)
Theorem cat_self_as_found_refuted : exists s, inv s /\ terminated s /\ cat_self_orig_uaf s [] = true.
Proof. exact cat_self_orig_refuted. Qed.
Print Assumptions cat_self_as_found_refuted.

(* The size precondition in [op_ok] is necessary: a_size_up wraps for requests above 2^64-8,
   a_str_setm then frees the block, reports success and leaves num_ > mem_. *)
Theorem inv_without_size_bound_refuted :
  exists m o, minv m /\ ~ op_ok o m /\
              let '(m', r, _) := step o m in r = RInt A_SUCCESS /\ ~ minv m'.
Proof. exact setm_wrap_refuted. Qed.
Print Assumptions inv_without_size_bound_refuted.

(* Comparison with a very long operand: for EVERY length n (2^31, 2^32 and beyond included) comparing with n zero
   bytes has the closed form [cmpn_zeros], which never builds more than [num s] bytes - this is what the check runs
   against a_str_cmpn called with a sparse zero mapping of more than 4 GiB ... *)
Theorem cmpn_long_operand_closed_form : forall s n, cmpn s (zeros n) = cmpn_zeros s n.
Proof. exact cmpn_zeros_ok. Qed.
Print Assumptions cmpn_long_operand_closed_form.

(* ... and when the content is a prefix of the operand the result is the sign of the length difference, whatever its
   size: the tie-break is not computed in a type narrower than a_size. *)
Theorem cmp_length_tie_break_any_size : forall a n m, (forall x, In x (take n a) -> x = 0) -> n <= len a ->
  cmpn_zeros (mkStr (Some a) n (len a)) m = Some (lencmp n m).
Proof. exact cmpn_zeros_prefix. Qed.
Print Assumptions cmp_length_tie_break_any_size.

(* The read-only accessors of str.h (model: C06/StrAccDefs.v, printed by both drivers after every operation as the
   `q=` token) on any object satisfying the invariant, hence after every operation of every history (str_inv):
   a_str_len / a_str_mem / a_str_ptr return the fields; a_str_at_ (precondition idx < mem_) and a_str_at give the
   address of byte idx of the block, a_str_at gives NULL from mem_ on; a_str_of counts non-negative indices from the
   start and negative ones from the end of the content (-1 = last byte) and gives NULL outside -num_ .. mem_ - 1.
   No case is undefined pointer arithmetic ([AFault]). *)
Theorem str_accessors :
  forall s, inv s ->
  str_len s = num s /\ str_mem s = mem s /\
  str_ptr s = match ptr s with Some _ => AOff 0 | None => ANull end /\
  (forall idx, idx < mem s -> str_at_ s idx = AOff idx) /\
  (forall idx, str_at s idx = if idx <? mem s then AOff idx else ANull) /\
  (forall idx, (- 9223372036854775808 <= idx < 9223372036854775808)%Z ->
               mem s <= 9223372036854775808 ->
     str_of s idx =
       if (0 <=? idx)%Z then (if Z.to_N idx <? mem s then AOff (Z.to_N idx) else ANull)
       else if (- Z.of_N (num s) <=? idx)%Z then AOff (Z.to_N (Z.of_N (num s) + idx))
            else ANull).
Proof. exact accessors_all. Qed.
Print Assumptions str_accessors.

(* a_utf_len(ctx, stop) never reads outside the content and returns the number c of positive lengths the UTF-8
   decoder reports from the start of the content before it first reports 0 (end, NUL or undecodable byte), storing
   their sum k <= num_ in *stop when stop is not NULL (walk: coq/C18/UtfDefs.v). *)
Theorem utf_len_walks_the_content :
  forall s w, inv s -> UtfDefs.bytes_ok (buf s) ->
  exists c k,
    utf_len s w = UtfDefs.NRet c (if w then Some k else None) /\
    UtfDefs.walk (buf s) (num s) c k /\ k <= num s /\ c <= k.
Proof. exact utf_len_inv. Qed.
Print Assumptions utf_len_walks_the_content.
