(* Lemmas used by the all-dimensions translator tie of C09 (harness/C09/TieLoop*.v).  Nothing here mentions generated code.
   while_tie: a function G given by its one-pass unfolding equation (which is what a generated loop Fixpoint satisfies by
   computation) agrees with the model's [while] whenever a measure decreases along the body - so that the fuel of neither side
   runs out - the model's OutOfFuel / OutOfBounds being the generated program's None.  Then the facts that make the model's
   wrapping offset arithmetic and the generated program's checked arithmetic meet: under U32 dimensions nothing wraps. *)
From Coq Require Import List Arith Bool Lia NArith.
From LibaV Require Import C09.LinalgDefs C09.LinalgSpec C09.LinalgLemmas.
Import ListNotations.

Definition ores {A B} (f : A -> B) (r : res A) : option B := match r with Ok a => Some (f a) | _ => None end.

Lemma while_tie {S R : Type} (G : nat -> S -> option R) (cond : S -> bool) (body : S -> res S) (rho : S -> R)
      (mu : S -> nat) (Inv : S -> Prop) :
  (forall f s, Inv s -> G (Datatypes.S f) s = if cond s then match body s with Ok s' => G f s' | _ => None end else Some (rho s)) ->
  (forall s s', Inv s -> cond s = true -> body s = Ok s' -> Inv s' /\ mu s' < mu s) ->
  forall fg fm s, Inv s -> mu s < fg -> mu s <= fm -> G fg s = ores rho (while fm cond body s).
Proof.
  intros Hstep Hdec. induction fg as [|fg IH]; intros fm s Hi Hg Hm; [lia|].
  rewrite (Hstep fg s Hi). destruct (cond s) eqn:Ec.
  - destruct (body s) as [s'| |] eqn:Eb.
    + destruct (Hdec s s' Hi Ec Eb) as [Hi' Hlt]. destruct fm as [|fm]; [lia|].
      cbn [while]. rewrite Ec, Eb. cbn [bind]. apply IH; [exact Hi'|lia|lia].
    + destruct fm as [|fm]; cbn [while]; rewrite Ec; [reflexivity|]. rewrite Eb. reflexivity.
    + destruct fm as [|fm]; cbn [while]; rewrite Ec; [reflexivity|]. rewrite Eb. reflexivity.
  - rewrite (while_false fm cond body s Ec). reflexivity.
Qed.

(* a_size sums and products of a_uint values do not wrap *)
Lemma U32_mul_64 a b : U32 a -> U32 b -> (N.of_nat (a * b) < 18446744073709551616)%N.
Proof.
  unfold U32. intros Ha Hb. rewrite Nat2N.inj_mul. change 18446744073709551616%N with (4294967296 * 4294967296)%N.
  apply N.mul_lt_mono; assumption.
Qed.
Lemma U32_muladd_64 a b c : U32 a -> U32 b -> U32 c -> (N.of_nat (a * b + c) < 18446744073709551616)%N.
Proof.
  unfold U32. intros Ha Hb Hc. rewrite Nat2N.inj_add, Nat2N.inj_mul.
  assert (H : (N.of_nat a * N.of_nat b <= 4294967295 * 4294967295)%N) by (apply N.mul_le_mono; lia). lia.
Qed.
Lemma sz_mul_u32 a b : U32 a -> U32 b -> sz_mul a b = a * b.
Proof. intros Ha Hb. apply sz_mul_id; [apply U32_le; exact Ha|exact Hb]. Qed.
Lemma sz_muladd_u32 a b c : U32 a -> U32 b -> U32 c -> sz_add (a * b) c = a * b + c.
Proof. intros Ha Hb Hc. unfold sz_add. apply wrap64_id. apply U32_muladd_64; assumption. Qed.
Lemma U32_S c n : c < n -> U32 n -> U32 (c + 1).
Proof. unfold U32. intros H Hn. lia. Qed.

(* the model's total update *)
Lemma upd_is_splice {T} (l : list T) : forall i v, i < length l -> LinalgDefs.upd T i v l = firstn i l ++ v :: skipn (Datatypes.S i) l.
Proof.
  induction l as [|h t IH]; intros i v Hi; [cbn [length] in Hi; lia|].
  destruct i as [|i]; [reflexivity|]. cbn [LinalgDefs.upd firstn skipn app]. rewrite IH by (cbn [length] in Hi; lia). reflexivity.
Qed.

(* what a finished [while] tells: the condition is false, and an invariant of the body holds *)
Lemma while_exit {S : Type} (cond : S -> bool) body : forall fuel (s s' : S), while fuel cond body s = Ok s' -> cond s' = false.
Proof.
  induction fuel as [|f IH]; intros s s' H; cbn [while] in H; destruct (cond s) eqn:E; try discriminate H.
  - injection H as <-. exact E.
  - destruct (body s) as [s1| |]; try discriminate H. cbn [bind] in H. apply (IH _ _ H).
  - injection H as <-. exact E.
Qed.
Lemma while_inv {S : Type} (P : S -> Prop) (cond : S -> bool) body :
  (forall s s', P s -> cond s = true -> body s = Ok s' -> P s') ->
  forall fuel (s s' : S), P s -> while fuel cond body s = Ok s' -> P s'.
Proof.
  intros Hp. induction fuel as [|f IH]; intros s s' Ps H; cbn [while] in H; destruct (cond s) eqn:E; try discriminate H.
  - injection H as <-. exact Ps.
  - destruct (body s) as [s1| |] eqn:Eb; try discriminate H. cbn [bind] in H. apply (IH s1 s' (Hp _ _ Ps E Eb) H).
  - injection H as <-. exact Ps.
Qed.

(* the counter of a finished cell-filling loop *)
Lemma fillc_lt_exit {T} fuel hi (val : nat -> res T) c E b c' E' b' :
  fillc T fuel (fun c => c <? hi) val (c, E, b) = Ok (c', E', b') -> c <= hi -> c' = hi.
Proof.
  unfold fillc. intros H Hc.
  pose proof (while_exit _ _ _ _ _ H) as Hx. cbn in Hx. apply Nat.ltb_ge in Hx.
  assert (Hi : c' <= hi).
  { refine (while_inv (fun s : nat * nat * buf T => fst (fst s) <= hi) _ _ _ fuel (c, E, b) (c', E', b') Hc H).
    intros [[c0 E0] b0] s' P0 C0 B0. apply Nat.ltb_lt in C0. cbn [fst] in *.
    destruct (val c0) as [v| |]; try discriminate B0. cbn [bind] in B0. destruct (store T E0 v b0) as [b1| |]; try discriminate B0.
    injection B0 as <-. cbn [fst]. lia. }
  cbn [fst] in Hi. lia.
Qed.
Lemma fillc_le_exit {T} fuel hi (val : nat -> res T) c E b c' E' b' :
  fillc T fuel (fun c => c <=? hi) val (c, E, b) = Ok (c', E', b') -> c <= S hi -> c' = S hi.
Proof.
  unfold fillc. intros H Hc.
  pose proof (while_exit _ _ _ _ _ H) as Hx. cbn in Hx. apply Nat.leb_gt in Hx.
  assert (Hi : c' <= S hi).
  { refine (while_inv (fun s : nat * nat * buf T => fst (fst s) <= S hi) _ _ _ fuel (c, E, b) (c', E', b') Hc H).
    intros [[c0 E0] b0] s' P0 C0 B0. apply Nat.leb_le in C0. cbn [fst] in *.
    destruct (val c0) as [v| |]; try discriminate B0. cbn [bind] in B0. destruct (store T E0 v b0) as [b1| |]; try discriminate B0.
    injection B0 as <-. cbn [fst]. lia. }
  cbn [fst] in Hi. lia.
Qed.

(* N = (a_size)n + 1 times an a_uint *)
Lemma U32_succ_mul_64 n r : U32 n -> U32 r -> (N.of_nat ((n + 1) * r) < 18446744073709551616)%N.
Proof.
  unfold U32. intros Hn Hr. rewrite Nat2N.inj_mul.
  assert (H : (N.of_nat (n + 1) * N.of_nat r <= 4294967296 * 4294967295)%N) by (apply N.mul_le_mono; lia). lia.
Qed.
Lemma sz_diag_off n r : U32 n -> U32 r -> sz_mul (sz_add n 1) r = (n + 1) * r.
Proof.
  intros Hn Hr. destruct (sz_succ_id n Hn) as [E L]. rewrite E. apply sz_mul_id; assumption.
Qed.

(* the counter of the finished zeroing loops of a_real_diag *)
Lemma diag_zero_exit {T} (zero : T) fuel hi Ap c b c' b' :
  while fuel (fun '(c, _) => c <? hi) (diag_zero T zero Ap) (c, b) = Ok (c', b') -> c <= hi -> c' = hi.
Proof.
  intros H Hc.
  pose proof (while_exit _ _ _ _ _ H) as Hx. cbn in Hx. apply Nat.ltb_ge in Hx.
  assert (Hi : c' <= hi).
  { refine (while_inv (fun s : nat * buf T => fst s <= hi) _ _ _ fuel (c, b) (c', b') Hc H).
    intros [c0 b0] s' P0 C0 B0. apply Nat.ltb_lt in C0. cbn [fst] in *. unfold diag_zero in B0.
    destruct (store T (Ap + c0) zero b0) as [b1| |]; try discriminate B0. injection B0 as <-. cbn [fst]. lia. }
  cbn [fst] in Hi. lia.
Qed.

(* passes left in a loop whose cursor advances by n >= 1 per pass up to hi (the measure of the strided loops of the products) *)
Definition steps (hi y n : nat) : nat := (hi - y + (n - 1)) / n.

Lemma steps_dec n hi y : 1 <= n -> y < hi -> steps hi (y + n) n < steps hi y n.
Proof.
  intros Hn Hy. unfold steps. destruct (Nat.le_gt_cases n (hi - y)) as [Hge|Hlt].
  - replace (hi - y + (n - 1)) with ((hi - (y + n) + (n - 1)) + 1 * n) by lia.
    rewrite Nat.div_add by lia. lia.
  - replace (hi - (y + n)) with 0 by lia. rewrite Nat.div_small by lia.
    apply Nat.div_str_pos. lia.
Qed.
Lemma steps_le_mul n k y : 1 <= n -> steps (k * n) y n <= k.
Proof.
  intros Hn. unfold steps. apply Nat.lt_succ_r. apply Nat.div_lt_upper_bound; [lia|]. nia.
Qed.
Lemma steps_le_diff n hi y : 1 <= n -> steps hi y n <= hi - y.
Proof.
  intros Hn. unfold steps. destruct (Nat.eq_dec (hi - y) 0) as [E|E].
  - rewrite E. cbn [Nat.add]. rewrite Nat.div_small by lia. lia.
  - apply Nat.lt_succ_r. apply Nat.div_lt_upper_bound; [lia|]. nia.
Qed.

(* the dot-product loop of a_real_mulmT advances x and y together: where it stops *)
Lemma mulmT_k_exit {T} (add mul : T -> T -> T) (X Y : list T) (zc x_ : nat) fuel x y b x' y' b' :
  while fuel (fun '(x, _, _) => x <? x_) (mulmT_k T add mul X Y zc) (x, y, b) = Ok (x', y', b') -> x <= x_ ->
  x' = x_ /\ y' = y + (x_ - x).
Proof.
  intros H Hx.
  pose proof (while_exit _ _ _ _ _ H) as Hq. cbn in Hq. apply Nat.ltb_ge in Hq.
  assert (Hi : x' <= x_ /\ y' + x = y + x').
  { refine (while_inv (fun s : nat * nat * buf T => fst (fst s) <= x_ /\ snd (fst s) + x = y + fst (fst s)) _ _ _ fuel (x, y, b) (x', y', b') _ H).
    - intros [[x0 y0] b0] s' [P1 P2] C0 B0. apply Nat.ltb_lt in C0. cbn [fst snd] in *. unfold mulmT_k in B0.
      destruct (mac T add mul X Y x0 y0 zc b0) as [b1| |]; try discriminate B0. cbn [bind] in B0. injection B0 as <-. cbn [fst snd]. lia.
    - cbn [fst snd]. lia. }
  cbn [fst snd] in Hi. lia.
Qed.
