(* C09 - specification vocabulary used in the statements of Properties_C09.v.
   NO PROOFS IN THIS FILE. *)
From Coq Require Import List Arith NArith.

Section Spec.
  Variable T : Type.
  Variables (zero : T) (add : T -> T -> T).

  (* sum_{t < k} f t, accumulated from zero in increasing t
     (over a commutative ring: the usual finite sum; the order only matters
     for the floating-point instance, where it is the C's order) *)
  Fixpoint dotsum (k : nat) (f : nat -> T) : T :=
    match k with
    | O => zero
    | S k' => add (dotsum k' f) (f k')
    end.

  (* entry (r, c) of a row-major array with ncol columns *)
  Definition ent (ncol : nat) (l : list T) (r c : nat) : T := nth (r * ncol + c) l zero.
End Spec.

(* x is a value of the C type a_uint (32 bit).  Stated through binary N so that no
   unary 2^32 is ever built. *)
Definition U32 (x : nat) : Prop := (N.of_nat x < 4294967296)%N.
