(* C09 - executable model of /repo/src/linalg.c (a_real_T1 ... a_real_mulTT).

   NO PROOFS IN THIS FILE.

   Conventions of the model
   ------------------------
   * The element type T and its operations (zero one add mul) are section
     variables: the same Gallina term is run with Z (exact, extracted to OCaml
     for the correspondence check), with primitive binary64 floats (bit-exact
     run under vm_compute) and is the subject of the theorems (arbitrary T;
     ring laws only where a theorem says so).
   * A C array is a list; a C pointer into an array is a [nat] offset from
     the start of that array (the "cursor").  The cursors are advanced exactly
     as the C advances its pointers ( *E++, A += n, Z = z, y += n, ... ); loop
     conditions are the C's comparisons on counters / cursors.
   * `__restrict` input arrays are plain lists (they cannot be written by
     construction); the result array is a [buf]: its cells and a counter of
     the writes performed.  Reads and writes are bounds-checked: any access
     outside the array makes the whole call return [OutOfBounds].
   * Every C loop is a [while] with the C's condition and body.  [while]
     takes fuel; running out of fuel is the explicit result [OutOfFuel]
     (the theorems prove it never happens, they do not assume it).
   * INTEGER WIDTHS.  Values are carried in [nat], but every integer
     expression from which the C computes an array offset is evaluated with
     the C's type after the usual arithmetic conversions: [u32_add] is
     a_uint + a_uint (32 bit, wraps mod 2^32); [sz_add] / [sz_mul] are a_size
     (64 bit, wrap mod 2^64); `(a_size)x` of an a_uint is value preserving.
     Sites: (a_size)n * r, (a_size)n * c (T1); (a_size)m * c, (a_size)n * r,
     mc + r, nr + c (T2); N = (a_size)n + 1 and N * r, N * i (diag, diag1,
     diag2); (a_size)row * col, (a_size)col * c_r (products); c = r + 1 (T1).
     The wrap is computed through binary [N] so it stays executable; the
     theorems assume only that the dimensions are a_uint values (< 2^32) and
     PROVE that none of these computations wraps (LinalgLemmas: sz_mul_id ...).
     Pointer arithmetic ( *E++, A += n, x_ = x + c_r, Ac[r], ... ) is an offset
     in elements from the array start ([nat], no wrap: C pointer arithmetic
     inside an existing array).  Loop counters (++r, ++c) are bounded by their
     loop guard (c < n with n an a_uint), see [u32_inc_id].  The
     post-decrement `row--` is modelled as "test row != 0, then row - 1"
     (the final wrap to UINT_MAX is dead).
     Huge, sparsely touched arrays (diag1/diag2 around the 2^32-cell boundary)
     are run through the N-indexed variant in LinalgWide.v.
   * `while (++c < n) body`  is modelled as  `c := c+1; while (c < n) { body; c := c+1 }`.
   * Where the C repeats a row body verbatim in the square and the
     rectangular routine (eye1/eye2, tri1/tri2, triL/triL2, triU/triU2) the
     model shares one definition of that row body.  *)

From Coq Require Import List Arith Bool ZArith.
Import ListNotations.

Inductive res (A : Type) : Type :=
| Ok (a : A)
| OutOfFuel
| OutOfBounds.
Arguments Ok {A} a.
Arguments OutOfFuel {A}.
Arguments OutOfBounds {A}.

Definition bind {A B : Type} (x : res A) (f : A -> res B) : res B :=
  match x with
  | Ok a => f a
  | OutOfFuel => OutOfFuel
  | OutOfBounds => OutOfBounds
  end.

Notation "x <- e ;; k" := (bind e (fun x => k))
  (at level 61, e at next level, right associativity).
Notation "' p <- e ;; k" := (bind e (fun p => k))
  (at level 61, p pattern, e at next level, right associativity).

(* while (cond s) { s = body s }   -- the condition is tested first, as in C *)
Fixpoint while {S : Type} (fuel : nat) (cond : S -> bool) (body : S -> res S) (s : S)
  {struct fuel} : res S :=
  if cond s then
    match fuel with
    | O => OutOfFuel
    | S f => s' <- body s ;; while f cond body s'
    end
  else Ok s.

(* C integer arithmetic on the values carried in nat (computed through binary N:
   executable without ever building 2^32 in unary) *)
Definition wrap32 (x : nat) : nat := N.to_nat (N.modulo (N.of_nat x) 4294967296%N).
Definition wrap64 (x : nat) : nat := N.to_nat (N.modulo (N.of_nat x) 18446744073709551616%N).
Definition u32_add (a b : nat) : nat := wrap32 (a + b).    (* a_uint + a_uint *)
Definition sz_add (a b : nat) : nat := wrap64 (a + b).     (* a_size + a_size *)
Definition sz_mul (a b : nat) : nat := wrap64 (a * b).     (* a_size * a_size *)

(* A_MIN(x, y) = (((x) < (y)) ? (x) : (y)) *)
Definition amin (x y : nat) : nat := if x <? y then x else y.

Section Model.
  Variable T : Type.
  Variables (zero one : T) (add mul : T -> T -> T).

  Record buf : Type := mkbuf { cells : list T; nwr : nat }.

  Fixpoint upd (i : nat) (v : T) (l : list T) {struct l} : list T :=
    match l with
    | [] => []
    | h :: t => match i with
                | O => v :: t
                | S i' => h :: upd i' v t
                end
    end.

  (* bounds-checked read of an array *)
  Definition load (l : list T) (i : nat) : res T :=
    match nth_error l i with
    | Some v => Ok v
    | None => OutOfBounds
    end.

  (* bounds-checked write into the result array; counts the write *)
  Definition store (i : nat) (v : T) (b : buf) : res buf :=
    if i <? length (cells b)
    then Ok (mkbuf (upd i v (cells b)) (S (nwr b)))
    else OutOfBounds.

  (* ---------------------------------------------------------------- *)
  (* for (...; cond c; ++c) { *E++ = val c; }     state (c, E, b)        *)
  Definition fillc (fuel : nat) (cond : nat -> bool) (val : nat -> res T)
             (s : nat * nat * buf) : res (nat * nat * buf) :=
    while fuel (fun '(c, E, b) => cond c)
      (fun '(c, E, b) =>
         v <- val c ;;
         b <- store E v b ;;
         Ok (S c, S E, b))
      s.

  (* ------------------------------------------------------------ T1 *)
  Definition T1_inner (n r : nat) (s : nat * buf) : res (nat * buf) :=
    let '(c, A) := s in
    let Ar := sz_mul n r in                    (* A + (a_size)n * r *)
    let Ac := sz_mul n c in                    (* A + (a_size)n * c *)
    value <- load (cells A) (Ac + r) ;;        (* value = Ac[r]   *)
    t <- load (cells A) (Ar + c) ;;
    A <- store (Ac + r) t A ;;                 (* Ac[r] = Ar[c]   *)
    A <- store (Ar + c) value A ;;             (* Ar[c] = value   *)
    Ok (S c, A).

  Definition T1_row (n : nat) (s : nat * buf) : res (nat * buf) :=
    let '(r, A) := s in
    '(_, A) <- while n (fun '(c, _) => c <? n) (T1_inner n r) (u32_add r 1, A) ;;   (* c = r + 1 *)
    Ok (S r, A).

  Definition T1 (n : nat) (A : buf) : res buf :=
    '(_, A) <- while n (fun '(r, _) => r <? n) (T1_row n) (0, A) ;;
    Ok A.

  (* ------------------------------------------------------------ T2 *)
  Definition T2_inner (m n c : nat) (A : list T) (s : nat * buf) : res (nat * buf) :=
    let '(r, Tb) := s in
    let mc := sz_mul m c in                    (* (a_size)m * c *)
    let nr := sz_mul n r in                    (* (a_size)n * r *)
    v <- load A (sz_add nr c) ;;
    Tb <- store (sz_add mc r) v Tb ;;               (* T[mc + r] = A[nr + c] *)
    Ok (S r, Tb).

  Definition T2_col (m n : nat) (A : list T) (s : nat * buf) : res (nat * buf) :=
    let '(c, Tb) := s in
    '(_, Tb) <- while m (fun '(r, _) => r <? m) (T2_inner m n c A) (0, Tb) ;;
    Ok (S c, Tb).

  Definition T2 (m n : nat) (A : list T) (Tb : buf) : res buf :=
    '(_, Tb) <- while n (fun '(c, _) => c <? n) (T2_col m n A) (0, Tb) ;;
    Ok Tb.

  (* ----------------------------------------------------- eye1, eye2 *)
  (* state of the row loops of the pattern generators: (r, E, b) *)
  Definition eye_row (n : nat) (s : nat * nat * buf) : res (nat * nat * buf) :=
    let '(r, E, b) := s in
    '(c, E, b) <- fillc r (fun c => c <? r) (fun _ => Ok zero) (0, E, b) ;;
    b <- store E one b ;;                      (* *E++ = 1 *)
    let E := S E in
    '(_, E, b) <- fillc n (fun c => c <? n) (fun _ => Ok zero) (S c, E, b) ;;  (* while (++c < n) *)
    Ok (S r, E, b).

  (* for (r = n; r < m; ++r) for (c = 0; c < n; ++c) *E++ = v;   (second block of eye2/tri2/triU2) *)
  Definition const_row (n : nat) (v : T) (s : nat * nat * buf) : res (nat * nat * buf) :=
    let '(r, E, b) := s in
    '(_, E, b) <- fillc n (fun c => c <? n) (fun _ => Ok v) (0, E, b) ;;
    Ok (S r, E, b).

  Definition eye1 (n : nat) (b : buf) : res buf :=
    '(_, _, b) <- while n (fun '(r, _, _) => r <? n) (eye_row n) (0, 0, b) ;;
    Ok b.

  Definition eye2 (m n : nat) (b : buf) : res buf :=
    let M := amin m n in
    '(_, E, b) <- while M (fun '(r, _, _) => r <? M) (eye_row n) (0, 0, b) ;;
    '(_, _, b) <- while m (fun '(r, _, _) => r <? m) (const_row n zero) (n, E, b) ;;
    Ok b.

  (* ----------------------------------------------------- tri1, tri2 *)
  Definition tri_row (n : nat) (s : nat * nat * buf) : res (nat * nat * buf) :=
    let '(r, L, b) := s in
    '(c, L, b) <- fillc (S r) (fun c => c <=? r) (fun _ => Ok one) (0, L, b) ;;
    '(_, L, b) <- fillc n (fun c => c <? n) (fun _ => Ok zero) (c, L, b) ;;
    Ok (S r, L, b).

  Definition tri1 (n : nat) (b : buf) : res buf :=
    '(_, _, b) <- while n (fun '(r, _, _) => r <? n) (tri_row n) (0, 0, b) ;;
    Ok b.

  Definition tri2 (m n : nat) (b : buf) : res buf :=
    let M := amin m n in
    '(_, L, b) <- while M (fun '(r, _, _) => r <? M) (tri_row n) (0, 0, b) ;;
    '(_, _, b) <- while m (fun '(r, _, _) => r <? m) (const_row n one) (n, L, b) ;;
    Ok b.

  (* ------------------------------------------- diag, diag1, diag2 *)
  Definition diag_set (n : nat) (a : list T) (s : nat * buf) : res (nat * buf) :=
    let '(r, b) := s in
    let N := sz_add n 1 in                     (* a_size const N = (a_size)n + 1 *)
    v <- load a r ;;
    b <- store (sz_mul N r) v b ;;                  (* A[N * r] = a[r] *)
    Ok (S r, b).

  (* A[c] = 0 with A the moving row pointer (offset Ap) *)
  Definition diag_zero (Ap : nat) (s : nat * buf) : res (nat * buf) :=
    let '(c, b) := s in
    b <- store (Ap + c) zero b ;;
    Ok (S c, b).

  Definition diag_row (n : nat) (s : nat * nat * buf) : res (nat * nat * buf) :=
    let '(r, Ap, b) := s in
    '(c, b) <- while r (fun '(c, _) => c <? r) (diag_zero Ap) (0, b) ;;
    '(_, b) <- while n (fun '(c, _) => c <? n) (diag_zero Ap) (S c, b) ;;   (* while (++c < n) *)
    Ok (S r, Ap + n, b).                       (* A += n *)

  Definition diag (n : nat) (a : list T) (b : buf) : res buf :=
    '(_, b) <- while n (fun '(r, _) => r <? n) (diag_set n a) (0, b) ;;
    '(_, _, b) <- while n (fun '(r, _, _) => r <? n) (diag_row n) (0, 0, b) ;;
    Ok b.

  Definition diag_get (n : nat) (A : list T) (s : nat * buf) : res (nat * buf) :=
    let '(i, b) := s in
    let N := sz_add n 1 in                     (* a_size const N = (a_size)n + 1 *)
    v <- load A (sz_mul N i) ;;
    b <- store i v b ;;                        (* a[i] = A[N * i] *)
    Ok (S i, b).

  Definition diag1 (n : nat) (A : list T) (b : buf) : res buf :=
    '(_, b) <- while n (fun '(i, _) => i <? n) (diag_get n A) (0, b) ;;
    Ok b.

  Definition diag2 (m n : nat) (A : list T) (b : buf) : res buf :=
    let M := amin m n in
    '(_, b) <- while M (fun '(i, _) => i <? M) (diag_get n A) (0, b) ;;
    Ok b.

  (* ------------------------------------------ triL, triL1, triL2 *)
  (* state of the extraction row loops: (r, A, L, b) with A the input cursor *)
  Definition triL_row (n : nat) (Ain : list T) (s : nat * nat * nat * buf)
    : res (nat * nat * nat * buf) :=
    let '(r, A, L, b) := s in
    '(c, L, b) <- fillc (S r) (fun c => c <=? r) (fun c => load Ain (A + c)) (0, L, b) ;;
    '(_, L, b) <- fillc n (fun c => c <? n) (fun _ => Ok zero) (c, L, b) ;;
    Ok (S r, A + n, L, b).

  Definition triL (n : nat) (Ain : list T) (b : buf) : res buf :=
    '(_, _, _, b) <- while n (fun '(r, _, _, _) => r <? n) (triL_row n Ain) (0, 0, 0, b) ;;
    Ok b.

  Definition triL1_row (n : nat) (Ain : list T) (s : nat * nat * nat * buf)
    : res (nat * nat * nat * buf) :=
    let '(r, A, L, b) := s in
    '(c, L, b) <- fillc r (fun c => c <? r) (fun c => load Ain (A + c)) (0, L, b) ;;
    b <- store L one b ;;
    let L := S L in
    '(_, L, b) <- fillc n (fun c => c <? n) (fun _ => Ok zero) (S c, L, b) ;;
    Ok (S r, A + n, L, b).

  Definition triL1 (n : nat) (Ain : list T) (b : buf) : res buf :=
    '(_, _, _, b) <- while n (fun '(r, _, _, _) => r <? n) (triL1_row n Ain) (0, 0, 0, b) ;;
    Ok b.

  (* for (c = 0; c < n; ++c) *L++ = *A++;   state (c, A, L, b) *)
  Definition copy_cell (Ain : list T) (s : nat * nat * nat * buf) : res (nat * nat * nat * buf) :=
    let '(c, A, L, b) := s in
    v <- load Ain A ;;
    b <- store L v b ;;
    Ok (S c, S A, S L, b).

  Definition copy_row (n : nat) (Ain : list T) (s : nat * nat * nat * buf)
    : res (nat * nat * nat * buf) :=
    let '(r, A, L, b) := s in
    '(_, A, L, b) <- while n (fun '(c, _, _, _) => c <? n) (copy_cell Ain) (0, A, L, b) ;;
    Ok (S r, A, L, b).

  Definition triL2 (m n : nat) (Ain : list T) (b : buf) : res buf :=
    let M := amin m n in
    '(_, A, L, b) <- while M (fun '(r, _, _, _) => r <? M) (triL_row n Ain) (0, 0, 0, b) ;;
    '(_, _, _, b) <- while m (fun '(r, _, _, _) => r <? m) (copy_row n Ain) (n, A, L, b) ;;
    Ok b.

  (* ------------------------------------------ triU, triU1, triU2 *)
  Definition triU_row (n : nat) (Ain : list T) (s : nat * nat * nat * buf)
    : res (nat * nat * nat * buf) :=
    let '(r, A, U, b) := s in
    '(c, U, b) <- fillc r (fun c => c <? r) (fun _ => Ok zero) (0, U, b) ;;
    '(_, U, b) <- fillc n (fun c => c <? n) (fun c => load Ain (A + c)) (c, U, b) ;;
    Ok (S r, A + n, U, b).

  Definition triU (n : nat) (Ain : list T) (b : buf) : res buf :=
    '(_, _, _, b) <- while n (fun '(r, _, _, _) => r <? n) (triU_row n Ain) (0, 0, 0, b) ;;
    Ok b.

  Definition triU1_row (n : nat) (Ain : list T) (s : nat * nat * nat * buf)
    : res (nat * nat * nat * buf) :=
    let '(r, A, U, b) := s in
    '(c, U, b) <- fillc r (fun c => c <? r) (fun _ => Ok zero) (0, U, b) ;;
    b <- store U one b ;;
    let U := S U in
    '(_, U, b) <- fillc n (fun c => c <? n) (fun c => load Ain (A + c)) (S c, U, b) ;;
    Ok (S r, A + n, U, b).

  Definition triU1 (n : nat) (Ain : list T) (b : buf) : res buf :=
    '(_, _, _, b) <- while n (fun '(r, _, _, _) => r <? n) (triU1_row n Ain) (0, 0, 0, b) ;;
    Ok b.

  Definition triU2 (m n : nat) (Ain : list T) (b : buf) : res buf :=
    let M := amin m n in
    '(_, _, U, b) <- while M (fun '(r, _, _, _) => r <? M) (triU_row n Ain) (0, 0, 0, b) ;;
    '(_, _, b) <- while m (fun '(r, _, _) => r <? m) (const_row n zero) (n, U, b) ;;
    Ok b.

  (* -------------------------------------------------- the products *)
  (* for (z = Z; z < z_; ++z) *z = 0;     state (z, b) *)
  Definition zero_cell (s : nat * buf) : res (nat * buf) :=
    let '(z, b) := s in
    b <- store z zero b ;;
    Ok (S z, b).

  Definition zero_out (z_ : nat) (b : buf) : res (nat * buf) :=
    while z_ (fun '(z, _) => z <? z_) zero_cell (0, b).

  (* *z += *x * *y   on the result array *)
  Definition mac (X Y : list T) (x y z : nat) (b : buf) : res buf :=
    xv <- load X x ;;
    yv <- load Y y ;;
    zv <- load (cells b) z ;;
    store z (add zv (mul xv yv)) b.

  (* a_real_mulmm(row, c_r, col, X, Y, Z) *)
  Definition mulmm_j (X Y : list T) (x : nat) (s : nat * nat * buf) : res (nat * nat * buf) :=
    let '(y, z, b) := s in
    b <- mac X Y x y z b ;;                    (* *z++ += *x * *y *)
    Ok (S y, S z, b).                          (* ++y *)

  Definition mulmm_k (col : nat) (X Y : list T) (Zp x_ : nat) (s : nat * nat * nat * buf)
    : res (nat * nat * nat * buf) :=
    let '(x, y, z, b) := s in
    let y_ := y + col in
    '(y, z, b) <- while col (fun '(y, _, _) => y <? y_) (mulmm_j X Y x) (y, Zp, b) ;;  (* z = Z *)
    Ok (S x, y, z, b).                         (* ++x *)

  Definition mulmm_i (c_r col : nat) (X Y : list T) (s : nat * nat * nat * nat * buf)
    : res (nat * nat * nat * nat * buf) :=
    let '(row, x, z, Zp, b) := s in
    let row := row - 1 in                      (* row-- *)
    let x_ := x + c_r in
    '(x, _, z, b) <- while c_r (fun '(x, _, _, _) => x <? x_) (mulmm_k col X Y Zp x_) (x, 0, z, b) ;; (* y = Y *)
    Ok (row, x, z, z, b).                      (* Z = z *)

  Definition mulmm (row c_r col : nat) (X Y : list T) (b : buf) : res buf :=
    let z_ := sz_mul row col in                (* Z + (a_size)row * col *)
    '(z, b) <- zero_out z_ b ;;
    '(_, _, _, _, b) <- while row (fun '(row, _, _, _, _) => negb (row =? 0))
                          (mulmm_i c_r col X Y) (row, 0, z, 0, b) ;;        (* x = X *)
    Ok b.

  (* a_real_mulTm(c_r, row, col, X, Y, Z) *)
  Definition mulTm_j (X Y : list T) (x : nat) (s : nat * nat * buf) : res (nat * nat * buf) :=
    let '(y, z, b) := s in
    b <- mac X Y x y z b ;;
    Ok (S y, S z, b).

  Definition mulTm_i (col : nat) (X Y : list T) (Yp y_ : nat) (s : nat * nat * nat * buf)
    : res (nat * nat * nat * buf) :=
    let '(x, y, z, b) := s in
    '(y, z, b) <- while col (fun '(y, _, _) => y <? y_) (mulTm_j X Y x) (Yp, z, b) ;;  (* y = Y *)
    Ok (S x, y, z, b).

  Definition mulTm_k (row col : nat) (X Y : list T) (s : nat * nat * nat * nat * nat * buf)
    : res (nat * nat * nat * nat * nat * buf) :=
    let '(c_r, x, y, z, Yp, b) := s in
    let c_r := c_r - 1 in                      (* c_r-- *)
    let x_ := x + row in
    let y_ := Yp + col in
    '(x, y, z, b) <- while row (fun '(x, _, _, _) => x <? x_) (mulTm_i col X Y Yp y_) (x, y, 0, b) ;; (* z = Z *)
    Ok (c_r, x, y, z, y_, b).                  (* Y = y_ *)

  Definition mulTm (c_r row col : nat) (X Y : list T) (b : buf) : res buf :=
    let z_ := sz_mul row col in                (* Z + (a_size)row * col *)
    '(z, b) <- zero_out z_ b ;;
    '(_, _, _, _, _, b) <- while c_r (fun '(c_r, _, _, _, _, _) => negb (c_r =? 0))
                             (mulTm_k row col X Y) (c_r, 0, 0, z, 0, b) ;;
    Ok b.

  (* a_real_mulmT(row, col, c_r, X, Y, Z) *)
  Definition mulmT_k (X Y : list T) (z : nat) (s : nat * nat * buf) : res (nat * nat * buf) :=
    let '(x, y, b) := s in
    b <- mac X Y x y z b ;;                    (* *z += *x * *y++ *)
    Ok (S x, S y, b).

  Definition mulmT_j (c_r : nat) (X Y : list T) (Xp x_ : nat) (s : nat * nat * nat * buf)
    : res (nat * nat * nat * buf) :=
    let '(x, y, z, b) := s in
    '(x, y, b) <- while c_r (fun '(x, _, _) => x <? x_) (mulmT_k X Y z) (Xp, y, b) ;;   (* x = X *)
    Ok (x, y, S z, b).                         (* ++z *)

  Definition mulmT_i (col c_r : nat) (X Y : list T) (y_ : nat) (s : nat * nat * nat * nat * nat * buf)
    : res (nat * nat * nat * nat * nat * buf) :=
    let '(row, x, y, z, Xp, b) := s in
    let row := row - 1 in
    let x_ := Xp + c_r in
    '(x, y, z, b) <- while col (fun '(_, y, _, _) => y <? y_) (mulmT_j c_r X Y Xp x_) (x, 0, z, b) ;; (* y = Y *)
    Ok (row, x, y, z, x_, b).                  (* X = x_ *)

  Definition mulmT (row col c_r : nat) (X Y : list T) (b : buf) : res buf :=
    let y_ := sz_mul col c_r in                (* Y + (a_size)col * c_r *)
    let z_ := sz_mul row col in                (* Z + (a_size)row * col *)
    '(_, b) <- zero_out z_ b ;;
    '(_, _, _, _, _, b) <- while row (fun '(row, _, _, _, _, _) => negb (row =? 0))
                             (mulmT_i col c_r X Y y_) (row, 0, 0, 0, 0, b) ;;   (* z = Z *)
    Ok b.

  (* a_real_mulTT(row, c_r, col, X, Y, Z) *)
  Definition mulTT_j (n : nat) (X Y : list T) (x : nat) (s : nat * nat * buf) : res (nat * nat * buf) :=
    let '(y, z, b) := s in
    b <- mac X Y x y z b ;;                    (* *z++ += *x * *y *)
    Ok (y + n, S z, b).                        (* y += n *)

  Definition mulTT_i (n col : nat) (X Y : list T) (Yp y_ : nat) (s : nat * nat * nat * buf)
    : res (nat * nat * nat * buf) :=
    let '(x, y, z, b) := s in
    '(y, z, b) <- while col (fun '(y, _, _) => y <? y_) (mulTT_j n X Y x) (Yp, z, b) ;;  (* y = Y *)
    Ok (S x, y, z, b).

  Definition mulTT_k (n row col : nat) (X Y : list T) (y_ : nat) (s : nat * nat * nat * nat * nat * buf)
    : res (nat * nat * nat * nat * nat * buf) :=
    let '(c_r, x, y, z, Yp, b) := s in
    let c_r := c_r - 1 in
    let x_ := x + row in
    '(x, y, z, b) <- while row (fun '(x, _, _, _) => x <? x_) (mulTT_i n col X Y Yp y_) (x, y, 0, b) ;; (* z = Z *)
    Ok (c_r, x, y, z, S Yp, b).                (* ++Y *)

  Definition mulTT (row c_r col : nat) (X Y : list T) (b : buf) : res buf :=
    let n := c_r in
    let y_ := sz_mul col c_r in                (* Y + (a_size)col * c_r *)
    let z_ := sz_mul row col in                (* Z + (a_size)row * col *)
    '(z, b) <- zero_out z_ b ;;
    '(_, _, _, _, _, b) <- while c_r (fun '(c_r, _, _, _, _, _) => negb (c_r =? 0))
                             (mulTT_k n row col X Y y_) (c_r, 0, 0, z, 0, b) ;;
    Ok b.

  (* ---------------------------------------------------------------- *)
  (* One entry point for the drivers: op code, three dimensions (in the C's
     parameter order, unused ones ignored), two input arrays, initial
     contents of the result array.  Result: final cells and number of
     writes.  *)
  Inductive op : Type :=
  | OpT1 | OpT2 | OpEye1 | OpEye2 | OpTri1 | OpTri2 | OpDiag | OpDiag1 | OpDiag2
  | OpTriL | OpTriL1 | OpTriL2 | OpTriU | OpTriU1 | OpTriU2
  | OpMulmm | OpMulTm | OpMulmT | OpMulTT.

  Definition run (o : op) (d1 d2 d3 : nat) (X Y O : list T) : res (list T * nat) :=
    let b := mkbuf O 0 in
    r <- match o with
         | OpT1 => T1 d1 b
         | OpT2 => T2 d1 d2 X b
         | OpEye1 => eye1 d1 b
         | OpEye2 => eye2 d1 d2 b
         | OpTri1 => tri1 d1 b
         | OpTri2 => tri2 d1 d2 b
         | OpDiag => diag d1 X b
         | OpDiag1 => diag1 d1 X b
         | OpDiag2 => diag2 d1 d2 X b
         | OpTriL => triL d1 X b
         | OpTriL1 => triL1 d1 X b
         | OpTriL2 => triL2 d1 d2 X b
         | OpTriU => triU d1 X b
         | OpTriU1 => triU1 d1 X b
         | OpTriU2 => triU2 d1 d2 X b
         | OpMulmm => mulmm d1 d2 d3 X Y b
         | OpMulTm => mulTm d1 d2 d3 X Y b
         | OpMulmT => mulmT d1 d2 d3 X Y b
         | OpMulTT => mulTT d1 d2 d3 X Y b
         end ;;
    Ok (cells r, nwr r).

End Model.

Arguments mkbuf {T}.
Arguments cells {T}.
Arguments nwr {T}.

(* The instance executed by the correspondence check (extracted to OCaml). *)
Definition runZ : op -> nat -> nat -> nat -> list Z -> list Z -> list Z -> res (list Z * nat) :=
  run Z 0%Z 1%Z Z.add Z.mul.
