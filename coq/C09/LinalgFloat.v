(* C09 - the model of LinalgDefs.v instantiated with Coq's primitive binary64 floats
   (IEEE round-to-nearest-even, executed by vm_compute).  Used by checks/C09.py for the
   bit-exact correspondence run: the SAME Gallina term [run] the theorems are about,
   applied to float operations, must reproduce the C results bit for bit.
   NO PROOFS IN THIS FILE. *)
From Coq Require Import List Floats Bool Arith.
From LibaV Require Import C09.LinalgDefs.
Import ListNotations.

Definition runF : op -> nat -> nat -> nat -> list float -> list float -> list float
                  -> res (list float * nat) :=
  run float 0%float 1%float PrimFloat.add PrimFloat.mul.

(* same bit pattern, all NaNs identified, +0 and -0 distinguished *)
Definition fsame (a b : float) : bool :=
  if is_nan a then is_nan b
  else if is_nan b then false
  else (PrimFloat.eqb a b) && Bool.eqb (get_sign a) (get_sign b).

(* (op, d1, d2, d3, X, Y, initial result array, result array the C produced) *)
Definition fcase : Type :=
  (op * nat * nat * nat * list float * list float * list float * list float)%type.

Definition check1 (c : fcase) : bool :=
  let '(o, d1, d2, d3, X, Y, Ob, E) := c in
  match runF o d1 d2 d3 X Y Ob with
  | Ok (cs, _) =>
      (length cs =? length E) && forallb (fun p => fsame (fst p) (snd p)) (combine cs E)
  | _ => false
  end.

Fixpoint failing_from (i : nat) (cs : list fcase) : list nat :=
  match cs with
  | [] => []
  | c :: t => if check1 c then failing_from (S i) t else i :: failing_from (S i) t
  end.

Definition failing (cs : list fcase) : list nat := failing_from 0 cs.
