(* C09 - N-indexed ("wide") executable model of a_real_diag1 / a_real_diag2 (src/linalg.c).

   NO PROOFS IN THIS FILE.

   Why a second model.  The list model of LinalgDefs.v carries array offsets in unary [nat] and
   arrays as lists: it cannot be RUN on a matrix with 2^32 or more cells, which is exactly where
   the width of the C type in which an offset is computed (a_uint: 32 bit, a_size: 64 bit) becomes
   observable.  For the two routines that read only min(m,n) cells of such a matrix the same code
   is modelled here with binary [N] offsets and a sparse input array, so that the correspondence
   check can run it against the C at n = 65536, 65537, 2^31, 2^32 - 1, ...
   The offset expression is the same as in the list model, with the same explicit wrap:
       a_size const N = (a_size)n + 1;   ... A[N * i]         ==>   diag_offN n i
   and LinalgWideProofs.v proves  sz_mul (sz_add n 1) i = N.to_nat (diag_offN (N.of_nat n) (N.of_nat i))
   for ALL n, i (no bound), i.e. the list model reads precisely the cell this model reads.
   The loop  for (i = 0; i < M; ++i)  with a_uint i, M  runs its body M times for i = 0 .. M-1
   (++i cannot wrap below M <= UINT_MAX): [N.iter M].  *)
From Coq Require Import List NArith ZArith.
From LibaV Require Import C09.LinalgDefs.
Import ListNotations.
Local Open Scope N_scope.

Definition wrap32N (x : N) : N := x mod 4294967296.
Definition wrap64N (x : N) : N := x mod 18446744073709551616.
Definition szN_add (a b : N) : N := wrap64N (a + b).       (* a_size + a_size *)
Definition szN_mul (a b : N) : N := wrap64N (a * b).       (* a_size * a_size *)
Definition aminN (x y : N) : N := if x <? y then x else y. (* A_MIN *)

(* a_size const N = (a_size)n + 1;  offset N * i *)
Definition diag_offN (n i : N) : N := szN_mul (szN_add n 1) i.

Section Wide.
  Variable T : Type.
  Variable zero : T.

  (* an array of [slen] cells; the listed cells hold the listed values (first match wins),
     every other cell holds zero *)
  Record sparse : Type := mksparse { slen : N; scells : list (N * T) }.

  Fixpoint lookup (l : list (N * T)) (k : N) : T :=
    match l with
    | [] => zero
    | (j, v) :: t => if j =? k then v else lookup t k
    end.

  (* bounds-checked read *)
  Definition loadN (A : sparse) (k : N) : res T :=
    if k <? slen A then Ok (lookup (scells A) k) else OutOfBounds.

  (* a[i] = A[N * i]; ++i      state: (i, cells of a written so far, latest first);
     the write is bounds-checked against the [olen] cells of a *)
  Definition diag_getN (n : N) (A : sparse) (olen : N) (s : res (N * list (N * T)))
    : res (N * list (N * T)) :=
    '(i, acc) <- s ;;
    v <- loadN A (diag_offN n i) ;;
    if i <? olen then Ok (i + 1, (i, v) :: acc) else OutOfBounds.

  (* result: the cells written, in the order written: [(0, a[0]); (1, a[1]); ...]
     ([rev_append acc []] = [rev acc], linear time) *)
  Definition diag1N (n : N) (A : sparse) (olen : N) : res (list (N * T)) :=
    '(_, acc) <- N.iter n (diag_getN n A olen) (Ok (0, [])) ;;
    Ok (rev_append acc []).

  Definition diag2N (m n : N) (A : sparse) (olen : N) : res (list (N * T)) :=
    let M := aminN m n in
    '(_, acc) <- N.iter M (diag_getN n A olen) (Ok (0, [])) ;;
    Ok (rev_append acc []).
End Wide.

Arguments mksparse {T}.
Arguments slen {T}.
Arguments scells {T}.

(* instances executed by the correspondence check (extracted to OCaml) *)
Definition diag1NZ : N -> sparse Z -> N -> res (list (N * Z)) := diag1N Z 0%Z.
Definition diag2NZ : N -> N -> sparse Z -> N -> res (list (N * Z)) := diag2N Z 0%Z.
