(* C09 - the 13 structure routines of linalg.c (eye1 eye2 tri1 tri2 diag diag1 diag2
   triL triL1 triL2 triU triU1 triU2): for every size (m<n, m=n, m>n, zero included)
   and every initial content of the result array the model returns Ok (no OutOfFuel,
   no OutOfBounds access), performs exactly the stated number of stores, and the
   result array holds exactly the specified pattern.  Arbitrary element type T:
   no algebraic law is needed. *)
From Coq Require Import List Arith Bool Lia.
From LibaV Require Import C09.LinalgDefs C09.LinalgLemmas.
Import ListNotations.

Section Pat.
  Variable T : Type.
  Variables (zero one : T).

  Local Notation SeqInv := (SeqInv T zero).
  Local Notation get l k := (nth k l zero).

  (* the specified patterns, as functions of (row, column) *)
  Definition p_eye (r c : nat) : T := if r =? c then one else zero.
  Definition p_tri (r c : nat) : T := if c <=? r then one else zero.
  Definition p_diag (a : list T) (r c : nat) : T := if r =? c then get a r else zero.
  Definition p_triL (n : nat) (A : list T) (r c : nat) : T :=
    if c <=? r then get A (r * n + c) else zero.
  Definition p_triL1 (n : nat) (A : list T) (r c : nat) : T :=
    if c <? r then get A (r * n + c) else if c =? r then one else zero.
  Definition p_triU (n : nat) (A : list T) (r c : nat) : T :=
    if r <=? c then get A (r * n + c) else zero.
  Definition p_triU1 (n : nat) (A : list T) (r c : nat) : T :=
    if c <? r then zero else if c =? r then one else get A (r * n + c).

  Ltac cmp :=
    repeat match goal with
           | |- context [?a =? ?b] => destruct (Nat.eqb_spec a b)
           | |- context [?a <=? ?b] => destruct (Nat.leb_spec a b)
           | |- context [?a <? ?b] => destruct (Nat.ltb_spec a b)
           end; try reflexivity; try lia.

  (* finishing a row lemma: the state reached is the state claimed *)
  Ltac finish_row b I :=
    exists b; split;
    [ match goal with
      | |- Ok (_, ?e, _) = Ok (_, ?e', _) => replace e with e' by lia; reflexivity
      | |- Ok (_, ?x, ?e, _) = Ok (_, ?x', ?e', _) =>
          replace x with x' by lia; replace e with e' by lia; reflexivity
      end
    | match type of I with SeqInv ?t ?b0 ?e _ =>
        match goal with |- SeqInv _ _ ?e' _ => replace e' with e by lia; exact I end end ].

  (* ---------------------------------------------------------------- *)
  (* row bodies                                                       *)

  Lemma const_row_ok n v tgt b0 r b :
    SeqInv tgt b0 (r * n) b -> S r * n <= length (cells b0) ->
    (forall c, c < n -> tgt (r * n + c) = v) ->
    exists b', const_row T n v (r, r * n, b) = Ok (S r, S r * n, b') /\ SeqInv tgt b0 (S r * n) b'.
  Proof.
    intros I0 Hlen Ht. unfold const_row.
    destruct (fillc_lt T zero tgt b0 n (fun _ => Ok v) n 0 (r * n) b I0) as (b1 & H1 & I1);
      [lia|lia|lia| |].
    { intros c Hc. f_equal. replace (r * n + (c - 0)) with (r * n + c) by lia.
      symmetry; apply Ht; lia. }
    rewrite H1. cbn [bind]. finish_row b1 I1.
  Qed.

  Lemma eye_row_ok n b0 r b :
    r < n -> SeqInv (lin n p_eye) b0 (r * n) b -> S r * n <= length (cells b0) ->
    exists b', eye_row T zero one n (r, r * n, b) = Ok (S r, S r * n, b')
               /\ SeqInv (lin n p_eye) b0 (S r * n) b'.
  Proof.
    intros Hr I0 Hlen. unfold eye_row.
    destruct (fillc_lt T zero _ b0 r (fun _ => Ok zero) r 0 (r * n) b I0) as (b1 & H1 & I1);
      [lia|lia|lia| |].
    { intros c Hc. f_equal. replace (r * n + (c - 0)) with (r * n + c) by lia.
      rewrite lin_idx by lia. unfold p_eye. cmp. }
    rewrite H1. cbn [bind].
    destruct (store_seq T zero _ b0 _ b1 one I1) as (b2 & H2 & I2); [lia| |].
    { replace (r * n + (r - 0)) with (r * n + r) by lia.
      rewrite lin_idx by lia. unfold p_eye. cmp. }
    rewrite H2. cbn [bind].
    destruct (fillc_lt T zero _ b0 n (fun _ => Ok zero) n (S r) _ b2 I2) as (b3 & H3 & I3);
      [lia|lia|lia| |].
    { intros c Hc. f_equal.
      replace (S (r * n + (r - 0)) + (c - S r)) with (r * n + c) by lia.
      rewrite lin_idx by lia. unfold p_eye. cmp. }
    rewrite H3. cbn [bind]. finish_row b3 I3.
  Qed.

  Lemma tri_row_ok n b0 r b :
    r < n -> SeqInv (lin n p_tri) b0 (r * n) b -> S r * n <= length (cells b0) ->
    exists b', tri_row T zero one n (r, r * n, b) = Ok (S r, S r * n, b')
               /\ SeqInv (lin n p_tri) b0 (S r * n) b'.
  Proof.
    intros Hr I0 Hlen. unfold tri_row.
    destruct (fillc_le T zero _ b0 r (fun _ => Ok one) (S r) 0 (r * n) b I0) as (b1 & H1 & I1);
      [lia|lia|lia| |].
    { intros c Hc. f_equal. replace (r * n + (c - 0)) with (r * n + c) by lia.
      rewrite lin_idx by lia. unfold p_tri. cmp. }
    rewrite H1. cbn [bind].
    destruct (fillc_lt T zero _ b0 n (fun _ => Ok zero) n (S r) _ b1 I1) as (b3 & H3 & I3);
      [lia|lia|lia| |].
    { intros c Hc. f_equal.
      replace (r * n + (S r - 0) + (c - S r)) with (r * n + c) by lia.
      rewrite lin_idx by lia. unfold p_tri. cmp. }
    rewrite H3. cbn [bind]. finish_row b3 I3.
  Qed.

  Lemma triL_row_ok m n A b0 r b :
    r < m -> r < n -> length A = m * n ->
    SeqInv (lin n (p_triL n A)) b0 (r * n) b -> S r * n <= length (cells b0) ->
    exists b', triL_row T zero n A (r, r * n, r * n, b) = Ok (S r, S r * n, S r * n, b')
               /\ SeqInv (lin n (p_triL n A)) b0 (S r * n) b'.
  Proof.
    intros Hm Hr HA I0 Hlen. unfold triL_row.
    destruct (fillc_le T zero _ b0 r (fun c => load T A (r * n + c)) (S r) 0 (r * n) b I0)
      as (b1 & H1 & I1); [lia|lia|lia| |].
    { intros c Hc. replace (r * n + (c - 0)) with (r * n + c) by lia.
      rewrite (load_ok T zero) by (rewrite HA; apply idx_lt; lia).
      f_equal. rewrite lin_idx by lia. unfold p_triL. cmp. }
    rewrite H1. cbn [bind].
    destruct (fillc_lt T zero _ b0 n (fun _ => Ok zero) n (S r) _ b1 I1) as (b3 & H3 & I3);
      [lia|lia|lia| |].
    { intros c Hc. f_equal.
      replace (r * n + (S r - 0) + (c - S r)) with (r * n + c) by lia.
      rewrite lin_idx by lia. unfold p_triL. cmp. }
    rewrite H3. cbn [bind]. finish_row b3 I3.
  Qed.

  Lemma triL1_row_ok n A b0 r b :
    r < n -> length A = n * n ->
    SeqInv (lin n (p_triL1 n A)) b0 (r * n) b -> S r * n <= length (cells b0) ->
    exists b', triL1_row T zero one n A (r, r * n, r * n, b) = Ok (S r, S r * n, S r * n, b')
               /\ SeqInv (lin n (p_triL1 n A)) b0 (S r * n) b'.
  Proof.
    intros Hr HA I0 Hlen. unfold triL1_row.
    destruct (fillc_lt T zero _ b0 r (fun c => load T A (r * n + c)) r 0 (r * n) b I0)
      as (b1 & H1 & I1); [lia|lia|lia| |].
    { intros c Hc. replace (r * n + (c - 0)) with (r * n + c) by lia.
      rewrite (load_ok T zero) by (rewrite HA; apply idx_lt; lia).
      f_equal. rewrite lin_idx by lia. unfold p_triL1. cmp. }
    rewrite H1. cbn [bind].
    destruct (store_seq T zero _ b0 _ b1 one I1) as (b2 & H2 & I2); [lia| |].
    { replace (r * n + (r - 0)) with (r * n + r) by lia.
      rewrite lin_idx by lia. unfold p_triL1. cmp. }
    rewrite H2. cbn [bind].
    destruct (fillc_lt T zero _ b0 n (fun _ => Ok zero) n (S r) _ b2 I2) as (b3 & H3 & I3);
      [lia|lia|lia| |].
    { intros c Hc. f_equal.
      replace (S (r * n + (r - 0)) + (c - S r)) with (r * n + c) by lia.
      rewrite lin_idx by lia. unfold p_triL1. cmp. }
    rewrite H3. cbn [bind]. finish_row b3 I3.
  Qed.

  Lemma triU_row_ok m n A b0 r b :
    r < m -> r < n -> length A = m * n ->
    SeqInv (lin n (p_triU n A)) b0 (r * n) b -> S r * n <= length (cells b0) ->
    exists b', triU_row T zero n A (r, r * n, r * n, b) = Ok (S r, S r * n, S r * n, b')
               /\ SeqInv (lin n (p_triU n A)) b0 (S r * n) b'.
  Proof.
    intros Hm Hr HA I0 Hlen. unfold triU_row.
    destruct (fillc_lt T zero _ b0 r (fun _ => Ok zero) r 0 (r * n) b I0) as (b1 & H1 & I1);
      [lia|lia|lia| |].
    { intros c Hc. f_equal. replace (r * n + (c - 0)) with (r * n + c) by lia.
      rewrite lin_idx by lia. unfold p_triU. cmp. }
    rewrite H1. cbn [bind].
    destruct (fillc_lt T zero _ b0 n (fun c => load T A (r * n + c)) n r _ b1 I1)
      as (b3 & H3 & I3); [lia|lia|lia| |].
    { intros c Hc.
      replace (r * n + (r - 0) + (c - r)) with (r * n + c) by lia.
      rewrite (load_ok T zero) by (rewrite HA; apply idx_lt; lia).
      f_equal. rewrite lin_idx by lia. unfold p_triU. cmp. }
    rewrite H3. cbn [bind]. finish_row b3 I3.
  Qed.

  Lemma triU1_row_ok n A b0 r b :
    r < n -> length A = n * n ->
    SeqInv (lin n (p_triU1 n A)) b0 (r * n) b -> S r * n <= length (cells b0) ->
    exists b', triU1_row T zero one n A (r, r * n, r * n, b) = Ok (S r, S r * n, S r * n, b')
               /\ SeqInv (lin n (p_triU1 n A)) b0 (S r * n) b'.
  Proof.
    intros Hr HA I0 Hlen. unfold triU1_row.
    destruct (fillc_lt T zero _ b0 r (fun _ => Ok zero) r 0 (r * n) b I0) as (b1 & H1 & I1);
      [lia|lia|lia| |].
    { intros c Hc. f_equal. replace (r * n + (c - 0)) with (r * n + c) by lia.
      rewrite lin_idx by lia. unfold p_triU1. cmp. }
    rewrite H1. cbn [bind].
    destruct (store_seq T zero _ b0 _ b1 one I1) as (b2 & H2 & I2); [lia| |].
    { replace (r * n + (r - 0)) with (r * n + r) by lia.
      rewrite lin_idx by lia. unfold p_triU1. cmp. }
    rewrite H2. cbn [bind].
    destruct (fillc_lt T zero _ b0 n (fun c => load T A (r * n + c)) n (S r) _ b2 I2)
      as (b3 & H3 & I3); [lia|lia|lia| |].
    { intros c Hc.
      replace (S (r * n + (r - 0)) + (c - S r)) with (r * n + c) by lia.
      rewrite (load_ok T zero) by (rewrite HA; apply idx_lt; lia).
      f_equal. rewrite lin_idx by lia. unfold p_triU1. cmp. }
    rewrite H3. cbn [bind]. finish_row b3 I3.
  Qed.

  (* for (c = 0; c < n; ++c) *L++ = *A++;   rows r >= n of triL2 *)
  Lemma copy_row_ok m n A tgt b0 r b :
    r < m -> length A = m * n ->
    SeqInv tgt b0 (r * n) b -> S r * n <= length (cells b0) ->
    (forall c, c < n -> tgt (r * n + c) = get A (r * n + c)) ->
    exists b', copy_row T n A (r, r * n, r * n, b) = Ok (S r, S r * n, S r * n, b')
               /\ SeqInv tgt b0 (S r * n) b'.
  Proof.
    intros Hm HA I0 Hlen Ht. unfold copy_row.
    destruct (while_ghost
                (fun k (s : nat * nat * nat * buf T) =>
                   let '(c, a, l, b') := s in
                   c = k /\ a = r * n + k /\ l = r * n + k /\ SeqInv tgt b0 (r * n + k) b')
                n (fun '(c, _, _, _) => c <? n) (copy_cell T A))
      with (fuel := n) (k := 0) (s := (0, r * n, r * n, b)) as (s' & Hw & Hi).
    - intros k [[[c a] l] b1] (-> & -> & -> & I1) Hk. split.
      + apply Nat.ltb_lt; lia.
      + unfold copy_cell.
        rewrite (load_ok T zero) by (rewrite HA; apply idx_lt; lia). cbn [bind].
        destruct (store_seq T zero tgt b0 _ b1 (get A (r * n + k)) I1) as (b2 & H2 & I2);
          [lia|symmetry; apply Ht; lia|].
        rewrite H2. cbn [bind]. eexists. split; [reflexivity|].
        split; [lia|split; [lia|split; [lia|]]].
        replace (r * n + S k) with (S (r * n + k)) by lia. exact I2.
    - intros [[[c a] l] b1] (-> & _). apply Nat.ltb_ge; lia.
    - split; [lia|split; [lia|split; [lia|]]]. replace (r * n + 0) with (r * n) by lia. exact I0.
    - lia.
    - lia.
    - destruct s' as [[[c a] l] b1]. destruct Hi as (-> & -> & -> & I1).
      rewrite Hw. cbn [bind]. finish_row b1 I1.
  Qed.

  (* ---------------------------------------------------------------- *)
  (* the routines                                                     *)

  Ltac start_rows H :=
    match type of H with
    | while _ _ _ (0, 0 * _, _) = _ => change (0 * _) with 0 in H
    | while _ _ _ (0, 0 * _, 0 * _, _) = _ => change (0 * _) with 0 in H
    end.

  Theorem eye1_ok n b0 :
    length (cells b0) = n * n ->
    exists b, eye1 T zero one n b0 = Ok b /\ nwr b = nwr b0 + n * n /\ length (cells b) = n * n /\
      forall r c, r < n -> c < n -> get (cells b) (r * n + c) = if r =? c then one else zero.
  Proof.
    intros Hlen. unfold eye1.
    destruct (rows3 T zero (eye_row T zero one n) (lin n p_eye) b0 n 0 n n b0) as (b1 & Hw & I1).
    - intros r b Hr Hi. apply eye_row_ok; [lia|exact Hi|rewrite Hlen; nia].
    - apply SeqInv_init.
    - lia.
    - lia.
    - change (0 * n) with 0 in Hw. rewrite Hw. cbn [bind]. exists b1. split; [reflexivity|].
      apply (SeqInv_final T zero n p_eye b0 n b1 I1 Hlen).
  Qed.

  Theorem tri1_ok n b0 :
    length (cells b0) = n * n ->
    exists b, tri1 T zero one n b0 = Ok b /\ nwr b = nwr b0 + n * n /\ length (cells b) = n * n /\
      forall r c, r < n -> c < n -> get (cells b) (r * n + c) = if c <=? r then one else zero.
  Proof.
    intros Hlen. unfold tri1.
    destruct (rows3 T zero (tri_row T zero one n) (lin n p_tri) b0 n 0 n n b0) as (b1 & Hw & I1).
    - intros r b Hr Hi. apply tri_row_ok; [lia|exact Hi|rewrite Hlen; nia].
    - apply SeqInv_init.
    - lia.
    - lia.
    - change (0 * n) with 0 in Hw. rewrite Hw. cbn [bind]. exists b1. split; [reflexivity|].
      apply (SeqInv_final T zero n p_tri b0 n b1 I1 Hlen).
  Qed.

  (* rectangular generators: first amin(m,n) patterned rows, then rows n..m-1 constant *)
  Lemma rect3 (rowf : nat * nat * buf T -> res (nat * nat * buf T)) (f : nat -> nat -> T) v m n b0 :
    length (cells b0) = m * n ->
    (forall r b, r < m -> r < n -> SeqInv (lin n f) b0 (r * n) b ->
                 exists b', rowf (r, r * n, b) = Ok (S r, S r * n, b') /\ SeqInv (lin n f) b0 (S r * n) b') ->
    (forall r c, n <= r -> c < n -> f r c = v) ->
    exists b,
      ('(_, E, b) <- while (amin m n) (fun '(r, _, _) => r <? amin m n) rowf (0, 0, b0) ;;
       '(_, _, b) <- while m (fun '(r, _, _) => r <? m) (const_row T n v) (n, E, b) ;;
       Ok b) = Ok b /\
      nwr b = nwr b0 + m * n /\ length (cells b) = m * n /\
      forall r c, r < m -> c < n -> get (cells b) (r * n + c) = f r c.
  Proof.
    intros Hlen Hrow Hconst.
    assert (HM : amin m n <= m /\ amin m n <= n /\ (amin m n = m \/ amin m n = n)).
    { unfold amin. destruct (Nat.ltb_spec m n); lia. }
    destruct HM as (HMm & HMn & HM).
    destruct (rows3 T zero rowf (lin n f) b0 n 0 (amin m n) (amin m n) b0) as (b1 & Hw & I1).
    - intros r b Hr Hi. apply Hrow; [lia|lia|exact Hi].
    - apply SeqInv_init.
    - lia.
    - lia.
    - change (0 * n) with 0 in Hw. rewrite Hw. cbn [bind].
      destruct (le_lt_dec m n) as [Hmn|Hmn].
      + (* m <= n: the second loop does not run *)
        assert (amin m n = m) as EM by (unfold amin; destruct (Nat.ltb_spec m n); lia).
        rewrite EM in *.
        rewrite while_false by (apply Nat.ltb_ge; lia). cbn [bind].
        exists b1. split; [reflexivity|].
        apply (SeqInv_final T zero n f b0 m b1 I1 Hlen).
      + (* m > n: rows n .. m-1 *)
        assert (amin m n = n) as EM by (unfold amin; destruct (Nat.ltb_spec m n); lia).
        rewrite EM in *.
        destruct (rows3 T zero (const_row T n v) (lin n f) b0 n n m m b1) as (b2 & Hw2 & I2).
        * intros r b Hr Hi. apply const_row_ok; [exact Hi|rewrite Hlen; nia|].
          intros c Hc. rewrite lin_idx by lia. apply Hconst; lia.
        * exact I1.
        * lia.
        * lia.
        * rewrite Hw2. cbn [bind]. exists b2. split; [reflexivity|].
          apply (SeqInv_final T zero n f b0 m b2 I2 Hlen).
  Qed.

  Theorem eye2_ok m n b0 :
    length (cells b0) = m * n ->
    exists b, eye2 T zero one m n b0 = Ok b /\ nwr b = nwr b0 + m * n /\ length (cells b) = m * n /\
      forall r c, r < m -> c < n -> get (cells b) (r * n + c) = if r =? c then one else zero.
  Proof.
    intros Hlen. unfold eye2.
    apply (rect3 (eye_row T zero one n) p_eye zero m n b0 Hlen).
    - intros r b Hr Hr' Hi. apply eye_row_ok; [lia|exact Hi|rewrite Hlen; nia].
    - intros r c Hr Hc. unfold p_eye. cmp.
  Qed.

  Theorem tri2_ok m n b0 :
    length (cells b0) = m * n ->
    exists b, tri2 T zero one m n b0 = Ok b /\ nwr b = nwr b0 + m * n /\ length (cells b) = m * n /\
      forall r c, r < m -> c < n -> get (cells b) (r * n + c) = if c <=? r then one else zero.
  Proof.
    intros Hlen. unfold tri2.
    apply (rect3 (tri_row T zero one n) p_tri one m n b0 Hlen).
    - intros r b Hr Hr' Hi. apply tri_row_ok; [lia|exact Hi|rewrite Hlen; nia].
    - intros r c Hr Hc. unfold p_tri. cmp.
  Qed.

  (* square extraction routines *)
  Lemma square4 (rowf : nat * nat * nat * buf T -> res (nat * nat * nat * buf T))
        (f : nat -> nat -> T) n b0 :
    length (cells b0) = n * n ->
    (forall r b, r < n -> SeqInv (lin n f) b0 (r * n) b ->
                 exists b', rowf (r, r * n, r * n, b) = Ok (S r, S r * n, S r * n, b')
                            /\ SeqInv (lin n f) b0 (S r * n) b') ->
    exists b,
      ('(_, _, _, b) <- while n (fun '(r, _, _, _) => r <? n) rowf (0, 0, 0, b0) ;; Ok b) = Ok b /\
      nwr b = nwr b0 + n * n /\ length (cells b) = n * n /\
      forall r c, r < n -> c < n -> get (cells b) (r * n + c) = f r c.
  Proof.
    intros Hlen Hrow.
    destruct (rows4 T zero rowf (lin n f) b0 n 0 n n b0) as (b1 & Hw & I1).
    - intros r b Hr Hi. apply Hrow; [lia|exact Hi].
    - apply SeqInv_init.
    - lia.
    - lia.
    - change (0 * n) with 0 in Hw. rewrite Hw. cbn [bind]. exists b1. split; [reflexivity|].
      apply (SeqInv_final T zero n f b0 n b1 I1 Hlen).
  Qed.

  Theorem triL_ok n A b0 :
    length A = n * n -> length (cells b0) = n * n ->
    exists b, triL T zero n A b0 = Ok b /\ nwr b = nwr b0 + n * n /\ length (cells b) = n * n /\
      forall r c, r < n -> c < n ->
        get (cells b) (r * n + c) = if c <=? r then get A (r * n + c) else zero.
  Proof.
    intros HA Hlen. unfold triL.
    apply (square4 (triL_row T zero n A) (p_triL n A) n b0 Hlen).
    intros r b Hr Hi. apply (triL_row_ok n n); auto. rewrite Hlen; nia.
  Qed.

  Theorem triL1_ok n A b0 :
    length A = n * n -> length (cells b0) = n * n ->
    exists b, triL1 T zero one n A b0 = Ok b /\ nwr b = nwr b0 + n * n /\ length (cells b) = n * n /\
      forall r c, r < n -> c < n ->
        get (cells b) (r * n + c) =
        if c <? r then get A (r * n + c) else if c =? r then one else zero.
  Proof.
    intros HA Hlen. unfold triL1.
    apply (square4 (triL1_row T zero one n A) (p_triL1 n A) n b0 Hlen).
    intros r b Hr Hi. apply triL1_row_ok; auto. rewrite Hlen; nia.
  Qed.

  Theorem triU_ok n A b0 :
    length A = n * n -> length (cells b0) = n * n ->
    exists b, triU T zero n A b0 = Ok b /\ nwr b = nwr b0 + n * n /\ length (cells b) = n * n /\
      forall r c, r < n -> c < n ->
        get (cells b) (r * n + c) = if r <=? c then get A (r * n + c) else zero.
  Proof.
    intros HA Hlen. unfold triU.
    apply (square4 (triU_row T zero n A) (p_triU n A) n b0 Hlen).
    intros r b Hr Hi. apply (triU_row_ok n n); auto. rewrite Hlen; nia.
  Qed.

  Theorem triU1_ok n A b0 :
    length A = n * n -> length (cells b0) = n * n ->
    exists b, triU1 T zero one n A b0 = Ok b /\ nwr b = nwr b0 + n * n /\ length (cells b) = n * n /\
      forall r c, r < n -> c < n ->
        get (cells b) (r * n + c) =
        if c <? r then zero else if c =? r then one else get A (r * n + c).
  Proof.
    intros HA Hlen. unfold triU1.
    apply (square4 (triU1_row T zero one n A) (p_triU1 n A) n b0 Hlen).
    intros r b Hr Hi. apply triU1_row_ok; auto. rewrite Hlen; nia.
  Qed.

  (* rectangular extraction *)
  Theorem triL2_ok m n A b0 :
    length A = m * n -> length (cells b0) = m * n ->
    exists b, triL2 T zero m n A b0 = Ok b /\ nwr b = nwr b0 + m * n /\ length (cells b) = m * n /\
      forall r c, r < m -> c < n ->
        get (cells b) (r * n + c) = if c <=? r then get A (r * n + c) else zero.
  Proof.
    intros HA Hlen. unfold triL2.
    assert (HM : amin m n <= m /\ amin m n <= n).
    { unfold amin. destruct (Nat.ltb_spec m n); lia. }
    destruct HM as (HMm & HMn).
    destruct (rows4 T zero (triL_row T zero n A) (lin n (p_triL n A)) b0 n 0 (amin m n) (amin m n) b0)
      as (b1 & Hw & I1).
    - intros r b Hr Hi. apply (triL_row_ok m n); auto; try lia. rewrite Hlen; nia.
    - apply SeqInv_init.
    - lia.
    - lia.
    - change (0 * n) with 0 in Hw. rewrite Hw. cbn [bind].
      destruct (le_lt_dec m n) as [Hmn|Hmn].
      + assert (amin m n = m) as EM by (unfold amin; destruct (Nat.ltb_spec m n); lia).
        rewrite EM in *.
        rewrite while_false by (apply Nat.ltb_ge; lia). cbn [bind].
        exists b1. split; [reflexivity|].
        apply (SeqInv_final T zero n (p_triL n A) b0 m b1 I1 Hlen).
      + assert (amin m n = n) as EM by (unfold amin; destruct (Nat.ltb_spec m n); lia).
        rewrite EM in *.
        destruct (rows4 T zero (copy_row T n A) (lin n (p_triL n A)) b0 n n m m b1) as (b2 & Hw2 & I2).
        * intros r b Hr Hi. apply (copy_row_ok m n); auto; try lia. { rewrite Hlen; nia. }
          intros c Hc. rewrite lin_idx by lia. unfold p_triL. cmp.
        * exact I1.
        * lia.
        * lia.
        * rewrite Hw2. cbn [bind]. exists b2. split; [reflexivity|].
          apply (SeqInv_final T zero n (p_triL n A) b0 m b2 I2 Hlen).
  Qed.

  Theorem triU2_ok m n A b0 :
    length A = m * n -> length (cells b0) = m * n ->
    exists b, triU2 T zero m n A b0 = Ok b /\ nwr b = nwr b0 + m * n /\ length (cells b) = m * n /\
      forall r c, r < m -> c < n ->
        get (cells b) (r * n + c) = if r <=? c then get A (r * n + c) else zero.
  Proof.
    intros HA Hlen. unfold triU2.
    assert (HM : amin m n <= m /\ amin m n <= n).
    { unfold amin. destruct (Nat.ltb_spec m n); lia. }
    destruct HM as (HMm & HMn).
    destruct (rows4 T zero (triU_row T zero n A) (lin n (p_triU n A)) b0 n 0 (amin m n) (amin m n) b0)
      as (b1 & Hw & I1).
    - intros r b Hr Hi. apply (triU_row_ok m n); auto; try lia. rewrite Hlen; nia.
    - apply SeqInv_init.
    - lia.
    - lia.
    - change (0 * n) with 0 in Hw. rewrite Hw. cbn [bind].
      destruct (le_lt_dec m n) as [Hmn|Hmn].
      + assert (amin m n = m) as EM by (unfold amin; destruct (Nat.ltb_spec m n); lia).
        rewrite EM in *.
        rewrite while_false by (apply Nat.ltb_ge; lia). cbn [bind].
        exists b1. split; [reflexivity|].
        apply (SeqInv_final T zero n (p_triU n A) b0 m b1 I1 Hlen).
      + assert (amin m n = n) as EM by (unfold amin; destruct (Nat.ltb_spec m n); lia).
        rewrite EM in *.
        destruct (rows3 T zero (const_row T n zero) (lin n (p_triU n A)) b0 n n m m b1) as (b2 & Hw2 & I2).
        * intros r b Hr Hi. apply const_row_ok; [exact Hi|rewrite Hlen; nia|].
          intros c Hc. rewrite lin_idx by lia. unfold p_triU. cmp.
        * exact I1.
        * lia.
        * lia.
        * rewrite Hw2. cbn [bind]. exists b2. split; [reflexivity|].
          apply (SeqInv_final T zero n (p_triU n A) b0 m b2 I2 Hlen).
  Qed.

End Pat.
