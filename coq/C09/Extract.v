Require Extraction.
Require Import ExtrOcamlBasic.
From LibaV Require Import C09.LinalgDefs.
Extraction "C09/extracted/linalg_model.ml" runZ.
