Require Extraction.
Require Import ExtrOcamlBasic.
From LibaV Require Import C09.LinalgDefs C09.LinalgWide.
Extraction "C09/extracted/linalg_model.ml" runZ diag1NZ diag2NZ.
