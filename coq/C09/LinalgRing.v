(* C09 - consequences that relate the routines to each other.
   Part 1 (no algebraic law): each transposed product is the plain product of the
   correspondingly transposed operands (transposes computed by the model's own T2).
   Part 2 (commutative ring, `ring_theory`): the accumulation order is immaterial,
   (X Y)^T = Y^T X^T as computed by mulTT / T2 / mulmm, eye1 is a left and right unit
   of mulmm.  Part 3: the instances Z and R (for R the sums are the standard library's
   sum_f_R0). *)
From Coq Require Import List Arith Bool Lia Ring ZArith Reals.
From LibaV Require Import C09.LinalgDefs C09.LinalgSpec C09.LinalgLemmas C09.LinalgTProofs
     C09.LinalgPatProofs C09.LinalgMulProofs.
Import ListNotations.

Section NoLaws.
  Variable T : Type.
  Variables (zero one : T) (add mul : T -> T -> T).

  Local Notation get l k := (nth k l zero).
  Local Notation sum := (dotsum T zero add).

  Lemma dotsum_ext k f g : (forall t, t < k -> f t = g t) -> sum k f = sum k g.
  Proof.
    induction k as [|k IH]; intros H; simpl; [reflexivity|].
    rewrite IH by (intros; apply H; lia). rewrite H by lia. reflexivity.
  Qed.

  (* mulTm(X, Y) = mulmm(X^T, Y) *)
  Theorem mulTm_as_mulmm c_r row col X Y bt b0 b1 :
    U32 c_r -> U32 row -> U32 col ->
    length X = c_r * row -> length Y = c_r * col ->
    length (cells bt) = row * c_r -> length (cells b0) = row * col -> length (cells b1) = row * col ->
    exists xt z1 z2,
      T2 T c_r row X bt = Ok xt /\
      mulTm T zero add mul c_r row col X Y b0 = Ok z1 /\
      mulmm T zero add mul row c_r col (cells xt) Y b1 = Ok z2 /\
      cells z1 = cells z2.
  Proof.
    intros Uk Ur Uc HX HY Ht H0 H1.
    destruct (T2_ok T zero c_r row X bt Uk Ur HX Ht) as (xt & Hxt & _ & Hlt & Hvt).
    destruct (mulTm_ok T zero add mul c_r row col X Y HX HY Ur Uc b0 H0) as (z1 & Hz1 & _ & Hl1 & Hv1).
    destruct (mulmm_ok T zero add mul row c_r col (cells xt) Y Hlt HY Ur Uc b1 H1) as (z2 & Hz2 & _ & Hl2 & Hv2).
    exists xt, z1, z2. repeat (split; [assumption|]).
    apply (mat_ext T zero row col); [assumption|assumption|].
    intros i j Hi Hj. rewrite Hv1, Hv2 by assumption.
    apply dotsum_ext. intros t Ht'. rewrite Hvt by assumption. reflexivity.
  Qed.

  (* mulmT(X, Y) = mulmm(X, Y^T) *)
  Theorem mulmT_as_mulmm row col c_r X Y bt b0 b1 :
    U32 row -> U32 col -> U32 c_r ->
    length X = row * c_r -> length Y = col * c_r ->
    length (cells bt) = c_r * col -> length (cells b0) = row * col -> length (cells b1) = row * col ->
    exists yt z1 z2,
      T2 T col c_r Y bt = Ok yt /\
      mulmT T zero add mul row col c_r X Y b0 = Ok z1 /\
      mulmm T zero add mul row c_r col X (cells yt) b1 = Ok z2 /\
      cells z1 = cells z2.
  Proof.
    intros Ur Uc Uk HX HY Ht H0 H1.
    destruct (T2_ok T zero col c_r Y bt Uc Uk HY Ht) as (yt & Hyt & _ & Hlt & Hvt).
    destruct (mulmT_ok T zero add mul row col c_r X Y HX HY Ur Uc Uk b0 H0) as (z1 & Hz1 & _ & Hl1 & Hv1).
    destruct (mulmm_ok T zero add mul row c_r col X (cells yt) HX Hlt Ur Uc b1 H1) as (z2 & Hz2 & _ & Hl2 & Hv2).
    exists yt, z1, z2. repeat (split; [assumption|]).
    apply (mat_ext T zero row col); [assumption|assumption|].
    intros i j Hi Hj. rewrite Hv1, Hv2 by assumption.
    apply dotsum_ext. intros t Ht'. rewrite Hvt by assumption. reflexivity.
  Qed.

  (* mulTT(X, Y) = mulmm(X^T, Y^T) *)
  Theorem mulTT_as_mulmm row c_r col X Y btx bty b0 b1 :
    U32 row -> U32 c_r -> U32 col ->
    length X = c_r * row -> length Y = col * c_r ->
    length (cells btx) = row * c_r -> length (cells bty) = c_r * col ->
    length (cells b0) = row * col -> length (cells b1) = row * col ->
    exists xt yt z1 z2,
      T2 T c_r row X btx = Ok xt /\ T2 T col c_r Y bty = Ok yt /\
      mulTT T zero add mul row c_r col X Y b0 = Ok z1 /\
      mulmm T zero add mul row c_r col (cells xt) (cells yt) b1 = Ok z2 /\
      cells z1 = cells z2.
  Proof.
    intros Ur Uk Uc HX HY Htx Hty H0 H1.
    destruct (T2_ok T zero c_r row X btx Uk Ur HX Htx) as (xt & Hxt & _ & Hlx & Hvx).
    destruct (T2_ok T zero col c_r Y bty Uc Uk HY Hty) as (yt & Hyt & _ & Hly & Hvy).
    destruct (mulTT_ok T zero add mul row c_r col X Y HX HY Ur Uk Uc b0 H0) as (z1 & Hz1 & _ & Hl1 & Hv1).
    destruct (mulmm_ok T zero add mul row c_r col (cells xt) (cells yt) Hlx Hly Ur Uc b1 H1)
      as (z2 & Hz2 & _ & Hl2 & Hv2).
    exists xt, yt, z1, z2. repeat (split; [assumption|]).
    apply (mat_ext T zero row col); [assumption|assumption|].
    intros i j Hi Hj. rewrite Hv1, Hv2 by assumption.
    apply dotsum_ext. intros t Ht'. rewrite Hvx, Hvy by assumption. reflexivity.
  Qed.
End NoLaws.

Section CommRing.
  Variable T : Type.
  Variables (zero one : T) (add mul sub : T -> T -> T) (opp : T -> T).
  Hypothesis Rth : ring_theory zero one add mul sub opp (@eq T).
  Add Ring Tring : Rth.

  Local Notation get l k := (nth k l zero).
  Local Notation sum := (dotsum T zero add).

  Lemma dotsum_shift k f : sum (S k) f = add (f 0) (sum k (fun t => f (S t))).
  Proof.
    induction k as [|k IH]; [simpl; ring|].
    change (sum (S (S k)) f) with (add (sum (S k) f) (f (S k))). rewrite IH. simpl. ring.
  Qed.

  (* the accumulation order is immaterial in a commutative ring: summing downwards
     gives the same value *)
  Theorem dotsum_rev k f : sum k f = sum k (fun t => f (k - 1 - t)).
  Proof.
    revert f. induction k as [|k IH]; intros f; [reflexivity|].
    rewrite dotsum_shift. simpl.
    replace (k - 0 - k) with 0 by lia.
    rewrite (IH (fun t => f (S t))).
    rewrite (Radd_comm Rth). f_equal.
    apply dotsum_ext. intros t Ht. f_equal. lia.
  Qed.

  Lemma dotsum_delta_l k i (g : nat -> T) :
    sum k (fun t => mul (if i =? t then one else zero) (g t)) = if i <? k then g i else zero.
  Proof.
    induction k as [|k IH]; [reflexivity|]. simpl. rewrite IH.
    destruct (Nat.ltb_spec i k), (Nat.ltb_spec i (S k)), (Nat.eqb_spec i k); try lia; subst; ring.
  Qed.

  Lemma dotsum_delta_r k j (g : nat -> T) :
    sum k (fun t => mul (g t) (if t =? j then one else zero)) = if j <? k then g j else zero.
  Proof.
    induction k as [|k IH]; [reflexivity|]. simpl. rewrite IH.
    destruct (Nat.ltb_spec j k), (Nat.ltb_spec j (S k)), (Nat.eqb_spec k j); try lia; subst; ring.
  Qed.

  (* (X Y)^T = Y^T X^T :  mulTT(X, Y) is the transpose (T2) of mulmm(Y, X)
     X is c_r x row, Y is col x c_r *)
  Theorem mul_transpose row c_r col X Y b0 b1 b2 :
    U32 row -> U32 c_r -> U32 col ->
    length X = c_r * row -> length Y = col * c_r ->
    length (cells b0) = row * col -> length (cells b1) = col * row -> length (cells b2) = row * col ->
    exists z1 p z2,
      mulTT T zero add mul row c_r col X Y b0 = Ok z1 /\
      mulmm T zero add mul col c_r row Y X b1 = Ok p /\
      T2 T col row (cells p) b2 = Ok z2 /\
      cells z1 = cells z2.
  Proof.
    intros Ur Uk Uc HX HY H0 H1 H2.
    destruct (mulTT_ok T zero add mul row c_r col X Y HX HY Ur Uk Uc b0 H0) as (z1 & Hz1 & _ & Hl1 & Hv1).
    destruct (mulmm_ok T zero add mul col c_r row Y X HY HX Uc Ur b1 H1) as (p & Hp & _ & Hlp & Hvp).
    destruct (T2_ok T zero col row (cells p) b2 Uc Ur Hlp H2) as (z2 & Hz2 & _ & Hl2 & Hv2).
    exists z1, p, z2. repeat (split; [assumption|]).
    apply (mat_ext T zero row col); [assumption|assumption|].
    intros i j Hi Hj. rewrite Hv1, Hv2, Hvp by assumption.
    apply dotsum_ext. intros t Ht. apply (Rmul_comm Rth).
  Qed.

  (* eye1 is a left unit: I_n Y = Y *)
  Theorem mulmm_eye_l n col Y be b0 :
    U32 n -> U32 col -> length Y = n * col -> length (cells be) = n * n -> length (cells b0) = n * col ->
    exists e z, eye1 T zero one n be = Ok e /\
                mulmm T zero add mul n n col (cells e) Y b0 = Ok z /\ cells z = Y.
  Proof.
    intros Un Uc HY He H0.
    destruct (eye1_ok T zero one n be He) as (e & Hee & _ & Hle & Hve).
    destruct (mulmm_ok T zero add mul n n col (cells e) Y Hle HY Un Uc b0 H0) as (z & Hz & _ & Hlz & Hvz).
    exists e, z. repeat (split; [assumption|]).
    apply (mat_ext T zero n col); [assumption|assumption|].
    intros i j Hi Hj. rewrite Hvz by assumption.
    rewrite (dotsum_ext T zero add n _ (fun t => mul (if i =? t then one else zero) (get Y (t * col + j)))).
    - rewrite dotsum_delta_l. destruct (Nat.ltb_spec i n); [reflexivity|lia].
    - intros t Ht. rewrite Hve by assumption. reflexivity.
  Qed.

  (* eye1 is a right unit: X I_n = X *)
  Theorem mulmm_eye_r row n X be b0 :
    U32 row -> U32 n -> length X = row * n -> length (cells be) = n * n -> length (cells b0) = row * n ->
    exists e z, eye1 T zero one n be = Ok e /\
                mulmm T zero add mul row n n X (cells e) b0 = Ok z /\ cells z = X.
  Proof.
    intros Ur Un HX He H0.
    destruct (eye1_ok T zero one n be He) as (e & Hee & _ & Hle & Hve).
    destruct (mulmm_ok T zero add mul row n n X (cells e) HX Hle Ur Un b0 H0) as (z & Hz & _ & Hlz & Hvz).
    exists e, z. repeat (split; [assumption|]).
    apply (mat_ext T zero row n); [assumption|assumption|].
    intros i j Hi Hj. rewrite Hvz by assumption.
    rewrite (dotsum_ext T zero add n _ (fun t => mul (get X (i * n + t)) (if t =? j then one else zero))).
    - rewrite dotsum_delta_r. destruct (Nat.ltb_spec j n); [reflexivity|lia].
    - intros t Ht. rewrite Hve by assumption. reflexivity.
  Qed.
End CommRing.

(* ------------------------------------------------------------------ *)
(* instances                                                          *)

Definition Z_ring : ring_theory 0%Z 1%Z Z.add Z.mul Z.sub Z.opp (@eq Z) := InitialRing.Zth.
Definition R_ring : ring_theory 0%R 1%R Rplus Rmult Rminus Ropp (@eq R) := RealField.RTheory.

(* over R the accumulated sum is the standard library's finite sum *)
Lemma dotsum_sum_f_R0 k (f : nat -> R) : dotsum R 0%R Rplus (S k) f = sum_f_R0 f k.
Proof.
  induction k as [|k IH].
  - simpl. apply Rplus_0_l.
  - change (dotsum R 0%R Rplus (S (S k)) f) with (Rplus (dotsum R 0%R Rplus (S k) f) (f (S k))).
    rewrite IH. reflexivity.
Qed.

Theorem mulmm_R_sum_f_R0 row k col (X Y : list R) (b0 : buf R) :
  U32 row -> U32 col -> length X = row * S k -> length Y = S k * col -> length (cells b0) = row * col ->
  exists b, mulmm R 0%R Rplus Rmult row (S k) col X Y b0 = Ok b /\
    forall i j, i < row -> j < col ->
      ent R 0%R col (cells b) i j =
      sum_f_R0 (fun t => (ent R 0%R (S k) X i t * ent R 0%R col Y t j)%R) k.
Proof.
  intros Ur Uc HX HY H0.
  destruct (mulmm_ok R 0%R Rplus Rmult row (S k) col X Y HX HY Ur Uc b0 H0) as (b & Hb & _ & _ & Hv).
  exists b. split; [exact Hb|]. intros i j Hi Hj.
  unfold ent. rewrite Hv by assumption. apply dotsum_sum_f_R0.
Qed.
